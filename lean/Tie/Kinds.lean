import Generated.Facts
import Model.Prog
/-! Tie: the option-kind table of `option.New` and the iota orders, as read from the current source,
are the ones the model uses. -/
namespace Tie
open GoModel

def goName : Kind → String
  | .bool => "BoolType" | .incr => "IncrementType" | .str => "StringType" | .int => "IntType"
  | .flt => "Float64Type" | .strOpt => "StringOptionalType" | .intOpt => "IntOptionalType"
  | .fltOpt => "Float64OptionalType" | .strs => "StringRepeatType" | .ints => "IntRepeatType"
  | .flts => "Float64RepeatType" | .map => "StringMapType"

def allKinds : List Kind := [.bool, .incr, .str, .int, .flt, .strOpt, .intOpt, .fltOpt, .strs, .ints, .flts, .map]

/-- every kind is declared in the source with the model's row for it -/
def kindTableAgrees : Bool :=
  Generated.kindTable.length == allKinds.length &&
  allKinds.all fun k => Generated.kindTable.any fun r =>
    r.1 == goName k && b r.2.1 == k.table.1 && r.2.2.1 == k.table.2.1 && r.2.2.2.1 == k.table.2.2 &&
    r.2.2.2.2 == k.isOptional

example : kindTableAgrees = true := by decide

/-- the order of `option.Type` constants is the order of the harness' kind numbering -/
example : Generated.optionTypeOrder = allKinds.map goName := by decide

/-- an optional-argument kind never has a mandatory argument (the model drops the `IsOptional`
tests of the minimum loop on this ground) -/
example : (Generated.kindTable.all fun r => !r.2.2.2.2 || r.2.2.1 == 0) = true := by decide

example : Generated.modeOrder = ["Normal", "Bundling", "SingleDash"] := by decide
example : Generated.unknownModeOrder = ["Fail", "Warn", "Pass"] := by decide

end Tie

import Generated.Facts
/-! Tie (C20): every `range` over a Go map in the modelled packages either feeds a sort before its
result is used, or sits in a function whose result the model proves independent of the order
(listed here with the reason). -/
namespace Tie

/-- functions whose map loops are order-insensitive by construction -/
def orderInsensitive : List (String × String) := [
  ("api.go", "getAliasNameFromPartialEntry"),     -- result sorted by the caller before use
  ("api.go", "parseCLIArgs"),                     -- command lookup: exact key, at most one hit; completion lists sorted
  ("user.go", "copyOptionsFromParent"),           -- writes distinct keys
  ("user_help.go", "helpOutput"),                 -- collected options are sorted by name in help.Synopsis/OptionList
  ("user_help.go", "HelpCommand"),                -- suggestions are sorted when offered
  ("user_help.go", "runHelp"),                    -- unique name match
  ("user_help.go", "runOnParentAndChildrenCommands"),
  ("dag/dag.go", "getNextVertex"),                -- scheduling choice: any ready vertex (C13-C16 quantify over it)
  ("dag/dag.go", "DepthFirstSort")                -- any topological order is acceptable
]

def mapOrderOk : Bool :=
  Generated.mapRanges.all fun r => r.2.2.2.1 || orderInsensitive.contains (r.1, r.2.1)

example : mapOrderOk = true := by decide

/-- the loops that must stay sorted (removing the sort call is caught here on every run) -/
example : (Generated.mapRanges.filter fun r => r.2.1 == "checkRequired").all (·.2.2.2.1) = true := by decide
example : (Generated.mapRanges.filter fun r => r.2.1 == "CommandList").all (·.2.2.2.1) = true := by decide

/-- no clock, no random source, no unsafe in the modelled packages -/
def forbiddenImports : List String := ["time", "math/rand", "unsafe", "crypto/rand"]
example : ((Generated.importsIsOption ++ Generated.importsApi ++ Generated.importsUser ++
    Generated.importsUserOptions ++ Generated.importsUserHelp ++ Generated.importsOption ++
    Generated.importsHelp).all fun i => !forbiddenImports.contains i) = true := by decide

end Tie

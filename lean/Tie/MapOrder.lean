import Generated.Facts
/-! Tie (C20): every `range` over a Go map in the modelled packages either feeds a sort before its
result is used, or ranges over one of the tables whose iteration order the model proves unobservable
(listed here with the reason). -/
namespace Tie

/-- map-typed tables whose iteration order cannot be observed, per package (the reason is a theorem of
`Props/C20.lean` or a sort downstream); a `range` over anything else must be followed by a sort -/
def orderInsensitive : List (String × String) := [
  (".", "ChildOptions"),          -- abbreviation candidates: sorted by the caller / resolve_order_independent;
                                  -- completion candidates: sorted (completion_order_independent);
                                  -- copyOptionsFromParent writes distinct keys; checkRequired sorts;
                                  -- help: help_text_order_independent
  (".", "ChildCommands"),         -- command lookup by exact key; completion candidates sorted; tree walks visit
                                  -- every child; help: help_text_order_independent, topic lookup by unique name
  ("dag", "Vertices")             -- scheduling choice / any topological order (C13-C16 quantify over it)
]

def mapOrderOk : Bool :=
  Generated.mapRanges.all fun r => r.2.2.2.1 || orderInsensitive.contains (r.1, r.2.2.1)

example : mapOrderOk = true := by decide

/-- the loops that must stay sorted (removing the sort call is caught here on every run) -/
example : (Generated.mapRanges.filter fun r => r.2.1 == "checkRequired").all (·.2.2.2.1) = true := by decide
example : (Generated.mapRanges.filter fun r => r.2.1 == "CommandList").all (·.2.2.2.1) = true := by decide

/-- no clock, no random source, no unsafe in the modelled packages -/
def forbiddenImports : List String := ["time", "math/rand", "unsafe", "crypto/rand"]
example : ((Generated.importsRoot ++ Generated.importsOption ++
    Generated.importsHelp).all fun i => !forbiddenImports.contains i) = true := by decide

end Tie

import Generated.Facts
import Model.Basic
set_option maxRecDepth 8000
/-! Tie (C13-C16): structural facts of `dag.Run` the scheduler model relies on. -/
namespace Tie
/-- completions are handed over on an unbuffered channel (a `recv` happens after the matching send): every channel
made in the package whose element type is not `struct{}` has no capacity -/
example : Generated.doneChanCap = "0" := by decide
/-- the semaphore (the channels of `struct{}`) has `maxParallel` slots -/
example : Generated.semaphoreCap = "g.maxParallel" := by decide
/-- the scheduler status is written only by the scheduler goroutine — no write sits in a goroutine body (a function
literal under `go`, or a function a `go` statement calls) — and exactly these statuses are written -/
example : Generated.statusWrites = ["scheduler: runDone", "scheduler: runInProgress", "scheduler: runSkip"] := by decide
/-- some goroutine of the package (the task goroutine) acquires a semaphore slot first and releases it in a
deferred call (written in place, or through functions whose first statement is the send resp. the receive) -/
example : (Generated.goroutineHeads.any fun h =>
    GoModel.hasPrefix (GoModel.b h) (GoModel.b "send semaphore; defer recv semaphore")) = true := by decide
/-- the task goroutine holds the Task's mutex from before its first attempt until it returns
(`x.Lock(); defer x.Unlock()` ahead of the attempt loop): the ground of `holdsLock` in `Lemmas/SharedTask.lean` -/
example : Generated.taskLockBeforeAttempts = true := by decide
example : Generated.runStatusOrder = ["runPending", "runInProgress", "runSkip", "runDone"] := by decide
end Tie

import Generated.Facts
import Model.Basic
set_option maxRecDepth 8000
/-! Tie (C13-C16): structural facts of `dag.Run` the scheduler model relies on. -/
namespace Tie
/-- completions are handed over on an unbuffered channel (a `recv` happens after the matching send) -/
example : Generated.doneChanCap = "0" := by decide
/-- the semaphore has `maxParallel` slots -/
example : Generated.semaphoreCap = "g.maxParallel" := by decide
/-- the scheduler status is written only by the scheduler goroutine (`Run`, `skipParents` called from it) -/
example : Generated.statusWrites = ["Run: g.Vertices[iderr.ID].status = runDone", "Run: v.status = runInProgress",
  "Run: v.status = runInProgress", "skipParents: c.status = runSkip"] := by decide
/-- the task goroutine acquires a semaphore slot first and releases it in a deferred call -/
example : GoModel.hasPrefix (GoModel.b (Generated.goroutineHeads.getD 2 "")) (GoModel.b "send semaphore; defer func{...}") = true := by decide
example : Generated.runStatusOrder = ["runPending", "runInProgress", "runSkip", "runDone"] := by decide
end Tie

import Generated.Facts
import Model.Basic
set_option maxRecDepth 8000
/-! Tie (C13-C16): structural facts of `dag.Run` the scheduler model relies on. -/
namespace Tie
/-- completions are handed over on an unbuffered channel (a `recv` happens after the matching send) -/
example : Generated.doneChanCap = "0" := by decide
/-- the semaphore has `maxParallel` slots -/
example : Generated.semaphoreCap = "g.maxParallel" := by decide
/-- the scheduler status is written only by the scheduler goroutine (`Run`, `skipParents` called from it):
which function moves a vertex to which status -/
example : Generated.statusWrites = ["Run: runDone", "Run: runInProgress", "skipParents: runSkip"] := by decide
/-- some goroutine started by `Run` (the task goroutine) acquires a semaphore slot first and releases it in a
deferred call -/
example : (Generated.goroutineHeads.any fun h =>
    GoModel.hasPrefix (GoModel.b h) (GoModel.b "send semaphore; defer func{...}")) = true := by decide
example : Generated.runStatusOrder = ["runPending", "runInProgress", "runSkip", "runDone"] := by decide
end Tie

import Generated.Facts
/-! Tie: the regular expressions the model re-implements as total functions. -/
namespace Tie
example : Generated.isOptionRegex = "(?s)^(--?)([^=]+)(.*?)$" := by decide
example : Generated.compLineSplitRegex = "\\s+" := by decide
end Tie

import Generated.Facts
/-! Tie: which option kinds each type switch handles. -/
namespace Tie
/-- greedy lookahead: one clause per multi-value kind -/
example : Generated.greedySwitch =
  [["StringRepeatType"], ["IntRepeatType"], ["Float64RepeatType"], ["StringMapType"]] := by decide
/-- min/max validation applies to exactly the multi-value kinds -/
example : Generated.addChildOptionSwitch =
  [["StringRepeatType", "IntRepeatType", "Float64RepeatType", "StringMapType"]] := by decide
/-- the synopsis switch covers all twelve kinds, multi-value kinds in the second clause -/
example : Generated.synopsisSwitch =
  [["BoolType", "IncrementType", "StringType", "IntType", "Float64Type", "StringOptionalType",
    "IntOptionalType", "Float64OptionalType"],
   ["StringRepeatType", "IntRepeatType", "Float64RepeatType", "StringMapType"]] := by decide
end Tie

import Generated.Facts
/-! Tie: which option kinds each type switch handles. -/
namespace Tie
/-- greedy lookahead (wherever the switch lives in api.go): the multi-value kinds are told apart —
no clause merges two kinds — and the three kinds with a format test each have a clause -/
example : (Generated.greedySwitch.all fun c => c.length ≤ 1) = true := by decide
example : (["IntRepeatType", "Float64RepeatType", "StringMapType"].all fun k => Generated.greedySwitch.flatten.contains k) = true := by decide
/-- min/max validation applies to exactly the multi-value kinds -/
example : Generated.addChildOptionSwitch =
  [["StringRepeatType", "IntRepeatType", "Float64RepeatType", "StringMapType"]] := by decide
/-- the synopsis switch covers all twelve kinds, multi-value kinds in the second clause -/
example : Generated.synopsisSwitch =
  [["BoolType", "IncrementType", "StringType", "IntType", "Float64Type", "StringOptionalType",
    "IntOptionalType", "Float64OptionalType"],
   ["StringRepeatType", "IntRepeatType", "Float64RepeatType", "StringMapType"]] := by decide
end Tie

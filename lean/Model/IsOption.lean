import Model.Basic
/-!
# The token splitter (`isoption.go`)

`isOption s mode = (pairs, is)` mirrors `isOption(s, mode, false)`.
The regular expression `(?s)^(--?)([^=]+)(.*?)$` is modelled directly: the dashes, then the longest
run of non-`=` bytes (at least one), then the rest.  `--` followed by `=` backtracks to a single dash whose name
is `-`; since the token starts with `--` it is nevertheless handled by the long-option branch.
-/
namespace GoModel

inductive Mode | normal | bundling | singleDash
deriving DecidableEq, Repr, Inhabited

structure Pair where
  opt : Str
  args : List Str
deriving DecidableEq, Repr, Inhabited

/-- text up to the first `=` (exclusive) -/
def nameOf (s : Str) : Str := s.takeWhile (· != chEq)
/-- text from the first `=` (inclusive) to the end: regex group 3 -/
def restOf (s : Str) : Str := s.dropWhile (· != chEq)
/-- the attached argument list: group 3 without its leading `=`, dropped when empty -/
def attached (g3 : Str) : List Str :=
  match g3 with
  | [] => []
  | _ :: a => if a.isEmpty then [] else [a]

/-- result of the regular expression: `(isLong, group2, group3)` -/
def splitDashes (s : Str) : Option (Bool × Str × Str) :=
  match s with
  | 45 :: 45 :: c :: r =>
    if c != chEq then some (true, nameOf (c :: r), restOf (c :: r))
    else some (true, [chDash], c :: r)           -- `--=…`: the regex backtracks to one dash and the name `-`;
                                                 -- a token starting with `--` is still a long option
  | 45 :: c :: r =>
    if c != chEq then some (false, nameOf (c :: r), restOf (c :: r)) else none
  | _ => none

def bundlePairs (letters : List Str) (args : List Str) : List Pair :=
  match letters with
  | [] => []
  | [l] => [⟨l, args⟩]
  | l :: ls => ⟨l, []⟩ :: bundlePairs ls args

def isOption (s : Str) (mode : Mode) : List Pair × Bool :=
  if s == [chDash, chDash] then ([⟨[chDash, chDash], []⟩], false)
  else if s == [chDash] then ([⟨[chDash], []⟩], true)
  else match splitDashes s with
    | none => ([], false)
    | some (true, name, g3) => ([⟨name, attached g3⟩], true)
    | some (false, name, g3) =>
      match mode with
      | .normal => ([⟨name, attached g3⟩], true)
      | .bundling => (bundlePairs (explode name) (attached g3), true)
      | .singleDash =>
        let w := utf8Width name
        if name.length > w || g3.length > 0
        then ([⟨name.take w, [name.drop w ++ g3]⟩], true)
        else ([⟨name.take w, []⟩], true)

/-- the lookahead test used on values: "does this token look like an option" -/
def looksLikeOption (s : Str) (mode : Mode) : Bool := (isOption s mode).2

end GoModel

import Model.Save
/-!
# The argument loop (`parseCLIArgs`, api.go) as a left fold of a one-token step

`parseCLIArgs` never looks beyond the token it is about to consume, so the loop is written inside
out: `run args = args.foldl step init`, `finish` handles the end of input.  The context `ctx` records
whether an option occurrence is still collecting arguments; `pending` holds the not yet processed
letters of a bundled token (a value-taking letter in the middle of a bundle consumes the following
tokens before the next letter is looked at).

Positional text and unknown options are kept as two logs in the parse state (`rem`, `unk`) instead of
per-node lists: the library appends them to the current node and `Parse` concatenates the lists
along the path root → final node, which is the same sequence because the current node only ever
moves from a node to one of its children.  `textStart` marks where the current node's own text
begins (the argument of `ArgCompletionsFn`).
-/
namespace GoModel

inductive Ctx
  | idle
  | collecting (o : Nat) (i : Nat)   -- option id, number of arguments saved so far
  | stopped                          -- after `--` or the require-order stop: the rest is text
  | done                             -- completion mode: candidates produced
deriving DecidableEq, Repr, Inhabited

structure PState where
  P : Prog
  cur : Nat := 0
  ctx : Ctx := .idle
  pending : List Pair := []
  tok : Str := []          -- the verbatim token the pending pairs came from
  passed : Bool := false   -- that token was already passed through
  lastTok : Str := []      -- `iterator.Value()`: the token most recently consumed
  err : Option PErr := none
  comps : Option (List Str) := none
  rem : List Str := []                 -- ChildText of the nodes on the path, in order
  unk : List (Str × UMode) := []       -- UnknownOptions: name and the unknown-mode of its level
  textStart : Nat := 0                 -- where the current node's own text starts in `rem`
deriving Repr, Inhabited, DecidableEq

def PState.addText (s : PState) (t : Str) : PState := { s with rem := s.rem ++ [t] }

def dashdash : Str := [chDash, chDash]

/-- lookahead test of the greedy loop: is `t` well-formed for the element type -/
def typeOk (ext : Ext) (k : Kind) (t : Str) : Bool :=
  match k with
  | .ints => (atoi t).isSome
  | .flts => ext.floatOk t
  | .map => containsByte t chEq
  | _ => true

/-! ## Completion candidates (api.go, "Completions" block) -/

def trimDash (s : Str) : Str := match s with
  | 45 :: r => r
  | _ => s

/-- text after the first `=` (`strings.SplitN(c, "=", 2)[1]`) -/
def afterEq (s : Str) : Str := match splitFirst chEq s with
  | (_, some r) => r
  | (_, none) => []

def valueCands (target : Str) (k w : Str) (vals : List Str) : List Str :=
  vals.filterMap fun e =>
    let c := b "--" ++ k ++ [chEq] ++ e
    if hasPrefix c w then some (if target == b "bash" then afterEq c else c) else none

/-- one iteration of the loop over `ChildOptions`; state = (completions, lastOpt) -/
def optCandStep (ext : Ext) (target : Str) (P : Prog) (w part : Str)
    (acc : List Str × Option Nat) (kv : Str × Nat) : List Str × Option Nat :=
  let (k, oid) := kv
  let o := P.opt oid
  if k == [chDash] then
    (if w == [chDash] then (acc.1 ++ [k], acc.2) else acc)
  else
    let acc1 : List Str × Option Nat :=
      if hasPrefix k part then
        (acc.1 ++ [b "--" ++ k ++ (if o.kind != .bool then [chEq] else [])], some oid)
      else acc
    if containsByte part chEq && hasPrefix part (k ++ [chEq]) then
      let c1 := if o.suggested.isEmpty then [] else valueCands target k w o.suggested
      let c2 := match o.suggestFn with
        | some f => valueCands target k w (ext.valueFn f target (afterEq w))
        | none => []
      (acc1.1 ++ c1 ++ c2, some oid)
    else acc1

def optionCompletions (ext : Ext) (target : Str) (P : Prog) (nd : Node) (w : Str) : List Str :=
  let part := trimDash (trimDash w)
  let (cs, last) := nd.opts.foldl (optCandStep ext target P w part) ([], none)
  let cs := sortStrs cs
  match cs, last with
  | [c], some oid =>
    if hasSuffix c [chEq] then
      let o := P.opt oid
      let extra :=
        if !o.suggested.isEmpty then o.suggested.map fun e => c ++ e
        else [c ++ (if o.helpArgName.isEmpty then b "<value>" else b "<" ++ o.helpArgName ++ b ">")]
      sortStrs (cs ++ extra)
    else cs
  | _, _ => cs

def argCompletions (ext : Ext) (target : Str) (nd : Node) (text : List Str) (w : Str) : List Str :=
  let c1 := (nd.cmds.filter fun kv => hasPrefix kv.1 w).map (·.1)
  let c2 := nd.suggestions.filter fun e => hasPrefix e w
  let c3 := nd.suggestFns.flatMap fun f => ext.argFn f target text w
  let cs := sortStrs (c1 ++ c2 ++ c3)
  match cs with
  | [c] => if target == b "bash" then [c ++ [chSp]] else cs
  | _ => cs

def completionsAt (ext : Ext) (target : Str) (P : Prog) (nd : Node) (text : List Str) (w : Str) : List Str :=
  if hasPrefix w [chDash] then optionCompletions ext target P nd w else argCompletions ext target nd text w

/-! ## One option occurrence -/

/-- a matched or unmatched `(option, attached args)` pair at the current node (`ctx = idle`) -/
def procPair (ext : Ext) (s : PState) (p : Pair) : PState :=
  let nd := s.P.node s.cur
  match resolve nd p.opt with
  | [] =>
    if nd.requireOrder then
      { s.addText s.tok with ctx := .stopped, pending := [] }
    else
      let s1 := { s with unk := s.unk ++ [(p.opt, nd.umode)] }
      if nd.umode != .fail && !s.passed then { s1.addText s.tok with passed := true } else s1
  | [key] =>
    match lookup key nd.opts with
    | none => s
    | some oid =>
      let o := { s.P.opt oid with called := true, usedAlias := key, lowerKeys := (s.P.node 0).mapKeysToLower }
      match save ext (s.P.node 0).mapKeysToLower o p.args with
      | .error e => { s with P := s.P.setOpt oid o, err := some e }
      | .ok o' =>
        let i := p.args.length
        if (i : Int) < o'.max then { s with P := s.P.setOpt oid o', ctx := .collecting oid i }
        else { s with P := s.P.setOpt oid o' }
  | k1 :: k2 :: ks => { s with err := some (.ambiguous s.lastTok (sortStrs (k1 :: k2 :: ks))) }

/-- A token arrives while option `o` (with `i` arguments so far) is collecting.
Returns the new state and whether the token was consumed. -/
def offer (ext : Ext) (mode : Mode) (s : PState) (o i : Nat) (t : Str) : PState × Bool :=
  let opt := s.P.opt o
  let saveTok : PState × Bool :=
    match save ext (s.P.node 0).mapKeysToLower opt [t] with
    | .error e => ({ s with err := some e, lastTok := t }, true)
    | .ok o' =>
      ({ s with P := s.P.setOpt o o', lastTok := t,
                ctx := if ((i + 1 : Nat) : Int) < o'.max then .collecting o (i + 1) else .idle }, true)
  if (i : Int) < opt.min then
    if looksLikeOption t mode then ({ s with err := some (.dashArg opt.usedAlias) }, true)
    else saveTok
  else if looksLikeOption t mode || t == dashdash || !typeOk ext opt.kind t then
    ({ s with ctx := .idle }, false)
  else saveTok

/-- process pending pairs eagerly (no token at hand) until one starts collecting -/
def drain (ext : Ext) (s : PState) : List Pair → PState
  | [] => { s with pending := [] }
  | p :: ps =>
    let s1 := procPair ext { s with pending := ps } p
    if s1.err.isSome then s1
    else match s1.ctx with
      | .idle => drain ext s1 ps
      | .collecting _ _ => { s1 with pending := ps }
      | _ => { s1 with pending := [] }

def afterConsume (ext : Ext) (s : PState) (ps : List Pair) : PState :=
  if s.err.isSome then s
  else match s.ctx with
    | .idle => drain ext s ps
    | _ => { s with pending := ps }

/-- a token at a head position (`ctx = idle`, nothing pending) -/
def head (ext : Ext) (mode : Mode) (comp : Option Str) (s : PState) (t : Str) : PState :=
  match comp with
  | some target =>
    { s with comps := some (completionsAt ext target s.P (s.P.node s.cur) (s.rem.drop s.textStart) t),
             ctx := .done }
  | none =>
    if t == dashdash then { s with ctx := .stopped }
    else match isOption t mode with
      | (pairs, true) => drain ext { s with tok := t, lastTok := t, passed := false } pairs
      | (_, false) =>
        let nd := s.P.node s.cur
        match lookup t nd.cmds with
        | some c => { s with cur := c, textStart := s.rem.length }
        | none => if nd.requireOrder then { s.addText t with ctx := .stopped } else s.addText t

/-- the open occurrence refused `t`: go through the pending pairs, offering `t` to each occurrence
they open, until `t` is consumed or reaches a head position -/
def feedPending (ext : Ext) (mode : Mode) (comp : Option Str) (t : Str) (s : PState) :
    List Pair → PState
  | [] => head ext mode comp { s with pending := [] } t
  | p :: ps =>
    let s1 := procPair ext { s with pending := ps } p
    if s1.err.isSome then s1
    else match s1.ctx with
      | .idle => feedPending ext mode comp t s1 ps
      | .collecting o i =>
        match offer ext mode s1 o i t with
        | (s2, true) => afterConsume ext s2 ps
        | (s2, false) => feedPending ext mode comp t s2 ps
      | _ => { s1.addText t with pending := [] }

def stepG (ext : Ext) (mode : Mode) (comp : Option Str) (s : PState) (t : Str) : PState :=
  if s.err.isSome then s
  else match s.ctx with
    | .done => s
    | .stopped => s.addText t
    | .idle => head ext mode comp s t
    | .collecting o i =>
      match offer ext mode s o i t with
      | (s1, true) => afterConsume ext s1 s1.pending
      | (s1, false) => feedPending ext mode comp t s1 s1.pending

def step (ext : Ext) (mode : Mode) : PState → Str → PState := stepG ext mode none

/-- end of input: pending pairs are still processed; an occurrence below its minimum fails -/
def finishDrain (ext : Ext) (s : PState) : List Pair → PState
  | [] => { s with pending := [] }
  | p :: ps =>
    let s1 := procPair ext { s with pending := ps } p
    if s1.err.isSome then s1
    else match s1.ctx with
      | .collecting o i =>
        if (i : Int) < (s1.P.opt o).min then { s1 with err := some (.missingArg (s1.P.opt o).usedAlias) }
        else finishDrain ext { s1 with ctx := .idle } ps
      | .idle => finishDrain ext s1 ps
      | _ => { s1 with pending := [] }

def finish (ext : Ext) (s : PState) : PState :=
  if s.err.isSome then s
  else match s.ctx with
    | .collecting o i =>
      if (i : Int) < (s.P.opt o).min then { s with err := some (.missingArg (s.P.opt o).usedAlias) }
      else finishDrain ext { s with ctx := .idle } s.pending
    | _ => s

def initState (P : Prog) : PState := { P := P }

def run (ext : Ext) (mode : Mode) (P : Prog) (args : List Str) : PState :=
  args.foldl (step ext mode) (initState P)

/-- `parseCLIArgs("", tree, args, mode)` -/
def parseArgs (ext : Ext) (mode : Mode) (P : Prog) (args : List Str) : PState :=
  finish ext (run ext mode P args)

/-- `parseCLIArgs(target, tree, words, mode)` for a non-empty word list -/
def completeArgs (ext : Ext) (mode : Mode) (target : Str) (P : Prog) (words : List Str) : PState :=
  match words.getLast? with
  | none => initState P
  | some w => finish ext (stepG ext mode (some target) (run ext mode P words.dropLast) w)

end GoModel

import Model.Basic
/-! placeholder, replaced below -/
namespace GoModel.Dag
structure DriverState where
  dummy : Nat := 0
def handle (d : DriverState) (_ws : List String) : DriverState × Option String := (d, some "bad-op")
end GoModel.Dag

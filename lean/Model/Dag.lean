import Model.Basic
/-!
# The DAG task runner (dag/dag.go)

* graph construction (`AddTask`, `TaskDependsOn`, `TaskRetries`, with `*Task` arguments given directly, looked
  up by `g.Task(id)` or taken from a `TaskMap`; `TaskMap.Add/Get`, `Validate`) as a fold over the call history;
* `DepthFirstSort` / `visit` (fuel-structural, children loop as a fold);
* `Graph.Run` as a labelled transition system: `step? cfg s ev` is deterministic given the event, so it
  is both the semantics the theorems are about and the acceptor that replays traces of the real
  scheduler (events come from the `verif` hooks and the harness' task functions).

Task ids are numbers (`0` stands for the empty ID); Go pointers to vertices are the ids themselves
(after the `AddTask` repair a vertex is never replaced, so "the vertex registered under an ID" and
"the vertex other vertices point to" are the same thing — `build_children_registered` proves it).
-/
namespace GoModel.Dag

/-! ## Construction -/

/-- where a `*Task` argument comes from: written by the caller, `g.Task(id)`, or `tm.Get(id)` -/
inductive Src | direct | graph | tmap
deriving DecidableEq, Repr, Inhabited

/-- a `*Task` argument: `none` = nil pointer; id 0 = empty ID; `hasFn = false` = nil function.  With
`src = graph` / `tmap` the argument is the expression `g.Task(id)` / `tm.Get(id)`, evaluated when the
call is made (`hasFn` is then ignored: the looked-up task decides). -/
structure TaskRef where
  id : Nat
  hasFn : Bool := true
  src : Src := .direct
deriving DecidableEq, Repr, Inhabited

inductive GOp
  | addTask (t : Option TaskRef)
  | dependsOn (t : Option TaskRef) (deps : List (Option TaskRef))
  | retries (t : Option TaskRef) (n : Int)
  | lookup (t : Option TaskRef)            -- a `g.Task(id)` / `tm.Get(id)` call whose result is dropped
  | tmAdd (id : Nat) (hasFn : Bool)        -- `tm.Add(id, fn)`
deriving DecidableEq, Repr, Inhabited

inductive BuildErr
  | taskNil | taskID | taskFn (id : Nat) | depDuplicate (a c : Nat)
  | taskNotFound (id : Nat) | taskDuplicate (id : Nat)
deriving DecidableEq, Repr, Inhabited

structure Vertex where
  id : Nat
  children : List Nat := []
  parents : List Nat := []
  retries : Int := 0
deriving DecidableEq, Repr, Inhabited

structure GState where
  verts : List Vertex := []          -- `g.Vertices`, in insertion order (map order is arbitrary)
  errs : List BuildErr := []
  tm : List (Nat × Bool) := []       -- the `TaskMap`: id ↦ "the task has a function" (last `Add` first)
  tmErrs : List BuildErr := []       -- errors collected by the `TaskMap`
deriving DecidableEq, Repr, Inhabited

def GState.find (g : GState) (id : Nat) : Option Vertex := g.verts.find? (·.id == id)
def GState.has (g : GState) (id : Nat) : Bool := g.verts.any (·.id == id)
def GState.modify (g : GState) (id : Nat) (f : Vertex → Vertex) : GState :=
  { g with verts := g.verts.map fun v => if v.id == id then f v else v }

/-- `addTask`: validation, then keep the existing vertex (only its Task changes) or create one -/
def addTask (g : GState) (t : Option TaskRef) : Except BuildErr GState :=
  match t with
  | none => .error .taskNil
  | some t =>
    if t.id == 0 then .error .taskID
    else if !t.hasFn then .error (.taskFn t.id)
    else if g.has t.id then .ok g
    else .ok { g with verts := g.verts ++ [{ id := t.id }] }

/-- `retrieveOrAddVertex` -/
def retrieveOrAdd (g : GState) (t : Option TaskRef) : Except BuildErr (GState × Nat) :=
  match t with
  | none => .error .taskNil
  | some t =>
    if g.has t.id then .ok (g, t.id)
    else match addTask g (some t) with
      | .ok g' => .ok (g', t.id)
      | .error e => .error e

/-- the loop over the dependencies of one `TaskDependsOn` call; an error stops the call -/
def addDeps (g : GState) (v : Nat) : List (Option TaskRef) → GState
  | [] => g
  | d :: ds =>
    match retrieveOrAdd g d with
    | .error e => { g with errs := g.errs ++ [e] }
    | .ok (g1, c) =>
      if ((g1.find v).map (·.children)).getD [] |>.contains c then
        { g1 with errs := g1.errs ++ [.depDuplicate v c] }
      else
        let g2 := g1.modify v fun x => { x with children := x.children ++ [c] }
        let g3 := g2.modify c fun x => { x with parents := x.parents ++ [v] }
        addDeps g3 v ds

/-- `tm.Add(id, fn)`: the three checks each record their error, then the task is stored anyway -/
def tmAdd (g : GState) (id : Nat) (hasFn : Bool) : GState :=
  let e1 := if id == 0 then [BuildErr.taskID] else []
  let e2 := if !hasFn then [BuildErr.taskFn id] else []
  let e3 := if g.tm.any (·.1 == id) then [BuildErr.taskDuplicate id] else []
  { g with tm := (id, hasFn) :: g.tm.filter (·.1 != id), tmErrs := g.tmErrs ++ e1 ++ e2 ++ e3 }

/-- one `*Task` argument evaluated: `g.Task(id)` returns the registered task (which has a function, `addTask`
admits no other) or records `ErrorTaskNotFound` in the graph and returns an empty task; `tm.Get(id)` does
the same against the `TaskMap`. -/
def evalRef (g : GState) (t : Option TaskRef) : GState × Option TaskRef :=
  match t with
  | none => (g, none)
  | some t =>
    match t.src with
    | .direct => (g, some t)
    | .graph =>
      if g.has t.id then (g, some { id := t.id, hasFn := true })
      else ({ g with errs := g.errs ++ [.taskNotFound t.id] }, some { id := t.id, hasFn := false })
    | .tmap =>
      match g.tm.find? (·.1 == t.id) with
      | some (_, f) => (g, some { id := t.id, hasFn := f })
      | none => ({ g with tmErrs := g.tmErrs ++ [.taskNotFound t.id] }, some { id := t.id, hasFn := false })

/-- the arguments of one call, left to right (Go evaluates them all before the call) -/
def evalRefs (g : GState) : List (Option TaskRef) → GState × List (Option TaskRef)
  | [] => (g, [])
  | t :: ts =>
    let (g1, t') := evalRef g t
    let (g2, ts') := evalRefs g1 ts
    (g2, t' :: ts')

/-- the call itself, its arguments already evaluated -/
def buildCore (g : GState) (op : GOp) : GState :=
  match op with
  | .lookup _ => g
  | .tmAdd id f => tmAdd g id f
  | .addTask t =>
    match addTask g t with
    | .ok g' => g'
    | .error e => { g with errs := g.errs ++ [e] }
  | .dependsOn t deps =>
    match retrieveOrAdd g t with
    | .error e => { g with errs := g.errs ++ [e] }
    | .ok (g1, v) => addDeps g1 v deps
  | .retries t n =>
    match retrieveOrAdd g t with
    | .error e => { g with errs := g.errs ++ [e] }
    -- `TaskRetries`: a negative number means no retries (the task still runs once)
    | .ok (g1, v) => g1.modify v fun x => { x with retries := if n < 0 then 0 else n }

def buildStep (g : GState) (op : GOp) : GState :=
  match op with
  | .addTask t => let (g1, t') := evalRef g t; buildCore g1 (.addTask t')
  | .dependsOn t deps =>
    let (g1, t') := evalRef g t
    let (g2, deps') := evalRefs g1 deps
    buildCore g2 (.dependsOn t' deps')
  | .retries t n => let (g1, t') := evalRef g t; buildCore g1 (.retries t' n)
  | .lookup t => (evalRef g t).1
  | .tmAdd id f => buildCore g (.tmAdd id f)

/-- `g.Validate(tm)`: the `TaskMap`'s errors if it has any, else the graph's -/
def validate (g : GState) (withTM : Bool) : List BuildErr :=
  if withTM && !g.tmErrs.isEmpty then g.tmErrs else g.errs

def buildGraph (ops : List GOp) : GState := ops.foldl buildStep {}

def GState.children (g : GState) (v : Nat) : List Nat := ((g.find v).map (·.children)).getD []
def GState.parents (g : GState) (v : Nat) : List Nat := ((g.find v).map (·.parents)).getD []
def GState.retriesOf (g : GState) (v : Nat) : Int := ((g.find v).map (·.retries)).getD 0
def GState.ids (g : GState) : List Nat := g.verts.map (·.id)

/-! ## DepthFirstSort -/

inductive Mark | unvisited | visited | traversed
deriving DecidableEq, Repr, Inhabited

structure DfsState where
  status : Nat → Mark := fun _ => .unvisited
  sorted : List Nat := []

def DfsState.set (s : DfsState) (v : Nat) (m : Mark) : DfsState :=
  { s with status := fun x => if x = v then m else s.status x }

inductive DfsErr | cycle (v : Nat) | fuel
deriving DecidableEq, Repr, Inhabited

/-- `visit`: structural on fuel; the loop over the children is a monadic fold -/
def visit (children : Nat → List Nat) : Nat → DfsState → Nat → Except DfsErr DfsState
  | 0, _, _ => .error .fuel
  | fuel + 1, s, v =>
    match s.status v with
    | .traversed => .ok s
    | .visited => .error (.cycle v)
    | .unvisited =>
      match (children v).foldlM (fun st c => visit children fuel st c) (s.set v .visited) with
      | .error e => .error e
      | .ok s1 => .ok { status := (s1.set v .traversed).status, sorted := s1.sorted ++ [v] }

/-- the outer loop of `DepthFirstSort` over `order` (any permutation of the ids: map iteration) -/
def dfsLoop (children : Nat → List Nat) (fuel : Nat) : List Nat → DfsState → Except DfsErr DfsState
  | [], s => .ok s
  | v :: r, s =>
    match s.status v with
    | .unvisited =>
      match visit children fuel s v with
      | .error e => .error e
      | .ok s1 => dfsLoop children fuel r s1
    | _ => dfsLoop children fuel r s

def dfsFrom (g : GState) (order : List Nat) : Except DfsErr (List Nat) :=
  (dfsLoop g.children (g.verts.length + 1) order {}).map (·.sorted)

def dfs (g : GState) : Except DfsErr (List Nat) := dfsFrom g g.ids

/-! ## The scheduler as a labelled transition system -/

inductive St | pending | inProgress | skip | done
deriving DecidableEq, Repr, Inhabited

/-- result of a task attempt / completion message -/
inductive Res | ok | err | skipParents | taskSkipped
deriving DecidableEq, Repr, Inhabited

/-- what a vertex' goroutine is doing -/
inductive Flight
  | none
  | waitSem | waitLock
  | idle (k : Nat)            -- between attempts: next attempt is number k
  | running (k : Nat)
  | sending (r : Res)
deriving DecidableEq, Repr, Inhabited

/-- an entry of the `*Errors` value returned by `Run` -/
inductive Entry | task (v : Nat) | skipped (v : Nat) | cancelled
deriving DecidableEq, Repr, Inhabited

structure VState where
  st : St := .pending
  fl : Flight := .none         -- the real task goroutine
  pseudo : List Res := []      -- outstanding completions of pseudo goroutines (skip / ErrorTaskSkipped)
  sem : Bool := false          -- holds a semaphore slot
  marked : Bool := false       -- ghost: was ever set to `skip`
  real : Bool := false         -- ghost: launched as a real task
  out : Option Res := none     -- ghost: last completion received
deriving DecidableEq, Repr, Inhabited

structure Cfg where
  g : GState
  serial : Bool := false
  maxParallel : Nat := 1000000

structure Sched where
  vs : Nat → VState := fun _ => {}
  errs : List Entry := []
  cancelled : Bool := false
  exited : Bool := false

def Sched.get (s : Sched) (v : Nat) : VState := s.vs v
def Sched.set (s : Sched) (v : Nat) (x : VState) : Sched :=
  { s with vs := fun y => if y = v then x else s.vs y }

def initSched : Sched := {}

inductive Event
  | recv (v : Nat) (r : Res)
  | pickReal (v : Nat) | pickSkip (v : Nat) | pickErr (v : Nat)
  | cancel | idle | exit
  | semAcq (v : Nat) | lockAcq (v : Nat)
  | enter (v : Nat) (k : Nat) | leave (v : Nat) (k : Nat) (r : Res)
  | semRel (v : Nat)
deriving DecidableEq, Repr, Inhabited

/-- `getNextVertex`'s readiness test -/
def ready (c : Cfg) (s : Sched) (v : Nat) : Bool :=
  ((s.get v).st == .pending || (s.get v).st == .skip) &&
  (c.g.children v).all fun ch => (s.get ch).st != .pending && (s.get ch).st != .inProgress

def anyInProgress (c : Cfg) (s : Sched) : Bool := c.g.ids.any fun v => (s.get v).st == .inProgress
def allDone (c : Cfg) (s : Sched) : Bool := c.g.ids.all fun v => (s.get v).st == .done
/-- may the scheduler pick now (serial mode: nothing may be in progress) -/
def mayPick (c : Cfg) (s : Sched) : Bool := !(c.serial && anyInProgress c s)
def holders (c : Cfg) (s : Sched) : Nat := (c.g.ids.filter fun v => (s.get v).sem).length

/-- all transitive parents of `v` (fuel = number of vertices) -/
def ancestors (g : GState) : Nat → Nat → List Nat
  | 0, _ => []
  | fuel + 1, v => (g.parents v).flatMap fun p => p :: ancestors g fuel p

/-- `skipParents`: every transitive parent is set to `skip` -/
def markAncestors (c : Cfg) (s : Sched) (v : Nat) : Sched :=
  (ancestors c.g (c.g.verts.length + 1) v).foldl
    (fun s a => s.set a { s.get a with st := .skip, marked := true }) s

/-- One event of `Run`.  `none` = the model cannot perform this event in this state. -/
def step? (c : Cfg) (s : Sched) (ev : Event) : Option Sched :=
  -- after the loop has ended only late semaphore releases of finished task goroutines can still be logged
  if s.exited && (match ev with | .semRel _ => false | _ => true) then none else
  match ev with
  | .pickReal v =>
    if c.g.has v && mayPick c s && ready c s v && (s.get v).st == .pending && s.errs.isEmpty then
      some (s.set v { s.get v with st := .inProgress, fl := .waitSem, real := true })
    else none
  | .pickSkip v =>
    if c.g.has v && mayPick c s && ready c s v && (s.get v).st == .skip then
      some (s.set v { s.get v with st := .inProgress, pseudo := .ok :: (s.get v).pseudo })
    else none
  | .pickErr v =>
    if c.g.has v && mayPick c s && ready c s v && (s.get v).st == .pending && !s.errs.isEmpty then
      some (s.set v { s.get v with st := .inProgress, pseudo := .taskSkipped :: (s.get v).pseudo })
    else none
  | .recv v r =>
    let x := s.get v
    if c.g.has v && (x.pseudo.contains r || x.fl == .sending r) then
      let x1 : VState :=
        if x.fl == .sending r then { x with st := .done, fl := .none, out := some r }
        else { x with st := .done, pseudo := x.pseudo.erase r, out := some r }
      let s1 := s.set v x1
      match r with
      | .ok => some s1
      | .skipParents => some (markAncestors c s1 v)
      | .err => some { s1 with errs := s1.errs ++ [.task v] }
      | .taskSkipped => some { s1 with errs := s1.errs ++ [.skipped v] }
    else none
  | .cancel =>
    if s.cancelled then none else some { s with cancelled := true, errs := s.errs ++ [.cancelled] }
  | .idle =>
    -- `getNextVertex` found nothing to launch
    if allDone c s then none
    else if mayPick c s && c.g.ids.any (fun v => ready c s v) then none
    else some s
  | .exit => if allDone c s then some { s with exited := true } else none
  | .semAcq v =>
    let x := s.get v
    if x.fl == .waitSem && holders c s < c.maxParallel then some (s.set v { x with fl := .waitLock, sem := true })
    else none
  | .lockAcq v =>
    let x := s.get v
    if x.fl == .waitLock then some (s.set v { x with fl := .idle 0 }) else none
  | .enter v k =>
    let x := s.get v
    if x.fl == .idle k && (k : Int) ≤ c.g.retriesOf v then some (s.set v { x with fl := .running k }) else none
  | .leave v k r =>
    let x := s.get v
    if x.fl == .running k && r != .taskSkipped then
      if r == .ok || (k : Int) ≥ c.g.retriesOf v then some (s.set v { x with fl := .sending r })
      else some (s.set v { x with fl := .idle (k + 1) })
    else none
  | .semRel v =>
    let x := s.get v
    -- the slot is released after the completion was handed over (the log may show either order)
    if x.sem && (x.fl == .none || (match x.fl with | .sending _ => true | _ => false)) then
      some (s.set v { x with sem := false })
    else none

/-- replay a trace: the state reached, or the index of the first refused event -/
def accept (c : Cfg) : Sched → List Event → Nat → Except Nat Sched
  | s, [], _ => .ok s
  | s, ev :: evs, i =>
    match step? c s ev with
    | some s' => accept c s' evs (i + 1)
    | none => .error i

/-- what `Run` returns before any scheduling -/
inductive Pre | buildErrors | empty | cycle | schedule
deriving DecidableEq, Repr, Inhabited

def runPre (g : GState) : Pre :=
  if !g.errs.isEmpty then .buildErrors
  else if g.verts.isEmpty then .empty
  else match dfs g with
    | .error _ => .cycle
    | .ok _ => .schedule

/-! ## driver glue -/

structure DriverState where
  ops : List GOp := []
  serial : Bool := false
  maxParallel : Nat := 1000000
  events : List Event := []
deriving Inhabited

def parseRef (s : String) : Option (Option TaskRef) :=
  if s == "nil" then some none
  else match s.splitOn ":" with
    | [i, f] => i.toNat?.map fun n => some { id := n, hasFn := f == "1" }
    | [i, f, "g"] => i.toNat?.map fun n => some { id := n, hasFn := f == "1", src := .graph }
    | [i, f, "m"] => i.toNat?.map fun n => some { id := n, hasFn := f == "1", src := .tmap }
    | _ => none

def parseRes : String → Option Res
  | "ok" => some .ok | "err" => some .err | "skip" => some .skipParents | "tskip" => some .taskSkipped | _ => none

def parseEvent (ws : List String) : Option Event :=
  match ws with
  | ["recv", v, r] => do pure (.recv (← v.toNat?) (← parseRes r))
  | ["pickReal", v] => v.toNat?.map .pickReal
  | ["pickSkip", v] => v.toNat?.map .pickSkip
  | ["pickErr", v] => v.toNat?.map .pickErr
  | ["cancel"] => some .cancel
  | ["idle"] => some .idle
  | ["exit"] => some .exit
  | ["semAcq", v] => v.toNat?.map .semAcq
  | ["lockAcq", v] => v.toNat?.map .lockAcq
  | ["enter", v, k] => do pure (.enter (← v.toNat?) (← k.toNat?))
  | ["leave", v, k, r] => do pure (.leave (← v.toNat?) (← k.toNat?) (← parseRes r))
  | ["semRel", v] => v.toNat?.map .semRel
  | _ => none

def entryStr : Entry → String
  | .task v => "task:" ++ toString v
  | .skipped v => "skipped:" ++ toString v
  | .cancelled => "cancelled"

def buildErrStr : BuildErr → String
  | .taskNil => "nil" | .taskID => "id" | .taskFn i => "fn:" ++ toString i
  | .depDuplicate a c => "dup:" ++ toString a ++ ":" ++ toString c
  | .taskNotFound i => "notfound:" ++ toString i
  | .taskDuplicate i => "tmdup:" ++ toString i

def vertexStr (v : Vertex) : String :=
  toString v.id ++ "[" ++ ",".intercalate (v.children.map toString) ++ "|" ++
    ",".intercalate (v.parents.map toString) ++ "|" ++ toString v.retries ++ "]"

def insertNat (x : Nat) : List Nat → List Nat
  | [] => [x]
  | y :: ys => if x ≤ y then x :: y :: ys else y :: insertNat x ys
def sortNat : List Nat → List Nat
  | [] => []
  | x :: xs => insertNat x (sortNat xs)

/-- is `order` a valid answer of DepthFirstSort for `g`: every vertex once, children first -/
def validTopo (g : GState) (order : List Nat) : Bool :=
  sortNat order == sortNat g.ids &&
  (List.range order.length).all fun i =>
    (g.children (order.getD i 0)).all fun ch => (order.take i).contains ch

def handle (d : DriverState) (ws : List String) : DriverState × Option String :=
  match ws with
  | ["new"] => ({}, none)
  | ["add", t] => match parseRef t with
    | some t => ({ d with ops := d.ops ++ [.addTask t] }, none)
    | none => (d, some "bad-op")
  | "dep" :: t :: deps => match parseRef t, deps.mapM parseRef with
    | some t, some ds => ({ d with ops := d.ops ++ [.dependsOn t ds] }, none)
    | _, _ => (d, some "bad-op")
  | ["retries", t, n] => match parseRef t, n.toInt? with
    | some t, some n => ({ d with ops := d.ops ++ [.retries t n] }, none)
    | _, _ => (d, some "bad-op")
  | ["lookup", t] => match parseRef t with
    | some t => ({ d with ops := d.ops ++ [.lookup t] }, none)
    | none => (d, some "bad-op")
  | ["tmadd", t] => match parseRef t with
    | some (some t) => ({ d with ops := d.ops ++ [.tmAdd t.id t.hasFn] }, none)
    | _ => (d, some "bad-op")
  | ["validate", w] =>
    let g := buildGraph d.ops
    (d, some ("V errs=" ++ ";".intercalate ((validate g (w == "1")).map buildErrStr)))
  | ["serial"] => ({ d with serial := true }, none)
  | ["max", n] => match n.toNat? with
    | some n => ({ d with maxParallel := if n > 0 then n else d.maxParallel }, none)
    | none => (d, some "bad-op")
  | "ev" :: rest => match parseEvent rest with
    | some e => ({ d with events := d.events ++ [e] }, none)
    | none => (d, some "bad-op")
  | ["graph"] =>
    let g := buildGraph d.ops
    let pre := match runPre g with
      | .buildErrors => "builderrors" | .empty => "empty" | .cycle => "cycle" | .schedule => "schedule"
    (d, some ("G pre=" ++ pre ++ " errs=" ++ ";".intercalate (g.errs.map buildErrStr) ++ " verts=" ++
      ";".intercalate (g.verts.map vertexStr)))
  | "topo" :: order =>
    let g := buildGraph d.ops
    match order.mapM String.toNat? with
    | some o => (d, some ("T valid=" ++ (if validTopo g o then "1" else "0")))
    | none => (d, some "bad-op")
  | ["run"] =>
    let g := buildGraph d.ops
    let c : Cfg := { g := g, serial := d.serial, maxParallel := d.maxParallel }
    match accept c initSched d.events 0 with
    | .error i => (d, some ("R refused=" ++ toString i))
    | .ok s =>
      (d, some ("R accepted exited=" ++ (if s.exited then "1" else "0") ++ " errs=" ++
        ";".intercalate (s.errs.map entryStr) ++ " done=" ++ (if allDone c s then "1" else "0")))
  | _ => (d, some "bad-op")

end GoModel.Dag

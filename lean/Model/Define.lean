import Model.Parse
/-!
# Building a program definition from the script of API calls (user.go, user_options.go, user_help.go)

`build env script` interprets the calls exactly as the library does; a Go `panic` of the definition
layer (empty or duplicate name, bad min/max) becomes `DefErr`.
"Valid program definition" in the properties means `build env script = .ok P`.
-/
namespace GoModel

inductive Mod
  | alias (names : List Str)
  | description (s : Str)
  | setCalled (v : Bool)
  | required (msg : Option Str)
  | getEnv (name : Str)
  | argName (s : Str)
  | validValues (vs : List Str)
  | suggestedValues (vs : List Str)
  | suggestedValuesFn (f : Nat)
deriving Repr, Inhabited, DecidableEq

/-- One API call.  Nodes are referred to by handle: 0 is the root, `k` the k-th `cmd` call. -/
inductive DefOp
  | opt (node : Nat) (kind : Kind) (name : Str) (dflt : Val) (dstr : Str) (min max : Int) (mods : List Mod)
  | cmd (parent : Nat) (name desc : Str)
  | setFn (node fn : Nat)
  | setMode (node : Nat) (m : Mode)
  | setUMode (node : Nat) (m : UMode)
  | setRO (node : Nat)
  | unset (node : Nat)
  | mapKeys (node : Nat)
  | argComp (node : Nat) (l : List Str)
  | argCompFn (node : Nat) (f : Nat)
  | synArg (node : Nat) (arg desc : Str)
  | self (node : Nat) (name desc : Str)
  | help (node : Nat) (name : Str) (mods : List Mod)
deriving Repr, Inhabited, DecidableEq

inductive DefErr
  | emptyOptionName
  | duplicateOption (key : Str)
  | badMinMax (key : Str)
  | emptyCommandName
  | duplicateCommand (name : Str)
  | badHandle
deriving Repr, Inhabited, DecidableEq

abbrev Env := List (Str × Str)
def getenv (env : Env) (k : Str) : Str := (lookup k env).getD []

structure BState where
  P : Prog
  handles : List Nat     -- script handle ↦ node id
deriving Repr, Inhabited

/-- `AddChildOption` -/
def addChildOption (P : Prog) (n : Nat) (key : Str) (oid : Nat) : Except DefErr Prog :=
  if key.isEmpty then .error .emptyOptionName
  else if (lookup key (P.node n).opts).isSome then .error (.duplicateOption key)
  else
    let o := P.opt oid
    if o.kind.isRepeat && (o.min ≤ 0 || o.max ≤ 0 || o.max < o.min) then .error (.badMinMax key)
    else .ok (P.modNode n fun nd => { nd with opts := nd.opts ++ [(key, oid)] })

def addAliases (P : Prog) (n oid : Nat) : List Str → Except DefErr Prog
  | [] => .ok P
  | a :: r => do
    let P1 ← addChildOption P n a oid
    addAliases P1 n oid r

/-- the `GetEnv` modifier: reads the variable at definition time -/
def applyGetEnv (ext : Ext) (env : Env) (o : Opt) (name : Str) : Opt :=
  let o := { o with envVar := name }
  let value := getenv env name
  if value.isEmpty then o
  else match o.kind with
    | .bool =>
      let v := asciiLower value
      if v == b "true" || v == b "false" then
        match save ext false o [v] with
        | .ok o' => { o' with called := true, usedAlias := name }
        | .error _ => { o with called := true, usedAlias := name }
      else o
    | .str | .int | .flt | .strOpt | .intOpt | .fltOpt =>
      match save ext false o [value] with
      | .ok o' => { o' with called := true, usedAlias := name }
      | .error _ => { o with called := true, usedAlias := name }
    | _ => o

def applyMod (ext : Ext) (env : Env) (P : Prog) (n oid : Nat) (m : Mod) : Except DefErr Prog :=
  match m with
  | .alias names =>
    addAliases (P.modOpt oid fun o => { o with aliases := o.aliases ++ names }) n oid names
  | .description s => .ok (P.modOpt oid fun o => { o with description := s })
  | .setCalled v => .ok (P.modOpt oid fun o => { o with called := v })
  | .required msg => .ok (P.modOpt oid fun o => { o with required := true, requiredMsg := msg.getD [] })
  | .getEnv name => .ok (P.modOpt oid fun o => applyGetEnv ext env o name)
  | .argName s => .ok (P.modOpt oid fun o => { o with helpArgName := s })
  | .validValues vs =>
    .ok (P.modOpt oid fun o => { o with validValues := o.validValues ++ vs, suggested := o.validValues ++ vs })
  | .suggestedValues vs => .ok (P.modOpt oid fun o => { o with suggested := o.suggested ++ vs })
  | .suggestedValuesFn f => .ok (P.modOpt oid fun o => { o with suggestFn := some f })

def applyMods (ext : Ext) (env : Env) (P : Prog) (n oid : Nat) : List Mod → Except DefErr Prog
  | [] => .ok P
  | m :: r => do
    let P1 ← applyMod ext env P n oid m
    applyMods ext env P1 n oid r

def quoteStr (s : Str) : Str := [34] ++ s ++ [34]

/-- `DefaultStr` of `option.New` -/
def defaultStrOf (kind : Kind) (dflt : Val) (dstr : Str) : Str :=
  match kind, dflt with
  | .str, .s v => quoteStr v
  | .strOpt, .s v => v
  | .int, .i v | .intOpt, .i v | .incr, .i v => intToStr v
  | .flt, _ | .fltOpt, _ => dstr
  | .bool, .b v => if v then b "true" else b "false"
  | .strs, _ | .ints, _ | .flts, _ => b "[]"
  | .map, _ => b "{}"
  | _, _ => []

def valShapeOk : Kind → Val → Bool
  | .bool, .b _ => true
  | .incr, .i _ | .int, .i _ | .intOpt, .i _ => true
  | .str, .s _ | .strOpt, .s _ => true
  | .flt, .f _ | .fltOpt, .f _ => true
  | .strs, .ss _ | .ints, .is _ | .flts, .fs _ | .map, .m _ => true
  | _, _ => false

/-- one of the twelve option constructors (`Bool`, `StringVar`, `IntSlice`, …) -/
def defineOpt (ext : Ext) (env : Env) (P : Prog) (n : Nat) (kind : Kind) (name : Str) (dflt : Val)
    (dstr : Str) (min max : Int) (mods : List Mod) : Except DefErr Prog :=
  let (argName, tmin, tmax) := kind.table
  let o : Opt := {
    name := name, aliases := [name], kind := kind,
    min := if kind.isRepeat then min else tmin,
    max := if kind.isRepeat then max else tmax,
    helpArgName := argName,
    defaultStr := defaultStrOf kind dflt dstr,
    boolDefault := (match dflt with | .b v => v | _ => false),
    value := dflt }
  let oid := P.opts.length
  let P1 : Prog := { P with opts := P.opts ++ [o] }
  do
    let P2 ← addChildOption P1 n name oid
    applyMods ext env P2 n oid mods

/-- `copyOptionsFromParent` (fuel bounds the depth of the tree) -/
def copyOpts : Nat → Prog → Nat → Prog
  | 0, P, _ => P
  | fuel + 1, P, parent =>
    let pn := P.node parent
    let kids := pn.cmds.map (·.2)
    let P1 := kids.foldl (fun P c =>
      let cn := P.node c
      if cn.name == pn.helpName || cn.skipCopy then P
      else P.setNode c { cn with opts := pn.opts.foldl (fun acc kv => insertKV kv.1 kv.2 acc) cn.opts }) P
    kids.foldl (fun P c => copyOpts fuel P c) P1

/-- `AddChildCommand` + node creation; returns the new node id -/
def addChildCommand (P : Prog) (parent : Nat) (nd : Node) : Except DefErr (Prog × Nat) :=
  if nd.name.isEmpty then .error .emptyCommandName
  else if (lookup nd.name (P.node parent).cmds).isSome then .error (.duplicateCommand nd.name)
  else
    let id := P.nodes.length
    let P1 : Prog := { P with nodes := P.nodes ++ [nd] }
    .ok (P1.modNode parent fun p => { p with cmds := p.cmds ++ [(nd.name, id)] }, id)

/-- node ids of the subtree rooted at `n`, parent first (`runOnParentAndChildrenCommands`) -/
def subtree : Nat → Prog → Nat → List Nat
  | 0, _, n => [n]
  | fuel + 1, P, n => n :: ((P.node n).cmds.map (·.2)).flatMap (subtree fuel P)

def addHelpCmds (name : Str) : List Nat → Prog → Except DefErr Prog
  | [], P => .ok P
  | n :: r, P =>
    let nd := P.node n
    if nd.name == name then addHelpCmds name r P
    else do
      let h : Node := {
        name := name, helpName := name, parent := some n, isHelp := true,
        suggestions := (nd.cmds.map (·.1)).filter (· != name),
        synArgs := [(b "<topic>", [])] }
      let (P1, _) ← addChildCommand P n h
      addHelpCmds name r P1

def handle (s : BState) (h : Nat) : Except DefErr Nat :=
  match s.handles[h]? with
  | some n => .ok n
  | none => .error .badHandle

def buildStep (ext : Ext) (env : Env) (s : BState) (op : DefOp) : Except DefErr BState :=
  match op with
  | .opt h kind name dflt dstr min max mods => do
    let n ← handle s h
    if !valShapeOk kind dflt then .error .badHandle else
    let P ← defineOpt ext env s.P n kind name dflt dstr min max mods
    pure { s with P := P }
  | .cmd h name desc => do
    let p ← handle s h
    let pn := s.P.node p
    let nd : Node := { name := name, description := desc, helpName := pn.helpName, parent := some p,
                       mapKeysToLower := pn.mapKeysToLower, umode := pn.umode,
                       requireOrder := pn.requireOrder }
    let (P1, id) ← addChildCommand s.P p nd
    pure { P := copyOpts P1.nodes.length P1 p, handles := s.handles ++ [id] }
  | .setFn h f => do
    let n ← handle s h
    pure { s with P := s.P.modNode n fun nd => { nd with fn := some f } }
  | .setMode h m => do
    let n ← handle s h
    pure { s with P := s.P.modNode n fun nd => { nd with mode := m } }
  | .setUMode h m => do
    let n ← handle s h
    pure { s with P := s.P.modNode n fun nd => { nd with umode := m } }
  | .setRO h => do
    let n ← handle s h
    pure { s with P := s.P.modNode n fun nd => { nd with requireOrder := true } }
  | .unset h => do
    let n ← handle s h
    pure { s with P := s.P.modNode n fun nd => { nd with opts := [], skipCopy := true } }
  | .mapKeys h => do
    let n ← handle s h
    pure { s with P := s.P.modNode n fun nd => { nd with mapKeysToLower := true } }
  | .argComp h l => do
    let n ← handle s h
    pure { s with P := s.P.modNode n fun nd => { nd with suggestions := l } }
  | .argCompFn h f => do
    let n ← handle s h
    pure { s with P := s.P.modNode n fun nd => { nd with suggestFns := nd.suggestFns ++ [f] } }
  | .synArg h a d => do
    let n ← handle s h
    pure { s with P := s.P.modNode n fun nd => { nd with synArgs := nd.synArgs ++ [(a, d)] } }
  | .self h name desc => do
    let n ← handle s h
    -- an empty name stands for the executable's name
    pure { s with P := s.P.modNode n fun nd =>
      { nd with name := if name.isEmpty then ext.exeName else name, description := desc } }
  | .help h name mods => do
    let n ← handle s h
    let P1 ← defineOpt ext env s.P n .bool name (.b false) [] 0 0 mods
    let fuel := P1.nodes.length
    let P2 := (subtree fuel P1 n).foldl (fun P x => P.modNode x fun nd => { nd with helpName := name }) P1
    let P3 ← addHelpCmds name (subtree fuel P2 n) P2
    pure { s with P := copyOpts P3.nodes.length P3 n }

def buildFrom (ext : Ext) (env : Env) (s : BState) : List DefOp → Except DefErr BState
  | [] => .ok s
  | op :: r => do
    let s1 ← buildStep ext env s op
    buildFrom ext env s1 r

def emptyProg (rootName : Str) : BState :=
  { P := { nodes := [{ name := rootName }], opts := [] }, handles := [0] }

/-- `New()` followed by the script -/
def buildB (ext : Ext) (env : Env) (rootName : Str) (script : List DefOp) : Except DefErr BState :=
  buildFrom ext env (emptyProg rootName) script

def build (ext : Ext) (env : Env) (rootName : Str) (script : List DefOp) : Except DefErr Prog :=
  (buildB ext env rootName script).map (·.P)

end GoModel

import Model.Help
/-!
# `Parse`, `Dispatch`, completion entry (user.go)
-/
namespace GoModel

inductive UErr
  | parse (e : PErr)
  | missingRequired (name : Str) (custom : Option Str)   -- ErrorParsing-class
  | unknown (name : Str)
deriving DecidableEq, Repr, Inhabited

/-- `gopt.Called(name)` on the root table -/
def calledAtRoot (P : Prog) (name : Str) : Bool :=
  if name.isEmpty then false
  else match lookup name (P.node 0).opts with
    | some o => (P.opt o).called
    | none => false

/-- `checkRequired`: keys in sorted order, first required option that was not called -/
def checkRequired (P : Prog) (n : Nat) : Option UErr :=
  let nd := P.node n
  let keys := sortStrs (nd.opts.map (·.1))
  (keys.findSome? fun k =>
    match lookup k nd.opts with
    | some oid =>
      let o := P.opt oid
      if o.required && !o.called then
        some (UErr.missingRequired o.name (if o.requiredMsg.isEmpty then none else some o.requiredMsg))
      else none
    | none => none)

structure ParseOut where
  st : PState
  err : Option UErr := none
  remaining : Option (List Str) := none
  warnings : List Str := []          -- names of unknown options warned about, in order
deriving Repr, Inhabited, DecidableEq

/-- the unknown-option policy: each unknown option is judged by the mode of the level it was given
at, in command-line order; the first one at a `fail` level ends `Parse` -/
def unknownPolicy : List (Str × UMode) → List Str → (Option UErr × List Str)
  | [], warns => (none, warns)
  | (u, .fail) :: _, warns => (some (.unknown u), warns)
  | (u, .warn) :: r, warns => unknownPolicy r (warns ++ [u])
  | (_, .pass) :: r, warns => unknownPolicy r warns

def helpRequested (P : Prog) (n : Nat) : Bool :=
  let nd := P.node n
  !nd.helpName.isEmpty && calledAtRoot P nd.helpName

/-- the required-option check `Parse` performs itself: only when the final node is the root and help
was not requested -/
def requiredAtParse (s : PState) : Option UErr :=
  if (s.P.node s.cur).parent.isNone && !helpRequested s.P s.cur then checkRequired s.P s.cur else none

/-- `gopt.Parse(args)` without COMP_LINE -/
def parseUser (ext : Ext) (P : Prog) (args : List Str) : ParseOut :=
  let s := parseArgs ext (P.node 0).mode P args
  match s.err with
  | some e => { st := s, err := some (.parse e) }
  | none =>
    match requiredAtParse s with
    | some e => { st := s, err := some e }
    | none =>
      match unknownPolicy s.unk [] with
      | (some e, warns) => { st := s, err := some e, warnings := warns }
      | (none, warns) => { st := s, remaining := some s.rem, warnings := warns }

inductive SetValueOut
  | ok | notFound | error (e : PErr)
deriving DecidableEq, Repr, Inhabited

/-- `gopt.SetValue(name, values...)` on the `*GetOpt` of node `n`: the entry `name` of that node's table (a
name or an alias) goes through `Save`; `Called` / `CalledAs` are not touched; an undeclared name is
`ErrorNotFound`.  (The lower-casing flag a map option keeps from its last command-line match is not modelled:
the harness does not call `SetValue` on map options.) -/
def setValue (ext : Ext) (P : Prog) (n : Nat) (name : Str) (vals : List Str) : Prog × SetValueOut :=
  match lookup name (P.node n).opts with
  | none => (P, .notFound)
  | some oid =>
    match save ext (P.opt oid).lowerKeys (P.opt oid) vals with
    | .ok o' => (P.setOpt oid o', .ok)
    | .error e => (P, .error e)

inductive DispatchOut
  | helpCalled (text : Str)                 -- help written to Writer, ErrorHelpCalled
  | missingRequired (e : UErr)
  | ran (fn : Nat) (node : Nat) (args : List Str)
  | noCommandFn (name : Str)
  | noHelpTopic (arg : Str)
  | rootHelp (text : Str)                   -- help written, nil returned
deriving DecidableEq, Repr, Inhabited

/-- `gopt.Dispatch(ctx, remaining)` after a successful `Parse` -/
def dispatch (ext : Ext) (s : PState) (remaining : List Str) : DispatchOut :=
  let P := s.P
  let fin := P.node s.cur
  if helpRequested P s.cur then .helpCalled (helpOutput ext P s.cur [])
  else match checkRequired P s.cur with
    | some e => .missingRequired e
    | none =>
      if fin.isHelp then
        let parent := fin.parent.getD 0
        match remaining with
        | [] => .helpCalled (helpOutput ext P parent [])
        | a :: _ =>
          match lookup a (P.node parent).cmds with
          | some c => .helpCalled (helpOutput ext P c [])
          | none => .noHelpTopic a
      else match fin.fn with
        | some f => .ran f s.cur remaining
        | none =>
          if fin.parent.isSome then
            if fin.cmds.length > 1 then .helpCalled (helpOutput ext P s.cur []) else .noCommandFn fin.name
          else .rootHelp (helpOutput ext P s.cur [])

/-! ## Completion entry -/

def isWs (c : UInt8) : Bool := c == 9 || c == 10 || c == 12 || c == 13 || c == 32

/-- `regexp.MustCompile(`\s+`).Split(s, -1)` -/
def splitWsAux : Str → Str → Bool → List Str
  | [], cur, _ => [cur.reverse]
  | c :: r, cur, prevWs =>
    if isWs c then (if prevWs then splitWsAux r cur true else cur.reverse :: splitWsAux r [] true)
    else splitWsAux r (c :: cur) false

def splitWs (s : Str) : List Str := splitWsAux s [] false

inductive CompOut
  | candidates (l : List Str)      -- printed one per line to the completion writer, then exit 124
  | error (e : PErr)               -- "\nERROR: …" on Writer, then exit 124
deriving DecidableEq, Repr, Inhabited

/-- the COMP_LINE branch of `Parse`; `args` are the arguments `Parse` was called with -/
def completeUser (ext : Ext) (P : Prog) (zsh : Bool) (compLine : Str) (args : List Str) : CompOut :=
  let target := if zsh then b "zsh" else b "bash"
  let parts := splitWs compLine
  let parts :=
    if parts.getLast? == some [] && args.length > 2 && args[1]? != some [] then parts.dropLast else parts
  let s := completeArgs ext (P.node 0).mode target P parts
  match s.err with
  | some e => .error e
  | none => .candidates (s.comps.getD [])

end GoModel

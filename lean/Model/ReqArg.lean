import Model.Help
/-!
# `helpers.go`: `GetRequiredArg`, `GetRequiredArgInt`, `GetRequiredArgFloat64`

The object keeps a counter (`SynopsisArgsIdx`) of how many required arguments it has been asked for; it is used
for nothing else, so the model takes it as an argument and returns the new one.  An empty argument list writes
the "missing argument" line — naming the `idx`-th argument declared with `HelpSynopsisArg` when there is one —
followed by the requested help sections (the synopsis when none are given) and returns `ErrorHelpCalled`.
`n` is the node of the object (its `SynopsisArgs` name the argument), `hn` the node whose help `Help` prints:
the level the last `Parse` on this object ended at, `n` itself for an object `Parse` was never called on.
-/
namespace GoModel

inductive ReqKind | str | int | float
deriving DecidableEq, Repr

inductive ReqOut
  /-- the argument (for `int` / `float`: the text that converts) and the rest of the list -/
  | ok (v : Str) (rest : List Str)
  /-- nothing to take: what is written (argument name if declared, help text); the list is returned as it is -/
  | missing (named : Option Str) (help : Str)
  /-- the argument does not convert; the rest is returned all the same -/
  | convInt (a : Str) (rest : List Str)
  | convFloat (a : Str) (rest : List Str)
deriving DecidableEq, Repr

def getRequiredArg (ext : Ext) (P : Prog) (n hn idx : Nat) (kind : ReqKind) (args : List Str)
    (secs : List Section) : Nat × ReqOut :=
  match args with
  | [] =>
    (idx + 1, .missing (((P.node n).synArgs[idx]?).map (·.1))
      (helpOutput ext P hn (if secs.isEmpty then [.synopsis] else secs)))
  | a :: rest =>
    (idx + 1,
      match kind with
      | .str => .ok a rest
      | .int => match atoi a with
        | some _ => .ok a rest
        | none => .convInt a rest
      | .float => if ext.floatOk a then .ok a rest else .convFloat a rest)

end GoModel

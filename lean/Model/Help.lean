import Model.Define
/-!
# Help text (user_help.go `helpOutput`, internal/help/help.go)

The option lists are computed first (`helpOptions`, `requiredOpts`, `normalOpts`: option ids), the
text is rendered from them.  Theorems are stated on the lists; byte-for-byte equality of `helpOutput`
with the real text is what the correspondence check establishes.
-/
namespace GoModel

/-- `HelpSection`; `none` is `HelpNone`, which prints nothing -/
inductive Section | defaultName | name | synopsis | commandList | optionList | commandInfo | none
deriving DecidableEq, Repr, Inhabited

def spaces (n : Nat) : Str := List.replicate n chSp
def indent4 (s : Str) : Str := spaces 4 ++ s

/-- `strings.ReplaceAll(s, "\n", r)` -/
def replaceNl (s r : Str) : Str := s.flatMap fun c => if c == chNl then r else [c]

/-- `fmt.Sprintf("%-Ns", s)`: pad on the right to `n` runes -/
def padTo (doPad : Bool) (s : Str) (n : Nat) : Str :=
  if doPad then s ++ spaces (n - runeCount s) else s

/-- every alias of an option as it is displayed (`--long`, `-s`, lonesome dash), joined by `|` -/
def aliasText (o : Opt) : Str :=
  joinWith (b "|") (o.aliases.map fun e =>
    if e.length > 1 then b "--" ++ e else if e != [chDash] then [chDash] ++ e else e)

/-- the argument part of a synopsis: ` <name>` unless bool, `...` for several arguments -/
def synTail (o : Opt) : Str :=
  (if o.kind != .bool then b " <" ++ o.helpArgName ++ b ">" else []) ++ (if o.max > 1 then b "..." else [])

/-- `Option.Synopsis()`: the `HelpSynopsis` string -/
def synopsisOf (o : Opt) : Str := aliasText o ++ synTail o

def insertByName (P : Prog) (x : Nat) : List Nat → List Nat
  | [] => [x]
  | y :: ys => if strLe (P.opt x).name (P.opt y).name then x :: y :: ys else y :: insertByName P x ys

/-- `option.Sort` (names are unique within a level) -/
def sortByName (P : Prog) : List Nat → List Nat
  | [] => []
  | x :: xs => insertByName P x (sortByName P xs)

/-- the options of a level with aliases filtered out (`k != option.Name` skipped), in map order -/
def helpOptions (P : Prog) (nd : Node) : List Nat :=
  (nd.opts.filter fun kv => kv.1 == (P.opt kv.2).name).map (·.2)

def requiredOpts (P : Prog) (nd : Node) : List Nat :=
  sortByName P ((helpOptions P nd).filter fun o => (P.opt o).required)
def normalOpts (P : Prog) (nd : Node) : List Nat :=
  sortByName P ((helpOptions P nd).filter fun o => !(P.opt o).required)

/-- children listed in help: every entry of the command table except the help command, under the name it
is registered (and invoked) with -/
def helpCommands (nd : Node) : List (Str × Nat) :=
  nd.cmds.filter fun kv => kv.1 != nd.helpName

/-- `getCurrentNodeName` -/
def scriptName (P : Prog) (n : Nat) : Str :=
  joinWith [chSp] ((P.path n).map fun i => (P.node i).name)

def helpName (ext : Ext) (name desc : Str) : Str :=
  let out := if desc.isEmpty then name else name ++ b " - " ++ replaceNl desc ([chNl] ++ spaces 8)
  ext.hdrName ++ b ":\n" ++ indent4 out ++ b "\n"

/-- one synopsis item -/
def optSynopsis (o : Opt) : Str :=
  let syn := synopsisOf o
  if o.kind.isRepeat then
    (if o.required then b "<" ++ syn ++ b ">" else b "[" ++ syn ++ b "]") ++ b "..."
  else
    if o.required then syn else b "[" ++ syn ++ b "]"

/-- 80-column line filling; state = (finished lines, current line) -/
def synAdd (nameLen : Nat) (acc : Str × Str) (syn : Str) : Str × Str :=
  if acc.2.length + syn.length > 80 then (acc.1 ++ acc.2 ++ b "\n", spaces nameLen ++ [chSp] ++ syn)
  else (acc.1, acc.2 ++ [chSp] ++ syn)

def helpSynopsis (ext : Ext) (P : Prog) (n : Nat) : Str :=
  let nd := P.node n
  let sname := indent4 (scriptName P n)
  let items := ((requiredOpts P nd) ++ (normalOpts P nd)).map fun o => optSynopsis (P.opt o)
  let acc := items.foldl (synAdd sname.length) ([], sname)
  let last := (if (helpCommands nd).isEmpty then [] else b "<command> ") ++
    (if nd.synArgs.isEmpty then b "[<args>]" else joinWith [chSp] (nd.synArgs.map (·.1)))
  let acc := synAdd sname.length acc last
  ext.hdrSynopsis ++ b ":\n" ++ acc.1 ++ acc.2 ++ b "\n"

def maxLen (l : List Str) : Nat := l.foldl (fun m s => if s.length > m then s.length else m) 0

def helpCommandList (ext : Ext) (P : Prog) (nd : Node) : Str :=
  let cs := helpCommands nd
  if cs.isEmpty then []
  else
    let names := sortStrs (cs.map (·.1))
    let factor := maxLen names
    let descOf (name : Str) : Str :=
      match cs.find? fun kv => kv.1 == name with
      | some kv => (P.node kv.2).description
      | none => []
    let out := names.flatMap fun name =>
      indent4 (padTo true name factor ++ b "    " ++
        replaceNl (descOf name) (b "\n    " ++ indent4 (padTo true [] factor)) ++ b "\n")
    ext.hdrCommands ++ b ":\n" ++ out

def showArgs (args : List (Str × Str)) : Bool :=
  match args with
  | [] => false
  | [(a, d)] => !(a.isEmpty || d.isEmpty)
  | _ => true

/-- the left part of an option entry: padded synopsis and description -/
def helpLead (o : Opt) (factor : Nat) : Str :=
  let t := indent4 (padTo (!o.required || !o.description.isEmpty || !o.envVar.isEmpty) (synopsisOf o) factor)
  if o.description.isEmpty then t else t ++ replaceNl o.description (b "\n    " ++ spaces factor)

/-- the right part: default value and environment variable -/
def helpTail (o : Opt) : Str :=
  let sep : Str := if o.description.isEmpty then [] else [chSp]
  if !o.required then
    sep ++ b "(default: " ++ o.defaultStr ++ (if o.envVar.isEmpty then [] else b ", env: " ++ o.envVar) ++ b ")\n\n"
  else
    (if o.envVar.isEmpty then [] else sep ++ b "(env: " ++ o.envVar ++ b ")") ++ b "\n\n"

def helpString (o : Opt) (factor : Nat) : Str := helpLead o factor ++ helpTail o

def argString (a : Str × Str) (factor : Nat) : Str :=
  let t := indent4 (padTo (!a.2.isEmpty) a.1 factor)
  (if a.2.isEmpty then t else t ++ replaceNl a.2 (b "\n    " ++ spaces factor)) ++ b "\n\n"

def helpOptionList (ext : Ext) (P : Prog) (nd : Node) : Str :=
  let l0 := maxLen ((helpOptions P nd).map fun o => synopsisOf (P.opt o))
  let sa := showArgs nd.synArgs
  let l1 := if sa then Nat.max l0 (maxLen (nd.synArgs.map (·.1))) else l0
  let factor := l1 + 4
  let req := requiredOpts P nd
  let norm := normalOpts P nd
  (if sa then ext.hdrArguments ++ b ":\n" ++ nd.synArgs.flatMap (fun a => argString a factor) else []) ++
  (if req.isEmpty then [] else ext.hdrRequired ++ b ":\n" ++ req.flatMap fun o => helpString (P.opt o) factor) ++
  (if norm.isEmpty then [] else ext.hdrOptions ++ b ":\n" ++ norm.flatMap fun o => helpString (P.opt o) factor)

def helpSection (ext : Ext) (P : Prog) (n : Nat) (sec : Section) : Str :=
  let nd := P.node n
  match sec with
  | .defaultName =>
    if nd.parent.isSome || !nd.description.isEmpty then helpName ext (scriptName P n) nd.description ++ b "\n"
    else []
  | .name => helpName ext (scriptName P n) nd.description ++ b "\n"
  | .synopsis => helpSynopsis ext P n ++ b "\n"
  | .commandList =>
    let c := helpCommandList ext P nd
    if c.isEmpty then [] else c ++ b "\n"
  | .optionList => helpOptionList ext P nd
  | .commandInfo =>
    if !nd.helpName.isEmpty && nd.cmds.length > 1 then
      b "Use '" ++ scriptName P n ++ b " help <command>' for extra details.\n"
    else []
  | .none => []

def defaultSections : List Section := [.defaultName, .synopsis, .commandList, .optionList, .commandInfo]

/-- `helpOutput(node, sections...)` -/
def helpOutput (ext : Ext) (P : Prog) (n : Nat) (sections : List Section) : Str :=
  (if sections.isEmpty then defaultSections else sections).flatMap (helpSection ext P n)

end GoModel

import Model.Prog
/-!
# `Option.Save` (internal/option/option.go)
-/
namespace GoModel

inductive PErr
  | wrongValue (name : Str) (valid : List Str)
  | convInt (alias : Str) (text : Str)
  | convFloat (alias : Str) (text : Str)
  | notKeyValue (alias : Str)
  | ambiguous (tok : Str) (cands : List Str)
  | missingArg (alias : Str)
  | dashArg (alias : Str)
deriving DecidableEq, Repr, Inhabited

/-- inclusive int range `a..b` (`a < b`), Go `for j := a; j < b; j++ {…}; append b` -/
def intRange (a c : Int) : List Int := (List.range ((c - a).toNat + 1)).map fun k => a + Int.ofNat k

/-- conversion of one `[]int` argument: a number or a range `a..b` with `a < b` -/
def convIntArg (alias e : Str) : Except PErr (List Int) :=
  match splitDotDot e with
  | some (n1, n2) =>
    match atoi n1, atoi n2 with
    | some i1, some i2 => if i1 < i2 then .ok (intRange i1 i2) else .error (.convInt alias e)
    | _, _ => .error (.convInt alias e)
  | none =>
    match atoi e with
    | some i => .ok [i]
    | none => .error (.convInt alias e)

def convIntArgs (alias : Str) : List Str → Except PErr (List Int)
  | [] => .ok []
  | e :: r => do
    let x ← convIntArg alias e
    let xs ← convIntArgs alias r
    pure (x ++ xs)

def convFloatArgs (ext : Ext) (alias : Str) : List Str → Except PErr (List Str)
  | [] => .ok []
  | e :: r =>
    if ext.floatOk e then do
      let xs ← convFloatArgs ext alias r
      pure (e :: xs)
    else .error (.convFloat alias e)

def saveMapArgs (ext : Ext) (lower : Bool) (alias : Str) (m : List (Str × Str)) :
    List Str → Except PErr (List (Str × Str))
  | [] => .ok m
  | e :: r =>
    match splitFirst chEq e with
    | (k, some v) => saveMapArgs ext lower alias (insertKV (if lower then ext.toLower k else k) v m) r
    | (_, none) => .error (.notKeyValue alias)

/-- the `ValidValues` gate of `Save`: no list declared, or every argument is on it -/
def validGate (o : Opt) (args : List Str) : Bool :=
  o.validValues.isEmpty || args.all fun a => o.validValues.contains a

/-- `opt.Save(args...)`; `lower` is the `MapKeysToLower` flag copied from the root at match time. -/
def save (ext : Ext) (lower : Bool) (o : Opt) (args : List Str) : Except PErr Opt :=
  match args with
  | [] =>
    match o.kind, o.value with
    | .bool, _ => .ok { o with value := .b (!o.boolDefault) }
    | .incr, .i v => .ok { o with value := .i (wrap64 (v + 1)) }
    | _, _ => .ok o
  | a0 :: _ =>
    if !validGate o args then
      .error (.wrongValue o.name o.validValues)
    else
      match o.kind, o.value with
      | .str, _ | .strOpt, _ => .ok { o with value := .s a0 }
      | .int, _ | .intOpt, _ =>
        match atoi a0 with
        | some n => .ok { o with value := .i n }
        | none => .error (.convInt o.usedAlias a0)
      | .flt, _ | .fltOpt, _ =>
        if ext.floatOk a0 then .ok { o with value := .f a0 }
        else .error (PErr.convFloat o.usedAlias a0)
      | .strs, .ss old => .ok { o with value := .ss (old ++ args) }
      | .ints, .is old => do
        let ii ← convIntArgs o.usedAlias args
        pure { o with value := .is (old ++ ii) }
      | .flts, .fs old => do
        let ff ← convFloatArgs ext o.usedAlias args
        pure { o with value := .fs (old ++ ff) }
      | .map, .m old => do
        let m ← saveMapArgs ext lower o.usedAlias old args
        pure { o with value := .m m }
      | .incr, .i v => .ok { o with value := .i (wrap64 (v + 1)) }
      | .bool, _ =>
        if a0 == b "true" then .ok { o with value := .b true }
        else if a0 == b "false" then .ok { o with value := .b false }
        else .ok { o with value := .b (!o.boolDefault) }
      | _, _ => .ok o     -- value of the wrong shape: excluded by `build`

end GoModel

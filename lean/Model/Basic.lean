/-!
# Bytes, UTF-8 widths, decimal conversion, sorting

Go strings are byte sequences: `Str = List UInt8`.  Everything here mirrors a Go standard-library
function used by go-getoptions and is validated against the real function by the correspondence
check (`harness`, leg `basic`).
-/
namespace GoModel

abbrev Str := List UInt8

/-- Lean string literal to bytes.  Used for fixed ASCII texts only (one byte per character);
defined through `toList` so that the kernel can evaluate it (`decide` works on model terms). -/
def b (s : String) : Str := s.toList.map fun c => c.toNat.toUInt8

def chDash : UInt8 := 45   -- '-'
def chEq   : UInt8 := 61   -- '='
def chDot  : UInt8 := 46   -- '.'
def chNl   : UInt8 := 10
def chSp   : UInt8 := 32

/-- `strings.HasPrefix s p`. -/
def hasPrefix : Str → Str → Bool
  | _, [] => true
  | [], _ :: _ => false
  | c :: s, d :: p => c == d && hasPrefix s p

/-- `strings.HasSuffix`. -/
def hasSuffix (s p : Str) : Bool := hasPrefix s.reverse p.reverse

/-- `strings.Contains s [c]` for a single byte. -/
def containsByte (s : Str) (c : UInt8) : Bool := s.any (· == c)

/-- Split at the first occurrence of byte `c`: `(before, some after)` or `(s, none)`. -/
def splitFirst (c : UInt8) : Str → Str × Option Str
  | [] => ([], none)
  | x :: xs =>
    if x == c then ([], some xs)
    else match splitFirst c xs with
      | (a, r) => (x :: a, r)

/-- `strings.SplitN(s, "..", 2)` when `s` contains `..`: text before / after the first `..`. -/
def splitDotDot : Str → Option (Str × Str)
  | [] => none
  | [_] => none
  | x :: y :: xs =>
    if x == chDot && y == chDot then some ([], xs)
    else match splitDotDot (y :: xs) with
      | some (a, r) => some (x :: a, r)
      | none => none

/-! ## UTF-8 (Go `utf8.DecodeRuneInString` width) -/

def isCont (c : UInt8) : Bool := 0x80 ≤ c && c ≤ 0xBF

/-- a valid two-byte sequence -/
def is2 (c c1 : UInt8) : Bool := 0xC2 ≤ c && c ≤ 0xDF && isCont c1
/-- a valid three-byte sequence (no overlongs, no surrogates) -/
def is3 (c c1 c2 : UInt8) : Bool :=
  0xE0 ≤ c && c ≤ 0xEF && (if c == 0xE0 then 0xA0 else 0x80) ≤ c1 && c1 ≤ (if c == 0xED then 0x9F else 0xBF) && isCont c2
/-- a valid four-byte sequence (no overlongs, at most U+10FFFF) -/
def is4 (c c1 c2 c3 : UInt8) : Bool :=
  0xF0 ≤ c && c ≤ 0xF4 && (if c == 0xF0 then 0x90 else 0x80) ≤ c1 && c1 ≤ (if c == 0xF4 then 0x8F else 0xBF) &&
    isCont c2 && isCont c3

/-- Width in bytes of the first UTF-8 sequence of a string, following Go's `utf8.DecodeRuneInString`:
an invalid or truncated sequence has width 1. -/
def utf8Width : Str → Nat
  | [] => 0
  | [_] => 1
  | [c, c1] => if is2 c c1 then 2 else 1
  | [c, c1, c2] => if is2 c c1 then 2 else if is3 c c1 c2 then 3 else 1
  | c :: c1 :: c2 :: c3 :: _ => if is2 c c1 then 2 else if is3 c c1 c2 then 3 else if is4 c c1 c2 c3 then 4 else 1

/-- `strings.Split(s, "")`: one element per UTF-8 sequence (invalid bytes one by one).
Fuel-structural; `explode s = explodeF s.length s`. -/
def explodeF : Nat → Str → List Str
  | 0, _ => []
  | _, [] => []
  | n + 1, c :: r =>
    let w := utf8Width (c :: r)
    (c :: r).take w :: explodeF n ((c :: r).drop w)

def explode (s : Str) : List Str := explodeF s.length s

/-- `utf8.RuneCountInString`. -/
def runeCount (s : Str) : Nat := (explode s).length

/-! ## `strconv.Atoi` (64-bit int) -/

def isDigit (c : UInt8) : Bool := 48 ≤ c && c ≤ 57

def digitsVal : Str → Nat → Nat
  | [], acc => acc
  | c :: r, acc => digitsVal r (acc * 10 + (c.toNat - 48))

def minInt64 : Int := -9223372036854775808
def maxInt64 : Int := 9223372036854775807

/-- `strconv.Atoi`: optional sign, at least one digit, digits only, must fit in int64. -/
def atoi (s : Str) : Option Int :=
  let (neg, ds) : Bool × Str := match s with
    | 45 :: r => (true, r)
    | 43 :: r => (false, r)
    | r => (false, r)
  if ds.isEmpty || !(ds.all isDigit) then none
  else
    let n : Int := digitsVal ds 0
    let v : Int := if neg then -n else n
    if minInt64 ≤ v && v ≤ maxInt64 then some v else none

/-- Go `int` addition wraps around (two's complement, 64 bit). -/
def wrap64 (x : Int) : Int := (x + 9223372036854775808) % 18446744073709551616 - 9223372036854775808

/-! ## Rendering helpers -/

def natToStr (n : Nat) : Str := b (toString n)
def intToStr (n : Int) : Str := b (toString n)

/-! ## Byte-wise order and `sort.Strings` -/

/-- `a < b` for Go strings (lexicographic on bytes). -/
def strLt : Str → Str → Bool
  | [], [] => false
  | [], _ :: _ => true
  | _ :: _, [] => false
  | x :: xs, y :: ys => if x < y then true else if y < x then false else strLt xs ys

def strLe (a c : Str) : Bool := !strLt c a

def insertSorted (x : Str) : List Str → List Str
  | [] => [x]
  | y :: ys => if strLe x y then x :: y :: ys else y :: insertSorted x ys

/-- `sort.Strings` (result: the sorted permutation; stability is irrelevant for equal byte strings). -/
def sortStrs : List Str → List Str
  | [] => []
  | x :: xs => insertSorted x (sortStrs xs)

/-- ASCII lower-casing (what `strings.ToLower` does on ASCII letters). -/
def asciiLower (s : Str) : Str := s.map fun c => if 65 ≤ c && c ≤ 90 then c + 32 else c

def joinWith (sep : Str) : List Str → Str
  | [] => []
  | [x] => x
  | x :: xs => x ++ sep ++ joinWith sep xs

/-- Association-list lookup (a Go map read). -/
def lookup {α} (k : Str) : List (Str × α) → Option α
  | [] => none
  | (k', v) :: r => if k' == k then some v else lookup k r

/-- Association-list write (a Go map write): replace in place or append. -/
def insertKV {α} (k : Str) (v : α) : List (Str × α) → List (Str × α)
  | [] => [(k, v)]
  | (k', v') :: r => if k' == k then (k, v) :: r else (k', v') :: insertKV k v r

end GoModel

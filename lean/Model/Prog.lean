import Model.IsOption
/-!
# Program definitions: options, command nodes, the store

Go pointers become integer ids into `Prog.opts` / `Prog.nodes`; a Go `map[string]*T` becomes an
association list whose order stands for the (arbitrary) iteration order.
-/
namespace GoModel

inductive UMode | fail | warn | pass
deriving DecidableEq, Repr, Inhabited

inductive Kind
  | bool | incr | str | int | flt | strOpt | intOpt | fltOpt | strs | ints | flts | map
deriving DecidableEq, Repr, Inhabited

/-- Values.  A float is carried as the text it was converted from (`Ext.floatOk` says whether the
conversion succeeds); the harness compares `ParseFloat(text)` with the real value bit by bit. -/
inductive Val
  | b (v : Bool) | i (v : Int) | s (v : Str) | f (v : Str)
  | ss (v : List Str) | is (v : List Int) | fs (v : List Str) | m (v : List (Str × Str))
deriving DecidableEq, Repr, Inhabited

/-- External functions the library calls; theorems hold for every `Ext`. -/
structure Ext where
  /-- `strconv.ParseFloat(s, 64)` succeeds -/
  floatOk : Str → Bool
  /-- `strings.ToLower` (used for map keys with `SetMapKeysToLower`) -/
  toLower : Str → Str
  /-- `SuggestedValuesFn` callbacks: id, target, partial -/
  valueFn : Nat → Str → Str → List Str
  /-- `ArgCompletionsFn` callbacks: id, target, previous args, partial -/
  argFn : Nat → Str → List Str → Str → List Str
  /-- `filepath.Base(os.Args[0])`: the name `Self("", …)` falls back to -/
  exeName : Str := []
  /-- section headers of `text/variables.go` -/
  hdrName : Str
  hdrSynopsis : Str
  hdrCommands : Str
  hdrRequired : Str
  hdrArguments : Str
  hdrOptions : Str

structure Opt where
  name : Str
  aliases : List Str := []        -- `Aliases`, the name first
  kind : Kind
  min : Int := 0
  max : Int := 0
  required : Bool := false
  requiredMsg : Str := []
  envVar : Str := []
  validValues : List Str := []
  suggested : List Str := []
  suggestFn : Option Nat := none
  helpArgName : Str := []
  helpSynopsis : Str := []
  defaultStr : Str := []
  description : Str := []
  boolDefault : Bool := false
  called : Bool := false
  usedAlias : Str := []
  lowerKeys : Bool := false       -- `MapKeysToLower`: copied from the root when the option is matched on the command line
  value : Val
deriving Repr, Inhabited, DecidableEq

/-- `IsOptional` of `option.New` -/
def Kind.isOptional : Kind → Bool
  | .strOpt | .intOpt | .fltOpt => true
  | _ => false

def Kind.isRepeat : Kind → Bool
  | .strs | .ints | .flts | .map => true
  | _ => false

/-- `(HelpArgName, MinArgs, MaxArgs)` of `option.New` -/
def Kind.table : Kind → Str × Int × Int
  | .bool => ([], 0, 0)
  | .incr => ([], 0, 0)
  | .str => (b "string", 1, 1)
  | .int => (b "int", 1, 1)
  | .flt => (b "float64", 1, 1)
  | .strOpt => (b "string", 0, 1)
  | .intOpt => (b "int", 0, 1)
  | .fltOpt => (b "float64", 0, 1)
  | .strs => (b "string", 1, 1)
  | .ints => (b "int", 1, 1)
  | .flts => (b "float64", 1, 1)
  | .map => (b "key=value", 1, 1)

structure Node where
  name : Str
  description : Str := []
  parent : Option Nat := none
  opts : List (Str × Nat) := []       -- ChildOptions: key (name or alias) ↦ option id
  cmds : List (Str × Nat) := []       -- ChildCommands: name ↦ node id
  fn : Option Nat := none             -- CommandFn id
  isHelp : Bool := false              -- CommandFn = runHelp
  helpName : Str := []                -- HelpCommandName
  mode : Mode := .normal
  umode : UMode := .fail
  requireOrder : Bool := false
  skipCopy : Bool := false
  suggestions : List Str := []
  suggestFns : List Nat := []
  synArgs : List (Str × Str) := []
  mapKeysToLower : Bool := false
deriving Repr, Inhabited, DecidableEq

structure Prog where
  nodes : List Node
  opts : List Opt
deriving Repr, Inhabited, DecidableEq

def dummyOpt : Opt := { name := [], kind := .bool, value := .b false }
def dummyNode : Node := { name := [] }

def Prog.node (P : Prog) (n : Nat) : Node := P.nodes.getD n dummyNode
def Prog.opt (P : Prog) (o : Nat) : Opt := P.opts.getD o dummyOpt

def Prog.setNode (P : Prog) (n : Nat) (x : Node) : Prog := { P with nodes := P.nodes.set n x }
def Prog.setOpt (P : Prog) (o : Nat) (x : Opt) : Prog := { P with opts := P.opts.set o x }

def Prog.modNode (P : Prog) (n : Nat) (f : Node → Node) : Prog := P.setNode n (f (P.node n))
def Prog.modOpt (P : Prog) (o : Nat) (f : Opt → Opt) : Prog := P.setOpt o (f (P.opt o))

/-- `getAliasNameFromPartialEntry`: the exact key, else every key that has `entry` as a prefix, in
map order. -/
def resolve (nd : Node) (entry : Str) : List Str :=
  match lookup entry nd.opts with
  | some _ => [entry]
  | none => (nd.opts.filter fun kv => hasPrefix kv.1 entry).map (·.1)

/-- path of node ids from the root down to `n` (fuel = number of nodes) -/
def Prog.pathUp (P : Prog) : Nat → Nat → List Nat
  | 0, n => [n]
  | fuel + 1, n =>
    match (P.node n).parent with
    | none => [n]
    | some p => P.pathUp fuel p ++ [n]

def Prog.path (P : Prog) (n : Nat) : List Nat := P.pathUp P.nodes.length n

end GoModel

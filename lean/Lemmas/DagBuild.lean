import Model.Dag
/-! The graph built by any history of `AddTask` / `TaskDependsOn` / `TaskRetries` calls is well formed:
distinct ids, every child and parent registered, child and parent lists mirror each other. -/
namespace GoModel.Dag

theorem find_map_id (l : List Vertex) (h : Vertex → Vertex) (hid : ∀ v, (h v).id = v.id) (y : Nat) :
    (l.map h).find? (·.id == y) = (l.find? (·.id == y)).map h := by
  induction l with
  | nil => rfl
  | cons v r ih =>
    simp only [List.map_cons, List.find?_cons, hid]
    split <;> simp [ih]

theorem find_id {l : List Vertex} {y : Nat} {v : Vertex} (h : l.find? (·.id == y) = some v) : v.id = y := by
  have := List.find?_some h; simpa using this

def edit (x : Nat) (f : Vertex → Vertex) (v : Vertex) : Vertex := if v.id == x then f v else v

theorem modify_find (g : GState) (x : Nat) (f : Vertex → Vertex) (hid : ∀ v, (f v).id = v.id) (y : Nat) :
    (g.modify x f).find y = (g.find y).map (edit x f) := by
  unfold GState.modify GState.find
  exact find_map_id g.verts (edit x f) (by intro v; unfold edit; split <;> simp [hid]) y

theorem modify_has (g : GState) (x : Nat) (f : Vertex → Vertex) (hid : ∀ v, (f v).id = v.id) (y : Nat) :
    (g.modify x f).has y = g.has y := by
  unfold GState.modify GState.has
  simp only [List.any_map]
  congr 1
  funext v
  simp only [Function.comp]
  split <;> simp [hid]

theorem modify_ids (g : GState) (x : Nat) (f : Vertex → Vertex) (hid : ∀ v, (f v).id = v.id) :
    (g.modify x f).ids = g.ids := by
  unfold GState.modify GState.ids
  simp only [List.map_map]
  congr 1
  funext v
  simp only [Function.comp]
  split <;> simp [hid]

theorem has_iff_find (g : GState) (y : Nat) : g.has y = true ↔ ∃ v, g.find y = some v := by
  unfold GState.has GState.find
  rw [List.any_eq_true]
  constructor
  · rintro ⟨v, hv, he⟩
    cases hf : g.verts.find? (·.id == y) with
    | some w => exact ⟨w, rfl⟩
    | none => exact absurd he (by simpa using (List.find?_eq_none.mp hf) v hv)
  · rintro ⟨v, hv⟩
    exact ⟨v, List.mem_of_find?_eq_some hv, by have := List.find?_some hv; simpa using this⟩

theorem has_iff_mem_ids (g : GState) (y : Nat) : g.has y = true ↔ y ∈ g.ids := by
  unfold GState.has GState.ids
  rw [List.any_eq_true, List.mem_map]
  constructor
  · rintro ⟨v, hv, he⟩; exact ⟨v, hv, by simpa using he⟩
  · rintro ⟨v, hv, he⟩; exact ⟨v, hv, by simpa using he⟩

structure GInv (g : GState) : Prop where
  nodup : g.ids.Nodup
  kids : ∀ v c, c ∈ g.children v → g.has c = true
  pars : ∀ v p, p ∈ g.parents v → g.has p = true
  sym : ∀ a c, c ∈ g.children a ↔ a ∈ g.parents c

theorem ginv_empty : GInv {} :=
  ⟨by simp [GState.ids], by simp [GState.children, GState.find], by simp [GState.parents, GState.find],
   by simp [GState.children, GState.parents, GState.find]⟩

/-- appending a fresh vertex without edges -/
theorem ginv_append (g : GState) (x : Nat) (h : GInv g) (hx : g.has x = false) :
    GInv { g with verts := g.verts ++ [{ id := x }] } := by
  have hfind : ∀ y, ({ g with verts := g.verts ++ [{ id := x }] } : GState).find y =
      if g.has y then g.find y else (if x == y then some { id := x } else none) := by
    intro y
    unfold GState.find
    simp only [List.find?_append]
    cases hf : g.verts.find? (·.id == y) with
    | some w =>
      have : g.has y = true := (has_iff_find g y).mpr ⟨w, hf⟩
      simp [this, GState.find, hf]
    | none =>
      have : g.has y = false := by
        cases hh : g.has y with
        | false => rfl
        | true => obtain ⟨w, hw⟩ := (has_iff_find g y).mp hh; simp [GState.find, hf] at hw
      simp only [this, Bool.false_eq_true, ↓reduceIte, List.find?_cons, List.find?_nil]
      cases hxy : (x == y) <;> simp
  have hch : ∀ y, ({ g with verts := g.verts ++ [{ id := x }] } : GState).children y = g.children y := by
    intro y
    unfold GState.children
    rw [hfind]
    cases hy : g.has y with
    | true => simp
    | false =>
      have : g.find y = none := by
        cases hf : g.find y with
        | none => rfl
        | some w => have := (has_iff_find g y).mpr ⟨w, hf⟩; simp [hy] at this
      rw [this]; simp only [Bool.false_eq_true, ↓reduceIte]; split <;> rfl
  have hpa : ∀ y, ({ g with verts := g.verts ++ [{ id := x }] } : GState).parents y = g.parents y := by
    intro y
    unfold GState.parents
    rw [hfind]
    cases hy : g.has y with
    | true => simp
    | false =>
      have : g.find y = none := by
        cases hf : g.find y with
        | none => rfl
        | some w => have := (has_iff_find g y).mpr ⟨w, hf⟩; simp [hy] at this
      rw [this]; simp only [Bool.false_eq_true, ↓reduceIte]; split <;> rfl
  have hhas : ∀ y, g.has y = true → ({ g with verts := g.verts ++ [{ id := x }] } : GState).has y = true := by
    intro y hy
    unfold GState.has at *
    simp [List.any_append, hy]
  refine ⟨?_, ?_, ?_, ?_⟩
  · show (List.map (·.id) (g.verts ++ [{ id := x }])).Nodup
    simp only [List.map_append, List.map_cons, List.map_nil]
    rw [List.nodup_append]
    refine ⟨h.nodup, by simp, ?_⟩
    intro a ha b hb
    simp at hb; subst hb
    intro e; subst e
    have := (has_iff_mem_ids g a).mpr ha
    simp [hx] at this
  · intro v c hc; rw [hch] at hc; exact hhas c (h.kids v c hc)
  · intro v p hp; rw [hpa] at hp; exact hhas p (h.pars v p hp)
  · intro a c; rw [hch, hpa]; exact h.sym a c

theorem addTask_inv (g g' : GState) (t : Option TaskRef) (h : GInv g) (hr : addTask g t = .ok g') :
    GInv g' ∧ (∀ y, g.has y = true → g'.has y = true) ∧ g'.errs = g.errs ∧
    (∀ tr, t = some tr → g'.has tr.id = true) := by
  unfold addTask at hr
  split at hr
  · simp at hr
  · rename_i tr
    split at hr
    · simp at hr
    · split at hr
      · simp at hr
      · split at hr
        · rename_i hhas
          simp only [Except.ok.injEq] at hr; subst hr
          exact ⟨h, fun _ hy => hy, rfl, fun tr' e => by cases e; exact hhas⟩
        · rename_i hhas
          simp only [Except.ok.injEq] at hr; subst hr
          have hx : g.has tr.id = false := by simpa using hhas
          refine ⟨ginv_append g tr.id h hx, ?_, rfl, ?_⟩
          · intro y hy; unfold GState.has at *; simp [List.any_append, hy]
          · intro tr' e; cases e; unfold GState.has; simp [List.any_append]

theorem retrieveOrAdd_inv (g g' : GState) (t : Option TaskRef) (v : Nat) (h : GInv g)
    (hr : retrieveOrAdd g t = .ok (g', v)) :
    GInv g' ∧ (∀ y, g.has y = true → g'.has y = true) ∧ g'.errs = g.errs ∧ g'.has v = true := by
  unfold retrieveOrAdd at hr
  split at hr
  · simp at hr
  · rename_i tr
    split at hr
    · rename_i hhas
      simp only [Except.ok.injEq, Prod.mk.injEq] at hr
      obtain ⟨rfl, rfl⟩ := hr
      exact ⟨h, fun _ hy => hy, rfl, hhas⟩
    · split at hr
      · rename_i g2 hadd
        simp only [Except.ok.injEq, Prod.mk.injEq] at hr
        obtain ⟨rfl, rfl⟩ := hr
        have := addTask_inv g g2 (some tr) h hadd
        exact ⟨this.1, this.2.1, this.2.2.1, this.2.2.2 tr rfl⟩
      · simp at hr

/-- adding the edge `v → c` between two registered vertices -/
theorem ginv_edge (g : GState) (v c : Nat) (h : GInv g) (hv : g.has v = true) (hc : g.has c = true) :
    GInv ((g.modify v fun x => { x with children := x.children ++ [c] }).modify c
            fun x => { x with parents := x.parents ++ [v] }) := by
  let g1 := g.modify v fun x => { x with children := x.children ++ [c] }
  let g2 := g1.modify c fun x => { x with parents := x.parents ++ [v] }
  have id1 : ∀ x : Vertex, ({ x with children := x.children ++ [c] } : Vertex).id = x.id := fun _ => rfl
  have id2 : ∀ x : Vertex, ({ x with parents := x.parents ++ [v] } : Vertex).id = x.id := fun _ => rfl
  have hfind : ∀ y, g2.find y = ((g.find y).map (edit v fun x => { x with children := x.children ++ [c] })).map
      (edit c fun x => { x with parents := x.parents ++ [v] }) := by
    intro y
    show (g1.modify c _).find y = _
    rw [modify_find g1 c _ id2 y]
    show ((g.modify v _).find y).map _ = _
    rw [modify_find g v _ id1 y]
  have hhas : ∀ y, g2.has y = g.has y := by
    intro y
    show (g1.modify c _).has y = _
    rw [modify_has g1 c _ id2 y]
    show (g.modify v _).has y = _
    rw [modify_has g v _ id1 y]
  have hids : g2.ids = g.ids := by
    show (g1.modify c _).ids = _
    rw [modify_ids g1 c _ id2]
    show (g.modify v _).ids = _
    rw [modify_ids g v _ id1]
  have hch : ∀ y, g2.children y = if y = v then g.children y ++ [c] else g.children y := by
    intro y
    unfold GState.children
    rw [hfind]
    cases hf : g.find y with
    | none =>
      have : ¬ g.has y = true := by
        intro hh; obtain ⟨w, hw⟩ := (has_iff_find g y).mp hh; simp [hf] at hw
      split
      · rename_i e; subst e; exact absurd hv this
      · simp
    | some w =>
      have hw : w.id = y := find_id hf
      simp only [Option.map_some, Option.getD_some, edit, hw]
      by_cases e1 : y = v
      · subst e1
        by_cases e2 : y = c
        · subst e2; simp
        · have : (y == c) = false := by simpa using e2
          simp [this]
      · have h1 : (y == v) = false := by simpa using e1
        simp only [h1, Bool.false_eq_true, ↓reduceIte, e1, hw]
        split <;> rfl
  have hpa : ∀ y, g2.parents y = if y = c then g.parents y ++ [v] else g.parents y := by
    intro y
    unfold GState.parents
    rw [hfind]
    cases hf : g.find y with
    | none =>
      have : ¬ g.has y = true := by
        intro hh; obtain ⟨w, hw⟩ := (has_iff_find g y).mp hh; simp [hf] at hw
      split
      · rename_i e; subst e; exact absurd hc this
      · simp
    | some w =>
      have hw : w.id = y := find_id hf
      simp only [Option.map_some, Option.getD_some, edit, hw]
      by_cases e2 : y = c
      · subst e2
        by_cases e1 : y = v
        · subst e1; simp
        · have h1 : (y == v) = false := by simpa using e1
          simp [h1, hw]
      · have h2 : (y == c) = false := by simpa using e2
        simp only [e2, ↓reduceIte]
        split <;> simp [h2, hw]
  show GInv g2
  refine ⟨by rw [hids]; exact h.nodup, ?_, ?_, ?_⟩
  · intro y k hk
    rw [hch] at hk
    rw [hhas]
    split at hk
    · rcases List.mem_append.mp hk with h1 | h1
      · exact h.kids y k h1
      · simp at h1; subst h1; exact hc
    · exact h.kids y k hk
  · intro y p hp
    rw [hpa] at hp
    rw [hhas]
    split at hp
    · rcases List.mem_append.mp hp with h1 | h1
      · exact h.pars y p h1
      · simp at h1; subst h1; exact hv
    · exact h.pars y p hp
  · intro a k
    rw [hch, hpa]
    by_cases e1 : a = v <;> by_cases e2 : k = c <;> simp [e1, e2, h.sym]

theorem addDeps_inv (deps : List (Option TaskRef)) (g : GState) (v : Nat) (h : GInv g) (hv : g.has v = true) :
    GInv (addDeps g v deps) := by
  induction deps generalizing g with
  | nil => exact h
  | cons d ds ih =>
    unfold addDeps
    split
    · exact ⟨h.nodup, h.kids, h.pars, h.sym⟩
    · rename_i g1 c hr
      have r := retrieveOrAdd_inv g g1 d c h hr
      split
      · exact ⟨r.1.nodup, r.1.kids, r.1.pars, r.1.sym⟩
      · have hv1 := r.2.1 v hv
        have he := ginv_edge g1 v c r.1 hv1 r.2.2.2
        apply ih _ he
        have id1 : ∀ x : Vertex, ({ x with children := x.children ++ [c] } : Vertex).id = x.id := fun _ => rfl
        have id2 : ∀ x : Vertex, ({ x with parents := x.parents ++ [v] } : Vertex).id = x.id := fun _ => rfl
        rw [modify_has _ c _ id2, modify_has _ v _ id1]
        exact hv1

/-- the invariant only speaks about the vertices -/
theorem ginv_of_verts (g g' : GState) (hv : g'.verts = g.verts) (h : GInv g) : GInv g' := by
  have hi : g'.ids = g.ids := by simp [GState.ids, hv]
  have hh : ∀ y, g'.has y = g.has y := by intro y; simp [GState.has, hv]
  have hc : ∀ y, g'.children y = g.children y := by intro y; simp [GState.children, GState.find, hv]
  have hp : ∀ y, g'.parents y = g.parents y := by intro y; simp [GState.parents, GState.find, hv]
  refine ⟨by rw [hi]; exact h.nodup, ?_, ?_, ?_⟩
  · intro v c hc'; rw [hc] at hc'; rw [hh]; exact h.kids v c hc'
  · intro v q hq; rw [hp] at hq; rw [hh]; exact h.pars v q hq
  · intro a c; rw [hc, hp]; exact h.sym a c

theorem evalRef_verts (g : GState) (t : Option TaskRef) : (evalRef g t).1.verts = g.verts := by
  unfold evalRef
  split
  · rfl
  · split
    · rfl
    · split <;> rfl
    · split <;> rfl

theorem evalRefs_verts (g : GState) (ts : List (Option TaskRef)) : (evalRefs g ts).1.verts = g.verts := by
  induction ts generalizing g with
  | nil => rfl
  | cons t r ih => simp only [evalRefs]; rw [ih, evalRef_verts]

theorem evalRef_inv (g : GState) (t : Option TaskRef) (h : GInv g) : GInv (evalRef g t).1 :=
  ginv_of_verts g _ (evalRef_verts g t) h

theorem evalRefs_inv (g : GState) (ts : List (Option TaskRef)) (h : GInv g) : GInv (evalRefs g ts).1 :=
  ginv_of_verts g _ (evalRefs_verts g ts) h

theorem buildCore_inv (g : GState) (op : GOp) (h : GInv g) : GInv (buildCore g op) := by
  cases op with
  | lookup t => exact h
  | tmAdd id f => exact ginv_of_verts g _ rfl h
  | addTask t =>
    simp only [buildCore]
    split
    · rename_i g' hr; exact (addTask_inv g g' _ h hr).1
    · exact ⟨h.nodup, h.kids, h.pars, h.sym⟩
  | dependsOn t deps =>
    simp only [buildCore]
    split
    · exact ⟨h.nodup, h.kids, h.pars, h.sym⟩
    · rename_i g1 v hr
      have r := retrieveOrAdd_inv g g1 _ v h hr
      exact addDeps_inv _ g1 v r.1 r.2.2.2
  | retries t n0 =>
    simp only [buildCore]
    generalize (if n0 < 0 then (0 : Int) else n0) = n
    split
    · exact ⟨h.nodup, h.kids, h.pars, h.sym⟩
    · rename_i g1 v hr
      have r := retrieveOrAdd_inv g g1 _ v h hr
      have id1 : ∀ x : Vertex, ({ x with retries := n } : Vertex).id = x.id := fun _ => rfl
      have hf : ∀ y, (g1.modify v fun x => { x with retries := n }).find y =
          (g1.find y).map (edit v fun x => { x with retries := n }) := modify_find g1 v _ id1
      have hch : ∀ y, (g1.modify v fun x => { x with retries := n }).children y = g1.children y := by
        intro y; unfold GState.children; rw [hf]
        cases g1.find y with
        | none => rfl
        | some w => simp only [Option.map_some, Option.getD_some, edit]; split <;> rfl
      have hpa : ∀ y, (g1.modify v fun x => { x with retries := n }).parents y = g1.parents y := by
        intro y; unfold GState.parents; rw [hf]
        cases g1.find y with
        | none => rfl
        | some w => simp only [Option.map_some, Option.getD_some, edit]; split <;> rfl
      refine ⟨by rw [modify_ids g1 v _ id1]; exact r.1.nodup, ?_, ?_, ?_⟩
      · intro y k hk; rw [hch] at hk; rw [modify_has g1 v _ id1]; exact r.1.kids y k hk
      · intro y p hp; rw [hpa] at hp; rw [modify_has g1 v _ id1]; exact r.1.pars y p hp
      · intro a k; rw [hch, hpa]; exact r.1.sym a k

theorem buildStep_inv (g : GState) (op : GOp) (h : GInv g) : GInv (buildStep g op) := by
  cases op with
  | addTask t => simp only [buildStep]; exact buildCore_inv _ _ (evalRef_inv g t h)
  | dependsOn t deps => simp only [buildStep]; exact buildCore_inv _ _ (evalRefs_inv _ deps (evalRef_inv g t h))
  | retries t n => simp only [buildStep]; exact buildCore_inv _ _ (evalRef_inv g t h)
  | lookup t => simp only [buildStep]; exact evalRef_inv g t h
  | tmAdd id f => simp only [buildStep]; exact buildCore_inv _ _ h

/-- **Build invariant**: every history of construction calls yields a well-formed graph. -/
theorem buildGraph_inv (ops : List GOp) : GInv (buildGraph ops) := by
  unfold buildGraph
  have : ∀ (g : GState), GInv g → GInv (ops.foldl buildStep g) := by
    induction ops with
    | nil => intro g h; exact h
    | cons op r ih => intro g h; exact ih _ (buildStep_inv g op h)
  exact this {} ginv_empty

end GoModel.Dag

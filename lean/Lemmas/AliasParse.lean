import Lemmas.OptStart
import Lemmas.AliasErase
/-!
# An alias in the middle of a command line behaves like the name, up to `CalledAs`
-/
namespace GoModel

variable (ext : Ext) (mode : Mode)

/-- what `Parse` lets the program observe, up to the spelling recorded by `CalledAs` and quoted in messages -/
structure AObs (a c : PState) : Prop where
  nodes : a.P.nodes = c.P.nodes
  opts : ∀ o, (a.P.opt o).noAlias = (c.P.opt o).noAlias
  cur : a.cur = c.cur
  rem : a.rem = c.rem
  unk : a.unk = c.unk
  err : a.err.map PErr.noAlias = c.err.map PErr.noAlias

theorem AObs.of {a m c : PState} (h1 : AEq a m) (h2 : ObsEq m c) : AObs a c :=
  ⟨by rw [h1.nodes, h2.P], fun o => by rw [h1.opt o, h2.P], h1.cur.trans h2.cur, h1.rem.trans h2.rem,
   h1.unk.trans h2.unk, by rw [h1.err, h2.err]⟩

/-- at a head position: the states after the two spellings are related through a state that has the
token bookkeeping of the first and everything else of the second -/
theorem alias_step_idle (s : PState) (t1 t2 k1 k2 : Str) (args : List Str) (oid : Nat)
    (he : s.err = none) (hc : s.ctx = .idle)
    (ht1 : isOption t1 mode = ([⟨k1, args⟩], true)) (ht2 : isOption t2 mode = ([⟨k2, args⟩], true))
    (h1 : lookup k1 (s.P.node s.cur).opts = some oid) (h2 : lookup k2 (s.P.node s.cur).opts = some oid) :
    ∃ m, AEq (step ext mode s t1) m ∧ Sim m (step ext mode s t2) := by
  rw [step_head_option ext mode s t1 _ he hc (isOption_true_ne_dashdash mode t1 _ ht1) ht1,
      step_head_option ext mode s t2 _ he hc (isOption_true_ne_dashdash mode t2 _ ht2) ht2]
  have r1 := resolve_exact' (s.P.node s.cur) k1 oid h1
  have r2 := resolve_exact' (s.P.node s.cur) k2 oid h2
  have hrel := save_rel ext (s.P.node 0).mapKeysToLower (matched (headState s t1) oid k1) k2 args
  have hm2 : ({ matched (headState s t1) oid k1 with usedAlias := k2 } : Opt) = matched (headState s t2) oid k2 := rfl
  rw [hm2] at hrel
  cases hs1 : save ext (s.P.node 0).mapKeysToLower (matched (headState s t1) oid k1) args with
  | error e1 =>
    cases hs2 : save ext (s.P.node 0).mapKeysToLower (matched (headState s t2) oid k2) args with
    | ok o2 => rw [hs1, hs2] at hrel; exact absurd hrel (by simp [SaveRel])
    | error e2 =>
      rw [hs1, hs2] at hrel
      simp only [SaveRel] at hrel
      have d1 : drain ext (headState s t1) [⟨k1, args⟩] =
          { headState s t1 with P := s.P.setOpt oid (matched (headState s t1) oid k1), err := some e1, pending := [] } := by
        have := procPair_known_err ext { headState s t1 with pending := [] } ⟨k1, args⟩ k1 oid e1 r1 h1 hs1
        unfold drain; simp only; rw [this]; simp
        rfl
      have d2 : drain ext (headState s t2) [⟨k2, args⟩] =
          { headState s t2 with P := s.P.setOpt oid (matched (headState s t2) oid k2), err := some e2, pending := [] } := by
        have := procPair_known_err ext { headState s t2 with pending := [] } ⟨k2, args⟩ k2 oid e2 r2 h2 hs2
        unfold drain; simp only; rw [this]; simp
        rfl
      rw [d1, d2]
      refine ⟨{ headState s t1 with P := s.P.setOpt oid (matched (headState s t2) oid k2), err := some e2, pending := [] }, ?_, ?_⟩
      · exact { AEq.refl (headState s t1) with
          opts := map_set_rel _ _ _ _ _ rfl rfl, err := by simp [hrel], pending := rfl }
      · exact sim_of_obs ⟨rfl, rfl, rfl, rfl, rfl, rfl, rfl, rfl⟩ (Or.inl rfl) (Or.inl rfl)
  | ok o1 =>
    cases hs2 : save ext (s.P.node 0).mapKeysToLower (matched (headState s t2) oid k2) args with
    | error e2 => rw [hs1, hs2] at hrel; exact absurd hrel (by simp [SaveRel])
    | ok o2 =>
      rw [hs1, hs2] at hrel
      simp only [SaveRel] at hrel
      have hmax : o1.max = o2.max := by have := congrArg Opt.max hrel; exact this
      by_cases hopen : ((args.length : Nat) : Int) < o1.max
      · have d1 := drain_single_open ext (headState s t1) ⟨k1, args⟩ k1 oid o1 he r1 h1 hs1 hopen
        have d2 := drain_single_open ext (headState s t2) ⟨k2, args⟩ k2 oid o2 he r2 h2 hs2 (by rw [← hmax]; exact hopen)
        rw [d1, d2]
        refine ⟨{ headState s t1 with P := s.P.setOpt oid o2, ctx := .collecting oid args.length, pending := [] }, ?_, ?_⟩
        · exact { AEq.refl (headState s t1) with
            opts := map_set_rel _ _ _ _ _ rfl hrel, ctx := rfl, pending := rfl }
        · exact sim_of_obs ⟨rfl, rfl, rfl, rfl, rfl, rfl, rfl, rfl⟩ (Or.inr rfl) (Or.inr rfl)
      · have d1 := drain_single_full ext (headState s t1) ⟨k1, args⟩ k1 oid o1 he hc r1 h1 hs1 hopen
        have d2 := drain_single_full ext (headState s t2) ⟨k2, args⟩ k2 oid o2 he hc r2 h2 hs2 (by rw [← hmax]; exact hopen)
        rw [d1, d2]
        refine ⟨{ headState s t1 with P := s.P.setOpt oid o2, pending := [] }, ?_, ?_⟩
        · exact { AEq.refl (headState s t1) with opts := map_set_rel _ _ _ _ _ rfl hrel, pending := rfl }
        · exact sim_of_obs ⟨rfl, rfl, rfl, rfl, rfl, rfl, rfl, rfl⟩ (Or.inr rfl) (Or.inr rfl)

/-- wherever an option may start -/
theorem alias_step (s : PState) (t1 t2 k1 k2 : Str) (args : List Str) (oid : Nat) (hs : OptStart s)
    (ht1 : isOption t1 mode = ([⟨k1, args⟩], true)) (ht2 : isOption t2 mode = ([⟨k2, args⟩], true))
    (h1 : lookup k1 (s.P.node s.cur).opts = some oid) (h2 : lookup k2 (s.P.node s.cur).opts = some oid) :
    ∃ m, AEq (step ext mode s t1) m ∧ Sim m (step ext mode s t2) := by
  obtain ⟨he, hc | ⟨o, i, hc, hp⟩⟩ := hs
  · exact alias_step_idle ext mode s t1 t2 k1 k2 args oid he hc ht1 ht2 h1 h2
  · rw [step_collecting_optlike ext mode s o i t1 he hc hp (looks_of_isOption mode t1 _ ht1),
        step_collecting_optlike ext mode s o i t2 he hc hp (looks_of_isOption mode t2 _ ht2)]
    split
    · exact ⟨_, AEq.refl _, Sim.refl _⟩
    · exact alias_step_idle ext mode (refused s) t1 t2 k1 k2 args oid he rfl ht1 ht2 h1 h2

/-- whole command line -/
theorem alias_parse_obs (P : Prog) (pre post : List Str) (t1 t2 k1 k2 : Str) (args : List Str) (oid : Nat)
    (hs : OptStart (run ext mode P pre))
    (ht1 : isOption t1 mode = ([⟨k1, args⟩], true)) (ht2 : isOption t2 mode = ([⟨k2, args⟩], true))
    (h1 : lookup k1 ((run ext mode P pre).P.node (run ext mode P pre).cur).opts = some oid)
    (h2 : lookup k2 ((run ext mode P pre).P.node (run ext mode P pre).cur).opts = some oid) :
    AObs (parseArgs ext mode P (pre ++ t1 :: post)) (parseArgs ext mode P (pre ++ t2 :: post)) := by
  obtain ⟨m, ha, hsim⟩ := alias_step ext mode _ t1 t2 k1 k2 args oid hs ht1 ht2 h1 h2
  unfold parseArgs
  rw [run_append, run_append]
  simp only [List.foldl_cons]
  exact AObs.of (finish_aeq ext _ _ (foldl_aeq ext mode post _ _ ha))
    (finish_sim ext _ _ (foldl_sim ext mode post _ _ hsim))

end GoModel

import Lemmas.DagBuild
/-! The scheduler invariant (DESIGN.md Appendix B) and its preservation by every event of `Run`. -/
namespace GoModel.Dag

@[simp] theorem get_set_same (s : Sched) (v : Nat) (x : VState) : (s.set v x).get v = x := by
  simp [Sched.get, Sched.set]

theorem get_set_ne (s : Sched) (v y : Nat) (x : VState) (h : y ≠ v) : (s.set v x).get y = s.get y := by
  simp [Sched.get, Sched.set, h]

theorem get_set (s : Sched) (v y : Nat) (x : VState) : (s.set v x).get y = if y = v then x else s.get y := by
  by_cases h : y = v
  · subst h; simp
  · simp [get_set_ne s v y x h, h]

@[simp] theorem set_errs (s : Sched) (v : Nat) (x : VState) : (s.set v x).errs = s.errs := rfl
@[simp] theorem set_cancelled (s : Sched) (v : Nat) (x : VState) : (s.set v x).cancelled = s.cancelled := rfl
@[simp] theorem set_exited (s : Sched) (v : Nat) (x : VState) : (s.set v x).exited = s.exited := rfl

def anc (c : Cfg) (v : Nat) : List Nat := ancestors c.g (c.g.verts.length + 1) v

def markOne (x : VState) : VState := { x with st := .skip, marked := true }

theorem markList_get (l : List Nat) (s : Sched) (x : Nat) :
    ((l.foldl (fun s a => s.set a { s.get a with st := .skip, marked := true }) s).get x) =
      if x ∈ l then markOne (s.get x) else s.get x := by
  induction l generalizing s with
  | nil => simp
  | cons a r ih =>
    simp only [List.foldl, List.mem_cons]
    rw [ih]
    by_cases hxa : x = a
    · subst hxa
      simp [markOne]
    · simp [hxa, get_set_ne _ _ _ _ hxa]

theorem markList_rest (l : List Nat) (s : Sched) :
    (l.foldl (fun s a => s.set a { s.get a with st := .skip, marked := true }) s).errs = s.errs ∧
    (l.foldl (fun s a => s.set a { s.get a with st := .skip, marked := true }) s).cancelled = s.cancelled ∧
    (l.foldl (fun s a => s.set a { s.get a with st := .skip, marked := true }) s).exited = s.exited := by
  induction l generalizing s with
  | nil => simp
  | cons a r ih => simp only [List.foldl]; have := ih (s.set a { s.get a with st := .skip, marked := true }); simpa using this

theorem markAncestors_get (c : Cfg) (s : Sched) (v x : Nat) :
    (markAncestors c s v).get x = if x ∈ anc c v then markOne (s.get x) else s.get x := by
  unfold markAncestors anc
  exact markList_get _ s x

/-- the ancestor computation reaches the direct parents and is closed under taking parents
(true on acyclic graphs, see `anc_closed_of_rank`) -/
structure AncOK (c : Cfg) : Prop where
  direct : ∀ v p, p ∈ c.g.parents v → p ∈ anc c v
  closed : ∀ v x q, x ∈ anc c v → q ∈ c.g.parents x → q ∈ anc c v
  sym : ∀ a ch, ch ∈ c.g.children a ↔ a ∈ c.g.parents ch

structure SInv (c : Cfg) (s : Sched) : Prop where
  a1 : ∀ v, (s.get v).st = .skip → (s.get v).marked = true
  a2 : ∀ ch p, p ∈ c.g.parents ch → (s.get ch).marked = true → (s.get p).marked = true
  a3 : ∀ ch p, p ∈ c.g.parents ch → (s.get ch).out = some .skipParents → (s.get p).marked = true
  a4 : ∀ v, (s.get v).marked = true → (s.get v).st ≠ .pending ∧ (s.get v).real = false
  b  : ∀ v, (s.get v).real = true → ∀ ch ∈ c.g.children v,
        (s.get ch).st = .done ∧ (s.get ch).out = some .ok ∧ (s.get ch).real = true
  ce : s.errs = [] → ∀ v, (s.get v).out ≠ some .err ∧ (s.get v).out ≠ some .taskSkipped ∧
        Res.taskSkipped ∉ (s.get v).pseudo
  d  : ∀ v, (s.get v).st = .done → (s.get v).out ≠ none
  e  : ∀ v, (s.get v).out = some .ok → (s.get v).real = true ∨ (s.get v).marked = true
  n  : ∀ v, (s.get v).st = .pending →
        (s.get v).real = false ∧ (s.get v).out = none ∧ (s.get v).fl = .none ∧ (s.get v).pseudo = []
  f  : ∀ v, (s.get v).fl ≠ .none → (s.get v).real = true ∧ (s.get v).st = .inProgress
  ps : ∀ v, (s.get v).pseudo ≠ [] → (s.get v).real = false
  po : ∀ v, Res.ok ∈ (s.get v).pseudo → (s.get v).marked = true
  pk : ∀ v r, r ∈ (s.get v).pseudo → r = .ok ∨ r = .taskSkipped
  rs : ∀ v, (s.get v).real = true → (s.get v).st = .inProgress ∨ (s.get v).st = .done
  sk : ∀ v, (s.get v).out = some .skipParents → (s.get v).real = true
  ip : ∀ v, (s.get v).st = .inProgress → (s.get v).fl ≠ .none ∨ (s.get v).pseudo ≠ []

theorem sinv_init (c : Cfg) : SInv c initSched := by
  constructor <;> simp [initSched, Sched.get]

/-- a really launched vertex has only finished descendants -/
theorem real_anc_done (c : Cfg) (hc : AncOK c) (s : Sched) (h : SInv c s) (v x : Nat)
    (ha : x ∈ anc c v) (hr : (s.get x).real = true) :
    (s.get v).st = .done ∧ (s.get v).out = some .ok ∧ (s.get v).real = true := by
  -- unfold the fuel-bounded ancestor computation: x is reached from v by a chain of parent steps
  have key : ∀ (fuel : Nat) (v x : Nat), x ∈ ancestors c.g fuel v → (s.get x).real = true →
      (s.get v).st = .done ∧ (s.get v).out = some .ok ∧ (s.get v).real = true := by
    intro fuel
    induction fuel with
    | zero => intro v x hx; simp [ancestors] at hx
    | succ f ih =>
      intro v x hx hrx
      simp only [ancestors, List.mem_flatMap, List.mem_cons] at hx
      obtain ⟨p, hp, hx⟩ := hx
      rcases hx with rfl | hx
      · exact h.b _ hrx v ((hc.sym _ v).mpr hp)
      · have := ih p x hx hrx
        exact h.b p this.2.2 v ((hc.sym p v).mpr hp)
  exact key _ v x ha hr

end GoModel.Dag

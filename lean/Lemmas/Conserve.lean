import Lemmas.Parse
/-!
# Conservation invariant of the argument loop (used by C03, C08, C09)

`Inv s done`: after the tokens `done`, the remaining list is a (positional) sublist of `done`; while
the letters of a bundled token are still pending, it even embeds in the tokens before that token
(plus the token itself once it was passed through) — so that passing the token through later keeps
the order.
-/
namespace GoModel

variable (ext : Ext) (mode : Mode)

theorem node_setOpt (P : Prog) (o : Nat) (x : Opt) (n : Nat) : (P.setOpt o x).node n = P.node n := rfl

/-- invariant while the pairs of one (bundled) token are being processed; `d1` = tokens before it -/
structure BInv (s : PState) (d1 : List Str) : Prop where
  sub : s.rem.Sublist (d1 ++ (if s.passed then [s.tok] else []))
  ro : s.passed = true → (s.P.node s.cur).requireOrder = false

/-- what holds after some processing of a bundle whose token is `tok` -/
structure BRes (s s' : PState) (d1 : List Str) : Prop where
  sub : s'.err = none → s'.rem.Sublist (d1 ++ [s.tok])
  tok : s'.tok = s.tok
  binv : s'.err = none → s'.ctx ≠ .stopped → BInv s' d1

theorem BInv.sub_tok {s : PState} {d1 : List Str} (h : BInv s d1) : s.rem.Sublist (d1 ++ [s.tok]) := by
  have := h.sub
  split at this
  · exact this
  · exact this.trans (by simp)

/-- `offer` touches neither the remaining list nor the bundle bookkeeping -/
theorem offer_frame (s : PState) (o i : Nat) (t : Str) :
    let r := (offer ext mode s o i t).1
    r.rem = s.rem ∧ r.passed = s.passed ∧ r.tok = s.tok ∧ r.cur = s.cur ∧ r.pending = s.pending ∧
    (∀ n, r.P.node n = s.P.node n) ∧ r.unk = s.unk ∧
    (r.ctx = .idle ∨ r.ctx = s.ctx ∨ ∃ i', r.ctx = .collecting o i') := by
  unfold offer
  simp only
  split
  · split
    · simp
    · split <;> simp [node_setOpt] <;> split <;> simp <;> (left; omega)
  · split
    · simp
    · split <;> simp [node_setOpt] <;> split <;> simp <;> (left; omega)

theorem BInv_of_frame {s r : PState} {d1 : List Str} (h : BInv s d1)
    (hr : r.rem = s.rem) (hp : r.passed = s.passed) (ht : r.tok = s.tok) (hc : r.cur = s.cur)
    (hn : ∀ n, r.P.node n = s.P.node n) : BInv r d1 := by
  refine ⟨?_, ?_⟩
  · rw [hr, hp, ht]; exact h.sub
  · rw [hp, hc, hn]; exact h.ro

theorem BRes.trans {s s1 s2 : PState} {d1 : List Str} (h1 : BRes s s1 d1) (h2 : BRes s1 s2 d1) :
    BRes s s2 d1 := by
  refine ⟨fun he => ?_, h2.tok.trans h1.tok, h2.binv⟩
  have := h2.sub he
  rwa [h1.tok] at this

theorem BRes.refl' {s : PState} {d1 : List Str} (h : BInv s d1) : BRes s s d1 :=
  ⟨fun _ => h.sub_tok, rfl, fun _ _ => h⟩

theorem procPair_res (s : PState) (p : Pair) (d1 : List Str) (h : BInv s d1) :
    BRes s (procPair ext s p) d1 := by
  cases hr : resolve (s.P.node s.cur) p.opt with
  | nil =>
    cases hro : (s.P.node s.cur).requireOrder with
    | true =>
      rw [procPair_unknown_ro ext s p hr hro]
      have hp : s.passed = false := by
        cases hps : s.passed with
        | false => rfl
        | true => have := h.ro hps; simp [this] at hro
      refine ⟨fun _ => ?_, rfl, fun _ hc => by simp at hc⟩
      have hs := h.sub
      simp only [hp] at hs
      simpa [PState.addText] using hs.append (List.Sublist.refl [s.tok])
    | false =>
      rw [procPair_unknown ext s p hr hro]
      split
      · rename_i hcond
        have hp : s.passed = false := by
          cases hps : s.passed with
          | false => rfl
          | true => simp [hps] at hcond
        have hs := h.sub
        simp only [hp] at hs
        have hs' : (s.rem ++ [s.tok]).Sublist (d1 ++ [s.tok]) := by
          simpa using hs.append (List.Sublist.refl [s.tok])
        exact ⟨fun _ => hs', rfl, fun _ _ => ⟨by simpa using hs', fun _ => hro⟩⟩
      · exact ⟨fun _ => h.sub_tok, rfl, fun _ _ => ⟨h.sub, h.ro⟩⟩
  | cons k1 rest =>
    cases rest with
    | nil =>
      cases hl : lookup k1 (s.P.node s.cur).opts with
      | none => rw [procPair_known_nolookup ext s p k1 hr hl]; exact BRes.refl' h
      | some oid =>
        rw [procPair_known ext s p k1 oid hr hl]
        split
        · refine ⟨fun he => ?_, rfl, fun he => ?_⟩ <;> simp at he
        · split
          · exact ⟨fun _ => h.sub_tok, rfl, fun _ _ => ⟨h.sub, h.ro⟩⟩
          · exact ⟨fun _ => h.sub_tok, rfl, fun _ _ => ⟨h.sub, h.ro⟩⟩
    | cons k2 ks =>
      rw [procPair_amb ext s p k1 k2 ks hr]
      refine ⟨fun he => ?_, rfl, fun he => ?_⟩ <;> simp at he

/-- changing only `pending` / `ctx` keeps a bundle result -/
theorem BRes.withPending {s s' : PState} {d1 : List Str} (h : BRes s s' d1) (ps : List Pair) :
    BRes s { s' with pending := ps } d1 :=
  ⟨fun he => h.sub he, h.tok, fun he hc => by
    have := h.binv he hc
    exact ⟨this.sub, this.ro⟩⟩

theorem drain_res (ps : List Pair) (s : PState) (d1 : List Str) (h : BInv s d1) :
    BRes s (drain ext s ps) d1 := by
  induction ps generalizing s with
  | nil => exact (BRes.refl' h).withPending []
  | cons p ps ih =>
    unfold drain
    have hb : BInv { s with pending := ps } d1 := ⟨h.sub, h.ro⟩
    have h1 : BRes { s with pending := ps } (procPair ext { s with pending := ps } p) d1 :=
      procPair_res ext _ p d1 hb
    have h1' : BRes s (procPair ext { s with pending := ps } p) d1 := ⟨h1.sub, h1.tok, h1.binv⟩
    simp only
    split
    · exact h1'
    · rename_i herr
      have he : (procPair ext { s with pending := ps } p).err = none := by
        cases hx : (procPair ext { s with pending := ps } p).err with
        | none => rfl
        | some e => simp [hx] at herr
      split
      · rename_i hctx
        have hb1 := h1.binv he (by rw [hctx]; simp)
        exact h1'.trans (ih _ hb1)
      · exact h1'.withPending ps
      · exact h1'.withPending []

/-- The general invariant of the argument loop. -/
structure Inv (s : PState) (done : List Str) : Prop where
  sub : s.err = none → s.rem.Sublist done
  bundle : s.err = none → s.pending ≠ [] → ∃ d1 d2, done = d1 ++ s.tok :: d2 ∧ BInv s d1
  pend : s.err = none → s.pending ≠ [] → ∃ o i, s.ctx = .collecting o i

theorem Inv.of_bres {s s' : PState} {d1 d2 : List Str} (h : BRes s s' d1)
    (hpend : s'.err = none → s'.pending ≠ [] → s'.ctx ≠ .stopped)
    (hcoll : s'.err = none → s'.pending ≠ [] → ∃ o i, s'.ctx = .collecting o i) :
    Inv s' (d1 ++ s.tok :: d2) := by
  refine ⟨fun he => ?_, fun he hp => ⟨d1, d2, by rw [h.tok], h.binv he (hpend he hp)⟩, hcoll⟩
  exact (h.sub he).trans (by simp)

theorem drain_pending_ctx (ps : List Pair) (s : PState) :
    (drain ext s ps).err = none → (drain ext s ps).pending ≠ [] → (drain ext s ps).ctx ≠ .stopped := by
  induction ps generalizing s with
  | nil => intro _ hp; simp [drain] at hp
  | cons p ps ih =>
    unfold drain
    simp only
    split
    · rename_i herr; intro he; simp [he] at herr
    · split
      · exact ih _
      · rename_i o i hctx; intro _ _; simp [hctx]
      · intro _ hp; simp at hp

theorem drain_pending_coll (ps : List Pair) (s : PState) :
    (drain ext s ps).err = none → (drain ext s ps).pending ≠ [] → ∃ o i, (drain ext s ps).ctx = .collecting o i := by
  induction ps generalizing s with
  | nil => intro _ hp; simp [drain] at hp
  | cons p ps ih =>
    unfold drain
    simp only
    split
    · rename_i herr; intro he; simp [he] at herr
    · split
      · exact ih _
      · rename_i o i hctx; intro _ _; exact ⟨o, i, by simp [hctx]⟩
      · intro _ hp; simp at hp

theorem head_inv (s : PState) (t : Str) (done : List Str) (he : s.err = none)
    (hs : s.rem.Sublist done) (hpe : s.pending = []) :
    Inv (head ext mode none s t) (done ++ [t]) := by
  unfold head
  simp only
  split
  · -- terminator
    exact ⟨fun _ => hs.trans (by simp), fun _ hp => by simp [hpe] at hp, fun _ hp => by simp [hpe] at hp⟩
  · split
    · -- option token
      rename_i pairs hopt
      have hr := drain_res ext pairs { s with tok := t, lastTok := t, passed := false } done
        ⟨by simpa using hs, by simp⟩
      have := Inv.of_bres (d2 := []) hr (drain_pending_ctx ext pairs _) (drain_pending_coll ext pairs _)
      simpa using this
    · -- not an option
      split
      · exact ⟨fun _ => hs.trans (by simp), fun _ hp => by simp [hpe] at hp, fun _ hp => by simp [hpe] at hp⟩
      · split
        · refine ⟨fun _ => ?_, fun _ hp => by simp [PState.addText, hpe] at hp,
            fun _ hp => by simp [PState.addText, hpe] at hp⟩
          simpa [PState.addText] using hs.append (List.Sublist.refl [t])
        · refine ⟨fun _ => ?_, fun _ hp => by simp [PState.addText, hpe] at hp,
            fun _ hp => by simp [PState.addText, hpe] at hp⟩
          simpa [PState.addText] using hs.append (List.Sublist.refl [t])

/-- a refused token leaves the state untouched except that the occurrence is closed -/
theorem offer_refused (s : PState) (o i : Nat) (t : Str) (h : (offer ext mode s o i t).2 = false) :
    (offer ext mode s o i t).1 = { s with ctx := .idle } := by
  unfold offer at h ⊢
  simp only at h ⊢
  split at h
  · split at h
    · simp at h
    · split at h <;> simp at h
  · rename_i hmin
    split at h
    · rename_i hc; simp [hmin, hc]
    · split at h <;> simp at h

theorem afterConsume_res (s : PState) (ps : List Pair) (d1 : List Str) (h : BInv s d1) :
    BRes s (afterConsume ext s ps) d1 := by
  unfold afterConsume
  split
  · exact BRes.refl' h
  · split
    · exact drain_res ext ps s d1 h
    · exact (BRes.refl' h).withPending ps

theorem afterConsume_pending (s : PState) (ps : List Pair)
    (hctx : s.ctx = .idle ∨ ∃ o i, s.ctx = .collecting o i) :
    let r := afterConsume ext s ps
    r.err = none → r.pending ≠ [] → ∃ o i, r.ctx = .collecting o i := by
  unfold afterConsume
  simp only
  split
  · rename_i herr; intro he; simp [he] at herr
  · split
    · exact drain_pending_coll ext ps s
    · rename_i hni
      intro _ _
      rcases hctx with h | ⟨o, i, h⟩
      · exact absurd h (by intro hh; exact hni hh)
      · exact ⟨o, i, by simp [h]⟩

theorem coll_ne_stopped {s : PState} (h : ∃ o i, s.ctx = .collecting o i) : s.ctx ≠ .stopped := by
  obtain ⟨o, i, h⟩ := h; simp [h]

theorem Inv.of_err {s : PState} {done : List Str} (h : s.err ≠ none) : Inv s done :=
  ⟨fun he => absurd he h, fun he => absurd he h, fun he => absurd he h⟩

theorem feedPending_inv (t : Str) (ps : List Pair) (s : PState) (d1 d2 : List Str)
    (h : BInv s d1) (he : s.err = none) :
    Inv (feedPending ext mode none t s ps) (d1 ++ s.tok :: d2 ++ [t]) := by
  induction ps generalizing s with
  | nil =>
    unfold feedPending
    have := head_inv ext mode { s with pending := [] } t (d1 ++ s.tok :: d2) (by simpa using he)
      (by simpa using h.sub_tok.trans (by simp)) rfl
    simpa using this
  | cons p ps ih =>
    unfold feedPending
    have hb : BInv { s with pending := ps } d1 := ⟨h.sub, h.ro⟩
    have h1 : BRes { s with pending := ps } (procPair ext { s with pending := ps } p) d1 :=
      procPair_res ext _ p d1 hb
    have htok : (procPair ext { s with pending := ps } p).tok = s.tok := h1.tok
    simp only
    split
    · rename_i herr
      exact Inv.of_err (by intro hh; simp [hh] at herr)
    · rename_i herr
      have he1 : (procPair ext { s with pending := ps } p).err = none := by
        cases hx : (procPair ext { s with pending := ps } p).err with
        | none => rfl
        | some e => simp [hx] at herr
      split
      · rename_i hctx
        have := ih _ (h1.binv he1 (by rw [hctx]; simp)) he1
        rwa [htok] at this
      · rename_i o i hctx
        have hb1 := h1.binv he1 (by rw [hctx]; simp)
        have hf := offer_frame ext mode (procPair ext { s with pending := ps } p) o i t
        simp only at hf
        obtain ⟨f1, f2, f3, f4, f5, f6, f7, f8⟩ := hf
        have hb2 : BInv (offer ext mode (procPair ext { s with pending := ps } p) o i t).1 d1 :=
          BInv_of_frame hb1 f1 f2 f3 f4 f6
        split
        · rename_i s2 hoff
          have e2 : s2 = (offer ext mode (procPair ext { s with pending := ps } p) o i t).1 := by rw [hoff]
          have hb2' : BInv s2 d1 := by rw [e2]; exact hb2
          have hr := afterConsume_res ext s2 ps d1 hb2'
          have hctx2 : s2.ctx = .idle ∨ ∃ o i, s2.ctx = .collecting o i := by
            rw [e2]
            rcases f8 with h | h | ⟨i', h⟩
            · exact Or.inl h
            · exact Or.inr ⟨o, i, by rw [h, hctx]⟩
            · exact Or.inr ⟨o, i', h⟩
          have hp := afterConsume_pending ext s2 ps hctx2
          have ht2 : s2.tok = s.tok := by rw [e2, f3, htok]
          have := Inv.of_bres (d2 := d2 ++ [t]) hr (fun a b => coll_ne_stopped (hp a b)) hp
          rw [ht2] at this
          simpa using this
        · rename_i s2 hoff
          have e2 : s2 = (offer ext mode (procPair ext { s with pending := ps } p) o i t).1 := by rw [hoff]
          have hb2' : BInv s2 d1 := by rw [e2]; exact hb2
          have he2 : s2.err = none := by
            have := offer_refused ext mode (procPair ext { s with pending := ps } p) o i t (by rw [hoff])
            rw [e2, this]; exact he1
          have := ih s2 hb2' he2
          have ht2 : s2.tok = s.tok := by rw [e2, f3, htok]
          rwa [ht2] at this
      · refine ⟨fun _ => ?_, fun _ hp => by simp [PState.addText] at hp, fun _ hp => by simp [PState.addText] at hp⟩
        have := h1.sub he1
        simp only [PState.addText]
        have h3 : ((procPair ext { s with pending := ps } p).rem ++ [t]).Sublist ((d1 ++ [s.tok]) ++ [t]) :=
          this.append (List.Sublist.refl [t])
        exact h3.trans (by simp)

theorem Inv.mono {s : PState} {done : List Str} (h : Inv s done) (t : Str) : Inv s (done ++ [t]) := by
  refine ⟨fun he => (h.sub he).trans (by simp), fun he hp => ?_, h.pend⟩
  obtain ⟨d1, d2, hd, hb⟩ := h.bundle he hp
  exact ⟨d1, d2 ++ [t], by rw [hd]; simp, hb⟩

/-- one token preserves the invariant -/
theorem step_inv (s : PState) (t : Str) (done : List Str) (h : Inv s done) :
    Inv (step ext mode s t) (done ++ [t]) := by
  unfold step stepG
  split
  · exact h.mono t
  · rename_i herr
    have he : s.err = none := by
      cases hx : s.err with
      | none => rfl
      | some e => simp [hx] at herr
    split
    · exact h.mono t
    · -- stopped
      rename_i hctx
      have hpe : s.pending = [] := by
        cases hp : s.pending with
        | nil => rfl
        | cons p ps =>
          obtain ⟨o, i, hc⟩ := h.pend he (by simp [hp])
          simp [hc] at hctx
      refine ⟨fun _ => ?_, fun _ hp => by simp [PState.addText, hpe] at hp,
        fun _ hp => by simp [PState.addText, hpe] at hp⟩
      simpa [PState.addText] using (h.sub he).append (List.Sublist.refl [t])
    · -- idle
      rename_i hctx
      have hpe : s.pending = [] := by
        cases hp : s.pending with
        | nil => rfl
        | cons p ps =>
          obtain ⟨o, i, hc⟩ := h.pend he (by simp [hp])
          simp [hc] at hctx
      exact head_inv ext mode s t done he (h.sub he) hpe
    · -- collecting
      rename_i o i hctx
      have hf := offer_frame ext mode s o i t
      simp only at hf
      obtain ⟨f1, f2, f3, f4, f5, f6, f7, f8⟩ := hf
      split
      · -- consumed
        rename_i s1 hoff
        have e1 : s1 = (offer ext mode s o i t).1 := by rw [hoff]
        have hctx1 : s1.ctx = .idle ∨ ∃ o i, s1.ctx = .collecting o i := by
          rw [e1]
          rcases f8 with h' | h' | ⟨i', h'⟩
          · exact Or.inl h'
          · exact Or.inr ⟨o, i, by rw [h', hctx]⟩
          · exact Or.inr ⟨o, i', h'⟩
        have hp1 := afterConsume_pending ext s1 s1.pending hctx1
        by_cases hpend : s.pending = []
        · -- single occurrence: nothing pending
          have hp1' : s1.pending = [] := by rw [e1, f5, hpend]
          rw [hp1']
          unfold afterConsume
          split
          · refine ⟨fun he1 => ?_, fun he1 hp => by simp [hp1'] at hp, fun he1 hp => by simp [hp1'] at hp⟩
            rw [e1, f1]; exact (h.sub he).trans (by simp)
          · split
            · refine ⟨fun _ => ?_, fun _ hp => by simp [drain] at hp, fun _ hp => by simp [drain] at hp⟩
              simp only [drain]; rw [e1, f1]; exact (h.sub he).trans (by simp)
            · refine ⟨fun _ => ?_, fun _ hp => by simp at hp, fun _ hp => by simp at hp⟩
              simp only; rw [e1, f1]; exact (h.sub he).trans (by simp)
        · obtain ⟨d1, d2, hd, hb⟩ := h.bundle he hpend
          have hb1 : BInv s1 d1 := by rw [e1]; exact BInv_of_frame hb f1 f2 f3 f4 f6
          have hr := afterConsume_res ext s1 s1.pending d1 hb1
          have := Inv.of_bres (d2 := d2 ++ [t]) hr (fun a b => coll_ne_stopped (hp1 a b)) hp1
          have ht : s1.tok = s.tok := by rw [e1, f3]
          rw [ht] at this
          rw [hd]
          simpa using this
      · -- refused
        rename_i s1 hoff
        have e1 : s1 = { s with ctx := .idle } := by
          have := offer_refused ext mode s o i t (by rw [hoff])
          rw [hoff] at this; exact this
        by_cases hpend : s.pending = []
        · have : feedPending ext mode none t s1 s1.pending = head ext mode none { s1 with pending := [] } t := by
            rw [e1]; simp only [hpend]; rfl
          rw [this]
          have := head_inv ext mode { s1 with pending := [] } t done (by rw [e1]; exact he)
            (by rw [e1]; exact h.sub he) rfl
          exact this
        · obtain ⟨d1, d2, hd, hb⟩ := h.bundle he hpend
          have hb1 : BInv s1 d1 := by rw [e1]; exact ⟨hb.sub, hb.ro⟩
          have := feedPending_inv ext mode t s1.pending s1 d1 d2 hb1 (by rw [e1]; exact he)
          have ht : s1.tok = s.tok := by rw [e1]
          rw [ht] at this
          rw [hd]
          exact this

theorem foldl_inv (ts : List Str) (s : PState) (done : List Str) (h : Inv s done) :
    Inv (ts.foldl (step ext mode) s) (done ++ ts) := by
  induction ts generalizing s done with
  | nil => simpa using h
  | cons t ts ih =>
    simp only [List.foldl]
    have := ih _ _ (step_inv ext mode s t done h)
    simpa using this

theorem init_inv (P : Prog) : Inv (initState P) [] :=
  ⟨fun _ => by simp [initState], fun _ hp => by simp [initState] at hp, fun _ hp => by simp [initState] at hp⟩

theorem run_inv (P : Prog) (args : List Str) : Inv (run ext mode P args) args := by
  have := foldl_inv ext mode args (initState P) [] (init_inv P)
  simpa [run] using this

theorem finishDrain_res (ps : List Pair) (s : PState) (d1 : List Str) (h : BInv s d1) :
    BRes s (finishDrain ext s ps) d1 := by
  induction ps generalizing s with
  | nil => exact (BRes.refl' h).withPending []
  | cons p ps ih =>
    unfold finishDrain
    have hb : BInv { s with pending := ps } d1 := ⟨h.sub, h.ro⟩
    have h1 : BRes { s with pending := ps } (procPair ext { s with pending := ps } p) d1 :=
      procPair_res ext _ p d1 hb
    have h1' : BRes s (procPair ext { s with pending := ps } p) d1 := ⟨h1.sub, h1.tok, h1.binv⟩
    simp only
    split
    · exact h1'
    · rename_i herr
      have he : (procPair ext { s with pending := ps } p).err = none := by
        cases hx : (procPair ext { s with pending := ps } p).err with
        | none => rfl
        | some e => simp [hx] at herr
      split
      · rename_i o i hctx
        split
        · refine ⟨fun he' => ?_, h1'.tok, fun he' => ?_⟩ <;> simp at he'
        · have hb1 := h1.binv he (by rw [hctx]; simp)
          have hb2 : BInv { procPair ext { s with pending := ps } p with ctx := .idle } d1 := ⟨hb1.sub, hb1.ro⟩
          have := ih _ hb2
          exact h1'.trans ⟨this.sub, this.tok, this.binv⟩
      · rename_i hctx
        have hb1 := h1.binv he (by rw [hctx]; simp)
        exact h1'.trans (ih _ hb1)
      · exact h1'.withPending []

theorem finish_rem_sublist (s : PState) (done : List Str) (hinv : Inv s done)
    (he : (finish ext s).err = none) : (finish ext s).rem.Sublist done := by
  unfold finish at he ⊢
  split at he
  · rename_i herr
    cases hx : s.err with
    | none => simp [hx] at herr
    | some e => simp [hx] at he
  · rename_i herr
    have her : s.err = none := by
      cases hx : s.err with
      | none => rfl
      | some e => simp [hx] at herr
    simp only [herr, Bool.false_eq_true, ↓reduceIte]
    split
    · rename_i o i hctx
      split
      · rename_i hmin; simp [hctx, hmin] at he
      · rename_i hmin
        by_cases hpend : s.pending = []
        · rw [hpend]; simp only [finishDrain]; exact hinv.sub her
        · obtain ⟨d1, d2, hd, hb⟩ := hinv.bundle her hpend
          have hb2 : BInv { s with ctx := .idle } d1 := ⟨hb.sub, hb.ro⟩
          have hr := finishDrain_res ext s.pending _ d1 hb2
          simp only [hctx, hmin] at he
          have h3 := hr.sub (by simpa using he)
          have h4 : (d1 ++ [s.tok]).Sublist (d1 ++ s.tok :: d2) := by simp
          rw [hd]
          exact h3.trans h4
    · exact hinv.sub her

/-- **Conservation.** Whatever `parseCLIArgs` returns as positional text is a positional sublist of
the arguments: nothing invented, altered, reordered or duplicated. -/
theorem parseArgs_rem_sublist (P : Prog) (args : List Str)
    (he : (parseArgs ext mode P args).err = none) : (parseArgs ext mode P args).rem.Sublist args :=
  finish_rem_sublist ext _ args (run_inv ext mode P args) he

end GoModel

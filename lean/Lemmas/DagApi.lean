import Lemmas.DagBuild
/-!
# The rest of the construction API: `g.Task(id)`, `TaskMap.Add/Get`, `Validate`

* the error lists of the graph and of the `TaskMap` only ever grow (`buildStep_errs_mono`), hence an error
  recorded by any call makes every later `Run` return before anything is scheduled;
* `g.Task(id)` for a registered id is the registered task and records nothing; for an unknown id it records
  `ErrorTaskNotFound` in the graph;
* a call whose arguments are looked up (`g.TaskDependsOn(g.Task("a"), g.Task("b"))`) is the call with the
  tasks themselves whenever the ids are registered (`lookup_transparent`).
-/
namespace GoModel.Dag

def IsPrefixOf (a b : List BuildErr) : Prop := ∃ more, b = a ++ more

theorem IsPrefixOf.refl (a : List BuildErr) : IsPrefixOf a a := ⟨[], by simp⟩
theorem IsPrefixOf.trans {a b c : List BuildErr} (h1 : IsPrefixOf a b) (h2 : IsPrefixOf b c) : IsPrefixOf a c := by
  obtain ⟨m1, h1⟩ := h1; obtain ⟨m2, h2⟩ := h2
  exact ⟨m1 ++ m2, by rw [h2, h1, List.append_assoc]⟩
theorem IsPrefixOf.snoc (a : List BuildErr) (e : BuildErr) : IsPrefixOf a (a ++ [e]) := ⟨[e], rfl⟩
theorem IsPrefixOf.ne_nil {a b : List BuildErr} (h : IsPrefixOf a b) (ha : a ≠ []) : b ≠ [] := by
  obtain ⟨m, h⟩ := h
  intro hb; rw [hb] at h
  cases a with
  | nil => exact ha rfl
  | cons x xs => simp at h

/-- both error lists at once -/
def ErrsMono (g g' : GState) : Prop := IsPrefixOf g.errs g'.errs ∧ IsPrefixOf g.tmErrs g'.tmErrs

theorem ErrsMono.refl (g : GState) : ErrsMono g g := ⟨.refl _, .refl _⟩
theorem ErrsMono.trans {a b c : GState} (h1 : ErrsMono a b) (h2 : ErrsMono b c) : ErrsMono a c :=
  ⟨h1.1.trans h2.1, h1.2.trans h2.2⟩

theorem modify_errs (g : GState) (x : Nat) (f : Vertex → Vertex) : (g.modify x f).errs = g.errs := rfl
theorem modify_tmErrs (g : GState) (x : Nat) (f : Vertex → Vertex) : (g.modify x f).tmErrs = g.tmErrs := rfl
theorem modify_tm (g : GState) (x : Nat) (f : Vertex → Vertex) : (g.modify x f).tm = g.tm := rfl

theorem addTask_frame (g g' : GState) (t : Option TaskRef) (hr : addTask g t = .ok g') :
    g'.errs = g.errs ∧ g'.tmErrs = g.tmErrs ∧ g'.tm = g.tm := by
  unfold addTask at hr
  split at hr
  · cases hr
  · split at hr
    · cases hr
    · split at hr
      · cases hr
      · split at hr
        · cases hr; exact ⟨rfl, rfl, rfl⟩
        · cases hr; exact ⟨rfl, rfl, rfl⟩

theorem retrieveOrAdd_frame (g g' : GState) (t : Option TaskRef) (v : Nat) (hr : retrieveOrAdd g t = .ok (g', v)) :
    g'.errs = g.errs ∧ g'.tmErrs = g.tmErrs ∧ g'.tm = g.tm := by
  unfold retrieveOrAdd at hr
  split at hr
  · cases hr
  · split at hr
    · cases hr; exact ⟨rfl, rfl, rfl⟩
    · split at hr
      · rename_i g1 h1; cases hr; exact addTask_frame g _ _ h1
      · cases hr

theorem addDeps_mono (deps : List (Option TaskRef)) (g : GState) (v : Nat) :
    ErrsMono g (addDeps g v deps) ∧ (addDeps g v deps).tm = g.tm := by
  induction deps generalizing g with
  | nil => exact ⟨.refl _, rfl⟩
  | cons d ds ih =>
    simp only [addDeps]
    split
    · exact ⟨⟨.snoc _ _, .refl _⟩, rfl⟩
    · rename_i g1 c hr
      have fr := retrieveOrAdd_frame g g1 d c hr
      split
      · refine ⟨⟨?_, ?_⟩, fr.2.2⟩
        · show IsPrefixOf g.errs (g1.errs ++ _); rw [fr.1]; exact .snoc _ _
        · show IsPrefixOf g.tmErrs g1.tmErrs; rw [fr.2.1]; exact .refl _
      · have r := ih ((g1.modify v fun x => { x with children := x.children ++ [c] }).modify c
            fun x => { x with parents := x.parents ++ [v] })
        refine ⟨⟨?_, ?_⟩, ?_⟩
        · have := r.1.1; simp only [modify_errs] at this; rw [fr.1] at this; exact this
        · have := r.1.2; simp only [modify_tmErrs] at this; rw [fr.2.1] at this; exact this
        · rw [r.2]; simp only [modify_tm]; exact fr.2.2

theorem evalRef_mono (g : GState) (t : Option TaskRef) : ErrsMono g (evalRef g t).1 ∧ (evalRef g t).1.tm = g.tm := by
  unfold evalRef
  split
  · exact ⟨.refl _, rfl⟩
  · split
    · exact ⟨.refl _, rfl⟩
    · split
      · exact ⟨.refl _, rfl⟩
      · exact ⟨⟨.snoc _ _, .refl _⟩, rfl⟩
    · split
      · exact ⟨.refl _, rfl⟩
      · exact ⟨⟨.refl _, .snoc _ _⟩, rfl⟩

theorem evalRefs_mono (ts : List (Option TaskRef)) (g : GState) :
    ErrsMono g (evalRefs g ts).1 ∧ (evalRefs g ts).1.tm = g.tm := by
  induction ts generalizing g with
  | nil => exact ⟨.refl _, rfl⟩
  | cons t r ih =>
    simp only [evalRefs]
    have h1 := evalRef_mono g t
    have h2 := ih (evalRef g t).1
    exact ⟨h1.1.trans h2.1, by rw [h2.2, h1.2]⟩

theorem tmAdd_mono (g : GState) (id : Nat) (f : Bool) : ErrsMono g (tmAdd g id f) := by
  unfold tmAdd
  refine ⟨.refl _, ?_⟩
  show IsPrefixOf g.tmErrs (g.tmErrs ++ _ ++ _ ++ _)
  simp only [List.append_assoc]
  exact ⟨_, rfl⟩

theorem buildCore_mono (g : GState) (op : GOp) : ErrsMono g (buildCore g op) := by
  cases op with
  | lookup t => exact .refl _
  | tmAdd id f => exact tmAdd_mono g id f
  | addTask t =>
    simp only [buildCore]
    split
    · rename_i g' hr
      have fr := addTask_frame g g' t hr
      exact ⟨by rw [fr.1]; exact .refl _, by rw [fr.2.1]; exact .refl _⟩
    · exact ⟨.snoc _ _, .refl _⟩
  | dependsOn t deps =>
    simp only [buildCore]
    split
    · exact ⟨.snoc _ _, .refl _⟩
    · rename_i g1 v hr
      have fr := retrieveOrAdd_frame g g1 t v hr
      have r := (addDeps_mono deps g1 v).1
      exact ⟨by have := r.1; rw [fr.1] at this; exact this, by have := r.2; rw [fr.2.1] at this; exact this⟩
  | retries t n =>
    simp only [buildCore]
    split
    · exact ⟨.snoc _ _, .refl _⟩
    · rename_i g1 v hr
      have fr := retrieveOrAdd_frame g g1 t v hr
      exact ⟨by rw [modify_errs, fr.1]; exact .refl _, by rw [modify_tmErrs, fr.2.1]; exact .refl _⟩

/-- one API call never removes a recorded error -/
theorem buildStep_errs_mono (g : GState) (op : GOp) : ErrsMono g (buildStep g op) := by
  cases op with
  | addTask t => simp only [buildStep]; exact (evalRef_mono g t).1.trans (buildCore_mono _ _)
  | dependsOn t deps =>
    simp only [buildStep]
    exact ((evalRef_mono g t).1.trans (evalRefs_mono deps _).1).trans (buildCore_mono _ _)
  | retries t n => simp only [buildStep]; exact (evalRef_mono g t).1.trans (buildCore_mono _ _)
  | lookup t => simp only [buildStep]; exact (evalRef_mono g t).1
  | tmAdd id f => simp only [buildStep]; exact buildCore_mono _ _

theorem foldl_errs_mono (ops : List GOp) (g : GState) : ErrsMono g (ops.foldl buildStep g) := by
  induction ops generalizing g with
  | nil => exact .refl _
  | cons op r ih => exact (buildStep_errs_mono g op).trans (ih _)

/-! ## `g.Task(id)` -/

theorem evalRef_graph_found (g : GState) (id : Nat) (f : Bool) (h : g.has id = true) :
    evalRef g (some { id := id, hasFn := f, src := .graph }) = (g, some { id := id, hasFn := true }) := by
  simp [evalRef, h]

theorem evalRef_graph_missing (g : GState) (id : Nat) (f : Bool) (h : g.has id = false) :
    evalRef g (some { id := id, hasFn := f, src := .graph }) =
      ({ g with errs := g.errs ++ [.taskNotFound id] }, some { id := id, hasFn := false }) := by
  simp [evalRef, h]

/-- every reference is direct, or a graph lookup of a registered id -/
def Registered (g : GState) (t : Option TaskRef) : Prop :=
  match t with
  | none => True
  | some t => t.src = .direct ∨ (t.src = .graph ∧ g.has t.id = true)

/-- the task object a registered reference stands for -/
def direct (t : Option TaskRef) : Option TaskRef :=
  match t with
  | none => none
  | some t => match t.src with
    | .direct => some t
    | _ => some { id := t.id, hasFn := true }

theorem evalRef_registered (g : GState) (t : Option TaskRef) (h : Registered g t) :
    evalRef g t = (g, direct t) := by
  cases t with
  | none => rfl
  | some t =>
    unfold Registered at h
    rcases h with h | ⟨h1, h2⟩
    · simp [evalRef, direct, h]
    · simp [evalRef, direct, h1, h2]

theorem evalRefs_registered (g : GState) (ts : List (Option TaskRef)) (h : ∀ t ∈ ts, Registered g t) :
    evalRefs g ts = (g, ts.map direct) := by
  induction ts with
  | nil => rfl
  | cons t r ih =>
    simp only [evalRefs, List.map_cons]
    rw [evalRef_registered g t (h t (by simp))]
    simp only
    rw [ih (fun x hx => h x (by simp [hx]))]

theorem evalRef_direct (g : GState) (t : Option TaskRef) : evalRef g (direct t) = (g, direct t) := by
  cases t with
  | none => rfl
  | some t =>
    cases hs : t.src <;> simp [direct, hs, evalRef]

theorem evalRefs_direct (g : GState) (ts : List (Option TaskRef)) :
    evalRefs g (ts.map direct) = (g, ts.map direct) := by
  induction ts with
  | nil => rfl
  | cons t r ih => simp only [List.map_cons, evalRefs, evalRef_direct, ih]

/-! ## `TaskMap` -/

theorem tmGet_after_add (g : GState) (id : Nat) (f f' : Bool) :
    evalRef (tmAdd g id f) (some { id := id, hasFn := f', src := .tmap }) =
      (tmAdd g id f, some { id := id, hasFn := f }) := by
  simp [evalRef, tmAdd]

theorem tmGet_missing (g : GState) (id : Nat) (f : Bool) (h : g.tm.find? (·.1 == id) = none) :
    evalRef g (some { id := id, hasFn := f, src := .tmap }) =
      ({ g with tmErrs := g.tmErrs ++ [.taskNotFound id] }, some { id := id, hasFn := false }) := by
  simp only [evalRef, h]

end GoModel.Dag

import Lemmas.Sort
/-! Association-list (Go map) lemmas. -/
namespace GoModel

theorem findSome_none_iff {α β} (l : List α) (f : α → Option β) :
    l.findSome? f = none ↔ ∀ x ∈ l, f x = none := by
  induction l with
  | nil => simp
  | cons a r ih => simp [List.findSome?_cons]; cases h : f a <;> simp [ih]

theorem mem_sortStrs (l : List Str) (x : Str) : x ∈ sortStrs l ↔ x ∈ l := by
  induction l with
  | nil => simp [sortStrs]
  | cons a r ih =>
    have hins : ∀ (y : Str) (m : List Str), x ∈ insertSorted y m ↔ x = y ∨ x ∈ m := by
      intro y m
      induction m with
      | nil => simp [insertSorted]
      | cons c m ihm =>
        simp only [insertSorted]
        split
        · simp
        · simp only [List.mem_cons, ihm]
          constructor
          · rintro (h | h | h)
            · exact Or.inr (Or.inl h)
            · exact Or.inl h
            · exact Or.inr (Or.inr h)
          · rintro (h | h | h)
            · exact Or.inr (Or.inl h)
            · exact Or.inl h
            · exact Or.inr (Or.inr h)
    simp [sortStrs, hins, ih]

theorem lookup_some_of_mem {α} (l : List (Str × α)) (k : Str) (h : k ∈ l.map (·.1)) : ∃ v, lookup k l = some v := by
  induction l with
  | nil => simp at h
  | cons x r ih =>
    obtain ⟨k', v'⟩ := x
    by_cases hk : (k' == k) = true
    · exact ⟨v', by simp [lookup, hk]⟩
    · simp only [List.map_cons, List.mem_cons] at h
      rcases h with h | h
      · exact absurd (by simp [h]) hk
      · obtain ⟨v, hv⟩ := ih h
        exact ⟨v, by simp [lookup, hk, hv]⟩

theorem lookup_of_mem_nodup {α} (l : List (Str × α)) (k : Str) (v : α)
    (hnd : (l.map (·.1)).Nodup) (h : (k, v) ∈ l) : lookup k l = some v := by
  induction l with
  | nil => simp at h
  | cons x r ih =>
    obtain ⟨k', v'⟩ := x
    simp only [List.map_cons, List.nodup_cons] at hnd
    simp only [List.mem_cons, Prod.mk.injEq] at h
    rcases h with ⟨h1, h2⟩ | h
    · simp [lookup, h1, h2]
    · have hne : (k' == k) = false := by
        cases hk : (k' == k) with
        | false => rfl
        | true =>
          have : k' = k := by simpa using hk
          exact absurd (List.mem_map.mpr ⟨(k, v), h, this.symm⟩) hnd.1
      simp [lookup, hne, ih hnd.2 h]

theorem lookup_mem {α} (l : List (Str × α)) (k : Str) (v : α) (h : lookup k l = some v) : (k, v) ∈ l := by
  induction l with
  | nil => simp [lookup] at h
  | cons x r ih =>
    obtain ⟨k', v'⟩ := x
    by_cases hk : (k' == k) = true
    · simp [lookup, hk] at h
      have : k' = k := by simpa using hk
      simp [this, h]
    · simp [lookup, hk] at h
      simp [ih h]


end GoModel

import Model.Define
/-!
# Definition calls never touch an option record that already exists

`Prog.opts` only grows at its end: every definition call either leaves the list alone (all node-level calls,
`NewCommand` and its `copyOptionsFromParent`, `HelpCommand`'s tree walk) or appends one record and then edits
that record only (the twelve option constructors and their modifiers, the help option).  Hence the record an
option constructor produced — default, value read from the environment, `Called`, `CalledAs`, aliases … — is
exactly what the parser starts from, whatever else the program defines before and after
(`defined_record_final`).  The record itself is the fold of the modifiers' effects over the fresh record
(`defineOpt_record`).
-/
namespace GoModel

variable (ext : Ext) (env : Env)

/-- `Q` keeps every option record of `P` -/
def OptsKeep (P Q : Prog) : Prop :=
  P.opts.length ≤ Q.opts.length ∧ ∀ j, j < P.opts.length → Q.opts[j]? = P.opts[j]?

theorem OptsKeep.refl (P : Prog) : OptsKeep P P := ⟨Nat.le_refl _, fun _ _ => rfl⟩
theorem OptsKeep.trans {A B C : Prog} (h1 : OptsKeep A B) (h2 : OptsKeep B C) : OptsKeep A C :=
  ⟨Nat.le_trans h1.1 h2.1, fun j hj => by rw [h2.2 j (Nat.lt_of_lt_of_le hj h1.1), h1.2 j hj]⟩
theorem OptsKeep.of_eq {P Q : Prog} (h : Q.opts = P.opts) : OptsKeep P Q := by
  unfold OptsKeep; rw [h]; exact ⟨Nat.le_refl _, fun _ _ => rfl⟩
theorem OptsKeep.opt {P Q : Prog} (h : OptsKeep P Q) (j : Nat) (hj : j < P.opts.length) : Q.opt j = P.opt j := by
  unfold Prog.opt
  have := h.2 j hj
  simp only [List.getD_eq_getElem?_getD, this]

@[simp] theorem modNode_opts (P : Prog) (n : Nat) (f : Node → Node) : (P.modNode n f).opts = P.opts := rfl
@[simp] theorem setNode_opts (P : Prog) (n : Nat) (x : Node) : (P.setNode n x).opts = P.opts := rfl

theorem addChildOption_opts (P P' : Prog) (n : Nat) (key : Str) (oid : Nat)
    (h : addChildOption P n key oid = .ok P') : P'.opts = P.opts := by
  unfold addChildOption at h
  split at h
  · cases h
  · split at h
    · cases h
    · simp only at h
      split at h
      · cases h
      · cases h; rfl

theorem addAliases_opts (names : List Str) (P P' : Prog) (n oid : Nat)
    (h : addAliases P n oid names = .ok P') : P'.opts = P.opts := by
  induction names generalizing P with
  | nil => simp only [addAliases] at h; cases h; rfl
  | cons a r ih =>
    simp only [addAliases, bind, Except.bind] at h
    split at h
    · cases h
    · rename_i P1 h1
      rw [ih P1 h, addChildOption_opts P P1 n a oid h1]

/-- what one modifier does to the option record it is attached to -/
def modEffect (o : Opt) (m : Mod) : Opt :=
  match m with
  | .alias names => { o with aliases := o.aliases ++ names }
  | .description s => { o with description := s }
  | .setCalled v => { o with called := v }
  | .required msg => { o with required := true, requiredMsg := msg.getD [] }
  | .getEnv name => applyGetEnv ext env o name
  | .argName s => { o with helpArgName := s }
  | .validValues vs => { o with validValues := o.validValues ++ vs, suggested := o.validValues ++ vs }
  | .suggestedValues vs => { o with suggested := o.suggested ++ vs }
  | .suggestedValuesFn f => { o with suggestFn := some f }

theorem setOpt_opts (P : Prog) (o : Nat) (x : Opt) : (P.setOpt o x).opts = P.opts.set o x := rfl

/-- a modifier rewrites the record `oid` by its effect and nothing else in the option list -/
theorem applyMod_opts (P P' : Prog) (n oid : Nat) (m : Mod) (h : applyMod ext env P n oid m = .ok P') :
    P'.opts = P.opts.set oid (modEffect ext env (P.opt oid) m) := by
  cases m with
  | alias names =>
    simp only [applyMod] at h
    rw [addAliases_opts names _ P' n oid h]; rfl
  | description s => simp only [applyMod] at h; cases h; rfl
  | setCalled v => simp only [applyMod] at h; cases h; rfl
  | required msg => simp only [applyMod] at h; cases h; rfl
  | getEnv name => simp only [applyMod] at h; cases h; rfl
  | argName s => simp only [applyMod] at h; cases h; rfl
  | validValues vs => simp only [applyMod] at h; cases h; rfl
  | suggestedValues vs => simp only [applyMod] at h; cases h; rfl
  | suggestedValuesFn f => simp only [applyMod] at h; cases h; rfl

theorem opt_eq_getElem (P : Prog) (oid : Nat) (h : oid < P.opts.length) : P.opt oid = P.opts[oid] := by
  simp [Prog.opt, h]

theorem opt_set_self (P : Prog) (oid : Nat) (x : Opt) (h : oid < P.opts.length) :
    ({ P with opts := P.opts.set oid x } : Prog).opt oid = x := by
  simp [Prog.opt, h]

theorem applyMods_opts (ms : List Mod) (P P' : Prog) (n oid : Nat) (hoid : oid < P.opts.length)
    (h : applyMods ext env P n oid ms = .ok P') :
    P'.opts = P.opts.set oid (ms.foldl (modEffect ext env) (P.opt oid)) := by
  induction ms generalizing P with
  | nil =>
    simp only [applyMods] at h; cases h
    simp only [List.foldl_nil, Prog.opt]
    rw [List.getD_eq_getElem?_getD, List.getElem?_eq_getElem hoid]
    simp
  | cons m r ih =>
    simp only [applyMods, bind, Except.bind] at h
    split at h
    · cases h
    · rename_i P1 h1
      have e1 := applyMod_opts ext env P P1 n oid m h1
      have hl : oid < P1.opts.length := by rw [e1]; simpa using hoid
      rw [ih P1 hl h, e1]
      have : P1.opt oid = modEffect ext env (P.opt oid) m := by
        rw [opt_eq_getElem P1 oid hl]; simp [e1]
      rw [this, List.set_set]
      rfl

/-- the record a fresh option starts from, before its modifiers -/
def freshOpt (kind : Kind) (name : Str) (dflt : Val) (dstr : Str) (min max : Int) : Opt :=
  { name := name, aliases := [name], kind := kind,
    min := if kind.isRepeat then min else kind.table.2.1,
    max := if kind.isRepeat then max else kind.table.2.2,
    helpArgName := kind.table.1,
    defaultStr := defaultStrOf kind dflt dstr,
    boolDefault := (match dflt with | .b v => v | _ => false),
    value := dflt }

/-- **An option constructor** appends exactly one record: the fresh record with the modifiers' effects
applied in call order. -/
theorem defineOpt_record (P P' : Prog) (n : Nat) (kind : Kind) (name : Str) (dflt : Val) (dstr : Str)
    (min max : Int) (mods : List Mod)
    (h : defineOpt ext env P n kind name dflt dstr min max mods = .ok P') :
    P'.opts = P.opts ++ [mods.foldl (modEffect ext env) (freshOpt kind name dflt dstr min max)] := by
  unfold defineOpt at h
  simp only [bind, Except.bind] at h
  split at h
  · cases h
  · rename_i P2 h2
    have e2 := addChildOption_opts _ P2 n name P.opts.length h2
    have hl : P.opts.length < P2.opts.length := by rw [e2]; simp
    rw [applyMods_opts ext env mods P2 P' n P.opts.length hl h, e2]
    have : P2.opt P.opts.length = freshOpt kind name dflt dstr min max := by
      rw [opt_eq_getElem P2 _ hl]; simp [e2, freshOpt]; cases dflt <;> rfl
    rw [this]
    simp

theorem defineOpt_keep (P P' : Prog) (n : Nat) (kind : Kind) (name : Str) (dflt : Val) (dstr : Str)
    (min max : Int) (mods : List Mod)
    (h : defineOpt ext env P n kind name dflt dstr min max mods = .ok P') : OptsKeep P P' := by
  have e := defineOpt_record ext env P P' n kind name dflt dstr min max mods h
  refine ⟨by rw [e]; simp, fun j hj => ?_⟩
  rw [e, List.getElem?_append_left hj]

/-! ## the tree-level calls leave the option list alone -/

theorem copyStep_opts (pn : Node) (ks : List Nat) (Q : Prog) :
    (ks.foldl (fun P c =>
      let cn := P.node c
      if cn.name == pn.helpName || cn.skipCopy then P
      else P.setNode c { cn with opts := pn.opts.foldl (fun acc kv => insertKV kv.1 kv.2 acc) cn.opts }) Q).opts = Q.opts := by
  induction ks generalizing Q with
  | nil => rfl
  | cons c r ih =>
    simp only [List.foldl_cons]
    rw [ih]
    split <;> rfl

theorem copyOpts_opts (fuel : Nat) (P : Prog) (parent : Nat) : (copyOpts fuel P parent).opts = P.opts := by
  induction fuel generalizing P parent with
  | zero => rfl
  | succ k ih =>
    simp only [copyOpts]
    have hfold : ∀ (ks : List Nat) (Q : Prog), (ks.foldl (fun P c => copyOpts k P c) Q).opts = Q.opts := by
      intro ks
      induction ks with
      | nil => intro Q; rfl
      | cons c r ihr => intro Q; simp only [List.foldl_cons]; rw [ihr, ih]
    rw [hfold, copyStep_opts]

theorem addChildCommand_opts (P P1 : Prog) (p id : Nat) (nd : Node)
    (h : addChildCommand P p nd = .ok (P1, id)) : P1.opts = P.opts := by
  unfold addChildCommand at h
  split at h
  · cases h
  · split at h
    · cases h
    · cases h; rfl

theorem addHelpCmds_opts (name : Str) (ns : List Nat) (P P' : Prog)
    (h : addHelpCmds name ns P = .ok P') : P'.opts = P.opts := by
  induction ns generalizing P with
  | nil => simp only [addHelpCmds] at h; cases h; rfl
  | cons n r ih =>
    simp only [addHelpCmds] at h
    split at h
    · exact ih P h
    · simp only [bind, Except.bind] at h
      split at h
      · cases h
      · rename_i x h1
        obtain ⟨P1, id⟩ := x
        rw [ih P1 h, addChildCommand_opts P P1 n id _ h1]

theorem fold_helpName_opts (name : Str) (xs : List Nat) (P : Prog) :
    (xs.foldl (fun P x => P.modNode x fun nd => { nd with helpName := name }) P).opts = P.opts := by
  induction xs generalizing P with
  | nil => rfl
  | cons x r ih => simp only [List.foldl_cons]; rw [ih]; rfl

/-- **One definition call keeps every existing option record.** -/
theorem buildStep_keep (s s' : BState) (op : DefOp) (h : buildStep ext env s op = .ok s') :
    OptsKeep s.P s'.P := by
  cases op with
  | opt hd kind name dflt dstr min max mods =>
    simp only [buildStep, bind, Except.bind] at h
    cases hh : handle s hd with
    | error e => simp [hh] at h
    | ok n =>
      simp only [hh] at h
      split at h
      · cases h
      · cases hP : defineOpt ext env s.P n kind name dflt dstr min max mods with
        | error e => simp [hP] at h
        | ok P =>
          simp only [hP, pure, Except.pure] at h; cases h
          exact defineOpt_keep ext env s.P P n kind name dflt dstr min max mods hP
  | cmd hd name desc =>
    simp only [buildStep, bind, Except.bind] at h
    cases hh : handle s hd with
    | error e => simp [hh] at h
    | ok p =>
      simp only [hh] at h
      split at h
      · cases h
      · rename_i x h1
        obtain ⟨P1, id⟩ := x
        simp only [pure, Except.pure] at h; cases h
        exact .of_eq (by rw [copyOpts_opts]; exact addChildCommand_opts _ P1 p id _ h1)
  | help hd name mods =>
    simp only [buildStep, bind, Except.bind] at h
    cases hh : handle s hd with
    | error e => simp [hh] at h
    | ok n =>
      simp only [hh] at h
      cases hP1 : defineOpt ext env s.P n .bool name (.b false) [] 0 0 mods with
      | error e => simp [hP1] at h
      | ok P1 =>
        simp only [hP1] at h
        split at h
        · cases h
        · rename_i P3 hP3
          simp only [pure, Except.pure] at h; cases h
          have k1 := defineOpt_keep ext env s.P P1 n .bool name (.b false) [] 0 0 mods hP1
          refine k1.trans (.of_eq ?_)
          rw [copyOpts_opts, addHelpCmds_opts name _ _ P3 hP3, fold_helpName_opts]
  | setFn hd f =>
    simp only [buildStep, bind, Except.bind] at h
    split at h
    · cases h
    · simp only [pure, Except.pure] at h; cases h; exact .of_eq rfl
  | setMode hd m =>
    simp only [buildStep, bind, Except.bind] at h
    split at h
    · cases h
    · simp only [pure, Except.pure] at h; cases h; exact .of_eq rfl
  | setUMode hd m =>
    simp only [buildStep, bind, Except.bind] at h
    split at h
    · cases h
    · simp only [pure, Except.pure] at h; cases h; exact .of_eq rfl
  | setRO hd =>
    simp only [buildStep, bind, Except.bind] at h
    split at h
    · cases h
    · simp only [pure, Except.pure] at h; cases h; exact .of_eq rfl
  | unset hd =>
    simp only [buildStep, bind, Except.bind] at h
    split at h
    · cases h
    · simp only [pure, Except.pure] at h; cases h; exact .of_eq rfl
  | mapKeys hd =>
    simp only [buildStep, bind, Except.bind] at h
    split at h
    · cases h
    · simp only [pure, Except.pure] at h; cases h; exact .of_eq rfl
  | argComp hd l =>
    simp only [buildStep, bind, Except.bind] at h
    split at h
    · cases h
    · simp only [pure, Except.pure] at h; cases h; exact .of_eq rfl
  | argCompFn hd f =>
    simp only [buildStep, bind, Except.bind] at h
    split at h
    · cases h
    · simp only [pure, Except.pure] at h; cases h; exact .of_eq rfl
  | synArg hd a d =>
    simp only [buildStep, bind, Except.bind] at h
    split at h
    · cases h
    · simp only [pure, Except.pure] at h; cases h; exact .of_eq rfl
  | self hd name desc =>
    simp only [buildStep, bind, Except.bind] at h
    split at h
    · cases h
    · simp only [pure, Except.pure] at h; cases h; exact .of_eq rfl

theorem buildFrom_keep (ops : List DefOp) (s s' : BState) (h : buildFrom ext env s ops = .ok s') :
    OptsKeep s.P s'.P := by
  induction ops generalizing s with
  | nil => simp only [buildFrom] at h; cases h; exact .refl _
  | cons op r ih =>
    simp only [buildFrom, bind, Except.bind] at h
    split at h
    · cases h
    · rename_i s1 h1
      exact (buildStep_keep ext env s s1 op h1).trans (ih s1 h)

theorem buildFrom_append (a c : List DefOp) (s s' : BState) (h : buildFrom ext env s (a ++ c) = .ok s') :
    ∃ m, buildFrom ext env s a = .ok m ∧ buildFrom ext env m c = .ok s' := by
  induction a generalizing s with
  | nil => exact ⟨s, rfl, h⟩
  | cons op r ih =>
    simp only [List.cons_append, buildFrom, bind, Except.bind] at h ⊢
    split at h
    · cases h
    · rename_i s1 h1
      obtain ⟨m, hm1, hm2⟩ := ih s1 h
      exact ⟨m, hm1, hm2⟩

/-- **The record of a defined option is final.**  In any accepted definition script, the record produced by
an option constructor — the fresh record with its modifiers applied in call order — is, after the *whole*
script, still the record with the id it was given, whatever the script defines before and after. -/
theorem defined_record_final (root : Str) (pre post : List DefOp) (hd : Nat) (kind : Kind) (name : Str)
    (dflt : Val) (dstr : Str) (min max : Int) (mods : List Mod) (st : BState)
    (h : buildB ext env root (pre ++ [.opt hd kind name dflt dstr min max mods] ++ post) = .ok st) :
    ∃ mid, buildB ext env root pre = .ok mid ∧
      st.P.opt mid.P.opts.length = mods.foldl (modEffect ext env) (freshOpt kind name dflt dstr min max) := by
  unfold buildB at h ⊢
  rw [List.append_assoc] at h
  obtain ⟨mid, h1, h2⟩ := buildFrom_append ext env pre _ _ st h
  refine ⟨mid, h1, ?_⟩
  obtain ⟨m2, h3, h4⟩ := buildFrom_append ext env [.opt hd kind name dflt dstr min max mods] post mid st h2
  simp only [buildFrom, bind, Except.bind] at h3
  split at h3
  · cases h3
  · rename_i s1 hs1
    cases h3
    have keep := buildFrom_keep ext env post _ st h4
    simp only [buildStep, bind, Except.bind] at hs1
    cases hh : handle mid hd with
    | error e => simp [hh] at hs1
    | ok n =>
      simp only [hh] at hs1
      split at hs1
      · cases hs1
      · cases hP : defineOpt ext env mid.P n kind name dflt dstr min max mods with
        | error e => simp [hP] at hs1
        | ok P =>
          simp only [hP, pure, Except.pure] at hs1; cases hs1
          have e := defineOpt_record ext env mid.P P n kind name dflt dstr min max mods hP
          have hl : mid.P.opts.length < P.opts.length := by rw [e]; simp
          rw [keep.opt _ hl, opt_eq_getElem P _ hl]
          simp [e]

end GoModel

import Lemmas.SchedStep
import Lemmas.Anc
/-! Reachability, the error log of a trace, the semaphore bound and serial mode. -/
namespace GoModel.Dag

/-- the scheduler states `Run` can be in: reached from the initial state by an accepted trace -/
def Reachable (c : Cfg) (s : Sched) : Prop := ∃ evs i, accept c initSched evs i = .ok s

theorem reachable_sinv (c : Cfg) (hc : AncOK c) (s : Sched) (h : Reachable c s) : SInv c s := by
  obtain ⟨evs, i, ha⟩ := h
  exact sinv_accept c hc evs initSched s i (sinv_init c) ha

/-- the configuration `Run` schedules: a graph built from a call history that passed the pre-checks -/
structure Scheduled (c : Cfg) : Prop where
  built : ∃ ops, c.g = buildGraph ops
  sorted : ∃ l, dfs c.g = .ok l

theorem Scheduled.ancOK {c : Cfg} (h : Scheduled c) : AncOK c := by
  obtain ⟨ops, hops⟩ := h.built
  obtain ⟨l, hl⟩ := h.sorted
  exact ancOK_of_dfs c (by rw [hops]; exact buildGraph_inv ops) l hl

/-- the entry of the returned `*Errors` value an event contributes -/
def entryOf : Event → Option Entry
  | .recv v .err => some (.task v)
  | .recv v .taskSkipped => some (.skipped v)
  | .cancel => some .cancelled
  | _ => none

theorem markAncestors_errs (c : Cfg) (s : Sched) (v : Nat) : (markAncestors c s v).errs = s.errs := by
  unfold markAncestors; exact (markList_rest _ _).1

theorem step_errs (c : Cfg) (s s' : Sched) (ev : Event) (hs : step? c s ev = some s') :
    s'.errs = s.errs ++ (entryOf ev).toList := by
  cases ev with
  | recv v r =>
    simp only [step?] at hs
    split at hs
    · simp at hs
    · split at hs
      · cases r <;> simp only [Option.some.injEq] at hs <;> subst hs <;> simp [entryOf, markAncestors_errs]
      · simp at hs
  | cancel => simp [step?] at hs; obtain ⟨_, _, rfl⟩ := hs; simp [entryOf]
  | idle =>
    simp only [step?] at hs
    split at hs
    · simp at hs
    · split at hs
      · simp at hs
      · split at hs
        · simp at hs
        · simp only [Option.some.injEq] at hs; subst hs; simp [entryOf]
  | leave v k r =>
    simp only [step?] at hs
    split at hs
    · simp at hs
    · split at hs
      · split at hs <;> (simp only [Option.some.injEq] at hs; subst hs; simp [entryOf])
      · simp at hs
  | pickReal v => simp [step?] at hs; obtain ⟨_, _, rfl⟩ := hs; simp [entryOf]
  | pickSkip v => simp [step?] at hs; obtain ⟨_, _, rfl⟩ := hs; simp [entryOf]
  | pickErr v => simp [step?] at hs; obtain ⟨_, _, rfl⟩ := hs; simp [entryOf]
  | exit => simp [step?] at hs; obtain ⟨_, _, rfl⟩ := hs; simp [entryOf]
  | semAcq v => simp [step?] at hs; obtain ⟨_, _, rfl⟩ := hs; simp [entryOf]
  | lockAcq v => simp [step?] at hs; obtain ⟨_, _, rfl⟩ := hs; simp [entryOf]
  | enter v k => simp [step?] at hs; obtain ⟨_, _, rfl⟩ := hs; simp [entryOf]
  | semRel v => simp [step?] at hs; obtain ⟨_, rfl⟩ := hs; simp [entryOf]

/-- **The final report**: the error list after a trace is exactly one entry per failed final attempt,
one `ErrorTaskSkipped` entry per vertex picked in error mode, and the cancellation entry, in order. -/
theorem accept_errs (c : Cfg) (evs : List Event) (s s' : Sched) (i : Nat) (ha : accept c s evs i = .ok s') :
    s'.errs = s.errs ++ evs.filterMap entryOf := by
  induction evs generalizing s i with
  | nil => simp [accept] at ha; subst ha; simp
  | cons ev evs ih =>
    unfold accept at ha
    split at ha
    · rename_i s1 hs1
      rw [ih s1 (i + 1) ha, step_errs c s s1 ev hs1]
      cases h : entryOf ev <;> simp [List.filterMap_cons, h]
    · simp at ha

/-! ## the semaphore bound -/

theorem countP_change (l : List Nat) (v : Nat) (p q : Nat → Bool) (hn : l.Nodup) (h : ∀ y, y ≠ v → p y = q y) :
    l.countP q ≤ l.countP p + 1 ∧ (q v = false → l.countP q ≤ l.countP p) := by
  induction l with
  | nil => simp
  | cons a r ih =>
    simp only [List.nodup_cons] at hn
    by_cases hav : a = v
    · subst hav
      have hr : r.countP q = r.countP p := by
        apply List.countP_congr
        intro y hy
        have : y ≠ a := fun e => hn.1 (e ▸ hy)
        rw [h y this]
      simp only [List.countP_cons, hr]
      constructor
      · split <;> split <;> omega
      · intro hq; simp [hq]
    · have := ih hn.2
      simp only [List.countP_cons, h a hav]
      constructor
      · omega
      · intro hq; have := this.2 hq; omega

theorem holders_eq_countP (c : Cfg) (s : Sched) : holders c s = c.g.ids.countP (fun v => (s.get v).sem) := by
  simp [holders, List.countP_eq_length_filter]

/-- semaphore discipline: at most `maxParallel` slots are held, and a task goroutine that is past the
acquire and has not handed over its result holds one -/
structure HInv (c : Cfg) (s : Sched) : Prop where
  bound : holders c s ≤ c.maxParallel
  held : ∀ v, ((s.get v).fl = .waitLock ∨ (∃ k, (s.get v).fl = .idle k) ∨ (∃ k, (s.get v).fl = .running k)) →
    (s.get v).sem = true

theorem holders_set_same (c : Cfg) (s : Sched) (v : Nat) (x : VState) (h : x.sem = (s.get v).sem) :
    holders c (s.set v x) = holders c s := by
  rw [holders_eq_countP, holders_eq_countP]
  apply List.countP_congr
  intro y _
  rw [get_set]; split
  · rename_i e; subst e; rw [h]
  · rfl

theorem holders_mark (c : Cfg) (s : Sched) (v : Nat) : holders c (markAncestors c s v) = holders c s := by
  rw [holders_eq_countP, holders_eq_countP]
  apply List.countP_congr
  intro y _
  rw [markAncestors_get]; split <;> simp [markOne]

theorem hinv_init (c : Cfg) : HInv c initSched := by
  constructor
  · have : (c.g.ids.filter fun _ => false) = [] := by induction c.g.ids <;> simp_all
    simp [holders, initSched, Sched.get, this]
  · intro v h; simp [initSched, Sched.get] at h

theorem hinv_local (c : Cfg) (s : Sched) (h : HInv c s) (v : Nat) (x : VState) (hs : x.sem = (s.get v).sem)
    (hx : (x.fl = .waitLock ∨ (∃ k, x.fl = .idle k) ∨ (∃ k, x.fl = .running k)) → x.sem = true) :
    HInv c (s.set v x) := by
  constructor
  · rw [holders_set_same c s v x hs]; exact h.bound
  · intro y; rw [get_set]; split
    · exact hx
    · exact h.held y

theorem hinv_step (c : Cfg) (hn : c.g.ids.Nodup) (s s' : Sched) (ev : Event) (h : HInv c s)
    (hs : step? c s ev = some s') : HInv c s' := by
  cases ev with
  | pickReal v =>
    simp [step?] at hs; obtain ⟨_, _, rfl⟩ := hs
    exact hinv_local c s h v _ rfl (by simp)
  | pickSkip v =>
    simp [step?] at hs; obtain ⟨_, _, rfl⟩ := hs
    exact hinv_local c s h v _ rfl (h.held v)
  | pickErr v =>
    simp [step?] at hs; obtain ⟨_, _, rfl⟩ := hs
    exact hinv_local c s h v _ rfl (h.held v)
  | recv v r =>
    simp only [step?] at hs
    split at hs
    · simp at hs
    · split at hs
      · have key : ∀ x1 : VState, x1.sem = (s.get v).sem →
            ((x1.fl = .waitLock ∨ (∃ k, x1.fl = .idle k) ∨ (∃ k, x1.fl = .running k)) → x1.sem = true) →
            HInv c (s.set v x1) := fun x1 h1 h2 => hinv_local c s h v x1 h1 h2
        have hx : HInv c (s.set v (if ((s.get v).fl == Flight.sending r) = true
            then { s.get v with st := .done, fl := .none, out := some r }
            else { s.get v with st := .done, pseudo := (s.get v).pseudo.erase r, out := some r })) := by
          split
          · exact key _ rfl (by simp)
          · exact key _ rfl (h.held v)
        cases r <;> simp only [Option.some.injEq] at hs <;> subst hs
        · exact hx
        · exact ⟨hx.bound, hx.held⟩
        · constructor
          · rw [holders_mark]; exact hx.bound
          · intro y; rw [markAncestors_get]; split
            · simp only [markOne]; exact hx.held y
            · exact hx.held y
        · exact ⟨hx.bound, hx.held⟩
      · simp at hs
  | cancel => simp [step?] at hs; obtain ⟨_, _, rfl⟩ := hs; exact ⟨h.bound, h.held⟩
  | idle =>
    simp only [step?] at hs
    split at hs
    · simp at hs
    · split at hs
      · simp at hs
      · split at hs
        · simp at hs
        · simp only [Option.some.injEq] at hs; subst hs; exact h
  | exit => simp [step?] at hs; obtain ⟨_, _, rfl⟩ := hs; exact ⟨h.bound, h.held⟩
  | semAcq v =>
    simp [step?] at hs; obtain ⟨_, hcond, hs'⟩ := hs
    have hget : ∀ y, y ≠ v → (s'.get y).sem = (s.get y).sem := by
      intro y hy; rw [← hs', get_set_ne _ _ _ _ hy]
    have key := (countP_change c.g.ids v (fun y => (s.get y).sem) (fun y => (s'.get y).sem) hn
      (fun y hy => (hget y hy).symm)).1
    constructor
    · rw [holders_eq_countP]
      have := hcond.2
      rw [holders_eq_countP] at this
      omega
    · intro y
      by_cases hy : y = v
      · subst hy; rw [← hs']; simp
      · rw [← hs', get_set_ne _ _ _ _ hy]; exact h.held y
  | lockAcq v =>
    simp [step?] at hs; obtain ⟨_, hcond, rfl⟩ := hs
    exact hinv_local c s h v _ rfl (fun _ => h.held v (Or.inl hcond))
  | enter v k =>
    simp [step?] at hs; obtain ⟨_, hcond, rfl⟩ := hs
    exact hinv_local c s h v _ rfl (fun _ => h.held v (Or.inr (Or.inl ⟨k, hcond.1⟩)))
  | leave v k r =>
    simp only [step?] at hs
    split at hs
    · simp at hs
    · split at hs
      · rename_i hcond
        simp only [Bool.and_eq_true, beq_iff_eq] at hcond
        split at hs <;> (simp only [Option.some.injEq] at hs; subst hs)
        · exact hinv_local c s h v _ rfl (by simp)
        · exact hinv_local c s h v _ rfl (fun _ => h.held v (Or.inr (Or.inr ⟨k, hcond.1⟩)))
      · simp at hs
  | semRel v =>
    simp [step?] at hs; obtain ⟨hcond, hs'⟩ := hs
    have hget : ∀ y, y ≠ v → (s'.get y).sem = (s.get y).sem := by
      intro y hy; rw [← hs', get_set_ne _ _ _ _ hy]
    have hv : (s'.get v).sem = false := by rw [← hs']; simp
    have key := (countP_change c.g.ids v (fun y => (s.get y).sem) (fun y => (s'.get y).sem) hn
      (fun y hy => (hget y hy).symm)).2 hv
    constructor
    · rw [holders_eq_countP]
      have hb := h.bound
      rw [holders_eq_countP] at hb
      omega
    · intro y
      by_cases hy : y = v
      · subst hy
        have hfl : (s'.get y).fl = (s.get y).fl := by rw [← hs']; simp
        rw [hfl]
        intro h3
        rcases hcond.2 with h1 | h1
        · rw [h1] at h3; simp at h3
        · rcases h3 with h2 | ⟨k, h2⟩ | ⟨k, h2⟩ <;> rw [h2] at h1 <;> simp at h1
      · rw [← hs', get_set_ne _ _ _ _ hy]; exact h.held y

theorem hinv_accept (c : Cfg) (hn : c.g.ids.Nodup) (evs : List Event) (s s' : Sched) (i : Nat) (h : HInv c s)
    (ha : accept c s evs i = .ok s') : HInv c s' := by
  induction evs generalizing s i with
  | nil => simp [accept] at ha; subst ha; exact h
  | cons ev evs ih =>
    unfold accept at ha
    split at ha
    · rename_i s1 hs1; exact ih s1 (i + 1) (hinv_step c hn s s1 ev h hs1) ha
    · simp at ha

end GoModel.Dag

import Lemmas.Sched
/-! Preservation of the scheduler invariant by every event. -/
namespace GoModel.Dag

/-- **The C13 core**: when a real launch of `v` is possible, every dependency of `v` has really run
and returned nil. -/
theorem real_launch_deps_ok (c : Cfg) (hc : AncOK c) (s : Sched) (h : SInv c s) (v : Nat)
    (hr : ready c s v = true) (hp : (s.get v).st = .pending) (he : s.errs = []) :
    ∀ ch ∈ c.g.children v, (s.get ch).st = .done ∧ (s.get ch).out = some .ok ∧ (s.get ch).real = true := by
  intro ch hch
  have hpar : v ∈ c.g.parents ch := (hc.sym v ch).mp hch
  have hnm : (s.get v).marked = false := by
    cases hm : (s.get v).marked with
    | false => rfl
    | true => exact absurd hp (h.a4 v hm).1
  simp only [ready, Bool.and_eq_true, List.all_eq_true] at hr
  have hch2 := hr.2 ch hch
  simp only [Bool.and_eq_true, bne_iff_ne, ne_eq] at hch2
  have hdone : (s.get ch).st = .done := by
    cases hst : (s.get ch).st with
    | pending => exact absurd hst hch2.1
    | inProgress => exact absurd hst hch2.2
    | skip => have := h.a2 ch v hpar (h.a1 ch hst); simp [hnm] at this
    | done => rfl
  refine ⟨hdone, ?_⟩
  have hce := h.ce he ch
  have hnn := h.d ch hdone
  cases ho : (s.get ch).out with
  | none => exact absurd ho hnn
  | some r =>
    cases r with
    | ok =>
      refine ⟨rfl, ?_⟩
      rcases h.e ch ho with hre | hm
      · exact hre
      · have := h.a2 ch v hpar hm; simp [hnm] at this
    | err => exact absurd ho hce.1
    | skipParents => have := h.a3 ch v hpar ho; simp [hnm] at this
    | taskSkipped => exact absurd ho hce.2.1

theorem sinv_pickReal (c : Cfg) (hc : AncOK c) (s : Sched) (h : SInv c s) (v : Nat)
    (hr : ready c s v = true) (hp : (s.get v).st = .pending) (he : s.errs = []) :
    SInv c (s.set v { s.get v with st := .inProgress, fl := .waitSem, real := true }) := by
  have hdeps := real_launch_deps_ok c hc s h v hr hp he
  have hn := h.n v hp
  have hnm : (s.get v).marked = false := by
    cases hm : (s.get v).marked with
    | false => rfl
    | true => exact absurd hp (h.a4 v hm).1
  have hself : v ∉ c.g.children v := by
    intro hm; have := (hdeps v hm).1; rw [hp] at this; cases this
  constructor
  · intro y; rw [get_set]; split
    · intro hh; cases hh
    · exact h.a1 y
  · intro ch p hpar; rw [get_set, get_set]
    by_cases h1 : ch = v <;> by_cases h2 : p = v <;> simp only [h1, h2, ↓reduceIte] <;> intro hm
    · exact hm
    · subst h1; simp [hnm] at hm
    · subst h2; have := h.a2 ch p hpar hm; simp [hnm] at this
    · exact h.a2 ch p hpar hm
  · intro ch p hpar; rw [get_set, get_set]
    by_cases h1 : ch = v <;> by_cases h2 : p = v <;> simp only [h1, h2, ↓reduceIte] <;> intro ho
    · subst h1; simp [hn.2.1] at ho
    · subst h1; simp [hn.2.1] at ho
    · subst h2; have := h.a3 ch p hpar ho; simp [hnm] at this
    · exact h.a3 ch p hpar ho
  · intro y; rw [get_set]; split
    · intro hm; simp [hnm] at hm
    · exact h.a4 y
  · intro y; rw [get_set]
    by_cases hy : y = v
    · subst hy
      simp only [↓reduceIte]
      intro _ ch hch
      have hne : ch ≠ y := fun e => hself (e ▸ hch)
      rw [get_set_ne _ _ _ _ hne]
      exact hdeps ch hch
    · simp only [hy, ↓reduceIte]
      intro hry ch hch
      have old := h.b y hry ch hch
      have hne : ch ≠ v := by
        intro e; subst e; rw [hp] at old; cases old.1
      rw [get_set_ne _ _ _ _ hne]
      exact old
  · intro he' y; rw [get_set]; split
    · have := h.ce he v; simpa using this
    · exact h.ce he y
  · intro y; rw [get_set]; split
    · intro hh; cases hh
    · exact h.d y
  · intro y; rw [get_set]; split
    · intro ho; simp [hn.2.1] at ho
    · exact h.e y
  · intro y; rw [get_set]; split
    · intro hh; cases hh
    · exact h.n y
  · intro y; rw [get_set]; split
    · intro _; exact ⟨rfl, rfl⟩
    · exact h.f y
  · intro y; rw [get_set]; split
    · intro hh; simp [hn.2.2.2] at hh
    · exact h.ps y
  · intro y; rw [get_set]; split
    · intro hh; simp [hn.2.2.2] at hh
    · exact h.po y
  · intro y r; rw [get_set]; split
    · intro hh; simp [hn.2.2.2] at hh
    · exact h.pk y r
  · intro y; rw [get_set]; split
    · intro _; exact Or.inl rfl
    · exact h.rs y
  · intro y; rw [get_set]; split
    · intro ho; simp [hn.2.1] at ho
    · exact h.sk y
  · intro y; rw [get_set]; split
    · intro _; exact Or.inl (by simp)
    · exact h.ip y

/-- an update of one vertex that leaves its ghost fields (`marked`, `real`, `out`) alone -/
theorem sinv_local (c : Cfg) (s : Sched) (h : SInv c s) (v : Nat) (x : VState)
    (hm : x.marked = (s.get v).marked) (hr : x.real = (s.get v).real) (ho : x.out = (s.get v).out)
    (l_a1 : x.st = .skip → x.marked = true)
    (l_a4 : x.marked = true → x.st ≠ .pending)
    (l_b : (s.get v).st = .done → (s.get v).real = true → x.st = .done)
    (l_ce : s.errs = [] → Res.taskSkipped ∉ x.pseudo)
    (l_d : x.st = .done → x.out ≠ none)
    (l_n : x.st = .pending → x.real = false ∧ x.out = none ∧ x.fl = .none ∧ x.pseudo = [])
    (l_f : x.fl ≠ .none → x.real = true ∧ x.st = .inProgress)
    (l_ps : x.pseudo ≠ [] → x.real = false)
    (l_po : Res.ok ∈ x.pseudo → x.marked = true)
    (l_pk : ∀ r, r ∈ x.pseudo → r = .ok ∨ r = .taskSkipped)
    (l_rs : x.real = true → x.st = .inProgress ∨ x.st = .done)
    (l_ip : x.st = .inProgress → x.fl ≠ .none ∨ x.pseudo ≠ []) :
    SInv c (s.set v x) := by
  constructor
  · intro y; rw [get_set]; split
    · exact l_a1
    · exact h.a1 y
  · intro ch p hpar; rw [get_set, get_set]
    by_cases h1 : ch = v <;> by_cases h2 : p = v <;> simp only [h1, h2, ↓reduceIte] <;> intro hmk
    · exact hmk
    · subst h1; rw [hm] at hmk; exact h.a2 ch p hpar hmk
    · subst h2; rw [hm]; exact h.a2 ch p hpar hmk
    · exact h.a2 ch p hpar hmk
  · intro ch p hpar; rw [get_set, get_set]
    by_cases h1 : ch = v <;> by_cases h2 : p = v <;> simp only [h1, h2, ↓reduceIte] <;> intro hout
    · subst h1; subst h2; rw [ho] at hout; rw [hm]; exact h.a3 _ _ hpar hout
    · subst h1; rw [ho] at hout; exact h.a3 ch p hpar hout
    · subst h2; rw [hm]; exact h.a3 ch p hpar hout
    · exact h.a3 ch p hpar hout
  · intro y; rw [get_set]; split
    · intro hmk; exact ⟨l_a4 hmk, by rw [hr]; rw [hm] at hmk; exact (h.a4 v hmk).2⟩
    · exact h.a4 y
  · intro y; rw [get_set]
    have hchild : ∀ ch, ((s.get ch).st = .done ∧ (s.get ch).out = some .ok ∧ (s.get ch).real = true) →
        (((s.set v x).get ch).st = .done ∧ ((s.set v x).get ch).out = some .ok ∧ ((s.set v x).get ch).real = true) := by
      intro ch old
      rw [get_set]; split
      · rename_i e; subst e; exact ⟨l_b old.1 old.2.2, by rw [ho]; exact old.2.1, by rw [hr]; exact old.2.2⟩
      · exact old
    split
    · rename_i e; subst e; intro hry ch hch; rw [hr] at hry; exact hchild ch (h.b y hry ch hch)
    · intro hry ch hch; exact hchild ch (h.b y hry ch hch)
  · intro he y; rw [get_set]; split
    · have := h.ce he v; exact ⟨by rw [ho]; exact this.1, by rw [ho]; exact this.2.1, l_ce he⟩
    · exact h.ce he y
  · intro y; rw [get_set]; split
    · exact l_d
    · exact h.d y
  · intro y; rw [get_set]; split
    · intro hout; rw [ho] at hout; rw [hr, hm]; exact h.e v hout
    · exact h.e y
  · intro y; rw [get_set]; split
    · exact l_n
    · exact h.n y
  · intro y; rw [get_set]; split
    · exact l_f
    · exact h.f y
  · intro y; rw [get_set]; split
    · exact l_ps
    · exact h.ps y
  · intro y; rw [get_set]; split
    · exact l_po
    · exact h.po y
  · intro y r; rw [get_set]; split
    · exact l_pk r
    · exact h.pk y r
  · intro y; rw [get_set]; split
    · exact l_rs
    · exact h.rs y
  · intro y; rw [get_set]; split
    · intro hout; rw [ho] at hout; rw [hr]; exact h.sk v hout
    · exact h.sk y
  · intro y; rw [get_set]; split
    · exact l_ip
    · exact h.ip y

/-- a completion that does not mark ancestors: the vertex becomes `done` with result `r` -/
theorem sinv_recv_nomark (c : Cfg) (s : Sched) (h : SInv c s) (v : Nat) (x1 : VState) (r : Res) (errs' : List Entry)
    (hst : x1.st = .done) (hout : x1.out = some r) (hm : x1.marked = (s.get v).marked) (hr : x1.real = (s.get v).real)
    (hfl : x1.fl = .none) (hps : ∀ q, q ∈ x1.pseudo → q ∈ (s.get v).pseudo)
    (hnb : (s.get v).real = false ∨ (s.get v).st = .inProgress)
    (hrs : r ≠ .skipParents)
    (hok : r = .ok → (s.get v).real = true ∨ (s.get v).marked = true)
    (hpr : x1.pseudo ≠ [] → (s.get v).real = false)
    (herrs : (r = .ok ∧ errs' = s.errs) ∨ errs' ≠ []) :
    SInv c { s.set v x1 with errs := errs' } := by
  have hget : ∀ y, ({ s.set v x1 with errs := errs' } : Sched).get y = if y = v then x1 else s.get y := by
    intro y; exact get_set s v y x1
  have hnoparent : ∀ y, (s.get y).real = true → v ∉ c.g.children y := by
    intro y hry hmem
    have old := h.b y hry v hmem
    rcases hnb with h1 | h1
    · rw [h1] at old; cases old.2.2
    · rw [h1] at old; cases old.1
  constructor
  · intro y; rw [hget]; split
    · intro hh; rw [hst] at hh; cases hh
    · exact h.a1 y
  · intro ch p hpar; rw [hget, hget]
    by_cases h1 : ch = v <;> by_cases h2 : p = v <;> simp only [h1, h2, ↓reduceIte] <;> intro hmk
    · exact hmk
    · subst h1; rw [hm] at hmk; exact h.a2 ch p hpar hmk
    · subst h2; rw [hm]; exact h.a2 ch p hpar hmk
    · exact h.a2 ch p hpar hmk
  · intro ch p hpar; rw [hget, hget]
    by_cases h1 : ch = v <;> by_cases h2 : p = v <;> simp only [h1, h2, ↓reduceIte] <;> intro ho
    · rw [hout] at ho; simp only [Option.some.injEq] at ho; exact absurd ho hrs
    · rw [hout] at ho; simp only [Option.some.injEq] at ho; exact absurd ho hrs
    · subst h2; rw [hm]; exact h.a3 ch p hpar ho
    · exact h.a3 ch p hpar ho
  · intro y; rw [hget]; split
    · intro hmk; refine ⟨by rw [hst]; simp, ?_⟩
      rw [hr]; rw [hm] at hmk; exact (h.a4 v hmk).2
    · exact h.a4 y
  · intro y; rw [hget]
    have hchild : ∀ y, (s.get y).real = true → ∀ ch ∈ c.g.children y,
        (({ s.set v x1 with errs := errs' } : Sched).get ch).st = .done ∧
        (({ s.set v x1 with errs := errs' } : Sched).get ch).out = some .ok ∧
        (({ s.set v x1 with errs := errs' } : Sched).get ch).real = true := by
      intro y hry ch hch
      have hne : ch ≠ v := fun e => hnoparent y hry (e ▸ hch)
      rw [hget]; simp only [hne, ↓reduceIte]
      exact h.b y hry ch hch
    split
    · rename_i e; subst e; intro hry; rw [hr] at hry; exact hchild y hry
    · intro hry; exact hchild y hry
  · intro he y
    rcases herrs with ⟨hrok, herr⟩ | herr
    · have he0 : s.errs = [] := by rw [← herr]; exact he
      rw [hget]; split
      · rw [hout, hrok]
        refine ⟨by simp, by simp, ?_⟩
        intro hmem; exact (h.ce he0 v).2.2 (hps _ hmem)
      · exact h.ce he0 y
    · exact absurd he herr
  · intro y; rw [hget]; split
    · intro _; rw [hout]; simp
    · exact h.d y
  · intro y; rw [hget]; split
    · intro ho; rw [hout] at ho; simp only [Option.some.injEq] at ho
      rw [hr, hm]; exact hok ho
    · exact h.e y
  · intro y; rw [hget]; split
    · intro hh; rw [hst] at hh; cases hh
    · exact h.n y
  · intro y; rw [hget]; split
    · intro hh; exact absurd hfl hh
    · exact h.f y
  · intro y; rw [hget]; split
    · intro hh; rw [hr]; exact hpr hh
    · exact h.ps y
  · intro y; rw [hget]; split
    · intro hh; rw [hm]; exact h.po v (hps _ hh)
    · exact h.po y
  · intro y q; rw [hget]; split
    · intro hh; exact h.pk v q (hps _ hh)
    · exact h.pk y q
  · intro y; rw [hget]; split
    · intro _; exact Or.inr hst
    · exact h.rs y
  · intro y; rw [hget]; split
    · intro ho; rw [hout] at ho; simp only [Option.some.injEq] at ho; exact absurd ho hrs
    · exact h.sk y
  · intro y; rw [hget]; split
    · intro hh; rw [hst] at hh; cases hh
    · exact h.ip y

/-- appending to the error list only weakens the invariant's obligations -/
theorem sinv_errs (c : Cfg) (s : Sched) (h : SInv c s) (e : Entry) (cn : Bool) :
    SInv c { s with errs := s.errs ++ [e], cancelled := cn } := by
  refine ⟨h.a1, h.a2, h.a3, h.a4, h.b, ?_, h.d, h.e, h.n, h.f, h.ps, h.po, h.pk, h.rs, h.sk, h.ip⟩
  intro he; simp at he

/-- a real task returned `ErrorSkipParents`: it is done, all its ancestors are marked and set to `skip` -/
theorem sinv_recv_skip (c : Cfg) (hc : AncOK c) (s : Sched) (h : SInv c s) (v : Nat)
    (hfl : (s.get v).fl = .sending .skipParents) :
    SInv c (markAncestors c (s.set v { s.get v with st := .done, fl := .none, out := some .skipParents }) v) := by
  have hf := h.f v (by rw [hfl]; simp)
  have hreal : (s.get v).real = true := hf.1
  have hinp : (s.get v).st = .inProgress := hf.2
  have hnm : (s.get v).marked = false := by
    cases hm : (s.get v).marked with
    | false => rfl
    | true => have := (h.a4 v hm).2; rw [hreal] at this; cases this
  have hps0 : (s.get v).pseudo = [] := by
    cases hp : (s.get v).pseudo with
    | nil => rfl
    | cons a r => have := h.ps v (by rw [hp]; simp); rw [hreal] at this; cases this
  have noReal : ∀ y, y ∈ anc c v → (s.get y).real = false := by
    intro y hy
    cases hry : (s.get y).real with
    | false => rfl
    | true =>
      have := real_anc_done c hc s h v y hy hry
      rw [hinp] at this; cases this.1
  have hvna : v ∉ anc c v := fun hm => by have := noReal v hm; rw [hreal] at this; cases this
  have hget : ∀ y, (markAncestors c (s.set v { s.get v with st := .done, fl := .none, out := some .skipParents }) v).get y =
      if y ∈ anc c v then markOne (s.get y)
      else if y = v then { s.get v with st := .done, fl := .none, out := some .skipParents } else s.get y := by
    intro y
    rw [markAncestors_get]
    by_cases hy : y ∈ anc c v
    · have : y ≠ v := fun e => hvna (e ▸ hy)
      simp [hy, get_set_ne _ _ _ _ this]
    · simp only [hy, ↓reduceIte]; exact get_set _ _ _ _
  have herrs : (markAncestors c (s.set v { s.get v with st := .done, fl := .none, out := some .skipParents }) v).errs = s.errs := by
    unfold markAncestors; exact (markList_rest _ _).1
  have noParentReal : ∀ y, (s.get y).real = true → v ∉ c.g.children y := by
    intro y hry hmem
    have := h.b y hry v hmem; rw [hinp] at this; cases this.1
  generalize markAncestors c (s.set v { s.get v with st := .done, fl := .none, out := some .skipParents }) v = s2
    at hget herrs ⊢
  constructor
  · -- a1
    intro y; rw [hget]; split
    · intro _; rfl
    · split
      · intro hh; cases hh
      · exact h.a1 y
  · -- a2
    intro ch p hpar; rw [hget ch, hget p]
    by_cases hca : ch ∈ anc c v
    · have hpa : p ∈ anc c v := hc.closed v ch p hca hpar
      simp [hca, hpa, markOne]
    · simp only [hca, ↓reduceIte]
      intro hmk
      have hmold : (s.get ch).marked = true := by
        by_cases hcv : ch = v
        · subst hcv; simp only [↓reduceIte] at hmk; rw [hnm] at hmk; cases hmk
        · simpa [hcv] using hmk
      have := h.a2 ch p hpar hmold
      by_cases hpa : p ∈ anc c v
      · simp [hpa, markOne]
      · simp only [hpa, ↓reduceIte]
        by_cases hpv : p = v
        · subst hpv; rw [hnm] at this; cases this
        · simpa [hpv] using this
  · -- a3
    intro ch p hpar; rw [hget ch, hget p]
    by_cases hcv : ch = v
    · subst hcv
      have hpa : p ∈ anc c ch := hc.direct ch p hpar
      simp [hvna, hpa, markOne]
    · intro ho
      have hoold : (s.get ch).out = some .skipParents := by
        by_cases hca : ch ∈ anc c v
        · simpa [hca, markOne] using ho
        · simpa [hca, hcv] using ho
      have := h.a3 ch p hpar hoold
      by_cases hpa : p ∈ anc c v
      · simp [hpa, markOne]
      · simp only [hpa, ↓reduceIte]
        by_cases hpv : p = v
        · subst hpv; rw [hnm] at this; cases this
        · simpa [hpv] using this
  · -- a4
    intro y; rw [hget]
    by_cases hya : y ∈ anc c v
    · simp only [hya, ↓reduceIte, markOne]
      intro _; exact ⟨by simp, noReal y hya⟩
    · simp only [hya, ↓reduceIte]
      by_cases hyv : y = v
      · subst hyv; simp only [↓reduceIte]; intro hmk; rw [hnm] at hmk; cases hmk
      · simp only [hyv, ↓reduceIte]; exact h.a4 y
  · -- b
    intro y
    have hreal' : (s2.get y).real = (s.get y).real := by
      rw [hget]
      by_cases hya : y ∈ anc c v
      · simp [hya, markOne]
      · by_cases hyv : y = v
        · subst hyv; simp [hya]
        · simp [hya, hyv]
    rw [hreal']
    intro hry ch hch
    have old := h.b y hry ch hch
    have hcna : ch ∉ anc c v := fun hm => by have := noReal ch hm; rw [old.2.2] at this; cases this
    have hcv : ch ≠ v := fun e => noParentReal y hry (e ▸ hch)
    rw [hget]; simp only [hcna, hcv, ↓reduceIte]; exact old
  · -- ce
    intro he y
    rw [herrs] at he
    rw [hget]
    by_cases hya : y ∈ anc c v
    · simp only [hya, ↓reduceIte, markOne]; exact h.ce he y
    · simp only [hya, ↓reduceIte]
      by_cases hyv : y = v
      · subst hyv; simp only [↓reduceIte]
        exact ⟨by simp, by simp, (h.ce he y).2.2⟩
      · simp only [hyv, ↓reduceIte]; exact h.ce he y
  · -- d
    intro y; rw [hget]
    by_cases hya : y ∈ anc c v
    · simp only [hya, ↓reduceIte, markOne]; intro hh; cases hh
    · simp only [hya, ↓reduceIte]
      by_cases hyv : y = v
      · subst hyv; simp
      · simp only [hyv, ↓reduceIte]; exact h.d y
  · -- e
    intro y; rw [hget]
    by_cases hya : y ∈ anc c v
    · simp only [hya, ↓reduceIte, markOne]; intro _; exact Or.inr (by trivial)
    · simp only [hya, ↓reduceIte]
      by_cases hyv : y = v
      · subst hyv; simp
      · simp only [hyv, ↓reduceIte]; exact h.e y
  · -- n
    intro y; rw [hget]
    by_cases hya : y ∈ anc c v
    · simp only [hya, ↓reduceIte, markOne]; intro hh; cases hh
    · simp only [hya, ↓reduceIte]
      by_cases hyv : y = v
      · subst hyv; simp
      · simp only [hyv, ↓reduceIte]; exact h.n y
  · -- f
    intro y; rw [hget]
    by_cases hya : y ∈ anc c v
    · simp only [hya, ↓reduceIte, markOne]
      intro hfy
      have := (h.f y hfy).1; rw [noReal y hya] at this; cases this
    · simp only [hya, ↓reduceIte]
      by_cases hyv : y = v
      · subst hyv; simp
      · simp only [hyv, ↓reduceIte]; exact h.f y
  · -- ps
    intro y; rw [hget]
    by_cases hya : y ∈ anc c v
    · simp only [hya, ↓reduceIte, markOne]; exact h.ps y
    · simp only [hya, ↓reduceIte]
      by_cases hyv : y = v
      · subst hyv; simp [hps0]
      · simp only [hyv, ↓reduceIte]; exact h.ps y
  · -- po
    intro y; rw [hget]
    by_cases hya : y ∈ anc c v
    · simp only [hya, ↓reduceIte, markOne]; intro _; trivial
    · simp only [hya, ↓reduceIte]
      by_cases hyv : y = v
      · subst hyv; simp [hps0]
      · simp only [hyv, ↓reduceIte]; exact h.po y
  · -- pk
    intro y q; rw [hget]
    by_cases hya : y ∈ anc c v
    · simp only [hya, ↓reduceIte, markOne]; exact h.pk y q
    · simp only [hya, ↓reduceIte]
      by_cases hyv : y = v
      · subst hyv; simp [hps0]
      · simp only [hyv, ↓reduceIte]; exact h.pk y q
  · -- rs
    intro y; rw [hget]
    by_cases hya : y ∈ anc c v
    · simp only [hya, ↓reduceIte, markOne]; intro hry; rw [noReal y hya] at hry; cases hry
    · simp only [hya, ↓reduceIte]
      by_cases hyv : y = v
      · subst hyv; simp
      · simp only [hyv, ↓reduceIte]; exact h.rs y
  · -- sk
    intro y; rw [hget]
    by_cases hya : y ∈ anc c v
    · simp only [hya, ↓reduceIte, markOne]
      intro ho; have := h.sk y ho; rw [noReal y hya] at this; cases this
    · simp only [hya, ↓reduceIte]
      by_cases hyv : y = v
      · subst hyv; simp [hreal]
      · simp only [hyv, ↓reduceIte]; exact h.sk y
  · -- ip
    intro y; rw [hget]
    by_cases hya : y ∈ anc c v
    · simp only [hya, ↓reduceIte, markOne]; intro hh; cases hh
    · simp only [hya, ↓reduceIte]
      by_cases hyv : y = v
      · subst hyv; simp
      · simp only [hyv, ↓reduceIte]; exact h.ip y

/-- **Every event of `Run` preserves the invariant.** -/
theorem sinv_step (c : Cfg) (hc : AncOK c) (s s' : Sched) (ev : Event) (h : SInv c s)
    (hs : step? c s ev = some s') : SInv c s' := by
  cases ev with
  | pickReal v =>
    simp [step?] at hs
    obtain ⟨_, hcond, rfl⟩ := hs
    exact sinv_pickReal c hc s h v hcond.1.1.2 hcond.1.2 hcond.2
  | pickSkip v =>
    simp [step?] at hs
    obtain ⟨_, hcond, rfl⟩ := hs
    have hst := hcond.2
    have hmk := h.a1 v hst
    have hnr := (h.a4 v hmk).2
    have hfl : (s.get v).fl = .none := by
      cases hf : (s.get v).fl with
      | none => rfl
      | _ => have := (h.f v (by rw [hf]; simp)).1; rw [hnr] at this; cases this
    apply sinv_local c s h v
    · rfl
    · rfl
    · rfl
    · intro hh; cases hh
    · intro _; simp
    · intro hd; rw [hst] at hd; cases hd
    · intro he q; simp only [List.mem_cons] at q; rcases q with q | q
      · cases q
      · exact (h.ce he v).2.2 q
    · intro hh; cases hh
    · intro hh; cases hh
    · intro hh; exact absurd hfl hh
    · intro _; exact hnr
    · intro _; exact hmk
    · intro r hr; simp only [List.mem_cons] at hr; rcases hr with rfl | hr
      · exact Or.inl rfl
      · exact h.pk v r hr
    · intro hr; rw [hnr] at hr; cases hr
    · intro _; exact Or.inr (by simp)
  | pickErr v =>
    simp [step?] at hs
    obtain ⟨_, hcond, rfl⟩ := hs
    have hst := hcond.1.2
    have hn := h.n v hst
    apply sinv_local c s h v
    · rfl
    · rfl
    · rfl
    · intro hh; cases hh
    · intro _; simp
    · intro hd; rw [hst] at hd; cases hd
    · intro he; exact absurd he hcond.2
    · intro hh; cases hh
    · intro hh; cases hh
    · intro hh; exact absurd hn.2.2.1 hh
    · intro _; exact hn.1
    · intro hh; simp only [hn.2.2.2, List.mem_cons, List.not_mem_nil, or_false] at hh; cases hh
    · intro r hr; simp only [hn.2.2.2, List.mem_cons, List.not_mem_nil, or_false] at hr; exact Or.inr hr
    · intro hr; rw [hn.1] at hr; cases hr
    · intro _; exact Or.inr (by simp)
  | recv v r =>
    simp only [step?] at hs
    split at hs
    · simp at hs
    · split at hs
      · rename_i hcond
        simp only [Bool.and_eq_true, Bool.or_eq_true, List.contains_eq_mem, decide_eq_true_eq, beq_iff_eq] at hcond
        by_cases hsend : (s.get v).fl = .sending r
        · -- completion of the real task
          have hf := h.f v (by rw [hsend]; simp)
          have hps0 : (s.get v).pseudo = [] := by
            cases hp : (s.get v).pseudo with
            | nil => rfl
            | cons a q => have := h.ps v (by rw [hp]; simp); rw [hf.1] at this; cases this
          have hsend' : ((s.get v).fl == Flight.sending r) = true := by rw [hsend]; simp
          simp only [hsend', ↓reduceIte] at hs
          cases r with
          | ok =>
            simp only [Option.some.injEq] at hs; subst hs
            exact sinv_recv_nomark c s h v { s.get v with st := .done, fl := .none, out := some .ok } .ok s.errs
              rfl rfl rfl rfl rfl (fun q hq => hq) (Or.inr hf.2) (by simp) (fun _ => Or.inl hf.1)
              (fun hh => absurd hps0 hh) (Or.inl ⟨rfl, rfl⟩)
          | err =>
            simp only [Option.some.injEq] at hs; subst hs
            exact sinv_recv_nomark c s h v { s.get v with st := .done, fl := .none, out := some .err } .err _
              rfl rfl rfl rfl rfl (fun q hq => hq) (Or.inr hf.2) (by simp) (fun hh => by cases hh)
              (fun hh => absurd hps0 hh) (Or.inr (by simp))
          | taskSkipped =>
            simp only [Option.some.injEq] at hs; subst hs
            exact sinv_recv_nomark c s h v { s.get v with st := .done, fl := .none, out := some .taskSkipped } .taskSkipped _
              rfl rfl rfl rfl rfl (fun q hq => hq) (Or.inr hf.2) (by simp) (fun hh => by cases hh)
              (fun hh => absurd hps0 hh) (Or.inr (by simp))
          | skipParents =>
            simp only [Option.some.injEq] at hs; subst hs
            exact sinv_recv_skip c hc s h v hsend
        · -- completion of a pseudo goroutine
          have hmem : r ∈ (s.get v).pseudo := by
            rcases hcond.2 with hm | hm
            · exact hm
            · exact absurd hm hsend
          have hnr : (s.get v).real = false := h.ps v (by intro e; rw [e] at hmem; cases hmem)
          have hfl : (s.get v).fl = .none := by
            cases hf : (s.get v).fl with
            | none => rfl
            | _ => have := (h.f v (by rw [hf]; simp)).1; rw [hnr] at this; cases this
          have hsend' : ((s.get v).fl == Flight.sending r) = false := by rw [hfl]; simp
          simp only [hsend', Bool.false_eq_true, ↓reduceIte] at hs
          have hsub : ∀ q, q ∈ ((s.get v).pseudo.erase r) → q ∈ (s.get v).pseudo := fun q hq => List.mem_of_mem_erase hq
          rcases h.pk v r hmem with rfl | rfl
          · simp only [Option.some.injEq] at hs; subst hs
            exact sinv_recv_nomark c s h v { s.get v with st := .done, pseudo := (s.get v).pseudo.erase .ok, out := some .ok }
              .ok s.errs rfl rfl rfl rfl hfl hsub (Or.inl hnr) (by simp) (fun _ => Or.inr (h.po v hmem))
              (fun _ => hnr) (Or.inl ⟨rfl, rfl⟩)
          · simp only [Option.some.injEq] at hs; subst hs
            exact sinv_recv_nomark c s h v
              { s.get v with st := .done, pseudo := (s.get v).pseudo.erase .taskSkipped, out := some .taskSkipped }
              .taskSkipped _ rfl rfl rfl rfl hfl hsub (Or.inl hnr) (by simp) (fun hh => by cases hh)
              (fun _ => hnr) (Or.inr (by simp))
      · simp at hs
  | cancel =>
    simp [step?] at hs
    obtain ⟨_, _, rfl⟩ := hs
    exact sinv_errs c s h .cancelled true
  | idle =>
    simp only [step?] at hs
    split at hs
    · simp at hs
    · split at hs
      · simp at hs
      · split at hs
        · simp at hs
        · simp only [Option.some.injEq] at hs; subst hs; exact h
  | exit =>
    simp [step?] at hs
    obtain ⟨_, _, rfl⟩ := hs
    exact ⟨h.a1, h.a2, h.a3, h.a4, h.b, h.ce, h.d, h.e, h.n, h.f, h.ps, h.po, h.pk, h.rs, h.sk, h.ip⟩
  | semAcq v =>
    simp [step?] at hs
    obtain ⟨_, hcond, rfl⟩ := hs
    have hf := h.f v (by rw [hcond.1]; simp)
    apply sinv_local c s h v
    · rfl
    · rfl
    · rfl
    · intro hh; exact h.a1 v hh
    · intro hm; exact (h.a4 v hm).1
    · intro hd _; exact hd
    · intro he; exact (h.ce he v).2.2
    · intro hd; exact h.d v hd
    · intro hp; rw [hf.2] at hp; cases hp
    · intro _; exact hf
    · exact h.ps v
    · exact h.po v
    · exact h.pk v
    · exact h.rs v
    · intro _; exact Or.inl (by simp)
  | lockAcq v =>
    simp [step?] at hs
    obtain ⟨_, hcond, rfl⟩ := hs
    have hf := h.f v (by rw [hcond]; simp)
    apply sinv_local c s h v
    · rfl
    · rfl
    · rfl
    · intro hh; exact h.a1 v hh
    · intro hm; exact (h.a4 v hm).1
    · intro hd _; exact hd
    · intro he; exact (h.ce he v).2.2
    · intro hd; exact h.d v hd
    · intro hp; rw [hf.2] at hp; cases hp
    · intro _; exact hf
    · exact h.ps v
    · exact h.po v
    · exact h.pk v
    · exact h.rs v
    · intro _; exact Or.inl (by simp)
  | enter v k =>
    simp [step?] at hs
    obtain ⟨_, hcond, rfl⟩ := hs
    have hf := h.f v (by rw [hcond.1]; simp)
    apply sinv_local c s h v
    · rfl
    · rfl
    · rfl
    · intro hh; exact h.a1 v hh
    · intro hm; exact (h.a4 v hm).1
    · intro hd _; exact hd
    · intro he; exact (h.ce he v).2.2
    · intro hd; exact h.d v hd
    · intro hp; rw [hf.2] at hp; cases hp
    · intro _; exact hf
    · exact h.ps v
    · exact h.po v
    · exact h.pk v
    · exact h.rs v
    · intro _; exact Or.inl (by simp)
  | leave v k r =>
    simp only [step?] at hs
    split at hs
    · simp at hs
    · split at hs
      · rename_i hcond
        simp only [Bool.and_eq_true, beq_iff_eq] at hcond
        have hf := h.f v (by rw [hcond.1]; simp)
        split at hs
        all_goals
          simp only [Option.some.injEq] at hs; subst hs
          apply sinv_local c s h v
          · rfl
          · rfl
          · rfl
          · intro hh; exact h.a1 v hh
          · intro hm; exact (h.a4 v hm).1
          · intro hd _; exact hd
          · intro he; exact (h.ce he v).2.2
          · intro hd; exact h.d v hd
          · intro hp; rw [hf.2] at hp; cases hp
          · intro _; exact hf
          · exact h.ps v
          · exact h.po v
          · exact h.pk v
          · exact h.rs v
          · intro _; exact Or.inl (by simp)
      · simp at hs
  | semRel v =>
    simp [step?] at hs
    obtain ⟨_, rfl⟩ := hs
    apply sinv_local c s h v
    · rfl
    · rfl
    · rfl
    · intro hh; exact h.a1 v hh
    · intro hm; exact (h.a4 v hm).1
    · intro hd _; exact hd
    · intro he; exact (h.ce he v).2.2
    · intro hd; exact h.d v hd
    · intro hp; exact h.n v hp
    · intro hfl; exact h.f v hfl
    · exact h.ps v
    · exact h.po v
    · exact h.pk v
    · exact h.rs v
    · intro hi; exact h.ip v hi

/-- every state reached by an accepted trace satisfies the invariant -/
theorem sinv_accept (c : Cfg) (hc : AncOK c) (evs : List Event) (s s' : Sched) (i : Nat) (h : SInv c s)
    (ha : accept c s evs i = .ok s') : SInv c s' := by
  induction evs generalizing s i with
  | nil => simp [accept] at ha; subst ha; exact h
  | cons ev evs ih =>
    unfold accept at ha
    split at ha
    · rename_i s1 hs1; exact ih s1 (i + 1) (sinv_step c hc s s1 ev h hs1) ha
    · simp at ha

end GoModel.Dag

import Lemmas.Conserve
import Lemmas.Frame
/-! An option that no token of the command line resolves to keeps its declared default and stays
"not called", whatever else is on the command line. -/
namespace GoModel

variable (ext : Ext) (mode : Mode)

/-- `p` is one of the pairs some token of `args` splits into -/
def FromArgs (args : List Str) (p : Pair) : Prop := ∃ t ∈ args, p ∈ (isOption t mode).1

/-- at some level, the pair resolves to a key of option `oid` -/
def Hits (P : Prog) (p : Pair) (oid : Nat) : Prop :=
  ∃ n key, resolve (P.node n) p.opt = [key] ∧ lookup key (P.node n).opts = some oid

/-- some token of the command line names option `oid` (by name, alias or unique abbreviation, at some level) -/
def Mentioned (P : Prog) (args : List Str) (oid : Nat) : Prop := ∃ p, FromArgs mode args p ∧ Hits P p oid

structure UInv (P0 : Prog) (args : List Str) (oid : Nat) (s : PState) : Prop where
  nodes : ∀ n, s.P.node n = P0.node n
  pend : ∀ p ∈ s.pending, FromArgs mode args p
  coll : ∀ o i, s.ctx = .collecting o i → o ≠ oid
  frame : s.P.opt oid = P0.opt oid

variable {P0 : Prog} {args : List Str} {oid : Nat}

theorem procPair_pending (s : PState) (p : Pair) : (procPair ext s p).pending = s.pending ∨ (procPair ext s p).pending = [] := by
  cases hr : resolve (s.P.node s.cur) p.opt with
  | nil =>
    cases hro : (s.P.node s.cur).requireOrder with
    | true => rw [procPair_unknown_ro ext s p hr hro]; right; rfl
    | false => rw [procPair_unknown ext s p hr hro]; left; split <;> rfl
  | cons k1 rest =>
    cases rest with
    | nil =>
      cases hl : lookup k1 (s.P.node s.cur).opts with
      | none => rw [procPair_known_nolookup ext s p k1 hr hl]; left; rfl
      | some o =>
        rw [procPair_known ext s p k1 o hr hl]; left
        split
        · rfl
        · split <;> rfl
    | cons k2 ks => rw [procPair_amb ext s p k1 k2 ks hr]; left; rfl

theorem procPair_ctx (s : PState) (p : Pair) (o i : Nat) (h : (procPair ext s p).ctx = .collecting o i) :
    s.ctx = .collecting o i ∨ ∃ key, resolve (s.P.node s.cur) p.opt = [key] ∧ lookup key (s.P.node s.cur).opts = some o := by
  cases hr : resolve (s.P.node s.cur) p.opt with
  | nil =>
    cases hro : (s.P.node s.cur).requireOrder with
    | true => rw [procPair_unknown_ro ext s p hr hro] at h; cases h
    | false =>
      rw [procPair_unknown ext s p hr hro] at h
      left
      split at h <;> exact h
  | cons k1 rest =>
    cases rest with
    | nil =>
      cases hl : lookup k1 (s.P.node s.cur).opts with
      | none => rw [procPair_known_nolookup ext s p k1 hr hl] at h; left; exact h
      | some o1 =>
        rw [procPair_known ext s p k1 o1 hr hl] at h
        split at h
        · left; exact h
        · split at h
          · simp only [Ctx.collecting.injEq] at h
            right; exact ⟨k1, rfl, by rw [← h.1]; exact hl⟩
          · left; exact h
    | cons k2 ks => rw [procPair_amb ext s p k1 k2 ks hr] at h; left; exact h

theorem uinv_procPair (hnm : ¬ Mentioned mode P0 args oid) (s : PState) (p : Pair)
    (h : UInv mode P0 args oid s) (hp : FromArgs mode args p) : UInv mode P0 args oid (procPair ext s p) := by
  have hcn := procPair_cur_nodes ext s p
  refine ⟨fun n => by rw [hcn.2 n]; exact h.nodes n, ?_, ?_, ?_⟩
  · intro q hq
    rcases procPair_pending ext s p with e | e
    · rw [e] at hq; exact h.pend q hq
    · rw [e] at hq; simp at hq
  · intro o i hc
    rcases procPair_ctx ext s p o i hc with e | ⟨key, hr, hl⟩
    · exact h.coll o i e
    · intro e; subst e
      rw [h.nodes] at hr hl
      exact hnm ⟨p, hp, s.cur, key, hr, hl⟩
  · rw [procPair_frame_opts ext s p oid, h.frame]
    intro key hr hl
    rw [h.nodes] at hr hl
    exact hnm ⟨p, hp, s.cur, key, hr, hl⟩

theorem uinv_setPending (s : PState) (ps : List Pair) (h : UInv mode P0 args oid s)
    (hps : ∀ p ∈ ps, FromArgs mode args p) : UInv mode P0 args oid { s with pending := ps } :=
  ⟨h.nodes, hps, h.coll, h.frame⟩

theorem uinv_drain (hnm : ¬ Mentioned mode P0 args oid) (ps : List Pair) (s : PState)
    (h : UInv mode P0 args oid s) (hps : ∀ p ∈ ps, FromArgs mode args p) :
    UInv mode P0 args oid (drain ext s ps) := by
  induction ps generalizing s with
  | nil => exact uinv_setPending mode s [] h (by simp)
  | cons p ps ih =>
    have h0 := uinv_setPending mode s ps h (fun q hq => hps q (by simp [hq]))
    have h1 := uinv_procPair ext mode hnm _ p h0 (hps p (by simp))
    unfold drain
    simp only
    split
    · exact h1
    · split
      · exact ih _ h1 (fun q hq => hps q (by simp [hq]))
      · exact ⟨h1.nodes, fun q hq => hps q (by simp [hq]), fun o i hc => h1.coll o i hc, h1.frame⟩
      · exact ⟨h1.nodes, by simp, fun o i hc => h1.coll o i hc, h1.frame⟩

theorem uinv_offer (s : PState) (o i : Nat) (t : Str) (h : UInv mode P0 args oid s) (hc : s.ctx = .collecting o i) :
    UInv mode P0 args oid (offer ext mode s o i t).1 := by
  have hf := offer_frame ext mode s o i t
  simp only at hf
  obtain ⟨_, _, _, _, hpend, hnode, _, hctx⟩ := hf
  have hne : o ≠ oid := h.coll o i hc
  refine ⟨fun n => by rw [hnode n]; exact h.nodes n, by rw [hpend]; exact h.pend, ?_, ?_⟩
  · intro o2 i2 hc2
    rcases hctx with e | e | ⟨i', e⟩
    · rw [e] at hc2; cases hc2
    · rw [e, hc] at hc2; cases hc2; exact hne
    · rw [e] at hc2; cases hc2; exact hne
  · rw [offer_frame_opts ext mode s o i t oid (Ne.symm hne), h.frame]

theorem uinv_afterConsume (hnm : ¬ Mentioned mode P0 args oid) (s : PState) (ps : List Pair)
    (h : UInv mode P0 args oid s) (hps : ∀ p ∈ ps, FromArgs mode args p) :
    UInv mode P0 args oid (afterConsume ext s ps) := by
  unfold afterConsume
  split
  · exact h
  · split
    · exact uinv_drain ext mode hnm ps s h hps
    · exact uinv_setPending mode s ps h hps

theorem uinv_head (hnm : ¬ Mentioned mode P0 args oid) (s : PState) (t : Str) (ht : t ∈ args)
    (h : UInv mode P0 args oid s) : UInv mode P0 args oid (head ext mode none s t) := by
  unfold head
  simp only
  split
  · exact ⟨h.nodes, h.pend, (fun o i hc => by cases hc), h.frame⟩
  · split
    · rename_i pairs hopt
      have hs : UInv mode P0 args oid { s with tok := t, lastTok := t, passed := false } :=
        ⟨h.nodes, h.pend, h.coll, h.frame⟩
      apply uinv_drain ext mode hnm pairs _ hs
      intro p hp
      exact ⟨t, ht, by rw [hopt]; exact hp⟩
    · split
      · exact ⟨h.nodes, h.pend, h.coll, h.frame⟩
      · split
        · exact ⟨h.nodes, h.pend, (fun o i hc => by cases hc), h.frame⟩
        · exact ⟨h.nodes, h.pend, h.coll, h.frame⟩

theorem uinv_feedPending (hnm : ¬ Mentioned mode P0 args oid) (t : Str) (ht : t ∈ args) (ps : List Pair) (s : PState)
    (h : UInv mode P0 args oid s) (hps : ∀ p ∈ ps, FromArgs mode args p) :
    UInv mode P0 args oid (feedPending ext mode none t s ps) := by
  induction ps generalizing s with
  | nil =>
    unfold feedPending
    exact uinv_head ext mode hnm _ t ht (uinv_setPending mode s [] h (by simp))
  | cons p ps ih =>
    have h0 := uinv_setPending mode s ps h (fun q hq => hps q (by simp [hq]))
    have h1 := uinv_procPair ext mode hnm _ p h0 (hps p (by simp))
    have hps' : ∀ q ∈ ps, FromArgs mode args q := fun q hq => hps q (by simp [hq])
    unfold feedPending
    simp only
    split
    · exact h1
    · split
      · exact ih _ h1 hps'
      · rename_i o i hc
        have h2 := uinv_offer ext mode _ o i t h1 hc
        generalize offer ext mode (procPair ext { s with pending := ps } p) o i t = r at h2 ⊢
        obtain ⟨s2, b⟩ := r
        cases b with
        | true => exact uinv_afterConsume ext mode hnm s2 ps h2 hps'
        | false => exact ih s2 h2 hps'
      · rename_i hn1 hn2
        refine ⟨h1.nodes, by simp, ?_, h1.frame⟩
        intro o i hc
        simp only [PState.addText] at hc
        exact h1.coll o i hc

theorem uinv_step (hnm : ¬ Mentioned mode P0 args oid) (s : PState) (t : Str) (ht : t ∈ args)
    (h : UInv mode P0 args oid s) : UInv mode P0 args oid (step ext mode s t) := by
  unfold step stepG
  split
  · exact h
  · split
    · exact h
    · exact ⟨h.nodes, h.pend, h.coll, h.frame⟩
    · exact uinv_head ext mode hnm s t ht h
    · rename_i o i hc
      have h2 := uinv_offer ext mode s o i t h hc
      generalize offer ext mode s o i t = r at h2 ⊢
      obtain ⟨s1, b⟩ := r
      cases b with
      | true => exact uinv_afterConsume ext mode hnm s1 s1.pending h2 h2.pend
      | false => exact uinv_feedPending ext mode hnm t ht s1.pending s1 h2 h2.pend

theorem uinv_foldl (hnm : ¬ Mentioned mode P0 args oid) (ts : List Str) (hts : ∀ t ∈ ts, t ∈ args) (s : PState)
    (h : UInv mode P0 args oid s) : UInv mode P0 args oid (ts.foldl (step ext mode) s) := by
  induction ts generalizing s with
  | nil => exact h
  | cons t ts ih =>
    exact ih (fun x hx => hts x (by simp [hx])) _ (uinv_step ext mode hnm s t (hts t (by simp)) h)

theorem uinv_finishDrain (hnm : ¬ Mentioned mode P0 args oid) (ps : List Pair) (s : PState)
    (h : UInv mode P0 args oid s) (hps : ∀ p ∈ ps, FromArgs mode args p) :
    (finishDrain ext s ps).P.opt oid = P0.opt oid := by
  induction ps generalizing s with
  | nil => exact h.frame
  | cons p ps ih =>
    have h0 := uinv_setPending mode s ps h (fun q hq => hps q (by simp [hq]))
    have h1 := uinv_procPair ext mode hnm _ p h0 (hps p (by simp))
    have hps' : ∀ q ∈ ps, FromArgs mode args q := fun q hq => hps q (by simp [hq])
    unfold finishDrain
    simp only
    split
    · exact h1.frame
    · split
      · split
        · exact h1.frame
        · exact ih _ ⟨h1.nodes, h1.pend, (fun o i hc => by cases hc), h1.frame⟩ hps'
      · exact ih _ h1 hps'
      · exact h1.frame

/-- **An option that is not mentioned keeps its declared state**: if no token of the command line
splits into a pair that, at any level, resolves (by name, alias or unique abbreviation) to a key of
option `oid`, then after the whole parse the option is exactly as declared — value, `Called`,
`CalledAs` — whatever else is on the command line. -/
theorem untouched_keeps (P : Prog) (args : List Str) (oid : Nat) (hnm : ¬ Mentioned mode P args oid) :
    (parseArgs ext mode P args).P.opt oid = P.opt oid := by
  have h0 : UInv mode P args oid (initState P) :=
    ⟨fun _ => rfl, by simp [initState], (fun o i hc => by cases hc), rfl⟩
  have h1 := uinv_foldl ext mode hnm args (fun t ht => ht) (initState P) h0
  unfold parseArgs run finish
  split
  · exact h1.frame
  · split
    · split
      · exact h1.frame
      · exact uinv_finishDrain ext mode hnm _ _ ⟨h1.nodes, h1.pend, (fun o i hc => by cases hc), h1.frame⟩ h1.pend
    · exact h1.frame

end GoModel

import Lemmas.SchedMore
/-!
# A second `Run` of the same graph

`Run` keeps what it learnt in the graph: the status of every vertex and the collected errors
(`g.errs`).  A later `Run` of the same `*Graph` first returns `g.errs` if it is not empty; otherwise it
enters the loop again with a new `done` channel, a new semaphore and a fresh `handledContext`.
`rerun s` is that state.  After a run that returned (`exited`), every vertex is `done`, hence a
second run launches nothing, receives nothing and leaves through `exit` at once - with the same
verdict as the first.
-/
namespace GoModel.Dag

theorem foldl_set_exited (l : List Nat) (f : Sched → Nat → VState) (s : Sched) :
    (l.foldl (fun s a => s.set a (f s a)) s).exited = s.exited := by
  induction l generalizing s with
  | nil => rfl
  | cons a r ih => simp only [List.foldl]; rw [ih]; rfl

theorem markAncestors_exited (c : Cfg) (s : Sched) (v : Nat) : (markAncestors c s v).exited = s.exited := by
  unfold markAncestors
  exact foldl_set_exited _ (fun s a => { s.get a with st := .skip, marked := true }) s

/-- only `exit` ends the loop -/
theorem step_exited (c : Cfg) (s s' : Sched) (ev : Event) (hne : ev ≠ .exit)
    (hs : step? c s ev = some s') : s'.exited = s.exited := by
  cases ev with
  | exit => exact absurd rfl hne
  | recv v r =>
    cases r <;> simp [step?] at hs <;> obtain ⟨_, _, rfl⟩ := hs <;> simp [markAncestors_exited]
  | leave v k r =>
    simp [step?] at hs
    obtain ⟨_, _, hs⟩ := hs
    split at hs <;> (simp only [Option.some.injEq] at hs; subst hs; rfl)
  | idle =>
    simp [step?] at hs
    obtain ⟨_, _, _, rfl⟩ := hs
    rfl
  | cancel =>
    simp [step?] at hs
    obtain ⟨_, _, rfl⟩ := hs
    rfl
  | semRel v =>
    simp [step?] at hs
    obtain ⟨_, rfl⟩ := hs
    rfl
  | _ =>
    simp [step?] at hs
    obtain ⟨_, _, rfl⟩ := hs
    rfl

/-- after the loop has ended every vertex of the graph is `done` -/
def ExitInv (c : Cfg) (s : Sched) : Prop := s.exited = true → allDone c s = true

theorem exitInv_step (c : Cfg) (s s' : Sched) (ev : Event) (h : ExitInv c s) (hs : step? c s ev = some s') :
    ExitInv c s' := by
  intro he'
  by_cases hev : ev = .exit
  · subst hev
    simp [step?] at hs
    obtain ⟨_, hd, rfl⟩ := hs
    exact hd
  · have he : s.exited = true := by rw [← step_exited c s s' ev hev hs]; exact he'
    have hd := h he
    -- after the end only a late semaphore release is possible; it does not touch any status
    cases ev with
    | semRel v =>
      simp [step?] at hs
      obtain ⟨_, rfl⟩ := hs
      unfold allDone at hd ⊢
      rw [List.all_eq_true] at hd ⊢
      intro y hy
      have := hd y hy
      simp only [Sched.get, Sched.set] at this ⊢
      split
      · rename_i e; subst e; simpa using this
      · exact this
    | _ => simp [step?, he] at hs

theorem reachable_exitInv (c : Cfg) (s : Sched) (h : Reachable c s) : ExitInv c s := by
  obtain ⟨evs, i, ha⟩ := h
  have key : ∀ (evs : List Event) (s0 s1 : Sched) (i : Nat), ExitInv c s0 → accept c s0 evs i = .ok s1 → ExitInv c s1 := by
    intro evs
    induction evs with
    | nil => intro s0 s1 i h0 ha; simp [accept] at ha; subst ha; exact h0
    | cons ev evs ih =>
      intro s0 s1 i h0 ha
      unfold accept at ha
      split at ha
      · rename_i s2 hs2; exact ih s2 s1 (i + 1) (exitInv_step c s0 s2 ev h0 hs2) ha
      · simp at ha
  exact key evs initSched s i (by intro h; simp [initSched] at h) ha

/-! ## the second run -/

/-- what the first statement of a later `Run` returns, if anything -/
def secondRunEarly (s : Sched) : Option (List Entry) := if s.errs.isEmpty then none else some s.errs

/-- the state in which a later `Run` of the same graph enters its loop: vertex statuses (and the ghost
fields) and the collected errors are kept; the goroutines, completions and semaphore slots of the
earlier run belong to its own channels and are gone; the cancellation flag is local to a run -/
def rerun (s : Sched) : Sched :=
  { vs := fun v => { s.vs v with fl := .none, pseudo := [], sem := false },
    errs := s.errs, cancelled := false, exited := false }

theorem allDone_rerun (c : Cfg) (s : Sched) : allDone c (rerun s) = allDone c s := rfl

theorem done_of_allDone (c : Cfg) (s : Sched) (h : allDone c s = true) (v : Nat) (hv : c.g.has v = true) :
    (s.get v).st = .done := by
  unfold allDone at h
  rw [List.all_eq_true] at h
  simpa using h v ((has_iff_mem_ids _ _).mp hv)

/-- **A second run starts nothing.**  In the state a later `Run` starts from, after a run that
returned, no vertex can be picked (as a task, as a skipped vertex or as an `ErrorTaskSkipped`
completion), nothing can be received, no goroutine step and no idle poll is possible: the only
scheduler events are the end of the loop and (in the model; the Go code tests the context only after
`getNextVertex` found something left to do) the cancellation. -/
theorem second_run_starts_nothing (c : Cfg) (s s' : Sched) (ev : Event) (hd : allDone c s = true)
    (hs : step? c (rerun s) ev = some s') : ev = .exit ∨ ev = .cancel := by
  have hdone : ∀ v, c.g.has v = true → ((rerun s).get v).st = .done := fun v hv => done_of_allDone c s hd v hv
  cases ev with
  | exit => exact Or.inl rfl
  | cancel => exact Or.inr rfl
  | idle =>
    have hd' : allDone c (rerun s) = true := hd
    have hx : (rerun s).exited = false := rfl
    simp [step?, hd', hx] at hs
  | pickReal v =>
    simp [step?] at hs
    obtain ⟨_, ⟨⟨⟨⟨hv, _⟩, _⟩, hp⟩, _⟩, _⟩ := hs
    rw [hdone v hv] at hp; cases hp
  | pickSkip v =>
    simp [step?] at hs
    obtain ⟨_, ⟨⟨⟨hv, _⟩, _⟩, hp⟩, _⟩ := hs
    rw [hdone v hv] at hp; cases hp
  | pickErr v =>
    simp [step?] at hs
    obtain ⟨_, ⟨⟨⟨⟨hv, _⟩, _⟩, hp⟩, _⟩, _⟩ := hs
    rw [hdone v hv] at hp; cases hp
  | recv v r => simp [step?, rerun, Sched.get] at hs
  | semAcq v => simp [step?, rerun, Sched.get] at hs
  | lockAcq v => simp [step?, rerun, Sched.get] at hs
  | enter v k => simp [step?, rerun, Sched.get] at hs
  | leave v k r => simp [step?, rerun, Sched.get] at hs
  | semRel v => simp [step?, rerun, Sched.get] at hs

/-- … and it can leave at once, with the collected errors untouched -/
theorem second_run_exits (c : Cfg) (s : Sched) (hd : allDone c s = true) :
    step? c (rerun s) .exit = some { rerun s with exited := true } := by
  have hd' : allDone c (rerun s) = true := hd
  have hx : (rerun s).exited = false := rfl
  simp [step?, hd', hx]

/-- **Same verdict.**  For every state `s` in which a `Run` has returned: a later `Run` of the same
graph either returns the same non-empty error list at once, or (no error was collected) enters a loop
in which nothing can start and whose exit leaves the error list empty - it returns nil, as the first
run did. -/
theorem second_run_same_verdict (c : Cfg) (s : Sched) (hr : Reachable c s) (hx : s.exited = true) :
    (s.errs ≠ [] → secondRunEarly s = some s.errs) ∧
    (s.errs = [] → secondRunEarly s = none ∧
      (∀ ev s', step? c (rerun s) ev = some s' → ev = .exit ∨ ev = .cancel) ∧
      ∃ s', step? c (rerun s) .exit = some s' ∧ s'.errs = [] ∧ s'.exited = true) := by
  have hd := reachable_exitInv c s hr hx
  refine ⟨fun h => ?_, fun h => ⟨?_, fun ev s' hs => second_run_starts_nothing c s s' ev hd hs, ?_⟩⟩
  · cases he : s.errs with
    | nil => exact absurd he h
    | cons a r => simp [secondRunEarly, he]
  · simp [secondRunEarly, h]
  · exact ⟨_, second_run_exits c s hd, by simp [rerun, h], rfl⟩

end GoModel.Dag

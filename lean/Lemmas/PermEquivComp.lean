import Lemmas.CompPerm
/-! Completion mode over permuted tables: the last word is processed with `comp = some target`. -/
namespace GoModel

variable (ext : Ext) (mode : Mode)

/-- no key of any option table contains `=` -/
def AllKeysNoEq (P : Prog) : Prop := ∀ i, KeysNoEq (P.node i)

theorem head_wnG (comp : Option Str) (s : PState) (t : Str) (N' : List Node) (h : NPerm s.P N')
    (hk : AllKeysNoEq s.P) :
    head ext mode comp (s.wn N') t = (head ext mode comp s t).wn N' ∧ NPerm (head ext mode comp s t).P N' := by
  cases comp with
  | none => exact head_wn ext mode s t N' h
  | some target =>
    unfold head
    simp only
    refine ⟨?_, h⟩
    have hnode : (s.wn N').P.node (s.wn N').cur = N'.getD s.cur dummyNode := rfl
    have e : completionsAt ext target (s.wn N').P ((s.wn N').P.node (s.wn N').cur)
          (List.drop (s.wn N').textStart (s.wn N').rem) t =
        completionsAt ext target s.P (s.P.node s.cur) (List.drop s.textStart s.rem) t := by
      rw [hnode]
      have h1 : completionsAt ext target (s.wn N').P (N'.getD s.cur dummyNode) (List.drop s.textStart s.rem) t =
          completionsAt ext target s.P (N'.getD s.cur dummyNode) (List.drop s.textStart s.rem) t := rfl
      show completionsAt ext target (s.wn N').P (N'.getD s.cur dummyNode) (List.drop s.textStart s.rem) t = _
      rw [h1]
      exact (completionsAt_perm ext target s.P (s.P.node s.cur) _ _ t (h s.cur) (hk s.cur)).symm
    rw [e]
    rfl

theorem nodes_of_nperm_step (s : PState) (p : Pair) (hk : AllKeysNoEq s.P) : AllKeysNoEq (procPair ext s p).P := by
  intro i; rw [(procPair_cur_nodes ext s p).2 i]; exact hk i

theorem offer_nodes (s : PState) (o i : Nat) (t : Str) (n : Nat) :
    (offer ext mode s o i t).1.P.node n = s.P.node n := by
  unfold offer
  simp only
  split
  · split
    · rfl
    · split <;> rfl
  · split
    · rfl
    · split <;> rfl

theorem feedPending_wnG (comp : Option Str) (t : Str) (ps : List Pair) (s : PState) (N' : List Node)
    (h : NPerm s.P N') (hk : AllKeysNoEq s.P) :
    feedPending ext mode comp t (s.wn N') ps = (feedPending ext mode comp t s ps).wn N' ∧
    NPerm (feedPending ext mode comp t s ps).P N' := by
  induction ps generalizing s with
  | nil =>
    unfold feedPending
    exact head_wnG ext mode comp { s with pending := [] } t N' h hk
  | cons p ps ih =>
    unfold feedPending
    simp only
    have hsw : ({ s.wn N' with pending := ps } : PState) = ({ s with pending := ps } : PState).wn N' := rfl
    rw [hsw, procPair_wn ext { s with pending := ps } p N' h]
    have h1 := nperm_procPair ext { s with pending := ps } p N' h
    have hk1 : AllKeysNoEq (procPair ext { s with pending := ps } p).P :=
      nodes_of_nperm_step ext { s with pending := ps } p hk
    have he' : (procPair ext { s with pending := ps } p |>.wn N').err = (procPair ext { s with pending := ps } p).err := rfl
    have hc' : (procPair ext { s with pending := ps } p |>.wn N').ctx = (procPair ext { s with pending := ps } p).ctx := rfl
    rw [he', hc']
    by_cases he : (procPair ext { s with pending := ps } p).err.isSome = true
    · simp only [he, ↓reduceIte]; exact ⟨trivial, h1⟩
    · simp only [he, Bool.false_eq_true, ↓reduceIte]
      cases hc : (procPair ext { s with pending := ps } p).ctx with
      | idle => exact ih _ h1 hk1
      | collecting o i =>
        simp only
        have hof := offer_wn ext mode (procPair ext { s with pending := ps } p) o i t N' h1
        rw [hof.1]
        have h2 := hof.2
        have hk2 : AllKeysNoEq (offer ext mode (procPair ext { s with pending := ps } p) o i t).1.P := by
          intro n; rw [offer_nodes]; exact hk1 n
        generalize offer ext mode (procPair ext { s with pending := ps } p) o i t = r at h2 hk2 ⊢
        obtain ⟨s2, b⟩ := r
        cases b with
        | true => exact afterConsume_wn ext s2 ps N' h2
        | false => exact ih s2 h2 hk2
      | stopped => exact ⟨rfl, h1⟩
      | done => exact ⟨rfl, h1⟩

theorem stepG_wn (comp : Option Str) (s : PState) (t : Str) (N' : List Node) (h : NPerm s.P N')
    (hk : AllKeysNoEq s.P) :
    stepG ext mode comp (s.wn N') t = (stepG ext mode comp s t).wn N' ∧ NPerm (stepG ext mode comp s t).P N' := by
  unfold stepG
  have he' : (s.wn N').err = s.err := rfl
  have hc' : (s.wn N').ctx = s.ctx := rfl
  rw [he', hc']
  by_cases he : s.err.isSome = true
  · simp only [he, ↓reduceIte]; exact ⟨trivial, h⟩
  · simp only [he, Bool.false_eq_true, ↓reduceIte]
    cases hc : s.ctx with
    | done => exact ⟨rfl, h⟩
    | stopped => exact ⟨rfl, h⟩
    | idle => exact head_wnG ext mode comp s t N' h hk
    | collecting o i =>
      simp only
      have hof := offer_wn ext mode s o i t N' h
      rw [hof.1]
      have h2 := hof.2
      have hk2 : AllKeysNoEq (offer ext mode s o i t).1.P := by
        intro n; rw [offer_nodes]; exact hk n
      generalize offer ext mode s o i t = r at h2 hk2 ⊢
      obtain ⟨s1, b⟩ := r
      cases b with
      | true => exact afterConsume_wn ext s1 s1.pending N' h2
      | false => exact feedPending_wnG ext mode comp t s1.pending s1 N' h2 hk2

theorem keysNoEq_of_perm {nd nd' : Node} (hp : nd.opts.Perm nd'.opts) (h : KeysNoEq nd) : KeysNoEq nd' :=
  fun kv hkv => h kv (hp.mem_iff.mpr hkv)

theorem completeArgs_wn (target : Str) (P : Prog) (N' : List Node) (words : List Str) (h : NPerm P N')
    (hk : AllKeysNoEq P) :
    completeArgs ext mode target { P with nodes := N' } words = (completeArgs ext mode target P words).wn N' := by
  unfold completeArgs
  cases words.getLast? with
  | none => rfl
  | some w =>
    simp only
    unfold run
    have h0 : initState { P with nodes := N' } = (initState P).wn N' := rfl
    have hf := foldl_wn ext mode words.dropLast (initState P) N' h
    rw [h0, hf.1]
    have hk1 : AllKeysNoEq (words.dropLast.foldl (step ext mode) (initState P)).P := by
      intro i
      have a := keysNoEq_of_perm (h i).opts (hk i)
      exact keysNoEq_of_perm (hf.2 i).opts.symm a
    have hs := stepG_wn ext mode (some target) _ w N' hf.2 hk1
    rw [hs.1]
    exact finish_wn ext _ N' hs.2

/-- **The completion list is independent of the iteration order of the tables.** -/
theorem completeUser_perm (P : Prog) (N' : List Node) (zsh : Bool) (compLine : Str) (args : List Str)
    (h : NPerm P N') (hk : AllKeysNoEq P) :
    completeUser ext { P with nodes := N' } zsh compLine args = completeUser ext P zsh compLine args := by
  unfold completeUser
  simp only
  have hmode : (({ P with nodes := N' } : Prog).node 0).mode = (P.node 0).mode :=
    (congrArg Node.mode (h 0).rest).symm
  rw [hmode, completeArgs_wn ext (P.node 0).mode _ P N' _ h hk]
  rfl

end GoModel

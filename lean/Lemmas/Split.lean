import Lemmas.Bytes
import Lemmas.Explode
/-! The splitter on single-dash tokens `-NAME[=V]`, for every NAME and V. -/
namespace GoModel

/-- regex group 3 of a token: empty, or `=` followed by anything -/
def G3 (g3 : Str) : Prop := g3 = [] ∨ ∃ v, g3 = chEq :: v

theorem nameOf_g3 (name g3 : Str) (hne : ∀ c ∈ name, c ≠ chEq) (hg : G3 g3) :
    nameOf (name ++ g3) = name ∧ restOf (name ++ g3) = g3 := by
  rcases hg with h | ⟨v, h⟩
  · subst h; simp [nameOf_noEq name hne, restOf_noEq name hne]
  · subst h; exact ⟨nameOf_append_eq name v hne, restOf_append_eq name v hne⟩

theorem splitDashes_single (c : UInt8) (r : Str) (hd : c ≠ chDash) (he : c ≠ chEq) :
    splitDashes (chDash :: c :: r) = some (false, nameOf (c :: r), restOf (c :: r)) := by
  have hc : (c != chEq) = true := by simp [he]
  have hd' : ¬ (c = 45) := by simpa [chDash] using hd
  unfold splitDashes
  simp only [chDash]
  split
  · rename_i heq; simp at heq; exact absurd heq.1 hd'
  · rename_i heq; simp at heq; obtain ⟨h1, h2⟩ := heq; subst h1; subst h2; simp [hc]
  · rename_i h1 h2; exact absurd rfl (h2 c r)

/-- what the splitter does with a single-dash token, per mode -/
def singleSplit (name g3 : Str) : Mode → List Pair × Bool
  | .normal => ([⟨name, attached g3⟩], true)
  | .bundling => (bundlePairs (explode name) (attached g3), true)
  | .singleDash =>
    if name.length > utf8Width name || g3.length > 0
    then ([⟨name.take (utf8Width name), [name.drop (utf8Width name) ++ g3]⟩], true)
    else ([⟨name.take (utf8Width name), []⟩], true)

/-- `-NAME[=V]`: NAME non-empty, not starting with `-`, containing no `=` -/
structure SName (name : Str) : Prop where
  ne : name ≠ []
  nodash : name.head? ≠ some chDash
  noeq : ∀ c ∈ name, c ≠ chEq

theorem isOption_single (name g3 : Str) (m : Mode) (hn : SName name) (hg : G3 g3) :
    isOption (chDash :: (name ++ g3)) m = singleSplit name g3 m := by
  obtain ⟨hne, hd, hq⟩ := hn
  cases name with
  | nil => exact absurd rfl hne
  | cons c r =>
    have hcd : c ≠ chDash := by intro e; subst e; simp at hd
    have hce : c ≠ chEq := hq c (by simp)
    have hs := splitDashes_single c (r ++ g3) hcd hce
    have hng := nameOf_g3 (c :: r) g3 hq hg
    simp only [List.cons_append] at hng ⊢
    rw [hng.1, hng.2] at hs
    unfold isOption
    have a1 : (chDash :: c :: (r ++ g3) == [chDash, chDash]) = false := by
      cases h : r ++ g3 <;> simp [hcd]
    have a2 : (chDash :: c :: (r ++ g3) == [chDash]) = false := by simp
    rw [a1, a2, hs]
    cases m <;> simp [singleSplit]

/-- `--NAME[=V]` is one pair in every mode -/
theorem isOption_long (name g3 : Str) (m : Mode) (hne : name ≠ []) (hq : ∀ c ∈ name, c ≠ chEq) (hg : G3 g3) :
    isOption (chDash :: chDash :: (name ++ g3)) m = ([⟨name, attached g3⟩], true) := by
  cases name with
  | nil => exact absurd rfl hne
  | cons c r =>
    have hce : c ≠ chEq := hq c (by simp)
    have hc' : (c != chEq) = true := by simp [hce]
    have hng := nameOf_g3 (c :: r) g3 hq hg
    simp only [List.cons_append] at hng ⊢
    unfold isOption
    have h1 : (chDash :: chDash :: c :: (r ++ g3) == [chDash, chDash]) = false := by simp
    have h2 : (chDash :: chDash :: c :: (r ++ g3) == [chDash]) = false := by simp
    rw [h1, h2]
    simp only [Bool.false_eq_true, ↓reduceIte]
    have hs : splitDashes (chDash :: chDash :: c :: (r ++ g3)) =
        some (true, nameOf (c :: (r ++ g3)), restOf (c :: (r ++ g3))) := by
      simp [splitDashes, chDash, hc']
    rw [hs, hng.1, hng.2]

/-- the first character of an `SName` is an `SName` -/
theorem sname_take (name : Str) (hn : SName name) : SName (name.take (utf8Width name)) := by
  obtain ⟨hne, hd, hq⟩ := hn
  have hp := utf8Width_pos_ne name hne
  refine ⟨?_, ?_, fun c hc => hq c (List.mem_of_mem_take hc)⟩
  · cases name with
    | nil => exact absurd rfl hne
    | cons c r => cases h : utf8Width (c :: r) with
      | zero => omega
      | succ n => simp
  · cases name with
    | nil => exact absurd rfl hne
    | cons c r => cases h : utf8Width (c :: r) with
      | zero => omega
      | succ n => simpa using hd

theorem bundlePairs_single (l : Str) (args : List Str) : bundlePairs [l] args = [⟨l, args⟩] := rfl

theorem bundlePairs_append (ls : List Str) (l : Str) (args : List Str) :
    bundlePairs (ls ++ [l]) args = ls.map (fun x => ⟨x, []⟩) ++ [⟨l, args⟩] := by
  induction ls with
  | nil => rfl
  | cons x xs ih =>
    cases xs with
    | nil => rfl
    | cons y ys =>
      simp only [List.cons_append, List.map_cons] at ih ⊢
      rw [bundlePairs, ih]
      all_goals simp

/-- a piece of an `SName` that is not `-`… is again an `SName` provided it does not start with `-` -/
theorem sname_piece (name l : Str) (hn : SName name) (hl : l ∈ explode name) (hd : l.head? ≠ some chDash) :
    SName l :=
  ⟨(explode_piece name l hl).1, hd, fun c hc => hn.noeq c (explode_mem_sub name l hl c hc)⟩

/-- Bundling: one letter (a piece of a bundle) with an optional attached value is one pair -/
theorem bundling_letter (name l g3 : Str) (hn : SName name) (hl : l ∈ explode name)
    (hd : l.head? ≠ some chDash) (hg : G3 g3) :
    isOption (chDash :: (l ++ g3)) .bundling = ([⟨l, attached g3⟩], true) := by
  rw [isOption_single l g3 .bundling (sname_piece name l hn hl hd) hg]
  simp [singleSplit, explode_idem name l hl, bundlePairs]

end GoModel

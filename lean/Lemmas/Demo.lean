import Model.Program
/-! A concrete `Ext` and a concrete program used by the non-vacuity examples next to the theorems. -/
namespace GoModel.Demo
open GoModel

def ext : Ext := {
  floatOk := fun s => s == b "1.5"
  toLower := asciiLower
  valueFn := fun _ _ _ => []
  argFn := fun _ _ _ _ => []
  hdrName := b "NAME", hdrSynopsis := b "SYNOPSIS", hdrCommands := b "COMMANDS",
  hdrRequired := b "REQUIRED PARAMETERS", hdrArguments := b "ARGUMENTS", hdrOptions := b "OPTIONS" }

/-- options: name (string, alias n), verbose (bool, alias v), list (string slice 1..3), opt (optional
string), num (int), version (bool); command `cmd` with its own bool `force`; help command. -/
def script : List DefOp := [
  .opt 0 .str (b "name") (.s (b "def")) [] 0 0 [.alias [b "n"]],
  .opt 0 .bool (b "verbose") (.b false) [] 0 0 [.alias [b "v"]],
  .opt 0 .strs (b "list") (.ss []) [] 1 3 [],
  .opt 0 .strOpt (b "opt") (.s (b "d")) [] 0 0 [],
  .opt 0 .int (b "num") (.i 0) [] 0 0 [],
  .opt 0 .bool (b "version") (.b false) [] 0 0 [],
  .cmd 0 (b "cmd") (b "a command"),
  .opt 1 .bool (b "force") (.b false) [] 0 0 [],
  .setFn 1 1,
  .help 0 (b "help") [] ]

def prog : Prog := match build ext [] (b "prog") script with
  | .ok P => P
  | .error _ => { nodes := [], opts := [] }

end GoModel.Demo

import Lemmas.Bundle
/-! An abbreviation in the middle of a command line behaves exactly like the full name. -/
namespace GoModel

variable (ext : Ext) (mode : Mode)

theorem procPair_abbrev (s : PState) (k k' : Str) (args : List Str)
    (h : resolve (s.P.node s.cur) k = [k']) (h' : resolve (s.P.node s.cur) k' = [k']) :
    procPair ext s ⟨k, args⟩ = procPair ext s ⟨k', args⟩ := by
  cases hl : lookup k' (s.P.node s.cur).opts with
  | none => rw [procPair_known_nolookup ext s _ k' h hl, procPair_known_nolookup ext s _ k' h' hl]
  | some oid => rw [procPair_known ext s _ k' oid h hl, procPair_known ext s _ k' oid h' hl]

theorem drain_abbrev (s : PState) (k k' : Str) (args : List Str)
    (h : resolve (s.P.node s.cur) k = [k']) (h' : resolve (s.P.node s.cur) k' = [k']) :
    drain ext s [⟨k, args⟩] = drain ext s [⟨k', args⟩] := by
  unfold drain
  simp only
  rw [procPair_abbrev ext { s with pending := [] } k k' args h h']

/-- tokens `t` (spelling the abbreviation `k`) and `t'` (spelling the full name `k'`) with the same
attached arguments leave states from which every continuation behaves identically -/
theorem abbrev_sim (s : PState) (t t' : Str) (k k' : Str) (args : List Str)
    (he : s.err = none) (hc : s.ctx = .idle)
    (ht : isOption t mode = ([⟨k, args⟩], true)) (ht' : isOption t' mode = ([⟨k', args⟩], true))
    (h : resolve (s.P.node s.cur) k = [k']) (h' : resolve (s.P.node s.cur) k' = [k']) :
    Sim (step ext mode s t) (step ext mode s t') := by
  rw [step_head_option ext mode s t _ he hc (isOption_true_ne_dashdash mode t _ ht) ht,
      step_head_option ext mode s t' _ he hc (isOption_true_ne_dashdash mode t' _ ht') ht']
  have e1 : drain ext (headState s t) [⟨k, args⟩] = drain ext (headState s t) [⟨k', args⟩] :=
    drain_abbrev ext (headState s t) k k' args h h'
  rw [e1]
  refine sim_of_obs ?_ (drain_single_pending ext _ _) (drain_single_pending ext _ _)
  exact drain_known_obs ext [⟨k', args⟩] _ _ ⟨rfl, rfl, rfl, rfl, rfl, rfl, rfl, rfl⟩
    (fun p hp => by simp at hp; subst hp; exact ⟨k', h'⟩)

end GoModel

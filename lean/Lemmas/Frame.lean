import Lemmas.Parse
/-! Frame lemmas: what one pair / one value token can change in the option store. -/
namespace GoModel

variable (ext : Ext) (mode : Mode)

theorem opt_setOpt_ne (P : Prog) (o o' : Nat) (x : Opt) (h : o' ≠ o) : (P.setOpt o x).opt o' = P.opt o' := by
  simp [Prog.setOpt, Prog.opt, List.getD, List.getElem?_set_ne (Ne.symm h)]

theorem opt_setOpt_same (P : Prog) (o : Nat) (x : Opt) (h : o < P.opts.length) : (P.setOpt o x).opt o = x := by
  simp [Prog.setOpt, Prog.opt, List.getD, h]

/-- Processing one `(option, args)` pair changes at most the option it resolves to. -/
theorem procPair_frame_opts (s : PState) (p : Pair) (o2 : Nat)
    (h : ∀ key, resolve (s.P.node s.cur) p.opt = [key] → lookup key (s.P.node s.cur).opts ≠ some o2) :
    (procPair ext s p).P.opt o2 = s.P.opt o2 := by
  cases hr : resolve (s.P.node s.cur) p.opt with
  | nil =>
    cases hro : (s.P.node s.cur).requireOrder with
    | true => rw [procPair_unknown_ro ext s p hr hro]; rfl
    | false => rw [procPair_unknown ext s p hr hro]; split <;> rfl
  | cons k1 rest =>
    cases rest with
    | nil =>
      cases hl : lookup k1 (s.P.node s.cur).opts with
      | none => rw [procPair_known_nolookup ext s p k1 hr hl]
      | some oid =>
        have hne : o2 ≠ oid := by
          intro heq; exact h k1 hr (by rw [hl, heq])
        rw [procPair_known ext s p k1 oid hr hl]
        split
        · exact opt_setOpt_ne _ _ _ _ hne
        · split <;> exact opt_setOpt_ne _ _ _ _ hne
    | cons k2 ks => rw [procPair_amb ext s p k1 k2 ks hr]

/-- A value token changes at most the option that is collecting. -/
theorem offer_frame_opts (s : PState) (o i : Nat) (t : Str) (o2 : Nat) (h : o2 ≠ o) :
    (offer ext mode s o i t).1.P.opt o2 = s.P.opt o2 := by
  unfold offer
  simp only
  split
  · split
    · rfl
    · split
      · rfl
      · exact opt_setOpt_ne _ _ _ _ h
  · split
    · rfl
    · split
      · rfl
      · exact opt_setOpt_ne _ _ _ _ h

end GoModel

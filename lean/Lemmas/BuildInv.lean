import Lemmas.Inherit
/-! Invariants of every program built through the definition API: the command tables form a tree
(children exist and have larger ids), every option table has distinct keys, every handle is a node. -/
namespace GoModel

def Prog.cmdsTab (P : Prog) : List (List (Str × Nat)) := P.nodes.map (·.cmds)

theorem node_cmds_of_cmdsTab {P Q : Prog} (h : Q.cmdsTab = P.cmdsTab) (x : Nat) :
    (Q.node x).cmds = (P.node x).cmds := by
  have : (Q.cmdsTab)[x]? = (P.cmdsTab)[x]? := by rw [h]
  unfold Prog.cmdsTab at this
  simp only [List.getElem?_map] at this
  unfold Prog.node
  simp only [List.getD_eq_getElem?_getD]
  cases hq : Q.nodes[x]? <;> cases hp : P.nodes[x]? <;> simp [hq, hp] at this ⊢ <;>
    first | exact this | simp [dummyNode, ← this] | simp [dummyNode, this]

theorem kids_of_cmdsTab {P Q : Prog} (h : Q.cmdsTab = P.cmdsTab) (x : Nat) : kids Q x = kids P x := by
  simp [kids, node_cmds_of_cmdsTab h x]

theorem length_of_cmdsTab {P Q : Prog} (h : Q.cmdsTab = P.cmdsTab) : Q.nodes.length = P.nodes.length := by
  have := congrArg List.length h
  simpa [Prog.cmdsTab] using this

theorem treeWF_of_cmdsTab {P Q : Prog} (h : Q.cmdsTab = P.cmdsTab) (w : TreeWF P) : TreeWF Q := by
  constructor
  · intro x c hc; rw [kids_of_cmdsTab h] at hc; exact w.ordered x c hc
  · intro x c hc; rw [kids_of_cmdsTab h] at hc; rw [length_of_cmdsTab h]; exact w.bounded x c hc

theorem cmdsTab_of_shells {P Q : Prog} (h : Q.shells = P.shells) : Q.cmdsTab = P.cmdsTab := by
  have : Q.shells.map (·.cmds) = P.shells.map (·.cmds) := by rw [h]
  simpa [Prog.shells, Prog.cmdsTab, Node.shell, Function.comp_def] using this

theorem cmdsTab_modNode (P : Prog) (n : Nat) (f : Node → Node) (hf : ∀ x, (f x).cmds = x.cmds) :
    (P.modNode n f).cmdsTab = P.cmdsTab := by
  unfold Prog.cmdsTab Prog.modNode Prog.setNode
  simp only [List.map_set]
  apply List.ext_getElem?
  intro i
  rw [List.getElem?_set]
  split
  · rename_i h
    subst h
    split
    · rename_i hlt
      simp only [List.length_map] at hlt
      simp [Prog.node, List.getD, List.getElem?_eq_getElem hlt, hf]
    · rename_i hge
      simp only [List.length_map] at hge
      simp [List.getElem?_eq_none (Nat.le_of_not_lt hge)]
  · rfl

/-- every option table has distinct keys (it is a Go map) -/
def KInv (P : Prog) : Prop := ∀ n, ((P.node n).opts.map (·.1)).Nodup

theorem kinv_dummy : (dummyNode.opts.map (·.1)).Nodup := by simp [dummyNode]

theorem kinv_modNode (P : Prog) (n : Nat) (f : Node → Node) (h : KInv P)
    (hf : (((f (P.node n)).opts).map (·.1)).Nodup) : KInv (P.modNode n f) := by
  intro x
  unfold Prog.modNode
  rw [node_setNode]
  split
  · exact hf
  · exact h x

theorem length_modNode (P : Prog) (n : Nat) (f : Node → Node) : (P.modNode n f).nodes.length = P.nodes.length := by
  simp [Prog.modNode, Prog.setNode]

/-- the three invariants together -/
structure PInv (P : Prog) : Prop where
  tree : TreeWF P
  keys : KInv P

theorem pinv_modNode (P : Prog) (n : Nat) (f : Node → Node) (h : PInv P)
    (hc : ∀ x, (f x).cmds = x.cmds) (ho : (((f (P.node n)).opts).map (·.1)).Nodup) : PInv (P.modNode n f) :=
  ⟨treeWF_of_cmdsTab (cmdsTab_modNode P n f hc) h.tree, kinv_modNode P n f h.keys ho⟩

theorem pinv_opts (P : Prog) (os : List Opt) (h : PInv P) : PInv { P with opts := os } :=
  ⟨⟨h.tree.ordered, h.tree.bounded⟩, h.keys⟩

theorem pinv_modOpt (P : Prog) (o : Nat) (f : Opt → Opt) (h : PInv P) : PInv (P.modOpt o f) :=
  ⟨⟨h.tree.ordered, h.tree.bounded⟩, h.keys⟩

theorem addChildOption_inv (P P' : Prog) (n : Nat) (key : Str) (oid : Nat) (h : PInv P)
    (hr : addChildOption P n key oid = .ok P') : PInv P' ∧ P'.nodes.length = P.nodes.length := by
  unfold addChildOption at hr
  split at hr
  · simp at hr
  · split at hr
    · simp at hr
    · rename_i hlk
      simp only at hr
      split at hr
      · simp at hr
      · simp only [Except.ok.injEq] at hr
        subst hr
        refine ⟨pinv_modNode P n _ h (fun _ => rfl) ?_, length_modNode P n _⟩
        simp only [List.map_append, List.map_cons, List.map_nil]
        have hnone : lookup key (P.node n).opts = none := by
          cases hl : lookup key (P.node n).opts with
          | none => rfl
          | some v => simp [hl] at hlk
        have hnotin := (lookup_none_iff _ _).mp hnone
        exact List.nodup_append.mpr ⟨h.keys n, by simp, by
          intro a ha b hb; simp at hb; subst hb; intro e; subst e; exact hnotin ha⟩

theorem addAliases_inv (names : List Str) (P P' : Prog) (n oid : Nat) (h : PInv P)
    (hr : addAliases P n oid names = .ok P') : PInv P' ∧ P'.nodes.length = P.nodes.length := by
  induction names generalizing P with
  | nil => simp only [addAliases, Except.ok.injEq] at hr; subst hr; exact ⟨h, rfl⟩
  | cons a r ih =>
    simp only [addAliases, bind, Except.bind] at hr
    split at hr
    · simp at hr
    · rename_i P1 h1
      have i1 := addChildOption_inv P P1 n a oid h h1
      have i2 := ih P1 i1.1 hr
      exact ⟨i2.1, by rw [i2.2, i1.2]⟩

variable (ext : Ext) (env : Env)

theorem applyMod_inv (P P' : Prog) (n oid : Nat) (m : Mod) (h : PInv P)
    (hr : applyMod ext env P n oid m = .ok P') : PInv P' ∧ P'.nodes.length = P.nodes.length := by
  cases m with
  | alias names =>
    simp only [applyMod] at hr
    have := addAliases_inv names _ P' n oid (pinv_modOpt P oid _ h) hr
    exact ⟨this.1, by rw [this.2]; rfl⟩
  | _ =>
    simp only [applyMod, Except.ok.injEq] at hr
    subst hr
    exact ⟨pinv_modOpt P oid _ h, rfl⟩

theorem applyMods_inv (ms : List Mod) (P P' : Prog) (n oid : Nat) (h : PInv P)
    (hr : applyMods ext env P n oid ms = .ok P') : PInv P' ∧ P'.nodes.length = P.nodes.length := by
  induction ms generalizing P with
  | nil => simp only [applyMods, Except.ok.injEq] at hr; subst hr; exact ⟨h, rfl⟩
  | cons m r ih =>
    simp only [applyMods, bind, Except.bind] at hr
    split at hr
    · simp at hr
    · rename_i P1 h1
      have i1 := applyMod_inv ext env P P1 n oid m h h1
      have i2 := ih P1 i1.1 hr
      exact ⟨i2.1, by rw [i2.2, i1.2]⟩

theorem defineOpt_inv (P P' : Prog) (n : Nat) (kind : Kind) (name : Str) (dflt : Val) (dstr : Str)
    (mn mx : Int) (mods : List Mod) (h : PInv P)
    (hr : defineOpt ext env P n kind name dflt dstr mn mx mods = .ok P') :
    PInv P' ∧ P'.nodes.length = P.nodes.length := by
  unfold defineOpt at hr
  simp only [bind, Except.bind] at hr
  split at hr
  · simp at hr
  · rename_i P2 h2
    have i1 := addChildOption_inv _ P2 n name _ (pinv_opts P _ h) h2
    have i2 := applyMods_inv ext env mods P2 P' n _ i1.1 hr
    exact ⟨i2.1, by rw [i2.2, i1.2]⟩

/-! ### `copyOptionsFromParent` keeps the invariants -/

theorem insertKV_keys_nodup {α} (k : Str) (v : α) (m : List (Str × α)) (h : (m.map (·.1)).Nodup) :
    ((insertKV k v m).map (·.1)).Nodup ∧ ∀ x, x ∈ (insertKV k v m).map (·.1) → x = k ∨ x ∈ m.map (·.1) := by
  induction m with
  | nil => simp [insertKV]
  | cons y r ih =>
    obtain ⟨k', v'⟩ := y
    simp only [List.map_cons, List.nodup_cons] at h
    by_cases hk : (k' == k) = true
    · have e : k' = k := by simpa using hk
      subst e
      simp only [insertKV, hk, ↓reduceIte, List.map_cons, List.nodup_cons]
      exact ⟨⟨h.1, h.2⟩, fun x hx => by simp at hx; rcases hx with hx | hx <;> simp [hx]⟩
    · have hne : ¬ k' = k := by simpa using hk
      have ih' := ih h.2
      simp only [insertKV, hk, Bool.false_eq_true, ↓reduceIte, List.map_cons, List.nodup_cons]
      refine ⟨⟨?_, ih'.1⟩, ?_⟩
      · intro hin
        rcases ih'.2 k' hin with e | e
        · exact hne e
        · exact h.1 e
      · intro x hx
        simp only [List.mem_cons] at hx
        rcases hx with hx | hx
        · right; simp [hx]
        · rcases ih'.2 x hx with e | e
          · left; exact e
          · right; simp [e]

theorem foldl_insertKV_nodup {α} (l acc : List (Str × α)) (h : (acc.map (·.1)).Nodup) :
    ((l.foldl (fun acc kv => insertKV kv.1 kv.2 acc) acc).map (·.1)).Nodup := by
  induction l generalizing acc with
  | nil => exact h
  | cons x r ih => simp only [List.foldl_cons]; exact ih _ (insertKV_keys_nodup x.1 x.2 acc h).1

theorem copyStepFn_kinv (pn : Node) (A : Prog) (c : Nat) (h : KInv A) : KInv (copyStepFn pn A c) := by
  unfold copyStepFn
  simp only
  split
  · exact h
  · intro x
    rw [node_setNode]
    split
    · exact foldl_insertKV_nodup _ _ (h c)
    · exact h x

theorem copyStep_fold_kinv (pn : Node) (ks : List Nat) (A : Prog) (h : KInv A) :
    KInv (ks.foldl (copyStepFn pn) A) := by
  induction ks generalizing A with
  | nil => exact h
  | cons k ks ih => simp only [List.foldl_cons]; exact ih _ (copyStepFn_kinv pn A k h)

theorem copyOpts_kinv (fuel : Nat) (P : Prog) (a : Nat) (h : KInv P) : KInv (copyOpts fuel P a) := by
  induction fuel generalizing P a with
  | zero => exact h
  | succ fuel ih =>
    rw [copyOpts_succ]
    have h2 : ∀ (ks : List Nat) (Q : Prog), KInv Q → KInv (ks.foldl (fun A c => copyOpts fuel A c) Q) := by
      intro ks
      induction ks with
      | nil => intro Q hQ; exact hQ
      | cons k ks ihk => intro Q hQ; simp only [List.foldl_cons]; exact ihk _ (ih Q k hQ)
    exact h2 _ _ (copyStep_fold_kinv _ _ _ h)

theorem copyOpts_pinv (fuel : Nat) (P : Prog) (a : Nat) (h : PInv P) :
    PInv (copyOpts fuel P a) ∧ (copyOpts fuel P a).nodes.length = P.nodes.length :=
  ⟨⟨treeWF_of_cmdsTab (cmdsTab_of_shells (copyOpts_shells fuel P a)) h.tree, copyOpts_kinv fuel P a h.keys⟩,
   length_of_shells (copyOpts_shells fuel P a)⟩

/-! ### `addChildCommand` -/

theorem attach_kinv (P : Prog) (p : Nat) (nd : Node) (hp : p < P.nodes.length) (hno : nd.opts = [])
    (h : KInv P) : KInv (attach P p nd) := by
  intro x
  rw [attach_node P p nd hp]
  split
  · exact h p
  · split
    · exact h x
    · split
      · simp [hno]
      · exact kinv_dummy

theorem addChildCommand_eq (P P1 : Prog) (p id : Nat) (nd : Node)
    (hr : addChildCommand P p nd = .ok (P1, id)) : P1 = attach P p nd ∧ id = P.nodes.length := by
  unfold addChildCommand at hr
  split at hr
  · simp at hr
  · split at hr
    · simp at hr
    · simp only [Except.ok.injEq, Prod.mk.injEq] at hr
      exact ⟨hr.1.symm, hr.2.symm⟩

theorem attach_length (P : Prog) (p : Nat) (nd : Node) : (attach P p nd).nodes.length = P.nodes.length + 1 := by
  simp [attach, Prog.modNode, Prog.setNode]

theorem attach_pinv (P : Prog) (p : Nat) (nd : Node) (hp : p < P.nodes.length) (hnc : nd.cmds = [])
    (hno : nd.opts = []) (h : PInv P) : PInv (attach P p nd) :=
  ⟨attach_wf P p nd hp hnc h.tree, attach_kinv P p nd hp hno h.keys⟩

/-! ### the help command -/

theorem addHelpCmds_inv (name : Str) (ns : List Nat) (P P' : Prog) (h : PInv P)
    (hns : ∀ n ∈ ns, n < P.nodes.length) (hr : addHelpCmds name ns P = .ok P') :
    PInv P' ∧ P.nodes.length ≤ P'.nodes.length := by
  induction ns generalizing P with
  | nil => simp only [addHelpCmds, Except.ok.injEq] at hr; subst hr; exact ⟨h, Nat.le_refl _⟩
  | cons n r ih =>
    unfold addHelpCmds at hr
    simp only at hr
    split at hr
    · exact ih P h (fun x hx => hns x (by simp [hx])) hr
    · simp only [bind, Except.bind] at hr
      split at hr
      · simp at hr
      · rename_i v hv
        obtain ⟨P1, id⟩ := v
        have e := addChildCommand_eq P P1 n id _ hv
        have hn : n < P.nodes.length := hns n (by simp)
        have i1 : PInv P1 := by rw [e.1]; exact attach_pinv P n _ hn rfl rfl h
        have l1 : P1.nodes.length = P.nodes.length + 1 := by rw [e.1]; exact attach_length P n _
        have i2 := ih P1 i1 (fun x hx => by have := hns x (by simp [hx]); omega) hr
        exact ⟨i2.1, by omega⟩

theorem subtree_bound (fuel : Nat) (P : Prog) (n : Nat) (w : TreeWF P) (hn : n < P.nodes.length) :
    ∀ x ∈ subtree fuel P n, x < P.nodes.length := by
  induction fuel generalizing n with
  | zero => intro x hx; simp [subtree] at hx; omega
  | succ fuel ih =>
    intro x hx
    simp only [subtree, List.mem_cons, List.mem_flatMap] at hx
    rcases hx with hx | ⟨c, hc, hx⟩
    · omega
    · exact ih c (w.bounded n c hc) x hx

theorem fold_helpName_inv (name : Str) (xs : List Nat) (P : Prog) (h : PInv P) :
    PInv (xs.foldl (fun P x => P.modNode x fun nd => { nd with helpName := name }) P) ∧
    (xs.foldl (fun P x => P.modNode x fun nd => { nd with helpName := name }) P).nodes.length = P.nodes.length := by
  induction xs generalizing P with
  | nil => exact ⟨h, rfl⟩
  | cons x r ih =>
    simp only [List.foldl_cons]
    have i1 : PInv (P.modNode x fun nd => { nd with helpName := name }) :=
      pinv_modNode P x _ h (fun _ => rfl) (h.keys x)
    have i2 := ih _ i1
    exact ⟨i2.1, by rw [i2.2, length_modNode]⟩

/-! ### every definition step keeps the invariants -/

structure BInvT (st : BState) : Prop where
  prog : PInv st.P
  handles : ∀ (h p : Nat), st.handles[h]? = some p → p < st.P.nodes.length

theorem handle_ok (st : BState) (h n : Nat) (hr : handle st h = .ok n) : st.handles[h]? = some n := by
  unfold handle at hr
  split at hr
  · rename_i heq; simp only [Except.ok.injEq] at hr; subst hr; exact heq
  · simp at hr

theorem binv_modNode (st : BState) (n : Nat) (f : Node → Node) (h : BInvT st)
    (hc : ∀ x, (f x).cmds = x.cmds) (ho : (((f (st.P.node n)).opts).map (·.1)).Nodup) :
    BInvT { st with P := st.P.modNode n f } :=
  ⟨pinv_modNode st.P n f h.prog hc ho, fun hh p hp => by rw [length_modNode]; exact h.handles hh p hp⟩

theorem buildStep_inv (st st' : BState) (op : DefOp) (h : BInvT st)
    (hr : buildStep ext env st op = .ok st') : BInvT st' := by
  cases op with
  | opt hd kind name dflt dstr mn mx mods =>
    simp only [buildStep, bind, Except.bind] at hr
    split at hr
    · simp at hr
    · rename_i n hn
      split at hr
      · simp at hr
      · split at hr
        · simp at hr
        · rename_i P' hP
          simp only [pure, Except.pure, Except.ok.injEq] at hr
          subst hr
          have i := defineOpt_inv ext env st.P P' n kind name dflt dstr mn mx mods h.prog hP
          exact ⟨i.1, fun hh p hp => by rw [i.2]; exact h.handles hh p hp⟩
  | cmd hd name desc =>
    simp only [buildStep, bind, Except.bind] at hr
    split at hr
    · simp at hr
    · rename_i p hp
      split at hr
      · simp at hr
      · rename_i v hv
        obtain ⟨P1, id⟩ := v
        simp only [pure, Except.pure, Except.ok.injEq] at hr
        subst hr
        have e := addChildCommand_eq st.P P1 p id _ hv
        have hpl : p < st.P.nodes.length := h.handles hd p (handle_ok st hd p hp)
        have i1 : PInv P1 := by rw [e.1]; exact attach_pinv st.P p _ hpl rfl rfl h.prog
        have l1 : P1.nodes.length = st.P.nodes.length + 1 := by rw [e.1]; exact attach_length st.P p _
        have i2 := copyOpts_pinv P1.nodes.length P1 p i1
        refine ⟨i2.1, ?_⟩
        intro hh q hq
        simp only at hq ⊢
        rw [i2.2, l1]
        rw [List.getElem?_append] at hq
        split at hq
        · have := h.handles hh q hq; omega
        · have : id = q := by
            cases hx : [id][hh - st.handles.length]? with
            | none => simp [hx] at hq
            | some y =>
              rw [hx] at hq
              have := List.mem_of_getElem? hx
              simp at this; simp at hq; omega
          omega
  | help hd name mods =>
    simp only [buildStep, bind, Except.bind] at hr
    split at hr
    · simp at hr
    · rename_i n hn
      split at hr
      · simp at hr
      · rename_i P1 hP1
        split at hr
        · simp at hr
        · rename_i P3 hP3
          simp only [pure, Except.pure, Except.ok.injEq] at hr
          subst hr
          have hnl : n < st.P.nodes.length := h.handles hd n (handle_ok st hd n hn)
          have i1 := defineOpt_inv ext env st.P P1 n .bool name (.b false) [] 0 0 mods h.prog hP1
          have i2 := fold_helpName_inv name (subtree P1.nodes.length P1 n) P1 i1.1
          have hsub := subtree_bound P1.nodes.length _ n i2.1.tree (by rw [i2.2, i1.2]; exact hnl)
          have i3 := addHelpCmds_inv name _ _ P3 i2.1 hsub hP3
          have i4 := copyOpts_pinv P3.nodes.length P3 n i3.1
          refine ⟨i4.1, fun hh p hp => ?_⟩
          simp only at hp ⊢
          rw [i4.2]
          have := h.handles hh p hp
          have l2 := i2.2
          have l3 := i3.2
          omega
  | setFn hd f =>
    simp only [buildStep, bind, Except.bind] at hr
    split at hr
    · simp at hr
    · simp only [pure, Except.pure, Except.ok.injEq] at hr; subst hr
      exact binv_modNode st _ _ h (fun _ => rfl) (h.prog.keys _)
  | setMode hd m =>
    simp only [buildStep, bind, Except.bind] at hr
    split at hr
    · simp at hr
    · simp only [pure, Except.pure, Except.ok.injEq] at hr; subst hr
      exact binv_modNode st _ _ h (fun _ => rfl) (h.prog.keys _)
  | setUMode hd m =>
    simp only [buildStep, bind, Except.bind] at hr
    split at hr
    · simp at hr
    · simp only [pure, Except.pure, Except.ok.injEq] at hr; subst hr
      exact binv_modNode st _ _ h (fun _ => rfl) (h.prog.keys _)
  | setRO hd =>
    simp only [buildStep, bind, Except.bind] at hr
    split at hr
    · simp at hr
    · simp only [pure, Except.pure, Except.ok.injEq] at hr; subst hr
      exact binv_modNode st _ _ h (fun _ => rfl) (h.prog.keys _)
  | unset hd =>
    simp only [buildStep, bind, Except.bind] at hr
    split at hr
    · simp at hr
    · simp only [pure, Except.pure, Except.ok.injEq] at hr; subst hr
      exact binv_modNode st _ _ h (fun _ => rfl) (by simp)
  | mapKeys hd =>
    simp only [buildStep, bind, Except.bind] at hr
    split at hr
    · simp at hr
    · simp only [pure, Except.pure, Except.ok.injEq] at hr; subst hr
      exact binv_modNode st _ _ h (fun _ => rfl) (h.prog.keys _)
  | argComp hd l =>
    simp only [buildStep, bind, Except.bind] at hr
    split at hr
    · simp at hr
    · simp only [pure, Except.pure, Except.ok.injEq] at hr; subst hr
      exact binv_modNode st _ _ h (fun _ => rfl) (h.prog.keys _)
  | argCompFn hd f =>
    simp only [buildStep, bind, Except.bind] at hr
    split at hr
    · simp at hr
    · simp only [pure, Except.pure, Except.ok.injEq] at hr; subst hr
      exact binv_modNode st _ _ h (fun _ => rfl) (h.prog.keys _)
  | synArg hd a d =>
    simp only [buildStep, bind, Except.bind] at hr
    split at hr
    · simp at hr
    · simp only [pure, Except.pure, Except.ok.injEq] at hr; subst hr
      exact binv_modNode st _ _ h (fun _ => rfl) (h.prog.keys _)
  | self hd name desc =>
    simp only [buildStep, bind, Except.bind] at hr
    split at hr
    · simp at hr
    · simp only [pure, Except.pure, Except.ok.injEq] at hr; subst hr
      exact binv_modNode st _ _ h (fun _ => rfl) (h.prog.keys _)

theorem buildFrom_inv (ops : List DefOp) (st st' : BState) (h : BInvT st)
    (hr : buildFrom ext env st ops = .ok st') : BInvT st' := by
  induction ops generalizing st with
  | nil => simp only [buildFrom, Except.ok.injEq] at hr; subst hr; exact h
  | cons op r ih =>
    simp only [buildFrom, bind, Except.bind] at hr
    split at hr
    · simp at hr
    · rename_i s1 h1
      exact ih s1 (buildStep_inv ext env st s1 op h h1) hr

theorem emptyProg_inv (root : Str) : BInvT (emptyProg root) := by
  refine ⟨⟨⟨?_, ?_⟩, ?_⟩, ?_⟩
  · intro x c hc
    have : kids (emptyProg root).P x = [] := by
      unfold kids Prog.node emptyProg
      cases x <;> simp [dummyNode]
    rw [this] at hc; simp at hc
  · intro x c hc
    have : kids (emptyProg root).P x = [] := by
      unfold kids Prog.node emptyProg
      cases x <;> simp [dummyNode]
    rw [this] at hc; simp at hc
  · intro n
    unfold Prog.node emptyProg
    cases n <;> simp [dummyNode]
  · intro h p hp
    cases h with
    | zero => simp [emptyProg] at hp ⊢; omega
    | succ k => simp [emptyProg] at hp

/-- **every program built through the definition API satisfies the invariants** -/
theorem buildB_inv (root : Str) (script : List DefOp) (st : BState)
    (hr : buildB ext env root script = .ok st) : BInvT st :=
  buildFrom_inv ext env script (emptyProg root) st (emptyProg_inv root) hr

end GoModel

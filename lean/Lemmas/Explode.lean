import Model.Basic
/-! `explode` (strings.Split(s, "")): its pieces partition the string, are non-empty, and each piece
explodes to itself — for every byte string, valid UTF-8 or not. -/
namespace GoModel

theorem utf8Width_pos_ne (s : Str) (h : s ≠ []) : 0 < utf8Width s := by
  unfold utf8Width
  split
  · exact absurd rfl h
  · omega
  all_goals (repeat' split) <;> omega

theorem utf8Width_le_len (s : Str) : utf8Width s ≤ s.length := by
  unfold utf8Width
  split
  · simp
  · simp
  all_goals (repeat' split) <;> simp <;> omega

/-- the width only depends on the bytes it covers -/
theorem utf8Width_take (s : Str) : utf8Width (s.take (utf8Width s)) = utf8Width s := by
  match s with
  | [] => simp [utf8Width]
  | [_] => simp [utf8Width]
  | [c, c1] =>
    by_cases h : is2 c c1 = true <;> simp [utf8Width, h]
  | [c, c1, c2] =>
    by_cases h : is2 c c1 = true
    · simp [utf8Width, h]
    · by_cases h3 : is3 c c1 c2 = true <;> simp [utf8Width, h, h3]
  | c :: c1 :: c2 :: c3 :: r =>
    by_cases h : is2 c c1 = true
    · simp [utf8Width, h]
    · by_cases h3 : is3 c c1 c2 = true
      · simp [utf8Width, h, h3]
      · by_cases h4 : is4 c c1 c2 c3 = true <;> simp [utf8Width, h, h3, h4]

theorem explodeF_flatten (n : Nat) (s : Str) (h : s.length ≤ n) : (explodeF n s).flatten = s := by
  induction n generalizing s with
  | zero => have : s = [] := List.eq_nil_of_length_eq_zero (by omega); subst this; simp [explodeF]
  | succ n ih =>
    cases s with
    | nil => simp [explodeF]
    | cons c r =>
      simp only [explodeF, List.flatten_cons]
      have hp := utf8Width_pos_ne (c :: r) (by simp)
      have hlen : ((c :: r).drop (utf8Width (c :: r))).length ≤ n := by
        rw [List.length_drop]; simp only [List.length_cons] at h ⊢; omega
      rw [ih _ hlen]
      exact List.take_append_drop _ _

/-- the pieces, concatenated, give the string back -/
theorem explode_flatten (s : Str) : (explode s).flatten = s := explodeF_flatten _ s (Nat.le_refl _)

/-- every piece is a non-empty string whose width is its length -/
theorem explodeF_piece (n : Nat) (s l : Str) (h : l ∈ explodeF n s) :
    l ≠ [] ∧ utf8Width l = l.length := by
  induction n generalizing s with
  | zero => simp [explodeF] at h
  | succ n ih =>
    cases s with
    | nil => simp [explodeF] at h
    | cons c r =>
      simp only [explodeF, List.mem_cons] at h
      rcases h with h | h
      · subst h
        have hp := utf8Width_pos_ne (c :: r) (by simp)
        have hl := utf8Width_le_len (c :: r)
        refine ⟨?_, ?_⟩
        · intro e
          have := congrArg List.length e
          simp only [List.length_take, List.length_nil] at this
          omega
        · rw [utf8Width_take, List.length_take]; omega
      · exact ih _ h

theorem explode_piece (s l : Str) (h : l ∈ explode s) : l ≠ [] ∧ utf8Width l = l.length :=
  explodeF_piece _ s l h

/-- a string that is one character wide explodes to itself -/
theorem explode_single (l : Str) (hne : l ≠ []) (hw : utf8Width l = l.length) : explode l = [l] := by
  cases l with
  | nil => exact absurd rfl hne
  | cons c r =>
    unfold explode
    simp only [List.length_cons, explodeF]
    rw [hw, List.take_length, List.drop_length]
    cases r.length <;> simp [explodeF]

/-- every piece of a bundle is a single letter: exploding it again gives the piece itself -/
theorem explode_idem (s l : Str) (h : l ∈ explode s) : explode l = [l] :=
  explode_single l (explode_piece s l h).1 (explode_piece s l h).2

theorem explode_ne_nil (s : Str) (h : s ≠ []) : explode s ≠ [] := by
  cases s with
  | nil => exact absurd rfl h
  | cons c r => simp [explode, explodeF]

theorem explode_mem_sub (s l : Str) (h : l ∈ explode s) : ∀ c ∈ l, c ∈ s := by
  intro c hc
  rw [← explode_flatten s]
  exact List.mem_flatten.mpr ⟨l, h, hc⟩

end GoModel

import Lemmas.Sched
import Lemmas.Dfs
/-! On an acyclic well-formed graph the fuel-bounded ancestor computation is closed under parents. -/
namespace GoModel.Dag

theorem nodup_split_unique {α} (l1 l2 c1 c2 : List α) (v : α) (hn : (l1 ++ v :: l2).Nodup)
    (he : l1 ++ v :: l2 = c1 ++ v :: c2) : l1 = c1 ∧ l2 = c2 := by
  induction l1 generalizing c1 with
  | nil =>
    cases c1 with
    | nil => simp at he; exact ⟨rfl, he⟩
    | cons a c1' =>
      simp only [List.nil_append, List.cons_append, List.cons.injEq] at he
      obtain ⟨rfl, h2⟩ := he
      simp only [List.nil_append, List.nodup_cons] at hn
      exact absurd (by rw [h2]; simp) hn.1
  | cons a l1' ih =>
    cases c1 with
    | nil =>
      simp only [List.cons_append, List.nil_append, List.cons.injEq] at he
      obtain ⟨rfl, h2⟩ := he
      simp only [List.cons_append, List.nodup_cons] at hn
      exact absurd (by simp) hn.1
    | cons a' c1' =>
      simp only [List.cons_append, List.cons.injEq] at he
      obtain ⟨rfl, h2⟩ := he
      simp only [List.cons_append, List.nodup_cons] at hn
      have := ih c1' hn.2 h2
      exact ⟨by rw [this.1], this.2⟩

theorem mem_ancestors_succ (g : GState) (f v x : Nat) :
    x ∈ ancestors g (f + 1) v ↔ ∃ p ∈ g.parents v, x = p ∨ x ∈ ancestors g f p := by
  simp [ancestors, List.mem_flatMap]

/-- one more unit of fuel reaches the parents of everything reached so far -/
theorem ancestors_parent (g : GState) (f : Nat) : ∀ v x q, x ∈ ancestors g f v → q ∈ g.parents x →
    q ∈ ancestors g (f + 1) v := by
  induction f with
  | zero => intro v x q hx; simp [ancestors] at hx
  | succ f ih =>
    intro v x q hx hq
    rw [mem_ancestors_succ] at hx
    obtain ⟨p, hp, hx⟩ := hx
    rw [mem_ancestors_succ]
    refine ⟨p, hp, Or.inr ?_⟩
    rcases hx with rfl | hx
    · rw [mem_ancestors_succ]; exact ⟨q, hq, Or.inl rfl⟩
    · exact ih p x q hx hq

/-- with a children-first order `l` of all vertices, `m` units of fuel suffice for a vertex that has
at most `m` vertices behind it -/
theorem ancestors_saturate (g : GState) (l : List Nat) (hn : l.Nodup) (ht : Topo g.children l)
    (hreg : ∀ v p, p ∈ g.parents v → p ∈ l) (hsym : ∀ a ch, ch ∈ g.children a ↔ a ∈ g.parents ch) (m : Nat) :
    ∀ v l1 l2, l = l1 ++ v :: l2 → l2.length ≤ m → ∀ f x, x ∈ ancestors g f v → x ∈ ancestors g m v := by
  induction m with
  | zero =>
    intro v l1 l2 hl hlen f x hx
    have hl2 : l2 = [] := by cases l2 <;> simp_all
    cases f with
    | zero => simp [ancestors] at hx
    | succ f =>
      rw [mem_ancestors_succ] at hx
      obtain ⟨p, hp, _⟩ := hx
      -- p is a parent of v, hence behind v in l — but nothing is behind v
      obtain ⟨m1, m2, hm⟩ := List.append_of_mem (hreg v p hp)
      have hv : v ∈ m1 := ht m1 p m2 hm v ((hsym p v).mpr hp)
      obtain ⟨c1, c2, hc⟩ := List.append_of_mem hv
      have heq : l1 ++ v :: l2 = c1 ++ v :: (c2 ++ p :: m2) := by rw [← hl, hm, hc]; simp
      have := (nodup_split_unique l1 l2 c1 (c2 ++ p :: m2) v (hl ▸ hn) heq).2
      rw [hl2] at this; simp at this
  | succ m ih =>
    intro v l1 l2 hl hlen f x hx
    cases f with
    | zero => simp [ancestors] at hx
    | succ f =>
      rw [mem_ancestors_succ] at hx
      obtain ⟨p, hp, hx⟩ := hx
      rw [mem_ancestors_succ]
      refine ⟨p, hp, ?_⟩
      rcases hx with rfl | hx
      · exact Or.inl rfl
      · right
        obtain ⟨m1, m2, hm⟩ := List.append_of_mem (hreg v p hp)
        have hv : v ∈ m1 := ht m1 p m2 hm v ((hsym p v).mpr hp)
        obtain ⟨c1, c2, hc⟩ := List.append_of_mem hv
        have heq : l1 ++ v :: l2 = c1 ++ v :: (c2 ++ p :: m2) := by rw [← hl, hm, hc]; simp
        have h2 := (nodup_split_unique l1 l2 c1 (c2 ++ p :: m2) v (hl ▸ hn) heq).2
        have hlen2 : m2.length ≤ m := by rw [h2] at hlen; simp at hlen; omega
        exact ih p m1 m2 hm hlen2 f x hx

/-- **The ancestor marking is closed**: on a well-formed graph that passed the cycle check. -/
theorem ancOK_of_dfs (c : Cfg) (hg : GInv c.g) (l : List Nat) (hd : dfs c.g = .ok l) : AncOK c := by
  have ⟨hn, ht, hall⟩ := dfsFrom_sound c.g c.g.ids l hd
  have hreg : ∀ v p, p ∈ c.g.parents v → p ∈ l := fun v p hp =>
    hall p ((has_iff_mem_ids c.g p).mp (hg.pars v p hp))
  refine ⟨?_, ?_, hg.sym⟩
  · intro v p hp
    unfold anc
    rw [mem_ancestors_succ]; exact ⟨p, hp, Or.inl rfl⟩
  · intro v x q hx hq
    unfold anc at hx ⊢
    have hstep := ancestors_parent c.g _ v x q hx hq
    -- v has a parent chain, so v is registered and sits somewhere in l
    have hvl : v ∈ l := by
      rw [mem_ancestors_succ] at hx
      obtain ⟨p, hp, _⟩ := hx
      have : v ∈ c.g.children p := (hg.sym p v).mpr hp
      exact hall v ((has_iff_mem_ids c.g v).mp (hg.kids p v this))
    obtain ⟨l1, l2, hl⟩ := List.append_of_mem hvl
    -- the order has at most |V| elements: it is duplicate free and consists of registered vertices
    have hsub : ∀ x ∈ l, x ∈ c.g.ids := by
      unfold dfs dfsFrom at hd
      cases hl' : dfsLoop c.g.children (c.g.verts.length + 1) c.g.ids {} with
      | error e => rw [hl'] at hd; simp [Except.map] at hd
      | ok st =>
        rw [hl'] at hd
        simp only [Except.map, Except.ok.injEq] at hd
        subst hd
        exact dfsLoop_sorted_reg c.g.children (fun x => x ∈ c.g.ids)
          (fun a _ ch hch => (has_iff_mem_ids c.g ch).mp (hg.kids a ch hch)) _ c.g.ids (fun v hv => hv) {} st
          (by simp) hl'
    have hlen : l.length ≤ c.g.verts.length := by
      have := List.Nodup.length_le_of_subset hn hsub
      simpa [GState.ids] using this
    have hl2 : l2.length ≤ c.g.verts.length + 1 := by
      have : l.length = l1.length + (l2.length + 1) := by rw [hl]; simp
      omega
    exact ancestors_saturate c.g l hn ht hreg hg.sym _ v l1 l2 hl hl2 _ q hstep

end GoModel.Dag

import Lemmas.Parse
/-! Observational equality of parse states (everything but the bookkeeping of the verbatim token) and
the processing of known pairs. -/
namespace GoModel

variable (ext : Ext) (mode : Mode)

/-- equal in everything a user can observe: option store, selected command, context, remaining list,
unknown-option log, error, completion list -/
structure ObsEq (s s' : PState) : Prop where
  P : s.P = s'.P
  cur : s.cur = s'.cur
  ctx : s.ctx = s'.ctx
  rem : s.rem = s'.rem
  unk : s.unk = s'.unk
  err : s.err = s'.err
  ts : s.textStart = s'.textStart
  comps : s.comps = s'.comps

theorem ObsEq.refl (s : PState) : ObsEq s s := ⟨rfl, rfl, rfl, rfl, rfl, rfl, rfl, rfl⟩
theorem ObsEq.symm {s s' : PState} (h : ObsEq s s') : ObsEq s' s :=
  ⟨h.P.symm, h.cur.symm, h.ctx.symm, h.rem.symm, h.unk.symm, h.err.symm, h.ts.symm, h.comps.symm⟩
theorem ObsEq.trans {a c d : PState} (h1 : ObsEq a c) (h2 : ObsEq c d) : ObsEq a d :=
  ⟨h1.P.trans h2.P, h1.cur.trans h2.cur, h1.ctx.trans h2.ctx, h1.rem.trans h2.rem, h1.unk.trans h2.unk,
   h1.err.trans h2.err, h1.ts.trans h2.ts, h1.comps.trans h2.comps⟩

theorem ObsEq.withPending {a c : PState} (h : ObsEq a c) (x y : List Pair) :
    ObsEq { a with pending := x } { c with pending := y } := ⟨h.P, h.cur, h.ctx, h.rem, h.unk, h.err, h.ts, h.comps⟩

theorem drain_cons_idle (s : PState) (p : Pair) (ps : List Pair)
    (he : (procPair ext { s with pending := ps } p).err = none)
    (hc : (procPair ext { s with pending := ps } p).ctx = .idle) :
    drain ext s (p :: ps) = drain ext (procPair ext { s with pending := ps } p) ps := by
  rw [drain]; simp [he, hc]

theorem drain_cons_err (s : PState) (p : Pair) (ps : List Pair)
    (he : (procPair ext { s with pending := ps } p).err.isSome = true) :
    drain ext s (p :: ps) = procPair ext { s with pending := ps } p := by
  rw [drain]; simp [he]

theorem drain_cons_coll (s : PState) (p : Pair) (ps : List Pair) (o i : Nat)
    (he : (procPair ext { s with pending := ps } p).err = none)
    (hc : (procPair ext { s with pending := ps } p).ctx = .collecting o i) :
    drain ext s (p :: ps) = { procPair ext { s with pending := ps } p with pending := ps } := by
  rw [drain]; simp [he, hc]

theorem drain_cons_other (s : PState) (p : Pair) (ps : List Pair)
    (he : (procPair ext { s with pending := ps } p).err = none)
    (hc : (procPair ext { s with pending := ps } p).ctx = .stopped ∨ (procPair ext { s with pending := ps } p).ctx = .done) :
    drain ext s (p :: ps) = { procPair ext { s with pending := ps } p with pending := [] } := by
  rw [drain]; rcases hc with hc | hc <;> simp [he, hc]

/-- the pair resolves to an option of the current level -/
def Known (s : PState) (p : Pair) : Prop := ∃ key, resolve (s.P.node s.cur) p.opt = [key]

theorem known_congr {s s' : PState} {p : Pair} (h : ObsEq s s') (hk : Known s p) : Known s' p := by
  obtain ⟨key, hr⟩ := hk
  exact ⟨key, by rw [← h.P, ← h.cur]; exact hr⟩

/-- a known pair is processed identically in observationally equal states -/
theorem procPair_known_obs (s s' : PState) (p : Pair) (h : ObsEq s s') (hk : Known s p) :
    ObsEq (procPair ext s p) (procPair ext s' p) := by
  obtain ⟨key, hr⟩ := hk
  have hr' : resolve (s'.P.node s'.cur) p.opt = [key] := by rw [← h.P, ← h.cur]; exact hr
  cases hl : lookup key (s.P.node s.cur).opts with
  | none =>
    have hl' : lookup key (s'.P.node s'.cur).opts = none := by rw [← h.P, ← h.cur]; exact hl
    rw [procPair_known_nolookup ext s p key hr hl, procPair_known_nolookup ext s' p key hr' hl']
    exact h
  | some oid =>
    have hl' : lookup key (s'.P.node s'.cur).opts = some oid := by rw [← h.P, ← h.cur]; exact hl
    rw [procPair_known ext s p key oid hr hl, procPair_known ext s' p key oid hr' hl']
    have hm : matched s' oid key = matched s oid key := by simp [matched, h.P]
    rw [hm, ← h.P]
    cases save ext (s.P.node 0).mapKeysToLower (matched s oid key) p.args with
    | error e => exact ⟨by simp [h.P], h.cur, h.ctx, h.rem, h.unk, rfl, h.ts, h.comps⟩
    | ok o' =>
      simp only
      split
      · exact ⟨by simp [h.P], h.cur, rfl, h.rem, h.unk, h.err, h.ts, h.comps⟩
      · exact ⟨by simp [h.P], h.cur, h.ctx, h.rem, h.unk, h.err, h.ts, h.comps⟩

/-- knownness of a pair is not affected by processing another pair -/
theorem known_after (s : PState) (p q : Pair) (hq : Known s q) : Known (procPair ext s p) q := by
  obtain ⟨key, hr⟩ := hq
  have := procPair_cur_nodes ext s p
  exact ⟨key, by rw [this.1, this.2]; exact hr⟩

theorem drain_known_obs (ps : List Pair) (s s' : PState) (h : ObsEq s s') (hk : ∀ p ∈ ps, Known s p) :
    ObsEq (drain ext s ps) (drain ext s' ps) := by
  induction ps generalizing s s' with
  | nil => exact ⟨h.P, h.cur, h.ctx, h.rem, h.unk, h.err, h.ts, h.comps⟩
  | cons p ps ih =>
    have h0 : ObsEq { s with pending := ps } { s' with pending := ps } := h.withPending ps ps
    have hk0 : Known { s with pending := ps } p := hk p (by simp)
    have h1 := procPair_known_obs ext _ _ p h0 hk0
    have hkn : ∀ q ∈ ps, Known (procPair ext { s with pending := ps } p) q :=
      fun q hq => known_after ext { s with pending := ps } p q (hk q (by simp [hq]))
    cases he : (procPair ext { s with pending := ps } p).err with
    | some e =>
      rw [drain_cons_err ext s p ps (by rw [he]; rfl), drain_cons_err ext s' p ps (by rw [← h1.err, he]; rfl)]
      exact h1
    | none =>
      have he' : (procPair ext { s' with pending := ps } p).err = none := by rw [← h1.err]; exact he
      cases hc : (procPair ext { s with pending := ps } p).ctx with
      | idle =>
        have hc' := h1.ctx ▸ hc
        rw [drain_cons_idle ext s p ps he hc, drain_cons_idle ext s' p ps he' (by rw [← h1.ctx]; exact hc)]
        exact ih _ _ h1 hkn
      | collecting o i =>
        rw [drain_cons_coll ext s p ps o i he hc, drain_cons_coll ext s' p ps o i he' (by rw [← h1.ctx]; exact hc)]
        exact h1.withPending _ _
      | stopped =>
        rw [drain_cons_other ext s p ps he (Or.inl hc), drain_cons_other ext s' p ps he' (Or.inl (by rw [← h1.ctx]; exact hc))]
        exact h1.withPending _ _
      | done =>
        rw [drain_cons_other ext s p ps he (Or.inr hc), drain_cons_other ext s' p ps he' (Or.inr (by rw [← h1.ctx]; exact hc))]
        exact h1.withPending _ _

/-- a flag occurrence: resolves to an option that takes no argument, given bare -/
structure FlagPair (s : PState) (p : Pair) : Prop where
  bare : p.args = []
  known : ∃ key oid, resolve (s.P.node s.cur) p.opt = [key] ∧ lookup key (s.P.node s.cur).opts = some oid ∧
    oid < s.P.opts.length ∧ (s.P.opt oid).max ≤ 0

theorem save_nil_ok (lower : Bool) (o : Opt) : ∃ o', save ext lower o [] = .ok o' ∧ o'.max = o.max := by
  unfold save
  simp only
  split
  · exact ⟨_, rfl, rfl⟩
  · exact ⟨_, rfl, rfl⟩
  · exact ⟨_, rfl, rfl⟩

/-- a flag leaves the parser at a head position and raises no error -/
theorem procPair_flag (s : PState) (p : Pair) (hf : FlagPair s p) :
    (procPair ext s p).err = s.err ∧ (procPair ext s p).ctx = s.ctx := by
  obtain ⟨key, oid, hr, hl, _, hmax⟩ := hf.known
  obtain ⟨o', hs, hm⟩ := save_nil_ok ext (s.P.node 0).mapKeysToLower (matched s oid key)
  have hs' : save ext (s.P.node 0).mapKeysToLower (matched s oid key) p.args = .ok o' := by rw [hf.bare]; exact hs
  rw [procPair_known_ok ext s p key oid o' hr hl hs']
  have : ¬ ((p.args.length : Nat) : Int) < o'.max := by
    rw [hm, hf.bare]; simp [matched]; omega
  simp [this]

theorem opt_setOpt_max (P : Prog) (o o2 : Nat) (x : Opt) (hx : x.max = (P.opt o).max) :
    ((P.setOpt o x).opt o2).max = (P.opt o2).max := by
  by_cases h : o2 = o
  · subst h
    by_cases hl : o2 < P.opts.length
    · simp [Prog.setOpt, Prog.opt, List.getD, hl, hx]
    · have : P.opts.set o2 x = P.opts := by
        apply List.ext_getElem?
        intro i; rw [List.getElem?_set]; split
        · rename_i e; subst e; simp at hl; simp [List.getElem?_eq_none hl]
        · rfl
      simp [Prog.setOpt, Prog.opt, this]
  · simp [Prog.setOpt, Prog.opt, List.getD, List.getElem?_set_ne (Ne.symm h)]

theorem save_max (lower : Bool) (o o' : Opt) (args : List Str) (h : save ext lower o args = .ok o') : o'.max = o.max := by
  unfold save at h
  repeat' (split at h)
  all_goals first
    | (simp only [Except.ok.injEq] at h; subst h; rfl)
    | (simp at h; done)
    | (simp only [bind, Except.bind] at h
       split at h
       · simp at h
       · simp only [pure, Except.pure, Except.ok.injEq] at h; subst h; rfl)

/-- processing a pair never changes the `max` of any option, nor the number of options -/
theorem procPair_max (s : PState) (p : Pair) (o2 : Nat) :
    ((procPair ext s p).P.opt o2).max = (s.P.opt o2).max ∧ (procPair ext s p).P.opts.length = s.P.opts.length := by
  cases hr : resolve (s.P.node s.cur) p.opt with
  | nil =>
    cases hro : (s.P.node s.cur).requireOrder with
    | true => rw [procPair_unknown_ro ext s p hr hro]; exact ⟨rfl, rfl⟩
    | false => rw [procPair_unknown ext s p hr hro]; split <;> exact ⟨rfl, rfl⟩
  | cons k1 rest =>
    cases rest with
    | nil =>
      cases hl : lookup k1 (s.P.node s.cur).opts with
      | none => rw [procPair_known_nolookup ext s p k1 hr hl]; exact ⟨rfl, rfl⟩
      | some oid =>
        rw [procPair_known ext s p k1 oid hr hl]
        cases hs : save ext (s.P.node 0).mapKeysToLower (matched s oid k1) p.args with
        | error e => exact ⟨opt_setOpt_max _ _ _ _ (by simp [matched]), by simp [Prog.setOpt]⟩
        | ok o' =>
          have hm : o'.max = (s.P.opt oid).max := by rw [save_max ext _ _ _ _ hs]; simp [matched]
          simp only
          split <;> exact ⟨opt_setOpt_max _ _ _ _ hm, by simp [Prog.setOpt]⟩
    | cons k2 ks => rw [procPair_amb ext s p k1 k2 ks hr]; exact ⟨rfl, rfl⟩

theorem flag_after (s : PState) (p q : Pair) (hq : FlagPair s q) : FlagPair (procPair ext s p) q := by
  obtain ⟨key, oid, hr, hl, hlen, hmax⟩ := hq.known
  have hcn := procPair_cur_nodes ext s p
  have hmx := procPair_max ext s p oid
  exact ⟨hq.bare, key, oid, by rw [hcn.1, hcn.2]; exact hr, by rw [hcn.1, hcn.2]; exact hl,
    by rw [hmx.2]; exact hlen, by rw [hmx.1]; exact hmax⟩

theorem flag_congr {s s' : PState} {p : Pair} (h : ObsEq s s') (hf : FlagPair s p) : FlagPair s' p := by
  obtain ⟨key, oid, hr, hl, hlen, hmax⟩ := hf.known
  exact ⟨hf.bare, key, oid, by rw [← h.P, ← h.cur]; exact hr, by rw [← h.P, ← h.cur]; exact hl,
    by rw [← h.P]; exact hlen, by rw [← h.P]; exact hmax⟩

theorem FlagPair.toKnown {s : PState} {p : Pair} (h : FlagPair s p) : Known s p := by
  obtain ⟨key, _, hr, _⟩ := h.known; exact ⟨key, hr⟩

/-- **A run of flags followed by more pairs**: processing `ps ++ qs` in one go is observationally the
same as processing the flags `ps` first and then `qs`. -/
theorem drain_append_flags (ps qs : List Pair) (s : PState) (he : s.err = none) (hc : s.ctx = .idle)
    (hf : ∀ p ∈ ps, FlagPair s p) (hq : ∀ q ∈ qs, Known s q) :
    ObsEq (drain ext s (ps ++ qs)) (drain ext (drain ext s ps) qs) ∧
    (drain ext s ps).err = none ∧ (drain ext s ps).ctx = .idle ∧
    (∀ q ∈ qs, Known (drain ext s ps) q) := by
  induction ps generalizing s with
  | nil =>
    refine ⟨?_, by simpa [drain] using he, by simpa [drain] using hc, ?_⟩
    · simp only [List.nil_append, drain]
      exact drain_known_obs ext qs s { s with pending := [] } ⟨rfl, rfl, rfl, rfl, rfl, rfl, rfl, rfl⟩ hq
    · intro q hq'; obtain ⟨key, hr⟩ := hq q hq'; exact ⟨key, by simpa [drain] using hr⟩
  | cons p ps ih =>
    have hfp : FlagPair { s with pending := ps ++ qs } p := by
      have := hf p (by simp); exact ⟨this.bare, this.known⟩
    have hfp' : FlagPair { s with pending := ps } p := by
      have := hf p (by simp); exact ⟨this.bare, this.known⟩
    have e1 := procPair_flag ext { s with pending := ps ++ qs } p hfp
    have e2 := procPair_flag ext { s with pending := ps } p hfp'
    have hobs : ObsEq (procPair ext { s with pending := ps ++ qs } p) (procPair ext { s with pending := ps } p) :=
      procPair_known_obs ext _ _ p ⟨rfl, rfl, rfl, rfl, rfl, rfl, rfl, rfl⟩ hfp.toKnown
    -- unfold both drains one step
    have hd1 : drain ext s (p :: ps ++ qs) = drain ext (procPair ext { s with pending := ps ++ qs } p) (ps ++ qs) :=
      drain_cons_idle ext s p (ps ++ qs) (by rw [e1.1]; exact he) (by rw [e1.2]; exact hc)
    have hd2 : drain ext s (p :: ps) = drain ext (procPair ext { s with pending := ps } p) ps :=
      drain_cons_idle ext s p ps (by rw [e2.1]; exact he) (by rw [e2.2]; exact hc)
    rw [hd1, hd2]
    have he' : (procPair ext { s with pending := ps } p).err = none := by rw [e2.1]; exact he
    have hc' : (procPair ext { s with pending := ps } p).ctx = .idle := by rw [e2.2]; exact hc
    have hf' : ∀ r ∈ ps, FlagPair (procPair ext { s with pending := ps } p) r := fun r hr =>
      flag_after ext _ p r (by have := hf r (by simp [hr]); exact ⟨this.bare, this.known⟩)
    have hq' : ∀ q ∈ qs, Known (procPair ext { s with pending := ps } p) q := fun q hq' =>
      known_after ext _ p q (by obtain ⟨key, hr⟩ := hq q hq'; exact ⟨key, hr⟩)
    have ih' := ih (procPair ext { s with pending := ps } p) he' hc' hf' hq'
    refine ⟨?_, ih'.2⟩
    have hall : ∀ r ∈ ps ++ qs, Known (procPair ext { s with pending := ps ++ qs } p) r := by
      intro r hr
      rcases List.mem_append.mp hr with h1 | h1
      · exact known_congr hobs.symm (hf' r h1).toKnown
      · exact known_congr hobs.symm (hq' r h1)
    exact (drain_known_obs ext (ps ++ qs) _ _ hobs hall).trans ih'.1

end GoModel

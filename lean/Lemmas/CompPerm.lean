import Lemmas.PermEquiv
import Props.C17
/-! The completion list does not depend on the iteration order of the tables. -/
namespace GoModel

variable (ext : Ext)

/-- the entry sets `lastOpt` -/
def hitKey (part : Str) (kv : Str × Nat) : Bool :=
  !(kv.1 == [chDash]) && (hasPrefix kv.1 part || (containsByte part chEq && hasPrefix part (kv.1 ++ [chEq])))

def lastHit (part : Str) (l : List (Str × Nat)) (a : Option Nat) : Option Nat :=
  l.foldl (fun a kv => if hitKey part kv then some kv.2 else a) a

theorem optCandStep_snd (target : Str) (P : Prog) (w part : Str) (acc : List Str × Option Nat) (kv : Str × Nat) :
    (optCandStep ext target P w part acc kv).2 = if hitKey part kv then some kv.2 else acc.2 := by
  obtain ⟨k, oid⟩ := kv
  unfold optCandStep hitKey
  simp only
  by_cases hk : (k == [chDash]) = true
  · simp only [hk, ↓reduceIte, Bool.not_true, Bool.false_and, Bool.false_eq_true]
    split <;> rfl
  · simp only [hk, Bool.false_eq_true, ↓reduceIte, Bool.not_false, Bool.true_and]
    by_cases h1 : hasPrefix k part = true
    · by_cases h2 : (containsByte part chEq && hasPrefix part (k ++ [chEq])) = true
      · simp [h1, h2]
      · simp [h1, h2]
    · by_cases h2 : (containsByte part chEq && hasPrefix part (k ++ [chEq])) = true
      · simp [h1, h2]
      · simp [h1, h2]

theorem optCand_snd (target : Str) (P : Prog) (w part : Str) (l : List (Str × Nat)) (acc : List Str × Option Nat) :
    (l.foldl (optCandStep ext target P w part) acc).2 = lastHit part l acc.2 := by
  induction l generalizing acc with
  | nil => rfl
  | cons kv l ih =>
    simp only [List.foldl_cons, lastHit]
    rw [ih, optCandStep_snd]
    rfl

theorem lastHit_filter (part : Str) (l : List (Str × Nat)) (a : Option Nat) :
    lastHit part l a = lastHit part (l.filter (hitKey part)) a := by
  induction l generalizing a with
  | nil => rfl
  | cons kv l ih =>
    by_cases h : hitKey part kv = true
    · simp only [lastHit, List.foldl_cons, h, ↓reduceIte, List.filter_cons_of_pos]
      exact ih _
    · have h' : hitKey part kv = false := by simpa using h
      simp only [lastHit, List.foldl_cons, h', Bool.false_eq_true, ↓reduceIte,
        List.filter_cons_of_neg (by simpa using h')]
      exact ih _

theorem perm_eq_of_length_le_one {α} (l l' : List α) (hp : l.Perm l') (h : l.length ≤ 1) : l = l' := by
  match l, h with
  | [], _ => exact hp.symm.eq_nil.symm ▸ rfl
  | [a], _ => exact (hp.symm.eq_singleton).symm

theorem lastHit_perm (part : Str) (l l' : List (Str × Nat)) (a : Option Nat) (hp : l.Perm l')
    (h : (l.filter (hitKey part)).length ≤ 1) : lastHit part l a = lastHit part l' a := by
  rw [lastHit_filter part l, lastHit_filter part l', perm_eq_of_length_le_one _ _ (hp.filter _) h]

theorem hasPrefix_mem (k part : Str) (h : hasPrefix k part = true) : ∀ c ∈ part, c ∈ k := by
  induction part generalizing k with
  | nil => intro c hc; simp at hc
  | cons d p ih =>
    cases k with
    | nil => simp [hasPrefix] at h
    | cons c s =>
      simp only [hasPrefix, Bool.and_eq_true, beq_iff_eq] at h
      intro x hx
      simp only [List.mem_cons] at hx ⊢
      rcases hx with hx | hx
      · left; rw [hx, h.1]
      · right; exact ih s h.2 x hx

theorem containsByte_iff (s : Str) (c : UInt8) : containsByte s c = true ↔ c ∈ s := by
  unfold containsByte
  rw [List.any_eq_true]
  constructor
  · rintro ⟨x, hx, he⟩; rw [← (by simpa using he : x = c)]; exact hx
  · intro h; exact ⟨c, h, by simp⟩

/-- a key without `=` that, followed by `=`, is a prefix of `part` is the text of `part` before its first `=` -/
theorem key_of_prefix (k part : Str) (hk : containsByte k chEq = false) (h : hasPrefix part (k ++ [chEq]) = true) :
    k = part.takeWhile (· != chEq) := by
  induction k generalizing part with
  | nil =>
    cases part with
    | nil => simp [hasPrefix] at h
    | cons d p =>
      simp only [List.nil_append, hasPrefix, Bool.and_eq_true, beq_iff_eq] at h
      simp [List.takeWhile, h.1]
  | cons c s ih =>
    cases part with
    | nil => simp [hasPrefix] at h
    | cons d p =>
      simp only [List.cons_append, hasPrefix, Bool.and_eq_true, beq_iff_eq] at h
      have hc : ¬ c = chEq := by
        intro e
        have : containsByte (c :: s) chEq = true := by rw [containsByte_iff]; simp [e]
        rw [this] at hk; cases hk
      have hs : containsByte s chEq = false := by
        cases hx : containsByte s chEq with
        | false => rfl
        | true =>
          have : containsByte (c :: s) chEq = true := by
            rw [containsByte_iff] at hx ⊢; simp [hx]
          rw [this] at hk; cases hk
      obtain ⟨hd, hp⟩ := h
      subst hd
      have : (d != chEq) = true := by simpa using hc
      simp only [List.takeWhile, this]
      rw [← ih p hs hp]

/-- no key of the table contains `=` -/
def KeysNoEq (nd : Node) : Prop := ∀ kv ∈ nd.opts, containsByte kv.1 chEq = false

theorem length_le_one_of_same_key (l : List (Str × Nat)) (k : Str) (hnd : (l.map (·.1)).Nodup)
    (h : ∀ kv ∈ l, kv.1 = k) : l.length ≤ 1 := by
  match l with
  | [] => simp
  | [_] => simp
  | a :: c :: r =>
    exfalso
    simp only [List.map_cons, List.nodup_cons, List.mem_cons, not_or] at hnd
    exact hnd.1.1 ((h a (by simp)).trans (h c (by simp)).symm)

/-- with `=` in the typed text at most one entry sets `lastOpt` -/
theorem hits_le_one_eq (part : Str) (nd : Node) (hpe : containsByte part chEq = true) (hk : KeysNoEq nd)
    (hnd : (nd.opts.map (·.1)).Nodup) : (nd.opts.filter (hitKey part)).length ≤ 1 := by
  apply length_le_one_of_same_key _ (part.takeWhile (· != chEq))
  · exact List.Nodup.sublist (List.Sublist.map _ List.filter_sublist) hnd
  · intro kv hkv
    have hm := List.mem_filter.mp hkv
    have hne := hk kv hm.1
    have hh := hm.2
    unfold hitKey at hh
    simp only [Bool.and_eq_true, Bool.not_eq_true', Bool.or_eq_true] at hh
    rcases hh.2 with h1 | h2
    · exfalso
      have : chEq ∈ kv.1 := hasPrefix_mem kv.1 part h1 chEq ((containsByte_iff _ _).mp hpe)
      rw [← containsByte_iff, hne] at this; cases this
    · exact key_of_prefix kv.1 part hne h2.2

/-- without `=` in the typed text every entry that sets `lastOpt` also contributes a candidate -/
theorem cands_ge_hits (target : Str) (P : Prog) (w part : Str) (l : List (Str × Nat))
    (hpe : containsByte part chEq = false) :
    (l.filter (hitKey part)).length ≤ (l.flatMap (candsOfKey ext target P w part)).length := by
  induction l with
  | nil => simp
  | cons kv l ih =>
    simp only [List.flatMap_cons, List.length_append]
    by_cases h : hitKey part kv = true
    · rw [List.filter_cons_of_pos h]
      simp only [List.length_cons]
      have : 1 ≤ (candsOfKey ext target P w part kv).length := by
        unfold hitKey at h
        simp only [hpe, Bool.false_and, Bool.or_false, Bool.and_eq_true, Bool.not_eq_true'] at h
        unfold candsOfKey
        simp only [h.1, Bool.false_eq_true, ↓reduceIte, h.2, hpe, Bool.false_and, List.append_nil]
        simp
      omega
    · rw [List.filter_cons_of_neg h]; omega

/-- the single-candidate hint of the option completion -/
def finishOpt (P : Prog) (cs : List Str) (last : Option Nat) : List Str :=
  match cs, last with
  | [c], some oid =>
    if hasSuffix c [chEq] then
      let o := P.opt oid
      let extra :=
        if !o.suggested.isEmpty then o.suggested.map fun e => c ++ e
        else [c ++ (if o.helpArgName.isEmpty then b "<value>" else b "<" ++ o.helpArgName ++ b ">")]
      sortStrs (cs ++ extra)
    else cs
  | _, _ => cs

theorem optionCompletions_eq (target : Str) (P : Prog) (nd : Node) (w : Str) :
    optionCompletions ext target P nd w =
      finishOpt P (sortStrs (nd.opts.foldl (optCandStep ext target P w (trimDash (trimDash w))) ([], none)).1)
        (nd.opts.foldl (optCandStep ext target P w (trimDash (trimDash w))) ([], none)).2 := rfl

theorem finishOpt_two (P : Prog) (cs : List Str) (last : Option Nat) (h : 2 ≤ cs.length) : finishOpt P cs last = cs := by
  match cs, h with
  | _ :: _ :: _, _ => rfl

/-- **The option candidates do not depend on the iteration order of the table.** -/
theorem optionCompletions_perm (target : Str) (P : Prog) (nd nd' : Node) (w : Str)
    (hp : nd.opts.Perm nd'.opts) (hnd : (nd.opts.map (·.1)).Nodup) (hk : KeysNoEq nd) :
    optionCompletions ext target P nd w = optionCompletions ext target P nd' w := by
  rw [optionCompletions_eq, optionCompletions_eq, optCand_fst, optCand_fst, optCand_snd, optCand_snd]
  simp only [List.nil_append]
  have hcs : sortStrs (nd.opts.flatMap (candsOfKey ext target P w (trimDash (trimDash w)))) =
      sortStrs (nd'.opts.flatMap (candsOfKey ext target P w (trimDash (trimDash w)))) :=
    sortStrs_perm_eq _ _ (hp.flatMap_right _)
  rw [← hcs]
  by_cases hle : (nd.opts.filter (hitKey (trimDash (trimDash w)))).length ≤ 1
  · rw [lastHit_perm _ _ _ none hp hle]
  · have hpe : containsByte (trimDash (trimDash w)) chEq = false := by
      cases hx : containsByte (trimDash (trimDash w)) chEq with
      | false => rfl
      | true => exact absurd (hits_le_one_eq _ nd hx hk hnd) hle
    have h2 : 2 ≤ (sortStrs (nd.opts.flatMap (candsOfKey ext target P w (trimDash (trimDash w))))).length := by
      rw [(sortStrs_perm _).length_eq]
      have := cands_ge_hits ext target P w (trimDash (trimDash w)) nd.opts hpe
      omega
    rw [finishOpt_two P _ _ h2, finishOpt_two P _ _ h2]

theorem argCompletions_perm (target : Str) (nd nd' : Node) (text : List Str) (w : Str)
    (hp : nd.cmds.Perm nd'.cmds) (hs : nd'.suggestions = nd.suggestions) (hf : nd'.suggestFns = nd.suggestFns) :
    argCompletions ext target nd text w = argCompletions ext target nd' text w := by
  unfold argCompletions
  simp only
  rw [hs, hf]
  have : sortStrs ((nd.cmds.filter fun kv => hasPrefix kv.1 w).map (·.1) ++ nd.suggestions.filter (fun e => hasPrefix e w) ++
        nd.suggestFns.flatMap fun f => ext.argFn f target text w) =
      sortStrs ((nd'.cmds.filter fun kv => hasPrefix kv.1 w).map (·.1) ++ nd.suggestions.filter (fun e => hasPrefix e w) ++
        nd.suggestFns.flatMap fun f => ext.argFn f target text w) := by
    apply sortStrs_perm_eq
    exact ((((hp.filter _).map _).append_right _).append_right _)
  rw [this]

/-- **The completion list of a level does not depend on the iteration order of its tables.** -/
theorem completionsAt_perm (target : Str) (P : Prog) (nd nd' : Node) (text : List Str) (w : Str)
    (h : NodePerm nd nd') (hk : KeysNoEq nd) :
    completionsAt ext target P nd text w = completionsAt ext target P nd' text w := by
  unfold completionsAt
  split
  · exact optionCompletions_perm ext target P nd nd' w h.opts h.ndO hk
  · exact argCompletions_perm ext target nd nd' text w h.cmds
      (congrArg Node.suggestions h.rest).symm (congrArg Node.suggestFns h.rest).symm

end GoModel

import Model.Parse
/-!
# `CalledAs` is write-only: the spelling an option was given by influences nothing but `CalledAs` and the
alias quoted in error messages

`AEq s s'`: the two parse states agree on everything except the `usedAlias` field of the option records and the
alias quoted inside a pending error.  Every function of the argument loop maps `AEq` states to `AEq` states.
-/
namespace GoModel

def Opt.noAlias (o : Opt) : Opt := { o with usedAlias := [] }

def PErr.noAlias : PErr → PErr
  | .convInt _ t => .convInt [] t
  | .convFloat _ t => .convFloat [] t
  | .notKeyValue _ => .notKeyValue []
  | .missingArg _ => .missingArg []
  | .dashArg _ => .dashArg []
  | e => e

theorem Opt.eq_of_noAlias {a c : Opt} (h : a.noAlias = c.noAlias) : c = { a with usedAlias := c.usedAlias } := by
  cases a; cases c; simp_all [Opt.noAlias]

theorem Opt.noAlias_with (a : Opt) (u : Str) : ({ a with usedAlias := u } : Opt).noAlias = a.noAlias := rfl

/-- results of `Save` on two records that differ in the alias only -/
def SaveRel : Except PErr Opt → Except PErr Opt → Prop
  | .ok a, .ok c => a.noAlias = c.noAlias
  | .error e, .error e' => e.noAlias = e'.noAlias
  | _, _ => False

def ErrRel {α} : Except PErr α → Except PErr α → Prop
  | .ok a, .ok c => a = c
  | .error e, .error e' => e.noAlias = e'.noAlias
  | _, _ => False

theorem convIntArg_rel (u u' e : Str) : ErrRel (convIntArg u e) (convIntArg u' e) := by
  unfold convIntArg
  split
  · split
    · split <;> simp [ErrRel, PErr.noAlias]
    · simp [ErrRel, PErr.noAlias]
  · split <;> simp [ErrRel, PErr.noAlias]

theorem convIntArgs_rel (u u' : Str) (l : List Str) : ErrRel (convIntArgs u l) (convIntArgs u' l) := by
  induction l with
  | nil => simp [convIntArgs, ErrRel]
  | cons e r ih =>
    simp only [convIntArgs]
    have h1 := convIntArg_rel u u' e
    cases ha : convIntArg u e <;> cases hb : convIntArg u' e <;> rw [ha, hb] at h1 <;> simp only [ErrRel] at h1
    · simpa [bind, Except.bind, ErrRel] using h1
    · subst h1
      cases hc : convIntArgs u r <;> cases hd : convIntArgs u' r <;> rw [hc, hd] at ih <;> simp only [ErrRel] at ih
      · simpa [bind, Except.bind, ErrRel, pure, Except.pure] using ih
      · subst ih; simp [bind, Except.bind, ErrRel, pure, Except.pure]

theorem convFloatArgs_rel (ext : Ext) (u u' : Str) (l : List Str) :
    ErrRel (convFloatArgs ext u l) (convFloatArgs ext u' l) := by
  induction l with
  | nil => simp [convFloatArgs, ErrRel]
  | cons e r ih =>
    simp only [convFloatArgs]
    split
    · cases hc : convFloatArgs ext u r <;> cases hd : convFloatArgs ext u' r <;> rw [hc, hd] at ih <;>
        simp only [ErrRel] at ih
      · simpa [bind, Except.bind, ErrRel, pure, Except.pure] using ih
      · subst ih; simp [bind, Except.bind, ErrRel, pure, Except.pure]
    · simp [ErrRel, PErr.noAlias]

theorem saveMapArgs_rel (ext : Ext) (lower : Bool) (u u' : Str) (l : List Str) (m : List (Str × Str)) :
    ErrRel (saveMapArgs ext lower u m l) (saveMapArgs ext lower u' m l) := by
  induction l generalizing m with
  | nil => simp [saveMapArgs, ErrRel]
  | cons e r ih =>
    simp only [saveMapArgs]
    split
    · exact ih _
    · simp [ErrRel, PErr.noAlias]


theorem bind_rel {α} (x y : Except PErr α) (f g : α → Opt) (h : ErrRel x y)
    (hfg : ∀ v, (f v).noAlias = (g v).noAlias) :
    SaveRel (x >>= fun v => pure (f v)) (y >>= fun v => pure (g v)) := by
  cases x <;> cases y <;> simp only [ErrRel] at h
  · simpa [bind, Except.bind, SaveRel] using h
  · subst h; simpa [bind, Except.bind, SaveRel, pure, Except.pure] using hfg _

theorem save_rel (ext : Ext) (lower : Bool) (a : Opt) (u : Str) (args : List Str) :
    SaveRel (save ext lower a args) (save ext lower { a with usedAlias := u } args) := by
  have hv : validGate ({ a with usedAlias := u } : Opt) args = validGate a args := rfl
  cases args with
  | nil =>
    simp only [save]
    split <;> simp [SaveRel, Opt.noAlias]
  | cons a0 r =>
    simp only [save, hv]
    split
    · simp [SaveRel, PErr.noAlias]
    · split
      all_goals first
        | (simp [SaveRel, Opt.noAlias]; done)
        | (split <;> simp [SaveRel, Opt.noAlias, PErr.noAlias]; done)
        | (split <;> (try split) <;> simp [SaveRel, Opt.noAlias, PErr.noAlias]; done)
        | exact bind_rel _ _ _ _ (convIntArgs_rel _ _ _) (fun _ => rfl)
        | exact bind_rel _ _ _ _ (convFloatArgs_rel _ _ _ _) (fun _ => rfl)
        | exact bind_rel _ _ _ _ (saveMapArgs_rel _ _ _ _ _ _) (fun _ => rfl)


/-! ## parse states that agree up to the alias used -/

structure AEq (s s' : PState) : Prop where
  nodes : s.P.nodes = s'.P.nodes
  opts : s.P.opts.map Opt.noAlias = s'.P.opts.map Opt.noAlias
  cur : s.cur = s'.cur
  ctx : s.ctx = s'.ctx
  pending : s.pending = s'.pending
  tok : s.tok = s'.tok
  passed : s.passed = s'.passed
  lastTok : s.lastTok = s'.lastTok
  err : s.err.map PErr.noAlias = s'.err.map PErr.noAlias
  comps : s.comps = s'.comps
  rem : s.rem = s'.rem
  unk : s.unk = s'.unk
  textStart : s.textStart = s'.textStart

theorem AEq.refl (s : PState) : AEq s s := ⟨rfl, rfl, rfl, rfl, rfl, rfl, rfl, rfl, rfl, rfl, rfl, rfl, rfl⟩

theorem AEq.symm {s s' : PState} (h : AEq s s') : AEq s' s :=
  ⟨h.nodes.symm, h.opts.symm, h.cur.symm, h.ctx.symm, h.pending.symm, h.tok.symm, h.passed.symm, h.lastTok.symm,
   h.err.symm, h.comps.symm, h.rem.symm, h.unk.symm, h.textStart.symm⟩

theorem AEq.trans {a c d : PState} (h : AEq a c) (g : AEq c d) : AEq a d :=
  ⟨h.nodes.trans g.nodes, h.opts.trans g.opts, h.cur.trans g.cur, h.ctx.trans g.ctx, h.pending.trans g.pending,
   h.tok.trans g.tok, h.passed.trans g.passed, h.lastTok.trans g.lastTok, h.err.trans g.err, h.comps.trans g.comps,
   h.rem.trans g.rem, h.unk.trans g.unk, h.textStart.trans g.textStart⟩

theorem AEq.node {s s' : PState} (h : AEq s s') (n : Nat) : s.P.node n = s'.P.node n := by
  unfold Prog.node; rw [h.nodes]

theorem AEq.opt {s s' : PState} (h : AEq s s') (o : Nat) : (s.P.opt o).noAlias = (s'.P.opt o).noAlias := by
  have := congrArg (fun l => l.getD o dummyOpt.noAlias) h.opts
  simp only [List.getD_eq_getElem?_getD, List.getElem?_map] at this
  unfold Prog.opt
  simp only [List.getD_eq_getElem?_getD]
  cases h1 : s.P.opts[o]? <;> cases h2 : s'.P.opts[o]? <;> simp_all

theorem AEq.errSome {s s' : PState} (h : AEq s s') : s.err.isSome = s'.err.isSome := by
  have := congrArg Option.isSome h.err
  simpa using this

theorem map_set_rel (l l' : List Opt) (o : Nat) (x x' : Opt) (hl : l.map Opt.noAlias = l'.map Opt.noAlias)
    (hx : x.noAlias = x'.noAlias) : (l.set o x).map Opt.noAlias = (l'.set o x').map Opt.noAlias := by
  rw [List.map_set, List.map_set, hl, hx]

theorem matched_eq {a c : Opt} (h : a.noAlias = c.noAlias) (key : Str) (l : Bool) :
    ({ a with called := true, usedAlias := key, lowerKeys := l } : Opt) =
      { c with called := true, usedAlias := key, lowerKeys := l } := by
  cases a; cases c; simp_all [Opt.noAlias]

theorem procPair_aeq (ext : Ext) (s s' : PState) (p : Pair) (h : AEq s s') :
    AEq (procPair ext s p) (procPair ext s' p) := by
  have hnd : s'.P.node s'.cur = s.P.node s.cur := by rw [← h.cur]; exact (h.node _).symm
  have h0 : s'.P.node 0 = s.P.node 0 := (h.node 0).symm
  unfold procPair
  simp only [hnd, h0]
  split
  · split
    · exact { h with rem := by simp [PState.addText, h.rem, h.tok], ctx := rfl, pending := rfl }
    · rw [show s'.passed = s.passed from h.passed.symm]
      split
      · exact { h with rem := by simp [PState.addText, h.rem, h.tok], unk := by simp [PState.addText, h.unk],
                       passed := rfl }
      · exact { h with unk := by simp [h.unk], passed := by simp [h.passed] }
  · split
    · exact h
    · rename_i _ key _ _ oid _
      rw [← matched_eq (h.opt oid) key]
      split
      · exact { h with opts := map_set_rel _ _ _ _ _ h.opts rfl, err := rfl }
      · split
        · exact { h with opts := map_set_rel _ _ _ _ _ h.opts rfl, ctx := rfl }
        · exact { h with opts := map_set_rel _ _ _ _ _ h.opts rfl }
  · exact { h with err := by simp [h.lastTok] }

theorem offer_aeq (ext : Ext) (mode : Mode) (s s' : PState) (o i : Nat) (t : Str) (h : AEq s s') :
    AEq (offer ext mode s o i t).1 (offer ext mode s' o i t).1 ∧
      (offer ext mode s o i t).2 = (offer ext mode s' o i t).2 := by
  have e := Opt.eq_of_noAlias (h.opt o)
  have hmin : (s'.P.opt o).min = (s.P.opt o).min := by rw [e]
  have hkind : (s'.P.opt o).kind = (s.P.opt o).kind := by rw [e]
  have h0 : s'.P.node 0 = s.P.node 0 := (h.node 0).symm
  have hsr := save_rel ext (s.P.node 0).mapKeysToLower (s.P.opt o) (s'.P.opt o).usedAlias [t]
  rw [← e] at hsr
  unfold offer
  simp only [hmin, hkind, h0]
  generalize save ext (s.P.node 0).mapKeysToLower (s.P.opt o) [t] = r1 at hsr ⊢
  generalize save ext (s.P.node 0).mapKeysToLower (s'.P.opt o) [t] = r2 at hsr ⊢
  cases r1 <;> cases r2 <;> simp only [SaveRel] at hsr
  · rename_i e1 e2
    have hs : AEq { s with err := some e1, lastTok := t } { s' with err := some e2, lastTok := t } :=
      { h with err := by simp [hsr], lastTok := rfl }
    split
    · split
      · exact ⟨{ h with err := by simp [PErr.noAlias] }, rfl⟩
      · exact ⟨hs, rfl⟩
    · split
      · exact ⟨{ h with ctx := rfl }, rfl⟩
      · exact ⟨hs, rfl⟩
  · rename_i o1 o2
    have hmax : o1.max = o2.max := by have := congrArg Opt.max hsr; exact this
    have hs : AEq { s with P := s.P.setOpt o o1, lastTok := t,
                           ctx := if ((i + 1 : Nat) : Int) < o1.max then Ctx.collecting o (i + 1) else Ctx.idle }
        { s' with P := s'.P.setOpt o o2, lastTok := t,
                  ctx := if ((i + 1 : Nat) : Int) < o2.max then Ctx.collecting o (i + 1) else Ctx.idle } :=
      { h with opts := map_set_rel _ _ _ _ _ h.opts hsr, lastTok := rfl, ctx := by simp [hmax] }
    split
    · split
      · exact ⟨{ h with err := by simp [PErr.noAlias] }, rfl⟩
      · exact ⟨hs, rfl⟩
    · split
      · exact ⟨{ h with ctx := rfl }, rfl⟩
      · exact ⟨hs, rfl⟩

theorem AEq.withPending {s s' : PState} (h : AEq s s') (ps : List Pair) :
    AEq { s with pending := ps } { s' with pending := ps } := { h with pending := rfl }

theorem drain_aeq (ext : Ext) (ps : List Pair) (s s' : PState) (h : AEq s s') :
    AEq (drain ext s ps) (drain ext s' ps) := by
  induction ps generalizing s s' with
  | nil => exact h.withPending []
  | cons p ps ih =>
    have h1 := procPair_aeq ext _ _ p (h.withPending ps)
    unfold drain
    simp only
    generalize procPair ext { s with pending := ps } p = s1 at h1 ⊢
    generalize procPair ext { s' with pending := ps } p = s2 at h1 ⊢
    cases he1 : s1.err.isSome
    · have he2 : s2.err.isSome = false := by rw [← h1.errSome]; exact he1
      simp only [he1, he2, Bool.false_eq_true, ↓reduceIte]
      cases hc1 : s1.ctx with
      | idle => have hc2 : s2.ctx = .idle := by rw [← h1.ctx]; exact hc1
                simp only [hc2]; exact ih _ _ h1
      | collecting o i => have hc2 : s2.ctx = .collecting o i := by rw [← h1.ctx]; exact hc1
                          simp only [hc2]; exact { h1 with pending := rfl, ctx := rfl }
      | stopped => have hc2 : s2.ctx = .stopped := by rw [← h1.ctx]; exact hc1
                   simp only [hc2]; exact { h1 with pending := rfl, ctx := rfl }
      | done => have hc2 : s2.ctx = .done := by rw [← h1.ctx]; exact hc1
                simp only [hc2]; exact { h1 with pending := rfl, ctx := rfl }
    · have he2 : s2.err.isSome = true := by rw [← h1.errSome]; exact he1
      simp only [he1, he2, ↓reduceIte]; exact h1

theorem afterConsume_aeq (ext : Ext) (s s' : PState) (ps : List Pair) (h : AEq s s') :
    AEq (afterConsume ext s ps) (afterConsume ext s' ps) := by
  unfold afterConsume
  cases he1 : s.err.isSome
  · have he2 : s'.err.isSome = false := by rw [← h.errSome]; exact he1
    simp only [he1, he2, Bool.false_eq_true, ↓reduceIte]
    cases hc1 : s.ctx with
    | idle => have hc2 : s'.ctx = .idle := by rw [← h.ctx]; exact hc1
              simp only [hc2]; exact drain_aeq ext ps _ _ h
    | collecting o i => have hc2 : s'.ctx = .collecting o i := by rw [← h.ctx]; exact hc1
                        simp only [hc2]; exact { h with pending := rfl, ctx := rfl }
    | stopped => have hc2 : s'.ctx = .stopped := by rw [← h.ctx]; exact hc1
                 simp only [hc2]; exact { h with pending := rfl, ctx := rfl }
    | done => have hc2 : s'.ctx = .done := by rw [← h.ctx]; exact hc1
              simp only [hc2]; exact { h with pending := rfl, ctx := rfl }
  · have he2 : s'.err.isSome = true := by rw [← h.errSome]; exact he1
    simp only [he1, he2, ↓reduceIte]; exact h

theorem head_aeq (ext : Ext) (mode : Mode) (s s' : PState) (t : Str) (h : AEq s s') :
    AEq (head ext mode none s t) (head ext mode none s' t) := by
  have hnd : s'.P.node s'.cur = s.P.node s.cur := by rw [← h.cur]; exact (h.node _).symm
  unfold head
  simp only [hnd]
  split
  · exact { h with ctx := rfl }
  · split
    · exact drain_aeq ext _ _ _ { h with tok := rfl, lastTok := rfl, passed := rfl }
    · split
      · exact { h with cur := rfl, textStart := by simp [h.rem] }
      · split
        · exact { h with rem := by simp [PState.addText, h.rem], ctx := rfl }
        · exact { h with rem := by simp [PState.addText, h.rem] }

theorem feedPending_aeq (ext : Ext) (mode : Mode) (t : Str) (ps : List Pair) (s s' : PState) (h : AEq s s') :
    AEq (feedPending ext mode none t s ps) (feedPending ext mode none t s' ps) := by
  induction ps generalizing s s' with
  | nil => unfold feedPending; exact head_aeq ext mode _ _ t (h.withPending [])
  | cons p ps ih =>
    have h1 := procPair_aeq ext _ _ p (h.withPending ps)
    unfold feedPending
    simp only
    generalize procPair ext { s with pending := ps } p = s1 at h1 ⊢
    generalize procPair ext { s' with pending := ps } p = s2 at h1 ⊢
    cases he1 : s1.err.isSome
    · have he2 : s2.err.isSome = false := by rw [← h1.errSome]; exact he1
      simp only [he1, he2, Bool.false_eq_true, ↓reduceIte]
      cases hc1 : s1.ctx with
      | idle => have hc2 : s2.ctx = .idle := by rw [← h1.ctx]; exact hc1
                simp only [hc2]; exact ih _ _ h1
      | collecting o i =>
        have hc2 : s2.ctx = .collecting o i := by rw [← h1.ctx]; exact hc1
        simp only [hc2]
        have h2 := offer_aeq ext mode _ _ o i t h1
        generalize offer ext mode s1 o i t = r1 at h2 ⊢
        generalize offer ext mode s2 o i t = r2 at h2 ⊢
        obtain ⟨a1, b1⟩ := r1
        obtain ⟨a2, b2⟩ := r2
        simp only at h2
        obtain ⟨h2, rfl⟩ := h2
        cases b1
        · exact ih _ _ h2
        · exact afterConsume_aeq ext _ _ ps h2
      | stopped => have hc2 : s2.ctx = .stopped := by rw [← h1.ctx]; exact hc1
                   simp only [hc2]
                   exact { h1 with rem := by simp [PState.addText, h1.rem], pending := rfl }
      | done => have hc2 : s2.ctx = .done := by rw [← h1.ctx]; exact hc1
                simp only [hc2]
                exact { h1 with rem := by simp [PState.addText, h1.rem], pending := rfl }
    · have he2 : s2.err.isSome = true := by rw [← h1.errSome]; exact he1
      simp only [he1, he2, ↓reduceIte]; exact h1

theorem step_aeq (ext : Ext) (mode : Mode) (s s' : PState) (t : Str) (h : AEq s s') :
    AEq (step ext mode s t) (step ext mode s' t) := by
  unfold step stepG
  cases he1 : s.err.isSome
  · have he2 : s'.err.isSome = false := by rw [← h.errSome]; exact he1
    simp only [he1, he2, Bool.false_eq_true, ↓reduceIte]
    cases hc1 : s.ctx with
    | idle => have hc2 : s'.ctx = .idle := by rw [← h.ctx]; exact hc1
              simp only [hc2]; exact head_aeq ext mode _ _ t h
    | collecting o i =>
      have hc2 : s'.ctx = .collecting o i := by rw [← h.ctx]; exact hc1
      simp only [hc2]
      have h2 := offer_aeq ext mode _ _ o i t h
      generalize offer ext mode s o i t = r1 at h2 ⊢
      generalize offer ext mode s' o i t = r2 at h2 ⊢
      obtain ⟨a1, b1⟩ := r1
      obtain ⟨a2, b2⟩ := r2
      simp only at h2
      obtain ⟨h2, rfl⟩ := h2
      cases b1
      · simp only; rw [← h2.pending]; exact feedPending_aeq ext mode t _ _ _ h2
      · simp only; rw [← h2.pending]; exact afterConsume_aeq ext _ _ _ h2
    | stopped => have hc2 : s'.ctx = .stopped := by rw [← h.ctx]; exact hc1
                 simp only [hc2]; exact { h with rem := by simp [PState.addText, h.rem] }
    | done => have hc2 : s'.ctx = .done := by rw [← h.ctx]; exact hc1
              simp only [hc2]; exact h
  · have he2 : s'.err.isSome = true := by rw [← h.errSome]; exact he1
    simp only [he1, he2, ↓reduceIte]; exact h

theorem foldl_aeq (ext : Ext) (mode : Mode) (ts : List Str) (s s' : PState) (h : AEq s s') :
    AEq (ts.foldl (step ext mode) s) (ts.foldl (step ext mode) s') := by
  induction ts generalizing s s' with
  | nil => exact h
  | cons t r ih => exact ih _ _ (step_aeq ext mode s s' t h)

theorem AEq.min {s s' : PState} (h : AEq s s') (o : Nat) : (s.P.opt o).min = (s'.P.opt o).min := by
  have := congrArg Opt.min (h.opt o); exact this

theorem finishDrain_aeq (ext : Ext) (ps : List Pair) (s s' : PState) (h : AEq s s') :
    AEq (finishDrain ext s ps) (finishDrain ext s' ps) := by
  induction ps generalizing s s' with
  | nil => exact h.withPending []
  | cons p ps ih =>
    have h1 := procPair_aeq ext _ _ p (h.withPending ps)
    unfold finishDrain
    simp only
    generalize procPair ext { s with pending := ps } p = s1 at h1 ⊢
    generalize procPair ext { s' with pending := ps } p = s2 at h1 ⊢
    cases he1 : s1.err.isSome
    · have he2 : s2.err.isSome = false := by rw [← h1.errSome]; exact he1
      simp only [he1, he2, Bool.false_eq_true, ↓reduceIte]
      cases hc1 : s1.ctx with
      | idle => have hc2 : s2.ctx = .idle := by rw [← h1.ctx]; exact hc1
                simp only [hc2]; exact ih _ _ h1
      | collecting o i =>
        have hc2 : s2.ctx = .collecting o i := by rw [← h1.ctx]; exact hc1
        simp only [hc2, ← h1.min o]
        split
        · exact { h1 with err := by simp [PErr.noAlias], ctx := rfl }
        · exact ih _ _ { h1 with ctx := rfl }
      | stopped => have hc2 : s2.ctx = .stopped := by rw [← h1.ctx]; exact hc1
                   simp only [hc2]; exact { h1 with pending := rfl, ctx := rfl }
      | done => have hc2 : s2.ctx = .done := by rw [← h1.ctx]; exact hc1
                simp only [hc2]; exact { h1 with pending := rfl, ctx := rfl }
    · have he2 : s2.err.isSome = true := by rw [← h1.errSome]; exact he1
      simp only [he1, he2, ↓reduceIte]; exact h1

theorem finish_aeq (ext : Ext) (s s' : PState) (h : AEq s s') : AEq (finish ext s) (finish ext s') := by
  unfold finish
  cases he1 : s.err.isSome
  · have he2 : s'.err.isSome = false := by rw [← h.errSome]; exact he1
    simp only [he1, he2, Bool.false_eq_true, ↓reduceIte]
    cases hc1 : s.ctx with
    | idle => have hc2 : s'.ctx = .idle := by rw [← h.ctx]; exact hc1
              simp only [hc2]; exact h
    | collecting o i =>
      have hc2 : s'.ctx = .collecting o i := by rw [← h.ctx]; exact hc1
      simp only [hc2, ← h.min o]
      split
      · exact { h with err := by simp [PErr.noAlias], ctx := rfl }
      · have hp := h.pending
        generalize s'.pending = q at hp ⊢
        subst hp
        exact finishDrain_aeq ext _ _ _ { h with ctx := rfl, pending := rfl }
    | stopped => have hc2 : s'.ctx = .stopped := by rw [← h.ctx]; exact hc1
                 simp only [hc2]; exact h
    | done => have hc2 : s'.ctx = .done := by rw [← h.ctx]; exact hc1
              simp only [hc2]; exact h
  · have he2 : s'.err.isSome = true := by rw [← h.errSome]; exact he1
    simp only [he1, he2, ↓reduceIte]; exact h

end GoModel

import Model.Dag
/-! `DepthFirstSort`: soundness (a successful sort is a duplicate-free order with every child before its
parents) and completeness (a reported cycle is a cycle). -/
namespace GoModel.Dag

/-- children-before-parents for everything already emitted -/
def Topo (children : Nat → List Nat) (l : List Nat) : Prop :=
  ∀ l1 v l2, l = l1 ++ v :: l2 → ∀ c ∈ children v, c ∈ l1

structure DInv (children : Nat → List Nat) (ds : DfsState) : Prop where
  trav_iff : ∀ v, ds.status v = .traversed ↔ v ∈ ds.sorted
  nodup : ds.sorted.Nodup
  topo : Topo children ds.sorted

/-- what a successful visit guarantees, relative to the state it started from -/
structure Post (children : Nat → List Nat) (ds ds' : DfsState) : Prop where
  inv : DInv children ds'
  ext : ∃ e, ds'.sorted = ds.sorted ++ e
  gray : ∀ x, ds.status x = .visited → ds'.status x = .visited
  white : ∀ x, ds'.status x = .visited → ds.status x = .visited
  mono : ∀ x, ds.status x = .traversed → ds'.status x = .traversed

theorem Post.refl {children ds} (h : DInv children ds) : Post children ds ds :=
  ⟨h, ⟨[], by simp⟩, fun _ h => h, fun _ h => h, fun _ h => h⟩

theorem Post.trans {children a b c} (h1 : Post children a b) (h2 : Post children b c) :
    Post children a c := by
  obtain ⟨e1, he1⟩ := h1.ext
  obtain ⟨e2, he2⟩ := h2.ext
  exact ⟨h2.inv, ⟨e1 ++ e2, by simp [he2, he1]⟩, fun x h => h2.gray x (h1.gray x h),
    fun x h => h1.white x (h2.white x h), fun x h => h2.mono x (h1.mono x h)⟩

theorem fold_post (children : Nat → List Nat) (f : Nat)
    (ih : ∀ ds v ds', DInv children ds → visit children f ds v = .ok ds' →
            Post children ds ds' ∧ ds'.status v = .traversed)
    (cs : List Nat) (ds ds' : DfsState) (hinv : DInv children ds)
    (h : cs.foldlM (fun d c => visit children f d c) ds = .ok ds') :
    Post children ds ds' ∧ ∀ c ∈ cs, ds'.status c = .traversed := by
  induction cs generalizing ds with
  | nil => simp [List.foldlM, pure, Except.pure] at h; subst h; exact ⟨Post.refl hinv, by simp⟩
  | cons c cs ihc =>
    simp only [List.foldlM_cons, bind, Except.bind] at h
    split at h
    · simp at h
    · rename_i d hd
      have ⟨p1, t1⟩ := ih ds c d hinv hd
      have ⟨p2, t2⟩ := ihc d p1.inv h
      refine ⟨p1.trans p2, ?_⟩
      intro x hx
      simp at hx
      rcases hx with rfl | hx
      · exact p2.mono _ t1
      · exact t2 x hx

theorem inv_set_visited {children ds v} (hinv : DInv children ds) (hu : ds.status v = .unvisited) :
    DInv children (ds.set v .visited) := by
  refine ⟨fun x => ?_, hinv.nodup, hinv.topo⟩
  simp only [DfsState.set]
  by_cases hx : x = v
  · subst hx
    have : x ∉ ds.sorted := fun hm => by
      have := (hinv.trav_iff x).2 hm; simp [hu] at this
    simp [this]
  · simp [hx, hinv.trav_iff x]

theorem visit_post (children : Nat → List Nat) (f : Nat) :
    ∀ ds v ds', DInv children ds → visit children f ds v = .ok ds' →
      Post children ds ds' ∧ ds'.status v = .traversed := by
  induction f with
  | zero => intro ds v ds' _ h; simp [visit] at h
  | succ f ih =>
    intro ds v ds' hinv h
    unfold visit at h
    split at h
    · rename_i ht; simp at h; subst h; exact ⟨Post.refl hinv, ht⟩
    · simp at h
    · rename_i hu
      split at h
      · simp at h
      · rename_i d hd
        simp at h; subst h
        have hinv1 := inv_set_visited hinv hu
        have ⟨p, tc⟩ := fold_post children f ih (children v) _ d hinv1 hd
        obtain ⟨e, he⟩ := p.ext
        have hvgray : d.status v = .visited := p.gray v (by simp [DfsState.set])
        have hvnot : v ∉ d.sorted := fun hm => by
          have := (p.inv.trav_iff v).2 hm; simp [hvgray] at this
        refine ⟨⟨⟨fun x => ?_, ?_, ?_⟩, ⟨e ++ [v], by simp [he, DfsState.set]⟩, ?_, ?_, ?_⟩, by simp [DfsState.set]⟩
        · simp only [DfsState.set]
          by_cases hx : x = v
          · subst hx; simp
          · simp [hx, p.inv.trav_iff x]
        · simp [List.nodup_append, p.inv.nodup, hvnot]
          intro a ha hav; subst hav; exact hvnot ha
        · intro l1 x l2 hsplit c hc
          rcases List.append_eq_append_iff.1 hsplit with ⟨m, hm1, hm2⟩ | ⟨m, hm1, hm2⟩
          · cases m with
            | nil =>
              simp at hm2; obtain ⟨rfl, rfl⟩ := hm2
              simp at hm1; subst hm1
              exact (p.inv.trav_iff c).1 (tc c hc)
            | cons a m => simp at hm2
          · cases m with
            | nil =>
              simp at hm2; obtain ⟨rfl, rfl⟩ := hm2
              simp at hm1; subst hm1
              exact (p.inv.trav_iff c).1 (tc c hc)
            | cons a m =>
              simp at hm2
              obtain ⟨rfl, rfl⟩ := hm2
              exact p.inv.topo l1 x m hm1 c hc
        · intro x hx
          have hxv : x ≠ v := by intro e'; subst e'; simp [hu] at hx
          simp [DfsState.set, hxv]
          exact p.gray x (by simp [DfsState.set, hxv, hx])
        · intro x hx
          by_cases hxv : x = v
          · subst hxv; simp [DfsState.set] at hx
          · simp [DfsState.set, hxv] at hx
            have := p.white x hx
            simpa [DfsState.set, hxv] using this
        · intro x hx
          have hxv : x ≠ v := by intro e'; subst e'; simp [hu] at hx
          simp [DfsState.set, hxv]
          exact p.mono x (by simp [DfsState.set, hxv, hx])

/-- nonempty path along child (dependency) edges -/
inductive Path (children : Nat → List Nat) : Nat → Nat → Prop
  | edge {a c} : c ∈ children a → Path children a c
  | cons {a c d} : c ∈ children a → Path children c d → Path children a d

theorem Path.snoc {children a c d} (h : Path children a c) (e : d ∈ children c) : Path children a d := by
  induction h with
  | edge h1 => exact .cons h1 (.edge e)
  | cons h1 _ ih => exact .cons h1 (ih e)

theorem fold_cycle (children : Nat → List Nat) (f : Nat)
    (ihs : ∀ ds v ds', DInv children ds → visit children f ds v = .ok ds' →
            Post children ds ds' ∧ ds'.status v = .traversed)
    (ihe : ∀ ds v w, DInv children ds → visit children f ds v = .error (.cycle w) →
            (∀ x, ds.status x = .visited → Path children x v) → Path children w w)
    (cs : List Nat) (ds : DfsState) (w : Nat) (hinv : DInv children ds)
    (hg : ∀ c ∈ cs, ∀ x, ds.status x = .visited → Path children x c)
    (h : cs.foldlM (fun d c => visit children f d c) ds = .error (.cycle w)) :
    Path children w w := by
  induction cs generalizing ds with
  | nil => simp [List.foldlM, pure, Except.pure] at h
  | cons c cs ihc =>
    simp only [List.foldlM_cons, bind, Except.bind] at h
    split at h
    · rename_i e he
      simp at h; subst h
      exact ihe ds c w hinv he (hg c (by simp))
    · rename_i d hd
      have ⟨p1, _⟩ := ihs ds c d hinv hd
      exact ihc d p1.inv (fun c' hc' x hx => hg c' (by simp [hc']) x (p1.white x hx)) h

theorem visit_cycle (children : Nat → List Nat) (f : Nat) :
    ∀ ds v w, DInv children ds → visit children f ds v = .error (.cycle w) →
      (∀ x, ds.status x = .visited → Path children x v) → Path children w w := by
  induction f with
  | zero => intro ds v w _ h; simp [visit] at h
  | succ f ih =>
    intro ds v w hinv h hg
    unfold visit at h
    split at h
    · simp at h
    · rename_i hv; simp at h; subst h; exact hg v hv
    · rename_i hu
      split at h
      · rename_i e he
        simp at h; subst h
        have hinv1 := inv_set_visited hinv hu
        refine fold_cycle children f (visit_post children f) ih (children v) _ w hinv1 ?_ he
        intro c hc x hx
        by_cases hxv : x = v
        · subst hxv; exact .edge hc
        · simp [DfsState.set, hxv] at hx; exact (hg x hx).snoc hc
      · simp at h

/-- everything emitted is the start vertex or reached from it through children: if `R` holds of the
start vertex and is closed under children, it holds of everything emitted -/
theorem visit_sorted_reg (children : Nat → List Nat) (R : Nat → Prop) (hR : ∀ a, R a → ∀ ch ∈ children a, R ch) (f : Nat) :
    ∀ ds v ds', R v → (∀ x ∈ ds.sorted, R x) → visit children f ds v = .ok ds' → ∀ x ∈ ds'.sorted, R x := by
  induction f with
  | zero => intro ds v ds' _ _ h; simp [visit] at h
  | succ f ih =>
    intro ds v ds' hv hs h
    unfold visit at h
    split at h
    · simp at h; subst h; exact hs
    · simp at h
    · split at h
      · simp at h
      · rename_i d hd
        simp at h; subst h
        have hfold : ∀ (cs : List Nat) (a d : DfsState), (∀ ch ∈ cs, R ch) → (∀ x ∈ a.sorted, R x) →
            cs.foldlM (fun st ch => visit children f st ch) a = .ok d → ∀ x ∈ d.sorted, R x := by
          intro cs
          induction cs with
          | nil => intro a d _ ha h; simp [List.foldlM, pure, Except.pure] at h; subst h; exact ha
          | cons ch cs ihc =>
            intro a d hcs ha h
            simp only [List.foldlM_cons, bind, Except.bind] at h
            split at h
            · simp at h
            · rename_i a' ha'
              exact ihc a' d (fun y hy => hcs y (by simp [hy])) (ih a ch a' (hcs ch (by simp)) ha ha') h
        have := hfold (children v) (ds.set v .visited) d (hR v hv) (by simpa [DfsState.set] using hs) hd
        intro x hx
        simp only [List.mem_append, List.mem_singleton] at hx
        rcases hx with hx | rfl
        · exact this x hx
        · exact hv

theorem dfsLoop_sorted_reg (children : Nat → List Nat) (R : Nat → Prop) (hR : ∀ a, R a → ∀ ch ∈ children a, R ch)
    (fuel : Nat) (order : List Nat) (ho : ∀ v ∈ order, R v) (ds ds' : DfsState) (hs : ∀ x ∈ ds.sorted, R x)
    (h : dfsLoop children fuel order ds = .ok ds') : ∀ x ∈ ds'.sorted, R x := by
  induction order generalizing ds with
  | nil => simp [dfsLoop] at h; subst h; exact hs
  | cons v r ih =>
    unfold dfsLoop at h
    split at h
    · split at h
      · simp at h
      · rename_i s1 hv
        exact ih (fun x hx => ho x (by simp [hx])) s1
          (visit_sorted_reg children R hR fuel ds v s1 (ho v (by simp)) hs hv) h
    · exact ih (fun x hx => ho x (by simp [hx])) ds hs h

/-! ## the outer loop -/

structure LoopInv (children : Nat → List Nat) (ds : DfsState) : Prop where
  inv : DInv children ds
  nogray : ∀ x, ds.status x ≠ .visited

theorem init_loopInv (children : Nat → List Nat) : LoopInv children {} :=
  ⟨⟨fun v => by simp, by simp, fun l1 v l2 h => by simp at h⟩, fun x => by simp⟩

theorem dfsLoop_ok (children : Nat → List Nat) (fuel : Nat) (order : List Nat) (ds ds' : DfsState)
    (h0 : LoopInv children ds) (h : dfsLoop children fuel order ds = .ok ds') :
    LoopInv children ds' ∧ (∀ v ∈ order, v ∈ ds'.sorted) ∧ (∀ v ∈ ds.sorted, v ∈ ds'.sorted) := by
  induction order generalizing ds with
  | nil => simp [dfsLoop] at h; subst h; exact ⟨h0, by simp, fun v hv => hv⟩
  | cons v r ih =>
    unfold dfsLoop at h
    split at h
    · rename_i hu
      split at h
      · simp at h
      · rename_i s1 hv
        have ⟨p, tv⟩ := visit_post children fuel ds v s1 h0.inv hv
        have h1 : LoopInv children s1 := ⟨p.inv, fun x hx => h0.nogray x (p.white x hx)⟩
        have ⟨a, c, d⟩ := ih s1 h1 h
        refine ⟨a, ?_, fun x hx => d x ?_⟩
        · intro x hx
          rcases List.mem_cons.mp hx with rfl | hx
          · exact d _ ((p.inv.trav_iff _).1 tv)
          · exact c x hx
        · obtain ⟨e, he⟩ := p.ext; rw [he]; simp [hx]
    · rename_i hnu
      have ⟨a, c, d⟩ := ih ds h0 h
      refine ⟨a, ?_, d⟩
      intro x hx
      rcases List.mem_cons.mp hx with rfl | hx
      · have : ds.status x = .traversed := by
          cases hs : ds.status x with
          | unvisited => exact absurd hs (by simpa using hnu)
          | visited => exact absurd hs (h0.nogray x)
          | traversed => rfl
        exact d _ ((h0.inv.trav_iff _).1 this)
      · exact c x hx

theorem dfsLoop_cycle (children : Nat → List Nat) (fuel : Nat) (order : List Nat) (ds : DfsState) (w : Nat)
    (h0 : LoopInv children ds) (h : dfsLoop children fuel order ds = .error (.cycle w)) :
    Path children w w := by
  induction order generalizing ds with
  | nil => simp [dfsLoop] at h
  | cons v r ih =>
    unfold dfsLoop at h
    split at h
    · split at h
      · rename_i e he
        simp at h; subst h
        exact visit_cycle children fuel ds v w h0.inv he (fun x hx => absurd hx (h0.nogray x))
      · rename_i s1 hv
        have ⟨p, _⟩ := visit_post children fuel ds v s1 h0.inv hv
        exact ih s1 ⟨p.inv, fun x hx => h0.nogray x (p.white x hx)⟩ h
    · exact ih ds h0 h

theorem dfsFrom_sound (g : GState) (order l : List Nat) (h : dfsFrom g order = .ok l) :
    l.Nodup ∧ Topo g.children l ∧ ∀ v ∈ order, v ∈ l := by
  unfold dfsFrom at h
  cases hl : dfsLoop g.children (g.verts.length + 1) order {} with
  | error e => rw [hl] at h; simp [Except.map] at h
  | ok s =>
    rw [hl] at h
    simp only [Except.map, Except.ok.injEq] at h
    subst h
    have ⟨a, c, _⟩ := dfsLoop_ok g.children _ order {} s (init_loopInv g.children) hl
    exact ⟨a.inv.nodup, a.inv.topo, c⟩

/-- a children-first order without duplicates excludes cycles through its members -/
theorem topo_path_before {children : Nat → List Nat} {l : List Nat} (ht : Topo children l) {a c : Nat}
    (hp : Path children a c) : ∀ l1 l2, l = l1 ++ a :: l2 → c ∈ l1 := by
  induction hp with
  | edge h => intro l1 l2 hl; exact ht l1 _ l2 hl _ h
  | @cons a0 c0 d0 h _ ih =>
    intro l1 l2 hl
    have hc := ht l1 _ l2 hl _ h
    obtain ⟨m1, m2, hm⟩ := List.append_of_mem hc
    have := ih m1 (m2 ++ a0 :: l2) (by rw [hl, hm]; simp)
    rw [hm]; simp [this]

theorem topo_acyclic {children : Nat → List Nat} {l : List Nat} (ht : Topo children l) (hn : l.Nodup)
    (v : Nat) (hv : v ∈ l) : ¬ Path children v v := by
  intro hp
  obtain ⟨l1, l2, hl⟩ := List.append_of_mem hv
  have := topo_path_before ht hp l1 l2 hl
  rw [hl] at hn
  have := (List.nodup_append.mp hn).2.2 v this v (by simp)
  exact this rfl

end GoModel.Dag

import Lemmas.SchedMore
/-! Termination of `Run` up to idle polling: every scheduler event other than `idle` strictly
decreases a lexicographic rank, on every state satisfying the scheduler invariant. -/
namespace GoModel.Dag

/-! ### arithmetic on lists -/

theorem sum_map_update_le (l : List Nat) (v : Nat) (f g : Nat → Nat) (h : ∀ y, y ≠ v → g y = f y)
    (hle : g v ≤ f v) : (l.map g).sum ≤ (l.map f).sum := by
  induction l with
  | nil => simp
  | cons a r ih =>
    simp only [List.map_cons, List.sum_cons]
    by_cases hav : a = v
    · subst hav; omega
    · rw [h a hav]; omega

theorem sum_map_update_lt (l : List Nat) (v : Nat) (f g : Nat → Nat) (hv : v ∈ l)
    (h : ∀ y, y ≠ v → g y = f y) (hlt : g v < f v) : (l.map g).sum < (l.map f).sum := by
  induction l with
  | nil => simp at hv
  | cons a r ih =>
    simp only [List.map_cons, List.sum_cons]
    have hle := sum_map_update_le r v f g h (Nat.le_of_lt hlt)
    by_cases hav : a = v
    · subst hav; omega
    · rw [h a hav]
      have : v ∈ r := by simpa [Ne.symm hav] using hv
      have := ih this
      omega

theorem countP_lt_of_imp (l : List Nat) (p q : Nat → Bool) (himp : ∀ y, q y = true → p y = true)
    (v : Nat) (hv : v ∈ l) (hp : p v = true) (hq : q v = false) : l.countP q < l.countP p := by
  induction l with
  | nil => simp at hv
  | cons a r ih =>
    simp only [List.countP_cons]
    have hle : r.countP q ≤ r.countP p := List.countP_mono_left (fun y _ => himp y)
    by_cases hav : a = v
    · subst hav; simp [hp, hq]; omega
    · have : v ∈ r := by simpa [Ne.symm hav] using hv
      have := ih this
      by_cases hqa : q a = true
      · simp [hqa, himp a hqa]; omega
      · have hqa' : q a = false := by simpa using hqa
        simp only [hqa', Bool.false_eq_true, ↓reduceIte, Nat.add_zero]
        split <;> omega

/-! ### the rank -/

def flw (R : Nat) : Flight → Nat
  | .none => 0
  | .waitSem => 2 * (R + 1) + 5
  | .waitLock => 2 * (R + 1) + 3
  | .idle k => 2 * (R + 1 - k) + 2
  | .running k => 2 * (R + 1 - k) + 1
  | .sending _ => 0

def stw (R : Nat) : St → Nat
  | .pending => 2 * (R + 1) + 8
  | .skip => 2 * (R + 1) + 8
  | .inProgress => 1
  | .done => 0

/-- work a vertex can still cause -/
def vw (R : Nat) (x : VState) : Nat := stw R x.st + flw R x.fl + x.pseudo.length + (if x.sem then 1 else 0)

def Rof (c : Cfg) (v : Nat) : Nat := (c.g.retriesOf v).toNat

def sigma (c : Cfg) (s : Sched) : Nat :=
  (c.g.ids.map fun v => vw (Rof c v) (s.get v)).sum + (if s.cancelled then 0 else 1) + (if s.exited then 0 else 1)

/-- may still complete as a real task (and then send `ErrorSkipParents`) -/
def kk (x : VState) : Bool := x.st == .pending || (x.real && x.st == .inProgress)

def kcount (c : Cfg) (s : Sched) : Nat := c.g.ids.countP fun v => kk (s.get v)

def rank (c : Cfg) (s : Sched) : Nat × Nat := (kcount c s, sigma c s)

def RankLt (a b : Nat × Nat) : Prop := Prod.Lex (· < ·) (· < ·) a b

/-- a change of one vertex of the graph that does not make it "real-capable" and lowers its work -/
theorem rank_set (c : Cfg) (s : Sched) (v : Nat) (x' : VState) (hv : v ∈ c.g.ids)
    (hk : kk x' = true → kk (s.get v) = true) (hw : vw (Rof c v) x' < vw (Rof c v) (s.get v))
    (s' : Sched) (hs' : s'.vs = (s.set v x').vs) (hc : s'.cancelled = s.cancelled) (he : s'.exited = s.exited) :
    RankLt (rank c s') (rank c s) := by
  have hget : ∀ y, s'.get y = (s.set v x').get y := fun y => by simp [Sched.get, hs']
  have hkle : kcount c s' ≤ kcount c s := by
    unfold kcount
    apply List.countP_mono_left
    intro y _ hy
    rw [hget, get_set] at hy
    split at hy
    · rename_i e; subst e; exact hk hy
    · exact hy
  have hsig : sigma c s' < sigma c s := by
    unfold sigma
    rw [hc, he]
    have := sum_map_update_lt c.g.ids v (fun y => vw (Rof c y) (s.get y)) (fun y => vw (Rof c y) (s'.get y)) hv
      (fun y hy => by rw [hget, get_set_ne _ _ _ _ hy]) (by rw [hget, get_set_same]; exact hw)
    omega
  unfold RankLt rank
  rcases Nat.lt_or_eq_of_le hkle with h | h
  · exact Prod.Lex.left _ _ h
  · rw [h]; exact Prod.Lex.right _ hsig

/-! ### the events -/

/-- goroutine state and semaphore slots exist only for vertices of the graph -/
def TInv (c : Cfg) (s : Sched) : Prop := ∀ v, c.g.has v = false → (s.get v).fl = .none ∧ (s.get v).sem = false

theorem has_of_fl (c : Cfg) (s : Sched) (ht : TInv c s) (v : Nat) (h : (s.get v).fl ≠ .none) : v ∈ c.g.ids := by
  rw [← has_iff_mem_ids]
  cases hh : c.g.has v with
  | true => rfl
  | false => exact absurd (ht v hh).1 h

theorem has_of_sem (c : Cfg) (s : Sched) (ht : TInv c s) (v : Nat) (h : (s.get v).sem = true) : v ∈ c.g.ids := by
  rw [← has_iff_mem_ids]
  cases hh : c.g.has v with
  | true => rfl
  | false => rw [(ht v hh).2] at h; cases h

def recvV (x : VState) (r : Res) : VState :=
  if x.fl == .sending r then { x with st := .done, fl := .none, out := some r }
  else { x with st := .done, pseudo := x.pseudo.erase r, out := some r }

theorem recv_cases (c : Cfg) (s s' : Sched) (v : Nat) (r : Res) (hs : step? c s (.recv v r) = some s') :
    c.g.has v = true ∧ ((s.get v).pseudo.contains r = true ∨ (s.get v).fl = .sending r) ∧
    ((r ≠ .skipParents ∧ s'.vs = (s.set v (recvV (s.get v) r)).vs ∧ s'.cancelled = s.cancelled ∧ s'.exited = s.exited) ∨
     (r = .skipParents ∧ s' = markAncestors c (s.set v (recvV (s.get v) r)) v)) := by
  simp only [step?] at hs
  split at hs
  · simp at hs
  · split at hs
    · rename_i hcond
      simp only [Bool.and_eq_true, Bool.or_eq_true, beq_iff_eq] at hcond
      refine ⟨hcond.1, hcond.2, ?_⟩
      cases r with
      | ok => left; simp only [Option.some.injEq] at hs; subst hs; exact ⟨by simp, rfl, rfl, rfl⟩
      | err => left; simp only [Option.some.injEq] at hs; subst hs; exact ⟨by simp, rfl, rfl, rfl⟩
      | taskSkipped => left; simp only [Option.some.injEq] at hs; subst hs; exact ⟨by simp, rfl, rfl, rfl⟩
      | skipParents => right; simp only [Option.some.injEq] at hs; subst hs; exact ⟨rfl, rfl⟩
    · simp at hs

theorem kk_done (x : VState) (h : x.st = .done) : kk x = false := by simp [kk, h]
theorem kk_skip (x : VState) (h : x.st = .skip) : kk x = false := by simp [kk, h]

theorem recvV_st (x : VState) (r : Res) : (recvV x r).st = .done := by
  unfold recvV; split <;> rfl

theorem rank_mark (c : Cfg) (s : Sched) (v : Nat) (x' : VState) (hv : v ∈ c.g.ids)
    (hkv : kk (s.get v) = true) (hx : x'.st = .done) :
    RankLt (rank c (markAncestors c (s.set v x') v)) (rank c s) := by
  unfold RankLt rank
  apply Prod.Lex.left
  unfold kcount
  have hq : ∀ y, kk ((markAncestors c (s.set v x') v).get y) = true → kk (s.get y) = true := by
    intro y hy
    rw [markAncestors_get] at hy
    split at hy
    · simp [kk, markOne] at hy
    · rw [get_set] at hy
      split at hy
      · rw [kk_done _ hx] at hy; cases hy
      · exact hy
  apply countP_lt_of_imp _ _ _ hq v hv hkv
  rw [markAncestors_get]
  split
  · simp [kk, markOne]
  · rw [get_set_same]; exact kk_done _ hx

/-- **Every scheduler event other than the idle poll strictly decreases the rank.** -/
theorem step_rank (c : Cfg) (hg : GInv c.g) (s s' : Sched) (ev : Event) (h : SInv c s) (ht : TInv c s)
    (hs : step? c s ev = some s') (hne : ev ≠ .idle) : RankLt (rank c s') (rank c s) := by
  cases ev with
  | idle => exact absurd rfl hne
  | pickReal v =>
    simp [step?] at hs
    obtain ⟨_, ⟨⟨⟨⟨hhas, _⟩, _⟩, hst⟩, _⟩, rfl⟩ := hs
    apply rank_set c s v _ ((has_iff_mem_ids _ _).mp hhas) _ _ _ rfl rfl rfl
    · intro _; simp [kk, hst]
    · have hn := h.n v hst
      simp [vw, stw, flw, hst, hn.2.2.1]
      omega
  | pickSkip v =>
    simp [step?] at hs
    obtain ⟨_, ⟨⟨⟨hhas, _⟩, _⟩, hst⟩, rfl⟩ := hs
    apply rank_set c s v _ ((has_iff_mem_ids _ _).mp hhas) _ _ _ rfl rfl rfl
    · intro hk
      have hreal := (h.a4 v (h.a1 v hst)).2
      simp [kk, hreal] at hk
    · have hfl : (s.get v).fl = .none := by
        cases hf : (s.get v).fl with
        | none => rfl
        | _ => have := (h.f v (by rw [hf]; simp)).2; rw [hst] at this; cases this
      simp [vw, stw, flw, hst, hfl]
      omega
  | pickErr v =>
    simp [step?] at hs
    obtain ⟨_, ⟨⟨⟨⟨hhas, _⟩, _⟩, hst⟩, _⟩, rfl⟩ := hs
    apply rank_set c s v _ ((has_iff_mem_ids _ _).mp hhas) _ _ _ rfl rfl rfl
    · intro _; simp [kk, hst]
    · have hn := h.n v hst
      simp [vw, stw, flw, hst, hn.2.2.1]
      omega
  | recv v r =>
    obtain ⟨hhas, hcond, hcase⟩ := recv_cases c s s' v r hs
    have hv := (has_iff_mem_ids _ _).mp hhas
    rcases hcase with ⟨_, hvs, hc, he⟩ | ⟨hr, rfl⟩
    · apply rank_set c s v (recvV (s.get v) r) hv _ _ s' hvs hc he
      · intro hk; rw [kk_done _ (recvV_st _ _)] at hk; cases hk
      · unfold recvV
        by_cases hfl : (s.get v).fl = .sending r
        · have hst := (h.f v (by rw [hfl]; simp)).2
          simp [hfl, vw, stw, flw, hst]
        · have hfl' : ((s.get v).fl == Flight.sending r) = false := by simpa using hfl
          rcases hcond with hm | hm
          · have hmem : r ∈ (s.get v).pseudo := by simpa using hm
            have hlen := List.length_erase_of_mem hmem
            have hpos : 0 < (s.get v).pseudo.length := List.length_pos_of_mem hmem
            simp only [hfl', Bool.false_eq_true, ↓reduceIte, vw, stw, hlen]
            cases (s.get v).st <;> simp [stw] <;> omega
          · exact absurd hm hfl
    · subst hr
      have hfl : (s.get v).fl = .sending .skipParents := by
        rcases hcond with hm | hm
        · have hmem : Res.skipParents ∈ (s.get v).pseudo := by simpa using hm
          rcases h.pk v _ hmem with e | e <;> cases e
        · exact hm
      have hf := h.f v (by rw [hfl]; simp)
      exact rank_mark c s v _ hv (by simp [kk, hf.1, hf.2]) (recvV_st _ _)
  | cancel =>
    simp [step?] at hs
    obtain ⟨_, hc, rfl⟩ := hs
    unfold RankLt rank
    have hk : kcount c { s with cancelled := true, errs := s.errs ++ [.cancelled] } = kcount c s := rfl
    rw [hk]
    apply Prod.Lex.right
    simp [sigma, hc, Sched.get]
  | exit =>
    simp [step?] at hs
    obtain ⟨hex, _, rfl⟩ := hs
    unfold RankLt rank
    have hk : kcount c { s with exited := true } = kcount c s := rfl
    rw [hk]
    apply Prod.Lex.right
    simp [sigma, hex, Sched.get]
  | semAcq v =>
    simp [step?] at hs
    obtain ⟨_, ⟨hfl, _⟩, rfl⟩ := hs
    apply rank_set c s v _ (has_of_fl c s ht v (by rw [hfl]; simp)) _ _ _ rfl rfl rfl
    · intro hk; simpa [kk] using hk
    · simp [vw, flw, hfl]; split <;> omega
  | lockAcq v =>
    simp [step?] at hs
    obtain ⟨_, hfl, rfl⟩ := hs
    apply rank_set c s v _ (has_of_fl c s ht v (by rw [hfl]; simp)) _ _ _ rfl rfl rfl
    · intro hk; simpa [kk] using hk
    · simp [vw, flw, hfl]
  | enter v k =>
    simp [step?] at hs
    obtain ⟨_, ⟨hfl, _⟩, rfl⟩ := hs
    apply rank_set c s v _ (has_of_fl c s ht v (by rw [hfl]; simp)) _ _ _ rfl rfl rfl
    · intro hk; simpa [kk] using hk
    · simp [vw, flw, hfl]
  | leave v k r =>
    simp only [step?] at hs
    split at hs
    · simp at hs
    · split at hs
      · rename_i hcond
        simp only [Bool.and_eq_true, beq_iff_eq] at hcond
        have hfl := hcond.1
        split at hs
        · simp only [Option.some.injEq] at hs; subst hs
          apply rank_set c s v _ (has_of_fl c s ht v (by rw [hfl]; simp)) _ _ _ rfl rfl rfl
          · intro hk; simpa [kk] using hk
          · simp [vw, flw, hfl]
        · rename_i hretry
          simp only [Option.some.injEq] at hs; subst hs
          apply rank_set c s v _ (has_of_fl c s ht v (by rw [hfl]; simp)) _ _ _ rfl rfl rfl
          · intro hk; simpa [kk] using hk
          · simp only [Bool.or_eq_true, beq_iff_eq, decide_eq_true_eq, not_or, Int.not_le] at hretry
            have hlt : k < Rof c v := by
              unfold Rof; omega
            simp [vw, flw, hfl]
            omega
      · simp at hs
  | semRel v =>
    simp [step?] at hs
    obtain ⟨⟨hsem, _⟩, rfl⟩ := hs
    apply rank_set c s v _ (has_of_sem c s ht v hsem) _ _ _ rfl rfl rfl
    · intro hk; simpa [kk] using hk
    · simp [vw, hsem]

/-! ### the invariant `TInv` -/

theorem tinv_init (c : Cfg) : TInv c initSched := by
  intro v _; simp [initSched, Sched.get]

theorem tinv_set (c : Cfg) (s : Sched) (ht : TInv c s) (v : Nat) (x : VState) (hv : c.g.has v = true)
    (s' : Sched) (hs' : s'.vs = (s.set v x).vs) : TInv c s' := by
  intro y hy
  have hne : y ≠ v := by intro e; subst e; rw [hv] at hy; cases hy
  have : s'.get y = s.get y := by
    have : s'.get y = (s.set v x).get y := by simp [Sched.get, hs']
    rw [this, get_set_ne _ _ _ _ hne]
  rw [this]; exact ht y hy

theorem has_true_of_mem {c : Cfg} {v : Nat} (h : v ∈ c.g.ids) : c.g.has v = true := (has_iff_mem_ids _ _).mpr h

theorem tinv_step (c : Cfg) (s s' : Sched) (ev : Event) (ht : TInv c s) (hs : step? c s ev = some s') : TInv c s' := by
  cases ev with
  | idle =>
    simp only [step?] at hs
    split at hs
    · simp at hs
    · split at hs
      · simp at hs
      · split at hs
        · simp at hs
        · simp only [Option.some.injEq] at hs; subst hs; exact ht
  | pickReal v =>
    simp [step?] at hs
    obtain ⟨_, ⟨⟨⟨⟨hhas, _⟩, _⟩, _⟩, _⟩, rfl⟩ := hs
    exact tinv_set c s ht v _ hhas _ rfl
  | pickSkip v =>
    simp [step?] at hs
    obtain ⟨_, ⟨⟨⟨hhas, _⟩, _⟩, _⟩, rfl⟩ := hs
    exact tinv_set c s ht v _ hhas _ rfl
  | pickErr v =>
    simp [step?] at hs
    obtain ⟨_, ⟨⟨⟨⟨hhas, _⟩, _⟩, _⟩, _⟩, rfl⟩ := hs
    exact tinv_set c s ht v _ hhas _ rfl
  | recv v r =>
    obtain ⟨hhas, _, hcase⟩ := recv_cases c s s' v r hs
    rcases hcase with ⟨_, hvs, _, _⟩ | ⟨_, rfl⟩
    · exact tinv_set c s ht v _ hhas s' hvs
    · have h1 := tinv_set c s ht v (recvV (s.get v) r) hhas _ rfl
      intro y hy
      rw [markAncestors_get]
      split
      · simp only [markOne]; exact h1 y hy
      · exact h1 y hy
  | cancel =>
    simp [step?] at hs
    obtain ⟨_, _, rfl⟩ := hs
    exact ht
  | exit =>
    simp [step?] at hs
    obtain ⟨_, _, rfl⟩ := hs
    exact ht
  | semAcq v =>
    simp [step?] at hs
    obtain ⟨_, ⟨hfl, _⟩, rfl⟩ := hs
    exact tinv_set c s ht v _ (has_true_of_mem (has_of_fl c s ht v (by rw [hfl]; simp))) _ rfl
  | lockAcq v =>
    simp [step?] at hs
    obtain ⟨_, hfl, rfl⟩ := hs
    exact tinv_set c s ht v _ (has_true_of_mem (has_of_fl c s ht v (by rw [hfl]; simp))) _ rfl
  | enter v k =>
    simp [step?] at hs
    obtain ⟨_, ⟨hfl, _⟩, rfl⟩ := hs
    exact tinv_set c s ht v _ (has_true_of_mem (has_of_fl c s ht v (by rw [hfl]; simp))) _ rfl
  | leave v k r =>
    simp only [step?] at hs
    split at hs
    · simp at hs
    · split at hs
      · rename_i hcond
        simp only [Bool.and_eq_true, beq_iff_eq] at hcond
        have hv := has_true_of_mem (has_of_fl c s ht v (by rw [hcond.1]; simp))
        split at hs <;> (simp only [Option.some.injEq] at hs; subst hs; exact tinv_set c s ht v _ hv _ rfl)
      · simp at hs
  | semRel v =>
    simp [step?] at hs
    obtain ⟨⟨hsem, _⟩, rfl⟩ := hs
    exact tinv_set c s ht v _ (has_true_of_mem (has_of_sem c s ht v hsem)) _ rfl

/-! ### termination -/

/-- one scheduler move other than the idle poll, from a state satisfying the invariants -/
def Moves (c : Cfg) (s' s : Sched) : Prop :=
  SInv c s ∧ TInv c s ∧ ∃ ev, ev ≠ Event.idle ∧ step? c s ev = some s'

/-- **`Run` cannot go on for ever**: the relation "one non-idle scheduler event" is well-founded on
the states satisfying the scheduler invariants — there is no infinite sequence of picks, completions,
acquisitions, attempts, releases, cancellation and exit; every execution is finite up to idle polls
(whose number between two other events is bounded by the tasks' running time, outside the model). -/
theorem moves_wf (c : Cfg) (hg : GInv c.g) : WellFounded (Moves c) := by
  apply Subrelation.wf (r := InvImage RankLt (rank c))
  · intro s' s hm
    obtain ⟨hsi, hti, ev, hne, hst⟩ := hm
    exact step_rank c hg s s' ev hsi hti hst hne
  · exact InvImage.wf _ (Prod.lex Nat.lt_wfRel Nat.lt_wfRel).wf

end GoModel.Dag

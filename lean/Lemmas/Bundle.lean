import Lemmas.Obs
import Lemmas.Split
import Lemmas.Sim
/-! Loop-level rewriting law of Bundling mode: a bundle of flags followed by any declared option is
processed like the separate tokens. -/
namespace GoModel

variable (ext : Ext) (mode : Mode)

theorem isOption_true_ne_dashdash (t : Str) (ps : List Pair) (h : isOption t mode = (ps, true)) : t ≠ dashdash := by
  intro e; subst e
  simp [isOption, dashdash] at h

/-- `ts` are tokens that split into exactly the single pairs `ps`, one each -/
inductive Splits : List Str → List Pair → Prop
  | nil : Splits [] []
  | cons {t : Str} {p : Pair} {ts : List Str} {ps : List Pair} :
      isOption t mode = ([p], true) → Splits ts ps → Splits (t :: ts) (p :: ps)

theorem obs_headState (s : PState) (t : Str) : ObsEq (headState s t) s := ⟨rfl, rfl, rfl, rfl, rfl, rfl, rfl, rfl⟩

/-- processing a run of flags keeps the parser at a head position and keeps every flag a flag -/
theorem drain_flags_inv (ps : List Pair) (s : PState) (he : s.err = none) (hc : s.ctx = .idle)
    (hf : ∀ p ∈ ps, FlagPair s p) :
    (drain ext s ps).err = none ∧ (drain ext s ps).ctx = .idle ∧
    (∀ q, FlagPair s q → FlagPair (drain ext s ps) q) ∧ (∀ q, Known s q → Known (drain ext s ps) q) := by
  induction ps generalizing s with
  | nil =>
    refine ⟨by simpa [drain] using he, by simpa [drain] using hc, ?_, ?_⟩
    · intro q hq; exact ⟨hq.bare, hq.known⟩
    · intro q hq; exact hq
  | cons p ps ih =>
    have hfp : FlagPair { s with pending := ps } p := by
      have := hf p (by simp); exact ⟨this.bare, this.known⟩
    have e2 := procPair_flag ext { s with pending := ps } p hfp
    have he' : (procPair ext { s with pending := ps } p).err = none := by rw [e2.1]; exact he
    have hc' : (procPair ext { s with pending := ps } p).ctx = .idle := by rw [e2.2]; exact hc
    rw [drain_cons_idle ext s p ps he' hc']
    have hf' : ∀ r ∈ ps, FlagPair (procPair ext { s with pending := ps } p) r := fun r hr =>
      flag_after ext _ p r (by have := hf r (by simp [hr]); exact ⟨this.bare, this.known⟩)
    have ih' := ih _ he' hc' hf'
    refine ⟨ih'.1, ih'.2.1, ?_, ?_⟩
    · intro q hq; exact ih'.2.2.1 q (flag_after ext _ p q ⟨hq.bare, hq.known⟩)
    · intro q hq; exact ih'.2.2.2 q (known_after ext _ p q (by obtain ⟨k, hk⟩ := hq; exact ⟨k, hk⟩))

/-- the flags of a bundle, processed in one go, against the separate tokens `-x`, `-y`, … -/
theorem flags_fold (ps : List Pair) (ts : List Str) (s : PState) (t0 : Str)
    (he : s.err = none) (hc : s.ctx = .idle)
    (hts : Splits mode ts ps)
    (hf : ∀ p ∈ ps, FlagPair s p) :
    ObsEq (drain ext (headState s t0) ps) (ts.foldl (step ext mode) s) := by
  induction hts generalizing s t0 with
  | nil => exact ⟨rfl, rfl, rfl, rfl, rfl, rfl, rfl, rfl⟩
  | @cons t p ts ps htp _ ih =>
    have hfH : ∀ q ∈ p :: ps, FlagPair (headState s t0) q := fun q hq =>
      flag_congr (obs_headState s t0).symm (hf q hq)
    -- split the drain after the first flag
    have hsplit := drain_append_flags ext [p] ps (headState s t0) he hc
      (fun q hq => hfH q (by simp at hq; simp [hq]))
      (fun q hq => (hfH q (by simp [hq])).toKnown)
    simp only [List.singleton_append] at hsplit
    -- the separate token
    have hstep : step ext mode s t = drain ext (headState s t) [p] :=
      step_head_option ext mode s t [p] he hc (isOption_true_ne_dashdash mode t _ htp) htp
    have hfT : ∀ q ∈ [p], FlagPair (headState s t) q := fun q hq =>
      flag_congr (obs_headState s t).symm (hf q (by simp at hq; simp [hq]))
    have inv := drain_flags_inv ext [p] (headState s t) he hc hfT
    simp only [List.foldl_cons]
    rw [hstep]
    -- both first-flag states are observationally equal
    have h1 : ObsEq (drain ext (headState s t0) [p]) (drain ext (headState s t) [p]) :=
      drain_known_obs ext [p] _ _ ⟨rfl, rfl, rfl, rfl, rfl, rfl, rfl, rfl⟩
        (fun q hq => (hfH q (by simp at hq; simp [hq])).toKnown)
    have hf1 : ∀ q ∈ ps, FlagPair (drain ext (headState s t) [p]) q := fun q hq =>
      inv.2.2.1 q (flag_congr (obs_headState s t).symm (hf q (by simp [hq])))
    have ih' := ih (drain ext (headState s t) [p]) t0 inv.1 inv.2.1 hf1
    refine hsplit.1.trans (ObsEq.trans ?_ ih')
    exact drain_known_obs ext ps _ _ (h1.trans (obs_headState _ t0).symm) hsplit.2.2.2

/-- **Bundling rewriting law at a head position.** If the token `t` splits into the flag pairs `ps`
followed by the pair `pz` of a declared option, `ts` are tokens that split into the single pairs of
`ps`, and `tl` splits into `pz`, then processing `t` leaves the parser in the same observable state
as processing `ts ++ [tl]`. -/
theorem bundle_rewrite_head (s : PState) (t tl : Str) (ts : List Str) (ps : List Pair) (pz : Pair)
    (he : s.err = none) (hc : s.ctx = .idle)
    (ht : isOption t mode = (ps ++ [pz], true))
    (hts : Splits mode ts ps)
    (htl : isOption tl mode = ([pz], true))
    (hf : ∀ p ∈ ps, FlagPair s p) (hz : Known s pz) :
    ObsEq (step ext mode s t) ((ts ++ [tl]).foldl (step ext mode) s) := by
  rw [step_head_option ext mode s t _ he hc (isOption_true_ne_dashdash mode t _ ht) ht]
  have hfH : ∀ q ∈ ps, FlagPair (headState s t) q := fun q hq =>
    flag_congr (obs_headState s t).symm (hf q hq)
  have hzH : Known (headState s t) pz := known_congr (obs_headState s t).symm hz
  have hsplit := drain_append_flags ext ps [pz] (headState s t) he hc hfH
    (fun q hq => by simp at hq; subst hq; exact hzH)
  have hfold := flags_fold ext mode ps ts s t he hc hts hf
  rw [List.foldl_append]
  simp only [List.foldl_cons, List.foldl_nil]
  have heS : (ts.foldl (step ext mode) s).err = none := by rw [← hfold.err]; exact hsplit.2.1
  have hcS : (ts.foldl (step ext mode) s).ctx = .idle := by rw [← hfold.ctx]; exact hsplit.2.2.1
  rw [step_head_option ext mode _ tl [pz] heS hcS (isOption_true_ne_dashdash mode tl _ htl) htl]
  refine hsplit.1.trans ?_
  exact drain_known_obs ext [pz] _ _ (hfold.trans (obs_headState _ tl).symm) hsplit.2.2.2

/-- tokens with the same pairs, all declared, are processed identically at a head position -/
theorem same_pairs_head (s : PState) (t t' : Str) (ps : List Pair)
    (he : s.err = none) (hc : s.ctx = .idle)
    (ht : isOption t mode = (ps, true)) (ht' : isOption t' mode = (ps, true))
    (hk : ∀ p ∈ ps, Known s p) :
    ObsEq (step ext mode s t) (step ext mode s t') := by
  rw [step_head_option ext mode s t _ he hc (isOption_true_ne_dashdash mode t _ ht) ht,
      step_head_option ext mode s t' _ he hc (isOption_true_ne_dashdash mode t' _ ht') ht']
  exact drain_known_obs ext ps _ _ ⟨rfl, rfl, rfl, rfl, rfl, rfl, rfl, rfl⟩
    (fun p hp => known_congr (obs_headState s t).symm (hk p hp))

theorem drain_single_pending (s : PState) (p : Pair) :
    (drain ext s [p]).err.isSome = true ∨ (drain ext s [p]).pending = [] := by
  unfold drain
  simp only
  by_cases he : (procPair ext { s with pending := [] } p).err.isSome = true
  · simp [he]
  · simp only [he, Bool.false_eq_true, ↓reduceIte]
    cases hc : (procPair ext { s with pending := [] } p).ctx <;> simp [drain]

theorem drain_flags_last_pending (ps : List Pair) (pz : Pair) (s : PState) (he : s.err = none) (hc : s.ctx = .idle)
    (hf : ∀ p ∈ ps, FlagPair s p) :
    (drain ext s (ps ++ [pz])).err.isSome = true ∨ (drain ext s (ps ++ [pz])).pending = [] := by
  induction ps generalizing s with
  | nil => exact drain_single_pending ext s pz
  | cons p ps ih =>
    have hfp : FlagPair { s with pending := ps ++ [pz] } p := by
      have := hf p (by simp); exact ⟨this.bare, this.known⟩
    have e2 := procPair_flag ext { s with pending := ps ++ [pz] } p hfp
    have he' : (procPair ext { s with pending := ps ++ [pz] } p).err = none := by rw [e2.1]; exact he
    have hc' : (procPair ext { s with pending := ps ++ [pz] } p).ctx = .idle := by rw [e2.2]; exact hc
    rw [List.cons_append, drain_cons_idle ext s p (ps ++ [pz]) he' hc']
    exact ih _ he' hc' (fun r hr =>
      flag_after ext _ p r (by have := hf r (by simp [hr]); exact ⟨this.bare, this.known⟩))

theorem sim_of_obs {a c : PState} (h : ObsEq a c)
    (ha : a.err.isSome = true ∨ a.pending = []) (hc : c.err.isSome = true ∨ c.pending = []) : Sim a c := by
  refine ⟨h, ?_⟩
  rcases ha with ha | ha
  · exact Or.inl (Or.inl ha)
  · rcases hc with hc | hc
    · exact Or.inl (Or.inl (by rw [h.err]; exact hc))
    · exact Or.inr (Or.inr ⟨ha, hc⟩)

/-- the bundle and its rewriting leave states from which every continuation behaves identically -/
theorem bundle_rewrite_sim (s : PState) (t tl : Str) (ts : List Str) (ps : List Pair) (pz : Pair)
    (he : s.err = none) (hc : s.ctx = .idle)
    (ht : isOption t mode = (ps ++ [pz], true)) (hts : Splits mode ts ps)
    (htl : isOption tl mode = ([pz], true))
    (hf : ∀ p ∈ ps, FlagPair s p) (hz : Known s pz) :
    Sim (step ext mode s t) ((ts ++ [tl]).foldl (step ext mode) s) := by
  have hobs := bundle_rewrite_head ext mode s t tl ts ps pz he hc ht hts htl hf hz
  refine sim_of_obs hobs ?_ ?_
  · rw [step_head_option ext mode s t _ he hc (isOption_true_ne_dashdash mode t _ ht) ht]
    exact drain_flags_last_pending ext ps pz (headState s t) he hc
      (fun q hq => flag_congr (obs_headState s t).symm (hf q hq))
  · rw [List.foldl_append]
    simp only [List.foldl_cons, List.foldl_nil]
    have hfold := flags_fold ext mode ps ts s t he hc hts hf
    have inv := drain_flags_inv ext ps (headState s t) he hc
      (fun q hq => flag_congr (obs_headState s t).symm (hf q hq))
    have heS : (ts.foldl (step ext mode) s).err = none := by rw [← hfold.err]; exact inv.1
    have hcS : (ts.foldl (step ext mode) s).ctx = .idle := by rw [← hfold.ctx]; exact inv.2.1
    rw [step_head_option ext mode _ tl [pz] heS hcS (isOption_true_ne_dashdash mode tl _ htl) htl]
    exact drain_single_pending ext _ pz

/-- two tokens that split into the same single pair of a declared option -/
theorem same_pair_sim (s : PState) (t t' : Str) (p : Pair)
    (he : s.err = none) (hc : s.ctx = .idle)
    (ht : isOption t mode = ([p], true)) (ht' : isOption t' mode = ([p], true)) (hk : Known s p) :
    Sim (step ext mode s t) (step ext mode s t') := by
  have hobs := same_pairs_head ext mode s t t' [p] he hc ht ht' (fun q hq => by simp at hq; subst hq; exact hk)
  refine sim_of_obs hobs ?_ ?_
  · rw [step_head_option ext mode s t _ he hc (isOption_true_ne_dashdash mode t _ ht) ht]
    exact drain_single_pending ext _ p
  · rw [step_head_option ext mode s t' _ he hc (isOption_true_ne_dashdash mode t' _ ht') ht']
    exact drain_single_pending ext _ p

/-- lifting to the whole command line: replace the tokens `us` by `vs` after the prefix `pre` -/
theorem parse_of_sim (P : Prog) (pre us vs post : List Str)
    (h : Sim (us.foldl (step ext mode) (run ext mode P pre)) (vs.foldl (step ext mode) (run ext mode P pre))) :
    ObsEq (parseArgs ext mode P (pre ++ us ++ post)) (parseArgs ext mode P (pre ++ vs ++ post)) := by
  unfold parseArgs run
  simp only [List.foldl_append]
  exact finish_sim ext _ _ (foldl_sim ext mode post _ _ h)

end GoModel

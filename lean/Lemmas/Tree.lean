import Model.Define
/-! Frame lemmas for the definition phase: copying options down the tree only touches `opts`. -/
namespace GoModel

/-- a node without its option table -/
def Node.shell (n : Node) : Node := { n with opts := [] }
def Prog.shells (P : Prog) : List Node := P.nodes.map Node.shell

theorem shells_setNode_opts (P : Prog) (c : Nat) (X : List (Str × Nat)) :
    (P.setNode c { P.node c with opts := X }).shells = P.shells := by
  unfold Prog.shells Prog.setNode
  simp only [List.map_set]
  apply List.ext_getElem?
  intro i
  rw [List.getElem?_set]
  split
  · rename_i h
    subst h
    split
    · rename_i hlt
      simp only [List.length_map] at hlt
      simp [Prog.node, List.getD, List.getElem?_eq_getElem hlt, Node.shell]
    · rename_i hge
      simp only [List.length_map] at hge
      simp [List.getElem?_eq_none (Nat.le_of_not_lt hge)]
  · rfl

theorem node_shell_of_shells {P Q : Prog} (h : Q.shells = P.shells) (n : Nat) :
    (Q.node n).shell = (P.node n).shell := by
  have : (Q.shells)[n]? = (P.shells)[n]? := by rw [h]
  unfold Prog.shells at this
  simp only [List.getElem?_map] at this
  unfold Prog.node
  simp only [List.getD_eq_getElem?_getD]
  cases hq : Q.nodes[n]? <;> cases hp : P.nodes[n]? <;> simp [hq, hp] at this ⊢
  exact this

theorem copyStep_shells (pn : Node) (ks : List Nat) (Q : Prog) :
    (ks.foldl (fun A c =>
      let cn := A.node c
      if cn.name == pn.helpName || cn.skipCopy then A
      else A.setNode c { cn with opts := pn.opts.foldl (fun acc kv => insertKV kv.1 kv.2 acc) cn.opts }) Q).shells
      = Q.shells := by
  induction ks generalizing Q with
  | nil => rfl
  | cons k ks ihk =>
    simp only [List.foldl_cons]
    rw [ihk]
    split
    · rfl
    · exact shells_setNode_opts Q k _

theorem copyOpts_shells (fuel : Nat) (P : Prog) (parent : Nat) : (copyOpts fuel P parent).shells = P.shells := by
  induction fuel generalizing P parent with
  | zero => rfl
  | succ fuel ih =>
    unfold copyOpts
    simp only
    have h2 : ∀ (ks : List Nat) (Q : Prog), (ks.foldl (fun A c => copyOpts fuel A c) Q).shells = Q.shells := by
      intro ks
      induction ks with
      | nil => intro Q; rfl
      | cons k ks ihk => intro Q; simp only [List.foldl_cons]; rw [ihk, ih]
    rw [h2, copyStep_shells]

theorem node_setNode (P : Prog) (k n : Nat) (x : Node) :
    (P.setNode k x).node n = if n = k ∧ k < P.nodes.length then x else P.node n := by
  unfold Prog.setNode Prog.node
  simp only [List.getD_eq_getElem?_getD, List.getElem?_set]
  by_cases h : k = n
  · subst h
    by_cases hl : k < P.nodes.length
    · simp [hl]
    · simp [hl, List.getElem?_eq_none (Nat.le_of_not_lt hl)]
  · have : ¬ (n = k ∧ k < P.nodes.length) := fun e => h e.1.symm
    simp [h, this]

theorem node_append_new (P : Prog) (nd : Node) :
    ({ P with nodes := P.nodes ++ [nd] } : Prog).node P.nodes.length = nd := by
  simp [Prog.node]

variable (ext : Ext)

/-- **A command created under a parent carries the parent's require-order flag, unknown-mode and
map-key setting** (whatever options are copied afterwards). -/
theorem cmd_inherits (env : Env) (st st' : BState) (h : Nat) (name desc : Str) (p : Nat)
    (hp : st.handles[h]? = some p)
    (hb : buildStep ext env st (.cmd h name desc) = .ok st') :
    st'.handles = st.handles ++ [st.P.nodes.length] ∧
    (st'.P.node st.P.nodes.length).requireOrder = (st.P.node p).requireOrder ∧
    (st'.P.node st.P.nodes.length).umode = (st.P.node p).umode ∧
    (st'.P.node st.P.nodes.length).mapKeysToLower = (st.P.node p).mapKeysToLower ∧
    (st'.P.node st.P.nodes.length).parent = some p ∧
    (st'.P.node st.P.nodes.length).name = name := by
  simp only [buildStep, handle, hp, bind, Except.bind] at hb
  split at hb
  · simp at hb
  · rename_i v hv
    obtain ⟨P1, id⟩ := v
    simp only [pure, Except.pure, Except.ok.injEq] at hb
    unfold addChildCommand at hv
    split at hv
    · simp at hv
    · split at hv
      · simp at hv
      · simp only [Except.ok.injEq, Prod.mk.injEq] at hv
        obtain ⟨hP1, hid⟩ := hv
        subst hid
        subst hb
        refine ⟨rfl, ?_⟩
        simp only
        have hsh := node_shell_of_shells (copyOpts_shells P1.nodes.length P1 p) st.P.nodes.length
        have hnode : ∃ c, P1.node st.P.nodes.length =
            { ({ name := name, description := desc, helpName := (st.P.node p).helpName, parent := some p,
                 mapKeysToLower := (st.P.node p).mapKeysToLower, umode := (st.P.node p).umode,
                 requireOrder := (st.P.node p).requireOrder } : Node) with cmds := c } := by
          rw [← hP1]
          unfold Prog.modNode
          rw [node_setNode]
          split
          · rename_i hc
            rw [← hc.1, node_append_new]
            exact ⟨_, rfl⟩
          · rw [node_append_new]
            exact ⟨_, rfl⟩
        obtain ⟨c, hc⟩ := hnode
        rw [hc] at hsh
        have e1 := congrArg Node.requireOrder hsh
        have e2 := congrArg Node.umode hsh
        have e3 := congrArg Node.mapKeysToLower hsh
        have e4 := congrArg Node.parent hsh
        have e5 := congrArg Node.name hsh
        simp only [Node.shell] at e1 e2 e3 e4 e5
        exact ⟨e1, e2, e3, e4, e5⟩

end GoModel

import Lemmas.Perm
/-! The parse does not depend on the iteration order of the option and command tables: permuting
the tables of every node (keys distinct) changes nothing but the tables themselves. -/
namespace GoModel

variable (ext : Ext) (mode : Mode)

/-- `n'` is `n` with its two tables iterated in another order -/
structure NodePerm (n n' : Node) : Prop where
  opts : n.opts.Perm n'.opts
  cmds : n.cmds.Perm n'.cmds
  ndO : (n.opts.map (·.1)).Nodup
  ndC : (n.cmds.map (·.1)).Nodup
  rest : ({ n with opts := [], cmds := [] } : Node) = { n' with opts := [], cmds := [] }

/-- every node of `N'` is the node of `P` with permuted tables -/
def NPerm (P : Prog) (N' : List Node) : Prop := ∀ i, NodePerm (P.node i) (N'.getD i dummyNode)

/-- the same parser state over the permuted node list -/
def PState.wn (s : PState) (N' : List Node) : PState := { s with P := { s.P with nodes := N' } }

theorem wn_node (s : PState) (N' : List Node) (i : Nat) : (s.wn N').P.node i = N'.getD i dummyNode := rfl

theorem NodePerm.ro {n n' : Node} (h : NodePerm n n') : n'.requireOrder = n.requireOrder :=
  (congrArg Node.requireOrder h.rest).symm
theorem NodePerm.um {n n' : Node} (h : NodePerm n n') : n'.umode = n.umode :=
  (congrArg Node.umode h.rest).symm
theorem NodePerm.mk2l {n n' : Node} (h : NodePerm n n') : n'.mapKeysToLower = n.mapKeysToLower :=
  (congrArg Node.mapKeysToLower h.rest).symm

theorem procPair_wn (s : PState) (p : Pair) (N' : List Node) (h : NPerm s.P N') :
    procPair ext (s.wn N') p = (procPair ext s p).wn N' := by
  have hn := h s.cur
  have hnode : (s.wn N').P.node (s.wn N').cur = N'.getD s.cur dummyNode := rfl
  have hn0 : ((s.wn N').P.node 0).mapKeysToLower = (s.P.node 0).mapKeysToLower := (h 0).mk2l
  have ho := resolve_perm_outcome (s.P.node s.cur) (N'.getD s.cur dummyNode) p.opt hn.opts hn.ndO
  cases hr : resolve (s.P.node s.cur) p.opt with
  | nil =>
    have hr' : resolve ((s.wn N').P.node (s.wn N').cur) p.opt = [] := by rw [hnode]; exact ho.1.mp hr
    cases hro : (s.P.node s.cur).requireOrder with
    | true =>
      have hro' : ((s.wn N').P.node (s.wn N').cur).requireOrder = true := by rw [hnode, hn.ro]; exact hro
      rw [procPair_unknown_ro ext s p hr hro, procPair_unknown_ro ext (s.wn N') p hr' hro']
      rfl
    | false =>
      have hro' : ((s.wn N').P.node (s.wn N').cur).requireOrder = false := by rw [hnode, hn.ro]; exact hro
      rw [procPair_unknown ext s p hr hro, procPair_unknown ext (s.wn N') p hr' hro', hnode, hn.um]
      have hp : (s.wn N').passed = s.passed := rfl
      rw [hp]
      by_cases hx : ((s.P.node s.cur).umode != UMode.fail && !s.passed) = true
      · simp only [hx, ↓reduceIte]; rfl
      · simp only [hx, Bool.false_eq_true, ↓reduceIte]; rfl
  | cons k1 rest =>
    cases rest with
    | nil =>
      have hr' : resolve ((s.wn N').P.node (s.wn N').cur) p.opt = [k1] := by rw [hnode]; exact (ho.2.1 k1).mp hr
      have hlk : lookup k1 ((s.wn N').P.node (s.wn N').cur).opts = lookup k1 (s.P.node s.cur).opts := by
        rw [hnode]; exact (lookup_perm _ _ k1 hn.opts hn.ndO).symm
      cases hl : lookup k1 (s.P.node s.cur).opts with
      | none =>
        rw [procPair_known_nolookup ext s p k1 hr hl, procPair_known_nolookup ext (s.wn N') p k1 hr' (by rw [hlk]; exact hl)]
      | some oid =>
        rw [procPair_known ext s p k1 oid hr hl, procPair_known ext (s.wn N') p k1 oid hr' (by rw [hlk]; exact hl), hn0]
        have hm : matched (s.wn N') oid k1 = matched s oid k1 := by
          unfold matched; rw [hn0]; rfl
        rw [hm]
        cases save ext (s.P.node 0).mapKeysToLower (matched s oid k1) p.args with
        | error e => rfl
        | ok o' => simp only; split <;> rfl
    | cons k2 ks =>
      have hs := ho.2.2
      rw [hr] at hs
      cases hr' : resolve ((s.wn N').P.node (s.wn N').cur) p.opt with
      | nil => rw [hnode] at hr'; rw [ho.1.mpr hr'] at hr; cases hr
      | cons j1 jr =>
        cases jr with
        | nil => rw [hnode] at hr'; rw [(ho.2.1 j1).mpr hr'] at hr; cases hr
        | cons j2 js =>
          rw [procPair_amb ext s p k1 k2 ks hr, procPair_amb ext (s.wn N') p j1 j2 js hr']
          rw [hnode] at hr'
          rw [hr'] at hs
          rw [← hs]
          rfl

theorem nperm_procPair (s : PState) (p : Pair) (N' : List Node) (h : NPerm s.P N') :
    NPerm (procPair ext s p).P N' := by
  intro i; rw [(procPair_cur_nodes ext s p).2 i]; exact h i

theorem drain_wn (ps : List Pair) (s : PState) (N' : List Node) (h : NPerm s.P N') :
    drain ext (s.wn N') ps = (drain ext s ps).wn N' ∧ NPerm (drain ext s ps).P N' := by
  induction ps generalizing s with
  | nil => exact ⟨rfl, h⟩
  | cons p ps ih =>
    unfold drain
    simp only
    have hsw : ({ s.wn N' with pending := ps } : PState) = ({ s with pending := ps } : PState).wn N' := rfl
    rw [hsw, procPair_wn ext { s with pending := ps } p N' h]
    have h1 := nperm_procPair ext { s with pending := ps } p N' h
    have he' : (procPair ext { s with pending := ps } p |>.wn N').err = (procPair ext { s with pending := ps } p).err := rfl
    have hc' : (procPair ext { s with pending := ps } p |>.wn N').ctx = (procPair ext { s with pending := ps } p).ctx := rfl
    rw [he', hc']
    by_cases he : (procPair ext { s with pending := ps } p).err.isSome = true
    · simp only [he, ↓reduceIte]; exact ⟨trivial, h1⟩
    · simp only [he, Bool.false_eq_true, ↓reduceIte]
      cases hc : (procPair ext { s with pending := ps } p).ctx with
      | idle => exact ih _ h1
      | collecting o i => exact ⟨rfl, h1⟩
      | stopped => exact ⟨rfl, h1⟩
      | done => exact ⟨rfl, h1⟩

theorem offer_wn (s : PState) (o i : Nat) (t : Str) (N' : List Node) (h : NPerm s.P N') :
    offer ext mode (s.wn N') o i t = ((offer ext mode s o i t).1.wn N', (offer ext mode s o i t).2) ∧
    NPerm (offer ext mode s o i t).1.P N' := by
  have hn0 : ((s.wn N').P.node 0).mapKeysToLower = (s.P.node 0).mapKeysToLower := (h 0).mk2l
  unfold offer
  simp only [hn0]
  have ho : (s.wn N').P.opt o = s.P.opt o := rfl
  rw [ho]
  by_cases h1 : ((i : Int) < (s.P.opt o).min)
  · simp only [h1, ↓reduceIte]
    by_cases h2 : looksLikeOption t mode = true
    · simp only [h2, ↓reduceIte]; exact ⟨rfl, h⟩
    · simp only [h2, Bool.false_eq_true, ↓reduceIte]
      cases save ext (s.P.node 0).mapKeysToLower (s.P.opt o) [t] <;> exact ⟨rfl, h⟩
  · simp only [h1, ↓reduceIte]
    by_cases h2 : (looksLikeOption t mode || t == dashdash || !typeOk ext (s.P.opt o).kind t) = true
    · simp only [h2, ↓reduceIte]; exact ⟨rfl, h⟩
    · simp only [h2, Bool.false_eq_true, ↓reduceIte]
      cases save ext (s.P.node 0).mapKeysToLower (s.P.opt o) [t] <;> exact ⟨rfl, h⟩

theorem afterConsume_wn (s : PState) (ps : List Pair) (N' : List Node) (h : NPerm s.P N') :
    afterConsume ext (s.wn N') ps = (afterConsume ext s ps).wn N' ∧ NPerm (afterConsume ext s ps).P N' := by
  unfold afterConsume
  have he' : (s.wn N').err = s.err := rfl
  have hc' : (s.wn N').ctx = s.ctx := rfl
  rw [he', hc']
  by_cases he : s.err.isSome = true
  · simp only [he, ↓reduceIte]; exact ⟨trivial, h⟩
  · simp only [he, Bool.false_eq_true, ↓reduceIte]
    cases hc : s.ctx with
    | idle => exact drain_wn ext ps s N' h
    | collecting o i => exact ⟨rfl, h⟩
    | stopped => exact ⟨rfl, h⟩
    | done => exact ⟨rfl, h⟩

theorem head_wn (s : PState) (t : Str) (N' : List Node) (h : NPerm s.P N') :
    head ext mode none (s.wn N') t = (head ext mode none s t).wn N' ∧ NPerm (head ext mode none s t).P N' := by
  have hn := h s.cur
  have hnode : (s.wn N').P.node (s.wn N').cur = N'.getD s.cur dummyNode := rfl
  unfold head
  simp only
  by_cases hd : (t == dashdash) = true
  · simp only [hd, ↓reduceIte]; exact ⟨rfl, h⟩
  · simp only [hd, Bool.false_eq_true, ↓reduceIte]
    cases hopt : isOption t mode with
    | mk pairs isopt =>
      cases isopt with
      | true => exact drain_wn ext pairs { s with tok := t, lastTok := t, passed := false } N' h
      | false =>
        simp only
        rw [hnode, ← lookup_perm _ _ t hn.cmds hn.ndC, hn.ro]
        cases hl : lookup t (s.P.node s.cur).cmds with
        | some c => exact ⟨rfl, h⟩
        | none =>
          simp only
          by_cases hro : (s.P.node s.cur).requireOrder = true
          · simp only [hro, ↓reduceIte]; exact ⟨rfl, h⟩
          · simp only [hro, Bool.false_eq_true, ↓reduceIte]; exact ⟨rfl, h⟩

theorem feedPending_wn (t : Str) (ps : List Pair) (s : PState) (N' : List Node) (h : NPerm s.P N') :
    feedPending ext mode none t (s.wn N') ps = (feedPending ext mode none t s ps).wn N' ∧
    NPerm (feedPending ext mode none t s ps).P N' := by
  induction ps generalizing s with
  | nil =>
    unfold feedPending
    exact head_wn ext mode { s with pending := [] } t N' h
  | cons p ps ih =>
    unfold feedPending
    simp only
    have hsw : ({ s.wn N' with pending := ps } : PState) = ({ s with pending := ps } : PState).wn N' := rfl
    rw [hsw, procPair_wn ext { s with pending := ps } p N' h]
    have h1 := nperm_procPair ext { s with pending := ps } p N' h
    have he' : (procPair ext { s with pending := ps } p |>.wn N').err = (procPair ext { s with pending := ps } p).err := rfl
    have hc' : (procPair ext { s with pending := ps } p |>.wn N').ctx = (procPair ext { s with pending := ps } p).ctx := rfl
    rw [he', hc']
    by_cases he : (procPair ext { s with pending := ps } p).err.isSome = true
    · simp only [he, ↓reduceIte]; exact ⟨trivial, h1⟩
    · simp only [he, Bool.false_eq_true, ↓reduceIte]
      cases hc : (procPair ext { s with pending := ps } p).ctx with
      | idle => exact ih _ h1
      | collecting o i =>
        simp only
        have hof := offer_wn ext mode (procPair ext { s with pending := ps } p) o i t N' h1
        rw [hof.1]
        have h2 := hof.2
        generalize offer ext mode (procPair ext { s with pending := ps } p) o i t = r at h2 ⊢
        obtain ⟨s2, b⟩ := r
        cases b with
        | true => exact afterConsume_wn ext s2 ps N' h2
        | false => exact ih s2 h2
      | stopped => exact ⟨rfl, h1⟩
      | done => exact ⟨rfl, h1⟩

theorem step_wn (s : PState) (t : Str) (N' : List Node) (h : NPerm s.P N') :
    step ext mode (s.wn N') t = (step ext mode s t).wn N' ∧ NPerm (step ext mode s t).P N' := by
  unfold step stepG
  have he' : (s.wn N').err = s.err := rfl
  have hc' : (s.wn N').ctx = s.ctx := rfl
  rw [he', hc']
  by_cases he : s.err.isSome = true
  · simp only [he, ↓reduceIte]; exact ⟨trivial, h⟩
  · simp only [he, Bool.false_eq_true, ↓reduceIte]
    cases hc : s.ctx with
    | done => exact ⟨rfl, h⟩
    | stopped => exact ⟨rfl, h⟩
    | idle => exact head_wn ext mode s t N' h
    | collecting o i =>
      simp only
      have hof := offer_wn ext mode s o i t N' h
      rw [hof.1]
      have h2 := hof.2
      generalize offer ext mode s o i t = r at h2 ⊢
      obtain ⟨s1, b⟩ := r
      cases b with
      | true => exact afterConsume_wn ext s1 s1.pending N' h2
      | false => exact feedPending_wn ext mode t s1.pending s1 N' h2

theorem foldl_wn (ts : List Str) (s : PState) (N' : List Node) (h : NPerm s.P N') :
    ts.foldl (step ext mode) (s.wn N') = (ts.foldl (step ext mode) s).wn N' ∧
    NPerm (ts.foldl (step ext mode) s).P N' := by
  induction ts generalizing s with
  | nil => exact ⟨rfl, h⟩
  | cons t ts ih =>
    simp only [List.foldl_cons]
    rw [(step_wn ext mode s t N' h).1]
    exact ih _ (step_wn ext mode s t N' h).2

theorem finishDrain_wn (ps : List Pair) (s : PState) (N' : List Node) (h : NPerm s.P N') :
    finishDrain ext (s.wn N') ps = (finishDrain ext s ps).wn N' := by
  induction ps generalizing s with
  | nil => rfl
  | cons p ps ih =>
    unfold finishDrain
    simp only
    have hsw : ({ s.wn N' with pending := ps } : PState) = ({ s with pending := ps } : PState).wn N' := rfl
    rw [hsw, procPair_wn ext { s with pending := ps } p N' h]
    have h1 := nperm_procPair ext { s with pending := ps } p N' h
    have he' : (procPair ext { s with pending := ps } p |>.wn N').err = (procPair ext { s with pending := ps } p).err := rfl
    have hc' : (procPair ext { s with pending := ps } p |>.wn N').ctx = (procPair ext { s with pending := ps } p).ctx := rfl
    rw [he', hc']
    by_cases he : (procPair ext { s with pending := ps } p).err.isSome = true
    · simp only [he, ↓reduceIte]
    · simp only [he, Bool.false_eq_true, ↓reduceIte]
      cases hc : (procPair ext { s with pending := ps } p).ctx with
      | idle => exact ih _ h1
      | collecting o i =>
        simp only
        have ho : ((procPair ext { s with pending := ps } p).wn N').P.opt o = (procPair ext { s with pending := ps } p).P.opt o := rfl
        rw [ho]
        split
        · rfl
        · exact ih { procPair ext { s with pending := ps } p with ctx := .idle } h1
      | stopped => rfl
      | done => rfl

theorem finish_wn (s : PState) (N' : List Node) (h : NPerm s.P N') :
    finish ext (s.wn N') = (finish ext s).wn N' := by
  unfold finish
  have he' : (s.wn N').err = s.err := rfl
  have hc' : (s.wn N').ctx = s.ctx := rfl
  rw [he', hc']
  by_cases he : s.err.isSome = true
  · simp only [he, ↓reduceIte]
  · simp only [he, Bool.false_eq_true, ↓reduceIte]
    cases hc : s.ctx with
    | collecting o i =>
      simp only
      have ho : (s.wn N').P.opt o = s.P.opt o := rfl
      rw [ho]
      split
      · rfl
      · exact finishDrain_wn ext s.pending { s with ctx := .idle } N' h
    | idle => rfl
    | stopped => rfl
    | done => rfl

theorem finishDrain_nodes (ps : List Pair) (s : PState) (n : Nat) :
    (finishDrain ext s ps).P.node n = s.P.node n := by
  induction ps generalizing s with
  | nil => rfl
  | cons p ps ih =>
    unfold finishDrain
    simp only
    have h1 : (procPair ext { s with pending := ps } p).P.node n = s.P.node n :=
      (procPair_cur_nodes ext { s with pending := ps } p).2 n
    by_cases he : (procPair ext { s with pending := ps } p).err.isSome = true
    · simp only [he, ↓reduceIte]; exact h1
    · simp only [he, Bool.false_eq_true, ↓reduceIte]
      cases hc : (procPair ext { s with pending := ps } p).ctx with
      | idle => simp only; rw [ih]; exact h1
      | collecting o i =>
        simp only
        split
        · exact h1
        · rw [ih]; exact h1
      | stopped => exact h1
      | done => exact h1

theorem finish_nodes (s : PState) (n : Nat) : (finish ext s).P.node n = s.P.node n := by
  unfold finish
  by_cases he : s.err.isSome = true
  · simp only [he, ↓reduceIte]
  · simp only [he, Bool.false_eq_true, ↓reduceIte]
    cases hc : s.ctx with
    | collecting o i =>
      simp only
      split
      · rfl
      · rw [finishDrain_nodes]
    | idle => rfl
    | stopped => rfl
    | done => rfl

theorem parseArgs_nperm (P : Prog) (N' : List Node) (args : List Str) (h : NPerm P N') :
    NPerm (parseArgs ext mode P args).P N' := by
  intro i
  unfold parseArgs run
  rw [finish_nodes]
  exact (foldl_wn ext mode args (initState P) N' h).2 i

/-- **Whole parse**: over a program whose node tables are iterated in another order, the parse
produces the same state (option values, called flags, selected command, remaining arguments,
unknown-option log, error) — only the carried tables differ, as given. -/
theorem parseArgs_wn (P : Prog) (N' : List Node) (args : List Str) (h : NPerm P N') :
    parseArgs ext mode { P with nodes := N' } args = (parseArgs ext mode P args).wn N' := by
  unfold parseArgs run
  have h0 : initState { P with nodes := N' } = (initState P).wn N' := rfl
  rw [h0, (foldl_wn ext mode args (initState P) N' h).1]
  exact finish_wn ext _ N' (foldl_wn ext mode args (initState P) N' h).2

end GoModel

import Lemmas.Parse
/-! Parsing never changes the shape of the program: node records stay as declared and the option
table keeps its length (only option records are updated in place). -/
namespace GoModel

variable (ext : Ext) (mode : Mode)

/-- same node records, same number of options -/
def SameShape (A B : Prog) : Prop := (∀ n, A.node n = B.node n) ∧ A.opts.length = B.opts.length

theorem SameShape.refl (A : Prog) : SameShape A A := ⟨fun _ => rfl, rfl⟩
theorem SameShape.trans {A B C : Prog} (h1 : SameShape A B) (h2 : SameShape B C) : SameShape A C :=
  ⟨fun n => (h1.1 n).trans (h2.1 n), h1.2.trans h2.2⟩

theorem setOpt_shape (P : Prog) (o : Nat) (x : Opt) : SameShape (P.setOpt o x) P :=
  ⟨fun _ => rfl, by simp [Prog.setOpt]⟩

theorem procPair_shape (s : PState) (p : Pair) : SameShape (procPair ext s p).P s.P := by
  cases hr : resolve (s.P.node s.cur) p.opt with
  | nil =>
    cases hro : (s.P.node s.cur).requireOrder with
    | true => rw [procPair_unknown_ro ext s p hr hro]; exact SameShape.refl _
    | false => rw [procPair_unknown ext s p hr hro]; split <;> exact SameShape.refl _
  | cons k1 rest =>
    cases rest with
    | nil =>
      cases hl : lookup k1 (s.P.node s.cur).opts with
      | none => rw [procPair_known_nolookup ext s p k1 hr hl]; exact SameShape.refl _
      | some oid =>
        rw [procPair_known ext s p k1 oid hr hl]
        split
        · exact setOpt_shape _ _ _
        · split <;> exact setOpt_shape _ _ _
    | cons k2 ks => rw [procPair_amb ext s p k1 k2 ks hr]; exact SameShape.refl _

theorem offer_shape (s : PState) (o i : Nat) (t : Str) : SameShape (offer ext mode s o i t).1.P s.P := by
  unfold offer
  simp only
  split
  · split
    · exact SameShape.refl _
    · split
      · exact SameShape.refl _
      · exact setOpt_shape _ _ _
  · split
    · exact SameShape.refl _
    · split
      · exact SameShape.refl _
      · exact setOpt_shape _ _ _

theorem drain_shape (ps : List Pair) (s : PState) : SameShape (drain ext s ps).P s.P := by
  induction ps generalizing s with
  | nil => exact SameShape.refl _
  | cons p ps ih =>
    unfold drain
    simp only
    have h1 : SameShape (procPair ext { s with pending := ps } p).P s.P := procPair_shape ext _ p
    split
    · exact h1
    · split
      · exact (ih _).trans h1
      · exact h1
      · exact h1

theorem afterConsume_shape (s : PState) (ps : List Pair) : SameShape (afterConsume ext s ps).P s.P := by
  unfold afterConsume
  split
  · exact SameShape.refl _
  · split
    · exact drain_shape ext ps s
    · exact SameShape.refl _

theorem head_shape (s : PState) (t : Str) : SameShape (head ext mode none s t).P s.P := by
  unfold head
  simp only
  split
  · exact SameShape.refl _
  · split
    · exact drain_shape ext _ _
    · split
      · exact SameShape.refl _
      · split <;> exact SameShape.refl _

theorem feedPending_shape (t : Str) (ps : List Pair) (s : PState) :
    SameShape (feedPending ext mode none t s ps).P s.P := by
  induction ps generalizing s with
  | nil => exact head_shape ext mode _ t
  | cons p ps ih =>
    have h1 : SameShape (procPair ext { s with pending := ps } p).P s.P := procPair_shape ext _ p
    unfold feedPending
    simp only
    generalize procPair ext { s with pending := ps } p = s1 at h1 ⊢
    split
    · exact h1
    · split
      · exact (ih s1).trans h1
      · rename_i o i _
        have h2 := offer_shape ext mode s1 o i t
        generalize offer ext mode s1 o i t = r at h2 ⊢
        obtain ⟨s2, c⟩ := r
        cases c
        · exact ((ih s2).trans h2).trans h1
        · exact ((afterConsume_shape ext s2 ps).trans h2).trans h1
      · exact h1

theorem step_shape (s : PState) (t : Str) : SameShape (step ext mode s t).P s.P := by
  unfold step stepG
  split
  · exact SameShape.refl _
  · split
    · exact SameShape.refl _
    · exact SameShape.refl _
    · exact head_shape ext mode s t
    · rename_i o i _
      have h2 := offer_shape ext mode s o i t
      generalize offer ext mode s o i t = r at h2 ⊢
      obtain ⟨s2, c⟩ := r
      cases c
      · exact (feedPending_shape ext mode t _ s2).trans h2
      · exact (afterConsume_shape ext s2 _).trans h2

theorem foldl_shape (ts : List Str) (s : PState) : SameShape (ts.foldl (step ext mode) s).P s.P := by
  induction ts generalizing s with
  | nil => exact SameShape.refl _
  | cons t ts ih => exact (ih _).trans (step_shape ext mode s t)

/-- after any argument list: the node records and the size of the option table are those declared -/
theorem run_shape (P : Prog) (args : List Str) : SameShape (run ext mode P args).P P := by
  unfold run
  exact foldl_shape ext mode args (initState P)

end GoModel

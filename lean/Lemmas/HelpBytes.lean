import Model.Help
/-!
# The rendered help text contains the entry of every option, every synopsis item and every command line

The theorems of `Props/C18.lean` on the entry *lists* are lifted to the bytes: the text produced by
`helpOutput` with the default sections contains, as a contiguous piece, the complete entry of each listed
option (`helpString`: aliases joined by `|`, argument name, description, default / environment variable), the
synopsis item of each option, and the line of each sub-command.
-/
namespace GoModel

theorem infix_append_l {a x y : Str} (h : a <:+: x) : a <:+: x ++ y := by
  obtain ⟨s, t, e⟩ := h
  exact ⟨s, t ++ y, by rw [← e]; simp [List.append_assoc]⟩

theorem infix_append_r {a x y : Str} (h : a <:+: y) : a <:+: x ++ y := by
  obtain ⟨s, t, e⟩ := h
  exact ⟨x ++ s, t, by rw [← e]; simp [List.append_assoc]⟩

theorem infix_flatMap_of_mem {α} (f : α → Str) (l : List α) (x : α) (h : x ∈ l) : f x <:+: l.flatMap f := by
  induction l with
  | nil => cases h
  | cons y ys ih =>
    simp only [List.flatMap_cons]
    rcases List.mem_cons.mp h with e | e
    · subst e; exact infix_append_l (List.infix_refl _)
    · exact infix_append_r (ih e)

/-! ## option list -/

/-- the padding factor of a level's option list -/
def helpFactor (P : Prog) (nd : Node) : Nat :=
  let l0 := maxLen ((helpOptions P nd).map fun o => synopsisOf (P.opt o))
  (if showArgs nd.synArgs then Nat.max l0 (maxLen (nd.synArgs.map (·.1))) else l0) + 4

/-- the block of the required options, header included -/
def requiredBlock (ext : Ext) (P : Prog) (nd : Node) : Str :=
  ext.hdrRequired ++ b ":\n" ++ (requiredOpts P nd).flatMap fun o => helpString (P.opt o) (helpFactor P nd)

/-- the block of the other options, header included -/
def optionsBlock (ext : Ext) (P : Prog) (nd : Node) : Str :=
  ext.hdrOptions ++ b ":\n" ++ (normalOpts P nd).flatMap fun o => helpString (P.opt o) (helpFactor P nd)

theorem requiredBlock_in_list (ext : Ext) (P : Prog) (nd : Node) (h : requiredOpts P nd ≠ []) :
    requiredBlock ext P nd <:+: helpOptionList ext P nd := by
  unfold helpOptionList requiredBlock helpFactor
  simp only
  have he : (requiredOpts P nd).isEmpty = false := by cases hr : requiredOpts P nd <;> simp_all
  simp only [he, Bool.false_eq_true, ↓reduceIte]
  exact infix_append_l (infix_append_r (List.infix_refl _))

theorem optionsBlock_in_list (ext : Ext) (P : Prog) (nd : Node) (h : normalOpts P nd ≠ []) :
    optionsBlock ext P nd <:+: helpOptionList ext P nd := by
  unfold helpOptionList optionsBlock helpFactor
  simp only
  have he : (normalOpts P nd).isEmpty = false := by cases hr : normalOpts P nd <;> simp_all
  simp only [he, Bool.false_eq_true, ↓reduceIte]
  exact infix_append_r (List.infix_refl _)

theorem entry_in_requiredBlock (ext : Ext) (P : Prog) (nd : Node) (o : Nat) (h : o ∈ requiredOpts P nd) :
    helpString (P.opt o) (helpFactor P nd) <:+: requiredBlock ext P nd := by
  unfold requiredBlock
  exact infix_append_r (infix_flatMap_of_mem (fun o => helpString (P.opt o) (helpFactor P nd)) _ o h)

theorem entry_in_optionsBlock (ext : Ext) (P : Prog) (nd : Node) (o : Nat) (h : o ∈ normalOpts P nd) :
    helpString (P.opt o) (helpFactor P nd) <:+: optionsBlock ext P nd := by
  unfold optionsBlock
  exact infix_append_r (infix_flatMap_of_mem (fun o => helpString (P.opt o) (helpFactor P nd)) _ o h)

/-! ## sections of the default help -/

theorem section_in_default (ext : Ext) (P : Prog) (n : Nat) (sec : Section) (h : sec ∈ defaultSections) :
    helpSection ext P n sec <:+: helpOutput ext P n [] := by
  unfold helpOutput
  simp only [List.isEmpty_nil, ↓reduceIte]
  exact infix_flatMap_of_mem _ _ sec h

theorem optionList_in_default (ext : Ext) (P : Prog) (n : Nat) :
    helpOptionList ext P (P.node n) <:+: helpOutput ext P n [] :=
  section_in_default ext P n .optionList (by simp [defaultSections])

/-! ## synopsis -/

/-- line filling never loses an item: what was there stays, the new item is there -/
theorem synAdd_keeps (nameLen : Nat) (acc : Str × Str) (syn x : Str) (h : x <:+: acc.1 ++ acc.2) :
    x <:+: (synAdd nameLen acc syn).1 ++ (synAdd nameLen acc syn).2 := by
  unfold synAdd
  split
  · simp only [List.append_assoc]
    rw [← List.append_assoc acc.1 acc.2]
    exact infix_append_l h
  · simp only
    rw [← List.append_assoc, ← List.append_assoc]
    exact infix_append_l (infix_append_l h)

theorem synAdd_has (nameLen : Nat) (acc : Str × Str) (syn : Str) :
    syn <:+: (synAdd nameLen acc syn).1 ++ (synAdd nameLen acc syn).2 := by
  unfold synAdd
  split
  · exact infix_append_r (infix_append_r (List.infix_refl _))
  · exact infix_append_r (infix_append_r (List.infix_refl _))

theorem synFold_keeps (nameLen : Nat) (items : List Str) (acc : Str × Str) (x : Str) (h : x <:+: acc.1 ++ acc.2) :
    x <:+: (items.foldl (synAdd nameLen) acc).1 ++ (items.foldl (synAdd nameLen) acc).2 := by
  induction items generalizing acc with
  | nil => exact h
  | cons y ys ih => exact ih _ (synAdd_keeps nameLen acc y x h)

theorem synFold_has (nameLen : Nat) (items : List Str) (acc : Str × Str) (x : Str) (h : x ∈ items) :
    x <:+: (items.foldl (synAdd nameLen) acc).1 ++ (items.foldl (synAdd nameLen) acc).2 := by
  induction items generalizing acc with
  | nil => cases h
  | cons y ys ih =>
    simp only [List.foldl_cons]
    rcases List.mem_cons.mp h with e | e
    · subst e; exact synFold_keeps nameLen ys _ _ (synAdd_has nameLen acc x)
    · exact ih _ e

/-- every option of the level has its synopsis item in the SYNOPSIS section -/
theorem synopsis_item_in_text (ext : Ext) (P : Prog) (n : Nat) (o : Nat)
    (h : o ∈ requiredOpts P (P.node n) ++ normalOpts P (P.node n)) :
    optSynopsis (P.opt o) <:+: helpSynopsis ext P n := by
  unfold helpSynopsis
  simp only
  have hm : optSynopsis (P.opt o) ∈
      ((requiredOpts P (P.node n) ++ normalOpts P (P.node n)).map fun o => optSynopsis (P.opt o)) :=
    List.mem_map.mpr ⟨o, h, rfl⟩
  have h1 := synFold_has (indent4 (scriptName P n)).length _ ([], indent4 (scriptName P n)) _ hm
  have h2 := synAdd_keeps (indent4 (scriptName P n)).length _
    ((if (helpCommands (P.node n)).isEmpty then [] else b "<command> ") ++
      (if (P.node n).synArgs.isEmpty then b "[<args>]" else joinWith [chSp] ((P.node n).synArgs.map (·.1)))) _ h1
  rw [List.append_assoc, List.append_assoc]
  exact infix_append_r (by rw [← List.append_assoc]; exact infix_append_l h2)

theorem synopsis_in_default (ext : Ext) (P : Prog) (n : Nat) :
    helpSynopsis ext P n <:+: helpOutput ext P n [] := by
  have := section_in_default ext P n .synopsis (by simp [defaultSections])
  simp only [helpSection] at this
  exact (infix_append_l (List.infix_refl _)).trans this

/-! ## commands -/

/-- the line of one sub-command in the COMMANDS section -/
def commandLine (P : Prog) (nd : Node) (name : Str) : Str :=
  let cs := helpCommands nd
  let factor := maxLen (sortStrs (cs.map (·.1)))
  let desc : Str := match cs.find? fun kv => kv.1 == name with
    | some kv => (P.node kv.2).description
    | none => []
  indent4 (padTo true name factor ++ b "    " ++
    replaceNl desc (b "\n    " ++ indent4 (padTo true [] factor)) ++ b "\n")

theorem commandLine_in_list (ext : Ext) (P : Prog) (nd : Node) (name : Str)
    (h : name ∈ sortStrs ((helpCommands nd).map (·.1))) :
    commandLine P nd name <:+: helpCommandList ext P nd := by
  unfold helpCommandList commandLine
  simp only
  by_cases he : (helpCommands nd).isEmpty = true
  · have : helpCommands nd = [] := by simpa using he
    rw [this] at h
    simp [sortStrs] at h
  · simp only [he, Bool.false_eq_true, ↓reduceIte]
    exact infix_append_r (infix_flatMap_of_mem (fun name =>
      indent4 (padTo true name (maxLen (sortStrs ((helpCommands nd).map (·.1)))) ++ b "    " ++
        replaceNl (match (helpCommands nd).find? fun kv => kv.1 == name with
          | some kv => (P.node kv.2).description
          | none => []) (b "\n    " ++ indent4 (padTo true [] (maxLen (sortStrs ((helpCommands nd).map (·.1)))))) ++ b "\n")) _ name h)

end GoModel

import Model.Basic

import Lemmas.Parse
/-! Require-order only matters at the stop point: as long as the parser has not stopped, it behaves
exactly as the same program with every require-order flag cleared. -/
namespace GoModel

variable (ext : Ext) (mode : Mode)

def Node.clearRO (n : Node) : Node := { n with requireOrder := false }
/-- the same program without require-order on any node -/
def Prog.clearRO (P : Prog) : Prog := { P with nodes := P.nodes.map Node.clearRO }
/-- the same parser state over the program without require-order -/
def PState.cl (s : PState) : PState := { s with P := s.P.clearRO }

theorem clearRO_node (P : Prog) (n : Nat) : P.clearRO.node n = (P.node n).clearRO := by
  unfold Prog.node Prog.clearRO
  simp only [List.getD_eq_getElem?_getD, List.getElem?_map]
  cases P.nodes[n]? <;> simp [Node.clearRO, dummyNode]

theorem clearRO_opt (P : Prog) (o : Nat) : P.clearRO.opt o = P.opt o := rfl

theorem clearRO_setOpt (P : Prog) (o : Nat) (x : Opt) : (P.setOpt o x).clearRO = P.clearRO.setOpt o x := rfl

theorem resolve_clearRO (nd : Node) (e : Str) : resolve nd.clearRO e = resolve nd e := rfl

theorem procPair_cl (s : PState) (p : Pair) (h : (procPair ext s p).ctx ≠ .stopped) :
    procPair ext s.cl p = (procPair ext s p).cl := by
  have hnode : s.cl.P.node s.cl.cur = (s.P.node s.cur).clearRO := clearRO_node s.P s.cur
  have hn0 : (s.cl.P.node 0).mapKeysToLower = (s.P.node 0).mapKeysToLower := by
    show (s.P.clearRO.node 0).mapKeysToLower = _
    rw [clearRO_node]; rfl
  cases hr : resolve (s.P.node s.cur) p.opt with
  | nil =>
    cases hro : (s.P.node s.cur).requireOrder with
    | true =>
      rw [procPair_unknown_ro ext s p hr hro] at h
      exact absurd rfl h
    | false =>
      have hr' : resolve (s.cl.P.node s.cl.cur) p.opt = [] := by rw [hnode, resolve_clearRO]; exact hr
      have hro' : (s.cl.P.node s.cl.cur).requireOrder = false := by rw [hnode]; rfl
      rw [procPair_unknown ext s p hr hro, procPair_unknown ext s.cl p hr' hro', hnode]
      simp only [Node.clearRO]
      have hp : s.cl.passed = s.passed := rfl
      rw [hp]
      by_cases hx : ((s.P.node s.cur).umode != UMode.fail && !s.passed) = true
      · simp only [hx, ↓reduceIte]; rfl
      · simp only [hx, Bool.false_eq_true, ↓reduceIte]; rfl
  | cons k1 rest =>
    cases rest with
    | nil =>
      have hr' : resolve (s.cl.P.node s.cl.cur) p.opt = [k1] := by rw [hnode, resolve_clearRO]; exact hr
      cases hl : lookup k1 (s.P.node s.cur).opts with
      | none =>
        have hl' : lookup k1 (s.cl.P.node s.cl.cur).opts = none := by rw [hnode]; exact hl
        rw [procPair_known_nolookup ext s p k1 hr hl, procPair_known_nolookup ext s.cl p k1 hr' hl']
      | some oid =>
        have hl' : lookup k1 (s.cl.P.node s.cl.cur).opts = some oid := by rw [hnode]; exact hl
        rw [procPair_known ext s p k1 oid hr hl, procPair_known ext s.cl p k1 oid hr' hl', hn0]
        have hm : matched s.cl oid k1 = matched s oid k1 := by
          unfold matched; rw [hn0]; rfl
        rw [hm]
        cases save ext (s.P.node 0).mapKeysToLower (matched s oid k1) p.args with
        | error e => rfl
        | ok o' => simp only; split <;> rfl
    | cons k2 ks =>
      have hr' : resolve (s.cl.P.node s.cl.cur) p.opt = k1 :: k2 :: ks := by rw [hnode, resolve_clearRO]; exact hr
      rw [procPair_amb ext s p k1 k2 ks hr, procPair_amb ext s.cl p k1 k2 ks hr']
      rfl

theorem drain_cl (ps : List Pair) (s : PState) (h : (drain ext s ps).ctx ≠ .stopped) :
    drain ext s.cl ps = (drain ext s ps).cl := by
  induction ps generalizing s with
  | nil => rfl
  | cons p ps ih =>
    unfold drain at h ⊢
    simp only at h ⊢
    have hsw : ({ s.cl with pending := ps } : PState) = ({ s with pending := ps } : PState).cl := rfl
    rw [hsw]
    by_cases he : (procPair ext { s with pending := ps } p).err.isSome = true
    · simp only [he, ↓reduceIte] at h
      rw [procPair_cl ext _ p h]
      have : (procPair ext { s with pending := ps } p).cl.err.isSome = true := he
      simp only [this, he, ↓reduceIte]
    · simp only [he, Bool.false_eq_true, ↓reduceIte] at h
      have hns : (procPair ext { s with pending := ps } p).ctx ≠ .stopped := by
        intro e; rw [e] at h; exact h rfl
      rw [procPair_cl ext _ p hns]
      have he' : ¬ (procPair ext { s with pending := ps } p).cl.err.isSome = true := he
      have hc' : (procPair ext { s with pending := ps } p).cl.ctx = (procPair ext { s with pending := ps } p).ctx := rfl
      simp only [he, he', Bool.false_eq_true, ↓reduceIte, hc']
      cases hc : (procPair ext { s with pending := ps } p).ctx with
      | idle => simp only [hc] at h; exact ih _ h
      | collecting o i => rfl
      | stopped => exact absurd hc hns
      | done => rfl

theorem offer_cl (s : PState) (o i : Nat) (t : Str) :
    offer ext mode s.cl o i t = ((offer ext mode s o i t).1.cl, (offer ext mode s o i t).2) := by
  have hn0 : (s.cl.P.node 0).mapKeysToLower = (s.P.node 0).mapKeysToLower := by
    show (s.P.clearRO.node 0).mapKeysToLower = _
    rw [clearRO_node]; rfl
  unfold offer
  simp only [hn0]
  have ho : s.cl.P.opt o = s.P.opt o := rfl
  rw [ho]
  by_cases h1 : ((i : Int) < (s.P.opt o).min)
  · simp only [h1, ↓reduceIte]
    by_cases h2 : looksLikeOption t mode = true
    · simp only [h2, ↓reduceIte]; rfl
    · simp only [h2, Bool.false_eq_true, ↓reduceIte]
      cases save ext (s.P.node 0).mapKeysToLower (s.P.opt o) [t] <;> rfl
  · simp only [h1, ↓reduceIte]
    by_cases h2 : (looksLikeOption t mode || t == dashdash || !typeOk ext (s.P.opt o).kind t) = true
    · simp only [h2, ↓reduceIte]; rfl
    · simp only [h2, Bool.false_eq_true, ↓reduceIte]
      cases save ext (s.P.node 0).mapKeysToLower (s.P.opt o) [t] <;> rfl

theorem afterConsume_cl (s : PState) (ps : List Pair) (h : (afterConsume ext s ps).ctx ≠ .stopped) :
    afterConsume ext s.cl ps = (afterConsume ext s ps).cl := by
  unfold afterConsume at h ⊢
  have he' : s.cl.err = s.err := rfl
  have hc' : s.cl.ctx = s.ctx := rfl
  rw [he', hc']
  by_cases he : s.err.isSome = true
  · simp only [he, ↓reduceIte]
  · simp only [he, Bool.false_eq_true, ↓reduceIte] at h ⊢
    cases hc : s.ctx with
    | idle => simp only [hc] at h; exact drain_cl ext ps s h
    | collecting o i => rfl
    | stopped => rfl
    | done => rfl

theorem head_cl (s : PState) (t : Str) (h : (head ext mode none s t).ctx ≠ .stopped) :
    head ext mode none s.cl t = (head ext mode none s t).cl := by
  have hnode : s.cl.P.node s.cl.cur = (s.P.node s.cur).clearRO := clearRO_node s.P s.cur
  unfold head at h ⊢
  simp only at h ⊢
  by_cases hd : (t == dashdash) = true
  · simp only [hd, ↓reduceIte] at h; exact absurd rfl h
  · simp only [hd, Bool.false_eq_true, ↓reduceIte] at h ⊢
    cases hopt : isOption t mode with
    | mk pairs isopt =>
      rw [hopt] at h
      cases isopt with
      | true => exact drain_cl ext pairs _ h
      | false =>
        simp only at h ⊢
        rw [hnode]
        have hcm : (s.P.node s.cur).clearRO.cmds = (s.P.node s.cur).cmds := rfl
        rw [hcm]
        cases hl : lookup t (s.P.node s.cur).cmds with
        | some c => rfl
        | none =>
          simp only [hl] at h ⊢
          by_cases hro : (s.P.node s.cur).requireOrder = true
          · simp only [hro, ↓reduceIte] at h; exact absurd rfl h
          · simp only [hro, Bool.false_eq_true, ↓reduceIte, Node.clearRO]; rfl

theorem feedPending_cl (t : Str) (ps : List Pair) (s : PState)
    (h : (feedPending ext mode none t s ps).ctx ≠ .stopped) :
    feedPending ext mode none t s.cl ps = (feedPending ext mode none t s ps).cl := by
  induction ps generalizing s with
  | nil =>
    unfold feedPending at h ⊢
    exact head_cl ext mode { s with pending := [] } t h
  | cons p ps ih =>
    unfold feedPending at h ⊢
    simp only at h ⊢
    have hsw : ({ s.cl with pending := ps } : PState) = ({ s with pending := ps } : PState).cl := rfl
    rw [hsw]
    by_cases he : (procPair ext { s with pending := ps } p).err.isSome = true
    · simp only [he, ↓reduceIte] at h
      rw [procPair_cl ext _ p h]
      have : (procPair ext { s with pending := ps } p).cl.err.isSome = true := he
      simp only [this, he, ↓reduceIte]
    · simp only [he, Bool.false_eq_true, ↓reduceIte] at h
      have hns : (procPair ext { s with pending := ps } p).ctx ≠ .stopped := by
        intro e
        apply h
        simp only [e]
        simp [PState.addText, e]
      rw [procPair_cl ext _ p hns]
      have he' : ¬ (procPair ext { s with pending := ps } p).cl.err.isSome = true := he
      have hc' : (procPair ext { s with pending := ps } p).cl.ctx = (procPair ext { s with pending := ps } p).ctx := rfl
      simp only [he, he', Bool.false_eq_true, ↓reduceIte, hc']
      cases hc : (procPair ext { s with pending := ps } p).ctx with
      | idle => simp only [hc] at h; exact ih _ h
      | collecting o i =>
        simp only [hc] at h ⊢
        rw [offer_cl]
        generalize offer ext mode (procPair ext { s with pending := ps } p) o i t = r at h ⊢
        obtain ⟨s2, b⟩ := r
        cases b with
        | true => exact afterConsume_cl ext s2 ps h
        | false => exact ih s2 h
      | stopped => exact absurd hc hns
      | done => rfl

theorem step_cl (s : PState) (t : Str) (h : (step ext mode s t).ctx ≠ .stopped) :
    step ext mode s.cl t = (step ext mode s t).cl := by
  unfold step stepG at h ⊢
  have he' : s.cl.err = s.err := rfl
  have hc' : s.cl.ctx = s.ctx := rfl
  have hp' : s.cl.pending = s.pending := rfl
  rw [he', hc']
  by_cases he : s.err.isSome = true
  · simp only [he, ↓reduceIte]
  · simp only [he, Bool.false_eq_true, ↓reduceIte] at h ⊢
    cases hc : s.ctx with
    | done => rfl
    | stopped => simp only [hc] at h; exact absurd (by simp [PState.addText, hc]) h
    | idle => simp only [hc] at h; exact head_cl ext mode s t h
    | collecting o i =>
      simp only [hc] at h ⊢
      rw [offer_cl]
      generalize offer ext mode s o i t = r at h ⊢
      obtain ⟨s1, b⟩ := r
      cases b with
      | true => exact afterConsume_cl ext s1 s1.pending h
      | false => exact feedPending_cl ext mode t s1.pending s1 h

theorem step_ctx_stopped (s : PState) (t : Str) (h : s.ctx = .stopped) : (step ext mode s t).ctx = .stopped := by
  unfold step stepG
  by_cases he : s.err.isSome = true
  · simp [he, h]
  · simp [he, h, PState.addText]

theorem foldl_ctx_stopped (ts : List Str) (s : PState) (h : s.ctx = .stopped) :
    (ts.foldl (step ext mode) s).ctx = .stopped := by
  induction ts generalizing s with
  | nil => exact h
  | cons t ts ih => exact ih _ (step_ctx_stopped ext mode s t h)

/-- as long as the parser has not stopped, it is in the state the program without require-order
would be in -/
theorem foldl_cl (ts : List Str) (s : PState) (h : (ts.foldl (step ext mode) s).ctx ≠ .stopped) :
    ts.foldl (step ext mode) s.cl = (ts.foldl (step ext mode) s).cl := by
  induction ts generalizing s with
  | nil => rfl
  | cons t ts ih =>
    simp only [List.foldl_cons] at h ⊢
    have hns : (step ext mode s t).ctx ≠ .stopped := by
      intro e; exact h (foldl_ctx_stopped ext mode ts _ e)
    rw [step_cl ext mode s t hns]
    exact ih _ h

theorem run_cl (P : Prog) (pre : List Str) (h : (run ext mode P pre).ctx ≠ .stopped) :
    run ext mode P.clearRO pre = (run ext mode P pre).cl :=
  foldl_cl ext mode pre (initState P) h

end GoModel

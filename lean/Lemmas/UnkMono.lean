import Lemmas.Conserve
/-! The unknown-option log only grows: an unknown option once recorded is never forgotten. -/
namespace GoModel

variable (ext : Ext) (mode : Mode)

theorem procPair_unk_prefix (s0 : PState) (p : Pair) : ∃ more, (procPair ext s0 p).unk = s0.unk ++ more := by
  cases hr : resolve (s0.P.node s0.cur) p.opt with
  | nil =>
    cases hro : (s0.P.node s0.cur).requireOrder with
    | true => rw [procPair_unknown_ro ext s0 p hr hro]; exact ⟨[], by simp [PState.addText]⟩
    | false =>
      rw [procPair_unknown ext s0 p hr hro]
      split
      · exact ⟨[(p.opt, (s0.P.node s0.cur).umode)], rfl⟩
      · exact ⟨[(p.opt, (s0.P.node s0.cur).umode)], rfl⟩
  | cons k1 rest =>
    cases rest with
    | nil =>
      cases hl : lookup k1 (s0.P.node s0.cur).opts with
      | none => rw [procPair_known_nolookup ext s0 p k1 hr hl]; exact ⟨[], by simp⟩
      | some oid =>
        rw [procPair_known ext s0 p k1 oid hr hl]
        split
        · exact ⟨[], by simp⟩
        · split <;> exact ⟨[], by simp⟩
    | cons k2 ks => rw [procPair_amb ext s0 p k1 k2 ks hr]; exact ⟨[], by simp⟩

theorem drain_unk_prefix (ps : List Pair) (s0 : PState) : ∃ more, (drain ext s0 ps).unk = s0.unk ++ more := by
  induction ps generalizing s0 with
  | nil => exact ⟨[], by simp [drain]⟩
  | cons p ps ih =>
    obtain ⟨m1, h1⟩ := procPair_unk_prefix ext { s0 with pending := ps } p
    unfold drain
    simp only
    split
    · exact ⟨m1, h1⟩
    · split
      · obtain ⟨m2, h2⟩ := ih (procPair ext { s0 with pending := ps } p)
        exact ⟨m1 ++ m2, by rw [h2, h1]; simp⟩
      · exact ⟨m1, h1⟩
      · exact ⟨m1, h1⟩

theorem head_unk_prefix (s0 : PState) (t : Str) : ∃ more, (head ext mode none s0 t).unk = s0.unk ++ more := by
  unfold head
  simp only
  split
  · exact ⟨[], by simp⟩
  · split
    · rename_i pairs _
      obtain ⟨m, h⟩ := drain_unk_prefix ext pairs { s0 with tok := t, lastTok := t, passed := false }
      exact ⟨m, h⟩
    · split
      · exact ⟨[], by simp⟩
      · split <;> exact ⟨[], by simp [PState.addText]⟩

theorem afterConsume_unk_prefix (s0 : PState) (ps : List Pair) :
    ∃ more, (afterConsume ext s0 ps).unk = s0.unk ++ more := by
  unfold afterConsume
  split
  · exact ⟨[], by simp⟩
  · split
    · exact drain_unk_prefix ext ps s0
    · exact ⟨[], by simp⟩

theorem feedPending_unk_prefix (t : Str) (ps : List Pair) (s0 : PState) :
    ∃ more, (feedPending ext mode none t s0 ps).unk = s0.unk ++ more := by
  induction ps generalizing s0 with
  | nil => unfold feedPending; exact head_unk_prefix ext mode _ t
  | cons p ps ih =>
    obtain ⟨m1, h1⟩ := procPair_unk_prefix ext { s0 with pending := ps } p
    unfold feedPending
    simp only
    split
    · exact ⟨m1, h1⟩
    · split
      · obtain ⟨m2, h2⟩ := ih (procPair ext { s0 with pending := ps } p)
        exact ⟨m1 ++ m2, by rw [h2, h1]; simp⟩
      · rename_i o i _
        have hf := offer_frame ext mode (procPair ext { s0 with pending := ps } p) o i t
        simp only at hf
        split
        · rename_i s2 hoff
          have e2 : s2.unk = (procPair ext { s0 with pending := ps } p).unk := by
            have := hf.2.2.2.2.2.2.1; rw [hoff] at this; exact this
          obtain ⟨m2, h2⟩ := afterConsume_unk_prefix ext s2 ps
          exact ⟨m1 ++ m2, by rw [h2, e2, h1]; simp⟩
        · rename_i s2 hoff
          have e2 : s2.unk = (procPair ext { s0 with pending := ps } p).unk := by
            have := hf.2.2.2.2.2.2.1; rw [hoff] at this; exact this
          obtain ⟨m2, h2⟩ := ih s2
          exact ⟨m1 ++ m2, by rw [h2, e2, h1]; simp⟩
      · exact ⟨m1, by simp [PState.addText, h1]⟩

/-- one token never removes or changes a recorded unknown option -/
theorem step_unk_prefix (s : PState) (t : Str) : ∃ more, (step ext mode s t).unk = s.unk ++ more := by
  unfold step stepG
  split
  · exact ⟨[], by simp⟩
  · split
    · exact ⟨[], by simp⟩
    · exact ⟨[], by simp [PState.addText]⟩
    · exact head_unk_prefix ext mode s t
    · rename_i o i _
      have hf := offer_frame ext mode s o i t
      simp only at hf
      split
      · rename_i s1 hoff
        have e1 : s1.unk = s.unk := by have := hf.2.2.2.2.2.2.1; rw [hoff] at this; exact this
        obtain ⟨m, h⟩ := afterConsume_unk_prefix ext s1 s1.pending
        exact ⟨m, by rw [h, e1]⟩
      · rename_i s1 hoff
        have e1 : s1.unk = s.unk := by have := hf.2.2.2.2.2.2.1; rw [hoff] at this; exact this
        obtain ⟨m, h⟩ := feedPending_unk_prefix ext mode t s1.pending s1
        exact ⟨m, by rw [h, e1]⟩

theorem foldl_unk_prefix (ts : List Str) (s : PState) :
    ∃ more, (ts.foldl (step ext mode) s).unk = s.unk ++ more := by
  induction ts generalizing s with
  | nil => exact ⟨[], by simp⟩
  | cons t ts ih =>
    obtain ⟨m1, h1⟩ := step_unk_prefix ext mode s t
    obtain ⟨m2, h2⟩ := ih (step ext mode s t)
    exact ⟨m1 ++ m2, by simp only [List.foldl_cons]; rw [h2, h1]; simp⟩

theorem finishDrain_unk_prefix (ps : List Pair) (s0 : PState) :
    ∃ more, (finishDrain ext s0 ps).unk = s0.unk ++ more := by
  induction ps generalizing s0 with
  | nil => exact ⟨[], by simp [finishDrain]⟩
  | cons p ps ih =>
    obtain ⟨m1, h1⟩ := procPair_unk_prefix ext { s0 with pending := ps } p
    unfold finishDrain
    simp only
    split
    · exact ⟨m1, h1⟩
    · split
      · split
        · exact ⟨m1, h1⟩
        · obtain ⟨m2, h2⟩ := ih { procPair ext { s0 with pending := ps } p with ctx := .idle }
          exact ⟨m1 ++ m2, by rw [h2]; simp [h1]⟩
      · obtain ⟨m2, h2⟩ := ih (procPair ext { s0 with pending := ps } p)
        exact ⟨m1 ++ m2, by rw [h2, h1]; simp⟩
      · exact ⟨m1, h1⟩

theorem finish_unk_prefix (s : PState) : ∃ more, (finish ext s).unk = s.unk ++ more := by
  unfold finish
  split
  · exact ⟨[], by simp⟩
  · split
    · split
      · exact ⟨[], by simp⟩
      · exact finishDrain_unk_prefix ext s.pending { s with ctx := .idle }
    · exact ⟨[], by simp⟩

end GoModel

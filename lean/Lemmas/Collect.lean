import Lemmas.Static
import Lemmas.GivenLast
/-!
# One occurrence of a multi-value option collects its values in command-line order

`saveAll` is "each value goes through the typed `Save`, one after another".  `collect` says: while option `oid`
is collecting and the tokens `vs` are acceptable (not option-looking; beyond the minimum also not `--` and
well-formed for the element type), folding the step function over `vs` saves exactly them, in order, and
leaves the occurrence open or closed according to the maximum.  `refused_as_idle` says that a token the open
occurrence refuses is processed exactly as from the idle state.
-/
namespace GoModel

variable (ext : Ext) (mode : Mode)

/-- the values of one occurrence, saved one after another -/
def saveAll (lower : Bool) (o : Opt) : List Str → Except PErr Opt
  | [] => .ok o
  | v :: r =>
    match save ext lower o [v] with
    | .ok o' => saveAll lower o' r
    | .error e => .error e

theorem saveAll_static (lower : Bool) (vs : List Str) (o o' : Opt) (h : saveAll ext lower o vs = .ok o') :
    o'.static = o.static := by
  induction vs generalizing o with
  | nil => simp only [saveAll] at h; cases h; rfl
  | cons v r ih =>
    simp only [saveAll] at h
    split at h
    · rename_i o1 h1; exact (ih o1 h).trans (save_static ext lower o o1 [v] h1)
    · cases h

theorem static_max {a c : Opt} (h : a.static = c.static) : a.max = c.max := by have := congrArg Opt.max h; exact this
theorem static_min {a c : Opt} (h : a.static = c.static) : a.min = c.min := by have := congrArg Opt.min h; exact this
theorem static_kind {a c : Opt} (h : a.static = c.static) : a.kind = c.kind := by have := congrArg Opt.kind h; exact this

/-- a token the open occurrence accepts: what `offer` tests -/
def Acceptable (o : Opt) (i : Nat) (t : Str) : Prop :=
  looksLikeOption t mode = false ∧ ((i : Int) < o.min ∨ (t ≠ dashdash ∧ typeOk ext o.kind t = true))

theorem offer_accepts (s : PState) (o i : Nat) (t : Str) (o' : Opt)
    (ha : Acceptable ext mode (s.P.opt o) i t)
    (hs : save ext (s.P.node 0).mapKeysToLower (s.P.opt o) [t] = .ok o') :
    offer ext mode s o i t =
      ({ s with P := s.P.setOpt o o', lastTok := t,
                ctx := if ((i + 1 : Nat) : Int) < o'.max then .collecting o (i + 1) else .idle }, true) := by
  unfold offer
  simp only [hs]
  by_cases hm : (i : Int) < (s.P.opt o).min
  · simp [hm, ha.1]
  · rcases ha.2 with h | ⟨h1, h2⟩
    · exact absurd h hm
    · have hd : (t == dashdash) = false := by simpa using h1
      simp [hm, ha.1, hd, h2]

/-- all of `vs`, offered one after another starting with `i` values already saved -/
def AllAcceptable (o : Opt) : Nat → List Str → Prop
  | _, [] => True
  | i, t :: r => Acceptable ext mode o i t ∧ AllAcceptable o (i + 1) r

theorem acceptable_congr {a c : Opt} (h : a.static = c.static) (i : Nat) (t : Str) :
    Acceptable ext mode a i t ↔ Acceptable ext mode c i t := by
  unfold Acceptable; rw [static_min h, static_kind h]

theorem allAcceptable_congr {a c : Opt} (h : a.static = c.static) (vs : List Str) (i : Nat) :
    AllAcceptable ext mode a i vs ↔ AllAcceptable ext mode c i vs := by
  induction vs generalizing i with
  | nil => exact Iff.rfl
  | cons t r ih => simp only [AllAcceptable]; rw [acceptable_congr ext mode h, ih]

/-- the state after the open occurrence `oid` has taken the values `vs` -/
def collected (s : PState) (oid : Nat) (i : Nat) (vs : List Str) (o' : Opt) : PState :=
  { s with P := s.P.setOpt oid o', lastTok := vs.getLast?.getD s.lastTok, pending := [],
           ctx := if ((i + vs.length : Nat) : Int) < o'.max then .collecting oid (i + vs.length) else .idle }

/-- **Collecting.**  Option `oid` is open with `i` values so far, room for all of `vs`
(`i + |vs| ≤ max`), nothing pending, every token acceptable, every typed `Save` succeeds: the tokens are
saved in order and nothing else changes. -/
theorem collect (vs : List Str) (s : PState) (oid i : Nat) (o' : Opt)
    (he : s.err = none) (hc : s.ctx = .collecting oid i) (hp : s.pending = [])
    (hoid : oid < s.P.opts.length)
    (hroom : ((i + vs.length : Nat) : Int) ≤ (s.P.opt oid).max) (hne : vs ≠ [])
    (hacc : AllAcceptable ext mode (s.P.opt oid) i vs)
    (hs : saveAll ext (s.P.node 0).mapKeysToLower (s.P.opt oid) vs = .ok o') :
    vs.foldl (step ext mode) s = collected s oid i vs o' := by
  induction vs generalizing s i with
  | nil => exact absurd rfl hne
  | cons t r ih =>
    simp only [saveAll] at hs
    split at hs
    case h_2 => cases hs
    rename_i o1 h1
    have hst1 := save_static ext _ _ _ _ h1
    have hoff := offer_accepts ext mode s oid i t o1 hacc.1 h1
    have hstep : step ext mode s t =
        { s with P := s.P.setOpt oid o1, lastTok := t, pending := [],
                 ctx := if ((i + 1 : Nat) : Int) < o1.max then .collecting oid (i + 1) else .idle } := by
      simp only [step, stepG, he, hc, hoff, hp, Option.isSome_none, Bool.false_eq_true, ↓reduceIte]
      unfold afterConsume
      simp only [he, Option.isSome_none, Bool.false_eq_true, ↓reduceIte]
      split <;> simp_all [drain]
    simp only [List.foldl_cons, hstep]
    cases r with
    | nil =>
      simp only [List.foldl_nil, collected, List.length_singleton, List.getLast?_singleton, Option.getD_some]
      cases hs
      rfl
    | cons t2 r2 =>
      have hlen : ((i + 1 : Nat) : Int) < o1.max := by
        have : ((i + (t :: t2 :: r2).length : Nat) : Int) ≤ o1.max := by rw [static_max hst1]; exact hroom
        simp only [List.length_cons] at this
        omega
      simp only [hlen, ↓reduceIte]
      have hget : (s.P.setOpt oid o1).opt oid = o1 := opt_setOpt_same s.P oid o1 hoid
      have := ih (s := { s with P := s.P.setOpt oid o1, lastTok := t, pending := [], ctx := .collecting oid (i + 1) })
        (i := i + 1) he rfl rfl (by simpa [Prog.setOpt] using hoid)
        (by
          show ((i + 1 + (t2 :: r2).length : Nat) : Int) ≤ ((s.P.setOpt oid o1).opt oid).max
          rw [hget, static_max hst1]
          have : i + 1 + (t2 :: r2).length = i + (t :: t2 :: r2).length := by simp only [List.length_cons]; omega
          rw [this]; exact hroom)
        (by simp)
        (by
          show AllAcceptable ext mode ((s.P.setOpt oid o1).opt oid) (i + 1) (t2 :: r2)
          rw [hget, allAcceptable_congr ext mode hst1]
          exact hacc.2)
        (by
          show saveAll ext ((s.P.setOpt oid o1).node 0).mapKeysToLower ((s.P.setOpt oid o1).opt oid) (t2 :: r2) = .ok o'
          rw [hget]; exact hs)
      rw [this]
      simp only [collected, Prog.setOpt, List.set_set, List.length_cons, List.getLast?_cons_cons]
      have e1 : i + 1 + (r2.length + 1) = i + (r2.length + 1 + 1) := by omega
      rw [e1]
      congr 1

/-- a token refused by the open occurrence (which has its minimum) is processed as from the idle state -/
theorem refused_as_idle (s : PState) (oid i : Nat) (t : Str)
    (he : s.err = none) (hc : s.ctx = .collecting oid i) (hp : s.pending = [])
    (hmin : ¬ (i : Int) < (s.P.opt oid).min)
    (hr : looksLikeOption t mode = true ∨ t = dashdash) :
    step ext mode s t = step ext mode { s with ctx := .idle } t := by
  have hoff : offer ext mode s oid i t = ({ s with ctx := .idle }, false) := by
    unfold offer
    simp only [hmin, ↓reduceIte]
    rcases hr with h | h
    · simp [h]
    · subst h; simp
  simp only [step, stepG, he, hc, hoff, hp, feedPending, Option.isSome_none, Bool.false_eq_true, ↓reduceIte]

end GoModel

import Lemmas.Parse
import Lemmas.Obs
/-!
# `--` against every parser state

`step s "--"` is computed for *every* state `s` whose end-of-input processing succeeds (nothing that
is open or still pending lacks a mandatory argument): it is the end-of-input state of `s`, switched
to `stopped` — or, when interpretation had already stopped there, with `--` itself appended to the
remaining list.  The only other thing `--` can be is the mandatory value of the occurrence before it,
which is exactly when end-of-input processing of `s` fails with `missingArg`.
-/
namespace GoModel

variable (ext : Ext) (mode : Mode)

/-! ## outside completion mode the parser never reaches `done` -/

theorem procPair_not_done (s : PState) (p : Pair) (h : s.ctx ≠ .done) : (procPair ext s p).ctx ≠ .done := by
  unfold procPair
  simp only
  split
  · split
    · simp
    · split <;> simpa [PState.addText] using h
  · split
    · exact h
    · split
      · simpa using h
      · split <;> simp [h]
  · simpa using h

theorem offer_not_done (s : PState) (o i : Nat) (t : Str) (h : s.ctx ≠ .done) :
    (offer ext mode s o i t).1.ctx ≠ .done := by
  unfold offer
  simp only
  split
  · split
    · simpa using h
    · split
      · simpa using h
      · simp only; split <;> simp
  · split
    · simp
    · split
      · simpa using h
      · simp only; split <;> simp

theorem drain_not_done (ps : List Pair) (s : PState) (h : s.ctx ≠ .done) : (drain ext s ps).ctx ≠ .done := by
  induction ps generalizing s with
  | nil => simpa [drain] using h
  | cons p ps ih =>
    have h1 : (procPair ext { s with pending := ps } p).ctx ≠ .done :=
      procPair_not_done ext _ p (by simpa using h)
    unfold drain
    simp only
    generalize procPair ext { s with pending := ps } p = s1 at h1 ⊢
    split
    · exact h1
    · split
      · exact ih s1 h1
      · simp_all
      · simpa using h1

theorem afterConsume_not_done (s : PState) (ps : List Pair) (h : s.ctx ≠ .done) :
    (afterConsume ext s ps).ctx ≠ .done := by
  unfold afterConsume
  split
  · exact h
  · split
    · exact drain_not_done ext ps s h
    · simpa using h

theorem head_not_done (s : PState) (t : Str) (h : s.ctx ≠ .done) : (head ext mode none s t).ctx ≠ .done := by
  unfold head
  simp only
  split
  · simp
  · split
    · exact drain_not_done ext _ _ (by simpa using h)
    · split
      · simpa using h
      · split
        · simp
        · simpa [PState.addText] using h

theorem feedPending_not_done (t : Str) (ps : List Pair) (s : PState) (h : s.ctx ≠ .done) :
    (feedPending ext mode none t s ps).ctx ≠ .done := by
  induction ps generalizing s with
  | nil => exact head_not_done ext mode _ t (by simpa using h)
  | cons p ps ih =>
    have h1 : (procPair ext { s with pending := ps } p).ctx ≠ .done :=
      procPair_not_done ext _ p (by simpa using h)
    unfold feedPending
    simp only
    generalize procPair ext { s with pending := ps } p = s1 at h1 ⊢
    split
    · exact h1
    · split
      · exact ih s1 h1
      · rename_i o i _
        have h2 := offer_not_done ext mode s1 o i t h1
        generalize offer ext mode s1 o i t = r at h2 ⊢
        obtain ⟨s2, c⟩ := r
        cases c
        · exact ih s2 h2
        · exact afterConsume_not_done ext s2 ps h2
      · simpa [PState.addText] using h1

theorem step_not_done (s : PState) (t : Str) (h : s.ctx ≠ .done) : (step ext mode s t).ctx ≠ .done := by
  unfold step stepG
  split
  · exact h
  · split
    · simp_all
    · simpa [PState.addText] using h
    · exact head_not_done ext mode s t h
    · rename_i o i _
      have h2 := offer_not_done ext mode s o i t h
      generalize offer ext mode s o i t = r at h2 ⊢
      obtain ⟨s2, c⟩ := r
      cases c
      · exact feedPending_not_done ext mode t _ s2 h2
      · exact afterConsume_not_done ext s2 _ h2

theorem foldl_not_done (ts : List Str) (s : PState) (h : s.ctx ≠ .done) :
    (ts.foldl (step ext mode) s).ctx ≠ .done := by
  induction ts generalizing s with
  | nil => exact h
  | cons t ts ih => exact ih _ (step_not_done ext mode s t h)

theorem run_not_done (P : Prog) (args : List Str) : (run ext mode P args).ctx ≠ .done := by
  unfold run
  exact foldl_not_done ext mode args _ (by simp [initState])

/-! ## end-of-input processing ends `idle` or `stopped` -/

theorem procPair_ctx_cases (s : PState) (p : Pair) (h : s.ctx = .idle) :
    (procPair ext s p).ctx = .idle ∨ (procPair ext s p).ctx = .stopped ∨
      ∃ o i, (procPair ext s p).ctx = .collecting o i := by
  unfold procPair
  simp only
  split
  · split
    · simp
    · split <;> simp [PState.addText, h]
  · split
    · simp [h]
    · split
      · simp [h]
      · split <;> simp [h]
  · simp [h]

theorem finishDrain_ctx (ps : List Pair) (s : PState) (h : s.ctx = .idle)
    (he : (finishDrain ext s ps).err = none) :
    (finishDrain ext s ps).ctx = .idle ∨ (finishDrain ext s ps).ctx = .stopped := by
  induction ps generalizing s with
  | nil => simp [finishDrain, h]
  | cons p ps ih =>
    have hc := procPair_ctx_cases ext { s with pending := ps } p (by simpa using h)
    unfold finishDrain at he ⊢
    simp only at he ⊢
    generalize procPair ext { s with pending := ps } p = s1 at hc he ⊢
    by_cases h1 : s1.err.isSome
    · simp only [h1, ↓reduceIte] at he
      simp [he] at h1
    · simp only [h1] at he ⊢
      rcases hc with hc | hc | ⟨o, i, hc⟩
      · simp only [hc] at he ⊢
        exact ih s1 hc he
      · simp only [hc] at he ⊢
        simp
      · simp only [hc] at he ⊢
        by_cases hm : (i : Int) < (s1.P.opt o).min
        · simp [hm] at he
        · simp only [hm, ↓reduceIte] at he ⊢
          exact ih _ rfl he

theorem finish_ctx (s : PState) (hnd : s.ctx ≠ .done) (he : (finish ext s).err = none) :
    (finish ext s).ctx = .idle ∨ (finish ext s).ctx = .stopped := by
  unfold finish at he ⊢
  by_cases h1 : s.err.isSome
  · simp only [h1, ↓reduceIte] at he
    simp [he] at h1
  · simp only [h1] at he ⊢
    cases hc : s.ctx with
    | idle => simp [hc]
    | stopped => simp [hc]
    | done => exact absurd hc hnd
    | collecting o i =>
      simp only [hc] at he ⊢
      by_cases hm : (i : Int) < (s.P.opt o).min
      · simp [hm] at he
      · simp only [hm, ↓reduceIte] at he ⊢
        exact finishDrain_ctx ext _ _ rfl he

/-! ## `--` arriving in any state -/

/-- what `--` turns the end-of-input state into -/
def closeWith (f : PState) : PState :=
  if f.ctx = .idle then { f with ctx := .stopped } else f.addText dashdash

theorem offer_dashdash_refused (s : PState) (o i : Nat) (h : ¬ ((i : Int) < (s.P.opt o).min)) :
    offer ext mode s o i dashdash = ({ s with ctx := .idle }, false) := by
  unfold offer
  simp [h]

theorem feed_dashdash (ps : List Pair) (s : PState) (he : s.err = none) (hc : s.ctx = .idle)
    (hf : (finishDrain ext s ps).err = none) :
    feedPending ext mode none dashdash s ps = closeWith (finishDrain ext s ps) := by
  induction ps generalizing s with
  | nil =>
    simp [feedPending, finishDrain, head, closeWith, hc]
  | cons p ps ih =>
    have hcc := procPair_ctx_cases ext { s with pending := ps } p (by simpa using hc)
    unfold feedPending
    unfold finishDrain at hf ⊢
    simp only at hf ⊢
    generalize procPair ext { s with pending := ps } p = s1 at hcc hf ⊢
    by_cases h1 : s1.err.isSome
    · simp only [h1, ↓reduceIte] at hf
      simp [hf] at h1
    · simp only [h1] at hf ⊢
      have he1 : s1.err = none := by simpa using h1
      rcases hcc with hc1 | hc1 | ⟨o, i, hc1⟩
      · simp only [hc1] at hf ⊢
        exact ih s1 he1 hc1 hf
      · simp only [hc1] at hf ⊢
        simp [closeWith, hc1, PState.addText]
      · simp only [hc1] at hf ⊢
        by_cases hm : (i : Int) < (s1.P.opt o).min
        · simp [hm] at hf
        · simp only [hm, ↓reduceIte] at hf ⊢
          rw [offer_dashdash_refused ext mode s1 o i hm]
          exact ih _ (by simpa using he1) rfl hf

/-- **`--` in any state.**  Whenever end-of-input processing of `s` succeeds, the token `--` does
exactly that processing and stops (or is itself returned when interpretation had stopped before). -/
theorem step_dashdash (s : PState) (he : s.err = none) (hnd : s.ctx ≠ .done)
    (hf : (finish ext s).err = none) :
    step ext mode s dashdash = closeWith (finish ext s) := by
  have hs : s.err.isSome = false := by simp [he]
  unfold step stepG
  unfold finish at hf ⊢
  simp only [hs] at hf ⊢
  cases hc : s.ctx with
  | idle => simp [hc, head, closeWith]
  | stopped => simp [hc, closeWith]
  | done => exact absurd hc hnd
  | collecting o i =>
    simp only [hc] at hf ⊢
    by_cases hm : (i : Int) < (s.P.opt o).min
    · simp [hm] at hf
    · simp only [hm, ↓reduceIte] at hf ⊢
      rw [offer_dashdash_refused ext mode s o i hm]
      exact feed_dashdash ext mode _ _ (by simpa using he) rfl hf

/-- the converse case: an occurrence that still lacks a mandatory argument takes `--` as that value
(or fails on it) - it is consumed, never a terminator -/
theorem dashdash_taken_as_value (s : PState) (o i : Nat) (h : (i : Int) < (s.P.opt o).min) :
    (offer ext mode s o i dashdash).2 = true := by
  unfold offer
  have : looksLikeOption dashdash mode = false := by cases mode <;> decide
  simp only [h, ↓reduceIte, this]
  split
  · rfl
  · split <;> rfl

end GoModel

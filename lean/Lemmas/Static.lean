import Lemmas.Shape
import Lemmas.Frame
/-! Parsing only ever changes three fields of an option record: the value, `Called` and `CalledAs`.
Everything declared (kind, bounds, valid values, aliases, default text, environment variable, …) is the same
after any argument list (`run_static`). -/
namespace GoModel

variable (ext : Ext) (mode : Mode)

/-- the declared part of an option record -/
def Opt.static (o : Opt) : Opt := { o with value := .b false, called := false, usedAlias := [], lowerKeys := false }

def StaticEq (A B : Prog) : Prop := ∀ oid, (A.opt oid).static = (B.opt oid).static

theorem StaticEq.refl (A : Prog) : StaticEq A A := fun _ => rfl
theorem StaticEq.trans {A B C : Prog} (h1 : StaticEq A B) (h2 : StaticEq B C) : StaticEq A C :=
  fun o => (h1 o).trans (h2 o)

theorem save_static (lower : Bool) (o o' : Opt) (args : List Str) (h : save ext lower o args = .ok o') :
    o'.static = o.static := by
  unfold save at h
  repeat' (split at h)
  all_goals first
    | (simp only [Except.ok.injEq] at h; subst h; rfl)
    | (simp at h; done)
    | (simp only [bind, Except.bind] at h
       split at h
       · simp at h
       · simp only [pure, Except.pure, Except.ok.injEq] at h; subst h; rfl)

theorem setOpt_static (P : Prog) (o : Nat) (x : Opt) (hx : x.static = (P.opt o).static) :
    StaticEq (P.setOpt o x) P := by
  intro o2
  by_cases h : o2 = o
  · subst h
    by_cases hl : o2 < P.opts.length
    · rw [opt_setOpt_same P o2 x hl]; exact hx
    · have : P.opts.set o2 x = P.opts := by
        apply List.ext_getElem?
        intro i; rw [List.getElem?_set]; split
        · rename_i hi; subst hi; simp at hl; simp [hl]
        · rfl
      simp [Prog.setOpt, this]
  · rw [opt_setOpt_ne P o o2 x h]

theorem matched_static (s : PState) (oid : Nat) (key : Str) : (matched s oid key).static = (s.P.opt oid).static := rfl

theorem procPair_static (s : PState) (p : Pair) : StaticEq (procPair ext s p).P s.P := by
  cases hr : resolve (s.P.node s.cur) p.opt with
  | nil =>
    cases hro : (s.P.node s.cur).requireOrder with
    | true => rw [procPair_unknown_ro ext s p hr hro]; exact .refl _
    | false => rw [procPair_unknown ext s p hr hro]; split <;> exact .refl _
  | cons k1 rest =>
    cases rest with
    | nil =>
      cases hl : lookup k1 (s.P.node s.cur).opts with
      | none => rw [procPair_known_nolookup ext s p k1 hr hl]; exact .refl _
      | some oid =>
        rw [procPair_known ext s p k1 oid hr hl]
        split
        · exact setOpt_static _ _ _ (matched_static s oid k1)
        · rename_i o' hs
          have hx : o'.static = (s.P.opt oid).static := (save_static ext _ _ _ _ hs).trans (matched_static s oid k1)
          split <;> exact setOpt_static _ _ _ hx
    | cons k2 ks => rw [procPair_amb ext s p k1 k2 ks hr]; exact .refl _

theorem offer_static (s : PState) (o i : Nat) (t : Str) : StaticEq (offer ext mode s o i t).1.P s.P := by
  unfold offer
  simp only
  split
  · split
    · exact .refl _
    · split
      · exact .refl _
      · rename_i o' hs; exact setOpt_static _ _ _ (save_static ext _ _ _ _ hs)
  · split
    · exact .refl _
    · split
      · exact .refl _
      · rename_i o' hs; exact setOpt_static _ _ _ (save_static ext _ _ _ _ hs)

theorem drain_static (ps : List Pair) (s : PState) : StaticEq (drain ext s ps).P s.P := by
  induction ps generalizing s with
  | nil => exact .refl _
  | cons p ps ih =>
    unfold drain
    simp only
    have h1 : StaticEq (procPair ext { s with pending := ps } p).P s.P := procPair_static ext _ p
    split
    · exact h1
    · split
      · exact (ih _).trans h1
      · exact h1
      · exact h1

theorem afterConsume_static (s : PState) (ps : List Pair) : StaticEq (afterConsume ext s ps).P s.P := by
  unfold afterConsume
  split
  · exact .refl _
  · split
    · exact drain_static ext ps s
    · exact .refl _

theorem head_static (s : PState) (t : Str) : StaticEq (head ext mode none s t).P s.P := by
  unfold head
  simp only
  split
  · exact .refl _
  · split
    · exact drain_static ext _ _
    · split
      · exact .refl _
      · split <;> exact .refl _

theorem feedPending_static (t : Str) (ps : List Pair) (s : PState) :
    StaticEq (feedPending ext mode none t s ps).P s.P := by
  induction ps generalizing s with
  | nil => exact head_static ext mode _ t
  | cons p ps ih =>
    have h1 : StaticEq (procPair ext { s with pending := ps } p).P s.P := procPair_static ext _ p
    unfold feedPending
    simp only
    generalize procPair ext { s with pending := ps } p = s1 at h1 ⊢
    split
    · exact h1
    · split
      · exact (ih s1).trans h1
      · rename_i o i _
        have h2 := offer_static ext mode s1 o i t
        generalize offer ext mode s1 o i t = r at h2 ⊢
        obtain ⟨s2, c⟩ := r
        cases c
        · exact ((ih s2).trans h2).trans h1
        · exact ((afterConsume_static ext s2 ps).trans h2).trans h1
      · exact h1

theorem step_static (s : PState) (t : Str) : StaticEq (step ext mode s t).P s.P := by
  unfold step stepG
  split
  · exact .refl _
  · split
    · exact .refl _
    · exact .refl _
    · exact head_static ext mode s t
    · rename_i o i _
      have h2 := offer_static ext mode s o i t
      generalize offer ext mode s o i t = r at h2 ⊢
      obtain ⟨s2, c⟩ := r
      cases c
      · exact (feedPending_static ext mode t _ s2).trans h2
      · exact (afterConsume_static ext s2 _).trans h2

theorem foldl_static (ts : List Str) (s : PState) : StaticEq (ts.foldl (step ext mode) s).P s.P := by
  induction ts generalizing s with
  | nil => exact .refl _
  | cons t ts ih => exact (ih _).trans (step_static ext mode s t)

/-- after any argument list every option record still has its declared kind, bounds, valid values, names … -/
theorem run_static_eq (P : Prog) (args : List Str) : StaticEq (run ext mode P args).P P := by
  unfold run
  exact foldl_static ext mode args (initState P)

theorem run_static (P : Prog) (args : List Str) (oid : Nat) :
    ((run ext mode P args).P.opt oid).kind = (P.opt oid).kind ∧
    ((run ext mode P args).P.opt oid).validValues = (P.opt oid).validValues ∧
    ((run ext mode P args).P.opt oid).max = (P.opt oid).max := by
  have h := run_static_eq ext mode P args oid
  have h1 := congrArg Opt.kind h
  have h2 := congrArg Opt.validValues h
  have h3 := congrArg Opt.max h
  exact ⟨h1, h2, h3⟩

end GoModel

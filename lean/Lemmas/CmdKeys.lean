import Lemmas.BuildInv
import Lemmas.HelpPerm
/-!
# The command table of every level has distinct keys

`ChildCommands` is a Go map and `AddChildCommand` refuses a name that is already registered, so in every
program accepted by the definition layer each level's command table has distinct keys — whatever `Self`
later does to a command's own name.  This discharges the hypothesis of the help-text determinism theorem for
all programs built through the API (`built_cmd_keys_distinct`).
-/
namespace GoModel

def CKInv (P : Prog) : Prop := ∀ x, ((P.node x).cmds.map (·.1)).Nodup

theorem ckinv_of_cmdsTab {P Q : Prog} (h : Q.cmdsTab = P.cmdsTab) (c : CKInv P) : CKInv Q := by
  intro x; rw [node_cmds_of_cmdsTab h x]; exact c x

theorem cmdsTab_opts (P : Prog) (os : List Opt) : ({ P with opts := os } : Prog).cmdsTab = P.cmdsTab := rfl
theorem cmdsTab_modOpt (P : Prog) (o : Nat) (f : Opt → Opt) : (P.modOpt o f).cmdsTab = P.cmdsTab := rfl

theorem addChildOption_cmdsTab (P P' : Prog) (n : Nat) (key : Str) (oid : Nat)
    (h : addChildOption P n key oid = .ok P') : P'.cmdsTab = P.cmdsTab := by
  unfold addChildOption at h
  split at h
  · cases h
  · split at h
    · cases h
    · simp only at h
      split at h
      · cases h
      · cases h; exact cmdsTab_modNode P n _ (fun _ => rfl)

theorem addAliases_cmdsTab (names : List Str) (P P' : Prog) (n oid : Nat)
    (h : addAliases P n oid names = .ok P') : P'.cmdsTab = P.cmdsTab := by
  induction names generalizing P with
  | nil => simp only [addAliases] at h; cases h; rfl
  | cons a r ih =>
    simp only [addAliases, bind, Except.bind] at h
    split at h
    · cases h
    · rename_i P1 h1
      rw [ih P1 h, addChildOption_cmdsTab P P1 n a oid h1]

variable (ext : Ext) (env : Env)

theorem applyMod_cmdsTab (P P' : Prog) (n oid : Nat) (m : Mod) (h : applyMod ext env P n oid m = .ok P') :
    P'.cmdsTab = P.cmdsTab := by
  cases m with
  | alias names =>
    simp only [applyMod] at h
    rw [addAliases_cmdsTab names _ P' n oid h]; rfl
  | _ => simp only [applyMod, Except.ok.injEq] at h; subst h; rfl

theorem applyMods_cmdsTab (ms : List Mod) (P P' : Prog) (n oid : Nat)
    (h : applyMods ext env P n oid ms = .ok P') : P'.cmdsTab = P.cmdsTab := by
  induction ms generalizing P with
  | nil => simp only [applyMods] at h; cases h; rfl
  | cons m r ih =>
    simp only [applyMods, bind, Except.bind] at h
    split at h
    · cases h
    · rename_i P1 h1
      rw [ih P1 h, applyMod_cmdsTab ext env P P1 n oid m h1]

theorem defineOpt_cmdsTab (P P' : Prog) (n : Nat) (kind : Kind) (name : Str) (dflt : Val) (dstr : Str)
    (mn mx : Int) (mods : List Mod) (h : defineOpt ext env P n kind name dflt dstr mn mx mods = .ok P') :
    P'.cmdsTab = P.cmdsTab := by
  unfold defineOpt at h
  simp only [bind, Except.bind] at h
  split at h
  · cases h
  · rename_i P2 h2
    rw [applyMods_cmdsTab ext env mods P2 P' n _ h, addChildOption_cmdsTab _ P2 n name _ h2]
    rfl

theorem copyOpts_cmdsTab (fuel : Nat) (P : Prog) (a : Nat) : (copyOpts fuel P a).cmdsTab = P.cmdsTab :=
  cmdsTab_of_shells (copyOpts_shells fuel P a)

theorem fold_helpName_cmdsTab (name : Str) (xs : List Nat) (P : Prog) :
    (xs.foldl (fun P x => P.modNode x fun nd => { nd with helpName := name }) P).cmdsTab = P.cmdsTab := by
  induction xs generalizing P with
  | nil => rfl
  | cons x r ih => simp only [List.foldl_cons]; rw [ih]; exact cmdsTab_modNode P x _ (fun _ => rfl)

/-- registering a new command under a name the parent does not have yet -/
theorem attach_ckinv (P : Prog) (p : Nat) (nd : Node) (hp : p < P.nodes.length) (hnc : nd.cmds = [])
    (hfree : lookup nd.name (P.node p).cmds = none) (c : CKInv P) : CKInv (attach P p nd) := by
  intro x
  rw [attach_node P p nd hp x]
  by_cases hx : x = p
  · simp only [hx, ↓reduceIte, List.map_append, List.map_cons, List.map_nil]
    have hnotin := (lookup_none_iff _ _).mp hfree
    exact List.nodup_append.mpr ⟨c p, by simp, by
      intro a ha b hb; simp at hb; subst hb; intro e; subst e; exact hnotin ha⟩
  · simp only [hx, ↓reduceIte]
    split
    · exact c x
    · split
      · simp [hnc]
      · simp [dummyNode]

theorem addChildCommand_ckinv (P P1 : Prog) (p id : Nat) (nd : Node) (hp : p < P.nodes.length)
    (hnc : nd.cmds = []) (c : CKInv P) (hr : addChildCommand P p nd = .ok (P1, id)) : CKInv P1 := by
  have e := addChildCommand_eq P P1 p id nd hr
  have hfree : lookup nd.name (P.node p).cmds = none := by
    unfold addChildCommand at hr
    split at hr
    · cases hr
    · split at hr
      · cases hr
      · rename_i hl
        cases hl' : lookup nd.name (P.node p).cmds with
        | none => rfl
        | some v => simp [hl'] at hl
  rw [e.1]
  exact attach_ckinv P p nd hp hnc hfree c

theorem addHelpCmds_ckinv (name : Str) (ns : List Nat) (P P' : Prog) (c : CKInv P)
    (hns : ∀ n ∈ ns, n < P.nodes.length) (hr : addHelpCmds name ns P = .ok P') : CKInv P' := by
  induction ns generalizing P with
  | nil => simp only [addHelpCmds, Except.ok.injEq] at hr; subst hr; exact c
  | cons n r ih =>
    unfold addHelpCmds at hr
    simp only at hr
    split at hr
    · exact ih P c (fun x hx => hns x (by simp [hx])) hr
    · simp only [bind, Except.bind] at hr
      split at hr
      · simp at hr
      · rename_i v hv
        obtain ⟨P1, id⟩ := v
        have hn : n < P.nodes.length := hns n (by simp)
        have c1 := addChildCommand_ckinv P P1 n id _ hn rfl c hv
        have e := addChildCommand_eq P P1 n id _ hv
        have l1 : P1.nodes.length = P.nodes.length + 1 := by rw [e.1]; exact attach_length P n _
        exact ih P1 c1 (fun x hx => by have := hns x (by simp [hx]); omega) hr

theorem ckinv_modNode (P : Prog) (n : Nat) (f : Node → Node) (hf : ∀ x, (f x).cmds = x.cmds) (c : CKInv P) :
    CKInv (P.modNode n f) := ckinv_of_cmdsTab (cmdsTab_modNode P n f hf) c

/-- one definition call keeps the command tables' keys distinct -/
theorem buildStep_ckinv (st st' : BState) (op : DefOp) (h : BInvT st) (c : CKInv st.P)
    (hr : buildStep ext env st op = .ok st') : CKInv st'.P := by
  cases op with
  | opt hd kind name dflt dstr mn mx mods =>
    simp only [buildStep, bind, Except.bind] at hr
    cases hh : handle st hd with
    | error e => simp [hh] at hr
    | ok n =>
      simp only [hh] at hr
      split at hr
      · cases hr
      · cases hP : defineOpt ext env st.P n kind name dflt dstr mn mx mods with
        | error e => simp [hP] at hr
        | ok P =>
          simp only [hP, pure, Except.pure] at hr; cases hr
          exact ckinv_of_cmdsTab (defineOpt_cmdsTab ext env st.P P n kind name dflt dstr mn mx mods hP) c
  | cmd hd name desc =>
    simp only [buildStep, bind, Except.bind] at hr
    cases hh : handle st hd with
    | error e => simp [hh] at hr
    | ok p =>
      simp only [hh] at hr
      split at hr
      · cases hr
      · rename_i x h1
        obtain ⟨P1, id⟩ := x
        simp only [pure, Except.pure] at hr; cases hr
        have hpl : p < st.P.nodes.length := h.handles hd p (handle_ok st hd p hh)
        have c1 := addChildCommand_ckinv st.P P1 p id _ hpl rfl c h1
        exact ckinv_of_cmdsTab (copyOpts_cmdsTab _ P1 p) c1
  | help hd name mods =>
    simp only [buildStep, bind, Except.bind] at hr
    cases hh : handle st hd with
    | error e => simp [hh] at hr
    | ok n =>
      simp only [hh] at hr
      cases hP1 : defineOpt ext env st.P n .bool name (.b false) [] 0 0 mods with
      | error e => simp [hP1] at hr
      | ok P1 =>
        simp only [hP1] at hr
        split at hr
        · cases hr
        · rename_i P3 hP3
          simp only [pure, Except.pure] at hr; cases hr
          have hnl : n < st.P.nodes.length := h.handles hd n (handle_ok st hd n hh)
          have i1 := defineOpt_inv ext env st.P P1 n .bool name (.b false) [] 0 0 mods h.prog hP1
          have i2 := fold_helpName_inv name (subtree P1.nodes.length P1 n) P1 i1.1
          have hsub := subtree_bound P1.nodes.length _ n i2.1.tree (by rw [i2.2, i1.2]; exact hnl)
          have c1 : CKInv P1 := ckinv_of_cmdsTab (defineOpt_cmdsTab ext env st.P P1 n .bool name (.b false) [] 0 0 mods hP1) c
          have c2 := ckinv_of_cmdsTab (fold_helpName_cmdsTab name (subtree P1.nodes.length P1 n) P1) c1
          have c3 := addHelpCmds_ckinv name _ _ P3 c2 hsub hP3
          exact ckinv_of_cmdsTab (copyOpts_cmdsTab _ P3 n) c3
  | setFn hd f =>
    simp only [buildStep, bind, Except.bind] at hr
    split at hr
    · cases hr
    · simp only [pure, Except.pure] at hr; cases hr; exact ckinv_modNode _ _ _ (fun _ => rfl) c
  | setMode hd m =>
    simp only [buildStep, bind, Except.bind] at hr
    split at hr
    · cases hr
    · simp only [pure, Except.pure] at hr; cases hr; exact ckinv_modNode _ _ _ (fun _ => rfl) c
  | setUMode hd m =>
    simp only [buildStep, bind, Except.bind] at hr
    split at hr
    · cases hr
    · simp only [pure, Except.pure] at hr; cases hr; exact ckinv_modNode _ _ _ (fun _ => rfl) c
  | setRO hd =>
    simp only [buildStep, bind, Except.bind] at hr
    split at hr
    · cases hr
    · simp only [pure, Except.pure] at hr; cases hr; exact ckinv_modNode _ _ _ (fun _ => rfl) c
  | unset hd =>
    simp only [buildStep, bind, Except.bind] at hr
    split at hr
    · cases hr
    · simp only [pure, Except.pure] at hr; cases hr; exact ckinv_modNode _ _ _ (fun _ => rfl) c
  | mapKeys hd =>
    simp only [buildStep, bind, Except.bind] at hr
    split at hr
    · cases hr
    · simp only [pure, Except.pure] at hr; cases hr; exact ckinv_modNode _ _ _ (fun _ => rfl) c
  | argComp hd l =>
    simp only [buildStep, bind, Except.bind] at hr
    split at hr
    · cases hr
    · simp only [pure, Except.pure] at hr; cases hr; exact ckinv_modNode _ _ _ (fun _ => rfl) c
  | argCompFn hd f =>
    simp only [buildStep, bind, Except.bind] at hr
    split at hr
    · cases hr
    · simp only [pure, Except.pure] at hr; cases hr; exact ckinv_modNode _ _ _ (fun _ => rfl) c
  | synArg hd a d =>
    simp only [buildStep, bind, Except.bind] at hr
    split at hr
    · cases hr
    · simp only [pure, Except.pure] at hr; cases hr; exact ckinv_modNode _ _ _ (fun _ => rfl) c
  | self hd name desc =>
    simp only [buildStep, bind, Except.bind] at hr
    split at hr
    · cases hr
    · simp only [pure, Except.pure] at hr; cases hr; exact ckinv_modNode _ _ _ (fun _ => rfl) c

theorem buildFrom_ckinv (ops : List DefOp) (st st' : BState) (h : BInvT st) (c : CKInv st.P)
    (hr : buildFrom ext env st ops = .ok st') : CKInv st'.P := by
  induction ops generalizing st with
  | nil => simp only [buildFrom, Except.ok.injEq] at hr; subst hr; exact c
  | cons op r ih =>
    simp only [buildFrom, bind, Except.bind] at hr
    split at hr
    · cases hr
    · rename_i s1 h1
      exact ih s1 (buildStep_inv ext env st s1 op h h1) (buildStep_ckinv ext env st s1 op h c h1) hr

theorem emptyProg_ckinv (root : Str) : CKInv (emptyProg root).P := by
  intro x
  unfold emptyProg Prog.node
  cases x with
  | zero => simp
  | succ k => simp [dummyNode]

/-- **Every program accepted by the definition layer has distinct command-table keys at every level**, so the
hypothesis `CmdNamesDistinct` of the help-text determinism theorem holds for it. -/
theorem built_cmd_keys_distinct (root : Str) (script : List DefOp) (st : BState)
    (hr : buildB ext env root script = .ok st) (n : Nat) : CmdNamesDistinct st.P n := by
  have c := buildFrom_ckinv ext env script (emptyProg root) st (emptyProg_inv root) (emptyProg_ckinv root) hr
  unfold CmdNamesDistinct helpCommands
  exact (List.filter_sublist.map _).nodup (c n)

end GoModel

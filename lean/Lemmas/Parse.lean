import Model.Parse
/-! Structural lemmas about the fold-of-step argument loop. -/
namespace GoModel

variable (ext : Ext) (mode : Mode)

theorem stepG_err (comp : Option Str) (s : PState) (t : Str) (h : s.err.isSome = true) :
    stepG ext mode comp s t = s := by
  simp [stepG, h]

theorem step_err (s : PState) (t : Str) (h : s.err.isSome = true) : step ext mode s t = s :=
  stepG_err ext mode none s t h

theorem step_stopped (s : PState) (t : Str) (he : s.err = none) (hc : s.ctx = .stopped) :
    step ext mode s t = s.addText t := by
  simp [step, stepG, he, hc]

/-- prefix law: the state after `pre ++ post` is the state after `pre`, continued with `post` -/
theorem run_append (P : Prog) (pre post : List Str) :
    run ext mode P (pre ++ post) = post.foldl (step ext mode) (run ext mode P pre) := by
  simp [run, List.foldl_append]

theorem foldl_err (s : PState) (ts : List Str) (h : s.err.isSome = true) :
    ts.foldl (step ext mode) s = s := by
  induction ts with
  | nil => rfl
  | cons t ts ih => simp [List.foldl, step_err ext mode s t h, ih]

/-- once stopped (after `--` or the require-order stop) every further token is appended verbatim
and nothing else changes -/
theorem foldl_stopped (s : PState) (ts : List Str) (he : s.err = none) (hc : s.ctx = .stopped) :
    ts.foldl (step ext mode) s = { s with rem := s.rem ++ ts } := by
  induction ts generalizing s with
  | nil => simp
  | cons t ts ih =>
    simp only [List.foldl]
    rw [step_stopped ext mode s t he hc]
    rw [ih (s.addText t) (by simp [PState.addText, he]) (by simp [PState.addText, hc])]
    simp [PState.addText, List.append_assoc]

theorem finish_stopped (s : PState) (hc : s.ctx = .stopped) : finish ext s = s := by
  unfold finish
  split
  · rfl
  · simp [hc]

theorem finish_idle (s : PState) (hc : s.ctx = .idle) : finish ext s = s := by
  unfold finish
  split
  · rfl
  · simp [hc]

theorem finish_err (s : PState) (h : s.err.isSome = true) : finish ext s = s := by
  simp [finish, h]

end GoModel

namespace GoModel
variable (ext : Ext) (mode : Mode)

theorem resolve_exact' (nd : Node) (k : Str) (o : Nat) (h : lookup k nd.opts = some o) :
    resolve nd k = [k] := by
  simp [resolve, h]

/-! ## case lemmas for `procPair` -/

theorem procPair_unknown_ro (s : PState) (p : Pair) (hr : resolve (s.P.node s.cur) p.opt = [])
    (hro : (s.P.node s.cur).requireOrder = true) :
    procPair ext s p = { s.addText s.tok with ctx := .stopped, pending := [] } := by
  unfold procPair; simp only [hr, hro]; rfl

theorem procPair_unknown (s : PState) (p : Pair) (hr : resolve (s.P.node s.cur) p.opt = [])
    (hro : (s.P.node s.cur).requireOrder = false) :
    procPair ext s p =
      if (s.P.node s.cur).umode != .fail && !s.passed then
        { s with unk := s.unk ++ [(p.opt, (s.P.node s.cur).umode)], rem := s.rem ++ [s.tok], passed := true }
      else { s with unk := s.unk ++ [(p.opt, (s.P.node s.cur).umode)] } := by
  unfold procPair; simp only [hr, hro]; simp [PState.addText]

theorem procPair_amb (s : PState) (p : Pair) (k1 k2 : Str) (ks : List Str)
    (hr : resolve (s.P.node s.cur) p.opt = k1 :: k2 :: ks) :
    procPair ext s p = { s with err := some (.ambiguous s.lastTok (sortStrs (k1 :: k2 :: ks))) } := by
  unfold procPair; simp only [hr]

/-- the state right after an option was matched under `key` and its attached arguments were saved -/
def matched (s : PState) (oid : Nat) (key : Str) : Opt :=
  { s.P.opt oid with called := true, usedAlias := key, lowerKeys := (s.P.node 0).mapKeysToLower }

theorem procPair_known (s : PState) (p : Pair) (key : Str) (oid : Nat)
    (hr : resolve (s.P.node s.cur) p.opt = [key]) (hl : lookup key (s.P.node s.cur).opts = some oid) :
    procPair ext s p =
      match save ext (s.P.node 0).mapKeysToLower (matched s oid key) p.args with
      | .error e => { s with P := s.P.setOpt oid (matched s oid key), err := some e }
      | .ok o' =>
        if ((p.args.length : Nat) : Int) < o'.max then
          { s with P := s.P.setOpt oid o', ctx := .collecting oid p.args.length }
        else { s with P := s.P.setOpt oid o' } := by
  unfold procPair; simp only [hr, hl, matched]; rfl

theorem procPair_known_nolookup (s : PState) (p : Pair) (key : Str)
    (hr : resolve (s.P.node s.cur) p.opt = [key]) (hl : lookup key (s.P.node s.cur).opts = none) :
    procPair ext s p = s := by
  unfold procPair; simp only [hr, hl]

end GoModel

namespace GoModel
variable (ext : Ext) (mode : Mode)

/-- a pair never moves the current node and never changes a node record -/
theorem procPair_cur_nodes (s : PState) (p : Pair) :
    (procPair ext s p).cur = s.cur ∧ ∀ n, (procPair ext s p).P.node n = s.P.node n := by
  cases hr : resolve (s.P.node s.cur) p.opt with
  | nil =>
    cases hro : (s.P.node s.cur).requireOrder with
    | true => rw [procPair_unknown_ro ext s p hr hro]; exact ⟨rfl, fun _ => rfl⟩
    | false => rw [procPair_unknown ext s p hr hro]; split <;> exact ⟨rfl, fun _ => rfl⟩
  | cons k1 rest =>
    cases rest with
    | nil =>
      cases hl : lookup k1 (s.P.node s.cur).opts with
      | none => rw [procPair_known_nolookup ext s p k1 hr hl]; exact ⟨rfl, fun _ => rfl⟩
      | some oid =>
        rw [procPair_known ext s p k1 oid hr hl]
        split
        · exact ⟨rfl, fun _ => rfl⟩
        · split <;> exact ⟨rfl, fun _ => rfl⟩
    | cons k2 ks => rw [procPair_amb ext s p k1 k2 ks hr]; exact ⟨rfl, fun _ => rfl⟩

/-! ## a token that splits into one known pair -/

theorem procPair_known_ok (s : PState) (p : Pair) (key : Str) (oid : Nat) (o' : Opt)
    (hr : resolve (s.P.node s.cur) p.opt = [key]) (hl : lookup key (s.P.node s.cur).opts = some oid)
    (hs : save ext (s.P.node 0).mapKeysToLower (matched s oid key) p.args = .ok o') :
    procPair ext s p =
      if ((p.args.length : Nat) : Int) < o'.max then
        { s with P := s.P.setOpt oid o', ctx := .collecting oid p.args.length }
      else { s with P := s.P.setOpt oid o' } := by
  rw [procPair_known ext s p key oid hr hl, hs]

theorem procPair_known_err (s : PState) (p : Pair) (key : Str) (oid : Nat) (e : PErr)
    (hr : resolve (s.P.node s.cur) p.opt = [key]) (hl : lookup key (s.P.node s.cur).opts = some oid)
    (hs : save ext (s.P.node 0).mapKeysToLower (matched s oid key) p.args = .error e) :
    procPair ext s p = { s with P := s.P.setOpt oid (matched s oid key), err := some e } := by
  rw [procPair_known ext s p key oid hr hl, hs]

theorem drain_single_full (s : PState) (p : Pair) (key : Str) (oid : Nat) (o' : Opt)
    (he : s.err = none) (hc : s.ctx = .idle)
    (hr : resolve (s.P.node s.cur) p.opt = [key]) (hl : lookup key (s.P.node s.cur).opts = some oid)
    (hs : save ext (s.P.node 0).mapKeysToLower (matched s oid key) p.args = .ok o')
    (hfull : ¬ ((p.args.length : Nat) : Int) < o'.max) :
    drain ext s [p] = { s with P := s.P.setOpt oid o', pending := [] } := by
  have hm : matched { s with pending := [] } oid key = matched s oid key := rfl
  have := procPair_known_ok ext { s with pending := [] } p key oid o' hr hl (by rw [hm]; exact hs)
  unfold drain
  simp only
  rw [this]
  simp [hfull, he, hc, drain]

theorem drain_single_open (s : PState) (p : Pair) (key : Str) (oid : Nat) (o' : Opt)
    (he : s.err = none)
    (hr : resolve (s.P.node s.cur) p.opt = [key]) (hl : lookup key (s.P.node s.cur).opts = some oid)
    (hs : save ext (s.P.node 0).mapKeysToLower (matched s oid key) p.args = .ok o')
    (hopen : ((p.args.length : Nat) : Int) < o'.max) :
    drain ext s [p] = { s with P := s.P.setOpt oid o', ctx := .collecting oid p.args.length, pending := [] } := by
  have hm : matched { s with pending := [] } oid key = matched s oid key := rfl
  have := procPair_known_ok ext { s with pending := [] } p key oid o' hr hl (by rw [hm]; exact hs)
  unfold drain
  simp only
  rw [this]
  simp [hopen, he]

theorem drain_single_err (s : PState) (p : Pair) (key : Str) (oid : Nat) (e : PErr)
    (hr : resolve (s.P.node s.cur) p.opt = [key]) (hl : lookup key (s.P.node s.cur).opts = some oid)
    (hs : save ext (s.P.node 0).mapKeysToLower (matched s oid key) p.args = .error e) :
    (drain ext s [p]).err = some e := by
  have hm : matched { s with pending := [] } oid key = matched s oid key := rfl
  have := procPair_known_err ext { s with pending := [] } p key oid e hr hl (by rw [hm]; exact hs)
  unfold drain
  simp only
  rw [this]
  simp

/-- the state in which the pairs of the option token `t` are processed -/
def headState (s : PState) (t : Str) : PState := { s with tok := t, lastTok := t, passed := false }

/-- a token at a head position that the splitter recognises as option pairs -/
theorem step_head_option (s : PState) (t : Str) (pairs : List Pair)
    (he : s.err = none) (hc : s.ctx = .idle) (hd : t ≠ dashdash) (hopt : isOption t mode = (pairs, true)) :
    step ext mode s t = drain ext (headState s t) pairs := by
  unfold headState
  have hd' : (t == dashdash) = false := by simpa using hd
  simp [step, stepG, he, hc, head, hd', hopt]

end GoModel

import Lemmas.Obs
/-! States that differ only in the bookkeeping of the verbatim token (`tok`, `lastTok`, `passed`)
while nothing is pending evolve identically: the bookkeeping is only read while pairs are pending. -/
namespace GoModel

variable (ext : Ext) (mode : Mode)

/-- same state up to the token bookkeeping -/
def retok (s : PState) (a : Str) (p : Bool) (c : Str) : PState := { s with tok := a, passed := p, lastTok := c }

/-- nothing is interpreted any more -/
def Frozen (s : PState) : Prop := s.err.isSome = true ∨ s.ctx = .stopped ∨ s.ctx = .done

structure Sim (s s' : PState) : Prop where
  obs : ObsEq s s'
  pend : Frozen s ∨ s = s' ∨ (s.pending = [] ∧ s'.pending = [])

theorem Sim.refl (s : PState) : Sim s s := ⟨ObsEq.refl s, Or.inr (Or.inl rfl)⟩

theorem sim_retok (s : PState) (a : Str) (p : Bool) (c : Str) (h : s.pending = []) : Sim s (retok s a p c) :=
  ⟨⟨rfl, rfl, rfl, rfl, rfl, rfl, rfl, rfl⟩, Or.inr (Or.inr ⟨h, h⟩)⟩

theorem retok_of_sim {s s' : PState} (h : Sim s s') (hp : s.pending = []) (hp' : s'.pending = []) :
    s' = retok s s'.tok s'.passed s'.lastTok := by
  obtain ⟨⟨h1, h2, h3, h4, h5, h6, h7, h8⟩, _⟩ := h
  cases s; cases s'
  simp only [retok] at *
  subst h1 h2 h3 h4 h5 h6 h7 h8 hp hp'
  rfl

theorem head_retok (s : PState) (t a : Str) (p : Bool) (c : Str) (h : s.pending = []) :
    Sim (head ext mode none s t) (head ext mode none (retok s a p c) t) := by
  unfold head
  simp only [retok]
  by_cases hd : (t == dashdash) = true
  · simp only [hd, ↓reduceIte]
    exact sim_retok { s with ctx := .stopped } a p c h
  · simp only [hd, Bool.false_eq_true, ↓reduceIte]
    cases hopt : isOption t mode with
    | mk pairs isopt =>
      cases isopt with
      | true => exact Sim.refl _
      | false =>
        simp only
        cases hl : lookup t (s.P.node s.cur).cmds with
        | some cmd => exact sim_retok { s with cur := cmd, textStart := s.rem.length } a p c h
        | none =>
          simp only
          by_cases hro : (s.P.node s.cur).requireOrder = true
          · simp only [hro, ↓reduceIte]
            exact sim_retok { s.addText t with ctx := .stopped } a p c h
          · simp only [hro, Bool.false_eq_true, ↓reduceIte]
            exact sim_retok (s.addText t) a p c h

theorem offer_retok (s : PState) (o i : Nat) (t a : Str) (p : Bool) (c : Str) :
    ∃ c', offer ext mode (retok s a p c) o i t = (retok (offer ext mode s o i t).1 a p c', (offer ext mode s o i t).2) ∧
      (offer ext mode s o i t).1.pending = s.pending := by
  unfold offer retok
  simp only
  by_cases h1 : ((i : Int) < (s.P.opt o).min)
  · simp only [h1, ↓reduceIte]
    by_cases h2 : looksLikeOption t mode = true
    · simp only [h2, ↓reduceIte]; exact ⟨c, by simp⟩
    · simp only [h2, Bool.false_eq_true, ↓reduceIte]
      cases save ext (s.P.node 0).mapKeysToLower (s.P.opt o) [t] with
      | error e => exact ⟨t, by simp⟩
      | ok o' => exact ⟨t, by simp⟩
  · simp only [h1, ↓reduceIte]
    by_cases h2 : (looksLikeOption t mode || t == dashdash || !typeOk ext (s.P.opt o).kind t) = true
    · simp only [h2, ↓reduceIte]; exact ⟨c, by simp⟩
    · simp only [h2, Bool.false_eq_true, ↓reduceIte]
      cases save ext (s.P.node 0).mapKeysToLower (s.P.opt o) [t] with
      | error e => exact ⟨t, by simp⟩
      | ok o' => exact ⟨t, by simp⟩

theorem afterConsume_nil_retok (s : PState) (a : Str) (p : Bool) (c : Str) (h : s.pending = []) :
    Sim (afterConsume ext s []) (afterConsume ext (retok s a p c) []) := by
  unfold afterConsume retok
  simp only
  by_cases he : s.err.isSome = true
  · simp only [he, ↓reduceIte]; exact sim_retok s a p c h
  · simp only [he, Bool.false_eq_true, ↓reduceIte]
    cases hc : s.ctx <;> simp only [drain] <;>
      refine ⟨⟨rfl, rfl, ?_, rfl, rfl, rfl, rfl, rfl⟩, Or.inr (Or.inr ⟨rfl, rfl⟩)⟩ <;>
      first | rfl | simp [hc]

theorem step_retok (s : PState) (t a : Str) (p : Bool) (c : Str) (h : s.pending = []) :
    Sim (step ext mode s t) (step ext mode (retok s a p c) t) := by
  unfold step stepG
  by_cases he : s.err.isSome = true
  · have : (retok s a p c).err.isSome = true := he
    simp only [he, this, ↓reduceIte]; exact sim_retok s a p c h
  · have he' : ¬ (retok s a p c).err.isSome = true := he
    simp only [he, he', Bool.false_eq_true, ↓reduceIte]
    have hctx : (retok s a p c).ctx = s.ctx := rfl
    rw [hctx]
    cases hc : s.ctx with
    | done => exact sim_retok s a p c h
    | stopped => exact sim_retok (s.addText t) a p c h
    | idle => exact head_retok ext mode s t a p c h
    | collecting o i =>
      simp only
      obtain ⟨c', ho, hpend⟩ := offer_retok ext mode s o i t a p c
      rw [ho]
      have hp1 : (offer ext mode s o i t).1.pending = [] := by rw [hpend]; exact h
      cases hb : (offer ext mode s o i t).2 with
      | true =>
        have e1 : offer ext mode s o i t = ((offer ext mode s o i t).1, true) := by rw [← hb]
        rw [e1]
        simp only
        have : (retok (offer ext mode s o i t).1 a p c').pending = [] := hp1
        rw [this, hp1]
        exact afterConsume_nil_retok ext _ a p c' hp1
      | false =>
        have e1 : offer ext mode s o i t = ((offer ext mode s o i t).1, false) := by rw [← hb]
        rw [e1]
        simp only
        have : (retok (offer ext mode s o i t).1 a p c').pending = [] := hp1
        rw [this, hp1]
        simp only [feedPending]
        exact head_retok ext mode { (offer ext mode s o i t).1 with pending := [] } t a p c' rfl

theorem step_frozen (s : PState) (t : Str) (h : Frozen s) :
    Frozen (step ext mode s t) ∧ (step ext mode s t).P = s.P ∧ (step ext mode s t).cur = s.cur ∧
    (step ext mode s t).ctx = s.ctx ∧ (step ext mode s t).err = s.err ∧ (step ext mode s t).unk = s.unk ∧
    (step ext mode s t).textStart = s.textStart ∧ (step ext mode s t).comps = s.comps ∧
    ((step ext mode s t).rem = s.rem ∨ (step ext mode s t).rem = s.rem ++ [t]) ∧
    ((step ext mode s t).rem = s.rem ↔ (s.err.isSome = true ∨ s.ctx = .done)) := by
  unfold step stepG
  by_cases he : s.err.isSome = true
  · simp [he, h]
  · simp only [he, Bool.false_eq_true, ↓reduceIte]
    rcases h with h | h | h
    · exact absurd h he
    · simp [Frozen, PState.addText, h]
    · simp [Frozen, h]

/-- one more token keeps the two runs similar -/
theorem step_sim (s s' : PState) (t : Str) (h : Sim s s') : Sim (step ext mode s t) (step ext mode s' t) := by
  rcases h.pend with hf | he | ⟨hp, hp'⟩
  · have hf' : Frozen s' := by
      rcases hf with x | x | x
      · exact Or.inl (by rw [← h.obs.err]; exact x)
      · exact Or.inr (Or.inl (by rw [← h.obs.ctx]; exact x))
      · exact Or.inr (Or.inr (by rw [← h.obs.ctx]; exact x))
    have a := step_frozen ext mode s t hf
    have b := step_frozen ext mode s' t hf'
    obtain ⟨a0, a1, a2, a3, a4, a5, a6, a7, a8, a9⟩ := a
    obtain ⟨b0, b1, b2, b3, b4, b5, b6, b7, b8, b9⟩ := b
    have hiff : (s.err.isSome = true ∨ s.ctx = .done) ↔ (s'.err.isSome = true ∨ s'.ctx = .done) := by
      rw [h.obs.err, h.obs.ctx]
    refine ⟨⟨by rw [a1, b1, h.obs.P], by rw [a2, b2, h.obs.cur], by rw [a3, b3, h.obs.ctx], ?_,
      by rw [a5, b5, h.obs.unk], by rw [a4, b4, h.obs.err], by rw [a6, b6, h.obs.ts], by rw [a7, b7, h.obs.comps]⟩, Or.inl a0⟩
    by_cases hq : (s.err.isSome = true ∨ s.ctx = .done)
    · rw [a9.mpr hq, b9.mpr (hiff.mp hq), h.obs.rem]
    · have ha : (step ext mode s t).rem = s.rem ++ [t] := by
        rcases a8 with x | x
        · exact absurd (a9.mp x) hq
        · exact x
      have hb : (step ext mode s' t).rem = s'.rem ++ [t] := by
        rcases b8 with x | x
        · exact absurd (hiff.mpr (b9.mp x)) hq
        · exact x
      rw [ha, hb, h.obs.rem]
  · subst he; exact Sim.refl _
  · rw [retok_of_sim h hp hp']
    exact step_retok ext mode s t _ _ _ hp

theorem foldl_sim (ts : List Str) (s s' : PState) (h : Sim s s') :
    Sim (ts.foldl (step ext mode) s) (ts.foldl (step ext mode) s') := by
  induction ts generalizing s s' with
  | nil => exact h
  | cons t ts ih => exact ih _ _ (step_sim ext mode s s' t h)

theorem finish_sim (s s' : PState) (h : Sim s s') : ObsEq (finish ext s) (finish ext s') := by
  rcases h.pend with hf | he | ⟨hp, hp'⟩
  · have e1 : finish ext s = s := by
      rcases hf with x | x | x
      · exact finish_err ext s x
      · exact finish_stopped ext s x
      · unfold finish; simp [x]
    have e2 : finish ext s' = s' := by
      rcases hf with x | x | x
      · exact finish_err ext s' (by rw [← h.obs.err]; exact x)
      · exact finish_stopped ext s' (by rw [← h.obs.ctx]; exact x)
      · unfold finish; have : s'.ctx = .done := by rw [← h.obs.ctx]; exact x
        simp [this]
    rw [e1, e2]; exact h.obs
  · subst he; exact ObsEq.refl _
  · rw [retok_of_sim h hp hp']
    unfold finish retok
    simp only
    by_cases he : s.err.isSome = true
    · simp only [he, ↓reduceIte]; exact ⟨rfl, rfl, rfl, rfl, rfl, rfl, rfl, rfl⟩
    · simp only [he, Bool.false_eq_true, ↓reduceIte]
      cases hc : s.ctx with
      | collecting o i =>
        simp only
        split
        · exact ⟨rfl, rfl, rfl, rfl, rfl, rfl, rfl, rfl⟩
        · rw [hp]; simp only [finishDrain]; exact ⟨rfl, rfl, rfl, rfl, rfl, rfl, rfl, rfl⟩
      | idle => constructor <;> simp [hc]
      | stopped => constructor <;> simp [hc]
      | done => constructor <;> simp [hc]

end GoModel

import Lemmas.Sched
/-!
# A Task shared by two graphs that run concurrently never executes twice at the same time

The task goroutine of `dag.Run` does `v.Task.Lock(); defer v.Task.Unlock()` before the first attempt, so it holds the
Task's mutex from the `lockAcq` event until it has handed over its result.  Two graphs that contain the same
`*Task` (same id here) run as two copies of the scheduler LTS; the only coupling is the mutex: a `lockAcq v` of one
graph is possible only while the other graph's goroutine for `v` does not hold it (that is what `sync.Mutex`
guarantees — the assumption of this file).  Then in every reachable state of the pair at most one of the two is
inside the task's function.
-/
namespace GoModel.Dag

/-- the goroutine of `v` holds the Task's mutex: after `lockAcq`, until its result has been received -/
def holdsLock (s : Sched) (v : Nat) : Bool :=
  match (s.get v).fl with
  | .idle _ | .running _ | .sending _ => true
  | _ => false

theorem holdsLock_of_fl {s s' : Sched} {v : Nat} (h : (s'.get v).fl = (s.get v).fl) :
    holdsLock s' v = holdsLock s v := by
  unfold holdsLock; rw [h]

theorem holdsLock_set_ne (s : Sched) (w v : Nat) (x : VState) (h : v ≠ w) :
    holdsLock (s.set w x) v = holdsLock s v :=
  holdsLock_of_fl (by rw [get_set_ne s w v x h])

theorem holdsLock_errs (s : Sched) (e : List Entry) (cn : Bool) (v : Nat) :
    holdsLock { s with errs := e, cancelled := cn } v = holdsLock s v := rfl

theorem holdsLock_mark (c : Cfg) (s : Sched) (w v : Nat) : holdsLock (markAncestors c s w) v = holdsLock s v := by
  apply holdsLock_of_fl
  rw [markAncestors_get]
  split <;> rfl

/-- **One event can make a goroutine a lock holder only by being its `lockAcq`.** -/
theorem step_holds (c : Cfg) (s s' : Sched) (ev : Event) (v : Nat)
    (h : step? c s ev = some s') (hl : holdsLock s' v = true) :
    holdsLock s v = true ∨ ev = .lockAcq v := by
  -- a `set` at `w` that keeps the flight, or moves it to a non-holding / from a holding one
  have keep : ∀ (w : Nat) (x : VState), (holdsLock (s.set w x) w = true → holdsLock s w = true) →
      holdsLock (s.set w x) v = true → holdsLock s v = true := by
    intro w x hw hv
    by_cases e : v = w
    · subst e; exact hw hv
    · rw [holdsLock_set_ne _ _ _ _ e] at hv; exact hv
  cases ev with
  | pickReal w =>
    simp only [step?] at h
    split at h
    · simp at h
    · split at h
      · simp only [Option.some.injEq] at h; subst h
        exact Or.inl (keep w _ (by intro hh; simp [holdsLock] at hh) hl)
      · simp at h
  | pickSkip w =>
    simp only [step?] at h
    split at h
    · simp at h
    · split at h
      · simp only [Option.some.injEq] at h; subst h
        exact Or.inl (keep w _ (by intro hh; rw [← hh]; exact (holdsLock_of_fl (by simp)).symm) hl)
      · simp at h
  | pickErr w =>
    simp only [step?] at h
    split at h
    · simp at h
    · split at h
      · simp only [Option.some.injEq] at h; subst h
        exact Or.inl (keep w _ (by intro hh; rw [← hh]; exact (holdsLock_of_fl (by simp)).symm) hl)
      · simp at h
  | recv w r =>
    simp only [step?] at h
    split at h
    · simp at h
    · split at h
      · have hset : ∀ y, holdsLock (s.set w (if (s.get w).fl == .sending r then
            { s.get w with st := .done, fl := .none, out := some r }
            else { s.get w with st := .done, pseudo := (s.get w).pseudo.erase r, out := some r })) y = true →
            holdsLock s y = true := by
          intro y hy
          by_cases e : y = w
          · subst e
            by_cases hf : ((s.get y).fl == Flight.sending r) = true
            · simp [holdsLock, hf] at hy
            · simp only [hf] at hy
              rw [← hy]; exact (holdsLock_of_fl (by simp)).symm
          · rw [holdsLock_set_ne _ _ _ _ e] at hy; exact hy
        left
        cases r with
        | ok => simp only [Option.some.injEq] at h; subst h; exact hset v hl
        | skipParents =>
          simp only [Option.some.injEq] at h; subst h
          rw [holdsLock_mark] at hl; exact hset v hl
        | err => simp only [Option.some.injEq] at h; subst h; exact hset v hl
        | taskSkipped => simp only [Option.some.injEq] at h; subst h; exact hset v hl
      · simp at h
  | cancel =>
    simp only [step?] at h
    split at h
    · simp at h
    · split at h
      · simp at h
      · simp only [Option.some.injEq] at h; subst h; exact Or.inl hl
  | idle =>
    simp only [step?] at h
    split at h
    · simp at h
    · split at h
      · simp at h
      · split at h
        · simp at h
        · simp only [Option.some.injEq] at h; subst h; exact Or.inl hl
  | exit =>
    simp only [step?] at h
    split at h
    · simp at h
    · split at h
      · simp only [Option.some.injEq] at h; subst h; exact Or.inl hl
      · simp at h
  | semAcq w =>
    simp only [step?] at h
    split at h
    · simp at h
    · split at h
      · simp only [Option.some.injEq] at h; subst h
        exact Or.inl (keep w _ (by intro hh; simp [holdsLock] at hh) hl)
      · simp at h
  | lockAcq w =>
    simp only [step?] at h
    split at h
    · simp at h
    · split at h
      · simp only [Option.some.injEq] at h; subst h
        by_cases e : v = w
        · subst e; exact Or.inr rfl
        · rw [holdsLock_set_ne _ _ _ _ e] at hl; exact Or.inl hl
      · simp at h
  | enter w k =>
    simp only [step?] at h
    split at h
    · simp at h
    · split at h
      · rename_i hc
        simp only [Option.some.injEq] at h; subst h
        have hidle : (s.get w).fl = .idle k := by simp at hc; exact hc.1
        exact Or.inl (keep w _ (by intro _; simp [holdsLock, hidle]) hl)
      · simp at h
  | leave w k r =>
    simp only [step?] at h
    split at h
    · simp at h
    · split at h
      · rename_i hc
        have hrun : (s.get w).fl = .running k := by simp at hc; exact hc.1
        split at h <;>
          (simp only [Option.some.injEq] at h; subst h
           exact Or.inl (keep w _ (by intro _; simp [holdsLock, hrun]) hl))
      · simp at h
  | semRel w =>
    simp [step?] at h
    obtain ⟨_, rfl⟩ := h
    exact Or.inl (keep w _ (by intro hh; rw [← hh]; exact (holdsLock_of_fl (by simp)).symm) hl)

/-- a vertex whose function is executing holds the lock -/
theorem running_holds (s : Sched) (v k : Nat) (h : (s.get v).fl = .running k) : holdsLock s v = true := by
  simp [holdsLock, h]

/-! ## two graphs sharing their tasks -/

/-- one step of the pair: an event of the first or of the second graph; acquiring the mutex of task `v` needs the
other graph's goroutine for `v` not to hold it -/
inductive PairStep (c1 c2 : Cfg) : Sched × Sched → Sched × Sched → Prop
  | left (s1 s2 s1' : Sched) (ev : Event) (h : step? c1 s1 ev = some s1')
      (hm : ∀ v, ev = .lockAcq v → holdsLock s2 v = false) : PairStep c1 c2 (s1, s2) (s1', s2)
  | right (s1 s2 s2' : Sched) (ev : Event) (h : step? c2 s2 ev = some s2')
      (hm : ∀ v, ev = .lockAcq v → holdsLock s1 v = false) : PairStep c1 c2 (s1, s2) (s1, s2')

inductive PairReachable (c1 c2 : Cfg) : Sched × Sched → Prop
  | init : PairReachable c1 c2 (initSched, initSched)
  | step (p q : Sched × Sched) (hp : PairReachable c1 c2 p) (hs : PairStep c1 c2 p q) : PairReachable c1 c2 q

/-- the mutex is held by at most one of the two goroutines of a task -/
def Exclusive (p : Sched × Sched) : Prop := ∀ v, ¬ (holdsLock p.1 v = true ∧ holdsLock p.2 v = true)

theorem exclusive_init : Exclusive (initSched, initSched) := by
  intro v h; simp [holdsLock, initSched, Sched.get] at h

theorem exclusive_step (c1 c2 : Cfg) (p q : Sched × Sched) (he : Exclusive p) (hs : PairStep c1 c2 p q) :
    Exclusive q := by
  intro v hv
  cases hs with
  | left s1 s2 s1' ev h hm =>
    rcases step_holds c1 s1 s1' ev v h hv.1 with h1 | h1
    · exact he v ⟨h1, hv.2⟩
    · have := hm v h1; rw [this] at hv; exact absurd hv.2 (by simp)
  | right s1 s2 s2' ev h hm =>
    rcases step_holds c2 s2 s2' ev v h hv.2 with h1 | h1
    · exact he v ⟨hv.1, h1⟩
    · have := hm v h1; rw [this] at hv; exact absurd hv.1 (by simp)

theorem reachable_exclusive (c1 c2 : Cfg) (p : Sched × Sched) (hr : PairReachable c1 c2 p) : Exclusive p := by
  induction hr with
  | init => exact exclusive_init
  | step p q _ hs ih => exact exclusive_step c1 c2 p q ih hs

end GoModel.Dag

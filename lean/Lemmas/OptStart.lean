import Lemmas.Abbrev
/-! Positions where an option token is interpreted: a head position, or right behind an option that
is still collecting values (nothing pending) — an option-looking token is never taken as such a value. -/
namespace GoModel

variable (ext : Ext) (mode : Mode)

/-- the state in which the refused token is looked at again -/
def refused (s : PState) : PState := { s with ctx := .idle, pending := [] }

theorem step_collecting_optlike (s : PState) (o i : Nat) (t : Str) (he : s.err = none)
    (hc : s.ctx = .collecting o i) (hp : s.pending = []) (hl : looksLikeOption t mode = true) :
    step ext mode s t =
      if (i : Int) < (s.P.opt o).min then { s with err := some (.dashArg (s.P.opt o).usedAlias) }
      else step ext mode (refused s) t := by
  unfold step stepG
  simp only [he, Option.isSome_none, Bool.false_eq_true, ↓reduceIte, hc, refused]
  unfold offer
  simp only [hl, Bool.true_or, ↓reduceIte]
  by_cases h1 : ((i : Int) < (s.P.opt o).min)
  · simp only [h1, ↓reduceIte]
    simp [afterConsume]
    exact hc
  · simp only [h1, ↓reduceIte, hp, feedPending]
    simp [he]

/-- an option may start here -/
def OptStart (s : PState) : Prop :=
  s.err = none ∧ (s.ctx = .idle ∨ ∃ o i, s.ctx = .collecting o i ∧ s.pending = [])

theorem refused_obs (s : PState) : (refused s).P = s.P ∧ (refused s).cur = s.cur ∧ (refused s).err = s.err ∧
    (refused s).ctx = .idle := ⟨rfl, rfl, rfl, rfl⟩

/-- two option-looking tokens that behave alike (up to the token bookkeeping) at every head position with
the store and command of `s` behave alike wherever an option may start -/
theorem sim_at_optstart (s : PState) (t t' : Str) (hs : OptStart s)
    (hl : looksLikeOption t mode = true) (hl' : looksLikeOption t' mode = true)
    (hhead : ∀ s0 : PState, s0.P = s.P → s0.cur = s.cur → s0.err = none → s0.ctx = .idle →
      Sim (step ext mode s0 t) (step ext mode s0 t')) :
    Sim (step ext mode s t) (step ext mode s t') := by
  obtain ⟨he, hc | ⟨o, i, hc, hp⟩⟩ := hs
  · exact hhead s rfl rfl he hc
  · rw [step_collecting_optlike ext mode s o i t he hc hp hl, step_collecting_optlike ext mode s o i t' he hc hp hl']
    split
    · exact Sim.refl _
    · exact hhead (refused s) rfl rfl he rfl

/-- a token list that starts with an option-looking token is processed from `s` as from the state in
which that token is looked at again -/
theorem foldl_at_optstart (s : PState) (o i : Nat) (t : Str) (ts : List Str) (he : s.err = none)
    (hc : s.ctx = .collecting o i) (hp : s.pending = []) (hl : looksLikeOption t mode = true)
    (hmin : ¬ ((i : Int) < (s.P.opt o).min)) :
    (t :: ts).foldl (step ext mode) s = (t :: ts).foldl (step ext mode) (refused s) := by
  simp only [List.foldl_cons]
  rw [step_collecting_optlike ext mode s o i t he hc hp hl]
  simp only [hmin, ↓reduceIte]

theorem looks_of_isOption (t : Str) (ps : List Pair) (h : isOption t mode = (ps, true)) :
    looksLikeOption t mode = true := by
  unfold looksLikeOption; rw [h]

theorem known_of_eq {s s0 : PState} {p : Pair} (hP : s0.P = s.P) (hc : s0.cur = s.cur) (h : Known s p) : Known s0 p := by
  obtain ⟨k, hk⟩ := h; exact ⟨k, by rw [hP, hc]; exact hk⟩

theorem flag_of_eq {s s0 : PState} {p : Pair} (hP : s0.P = s.P) (hc : s0.cur = s.cur) (h : FlagPair s p) : FlagPair s0 p := by
  obtain ⟨key, oid, hr, hl, hlen, hmax⟩ := h.known
  exact ⟨h.bare, key, oid, by rw [hP, hc]; exact hr, by rw [hP, hc]; exact hl, by rw [hP]; exact hlen, by rw [hP]; exact hmax⟩

/-- `same_pair_sim` wherever an option may start -/
theorem same_pair_sim' (s : PState) (t t' : Str) (p : Pair) (hs : OptStart s)
    (ht : isOption t mode = ([p], true)) (ht' : isOption t' mode = ([p], true)) (hk : Known s p) :
    Sim (step ext mode s t) (step ext mode s t') :=
  sim_at_optstart ext mode s t t' hs (looks_of_isOption mode t _ ht) (looks_of_isOption mode t' _ ht')
    (fun s0 hP hc he hi => same_pair_sim ext mode s0 t t' p he hi ht ht' (known_of_eq hP hc hk))

/-- `abbrev_sim` wherever an option may start -/
theorem abbrev_sim' (s : PState) (t t' : Str) (k k' : Str) (args : List Str) (hs : OptStart s)
    (ht : isOption t mode = ([⟨k, args⟩], true)) (ht' : isOption t' mode = ([⟨k', args⟩], true))
    (h : resolve (s.P.node s.cur) k = [k']) (h' : resolve (s.P.node s.cur) k' = [k']) :
    Sim (step ext mode s t) (step ext mode s t') :=
  sim_at_optstart ext mode s t t' hs (looks_of_isOption mode t _ ht) (looks_of_isOption mode t' _ ht')
    (fun s0 hP hc he hi => abbrev_sim ext mode s0 t t' k k' args he hi ht ht'
      (by rw [hP, hc]; exact h) (by rw [hP, hc]; exact h'))

/-- `bundle_rewrite_sim` wherever an option may start -/
theorem bundle_rewrite_sim' (s : PState) (t tl : Str) (ts : List Str) (ps : List Pair) (pz : Pair)
    (hs : OptStart s)
    (ht : isOption t mode = (ps ++ [pz], true)) (hts : Splits mode ts ps)
    (htl : isOption tl mode = ([pz], true))
    (hf : ∀ p ∈ ps, FlagPair s p) (hz : Known s pz) :
    Sim (step ext mode s t) ((ts ++ [tl]).foldl (step ext mode) s) := by
  obtain ⟨he, hc | ⟨o, i, hc, hp⟩⟩ := hs
  · exact bundle_rewrite_sim ext mode s t tl ts ps pz he hc ht hts htl hf hz
  · -- the first token of the rewriting looks like an option as well
    have hfirst : ∃ t1 rest, ts ++ [tl] = t1 :: rest ∧ looksLikeOption t1 mode = true := by
      cases hts with
      | nil => exact ⟨tl, [], rfl, looks_of_isOption mode tl _ htl⟩
      | cons h1 _ => exact ⟨_, _, rfl, looks_of_isOption mode _ _ h1⟩
    obtain ⟨t1, rest, hl1, hlk1⟩ := hfirst
    have hlk : looksLikeOption t mode = true := looks_of_isOption mode t _ ht
    by_cases hmin : ((i : Int) < (s.P.opt o).min)
    · -- both sides fail with the same "argument starts with a dash" error
      rw [hl1]
      simp only [List.foldl_cons]
      rw [step_collecting_optlike ext mode s o i t he hc hp hlk, step_collecting_optlike ext mode s o i t1 he hc hp hlk1]
      simp only [hmin, ↓reduceIte]
      rw [foldl_err ext mode _ rest (by simp)]
      exact Sim.refl _
    · rw [hl1, foldl_at_optstart ext mode s o i t1 rest he hc hp hlk1 hmin, ← hl1,
          step_collecting_optlike ext mode s o i t he hc hp hlk]
      simp only [hmin, ↓reduceIte]
      exact bundle_rewrite_sim ext mode (refused s) t tl ts ps pz he rfl ht hts htl
        (fun p hp' => flag_of_eq (s := s) (s0 := refused s) rfl rfl (hf p hp')) (known_of_eq (s := s) (s0 := refused s) rfl rfl hz)

end GoModel

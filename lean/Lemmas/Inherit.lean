import Lemmas.Tree
import Props.C02
import Lemmas.Perm
/-! `NewCommand` hands every key of the parent's table down to the new command (C10: "options
inherited from its ancestors"). -/
namespace GoModel

/-- one iteration of the first loop of `copyOptionsFromParent` -/
def copyStepFn (pn : Node) (A : Prog) (c : Nat) : Prog :=
  let cn := A.node c
  if cn.name == pn.helpName || cn.skipCopy then A
  else A.setNode c { cn with opts := pn.opts.foldl (fun acc kv => insertKV kv.1 kv.2 acc) cn.opts }

theorem copyOpts_succ (fuel : Nat) (P : Prog) (parent : Nat) :
    copyOpts (fuel + 1) P parent =
      ((P.node parent).cmds.map (·.2)).foldl (fun A c => copyOpts fuel A c)
        (((P.node parent).cmds.map (·.2)).foldl (copyStepFn (P.node parent)) P) := rfl

def kids (P : Prog) (x : Nat) : List Nat := (P.node x).cmds.map (·.2)

theorem kids_of_shells {P Q : Prog} (h : Q.shells = P.shells) (x : Nat) : kids Q x = kids P x := by
  have := congrArg Node.cmds (node_shell_of_shells h x)
  simp only [Node.shell] at this
  simp [kids, this]

theorem copyStepFn_shells (pn : Node) (A : Prog) (c : Nat) : (copyStepFn pn A c).shells = A.shells := by
  unfold copyStepFn
  simp only
  split
  · rfl
  · exact shells_setNode_opts A c _

theorem copyStepFn_copy (pn : Node) (A : Prog) (c : Nat)
    (h : ((A.node c).name == pn.helpName || (A.node c).skipCopy) = false) :
    copyStepFn pn A c =
      A.setNode c { A.node c with opts := pn.opts.foldl (fun acc kv => insertKV kv.1 kv.2 acc) (A.node c).opts } := by
  unfold copyStepFn
  simp only [h, Bool.false_eq_true, ↓reduceIte]

theorem copyStepFn_other (pn : Node) (A : Prog) (c n : Nat) (h : n ≠ c) :
    (copyStepFn pn A c).node n = A.node n := by
  unfold copyStepFn
  simp only
  split
  · rfl
  · rw [node_setNode]; simp [h]

theorem copyStep_fold_other (pn : Node) (ks : List Nat) (A : Prog) (n : Nat) (h : n ∉ ks) :
    (ks.foldl (copyStepFn pn) A).node n = A.node n := by
  induction ks generalizing A with
  | nil => rfl
  | cons k ks ih =>
    simp only [List.foldl_cons]
    rw [ih _ (fun e => h (by simp [e]))]
    exact copyStepFn_other pn A k n (fun e => h (by simp [e]))

theorem copyStep_fold_shells (pn : Node) (ks : List Nat) (A : Prog) :
    (ks.foldl (copyStepFn pn) A).shells = A.shells := by
  induction ks generalizing A with
  | nil => rfl
  | cons k ks ih => simp only [List.foldl_cons]; rw [ih, copyStepFn_shells]

/-- `x` is `a` or a descendant of `a` -/
inductive Reach (P : Prog) : Nat → Nat → Prop
  | refl (a : Nat) : Reach P a a
  | step {a c x : Nat} : c ∈ kids P a → Reach P c x → Reach P a x

theorem reach_of_shells {P Q : Prog} (h : Q.shells = P.shells) {a x : Nat} (r : Reach Q a x) : Reach P a x := by
  induction r with
  | refl a => exact Reach.refl a
  | step hc _ ih => exact Reach.step (by rw [← kids_of_shells h]; exact hc) ih

/-- a node that is not a child of anything reachable from `a` is left alone by the copy from `a` -/
theorem copyOpts_untouched (fuel : Nat) (P : Prog) (a n : Nat)
    (h : ∀ x, Reach P a x → n ∉ kids P x) : (copyOpts fuel P a).node n = P.node n := by
  induction fuel generalizing P a with
  | zero => rfl
  | succ fuel ih =>
    rw [copyOpts_succ]
    have hk : n ∉ kids P a := h a (Reach.refl a)
    have h1 : ((kids P a).foldl (copyStepFn (P.node a)) P).node n = P.node n :=
      copyStep_fold_other _ _ _ _ hk
    have hsh : ((kids P a).foldl (copyStepFn (P.node a)) P).shells = P.shells := copyStep_fold_shells _ _ _
    -- the second loop, over any sub-list of the kids
    have h2 : ∀ (ks : List Nat) (Q : Prog), (∀ c ∈ ks, c ∈ kids P a) → Q.shells = P.shells →
        (ks.foldl (fun A c => copyOpts fuel A c) Q).node n = Q.node n := by
      intro ks
      induction ks with
      | nil => intro Q _ _; rfl
      | cons k ks ihk =>
        intro Q hsub hQ
        simp only [List.foldl_cons]
        have hQ' : (copyOpts fuel Q k).shells = P.shells := by rw [copyOpts_shells]; exact hQ
        rw [ihk _ (fun c hc => hsub c (by simp [hc])) hQ']
        apply ih
        intro x hx
        have hx' : Reach P k x := reach_of_shells hQ hx
        rw [kids_of_shells hQ]
        exact h x (Reach.step (hsub k (by simp)) hx')
    show ((kids P a).foldl (fun A c => copyOpts fuel A c) ((kids P a).foldl (copyStepFn (P.node a)) P)).node n = P.node n
    rw [h2 _ _ (fun c hc => hc) hsh, h1]

theorem copyOpts_fold_untouched (fuel : Nat) (ks : List Nat) (Q : Prog) (n : Nat)
    (h : ∀ c ∈ ks, ∀ x, Reach Q c x → n ∉ kids Q x) :
    (ks.foldl (fun A c => copyOpts fuel A c) Q).node n = Q.node n := by
  induction ks generalizing Q with
  | nil => rfl
  | cons k ks ih =>
    simp only [List.foldl_cons]
    have hsh : (copyOpts fuel Q k).shells = Q.shells := copyOpts_shells fuel Q k
    rw [ih (copyOpts fuel Q k)]
    · exact copyOpts_untouched fuel Q k n (h k (by simp))
    · intro c hc x hx
      rw [kids_of_shells hsh]
      exact h c (by simp [hc]) x (reach_of_shells hsh hx)

theorem lookup_foldl_insertKV {α} (l : List (Str × α)) (acc : List (Str × α)) (k : Str)
    (hnd : (l.map (·.1)).Nodup) :
    lookup k (l.foldl (fun acc kv => insertKV kv.1 kv.2 acc) acc) =
      match lookup k l with
      | some v => some v
      | none => lookup k acc := by
  induction l generalizing acc with
  | nil => simp [lookup]
  | cons x r ih =>
    obtain ⟨k1, v1⟩ := x
    simp only [List.map_cons, List.nodup_cons] at hnd
    simp only [List.foldl_cons]
    rw [ih _ hnd.2]
    by_cases hk : k1 = k
    · subst hk
      have hnone : lookup k1 r = none := (lookup_none_iff r k1).mpr hnd.1
      simp [hnone, lookup, lookup_insertKV_same]
    · have hb : (k1 == k) = false := by simpa using hk
      simp only [lookup, hb, Bool.false_eq_true, ↓reduceIte]
      cases lookup k r with
      | some v => rfl
      | none => simp only; exact lookup_insertKV_other k1 k v1 acc hk

/-- tree shape of the command tables: every registered child exists and has a larger id than its parent -/
structure TreeWF (P : Prog) : Prop where
  ordered : ∀ x c, c ∈ kids P x → x < c
  bounded : ∀ x c, c ∈ kids P x → c < P.nodes.length

/-- the program after `addChildCommand`: the node appended, its name registered under `p` -/
def attach (P : Prog) (p : Nat) (nd : Node) : Prog :=
  ({ P with nodes := P.nodes ++ [nd] } : Prog).modNode p fun q => { q with cmds := q.cmds ++ [(nd.name, P.nodes.length)] }

theorem node_append (P : Prog) (nd : Node) (x : Nat) :
    ({ P with nodes := P.nodes ++ [nd] } : Prog).node x =
      if x < P.nodes.length then P.node x else if x = P.nodes.length then nd else dummyNode := by
  unfold Prog.node
  simp only [List.getD_eq_getElem?_getD]
  by_cases h1 : x < P.nodes.length
  · simp [h1, List.getElem?_append_left h1]
  · by_cases h2 : x = P.nodes.length
    · subst h2; simp
    · have : P.nodes.length + 1 ≤ x := by omega
      simp [h1, h2, List.getElem?_eq_none (l := P.nodes ++ [nd]) (by simpa using this)]

theorem attach_node (P : Prog) (p : Nat) (nd : Node) (hp : p < P.nodes.length) (x : Nat) :
    (attach P p nd).node x =
      if x = p then { P.node p with cmds := (P.node p).cmds ++ [(nd.name, P.nodes.length)] }
      else if x < P.nodes.length then P.node x else if x = P.nodes.length then nd else dummyNode := by
  unfold attach Prog.modNode
  rw [node_setNode, node_append, node_append]
  have hlen : ({ P with nodes := P.nodes ++ [nd] } : Prog).nodes.length = P.nodes.length + 1 := by simp
  by_cases hx : x = p
  · subst hx; simp [hp, hlen]; omega
  · simp [hx]

theorem attach_kids (P : Prog) (p : Nat) (nd : Node) (hp : p < P.nodes.length) (hnc : nd.cmds = []) (x : Nat) :
    kids (attach P p nd) x =
      if x = p then kids P p ++ [P.nodes.length] else if x < P.nodes.length then kids P x else [] := by
  unfold kids
  rw [attach_node P p nd hp]
  by_cases hx : x = p
  · simp [hx]
  · by_cases h1 : x < P.nodes.length
    · simp [hx, h1]
    · by_cases h2 : x = P.nodes.length
      · subst h2
        have : ¬ P.nodes.length = p := by omega
        simp [this, hnc]
      · simp [hx, h1, h2, dummyNode]

theorem attach_wf (P : Prog) (p : Nat) (nd : Node) (hp : p < P.nodes.length) (hnc : nd.cmds = []) (h : TreeWF P) :
    TreeWF (attach P p nd) := by
  have hlen : (attach P p nd).nodes.length = P.nodes.length + 1 := by
    simp [attach, Prog.modNode, Prog.setNode]
  constructor
  · intro x c hc
    rw [attach_kids P p nd hp hnc] at hc
    by_cases hx : x = p
    · simp only [hx, ↓reduceIte, List.mem_append, List.mem_singleton] at hc
      rcases hc with hc | hc
      · rw [hx]; exact h.ordered p c hc
      · omega
    · by_cases h1 : x < P.nodes.length
      · simp only [hx, h1, ↓reduceIte] at hc; exact h.ordered x c hc
      · simp [hx, h1] at hc
  · intro x c hc
    rw [attach_kids P p nd hp hnc] at hc
    rw [hlen]
    by_cases hx : x = p
    · simp only [hx, ↓reduceIte, List.mem_append, List.mem_singleton] at hc
      rcases hc with hc | hc
      · have := h.bounded p c hc; omega
      · omega
    · by_cases h1 : x < P.nodes.length
      · simp only [hx, h1, ↓reduceIte] at hc; have := h.bounded x c hc; omega
      · simp [hx, h1] at hc

theorem reach_ge {P : Prog} (h : TreeWF P) {a x : Nat} (r : Reach P a x) : a ≤ x := by
  induction r with
  | refl a => exact Nat.le_refl a
  | step hc _ ih => have := h.ordered _ _ hc; omega

theorem length_of_shells {P Q : Prog} (h : Q.shells = P.shells) : Q.nodes.length = P.nodes.length := by
  have := congrArg List.length h
  simpa [Prog.shells] using this

/-- **The table of a new command is its parent's table**: after `NewCommand` (node appended, name
registered, `copyOptionsFromParent` run from the parent), every key resolves in the new command
exactly as in the parent — same key, same option id, hence the same cell that parsing writes. -/
theorem new_command_table (P : Prog) (p : Nat) (nd : Node) (hp : p < P.nodes.length) (h : TreeWF P)
    (hnc : nd.cmds = []) (hno : nd.opts = []) (hsk : nd.skipCopy = false)
    (hname : (nd.name == (P.node p).helpName) = false)
    (hnd : ((P.node p).opts.map (·.1)).Nodup) (k : Str) :
    lookup k ((copyOpts (attach P p nd).nodes.length (attach P p nd) p).node P.nodes.length).opts =
      lookup k (P.node p).opts := by
  have hlen : (attach P p nd).nodes.length = P.nodes.length + 1 := by
    simp [attach, Prog.modNode, Prog.setNode]
  have hwf1 := attach_wf P p nd hp hnc h
  rw [hlen, copyOpts_succ]
  have hk : ((attach P p nd).node p).cmds.map (·.2) = kids P p ++ [P.nodes.length] := by
    have := attach_kids P p nd hp hnc p
    simpa [kids] using this
  rw [hk]
  have hpn : (attach P p nd).node p = { P.node p with cmds := (P.node p).cmds ++ [(nd.name, P.nodes.length)] } := by
    rw [attach_node P p nd hp]; simp
  have hidnot : P.nodes.length ∉ kids P p := fun e => Nat.lt_irrefl _ (h.bounded p _ e)
  have hS0node : ((kids P p).foldl (copyStepFn ((attach P p nd).node p)) (attach P p nd)).node P.nodes.length = nd := by
    rw [copyStep_fold_other _ _ _ _ hidnot, attach_node P p nd hp]
    have : ¬ P.nodes.length = p := by omega
    simp [this]
  have hS0sh := copyStep_fold_shells ((attach P p nd).node p) (kids P p) (attach P p nd)
  have hS0len := length_of_shells hS0sh
  have hSsh := copyStep_fold_shells ((attach P p nd).node p) (kids P p ++ [P.nodes.length]) (attach P p nd)
  -- the second loop leaves the new node alone
  rw [copyOpts_fold_untouched]
  · -- the new node after the first loop
    rw [List.foldl_append]
    simp only [List.foldl_cons, List.foldl_nil]
    have hcond : (nd.name == ((attach P p nd).node p).helpName || nd.skipCopy) = false := by
      rw [hpn]; simp [hname, hsk]
    rw [copyStepFn_copy _ _ _ (by rw [hS0node]; exact hcond), hS0node, node_setNode]
    have : P.nodes.length < ((kids P p).foldl (copyStepFn ((attach P p nd).node p)) (attach P p nd)).nodes.length := by
      rw [hS0len, hlen]; omega
    simp only [this, and_self, ↓reduceIte]
    rw [hpn, hno, lookup_foldl_insertKV _ _ _ hnd]
    cases lookup k (P.node p).opts <;> simp [lookup]
  · intro c hc x hx
    rw [kids_of_shells hSsh]
    have hx1 : Reach (attach P p nd) c x := reach_of_shells hSsh hx
    have hcp : p < c := by
      apply hwf1.ordered p c
      rw [attach_kids P p nd hp hnc]; simpa using hc
    have hge := reach_ge hwf1 hx1
    rw [attach_kids P p nd hp hnc]
    have hxp : ¬ x = p := by omega
    simp only [hxp, ↓reduceIte]
    by_cases h1 : x < P.nodes.length
    · simp only [h1, ↓reduceIte]
      exact fun e => Nat.lt_irrefl _ (h.bounded x _ e)
    · simp [h1]

end GoModel

import Lemmas.Dfs
import Lemmas.DagBuild
/-! The fuel of `visit` (number of vertices + 1) never runs out on a graph whose children are registered. -/
namespace GoModel.Dag

/-- a vertex that has been seen stays seen -/
theorem visit_seen (children : Nat → List Nat) (f : Nat) :
    ∀ ds v ds', visit children f ds v = .ok ds' → ∀ x, ds.status x ≠ .unvisited → ds'.status x ≠ .unvisited := by
  induction f with
  | zero => intro ds v ds' h; simp [visit] at h
  | succ f ih =>
    intro ds v ds' h x hx
    unfold visit at h
    split at h
    · simp at h; subst h; exact hx
    · simp at h
    · split at h
      · simp at h
      · rename_i d hd
        simp at h; subst h
        have hfold : ∀ (cs : List Nat) (a d : DfsState), cs.foldlM (fun st c => visit children f st c) a = .ok d →
            ∀ y, a.status y ≠ .unvisited → d.status y ≠ .unvisited := by
          intro cs
          induction cs with
          | nil => intro a d h y hy; simp [List.foldlM, pure, Except.pure] at h; subst h; exact hy
          | cons c cs ihc =>
            intro a d h y hy
            simp only [List.foldlM_cons, bind, Except.bind] at h
            split at h
            · simp at h
            · rename_i a' ha'
              exact ihc a' d h y (ih a c a' ha' y hy)
        have := hfold (children v) (ds.set v .visited) d hd x (by
          simp only [DfsState.set]; split <;> simp [hx])
        simp only [DfsState.set]
        split <;> simp [this]

def unseen (ids : List Nat) (ds : DfsState) : Nat := (ids.filter fun x => ds.status x == .unvisited).length

theorem unseen_mono (ids : List Nat) (a d : DfsState) (h : ∀ x, a.status x ≠ .unvisited → d.status x ≠ .unvisited) :
    unseen ids d ≤ unseen ids a := by
  unfold unseen
  induction ids with
  | nil => simp
  | cons y ys ih =>
    simp only [List.filter]
    by_cases hd : d.status y = .unvisited
    · have ha : a.status y = .unvisited := by
        cases hs : a.status y with
        | unvisited => rfl
        | visited => exact absurd hd (h y (by simp [hs]))
        | traversed => exact absurd hd (h y (by simp [hs]))
      simp [hd, ha]; omega
    · have : (d.status y == .unvisited) = false := by simpa using hd
      simp only [this]
      split <;> simp <;> omega

theorem unseen_set (ids : List Nat) (ds : DfsState) (v : Nat) (hn : ids.Nodup) (hv : v ∈ ids)
    (hu : ds.status v = .unvisited) : unseen ids (ds.set v .visited) + 1 = unseen ids ds := by
  unfold unseen
  induction ids with
  | nil => simp at hv
  | cons y ys ih =>
    simp only [List.nodup_cons] at hn
    simp only [List.filter]
    by_cases hy : y = v
    · subst hy
      have hnot : y ∉ ys := hn.1
      have hrest : (ys.filter fun x => (ds.set y .visited).status x == .unvisited) =
          (ys.filter fun x => ds.status x == .unvisited) := by
        apply List.filter_congr
        intro x hx
        have : x ≠ y := fun e => hnot (e ▸ hx)
        simp [DfsState.set, this]
      have e1 : ((ds.set y .visited).status y == Mark.unvisited) = false := by simp [DfsState.set]
      have e2 : (ds.status y == Mark.unvisited) = true := by simp [hu]
      simp only [e1, e2, hrest, List.length_cons]
    · have hv' : v ∈ ys := by
        rcases List.mem_cons.mp hv with e | e
        · exact absurd e.symm hy
        · exact e
      have := ih hn.2 hv'
      have e1 : ((ds.set v .visited).status y == Mark.unvisited) = (ds.status y == Mark.unvisited) := by
        simp [DfsState.set, hy]
      rw [e1]
      cases hh : (ds.status y == Mark.unvisited) <;> simp only [List.length_cons] <;> omega

/-- **Fuel suffices.** With more fuel than unseen registered vertices, `visit` never reports `fuel`. -/
theorem visit_no_fuel (children : Nat → List Nat) (ids : List Nat) (hn : ids.Nodup)
    (hclosed : ∀ a, a ∈ ids → ∀ c ∈ children a, c ∈ ids) (f : Nat) :
    ∀ ds v, v ∈ ids → unseen ids ds < f → visit children f ds v ≠ .error .fuel := by
  induction f with
  | zero => intro ds v _ h; omega
  | succ f ih =>
    intro ds v hv hlt
    unfold visit
    split
    · simp
    · simp
    · rename_i hu
      have hset := unseen_set ids ds v hn hv hu
      have hfold : ∀ (cs : List Nat) (a : DfsState), (∀ c ∈ cs, c ∈ ids) → unseen ids a < f →
          cs.foldlM (fun st c => visit children f st c) a ≠ .error .fuel := by
        intro cs
        induction cs with
        | nil => intro a _ _; simp [List.foldlM, pure, Except.pure]
        | cons c cs ihc =>
          intro a hc ha
          simp only [List.foldlM_cons, bind, Except.bind]
          split
          · rename_i e he
            intro heq; simp at heq; subst heq
            exact ih a c (hc c (by simp)) ha he
          · rename_i a' ha'
            have := unseen_mono ids a a' (visit_seen children f a c a' ha')
            exact ihc a' (fun x hx => hc x (by simp [hx])) (by omega)
      have := hfold (children v) (ds.set v .visited) (hclosed v hv) (by omega)
      split
      · rename_i e he
        intro heq; simp at heq; subst heq; exact this he
      · simp

theorem dfsLoop_no_fuel (children : Nat → List Nat) (ids : List Nat) (hn : ids.Nodup)
    (hclosed : ∀ a, a ∈ ids → ∀ c ∈ children a, c ∈ ids) (order : List Nat) (ho : ∀ v ∈ order, v ∈ ids)
    (ds : DfsState) : dfsLoop children (ids.length + 1) order ds ≠ .error .fuel := by
  induction order generalizing ds with
  | nil => simp [dfsLoop]
  | cons v r ih =>
    unfold dfsLoop
    have hle : unseen ids ds < ids.length + 1 := by
      unfold unseen; have := List.length_filter_le (fun x => ds.status x == .unvisited) ids; omega
    split
    · split
      · rename_i e he
        intro heq; simp at heq; subst heq
        exact visit_no_fuel children ids hn hclosed _ ds v (ho v (by simp)) hle he
      · exact ih (fun x hx => ho x (by simp [hx])) _
    · exact ih (fun x hx => ho x (by simp [hx])) _

end GoModel.Dag

import Lemmas.Lookup
import Lemmas.Parse
/-! Iteration-order independence of table reads (a Go map is an association list with distinct keys
whose order stands for the iteration order). -/
namespace GoModel

theorem lookup_none_iff {α} (l : List (Str × α)) (k : Str) : lookup k l = none ↔ k ∉ l.map (·.1) := by
  induction l with
  | nil => simp [lookup]
  | cons x r ih =>
    obtain ⟨k', v'⟩ := x
    by_cases hk : (k' == k) = true
    · have : k' = k := by simpa using hk
      simp [lookup, hk, this]
    · have hne : ¬ k' = k := by simpa using hk
      simp only [lookup, hk, Bool.false_eq_true, ↓reduceIte, ih, List.map_cons, List.mem_cons, not_or]
      constructor
      · intro h; exact ⟨fun e => hne e.symm, h⟩
      · intro h; exact h.2

/-- a map read does not depend on the iteration order -/
theorem lookup_perm {α} (l l' : List (Str × α)) (k : Str) (hp : l.Perm l') (hnd : (l.map (·.1)).Nodup) :
    lookup k l = lookup k l' := by
  have hnd' : (l'.map (·.1)).Nodup := (hp.map _).nodup_iff.mp hnd
  cases h : lookup k l with
  | none =>
    have : k ∉ l'.map (·.1) := by
      rw [← (hp.map (·.1)).mem_iff]; exact (lookup_none_iff l k).mp h
    exact ((lookup_none_iff l' k).mpr this).symm
  | some v =>
    have hm := lookup_mem l k v h
    exact (lookup_of_mem_nodup l' k v hnd' (hp.mem_iff.mp hm)).symm

/-- the candidates of an abbreviation are the same set whatever the iteration order … -/
theorem resolve_perm (nd nd' : Node) (k : Str) (hp : nd.opts.Perm nd'.opts) (hnd : (nd.opts.map (·.1)).Nodup) :
    (resolve nd k).Perm (resolve nd' k) := by
  unfold resolve
  rw [← lookup_perm nd.opts nd'.opts k hp hnd]
  cases lookup k nd.opts with
  | some _ => exact List.Perm.refl _
  | none => exact (hp.filter _).map _

/-- … so "unknown", "unique" and "ambiguous" are decided identically, a unique match is the same
key, and the sorted candidate list of the ambiguity error is the same text. -/
theorem resolve_perm_outcome (nd nd' : Node) (k : Str) (hp : nd.opts.Perm nd'.opts) (hnd : (nd.opts.map (·.1)).Nodup) :
    ((resolve nd k = []) ↔ (resolve nd' k = [])) ∧
    (∀ key, resolve nd k = [key] ↔ resolve nd' k = [key]) ∧
    sortStrs (resolve nd k) = sortStrs (resolve nd' k) := by
  have h := resolve_perm nd nd' k hp hnd
  refine ⟨?_, ?_, sortStrs_perm_eq _ _ h⟩
  · constructor
    · intro e; rw [e] at h; exact h.symm.eq_nil
    · intro e; rw [e] at h; exact h.eq_nil
  · intro key
    constructor
    · intro e; rw [e] at h; exact h.symm.eq_singleton
    · intro e; rw [e] at h; exact h.eq_singleton

end GoModel

import Model.IsOption
/-! Helper lemmas about byte strings and the token splitter. -/
namespace GoModel

theorem nameOf_append_eq (name v : Str) (h : ∀ c ∈ name, c ≠ chEq) :
    nameOf (name ++ chEq :: v) = name := by
  induction name with
  | nil => simp [nameOf, List.takeWhile]
  | cons c n ih =>
    have hc : c ≠ chEq := h c (by simp)
    have hn : ∀ c ∈ n, c ≠ chEq := fun x hx => h x (by simp [hx])
    simp only [nameOf, List.cons_append, List.takeWhile]
    have : (c != chEq) = true := by simp [hc]
    rw [this]
    simp only [nameOf] at ih
    rw [ih hn]

theorem restOf_append_eq (name v : Str) (h : ∀ c ∈ name, c ≠ chEq) :
    restOf (name ++ chEq :: v) = chEq :: v := by
  induction name with
  | nil => simp [restOf, List.dropWhile]
  | cons c n ih =>
    have hc : c ≠ chEq := h c (by simp)
    have hn : ∀ c ∈ n, c ≠ chEq := fun x hx => h x (by simp [hx])
    simp only [restOf, List.cons_append, List.dropWhile]
    have : (c != chEq) = true := by simp [hc]
    rw [this]
    simp only [restOf] at ih
    rw [ih hn]

theorem nameOf_noEq (name : Str) (h : ∀ c ∈ name, c ≠ chEq) : nameOf name = name := by
  induction name with
  | nil => simp [nameOf]
  | cons c n ih =>
    have hc : c ≠ chEq := h c (by simp)
    have hn : ∀ c ∈ n, c ≠ chEq := fun x hx => h x (by simp [hx])
    simp only [nameOf, List.takeWhile]
    have : (c != chEq) = true := by simp [hc]
    rw [this]
    simp only [nameOf] at ih
    rw [ih hn]

theorem restOf_noEq (name : Str) (h : ∀ c ∈ name, c ≠ chEq) : restOf name = [] := by
  induction name with
  | nil => simp [restOf]
  | cons c n ih =>
    have hc : c ≠ chEq := h c (by simp)
    have hn : ∀ c ∈ n, c ≠ chEq := fun x hx => h x (by simp [hx])
    simp only [restOf, List.dropWhile]
    have : (c != chEq) = true := by simp [hc]
    rw [this]
    simp only [restOf] at ih
    rw [ih hn]

theorem nameOf_restOf (s : Str) : nameOf s ++ restOf s = s := by
  simp [nameOf, restOf, List.takeWhile_append_dropWhile]

theorem attached_eq (v : Str) (hv : v ≠ []) : attached (chEq :: v) = [v] := by
  cases v with
  | nil => exact absurd rfl hv
  | cons a r => simp [attached]

end GoModel

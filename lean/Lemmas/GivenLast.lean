import Lemmas.Untouched
import Lemmas.Shape
/-! From any parser state on: an option that the rest of the command line does not mention keeps the
record it has now.  With the one-step theorems of C01 this gives the end-to-end statement: the value
of the *last* occurrence of a scalar option is what the program reads. -/
namespace GoModel

variable (ext : Ext) (mode : Mode)

theorem hits_congr {P P' : Prog} (h : ∀ n, P'.node n = P.node n) (p : Pair) (oid : Nat) :
    Hits P' p oid ↔ Hits P p oid := by
  unfold Hits
  constructor
  · rintro ⟨n, key, h1, h2⟩; exact ⟨n, key, by rw [← h n]; exact h1, by rw [← h n]; exact h2⟩
  · rintro ⟨n, key, h1, h2⟩; exact ⟨n, key, by rw [h n]; exact h1, by rw [h n]; exact h2⟩

theorem mentioned_congr {P P' : Prog} (h : ∀ n, P'.node n = P.node n) (args : List Str) (oid : Nat) :
    Mentioned mode P' args oid ↔ Mentioned mode P args oid := by
  unfold Mentioned
  constructor
  · rintro ⟨p, hf, hh⟩; exact ⟨p, hf, (hits_congr h p oid).mp hh⟩
  · rintro ⟨p, hf, hh⟩; exact ⟨p, hf, (hits_congr h p oid).mpr hh⟩

theorem uinv_finish {P0 : Prog} {args : List Str} {oid : Nat} (hnm : ¬ Mentioned mode P0 args oid) (s : PState)
    (h : UInv mode P0 args oid s) : (finish ext s).P.opt oid = P0.opt oid := by
  unfold finish
  split
  · exact h.frame
  · split
    · split
      · exact h.frame
      · exact uinv_finishDrain ext mode hnm _ _ ⟨h.nodes, h.pend, (fun o i hc => by cases hc), h.frame⟩ h.pend
    · exact h.frame

/-- **From any state on**: if nothing is pending, the open occurrence (if any) is not of option `oid`,
and no token of `post` mentions `oid`, then after `post` and the end-of-input processing the option
record is what it is now. -/
theorem later_unmentioned_keeps (s : PState) (post : List Str) (oid : Nat)
    (hnm : ¬ Mentioned mode s.P post oid) (hp : s.pending = [])
    (hc : ∀ o i, s.ctx = .collecting o i → o ≠ oid) :
    (finish ext (post.foldl (step ext mode) s)).P.opt oid = s.P.opt oid := by
  have h0 : UInv mode s.P post oid s := ⟨fun _ => rfl, by simp [hp], hc, rfl⟩
  exact uinv_finish ext mode hnm _ (uinv_foldl ext mode hnm post (fun t ht => ht) s h0)

end GoModel

import Model.Basic
/-! Bytewise order, `sortStrs` (= `sort.Strings`): sorted, a permutation, and independent of the input order. -/
namespace GoModel

/-- `a ≤ b` written directly (equal to `strLe`, see `strLe_eq_le`) -/
def le : Str → Str → Bool
  | [], _ => true
  | _ :: _, [] => false
  | a :: as, c :: cs => if a < c then true else if c < a then false else le as cs

theorem strLe_eq_le (a c : Str) : strLe a c = le a c := by
  induction a generalizing c with
  | nil => cases c <;> simp [strLe, strLt, le]
  | cons x xs ih =>
    cases c with
    | nil => simp [strLe, strLt, le]
    | cons y ys =>
      simp only [strLe, strLt, le]
      by_cases h1 : y < x
      · have : ¬ x < y := UInt8.lt_asymm h1
        simp [h1, this]
      · by_cases h2 : x < y
        · simp [h1, h2]
        · simp only [h1, h2, ↓reduceIte]
          have := ih ys
          simpa [strLe] using this

theorem le_total (a c : Str) : le a c || le c a := by
  induction a generalizing c with
  | nil => simp [le]
  | cons x xs ih =>
    cases c with
    | nil => simp [le]
    | cons y ys =>
      simp only [le]
      by_cases h1 : x < y
      · simp [h1]
      · by_cases h2 : y < x
        · simp [h1, h2]
        · simpa [h1, h2] using ih ys

theorem le_trans (a c d : Str) : le a c → le c d → le a d := by
  induction a generalizing c d with
  | nil => simp [le]
  | cons x xs ih =>
    cases c with
    | nil => simp [le]
    | cons y ys =>
      cases d with
      | nil => simp [le]
      | cons z zs =>
        simp only [le]
        intro h1 h2
        by_cases xy : x < y
        · by_cases yz : y < z
          · have : x < z := UInt8.lt_trans xy yz
            simp [this]
          · by_cases zy : z < y
            · simp [yz, zy] at h2
            · have e : y = z := UInt8.le_antisymm (UInt8.not_lt.1 zy) (UInt8.not_lt.1 yz)
              subst e; simp [xy]
        · by_cases yx : y < x
          · simp [xy, yx] at h1
          · have e : x = y := UInt8.le_antisymm (UInt8.not_lt.1 yx) (UInt8.not_lt.1 xy)
            subst e
            by_cases xz : x < z
            · simp [xz]
            · by_cases zx : z < x
              · simp [xz, zx] at h2
              · simp [xy, xz, zx] at h1 h2 ⊢
                exact ih ys zs h1 h2

theorem le_antisymm (a c : Str) : le a c → le c a → a = c := by
  induction a generalizing c with
  | nil => cases c <;> simp [le]
  | cons x xs ih =>
    cases c with
    | nil => simp [le]
    | cons y ys =>
      simp only [le]
      intro h1 h2
      by_cases xy : x < y
      · have : ¬ y < x := UInt8.lt_asymm xy
        simp [xy, this] at h2
      · by_cases yx : y < x
        · simp [xy, yx] at h1
        · have e : x = y := UInt8.le_antisymm (UInt8.not_lt.1 yx) (UInt8.not_lt.1 xy)
          subst e
          simp [xy] at h1 h2
          rw [ih ys h1 h2]

theorem insertSorted_perm (x : Str) (l : List Str) : (insertSorted x l).Perm (x :: l) := by
  induction l with
  | nil => simp [insertSorted]
  | cons y ys ih =>
    simp only [insertSorted]
    split
    · exact List.Perm.refl _
    · exact (List.Perm.cons y ih).trans (List.Perm.swap x y ys)

theorem sortStrs_perm (l : List Str) : (sortStrs l).Perm l := by
  induction l with
  | nil => simp [sortStrs]
  | cons x xs ih => exact (insertSorted_perm x _).trans (List.Perm.cons x ih)

theorem insertSorted_sorted (x : Str) (l : List Str) (h : l.Pairwise (fun a c => le a c = true)) :
    (insertSorted x l).Pairwise (fun a c => le a c = true) := by
  induction l with
  | nil => simp [insertSorted]
  | cons y ys ih =>
    simp only [insertSorted]
    rw [List.pairwise_cons] at h
    split
    · rename_i hxy
      rw [strLe_eq_le] at hxy
      rw [List.pairwise_cons]
      refine ⟨?_, List.pairwise_cons.mpr h⟩
      intro z hz
      rcases List.mem_cons.mp hz with rfl | hz
      · exact hxy
      · exact le_trans x y z hxy (h.1 z hz)
    · rename_i hxy
      rw [strLe_eq_le] at hxy
      have hyx : le y x = true := by
        have := le_total x y
        simp only [Bool.or_eq_true] at this
        rcases this with h' | h'
        · exact absurd h' hxy
        · exact h'
      rw [List.pairwise_cons]
      refine ⟨?_, ih h.2⟩
      intro z hz
      have := (insertSorted_perm x ys).mem_iff.mp hz
      rcases List.mem_cons.mp this with rfl | hz'
      · exact hyx
      · exact h.1 z hz'

theorem sortStrs_sorted (l : List Str) : (sortStrs l).Pairwise (fun a c => le a c = true) := by
  induction l with
  | nil => simp [sortStrs]
  | cons x xs ih => exact insertSorted_sorted x _ ih

/-- **Order independence of `sort.Strings`**: any two iteration orders of the same collection sort
to the same list. -/
theorem sortStrs_perm_eq (l l' : List Str) (h : l.Perm l') : sortStrs l = sortStrs l' := by
  have p : (sortStrs l).Perm (sortStrs l') := (sortStrs_perm l).trans (h.trans (sortStrs_perm l').symm)
  exact List.Perm.eq_of_pairwise (fun a c _ _ h1 h2 => le_antisymm a c h1 h2) (sortStrs_sorted l) (sortStrs_sorted l') p

end GoModel

import Lemmas.PermEquiv
import Model.Help
/-! The rendered help text does not depend on the iteration order of the option and command tables. -/
namespace GoModel

theorem insertByName_map (P : Prog) (x : Nat) (l : List Nat) :
    (insertByName P x l).map (fun o => (P.opt o).name) = insertSorted (P.opt x).name (l.map fun o => (P.opt o).name) := by
  induction l with
  | nil => rfl
  | cons y ys ih =>
    simp only [insertByName, List.map_cons, insertSorted]
    split
    · rfl
    · simp [ih]

/-- sorting options by name is sorting their names -/
theorem sortByName_map (P : Prog) (l : List Nat) :
    (sortByName P l).map (fun o => (P.opt o).name) = sortStrs (l.map fun o => (P.opt o).name) := by
  induction l with
  | nil => rfl
  | cons x xs ih => simp only [sortByName, List.map_cons, sortStrs]; rw [insertByName_map, ih]

theorem insertByName_perm' (P : Prog) (x : Nat) (l : List Nat) : (insertByName P x l).Perm (x :: l) := by
  induction l with
  | nil => simp [insertByName]
  | cons y ys ih =>
    simp only [insertByName]
    split
    · exact List.Perm.refl _
    · exact (List.Perm.cons y ih).trans (List.Perm.swap x y ys)

theorem sortByName_perm' (P : Prog) (l : List Nat) : (sortByName P l).Perm l := by
  induction l with
  | nil => simp [sortByName]
  | cons x xs ih => exact (insertByName_perm' P x _).trans (List.Perm.cons x ih)

theorem inj_of_nodup_map {α β} (f : α → β) (l : List α) (h : (l.map f).Nodup) :
    ∀ x ∈ l, ∀ y ∈ l, f x = f y → x = y := by
  induction l with
  | nil => intro x hx; simp at hx
  | cons a r ih =>
    simp only [List.map_cons, List.nodup_cons] at h
    intro x hx y hy hxy
    simp only [List.mem_cons] at hx hy
    rcases hx with hx | hx <;> rcases hy with hy | hy
    · rw [hx, hy]
    · subst hx; exact absurd (List.mem_map.mpr ⟨y, hy, hxy.symm⟩) h.1
    · subst hy; exact absurd (List.mem_map.mpr ⟨x, hx, hxy⟩) h.1
    · exact ih h.2 x hx y hy hxy

theorem eq_of_map_eq_of_inj {α β} (f : α → β) (l1 l2 : List α)
    (hinj : ∀ x ∈ l1, ∀ y ∈ l2, f x = f y → x = y) (h : l1.map f = l2.map f) : l1 = l2 := by
  induction l1 generalizing l2 with
  | nil => cases l2 with
    | nil => rfl
    | cons y ys => simp at h
  | cons x xs ih =>
    cases l2 with
    | nil => simp at h
    | cons y ys =>
      simp only [List.map_cons, List.cons.injEq] at h
      have e : x = y := hinj x (by simp) y (by simp) h.1
      subst e
      congr 1
      exact ih ys (fun a ha c hc => hinj a (by simp [ha]) c (by simp [hc])) h.2

/-- **sorting by name forgets the input order** when the names are distinct -/
theorem sortByName_perm_eq (P : Prog) (l l' : List Nat) (hp : l.Perm l')
    (hnd : (l.map fun o => (P.opt o).name).Nodup) : sortByName P l = sortByName P l' := by
  apply eq_of_map_eq_of_inj (fun o => (P.opt o).name)
  · intro x hx y hy hxy
    have hx' : x ∈ l := (sortByName_perm' P l).mem_iff.mp hx
    have hy' : y ∈ l := hp.mem_iff.mpr ((sortByName_perm' P l').mem_iff.mp hy)
    exact inj_of_nodup_map _ l hnd x hx' y hy' hxy
  · rw [sortByName_map, sortByName_map]
    exact sortStrs_perm_eq _ _ (hp.map _)

/-! ### the entry lists of one node -/

theorem helpOptions_perm (P : Prog) (nd nd' : Node) (h : NodePerm nd nd') :
    (helpOptions P nd).Perm (helpOptions P nd') := (h.opts.filter _).map _

theorem helpOptions_names (P : Prog) (nd : Node) :
    (helpOptions P nd).map (fun o => (P.opt o).name) =
      (nd.opts.filter fun kv => kv.1 == (P.opt kv.2).name).map (·.1) := by
  unfold helpOptions
  rw [List.map_map]
  apply List.map_congr_left
  intro kv hkv
  have := (List.mem_filter.mp hkv).2
  simp only [Function.comp]
  exact (by simpa using this : kv.1 = (P.opt kv.2).name).symm

theorem helpOptions_names_nodup (P : Prog) (nd : Node) (hnd : (nd.opts.map (·.1)).Nodup) :
    ((helpOptions P nd).map fun o => (P.opt o).name).Nodup := by
  rw [helpOptions_names]
  exact List.Nodup.sublist (List.Sublist.map _ List.filter_sublist) hnd

theorem requiredOpts_perm (P : Prog) (nd nd' : Node) (h : NodePerm nd nd') :
    requiredOpts P nd = requiredOpts P nd' := by
  unfold requiredOpts
  apply sortByName_perm_eq P _ _ ((helpOptions_perm P nd nd' h).filter _)
  exact List.Nodup.sublist (List.Sublist.map _ List.filter_sublist) (helpOptions_names_nodup P nd h.ndO)

theorem normalOpts_perm (P : Prog) (nd nd' : Node) (h : NodePerm nd nd') :
    normalOpts P nd = normalOpts P nd' := by
  unfold normalOpts
  apply sortByName_perm_eq P _ _ ((helpOptions_perm P nd nd' h).filter _)
  exact List.Nodup.sublist (List.Sublist.map _ List.filter_sublist) (helpOptions_names_nodup P nd h.ndO)

theorem maxLen_le_foldl (l : List Str) (m : Nat) :
    l.foldl (fun m s => if s.length > m then s.length else m) m = max m (maxLen l) := by
  induction l generalizing m with
  | nil => simp [maxLen]
  | cons x xs ih =>
    simp only [List.foldl_cons, maxLen]
    rw [ih, ih (if x.length > 0 then x.length else 0)]
    split <;> split <;> omega

theorem maxLen_cons (x : Str) (xs : List Str) : maxLen (x :: xs) = max x.length (maxLen xs) := by
  simp only [maxLen, List.foldl_cons]
  rw [maxLen_le_foldl]
  simp only [maxLen]
  split <;> omega

theorem maxLen_perm (l l' : List Str) (h : l.Perm l') : maxLen l = maxLen l' := by
  induction h with
  | nil => rfl
  | cons x _ ih => rw [maxLen_cons, maxLen_cons, ih]
  | swap x y l => rw [maxLen_cons, maxLen_cons, maxLen_cons, maxLen_cons]; omega
  | trans _ _ ih1 ih2 => rw [ih1, ih2]

theorem flatMap_congr' {α β} (l : List α) (f g : α → List β) (h : ∀ x ∈ l, f x = g x) :
    l.flatMap f = l.flatMap g := by
  induction l with
  | nil => rfl
  | cons a r ih =>
    simp only [List.flatMap_cons]
    rw [h a (by simp), ih (fun x hx => h x (by simp [hx]))]

/-! ### the same program over permuted tables -/

section Over
variable (ext : Ext) (P : Prog) (N' : List Node) (h : NPerm P N') (hlen : N'.length = P.nodes.length)
include h

theorem wnode (i : Nat) : ({ P with nodes := N' } : Prog).node i = N'.getD i dummyNode := rfl

theorem wname (i : Nat) : (({ P with nodes := N' } : Prog).node i).name = (P.node i).name :=
  (congrArg Node.name (h i).rest).symm
theorem wparent (i : Nat) : (({ P with nodes := N' } : Prog).node i).parent = (P.node i).parent :=
  (congrArg Node.parent (h i).rest).symm
theorem wdesc (i : Nat) : (({ P with nodes := N' } : Prog).node i).description = (P.node i).description :=
  (congrArg Node.description (h i).rest).symm
theorem whelpName (i : Nat) : (({ P with nodes := N' } : Prog).node i).helpName = (P.node i).helpName :=
  (congrArg Node.helpName (h i).rest).symm
theorem wsynArgs (i : Nat) : (({ P with nodes := N' } : Prog).node i).synArgs = (P.node i).synArgs :=
  (congrArg Node.synArgs (h i).rest).symm

theorem pathUp_w (fuel n : Nat) : ({ P with nodes := N' } : Prog).pathUp fuel n = P.pathUp fuel n := by
  induction fuel generalizing n with
  | zero => rfl
  | succ f ih =>
    simp only [Prog.pathUp]
    rw [wparent P N' h n]
    cases (P.node n).parent with
    | none => rfl
    | some p => simp only; rw [ih]

include hlen in
theorem scriptName_w (n : Nat) : scriptName { P with nodes := N' } n = scriptName P n := by
  unfold scriptName Prog.path
  rw [pathUp_w P N' h]
  simp only [hlen]
  congr 1
  apply List.map_congr_left
  intro i _
  exact wname P N' h i

theorem helpCommands_w (n : Nat) :
    (helpCommands (({ P with nodes := N' } : Prog).node n)).Perm (helpCommands (P.node n)) := by
  unfold helpCommands
  rw [whelpName P N' h n]
  exact ((h n).cmds.symm).filter _

omit h in
theorem insertByName_w (x : Nat) (l : List Nat) :
    insertByName { P with nodes := N' } x l = insertByName P x l := by
  induction l with
  | nil => rfl
  | cons y ys ih => simp only [insertByName]; rw [ih]; rfl

omit h in
theorem sortByName_w (l : List Nat) : sortByName { P with nodes := N' } l = sortByName P l := by
  induction l with
  | nil => rfl
  | cons x xs ih => simp only [sortByName]; rw [ih, insertByName_w]

theorem requiredOpts_w (n : Nat) :
    requiredOpts { P with nodes := N' } (({ P with nodes := N' } : Prog).node n) = requiredOpts P (P.node n) := by
  rw [requiredOpts_perm P (P.node n) _ (h n)]
  unfold requiredOpts
  rw [sortByName_w]
  rfl

theorem normalOpts_w (n : Nat) :
    normalOpts { P with nodes := N' } (({ P with nodes := N' } : Prog).node n) = normalOpts P (P.node n) := by
  rw [normalOpts_perm P (P.node n) _ (h n)]
  unfold normalOpts
  rw [sortByName_w]
  rfl

include hlen in
theorem helpSynopsis_w (n : Nat) : helpSynopsis ext { P with nodes := N' } n = helpSynopsis ext P n := by
  unfold helpSynopsis
  simp only
  rw [scriptName_w P N' h hlen, requiredOpts_w P N' h, normalOpts_w P N' h, wsynArgs P N' h,
      (helpCommands_w P N' h n).isEmpty_eq]
  rfl

omit h in
theorem find_perm_unique {α} (p : α → Bool) (l l' : List α) (hp : l.Perm l')
    (hu : ∀ x ∈ l, ∀ y ∈ l, p x = true → p y = true → x = y) : l.find? p = l'.find? p := by
  cases hf : l.find? p with
  | none =>
    have hn : ∀ x ∈ l', p x = false := by
      intro x hx
      have := List.find?_eq_none.mp hf x (hp.mem_iff.mpr hx)
      simpa using this
    symm
    exact List.find?_eq_none.mpr (fun x hx => by simp [hn x hx])
  | some a =>
    have ha := List.find?_some hf
    have hal : a ∈ l := List.mem_of_find?_eq_some hf
    cases hf' : l'.find? p with
    | none =>
      have := List.find?_eq_none.mp hf' a (hp.mem_iff.mp hal)
      simp [ha] at this
    | some c =>
      have hc := List.find?_some hf'
      have hcl : c ∈ l := hp.mem_iff.mpr (List.mem_of_find?_eq_some hf')
      rw [hu a hal c hcl ha hc]

/-- the command table of the level has distinct keys (it is a Go map; `AddChildCommand` refuses a duplicate) -/
def CmdNamesDistinct (P : Prog) (n : Nat) : Prop :=
  ((helpCommands (P.node n)).map (·.1)).Nodup

theorem helpCommandList_w (n : Nat) (hd : CmdNamesDistinct P n) :
    helpCommandList ext { P with nodes := N' } (({ P with nodes := N' } : Prog).node n) =
      helpCommandList ext P (P.node n) := by
  have hc := helpCommands_w P N' h n
  unfold helpCommandList
  simp only
  rw [hc.isEmpty_eq]
  split
  · rfl
  · rw [sortStrs_perm_eq _ _ (hc.map _)]
    congr 1
    apply flatMap_congr'
    intro name _
    have hfind : (helpCommands (({ P with nodes := N' } : Prog).node n)).find? (fun kv => kv.1 == name) =
        (helpCommands (P.node n)).find? (fun kv => kv.1 == name) := by
      symm
      apply find_perm_unique _ _ _ hc.symm
      intro x hx y hy px py
      have ex : x.1 = name := by simpa using px
      have ey : y.1 = name := by simpa using py
      exact inj_of_nodup_map _ _ hd x hx y hy (ex.trans ey.symm)
    rw [hfind]
    cases (helpCommands (P.node n)).find? (fun kv => kv.1 == name) with
    | none => rfl
    | some kv => simp only; rw [wdesc P N' h kv.2]

theorem helpOptionList_w (n : Nat) :
    helpOptionList ext { P with nodes := N' } (({ P with nodes := N' } : Prog).node n) =
      helpOptionList ext P (P.node n) := by
  unfold helpOptionList
  simp only
  rw [requiredOpts_w P N' h, normalOpts_w P N' h, wsynArgs P N' h]
  have hl0 : maxLen ((helpOptions { P with nodes := N' } (({ P with nodes := N' } : Prog).node n)).map
        fun o => synopsisOf (({ P with nodes := N' } : Prog).opt o)) =
      maxLen ((helpOptions P (P.node n)).map fun o => synopsisOf (P.opt o)) := by
    apply maxLen_perm
    exact ((helpOptions_perm P (P.node n) _ (h n)).symm.map _)
  rw [hl0]
  rfl

include hlen in
theorem helpSection_w (n : Nat) (hd : CmdNamesDistinct P n) (sec : Section) :
    helpSection ext { P with nodes := N' } n sec = helpSection ext P n sec := by
  unfold helpSection
  simp only
  cases sec with
  | defaultName => simp only [wparent P N' h, wdesc P N' h, scriptName_w P N' h hlen]
  | name => simp only [wdesc P N' h, scriptName_w P N' h hlen]
  | synopsis => simp only [helpSynopsis_w ext P N' h hlen]
  | commandList => simp only [helpCommandList_w ext P N' h n hd]
  | optionList => simp only [helpOptionList_w ext P N' h]
  | commandInfo =>
    simp only [whelpName P N' h, scriptName_w P N' h hlen]
    have : (({ P with nodes := N' } : Prog).node n).cmds.length = (P.node n).cmds.length :=
      (h n).cmds.length_eq.symm
    rw [this]
  | none => rfl

include hlen in
/-- **The help text of every level is independent of the iteration order of the tables.** -/
theorem helpOutput_w (n : Nat) (hd : CmdNamesDistinct P n) (secs : List Section) :
    helpOutput ext { P with nodes := N' } n secs = helpOutput ext P n secs := by
  unfold helpOutput
  apply flatMap_congr'
  intro sec _
  exact helpSection_w ext P N' h hlen n hd sec

end Over

end GoModel

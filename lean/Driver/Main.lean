import Model.Program
import Model.ReqArg
import Model.Dag
/-!
# Line-protocol driver for the executable model (core only, links as a `lean_exe`)

One request per line, strings hex-encoded with an `x` prefix; see DESIGN.md Appendix C.
-/
open GoModel

def hexDigit (n : Nat) : Char := if n < 10 then Char.ofNat (48 + n) else Char.ofNat (87 + n)

def hexOf (s : Str) : String :=
  "x" ++ String.mk (s.flatMap fun c => [hexDigit (c.toNat / 16), hexDigit (c.toNat % 16)])

def hexVal (c : Char) : Option Nat :=
  if '0' ≤ c && c ≤ '9' then some (c.toNat - 48)
  else if 'a' ≤ c && c ≤ 'f' then some (c.toNat - 87)
  else none

def unhexAux : List Char → Option Str
  | [] => some []
  | a :: c :: r => do
    let h ← hexVal a
    let l ← hexVal c
    let rest ← unhexAux r
    pure (UInt8.ofNat (h * 16 + l) :: rest)
  | _ => none

def unhex (s : String) : Option Str :=
  match s.toList with
  | 'x' :: r => unhexAux r
  | _ => none

def listOf (l : List Str) : String :=
  if l.isEmpty then "-" else ",".intercalate (l.map hexOf)

def unlist (s : String) : Option (List Str) :=
  if s == "-" then some [] else (s.splitOn ",").mapM unhex

def valOf : Val → String
  | .b v => if v then "b1" else "b0"
  | .i v => "i" ++ toString v
  | .s v => "s" ++ hexOf v
  | .f v => "f" ++ hexOf v
  | .ss v => "ss" ++ listOf v
  | .is v => "is" ++ (if v.isEmpty then "-" else ",".intercalate (v.map toString))
  | .fs v => "fs" ++ listOf v
  | .m v =>
    let keys := sortStrs (v.map (·.1))
    "m" ++ (if v.isEmpty then "-" else ",".intercalate (keys.map fun k => hexOf k ++ "=" ++ hexOf ((lookup k v).getD [])))

def perrOf : PErr → String
  | .wrongValue n v => "wrongValue:" ++ hexOf n ++ ":" ++ listOf v
  | .convInt a t => "convInt:" ++ hexOf a ++ ":" ++ hexOf t
  | .convFloat a t => "convFloat:" ++ hexOf a ++ ":" ++ hexOf t
  | .notKeyValue a => "notKeyValue:" ++ hexOf a
  | .ambiguous t c => "ambiguous:" ++ hexOf t ++ ":" ++ listOf c
  | .missingArg a => "missingArg:" ++ hexOf a
  | .dashArg a => "dashArg:" ++ hexOf a

def uerrOf : UErr → String
  | .parse e => perrOf e
  | .missingRequired n none => "required:" ++ hexOf n
  | .missingRequired _ (some m) => "requiredMsg:" ++ hexOf m
  | .unknown n => "unknown:" ++ hexOf n

def optTriple (o : Opt) : String :=
  valOf o.value ++ "/" ++ (if o.called then "1" else "0") ++ "/" ++ hexOf o.usedAlias

/-- every key of every table, sorted, without duplicates -/
def keyUniverse (P : Prog) : List Str :=
  (sortStrs (P.nodes.flatMap fun n => n.opts.map (·.1))).eraseDups

def viewOf (P : Prog) (n : Nat) (pfx : String) : String :=
  " ".intercalate ((keyUniverse P).map fun k =>
    pfx ++ hexOf k ++ "=" ++
      (match lookup k (P.node n).opts with
       | some oid => optTriple (P.opt oid)
       | none => "nil"))

def optsOf (P : Prog) : String :=
  " ".intercalate ((List.range P.opts.length).map fun i => "p" ++ toString i ++ "=" ++ valOf (P.opt i).value)

/-- the table views of every node that has a script handle -/
def viewsOf (P : Prog) (handles : List Nat) : String :=
  " ".intercalate ((List.range handles.length).map fun h => viewOf P (handles.getD h 0) ("n" ++ toString h ++ "."))

def pathNames (P : Prog) (n : Nat) : String := listOf ((P.path n).map fun i => (P.node i).name)

/-! ## request parsing -/

def parseMode : String → Option Mode
  | "0" => some .normal | "1" => some .bundling | "2" => some .singleDash | _ => none
def parseUMode : String → Option UMode
  | "0" => some .fail | "1" => some .warn | "2" => some .pass | _ => none
def parseKind : String → Option Kind
  | "bool" => some .bool | "incr" => some .incr | "str" => some .str | "int" => some .int
  | "flt" => some .flt | "strOpt" => some .strOpt | "intOpt" => some .intOpt | "fltOpt" => some .fltOpt
  | "strs" => some .strs | "ints" => some .ints | "flts" => some .flts | "map" => some .map
  | _ => none

def parseVal (s : String) : Option Val :=
  if s == "b0" then some (.b false) else if s == "b1" then some (.b true)
  else if s == "ss" then some (.ss []) else if s == "is" then some (.is [])
  else if s == "fs" then some (.fs []) else if s == "m" then some (.m [])
  else match s.toList with
    | 's' :: 's' :: r => (unlist (String.mk r)).map Val.ss
    | 'i' :: 's' :: r => (((String.mk r).splitOn ",").mapM fun (x : String) => x.toInt?).map Val.is
    | 'm' :: r =>
      (((String.mk r).splitOn ",").mapM fun (kv : String) => match kv.splitOn "=" with
        | [k, v] => match unhex k, unhex v with
          | some k, some v => some (k, v)
          | _, _ => none
        | _ => none).map Val.m
    | 'i' :: r => (String.mk r).toInt?.map Val.i
    | 's' :: r => (unhex (String.mk r)).map Val.s
    | 'f' :: r => (unhex (String.mk r)).map Val.f
    | _ => none

def parseMod (s : String) : Option Mod :=
  match s.splitOn ":" with
  | ["alias", l] => (unlist l).map Mod.alias
  | ["desc", h] => (unhex h).map Mod.description
  | ["called", v] => some (.setCalled (v == "1"))
  | ["req"] => some (.required none)
  | ["reqm", h] => (unhex h).map fun m => Mod.required (some m)
  | ["env", h] => (unhex h).map Mod.getEnv
  | ["arg", h] => (unhex h).map Mod.argName
  | ["valid", l] => (unlist l).map Mod.validValues
  | ["sugg", l] => (unlist l).map Mod.suggestedValues
  | ["sfn", n] => n.toNat?.map Mod.suggestedValuesFn
  | _ => none

def parseDefOp (ws : List String) : Option DefOp :=
  match ws with
  | "opt" :: h :: k :: n :: d :: ds :: mn :: mx :: mods => do
    pure (.opt (← h.toNat?) (← parseKind k) (← unhex n) (← parseVal d) (← unhex ds) (← mn.toInt?) (← mx.toInt?)
      (← mods.mapM parseMod))
  | ["cmd", h, n, d] => do pure (.cmd (← h.toNat?) (← unhex n) (← unhex d))
  | ["fn", h, f] => do pure (.setFn (← h.toNat?) (← f.toNat?))
  | ["mode", h, m] => do pure (.setMode (← h.toNat?) (← parseMode m))
  | ["umode", h, m] => do pure (.setUMode (← h.toNat?) (← parseUMode m))
  | ["ro", h] => do pure (.setRO (← h.toNat?))
  | ["unset", h] => do pure (.unset (← h.toNat?))
  | ["mapkeys", h] => do pure (.mapKeys (← h.toNat?))
  | ["argcomp", h, l] => do pure (.argComp (← h.toNat?) (← unlist l))
  | ["argfn", h, f] => do pure (.argCompFn (← h.toNat?) (← f.toNat?))
  | ["synarg", h, a, d] => do pure (.synArg (← h.toNat?) (← unhex a) (← unhex d))
  | ["self", h, n, d] => do pure (.self (← h.toNat?) (← unhex n) (← unhex d))
  | "help" :: h :: n :: mods => do pure (.help (← h.toNat?) (← unhex n) (← mods.mapM parseMod))
  | _ => none

/-! ## fixed callbacks, implemented identically in the Go harness -/

def digitOf (n : Nat) : Str := b (toString n)
def valueFnFixed (f : Nat) (target partialText : Str) : List Str :=
  [b "val" ++ digitOf f, partialText ++ b "X", target ++ b "T"]
def argFnFixed (f : Nat) (target : Str) (prev : List Str) (partialText : Str) : List Str :=
  [partialText ++ b "arg" ++ digitOf f, b "n" ++ digitOf prev.length ++ target]

structure DState where
  hdr : List Str := [b "NAME", b "SYNOPSIS", b "COMMANDS", b "REQUIRED PARAMETERS", b "ARGUMENTS", b "OPTIONS"]
  env : Env := []
  rootName : Str := b "prog"
  exe : Str := []
  floats : List Str := []
  lowers : List (Str × Str) := []     -- graph of strings.ToLower where it is not ASCII lowering
  script : List DefOp := []
  prog : Option (Except DefErr BState) := none
  parsed : Option ParseOut := none
  reqRest : List Str := []            -- the list the next `GetRequiredArg*` call is handed
  reqIdx : List (Nat × Nat) := []     -- `SynopsisArgsIdx` of the objects asked so far (node ↦ counter)
  dag : GoModel.Dag.DriverState := {}

def DState.ext (d : DState) : Ext := {
  floatOk := fun s => d.floats.contains s
  toLower := fun s => match lookup s d.lowers with | some l => l | none => asciiLower s
  valueFn := valueFnFixed
  argFn := argFnFixed
  exeName := d.exe
  hdrName := d.hdr.getD 0 []
  hdrSynopsis := d.hdr.getD 1 []
  hdrCommands := d.hdr.getD 2 []
  hdrRequired := d.hdr.getD 3 []
  hdrArguments := d.hdr.getD 4 []
  hdrOptions := d.hdr.getD 5 [] }

def DState.getProg (d : DState) : DState × Except DefErr BState :=
  match d.prog with
  | some p => (d, p)
  | none =>
    let p := buildB d.ext d.env d.rootName d.script
    ({ d with prog := some p }, p)

def defErrOf : DefErr → String
  | .emptyOptionName => "emptyOptionName"
  | .duplicateOption _ => "duplicateOption"
  | .badMinMax _ => "badMinMax"
  | .emptyCommandName => "emptyCommandName"
  | .duplicateCommand _ => "duplicateCommand"
  | .badHandle => "badHandle"

def pairsOf (ps : List Pair) : String :=
  if ps.isEmpty then "-" else ";".intercalate (ps.map fun p => hexOf p.opt ++ "=" ++ listOf p.args)

def sectionOf : String → Option Section
  | "1" => some .defaultName | "2" => some .name | "3" => some .synopsis | "4" => some .commandList
  | "5" => some .optionList | "6" => some .commandInfo | "0" => some .none | _ => none

def lookupNat (k : Nat) : List (Nat × Nat) → Option Nat
  | [] => none
  | (a, v) :: r => if a == k then some v else lookupNat k r

def handleLine (d : DState) (line : String) : DState × Option String :=
  let ws := (line.trimAscii.toString.splitOn " ").filter (· != "")
  match ws with
  | [] => (d, none)
  | "hdr" :: hs => match hs.mapM unhex with
    | some l => ({ d with hdr := l }, none)
    | none => (d, some "bad-op")
  | ["case", _] => ({ hdr := d.hdr }, none)
  | ["env", k, v] => match unhex k, unhex v with
    | some k, some v => ({ d with env := d.env ++ [(k, v)] }, none)
    | _, _ => (d, some "bad-op")
  | ["root", n] => match unhex n with
    | some n => ({ d with rootName := n }, none)
    | none => (d, some "bad-op")
  | ["exe", n] => match unhex n with
    | some n => ({ d with exe := n }, none)
    | none => (d, some "bad-op")
  | "fok" :: l => match l.mapM unhex with
    | some l => ({ d with floats := d.floats ++ l }, none)
    | none => (d, some "bad-op")
  | "low" :: l => match l.mapM unhex with
    | some l =>
      let rec pairs : List Str → List (Str × Str)
        | k :: v :: r => (k, v) :: pairs r
        | _ => []
      ({ d with lowers := d.lowers ++ pairs l }, none)
    | none => (d, some "bad-op")
  | ["isopt", m, t] => match parseMode m, unhex t with
    | some m, some t =>
      let (ps, is) := isOption t m
      (d, some s!"I is={if is then 1 else 0} pairs={pairsOf ps}")
    | _, _ => (d, some "bad-op")
  | ["atoi", t] => match unhex t with
    | some t => (d, some ("A " ++ (match atoi t with | some n => toString n | none => "err")))
    | none => (d, some "bad-op")
  | ["splitws", t] => match unhex t with
    | some t => (d, some ("W " ++ listOf (splitWs t)))
    | none => (d, some "bad-op")
  | ["explode", t] => match unhex t with
    | some t => (d, some ("E " ++ listOf (explode t) ++ " " ++ toString (runeCount t)))
    | none => (d, some "bad-op")
  | ["sort", l] => match unlist l with
    | some l => (d, some ("S " ++ listOf (sortStrs l)))
    | none => (d, some "bad-op")
  | ["parse", l] => match unlist l with
    | none => (d, some "bad-op")
    | some args =>
      let (d, p) := d.getProg
      match p with
      | .error e => (d, some ("P st=deferr err=" ++ defErrOf e))
      | .ok B =>
        let P := B.P
        let r := parseUser d.ext P args
        let st := match r.err with | some e => "st=err err=" ++ uerrOf e | none => "st=ok"
        let rem := match r.remaining with | some l => listOf l | none => "nil"
        ({ d with parsed := some r, reqRest := r.remaining.getD [] },
         some s!"P {st} rem={rem} warn={listOf r.warnings} final={pathNames r.st.P r.st.cur} {optsOf r.st.P} {viewsOf r.st.P B.handles}")
  | ["setvalue", h, name, l] =>
    -- `SetValue` on the object of handle `h` after a successful parse
    match d.parsed, d.prog, h.toNat?, unhex name, unlist l with
    | some r, some (.ok B), some h, some name, some vals =>
      match r.remaining, B.handles[h]? with
      | some _, some n =>
        let (P', out) := setValue d.ext r.st.P n name vals
        let st := match out with
          | .ok => "st=ok" | .notFound => "st=notfound" | .error e => "st=err err=" ++ perrOf e
        ({ d with parsed := some { r with st := { r.st with P := P' } } },
         some s!"S {st} {optsOf P'} {viewsOf P' B.handles}")
      | _, _ => (d, some "S none=1")
    | _, _, _, _, _ => (d, some "S none=1")
  | ["reqarg", h, k, secs] =>
    -- `GetRequiredArg` (k = 0), `GetRequiredArgInt` (1), `GetRequiredArgFloat64` (2) on the object of handle `h`
    let kind : Option ReqKind := match k with
      | "0" => some .str | "1" => some .int | "2" => some .float | _ => none
    let secs : Option (List Section) := if secs == "-" then some [] else (secs.splitOn ",").mapM sectionOf
    match d.parsed, d.prog, h.toNat?, kind, secs with
    | some r, some (.ok B), some h, some kind, some secs =>
      match r.remaining, B.handles[h]? with
      | some _, some n =>
        let idx := (lookupNat n d.reqIdx).getD 0
        let (idx', out) := getRequiredArg d.ext r.st.P n (if h == 0 then r.st.cur else n) idx kind d.reqRest secs
        let d' := { d with reqIdx := (n, idx') :: d.reqIdx.filter (·.1 != n) }
        match out with
        | .ok v rest => ({ d' with reqRest := rest }, some s!"R st=ok v={hexOf v} rest={listOf rest}")
        | .missing named help =>
          let nm := match named with | some a => hexOf a | none => "none"
          (d', some s!"R st=missing named={nm} help={hexOf help} rest={listOf d.reqRest}")
        | .convInt a rest => ({ d' with reqRest := rest }, some s!"R st=convint a={hexOf a} rest={listOf rest}")
        | .convFloat a rest => ({ d' with reqRest := rest }, some s!"R st=convfloat a={hexOf a} rest={listOf rest}")
      | _, _ => (d, some "R none=1")
    | _, _, _, _, _ => (d, some "R none=1")
  | ["dispatch"] =>
    match d.parsed with
    | none => (d, some "D none")
    | some r =>
      match r.remaining with
      | none => (d, some "D none")
      | some rem =>
        let out := match dispatch d.ext r.st rem with
          | .helpCalled t => "d=help text=" ++ hexOf t
          | .missingRequired e => "d=req err=" ++ uerrOf e
          | .ran f n args => s!"d=ran fn={f} args={listOf args} node={pathNames r.st.P n} " ++ viewOf r.st.P n "v."
          | .noCommandFn n => "d=nofn name=" ++ hexOf n
          | .noHelpTopic a => "d=notopic arg=" ++ hexOf a
          | .rootHelp t => "d=roothelp text=" ++ hexOf t
        (d, some ("D " ++ out))
  | "helpof" :: secs =>
    -- help of the final node after parse (`Help()`), or of the root when nothing was parsed
    let (d, p) := d.getProg
    match p, secs.mapM sectionOf with
    | .ok B, some secs =>
      let P := B.P
      let (P', n) := match d.parsed with
        | some r => (r.st.P, r.st.cur)
        | none => (P, 0)
      (d, some ("H text=" ++ hexOf (helpOutput d.ext P' n secs)))
    | .error e, _ => (d, some ("H st=deferr err=" ++ defErrOf e))
    | _, none => (d, some "bad-op")
  | ["complete", z, cl, l] => match unhex cl, unlist l with
    | some cl, some args =>
      let (d, p) := d.getProg
      match p with
      | .error e => (d, some ("C st=deferr err=" ++ defErrOf e))
      | .ok B =>
        match completeUser d.ext B.P (z == "1") cl args with
        | .candidates l => (d, some ("C c=cands list=" ++ listOf l))
        | .error e => (d, some ("C c=err err=" ++ perrOf e))
    | _, _ => (d, some "bad-op")
  | "dag" :: rest =>
    let (dg, out) := GoModel.Dag.handle d.dag rest
    ({ d with dag := dg }, out)
  | ["end"] => (d, none)
  | _ =>
    match parseDefOp ws with
    | some op => ({ d with script := d.script ++ [op], prog := none }, none)
    | none => (d, some "bad-op")

partial def loop (h : IO.FS.Stream) (out : IO.FS.Stream) (d : DState) : IO Unit := do
  let line ← h.getLine
  if line.isEmpty then return ()
  let (d', o) := handleLine d line
  match o with
  | some s => out.putStrLn s; out.flush
  | none => pure ()
  loop h out d'

def main : IO Unit := do
  let stdin ← IO.getStdin
  let stdout ← IO.getStdout
  loop stdin stdout {}
  stdout.flush

import Lemmas.Conserve
import Lemmas.AliasParse
import Model.Program
import Lemmas.Untouched
import Lemmas.Demo
/-!
# C06 — aliases interchangeable, Called/CalledAs exact, untouched options keep defaults
-/
namespace GoModel

variable (ext : Ext) (mode : Mode)

/-! ## a match marks exactly the matched option -/

/-- A matched occurrence marks the option called and records the key it was given as; the value goes
through `Save`.  (`Called(x)` and `CalledAs(x)` read exactly these two fields.) -/
theorem procPair_sets_called (s : PState) (p : Pair) (key : Str) (oid : Nat) (o' : Opt)
    (hr : resolve (s.P.node s.cur) p.opt = [key]) (hl : lookup key (s.P.node s.cur).opts = some oid)
    (hoid : oid < s.P.opts.length)
    (hs : save ext (s.P.node 0).mapKeysToLower (matched s oid key) p.args = .ok o') :
    (procPair ext s p).P.opt oid = o' := by
  rw [procPair_known_ok ext s p key oid o' hr hl hs]
  split <;> exact opt_setOpt_same _ _ _ hoid

/-- `Save` never touches the bookkeeping fields: name, aliases, called flag, used alias, kind. -/
theorem save_keeps (lower : Bool) (o o' : Opt) (args : List Str) (h : save ext lower o args = .ok o') :
    o'.called = o.called ∧ o'.usedAlias = o.usedAlias ∧ o'.name = o.name ∧ o'.kind = o.kind ∧
    o'.min = o.min ∧ o'.max = o.max ∧ o'.boolDefault = o.boolDefault ∧ o'.required = o.required := by
  unfold save at h
  repeat' (split at h)
  all_goals first
    | (simp only [Except.ok.injEq] at h; subst h; simp; done)
    | (simp at h; done)
    | (simp only [bind, Except.bind] at h
       split at h
       · simp at h
       · simp only [pure, Except.pure, Except.ok.injEq] at h; subst h; simp)

theorem procPair_called (s : PState) (p : Pair) (key : Str) (oid : Nat) (o' : Opt)
    (hr : resolve (s.P.node s.cur) p.opt = [key]) (hl : lookup key (s.P.node s.cur).opts = some oid)
    (hoid : oid < s.P.opts.length)
    (hs : save ext (s.P.node 0).mapKeysToLower (matched s oid key) p.args = .ok o') :
    ((procPair ext s p).P.opt oid).called = true ∧ ((procPair ext s p).P.opt oid).usedAlias = key := by
  rw [procPair_sets_called ext s p key oid o' hr hl hoid hs]
  have := save_keeps ext _ _ _ _ hs
  exact ⟨by rw [this.1]; rfl, by rw [this.2.1]; rfl⟩

/-! ## non-interference: nothing else moves -/

/-- Processing one `(option, args)` pair changes at most the option it resolves to. -/
theorem pair_changes_only_its_option (s : PState) (p : Pair) (o2 : Nat)
    (h : ∀ key, resolve (s.P.node s.cur) p.opt = [key] → lookup key (s.P.node s.cur).opts ≠ some o2) :
    (procPair ext s p).P.opt o2 = s.P.opt o2 := procPair_frame_opts ext s p o2 h

/-- A value token changes at most the option that is collecting. -/
theorem value_changes_only_collecting (s : PState) (o i : Nat) (t : Str) (o2 : Nat) (h : o2 ≠ o) :
    (offer ext mode s o i t).1.P.opt o2 = s.P.opt o2 := offer_frame_opts ext mode s o i t o2 h

/-- the keys of the current level that lead to option `o2` -/
def keysOf (nd : Node) (o2 : Nat) : List Str := (nd.opts.filter fun kv => kv.2 == o2).map (·.1)

/-- One whole option token (all its pairs): an option none of whose keys is matched by any pair of the
token is left exactly as it was — its value, `Called` and `CalledAs`. -/
theorem drain_frame_opts (ps : List Pair) (s : PState) (o2 : Nat)
    (h : ∀ p ∈ ps, ∀ key, resolve (s.P.node s.cur) p.opt = [key] → lookup key (s.P.node s.cur).opts ≠ some o2) :
    (drain ext s ps).P.opt o2 = s.P.opt o2 := by
  induction ps generalizing s with
  | nil => rfl
  | cons p ps ih =>
    unfold drain
    simp only
    have h1 : (procPair ext { s with pending := ps } p).P.opt o2 = s.P.opt o2 :=
      procPair_frame_opts ext { s with pending := ps } p o2 (h p (by simp))
    have hcur := procPair_cur_nodes ext { s with pending := ps } p
    split
    · exact h1
    · split
      · rw [ih _ (by
          intro q hq key hk
          rw [hcur.1, hcur.2] at hk ⊢
          exact h q (by simp [hq]) key hk)]
        exact h1
      · exact h1
      · exact h1

/-! ## aliases -/

/-- Two keys of the level that lead to the same option are interchangeable: the state after the
occurrence is the same except for the recorded `UsedAlias` (and the alias quoted in an error). -/
theorem alias_equiv (s : PState) (k1 k2 : Str) (args : List Str) (oid : Nat)
    (h1 : lookup k1 (s.P.node s.cur).opts = some oid) (h2 : lookup k2 (s.P.node s.cur).opts = some oid)
    (o1 o2 : Opt)
    (hs1 : save ext (s.P.node 0).mapKeysToLower (matched s oid k1) args = .ok o1)
    (hs2 : save ext (s.P.node 0).mapKeysToLower (matched s oid k2) args = .ok o2)
    (hval : o1.value = o2.value) :
    let a := procPair ext s ⟨k1, args⟩
    let c := procPair ext s ⟨k2, args⟩
    a.ctx = c.ctx ∧ a.rem = c.rem ∧ a.unk = c.unk ∧ a.err = c.err ∧ a.cur = c.cur ∧
    (∀ o, o ≠ oid → a.P.opt o = c.P.opt o) := by
  have r1 := resolve_exact' (s.P.node s.cur) k1 oid h1
  have r2 := resolve_exact' (s.P.node s.cur) k2 oid h2
  have m1 := (save_keeps ext _ _ _ _ hs1).2.2.2.2.2.1
  have m2 := (save_keeps ext _ _ _ _ hs2).2.2.2.2.2.1
  have hm : o1.max = o2.max := by rw [m1, m2]; rfl
  simp only
  rw [procPair_known_ok ext s ⟨k1, args⟩ k1 oid o1 r1 h1 hs1, procPair_known_ok ext s ⟨k2, args⟩ k2 oid o2 r2 h2 hs2]
  simp only [hm]
  split
  · exact ⟨rfl, rfl, rfl, rfl, rfl, fun o ho => by rw [opt_setOpt_ne _ _ _ _ ho, opt_setOpt_ne _ _ _ _ ho]⟩
  · exact ⟨rfl, rfl, rfl, rfl, rfl, fun o ho => by rw [opt_setOpt_ne _ _ _ _ ho, opt_setOpt_ne _ _ _ _ ho]⟩

/-- **Whole command line: aliases are interchangeable.**  Two option tokens that the splitter reads as the same
attached arguments under two keys of the level reached which name the same option (the name and an alias, two
aliases; `-n`, `--name`, `--name=v`, …), given anywhere an option may start — at a head position or right behind an
option that can still take values — with any tokens before and after, lead to the same result of `Parse` up to the
spelling itself: every option record agrees in every field except `CalledAs` (value, `Called`, …), the same
command is selected, the remaining arguments and the unknown-option log are the same, and the parse fails in one
case exactly when it fails in the other, with the same error up to the alias quoted in the message.  Every mode,
unknown-mode, require-order. -/
theorem alias_parse (mode : Mode) (P : Prog) (pre post : List Str) (t1 t2 k1 k2 : Str) (args : List Str)
    (oid : Nat) (hs : OptStart (run ext mode P pre))
    (ht1 : isOption t1 mode = ([⟨k1, args⟩], true)) (ht2 : isOption t2 mode = ([⟨k2, args⟩], true))
    (h1 : lookup k1 ((run ext mode P pre).P.node (run ext mode P pre).cur).opts = some oid)
    (h2 : lookup k2 ((run ext mode P pre).P.node (run ext mode P pre).cur).opts = some oid) :
    AObs (parseArgs ext mode P (pre ++ t1 :: post)) (parseArgs ext mode P (pre ++ t2 :: post)) :=
  alias_parse_obs ext mode P pre post t1 t2 k1 k2 args oid hs ht1 ht2 h1 h2

/-- in particular the value, `Called` and every declared attribute of every option agree -/
theorem alias_parse_values (mode : Mode) (P : Prog) (pre post : List Str) (t1 t2 k1 k2 : Str) (args : List Str)
    (oid : Nat) (hs : OptStart (run ext mode P pre))
    (ht1 : isOption t1 mode = ([⟨k1, args⟩], true)) (ht2 : isOption t2 mode = ([⟨k2, args⟩], true))
    (h1 : lookup k1 ((run ext mode P pre).P.node (run ext mode P pre).cur).opts = some oid)
    (h2 : lookup k2 ((run ext mode P pre).P.node (run ext mode P pre).cur).opts = some oid) (o : Nat) :
    ((parseArgs ext mode P (pre ++ t1 :: post)).P.opt o).value =
      ((parseArgs ext mode P (pre ++ t2 :: post)).P.opt o).value ∧
    ((parseArgs ext mode P (pre ++ t1 :: post)).P.opt o).called =
      ((parseArgs ext mode P (pre ++ t2 :: post)).P.opt o).called ∧
    ((parseArgs ext mode P (pre ++ t1 :: post)).err.isSome =
      (parseArgs ext mode P (pre ++ t2 :: post)).err.isSome) := by
  have h := alias_parse ext mode P pre post t1 t2 k1 k2 args oid hs ht1 ht2 h1 h2
  refine ⟨?_, ?_, ?_⟩
  · have := congrArg Opt.value (h.opts o); exact this
  · have := congrArg Opt.called (h.opts o); exact this
  · have := congrArg Option.isSome h.err; simpa using this

/-- the alias that is recorded is the spelling used last: the error message and `CalledAs` are the only places
where the two runs may differ, and `CalledAs` is the key of the last occurrence -/
example :
    let a := parseArgs Demo.ext .normal Demo.prog [b "x", b "-n", b "v", b "y"]
    let c := parseArgs Demo.ext .normal Demo.prog [b "x", b "--name", b "v", b "y"]
    (a.P.opt 0).value = (c.P.opt 0).value ∧ a.rem = c.rem ∧
      (a.P.opt 0).usedAlias = b "n" ∧ (c.P.opt 0).usedAlias = b "name" := by decide

example : isOption (b "-n") .normal = ([⟨b "n", []⟩], true) ∧ isOption (b "--name") .normal = ([⟨b "name", []⟩], true) ∧
    lookup (b "n") (Demo.prog.node 0).opts = some 0 ∧ lookup (b "name") (Demo.prog.node 0).opts = some 0 ∧
    OptStart (run Demo.ext .normal Demo.prog [b "x"]) := by
  refine ⟨by decide, by decide, by decide, by decide, ?_⟩
  exact ⟨by decide, Or.inl (by decide)⟩


/-! Non-vacuity: alias `n` and name `name` set the same cell; untouched options keep their defaults. -/
example : ((parseArgs Demo.ext .normal Demo.prog [b "-n", b "x"]).P.opt 0).value =
          ((parseArgs Demo.ext .normal Demo.prog [b "--name", b "x"]).P.opt 0).value ∧
          ((parseArgs Demo.ext .normal Demo.prog [b "-n", b "x"]).P.opt 0).usedAlias = b "n" ∧
          ((parseArgs Demo.ext .normal Demo.prog [b "-n", b "x"]).P.opt 1) = Demo.prog.opt 1 ∧
          ((parseArgs Demo.ext .normal Demo.prog [b "-n", b "x"]).P.opt 2) = Demo.prog.opt 2 ∧
          ((parseArgs Demo.ext .normal Demo.prog [b "-n", b "x"]).P.opt 4).called = false := by decide

/-- **Every option not mentioned keeps its declared default and reports Called false, whatever else
is on the command line.**  "Not mentioned": no token of `args` splits into a pair that — at any
command level — resolves by name, alias or unique abbreviation to a key of the option.  Then after
the whole parse (every mode, unknown-mode, require-order, bundles, greedy values, errors) the option
record is exactly the declared one: value, `Called`, `CalledAs`. -/
theorem unmentioned_keeps_default (P : Prog) (args : List Str) (oid : Nat)
    (hnm : ¬ Mentioned mode P args oid) :
    (parseArgs ext mode P args).P.opt oid = P.opt oid :=
  untouched_keeps ext mode P args oid hnm

/-! ## `SetValue` -/

/-- **`SetValue` changes the value only.**  Whatever name and values are given, on whatever object: every
option's `Called` and `CalledAs` are what they were, and every option other than the one registered under
`name` in that object's table is untouched altogether. -/
theorem setValue_keeps_called (P : Prog) (n : Nat) (name : Str) (vals : List Str) (oid : Nat) :
    ((setValue ext P n name vals).1.opt oid).called = (P.opt oid).called ∧
    ((setValue ext P n name vals).1.opt oid).usedAlias = (P.opt oid).usedAlias ∧
    (lookup name (P.node n).opts ≠ some oid → (setValue ext P n name vals).1.opt oid = P.opt oid) := by
  unfold setValue
  cases hl : lookup name (P.node n).opts with
  | none => exact ⟨rfl, rfl, fun _ => rfl⟩
  | some t =>
    simp only
    cases hs : save ext (P.opt t).lowerKeys (P.opt t) vals with
    | error e => exact ⟨rfl, rfl, fun _ => rfl⟩
    | ok o' =>
      simp only
      have hk := save_keeps ext (P.opt t).lowerKeys (P.opt t) o' vals hs
      by_cases ht : oid = t
      · subst ht
        by_cases hlen : oid < P.opts.length
        · rw [opt_setOpt_same P oid o' hlen]
          exact ⟨hk.1, hk.2.1, fun h => absurd rfl h⟩
        · have : P.setOpt oid o' = P := by
            unfold Prog.setOpt
            have : P.opts.set oid o' = P.opts := by
              apply List.ext_getElem?
              intro i; rw [List.getElem?_set]; split
              · rename_i hi; subst hi; simp at hlen; simp [hlen]
              · rfl
            rw [this]
          rw [this]
          exact ⟨rfl, rfl, fun _ => rfl⟩
      · rw [opt_setOpt_ne P t oid o' ht]
        exact ⟨rfl, rfl, fun _ => rfl⟩

/-- an undeclared name is reported and changes nothing -/
theorem setValue_not_found (P : Prog) (n : Nat) (name : Str) (vals : List Str)
    (h : lookup name (P.node n).opts = none) : setValue ext P n name vals = (P, .notFound) := by
  simp [setValue, h]


/-- on the demo program: `--num=1 -v cmd --force x` mentions neither `name` (option 0) nor `list`
(option 2), and they are as declared after the parse -/
example :
    (parseArgs Demo.ext .normal Demo.prog [b "--num=1", b "-v", b "cmd", b "--force", b "x"]).P.opt 0 = Demo.prog.opt 0 ∧
    (parseArgs Demo.ext .normal Demo.prog [b "--num=1", b "-v", b "cmd", b "--force", b "x"]).P.opt 2 = Demo.prog.opt 2 ∧
    ((parseArgs Demo.ext .normal Demo.prog [b "--num=1", b "-v", b "cmd", b "--force", b "x"]).P.opt 1).called = true := by
  decide

end GoModel

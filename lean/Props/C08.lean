import Props.C03
import Lemmas.UnkMono
/-!
# C08 — unknown options are never silently ignored: Fail errors, Warn warns, Pass passes
-/
namespace GoModel

variable (ext : Ext) (mode : Mode)

/-- Without require-order an unmatched option is always recorded, together with the unknown-mode of
the level it was given at; the option store and the parser context are left alone, so the known
options around it are processed as usual. -/
theorem unknown_recorded (s : PState) (p : Pair)
    (hr : resolve (s.P.node s.cur) p.opt = []) (hro : (s.P.node s.cur).requireOrder = false) :
    (procPair ext s p).unk = s.unk ++ [(p.opt, (s.P.node s.cur).umode)] ∧
    (procPair ext s p).P = s.P ∧ (procPair ext s p).ctx = s.ctx ∧ (procPair ext s p).err = s.err ∧
    (procPair ext s p).cur = s.cur := by
  rw [procPair_unknown ext s p hr hro]
  split <;> exact ⟨rfl, rfl, rfl, rfl, rfl⟩

/-- the first entry of the log that was given at a `fail` level -/
def firstFail : List (Str × UMode) → Option Str
  | [] => none
  | (u, .fail) :: _ => some u
  | _ :: r => firstFail r

/-- the names the policy warns about: `warn` entries before the first `fail` entry -/
def warnedBefore : List (Str × UMode) → List Str
  | [] => []
  | (_, .fail) :: _ => []
  | (u, .warn) :: r => u :: warnedBefore r
  | (_, .pass) :: r => warnedBefore r

/-- The policy applied after parsing: the error names the first unknown option given at a `fail`
level (in command-line order); every `warn`-level unknown option before it produces one warning, in
order; `pass`-level ones produce nothing. -/
theorem unknownPolicy_spec (unk : List (Str × UMode)) (w : List Str) :
    unknownPolicy unk w = ((firstFail unk).map UErr.unknown, w ++ warnedBefore unk) := by
  induction unk generalizing w with
  | nil => simp [unknownPolicy, firstFail, warnedBefore]
  | cons x r ih =>
    obtain ⟨u, m⟩ := x
    cases m <;> simp [unknownPolicy, firstFail, warnedBefore, ih]

/-- Fail mode: an unknown option recorded at a `fail` level makes `Parse` fail — it is never dropped.
(The only errors that can take precedence are a parse error or a missing required option.) -/
theorem parse_fail_unknown (P : Prog) (args : List Str) (u : Str)
    (he : (parseArgs ext (P.node 0).mode P args).err = none)
    (hf : firstFail (parseArgs ext (P.node 0).mode P args).unk = some u) :
    ∃ e, (parseUser ext P args).err = some e ∧ (parseUser ext P args).remaining = none := by
  unfold parseUser
  simp only [he]
  split
  · exact ⟨_, rfl, rfl⟩
  · rw [unknownPolicy_spec]
    simp [hf]

/-- … and when nothing else is wrong, the error is the unknown-option error naming that option. -/
theorem parse_fail_unknown_names (P : Prog) (args : List Str) (u : Str)
    (he : (parseArgs ext (P.node 0).mode P args).err = none)
    (hreq : requiredAtParse (parseArgs ext (P.node 0).mode P args) = none)
    (hf : firstFail (parseArgs ext (P.node 0).mode P args).unk = some u) :
    (parseUser ext P args).err = some (.unknown u) := by
  unfold parseUser
  simp only [he, hreq]
  rw [unknownPolicy_spec]
  simp [hf]

/-- Warn / Pass: a successful parse returns the warnings for exactly the `warn`-level unknown
options, in order. -/
theorem parse_warnings (P : Prog) (args : List Str) (rem : List Str)
    (h : (parseUser ext P args).remaining = some rem) :
    (parseUser ext P args).warnings = warnedBefore (parseArgs ext (P.node 0).mode P args).unk ∧
    firstFail (parseArgs ext (P.node 0).mode P args).unk = none := by
  unfold parseUser at h ⊢
  simp only at h ⊢
  cases he : (parseArgs ext (P.node 0).mode P args).err with
  | some e => simp [he] at h
  | none =>
    simp only [he] at h ⊢
    cases hq : requiredAtParse (parseArgs ext (P.node 0).mode P args) with
    | some e => simp [hq] at h
    | none =>
      simp only [hq] at h ⊢
      rw [unknownPolicy_spec] at h ⊢
      cases hf : firstFail (parseArgs ext (P.node 0).mode P args).unk with
      | none => simp
      | some u => simp [hf] at h

theorem firstFail_append (a : List (Str × UMode)) (u : Str) (m : List (Str × UMode)) :
    ∃ v, firstFail (a ++ (u, .fail) :: m) = some v := by
  induction a with
  | nil => exact ⟨u, rfl⟩
  | cons x r ih =>
    obtain ⟨x1, x2⟩ := x
    cases x2 with
    | fail => exact ⟨x1, rfl⟩
    | warn => simpa [firstFail] using ih
    | pass => simpa [firstFail] using ih

/-- **Whole command line, never dropped.**  An option token given where an option may start, whose
name is not declared at that level (no require-order), is in the unknown-option log of the *finished*
parse together with the unknown-mode of its level — whatever comes before and after it: the log
only grows (`Lemmas/UnkMono.lean`). -/
theorem unknown_never_dropped (P : Prog) (pre post : List Str) (t : Str) (p : Pair)
    (he : (run ext mode P pre).err = none) (hc : (run ext mode P pre).ctx = .idle)
    (hopt : isOption t mode = ([p], true))
    (hr : resolve ((run ext mode P pre).P.node (run ext mode P pre).cur) p.opt = [])
    (hro : ((run ext mode P pre).P.node (run ext mode P pre).cur).requireOrder = false) :
    ∃ more, (parseArgs ext mode P (pre ++ t :: post)).unk =
      (run ext mode P pre).unk ++ (p.opt, ((run ext mode P pre).P.node (run ext mode P pre).cur).umode) :: more := by
  unfold parseArgs
  rw [run_append]
  simp only [List.foldl_cons]
  have hd : t ≠ dashdash := by intro e; subst e; simp [isOption, dashdash] at hopt
  have h1 : (step ext mode (run ext mode P pre) t).unk =
      (run ext mode P pre).unk ++ [(p.opt, ((run ext mode P pre).P.node (run ext mode P pre).cur).umode)] := by
    rw [step_head_option ext mode _ t [p] he hc hd hopt]
    have hu := unknown_recorded ext { headState (run ext mode P pre) t with pending := [] } p
      (by simpa [headState] using hr) (by simpa [headState] using hro)
    unfold drain
    simp only
    have hctx : (procPair ext { headState (run ext mode P pre) t with pending := [] } p).ctx = .idle := by
      rw [hu.2.2.1]; simpa [headState] using hc
    have herr : (procPair ext { headState (run ext mode P pre) t with pending := [] } p).err = none := by
      rw [hu.2.2.2.1]; simpa [headState] using he
    simp only [herr, hctx, Option.isSome_none, Bool.false_eq_true, ↓reduceIte, drain]
    rw [hu.1]; rfl
  obtain ⟨m2, h2⟩ := foldl_unk_prefix ext mode post (step ext mode (run ext mode P pre) t)
  obtain ⟨m3, h3⟩ := finish_unk_prefix ext (post.foldl (step ext mode) (step ext mode (run ext mode P pre) t))
  exact ⟨m2 ++ m3, by rw [h3, h2, h1]; simp⟩

/-- … hence in Fail mode the finished `Parse` returns an error and no remaining list. -/
theorem unknown_fails_parse (P : Prog) (pre post : List Str) (t : Str) (p : Pair)
    (he : (run ext (P.node 0).mode P pre).err = none) (hc : (run ext (P.node 0).mode P pre).ctx = .idle)
    (hopt : isOption t (P.node 0).mode = ([p], true))
    (hr : resolve ((run ext (P.node 0).mode P pre).P.node (run ext (P.node 0).mode P pre).cur) p.opt = [])
    (hro : ((run ext (P.node 0).mode P pre).P.node (run ext (P.node 0).mode P pre).cur).requireOrder = false)
    (hm : ((run ext (P.node 0).mode P pre).P.node (run ext (P.node 0).mode P pre).cur).umode = .fail) :
    (parseUser ext P (pre ++ t :: post)).err ≠ none ∧ (parseUser ext P (pre ++ t :: post)).remaining = none := by
  obtain ⟨more, hu⟩ := unknown_never_dropped ext (P.node 0).mode P pre post t p he hc hopt hr hro
  rw [hm] at hu
  cases hE : (parseArgs ext (P.node 0).mode P (pre ++ t :: post)).err with
  | some e =>
    unfold parseUser
    simp [hE]
  | none =>
    obtain ⟨v, hv⟩ := firstFail_append (run ext (P.node 0).mode P pre).unk p.opt more
    rw [← hu] at hv
    obtain ⟨e, h1, h2⟩ := parse_fail_unknown ext P (pre ++ t :: post) v hE hv
    exact ⟨by rw [h1]; simp, h2⟩

/-! Non-vacuity: Fail names the first unknown; Warn warns once per unknown and keeps the tokens. -/
example : (parseUser Demo.ext Demo.prog [b "--num=1", b "--zzz", b "x", b "-Q"]).err = some (.unknown (b "zzz")) := by
  decide
example :
    let P := Demo.prog.modNode 0 fun n => { n with umode := .warn }
    (parseUser Demo.ext P [b "--num=1", b "--zzz", b "x", b "-Q=3", b "-v"]).warnings = [b "zzz", b "Q"] ∧
    (parseUser Demo.ext P [b "--num=1", b "--zzz", b "x", b "-Q=3", b "-v"]).remaining = some [b "--zzz", b "x", b "-Q=3"] := by
  decide
/-- an unknown option given before a command is judged at the level it was given at -/
example : (parseUser Demo.ext Demo.prog [b "--num=1", b "--force", b "cmd"]).err = some (.unknown (b "force")) := by
  decide

end GoModel

import Props.C11
import Lemmas.Lookup
import Lemmas.HelpBytes
/-!
# C18 — generated help lists every option, alias, argument and command exactly once

Theorems are about the lists the text is rendered from (`helpOptions`, `requiredOpts`, `normalOpts`,
`helpCommands`), about the rendering functions of one entry, and (last section) about the bytes of the rendered
text: it contains the complete entry of every option in the right block, every synopsis item and every command
line.  Byte-for-byte equality of the model's text with the real help is what the correspondence check establishes.
-/
namespace GoModel

variable (ext : Ext)

theorem insertByName_perm (P : Prog) (x : Nat) (l : List Nat) : (insertByName P x l).Perm (x :: l) := by
  induction l with
  | nil => simp [insertByName]
  | cons y ys ih =>
    simp only [insertByName]
    split
    · exact List.Perm.refl _
    · exact (List.Perm.cons y ih).trans (List.Perm.swap x y ys)

theorem sortByName_perm (P : Prog) (l : List Nat) : (sortByName P l).Perm l := by
  induction l with
  | nil => simp [sortByName]
  | cons x xs ih => exact (insertByName_perm P x _).trans (List.Perm.cons x ih)

/-- **Every option once, no alias as a separate entry.**  The entries of the two option sections
together are a permutation of the options whose *name* is a key of the level's table; an entry is
made only where the key equals the option's name, so aliases never form entries of their own. -/
theorem options_sections_perm (P : Prog) (nd : Node) :
    (requiredOpts P nd ++ normalOpts P nd).Perm (helpOptions P nd) := by
  unfold requiredOpts normalOpts
  have h1 := sortByName_perm P ((helpOptions P nd).filter fun o => (P.opt o).required)
  have h2 := sortByName_perm P ((helpOptions P nd).filter fun o => !(P.opt o).required)
  exact (h1.append h2).trans (List.filter_append_perm _ _)

/-- with distinct keys (a Go map) no option is listed twice -/
theorem helpOptions_nodup (P : Prog) (nd : Node) (hnd : (nd.opts.map (·.1)).Nodup) : (helpOptions P nd).Nodup := by
  unfold helpOptions
  have : ∀ l : List (Str × Nat), (l.map (·.1)).Nodup →
      ((l.filter fun kv => kv.1 == (P.opt kv.2).name).map (·.2)).Nodup := by
    intro l
    induction l with
    | nil => simp
    | cons x xs ih =>
      intro h
      simp only [List.map_cons, List.nodup_cons] at h
      simp only [List.filter]
      split
      · rename_i hx
        simp only [List.map_cons, List.nodup_cons]
        refine ⟨?_, ih h.2⟩
        intro hm
        obtain ⟨y, hy, hy2⟩ := List.mem_map.mp hm
        have hyf := List.mem_filter.mp hy
        have e1 : x.1 = (P.opt x.2).name := by simpa using hx
        have e2 : y.1 = (P.opt y.2).name := by simpa using hyf.2
        have : y.1 = x.1 := by rw [e1, e2, hy2]
        exact h.1 (List.mem_map.mpr ⟨y, hyf.1, this⟩)
      · exact ih h.2
  exact this nd.opts hnd

/-- an option is listed exactly when its name is a key of the table leading to it (own or inherited) -/
theorem mem_helpOptions (P : Prog) (nd : Node) (o : Nat) (hnd : (nd.opts.map (·.1)).Nodup) :
    o ∈ helpOptions P nd ↔ lookup (P.opt o).name nd.opts = some o := by
  unfold helpOptions
  simp only [List.mem_map, List.mem_filter]
  constructor
  · rintro ⟨kv, ⟨hm, hk⟩, rfl⟩
    have e : kv.1 = (P.opt kv.2).name := by simpa using hk
    rw [← e]
    exact lookup_of_mem_nodup nd.opts kv.1 kv.2 hnd hm
  · intro h
    exact ⟨((P.opt o).name, o), ⟨lookup_mem _ _ _ h, by simp⟩, rfl⟩

/-- **Required section iff required.** -/
theorem mem_requiredOpts (P : Prog) (nd : Node) (o : Nat) :
    o ∈ requiredOpts P nd ↔ o ∈ helpOptions P nd ∧ (P.opt o).required = true := by
  unfold requiredOpts
  rw [(sortByName_perm P _).mem_iff]
  simp [List.mem_filter]

theorem mem_normalOpts (P : Prog) (nd : Node) (o : Nat) :
    o ∈ normalOpts P nd ↔ o ∈ helpOptions P nd ∧ (P.opt o).required = false := by
  unfold normalOpts
  rw [(sortByName_perm P _).mem_iff]
  simp [List.mem_filter]

/-- the entry of an option shows all its aliases: the synopsis starts with every alias joined by `|` -/
theorem synopsis_lists_aliases (o : Opt) : synopsisOf o = aliasText o ++ synTail o := rfl

/-- a non-required option shows its default (and its environment variable when bound) -/
theorem helpTail_default (o : Opt) (h : o.required = false) :
    helpTail o = (if o.description.isEmpty then [] else [chSp]) ++ b "(default: " ++ o.defaultStr ++
      (if o.envVar.isEmpty then [] else b ", env: " ++ o.envVar) ++ b ")\n\n" := by
  simp [helpTail, h]

/-- a required option bound to an environment variable shows the variable (and no default) -/
theorem helpTail_required (o : Opt) (h : o.required = true) :
    helpTail o = (if o.envVar.isEmpty then []
      else (if o.description.isEmpty then [] else [chSp]) ++ b "(env: " ++ o.envVar ++ b ")") ++ b "\n\n" := by
  simp [helpTail, h]

theorem helpString_split (o : Opt) (factor : Nat) : helpString o factor = helpLead o factor ++ helpTail o := rfl

/-- **Synopsis mentions every option**, required ones unbracketed: one item per option of the two
sections, in section order -/
theorem synopsis_items (P : Prog) (nd : Node) :
    ((requiredOpts P nd ++ normalOpts P nd).map fun o => optSynopsis (P.opt o)).length =
      (helpOptions P nd).length := by
  rw [List.length_map]
  exact (options_sections_perm P nd).length_eq

theorem optSynopsis_required (o : Opt) (h : o.required = true) :
    optSynopsis o = if o.kind.isRepeat then b "<" ++ synopsisOf o ++ b ">" ++ b "..." else synopsisOf o := by
  unfold optSynopsis
  simp [h]

theorem optSynopsis_optional (o : Opt) (h : o.required = false) :
    optSynopsis o = if o.kind.isRepeat then b "[" ++ synopsisOf o ++ b "]" ++ b "..." else b "[" ++ synopsisOf o ++ b "]" := by
  unfold optSynopsis
  simp [h]

/-- **Commands once, without the help command**: the entries listed are exactly the entries of the level's
command table — under the name each is registered and invoked with — except the help command; since the table
has distinct keys (`AddChildCommand` refuses a duplicate) each sub-command is listed once, whatever `Self`
later did to a command's own name. -/
theorem mem_helpCommands (nd : Node) (k : Str) (c : Nat) :
    (k, c) ∈ helpCommands nd ↔ (k, c) ∈ nd.cmds ∧ k ≠ nd.helpName := by
  unfold helpCommands
  simp only [List.mem_filter]
  constructor
  · rintro ⟨hm, hk⟩; exact ⟨hm, by simpa using hk⟩
  · rintro ⟨hm, hk⟩; exact ⟨hm, by simpa using hk⟩

/-- a table with distinct keys lists nothing twice -/
theorem helpCommands_nodup (nd : Node) (h : (nd.cmds.map (·.1)).Nodup) :
    ((helpCommands nd).map (·.1)).Nodup := by
  unfold helpCommands
  exact (List.filter_sublist.map _).nodup h

/-- **The same text three ways**: the help option, the help command (without topic) at a level, and
`Help()` after `Parse` all evaluate `helpOutput` of that level with the default sections. -/
theorem same_text_option_and_command (s s2 : PState) (rem : List Str)
    (hopt : helpRequested s.P s.cur = true)
    (hcmd : helpRequested s2.P s2.cur = false) (hr : checkRequired s2.P s2.cur = none)
    (hh : (s2.P.node s2.cur).isHelp = true) (hparent : (s2.P.node s2.cur).parent = some s.cur) (hP : s2.P = s.P) :
    dispatch ext s rem = dispatch ext s2 [] := by
  rw [help_bypasses ext s rem hopt, help_command ext s2 [] hcmd hr hh]
  simp [hparent, hP]
  rw [hP] at hparent
  simp [hparent]

/-! ## the bytes of the help text -/

/-- **Every option available at the level has its complete entry in the help text, in the right block.**
`o ∈ helpOptions` (by `mem_helpOptions`: exactly the own and inherited options of the level, aliases filtered
out): the default help text contains, contiguously, `helpString` of the option — its aliases joined by `|`
(`synopsis_lists_aliases`), argument name, description, and the `(default: …, env: …)` tail of `helpTail_default` /
`helpTail_required` — inside the REQUIRED PARAMETERS block exactly when the option is required, inside the
OPTIONS block otherwise. -/
theorem option_entry_in_help_text (P : Prog) (n o : Nat) (ho : o ∈ helpOptions P (P.node n)) :
    helpString (P.opt o) (helpFactor P (P.node n)) <:+: helpOutput ext P n [] ∧
    ((P.opt o).required = true →
      helpString (P.opt o) (helpFactor P (P.node n)) <:+: requiredBlock ext P (P.node n) ∧
      requiredBlock ext P (P.node n) <:+: helpOutput ext P n []) ∧
    ((P.opt o).required = false →
      helpString (P.opt o) (helpFactor P (P.node n)) <:+: optionsBlock ext P (P.node n) ∧
      optionsBlock ext P (P.node n) <:+: helpOutput ext P n []) := by
  have hreq : (P.opt o).required = true →
      helpString (P.opt o) (helpFactor P (P.node n)) <:+: requiredBlock ext P (P.node n) ∧
      requiredBlock ext P (P.node n) <:+: helpOutput ext P n [] := by
    intro hr
    have hm : o ∈ requiredOpts P (P.node n) := (mem_requiredOpts P _ o).mpr ⟨ho, hr⟩
    have hne : requiredOpts P (P.node n) ≠ [] := by intro e; rw [e] at hm; cases hm
    exact ⟨entry_in_requiredBlock ext P _ o hm,
      (requiredBlock_in_list ext P _ hne).trans (optionList_in_default ext P n)⟩
  have hnorm : (P.opt o).required = false →
      helpString (P.opt o) (helpFactor P (P.node n)) <:+: optionsBlock ext P (P.node n) ∧
      optionsBlock ext P (P.node n) <:+: helpOutput ext P n [] := by
    intro hr
    have hm : o ∈ normalOpts P (P.node n) := (mem_normalOpts P _ o).mpr ⟨ho, hr⟩
    have hne : normalOpts P (P.node n) ≠ [] := by intro e; rw [e] at hm; cases hm
    exact ⟨entry_in_optionsBlock ext P _ o hm,
      (optionsBlock_in_list ext P _ hne).trans (optionList_in_default ext P n)⟩
  refine ⟨?_, hreq, hnorm⟩
  cases hr : (P.opt o).required with
  | true => exact (hreq hr).1.trans (hreq hr).2
  | false => exact (hnorm hr).1.trans (hnorm hr).2

/-- **Every option of the level is mentioned in the synopsis of the help text** — unbracketed when required
(`optSynopsis_required`), bracketed otherwise. -/
theorem option_in_synopsis_text (P : Prog) (n o : Nat) (ho : o ∈ helpOptions P (P.node n)) :
    optSynopsis (P.opt o) <:+: helpOutput ext P n [] := by
  have hm : o ∈ requiredOpts P (P.node n) ++ normalOpts P (P.node n) :=
    (options_sections_perm P (P.node n)).mem_iff.mpr ho
  exact (synopsis_item_in_text ext P n o hm).trans (synopsis_in_default ext P n)

/-- **Every sub-command except the help command has its line** (registered name, padded, description) **in the
help text.** -/
theorem command_line_in_help_text (P : Prog) (n : Nat) (k : Str) (c : Nat)
    (h : (k, c) ∈ (P.node n).cmds) (hk : k ≠ (P.node n).helpName) :
    commandLine P (P.node n) k <:+: helpOutput ext P n [] := by
  have hm : (k, c) ∈ helpCommands (P.node n) := (mem_helpCommands _ k c).mpr ⟨h, hk⟩
  have hs : k ∈ sortStrs ((helpCommands (P.node n)).map (·.1)) :=
    (mem_sortStrs _ k).mpr (List.mem_map.mpr ⟨(k, c), hm, rfl⟩)
  have h1 := commandLine_in_list ext P (P.node n) k hs
  have hne : (helpCommandList ext P (P.node n)).isEmpty = false := by
    obtain ⟨s, t, e⟩ := h1
    cases hl : helpCommandList ext P (P.node n) with
    | nil =>
      rw [hl] at e
      have hlen := congrArg List.length e
      simp only [List.length_append, List.length_nil] at hlen
      have h0 : (commandLine P (P.node n) k).length = 0 := by omega
      simp [commandLine, indent4, spaces] at h0
    | cons x xs => rfl
  have h2 := section_in_default ext P n .commandList (by simp [defaultSections])
  simp only [helpSection, hne, Bool.false_eq_true, ↓reduceIte] at h2
  exact h1.trans ((infix_append_l (List.infix_refl _)).trans h2)

/-! Non-vacuity: the demo program's root help lists each option once, `cmd` once, not `help`. -/
example : (helpOptions Demo.prog (Demo.prog.node 0)).length = 7 ∧
          (helpCommands (Demo.prog.node 0)).length = 1 ∧
          (requiredOpts Demo.prog (Demo.prog.node 0)) = [] := by decide

-- the entry of `name` (option 0, alias n) as it stands in the demo program's help text
example : helpString (Demo.prog.opt 0) (helpFactor Demo.prog (Demo.prog.node 0)) =
    b "    --name|-n <string>    (default: \"def\")\n\n" := by decide

/-- `HelpNone` contributes nothing: asking for it alone gives the empty text, and adding it to a list of sections
changes nothing -/
theorem help_none_prints_nothing (ext : Ext) (P : Prog) (n : Nat) (secs secs' : List Section) :
    helpOutput ext P n [.none] = [] ∧
    (secs ≠ [] → helpOutput ext P n (secs ++ .none :: secs') = helpOutput ext P n (secs ++ secs')) := by
  constructor
  · simp [helpOutput, helpSection]
  · intro h
    have h1 : (secs ++ Section.none :: secs').isEmpty = false := by cases secs <;> simp_all
    have h2 : (secs ++ secs').isEmpty = false := by cases secs <;> simp_all
    simp [helpOutput, h1, h2, helpSection]

end GoModel

import Props.C13
import Lemmas.Rerun
import Lemmas.SharedTask
/-!
# C15 — concurrency never exceeds the configured bound; serial means one at a time

**Partial by nature** (DESIGN.md section 9): in the model a semaphore slot and the task mutex are state
components; that the Go code acquires the slot as the goroutine's first statement, releases it in a
deferred call, and brackets `Fn` with `Lock`/`Unlock` is a regenerated source fact (`Tie/DagFacts.lean`),
and the real-time behaviour is exercised by the controlled runs.
-/
namespace GoModel.Dag

/-- the vertices whose task function is executing -/
def running (c : Cfg) (s : Sched) : List Nat := c.g.ids.filter fun v => match (s.get v).fl with | .running _ => true | _ => false

theorem reachable_hinv (c : Cfg) (hn : c.g.ids.Nodup) (s : Sched) (h : Reachable c s) : HInv c s := by
  obtain ⟨evs, i, ha⟩ := h
  exact hinv_accept c hn evs initSched s i (hinv_init c) ha

/-- **The bound.**  In every reachable state at most `maxParallel` semaphore slots are held, and every
executing task function holds one: never more than `maxParallel` task functions execute at once. -/
theorem concurrency_bound (c : Cfg) (hc : Scheduled c) (s : Sched) (hr : Reachable c s) :
    (running c s).length ≤ c.maxParallel := by
  obtain ⟨ops, hops⟩ := hc.built
  have hn : c.g.ids.Nodup := by rw [hops]; exact (buildGraph_inv ops).nodup
  have h := reachable_hinv c hn s hr
  have hsub : (running c s).length ≤ holders c s := by
    unfold running holders
    rw [← List.countP_eq_length_filter, ← List.countP_eq_length_filter]
    apply List.countP_mono_left
    intro a _ ha
    cases hfl : (s.get a).fl with
    | running k => exact h.held a (Or.inr (Or.inr ⟨k, hfl⟩))
    | _ => simp [hfl] at ha
  exact Nat.le_trans hsub h.bound

/-- a slot can only be taken while one is free -/
theorem semAcq_requires_free (c : Cfg) (s s' : Sched) (v : Nat) (hs : step? c s (.semAcq v) = some s') :
    holders c s < c.maxParallel := by
  simp [step?] at hs; exact hs.2.1.2

/-! ## a later `Run` of the same graph -/

theorem hinv_rerun (c : Cfg) (s : Sched) : HInv c (rerun s) := by
  constructor
  · have : (c.g.ids.filter fun v => ((rerun s).get v).sem) = [] := by
      rw [List.filter_eq_nil_iff]; intro a _; simp [rerun, Sched.get]
    simp [holders, this]
  · intro v h; simp [rerun, Sched.get] at h

theorem running_le_holders (c : Cfg) (s : Sched) (h : HInv c s) : (running c s).length ≤ holders c s := by
  unfold running holders
  rw [← List.countP_eq_length_filter, ← List.countP_eq_length_filter]
  apply List.countP_mono_left
  intro a _ ha
  cases hfl : (s.get a).fl with
  | running k => exact h.held a (Or.inr (Or.inr ⟨k, hfl⟩))
  | _ => simp [hfl] at ha

/-- **The bound holds in every later run, under the limit in force then.**  Whatever the earlier run
left behind (`s` is arbitrary), whatever limit `SetMaxParallel` set in between and whatever tasks were
added (`c` is the configuration of the later run: the semaphore is made anew from `maxParallel` by every
`Run` - the regenerated fact `semaphoreCap`), every state the later run can reach has at most
`c.maxParallel` task functions executing. -/
theorem second_run_concurrency_bound (c : Cfg) (hn : c.g.ids.Nodup) (s s' : Sched) (evs : List Event) (i : Nat)
    (ha : accept c (rerun s) evs i = .ok s') : (running c s').length ≤ c.maxParallel := by
  have h := hinv_accept c hn evs (rerun s) s' i (hinv_rerun c s) ha
  exact Nat.le_trans (running_le_holders c s' h) h.bound

/-! ## serial mode -/

def inProgressList (c : Cfg) (s : Sched) : List Nat := c.g.ids.filter fun v => (s.get v).st == .inProgress

/-- in serial mode a vertex is picked only when nothing is in progress -/
theorem serial_pick_requires_quiet (c : Cfg) (hser : c.serial = true) (s s' : Sched) (v : Nat)
    (hs : step? c s (.pickReal v) = some s' ∨ step? c s (.pickSkip v) = some s' ∨ step? c s (.pickErr v) = some s') :
    inProgressList c s = [] := by
  have key : mayPick c s = true → inProgressList c s = [] := by
    intro hm
    simp only [mayPick, hser, Bool.true_and, Bool.not_eq_eq_eq_not, Bool.not_true] at hm
    unfold anyInProgress at hm
    unfold inProgressList
    rw [List.filter_eq_nil_iff]
    intro a ha
    rw [List.any_eq_false] at hm
    simpa using hm a ha
  rcases hs with h | h | h
  · simp [step?] at h; exact key h.2.1.1.1.1.2
  · simp [step?] at h; exact key h.2.1.1.1.2
  · simp [step?] at h; exact key h.2.1.1.1.1.2

/-- **Serial means one at a time**: in serial mode never more than one vertex is in progress. -/
structure SerialInv (c : Cfg) (s : Sched) : Prop where
  one : ∀ v w, v ∈ c.g.ids → w ∈ c.g.ids → (s.get v).st = .inProgress → (s.get w).st = .inProgress → v = w
  reg : ∀ v, (s.get v).st = .inProgress → v ∈ c.g.ids

theorem serial_init (c : Cfg) : SerialInv c initSched :=
  ⟨fun v w _ _ h => by simp [initSched, Sched.get] at h, fun v h => by simp [initSched, Sched.get] at h⟩

theorem serial_pick (c : Cfg) (hser : c.serial = true) (s : Sched) (h : SerialInv c s) (v : Nat) (x : VState)
    (hv : c.g.has v = true) (hm : mayPick c s = true) : SerialInv c (s.set v x) := by
  have hquiet : ∀ a, a ∈ c.g.ids → (s.get a).st ≠ .inProgress := by
    simp only [mayPick, hser, Bool.true_and, Bool.not_eq_eq_eq_not, Bool.not_true] at hm
    unfold anyInProgress at hm
    rw [List.any_eq_false] at hm
    intro a ha; simpa using hm a ha
  have hvid : v ∈ c.g.ids := (has_iff_mem_ids c.g v).mp hv
  constructor
  · intro a w ha hw h1 h2
    rw [get_set] at h1 h2
    by_cases e1 : a = v <;> by_cases e2 : w = v
    · rw [e1, e2]
    · simp only [e2, ↓reduceIte] at h2; exact absurd h2 (hquiet w hw)
    · simp only [e1, ↓reduceIte] at h1; exact absurd h1 (hquiet a ha)
    · simp only [e1, ↓reduceIte] at h1; exact absurd h1 (hquiet a ha)
  · intro a h1
    rw [get_set] at h1
    by_cases e1 : a = v
    · rw [e1]; exact hvid
    · simp only [e1, ↓reduceIte] at h1; exact h.reg a h1

/-- an update that does not put a vertex in progress keeps the serial invariant -/
theorem serial_noprogress (c : Cfg) (s : Sched) (h : SerialInv c s) (s' : Sched)
    (hs : ∀ a, (s'.get a).st = .inProgress → (s.get a).st = .inProgress) : SerialInv c s' :=
  ⟨fun v w hv hw h1 h2 => h.one v w hv hw (hs v h1) (hs w h2), fun v h1 => h.reg v (hs v h1)⟩

theorem serial_step (c : Cfg) (hser : c.serial = true) (s s' : Sched) (ev : Event) (h : SerialInv c s)
    (hs : step? c s ev = some s') : SerialInv c s' := by
  cases ev with
  | pickReal v => simp [step?] at hs; obtain ⟨_, hc, rfl⟩ := hs; exact serial_pick c hser s h v _ hc.1.1.1.1 hc.1.1.1.2
  | pickSkip v => simp [step?] at hs; obtain ⟨_, hc, rfl⟩ := hs; exact serial_pick c hser s h v _ hc.1.1.1 hc.1.1.2
  | pickErr v => simp [step?] at hs; obtain ⟨_, hc, rfl⟩ := hs; exact serial_pick c hser s h v _ hc.1.1.1.1 hc.1.1.1.2
  | cancel => simp [step?] at hs; obtain ⟨_, _, rfl⟩ := hs; exact ⟨h.one, h.reg⟩
  | exit => simp [step?] at hs; obtain ⟨_, _, rfl⟩ := hs; exact ⟨h.one, h.reg⟩
  | idle =>
    simp only [step?] at hs
    split at hs
    · simp at hs
    · split at hs
      · simp at hs
      · split at hs
        · simp at hs
        · simp only [Option.some.injEq] at hs; subst hs; exact h
  | semAcq v =>
    simp [step?] at hs; obtain ⟨_, _, rfl⟩ := hs
    exact serial_noprogress c s h _ (fun a ha => by rw [get_set] at ha; split at ha <;> simp_all)
  | lockAcq v =>
    simp [step?] at hs; obtain ⟨_, _, rfl⟩ := hs
    exact serial_noprogress c s h _ (fun a ha => by rw [get_set] at ha; split at ha <;> simp_all)
  | enter v k =>
    simp [step?] at hs; obtain ⟨_, _, rfl⟩ := hs
    exact serial_noprogress c s h _ (fun a ha => by rw [get_set] at ha; split at ha <;> simp_all)
  | semRel v =>
    simp [step?] at hs; obtain ⟨_, rfl⟩ := hs
    exact serial_noprogress c s h _ (fun a ha => by rw [get_set] at ha; split at ha <;> simp_all)
  | leave v k r =>
    simp only [step?] at hs
    split at hs
    · simp at hs
    · split at hs
      · split at hs <;> (simp only [Option.some.injEq] at hs; subst hs)
        all_goals exact serial_noprogress c s h _ (fun a ha => by rw [get_set] at ha; split at ha <;> simp_all)
      · simp at hs
  | recv v r =>
    simp only [step?] at hs
    split at hs
    · simp at hs
    · split at hs
      · have hx : ∀ a, ((s.set v (if ((s.get v).fl == Flight.sending r) = true
            then { s.get v with st := .done, fl := .none, out := some r }
            else { s.get v with st := .done, pseudo := (s.get v).pseudo.erase r, out := some r })).get a).st = .inProgress →
            (s.get a).st = .inProgress := by
          intro a ha
          rw [get_set] at ha
          split at ha
          · split at ha <;> simp at ha
          · exact ha
        cases r <;> simp only [Option.some.injEq] at hs <;> subst hs
        · exact serial_noprogress c s h _ hx
        · exact serial_noprogress c s h _ hx
        · refine serial_noprogress c s h _ (fun a ha => ?_)
          rw [markAncestors_get] at ha
          split at ha
          · simp [markOne] at ha
          · exact hx a ha
        · exact serial_noprogress c s h _ hx
      · simp at hs

theorem serial_one_at_a_time (c : Cfg) (hser : c.serial = true) (s : Sched) (hr : Reachable c s) :
    ∀ v w, v ∈ c.g.ids → w ∈ c.g.ids → (s.get v).st = .inProgress → (s.get w).st = .inProgress → v = w := by
  obtain ⟨evs, i, ha⟩ := hr
  have : ∀ (l : List Event) (s0 : Sched) (j : Nat), SerialInv c s0 → accept c s0 l j = .ok s → SerialInv c s := by
    intro l
    induction l with
    | nil => intro s0 j h0 h1; simp [accept] at h1; subst h1; exact h0
    | cons e l ih =>
      intro s0 j h0 h1
      unfold accept at h1
      split at h1
      · rename_i s1 hs1; exact ih s1 (j + 1) (serial_step c hser s0 s1 e h0 hs1) h1
      · simp at h1
  exact (this evs initSched i (serial_init c) ha).one

/-! ## a Task shared by two graphs -/

/-- **A Task shared by two graphs that run concurrently never executes twice at the same time.**  Two copies of the
scheduler LTS (any two graphs, any limits, serial or not) whose only coupling is the Task's mutex — a `lockAcq v` of
one graph needs the other graph's goroutine for `v` not to hold it, which is what `sync.Mutex` provides; the
goroutine holds it from `lockAcq` until its result has been received (`v.Task.Lock(); defer v.Task.Unlock()` before the
first attempt): in every reachable state of the pair the function of `v` is executing in at most one of them, for
every attempt number. -/
theorem shared_task_never_runs_twice (c1 c2 : Cfg) (p : Sched × Sched) (hr : PairReachable c1 c2 p)
    (v k1 k2 : Nat) : ¬ ((p.1.get v).fl = .running k1 ∧ (p.2.get v).fl = .running k2) := by
  intro h
  exact reachable_exclusive c1 c2 p hr v ⟨running_holds p.1 v k1 h.1, running_holds p.2 v k2 h.2⟩

/-- the step that matters: while one graph's goroutine holds the mutex the other graph cannot take it, whatever else
either graph does in the meantime (`step_holds`: only its own `lockAcq` makes a goroutine a holder) -/
theorem lock_acquired_only_by_lockAcq (c : Cfg) (s s' : Sched) (ev : Event) (v : Nat)
    (h : step? c s ev = some s') (hl : holdsLock s' v = true) : holdsLock s v = true ∨ ev = .lockAcq v :=
  step_holds c s s' ev v h hl

/-! Non-vacuity: with `maxParallel = 1` a second independent task cannot take a slot. -/
def twoCfg : Cfg := { g := buildGraph [.addTask (t 1), .addTask (t 2)], maxParallel := 1 }

example : (accept twoCfg initSched [.pickReal 1, .pickReal 2, .semAcq 1, .semAcq 2] 0).toOption.isSome = false := by
  decide
example : (accept twoCfg initSched [.pickReal 1, .pickReal 2, .semAcq 1, .lockAcq 1, .enter 1 0, .leave 1 0 .ok,
    .recv 1 .ok, .semRel 1, .semAcq 2] 0).toOption.isSome = true := by
  decide

-- a goroutine inside its function holds the mutex; before `lockAcq` it does not
example : ((accept twoCfg initSched [.pickReal 1, .semAcq 1, .lockAcq 1, .enter 1 0] 0).toOption.map fun s =>
    (holdsLock s 1, (s.get 1).fl)) = some (true, .running 0) ∧
    ((accept twoCfg initSched [.pickReal 1, .semAcq 1] 0).toOption.map fun s => holdsLock s 1) = some false := by
  decide

end GoModel.Dag

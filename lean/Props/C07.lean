import Lemmas.Bytes
/-!
# C07 — single-dash modes follow the documented rewriting; long options ignore the mode

Splitter-level theorems (for every token, no bound on its length).
-/
namespace GoModel

/-- Tokens starting with `--` are split identically in Normal, Bundling and SingleDash mode. -/
theorem long_mode_independent (rest : Str) (m₁ m₂ : Mode) :
    isOption (chDash :: chDash :: rest) m₁ = isOption (chDash :: chDash :: rest) m₂ := by
  cases rest with
  | nil => simp [isOption, chDash]
  | cons c r =>
    unfold isOption
    have h1 : (chDash :: chDash :: c :: r == [chDash, chDash]) = false := by simp
    have h2 : (chDash :: chDash :: c :: r == [chDash]) = false := by simp
    rw [h1, h2]
    simp only [Bool.false_eq_true, ↓reduceIte]
    by_cases hc : (c != chEq) = true <;> simp [splitDashes, chDash, hc]

/-- Whether a token "looks like an option" (the value lookahead) does not depend on the mode. -/
theorem lookahead_mode_independent (s : Str) (m₁ m₂ : Mode) :
    looksLikeOption s m₁ = looksLikeOption s m₂ := by
  unfold looksLikeOption isOption
  by_cases h1 : (s == [chDash, chDash]) = true
  · simp [h1]
  · by_cases h2 : (s == [chDash]) = true
    · simp [h1, h2]
    · simp only [h1, h2, Bool.false_eq_true, ↓reduceIte]
      cases hsd : splitDashes s with
      | none => rfl
      | some t =>
        obtain ⟨l, name, g3⟩ := t
        cases l <;> cases m₁ <;> cases m₂ <;> simp <;> split <;> simp

/-- Normal mode: `-name[=v]` is split exactly like `--name[=v]`
(`x` is the text after the dash; it does not start with `-` or `=`). -/
theorem normal_rewrite (c : UInt8) (r : Str) (hd : c ≠ chDash) (he : c ≠ chEq) :
    isOption (chDash :: c :: r) .normal = isOption (chDash :: chDash :: c :: r) .normal := by
  unfold isOption
  have a1 : (chDash :: c :: r == [chDash, chDash]) = false := by
    cases r <;> simp [hd]
  have a2 : (chDash :: c :: r == [chDash]) = false := by simp
  have b1 : (chDash :: chDash :: c :: r == [chDash, chDash]) = false := by simp
  have b2 : (chDash :: chDash :: c :: r == [chDash]) = false := by simp
  rw [a1, a2, b1, b2]
  have hc : (c != chEq) = true := by simp [he]
  have hd' : ¬ (c = 45) := by simpa [chDash] using hd
  simp only [Bool.false_eq_true, ↓reduceIte]
  have s1 : splitDashes (chDash :: c :: r) = some (false, nameOf (c :: r), restOf (c :: r)) := by
    unfold splitDashes
    simp only [chDash]
    split
    · rename_i heq; simp at heq; exact absurd heq.1 hd'
    · rename_i heq; simp at heq; obtain ⟨h1, h2⟩ := heq; subst h1; subst h2; simp [hc]
    · rename_i h1 h2; exact absurd rfl (h2 c r)
  have s2 : splitDashes (chDash :: chDash :: c :: r) = some (true, nameOf (c :: r), restOf (c :: r)) := by
    simp [splitDashes, chDash, hc]
  rw [s1, s2]

/-- `--name=v` is split into the option `name` with the attached argument `v`, in every mode,
whatever bytes `v` consists of (leading dashes, further `=`, spaces, newlines). -/
theorem long_attached (name v : Str) (m : Mode) (hn : name ≠ []) (hne : ∀ c ∈ name, c ≠ chEq)
    (hv : v ≠ []) :
    isOption (chDash :: chDash :: (name ++ chEq :: v)) m = ([⟨name, [v]⟩], true) := by
  cases name with
  | nil => exact absurd rfl hn
  | cons c n =>
    have hc : c ≠ chEq := hne c (by simp)
    unfold isOption
    have h1 : (chDash :: chDash :: (c :: n ++ chEq :: v) == [chDash, chDash]) = false := by simp
    have h2 : (chDash :: chDash :: (c :: n ++ chEq :: v) == [chDash]) = false := by simp
    rw [h1, h2]
    simp only [Bool.false_eq_true, ↓reduceIte]
    have hc' : (c != chEq) = true := by simp [hc]
    have s : splitDashes (chDash :: chDash :: (c :: n ++ chEq :: v)) =
        some (true, nameOf (c :: n ++ chEq :: v), restOf (c :: n ++ chEq :: v)) := by
      simp [splitDashes, chDash, hc']
    rw [s]
    simp only [nameOf_append_eq (c :: n) v hne, restOf_append_eq (c :: n) v hne, attached_eq v hv]

/-- `--name` (no `=`) is the option `name` without attached argument, in every mode. -/
theorem long_bare (name : Str) (m : Mode) (hn : name ≠ []) (hne : ∀ c ∈ name, c ≠ chEq) :
    isOption (chDash :: chDash :: name) m = ([⟨name, []⟩], true) := by
  cases name with
  | nil => exact absurd rfl hn
  | cons c n =>
    have hc : c ≠ chEq := hne c (by simp)
    unfold isOption
    have h1 : (chDash :: chDash :: c :: n == [chDash, chDash]) = false := by simp
    have h2 : (chDash :: chDash :: c :: n == [chDash]) = false := by simp
    rw [h1, h2]
    simp only [Bool.false_eq_true, ↓reduceIte]
    have hc' : (c != chEq) = true := by simp [hc]
    have s : splitDashes (chDash :: chDash :: c :: n) = some (true, nameOf (c :: n), restOf (c :: n)) := by
      simp [splitDashes, chDash, hc']
    rw [s]
    simp only [nameOf_noEq (c :: n) hne, restOf_noEq (c :: n) hne, attached]

end GoModel

import Lemmas.OptStart
import Lemmas.Demo
/-!
# C07 — single-dash modes follow the documented rewriting; long options ignore the mode

Splitter-level theorems (for every token, no bound on its length) and their lifting to the complete
observable outcome of a parse (`*_rewrite_parse`): the token is replaced by its documented rewriting
in the middle of an arbitrary command line.
-/
namespace GoModel

/-- Tokens starting with `--` are split identically in Normal, Bundling and SingleDash mode. -/
theorem long_mode_independent (rest : Str) (m₁ m₂ : Mode) :
    isOption (chDash :: chDash :: rest) m₁ = isOption (chDash :: chDash :: rest) m₂ := by
  cases rest with
  | nil => simp [isOption, chDash]
  | cons c r =>
    unfold isOption
    have h1 : (chDash :: chDash :: c :: r == [chDash, chDash]) = false := by simp
    have h2 : (chDash :: chDash :: c :: r == [chDash]) = false := by simp
    rw [h1, h2]
    simp only [Bool.false_eq_true, ↓reduceIte]
    by_cases hc : (c != chEq) = true <;> simp [splitDashes, chDash, hc]

/-- Whether a token "looks like an option" (the value lookahead) does not depend on the mode. -/
theorem lookahead_mode_independent (s : Str) (m₁ m₂ : Mode) :
    looksLikeOption s m₁ = looksLikeOption s m₂ := by
  unfold looksLikeOption isOption
  by_cases h1 : (s == [chDash, chDash]) = true
  · simp [h1]
  · by_cases h2 : (s == [chDash]) = true
    · simp [h1, h2]
    · simp only [h1, h2, Bool.false_eq_true, ↓reduceIte]
      cases hsd : splitDashes s with
      | none => rfl
      | some t =>
        obtain ⟨l, name, g3⟩ := t
        cases l <;> cases m₁ <;> cases m₂ <;> simp <;> split <;> simp

/-- Normal mode: `-name[=v]` is split exactly like `--name[=v]`
(`x` is the text after the dash; it does not start with `-` or `=`). -/
theorem normal_rewrite (c : UInt8) (r : Str) (hd : c ≠ chDash) (he : c ≠ chEq) :
    isOption (chDash :: c :: r) .normal = isOption (chDash :: chDash :: c :: r) .normal := by
  unfold isOption
  have a1 : (chDash :: c :: r == [chDash, chDash]) = false := by
    cases r <;> simp [hd]
  have a2 : (chDash :: c :: r == [chDash]) = false := by simp
  have b1 : (chDash :: chDash :: c :: r == [chDash, chDash]) = false := by simp
  have b2 : (chDash :: chDash :: c :: r == [chDash]) = false := by simp
  rw [a1, a2, b1, b2]
  have hc : (c != chEq) = true := by simp [he]
  have hd' : ¬ (c = 45) := by simpa [chDash] using hd
  simp only [Bool.false_eq_true, ↓reduceIte]
  have s1 : splitDashes (chDash :: c :: r) = some (false, nameOf (c :: r), restOf (c :: r)) := by
    unfold splitDashes
    simp only [chDash]
    split
    · rename_i heq; simp at heq; exact absurd heq.1 hd'
    · rename_i heq; simp at heq; obtain ⟨h1, h2⟩ := heq; subst h1; subst h2; simp [hc]
    · rename_i h1 h2; exact absurd rfl (h2 c r)
  have s2 : splitDashes (chDash :: chDash :: c :: r) = some (true, nameOf (c :: r), restOf (c :: r)) := by
    simp [splitDashes, chDash, hc]
  rw [s1, s2]

/-- `--name=v` is split into the option `name` with the attached argument `v`, in every mode,
whatever bytes `v` consists of (leading dashes, further `=`, spaces, newlines). -/
theorem long_attached (name v : Str) (m : Mode) (hn : name ≠ []) (hne : ∀ c ∈ name, c ≠ chEq)
    (hv : v ≠ []) :
    isOption (chDash :: chDash :: (name ++ chEq :: v)) m = ([⟨name, [v]⟩], true) := by
  cases name with
  | nil => exact absurd rfl hn
  | cons c n =>
    have hc : c ≠ chEq := hne c (by simp)
    unfold isOption
    have h1 : (chDash :: chDash :: (c :: n ++ chEq :: v) == [chDash, chDash]) = false := by simp
    have h2 : (chDash :: chDash :: (c :: n ++ chEq :: v) == [chDash]) = false := by simp
    rw [h1, h2]
    simp only [Bool.false_eq_true, ↓reduceIte]
    have hc' : (c != chEq) = true := by simp [hc]
    have s : splitDashes (chDash :: chDash :: (c :: n ++ chEq :: v)) =
        some (true, nameOf (c :: n ++ chEq :: v), restOf (c :: n ++ chEq :: v)) := by
      simp [splitDashes, chDash, hc']
    rw [s]
    simp only [nameOf_append_eq (c :: n) v hne, restOf_append_eq (c :: n) v hne, attached_eq v hv]

/-- `--name` (no `=`) is the option `name` without attached argument, in every mode. -/
theorem long_bare (name : Str) (m : Mode) (hn : name ≠ []) (hne : ∀ c ∈ name, c ≠ chEq) :
    isOption (chDash :: chDash :: name) m = ([⟨name, []⟩], true) := by
  cases name with
  | nil => exact absurd rfl hn
  | cons c n =>
    have hc : c ≠ chEq := hne c (by simp)
    unfold isOption
    have h1 : (chDash :: chDash :: c :: n == [chDash, chDash]) = false := by simp
    have h2 : (chDash :: chDash :: c :: n == [chDash]) = false := by simp
    rw [h1, h2]
    simp only [Bool.false_eq_true, ↓reduceIte]
    have hc' : (c != chEq) = true := by simp [hc]
    have s : splitDashes (chDash :: chDash :: c :: n) = some (true, nameOf (c :: n), restOf (c :: n)) := by
      simp [splitDashes, chDash, hc']
    rw [s]
    simp only [nameOf_noEq (c :: n) hne, restOf_noEq (c :: n) hne, attached]

/-! ## Lifting to the whole command line -/

section WholeParse
variable (ext : Ext)

/-- a head position: no error, no option waiting for a value, not stopped -/
def AtHead (s : PState) : Prop := s.err = none ∧ s.ctx = .idle

/-- a head position is a position where an option may start; so is the position right behind an
option that can still take values (`OptStart`, `Lemmas/OptStart.lean`) -/
theorem AtHead.optStart {s : PState} (h : AtHead s) : OptStart s := ⟨h.1, Or.inl h.2⟩

/-- **Normal mode, whole command line**: replacing the token `-NAME[=V]`, given where an option may
start (a head position, or right behind an option that can still take values) and naming a declared option, by `--NAME[=V]` changes nothing observable in the parse result
(option store, selected command, remaining list, unknown-option log, error, completion list). -/
theorem normal_rewrite_parse (P : Prog) (pre post : List Str) (name g3 : Str)
    (hn : SName name) (hg : G3 g3)
    (hh : OptStart (run ext .normal P pre))
    (hk : Known (run ext .normal P pre) ⟨name, attached g3⟩) :
    ObsEq (parseArgs ext .normal P (pre ++ [chDash :: (name ++ g3)] ++ post))
          (parseArgs ext .normal P (pre ++ [chDash :: chDash :: (name ++ g3)] ++ post)) := by
  apply parse_of_sim
  simp only [List.foldl_cons, List.foldl_nil]
  exact same_pair_sim' ext .normal _ _ _ ⟨name, attached g3⟩ hh
    (by rw [isOption_single name g3 .normal hn hg]; rfl)
    (isOption_long name g3 .normal hn.ne hn.noeq hg) hk

/-- the text after the first character of a SingleDash token -/
def sdRest (name g3 : Str) : Str := name.drop (utf8Width name) ++ g3
/-- the first character of a SingleDash token -/
def sdHead (name : Str) : Str := name.take (utf8Width name)

theorem singledash_split (name g3 : Str) (hn : SName name) (hg : G3 g3) :
    isOption (chDash :: (name ++ g3)) .singleDash =
      ([⟨sdHead name, if sdRest name g3 = [] then [] else [sdRest name g3]⟩], true) := by
  rw [isOption_single name g3 .singleDash hn hg]
  unfold singleSplit sdRest sdHead
  have hle := utf8Width_le_len name
  by_cases h : (name.length > utf8Width name || g3.length > 0) = true
  · have : ¬ (name.drop (utf8Width name) ++ g3 = []) := by
      intro e
      have e' := congrArg List.length e
      simp only [List.length_append, List.length_drop, List.length_nil] at e'
      simp only [Bool.or_eq_true, decide_eq_true_eq] at h
      omega
    simp [h, this]
  · have : name.drop (utf8Width name) ++ g3 = [] := by
      simp only [Bool.or_eq_true, decide_eq_true_eq, not_or] at h
      have h1 : name.length ≤ utf8Width name := by omega
      have h2 : g3 = [] := List.eq_nil_of_length_eq_zero (by omega)
      subst h2
      simp [List.drop_eq_nil_of_le h1]
    simp [h, this]

/-- the rewriting of the SingleDash token `-xREST`: `--x=REST`, or `--x` when REST is empty -/
def sdRewrite (name g3 : Str) : Str :=
  if sdRest name g3 = [] then chDash :: chDash :: sdHead name
  else chDash :: chDash :: (sdHead name ++ chEq :: sdRest name g3)

theorem singledash_rewrite_split (name g3 : Str) (m : Mode) (hn : SName name) :
    isOption (sdRewrite name g3) m =
      ([⟨sdHead name, if sdRest name g3 = [] then [] else [sdRest name g3]⟩], true) := by
  have hx := sname_take name hn
  unfold sdRewrite
  by_cases h : sdRest name g3 = []
  · simp only [h, ↓reduceIte]
    have := isOption_long (sdHead name) [] m hx.ne hx.noeq (Or.inl rfl)
    simpa [attached] using this
  · simp only [h, ↓reduceIte]
    have := isOption_long (sdHead name) (chEq :: sdRest name g3) m hx.ne hx.noeq (Or.inr ⟨_, rfl⟩)
    rw [attached_eq _ h] at this
    exact this

/-- **SingleDash mode, whole command line**: `-xREST` ≡ `--x=REST`, `-x` ≡ `--x`. -/
theorem singledash_rewrite_parse (P : Prog) (pre post : List Str) (name g3 : Str)
    (hn : SName name) (hg : G3 g3)
    (hh : OptStart (run ext .singleDash P pre))
    (hk : Known (run ext .singleDash P pre) ⟨sdHead name, if sdRest name g3 = [] then [] else [sdRest name g3]⟩) :
    ObsEq (parseArgs ext .singleDash P (pre ++ [chDash :: (name ++ g3)] ++ post))
          (parseArgs ext .singleDash P (pre ++ [sdRewrite name g3] ++ post)) := by
  apply parse_of_sim
  simp only [List.foldl_cons, List.foldl_nil]
  exact same_pair_sim' ext .singleDash _ _ _ _ hh
    (singledash_split name g3 hn hg) (singledash_rewrite_split name g3 .singleDash hn) hk

/-- **Bundling, splitter level**: `-NAME[=V]` splits into one pair per character of NAME (as
`strings.Split(NAME, "")` cuts it), the attached value going to the last one. -/
theorem bundling_split (name g3 : Str) (hn : SName name) (hg : G3 g3) :
    isOption (chDash :: (name ++ g3)) .bundling = (bundlePairs (explode name) (attached g3), true) := by
  rw [isOption_single name g3 .bundling hn hg]; rfl

theorem splits_letters (name : Str) (hn : SName name) (hnd : ∀ c ∈ name, c ≠ chDash) (ls : List Str)
    (hsub : ∀ l ∈ ls, l ∈ explode name) :
    Splits .bundling (ls.map (chDash :: ·)) (ls.map (fun x => ⟨x, []⟩)) := by
  induction ls with
  | nil => exact Splits.nil
  | cons l ls ih =>
    refine Splits.cons ?_ (ih (fun x hx => hsub x (by simp [hx])))
    have hl := hsub l (by simp)
    have hd : l.head? ≠ some chDash := by
      intro e
      cases l with
      | nil => simp at e
      | cons c r =>
        simp at e; subst e
        exact hnd chDash (explode_mem_sub name _ hl chDash (by simp)) rfl
    have := bundling_letter name l [] hn hl hd (Or.inl rfl)
    simpa [attached] using this

/-- **Bundling, whole command line**: `-xyz[=V]` ≡ `-x -y -z[=V]` when `x`, `y` are declared flags
(options that take no argument) and `z` is any declared option.  `ls ++ [z]` are the characters of
the bundle. -/
theorem bundling_rewrite_parse (P : Prog) (pre post : List Str) (name g3 : Str) (ls : List Str) (z : Str)
    (hn : SName name) (hnd : ∀ c ∈ name, c ≠ chDash) (hg : G3 g3)
    (hls : explode name = ls ++ [z])
    (hh : OptStart (run ext .bundling P pre))
    (hf : ∀ l ∈ ls, FlagPair (run ext .bundling P pre) ⟨l, []⟩)
    (hz : Known (run ext .bundling P pre) ⟨z, attached g3⟩) :
    ObsEq (parseArgs ext .bundling P (pre ++ [chDash :: (name ++ g3)] ++ post))
          (parseArgs ext .bundling P (pre ++ (ls.map (chDash :: ·) ++ [chDash :: (z ++ g3)]) ++ post)) := by
  apply parse_of_sim
  simp only [List.foldl_cons, List.foldl_nil]
  have hzmem : z ∈ explode name := by rw [hls]; simp
  have hzd : z.head? ≠ some chDash := by
    intro e
    cases z with
    | nil => simp at e
    | cons c r =>
      simp at e; subst e
      exact hnd chDash (explode_mem_sub name _ hzmem chDash (by simp)) rfl
  refine bundle_rewrite_sim' ext .bundling _ _ _ _ (ls.map (fun x => ⟨x, []⟩)) ⟨z, attached g3⟩ hh ?_ ?_ ?_ ?_ hz
  · rw [bundling_split name g3 hn hg, hls, bundlePairs_append]
  · exact splits_letters name hn hnd ls (fun l hl => by rw [hls]; simp [hl])
  · exact bundling_letter name z g3 hn hzmem hzd hg
  · intro p hp
    obtain ⟨l, hl, rfl⟩ := List.mem_map.mp hp
    exact hf l hl


/-! Non-vacuity: the hypotheses of the three whole-parse laws are met by a concrete program and
command line, and the two sides are the non-trivial parses one expects. -/
example :
    SName (b "vn") ∧ G3 (b "=x") ∧ explode (b "vn") = [b "v"] ++ [b "n"] ∧
    AtHead (run Demo.ext .bundling Demo.prog [b "--num=1"]) ∧
    FlagPair (run Demo.ext .bundling Demo.prog [b "--num=1"]) ⟨b "v", []⟩ ∧
    Known (run Demo.ext .bundling Demo.prog [b "--num=1"]) ⟨b "n", attached (b "=x")⟩ :=
  ⟨⟨by decide, by decide, by decide⟩, Or.inr ⟨b "x", by decide⟩, by decide, ⟨by decide, by decide⟩,
   ⟨rfl, b "v", 1, by decide, by decide, by decide, by decide⟩, ⟨b "n", by decide⟩⟩
example :
    ((parseArgs Demo.ext .bundling Demo.prog [b "--num=1", b "-vn=x", b "rest"]).P.opt 0).value = .s (b "x") ∧
    ((parseArgs Demo.ext .bundling Demo.prog [b "--num=1", b "-v", b "-n=x", b "rest"]).P.opt 1).value = .b true := by
  decide
example :
    SName (b "nfoo") ∧ G3 [] ∧ AtHead (run Demo.ext .singleDash Demo.prog []) ∧
    sdRewrite (b "nfoo") [] = b "--n=foo" ∧
    Known (run Demo.ext .singleDash Demo.prog []) ⟨sdHead (b "nfoo"), [sdRest (b "nfoo") []]⟩ :=
  ⟨⟨by decide, by decide, by decide⟩, Or.inl rfl, ⟨by decide, by decide⟩, by decide, ⟨b "n", by decide⟩⟩

/-- the laws also apply right behind an option that is still collecting optional values: after
`--opt` (optional string) the parser is at such a position -/
example : OptStart (run Demo.ext .bundling Demo.prog [b "--opt"]) ∧
    ¬ AtHead (run Demo.ext .bundling Demo.prog [b "--opt"]) :=
  ⟨⟨by decide, Or.inr ⟨3, 0, by decide, by decide⟩⟩, fun h => by have := h.2; revert this; decide⟩

end WholeParse

end GoModel

import Props.C01
import Model.Define
/-!
# C02 — multi-value options consume the right tokens and keep every value in order
-/
namespace GoModel

variable (ext : Ext) (mode : Mode)

/-! ## how many tokens an occurrence takes -/

/-- Beyond the minimum an occurrence takes the next token exactly when it does not look like an
option, is not `--`, and is well-formed for the element type; otherwise the occurrence is closed and
the token is interpreted normally. -/
theorem offer_greedy_consumes_iff (s : PState) (o i : Nat) (t : Str) (hmin : ¬ (i : Int) < (s.P.opt o).min) :
    (offer ext mode s o i t).2 = true ↔
      (looksLikeOption t mode = false ∧ t ≠ dashdash ∧ typeOk ext (s.P.opt o).kind t = true) := by
  unfold offer
  simp only [hmin, ↓reduceIte]
  by_cases h : (looksLikeOption t mode || t == dashdash || !typeOk ext (s.P.opt o).kind t) = true
  · simp only [h, ↓reduceIte]
    simp at h
    constructor
    · intro hh; simp at hh
    · rintro ⟨h1, h2, h3⟩
      rcases h with (h | h) | h
      · simp [h1] at h
      · exact absurd h h2
      · simp [h3] at h
  · have hf : (looksLikeOption t mode || t == dashdash || !typeOk ext (s.P.opt o).kind t) = false := by
      cases hx : (looksLikeOption t mode || t == dashdash || !typeOk ext (s.P.opt o).kind t) with
      | false => rfl
      | true => exact absurd hx h
    simp only [hf, Bool.false_eq_true, ↓reduceIte]
    simp at hf
    obtain ⟨⟨h1, h2⟩, h3⟩ := hf
    constructor
    · intro _; exact ⟨h1, h2, h3⟩
    · intro _; split <;> rfl

/-- the lookahead per element type (api.go greedy loop) -/
theorem typeOk_spec (k : Kind) (t : Str) :
    typeOk ext k t =
      match k with
      | .ints => (atoi t).isSome
      | .flts => ext.floatOk t
      | .map => containsByte t chEq
      | _ => true := by
  cases k <;> rfl

/-- an occurrence never holds more than `max` arguments: it stays open only below `max` -/
theorem offer_below_max (s : PState) (o i : Nat) (t : Str) (i' : Nat)
    (h : (offer ext mode s o i t).1.ctx = .collecting o i') (hs : s.ctx = .collecting o i) (hi : (i : Int) < (s.P.opt o).max)
    (hmax : ∀ o', save ext (s.P.node 0).mapKeysToLower (s.P.opt o) [t] = .ok o' → o'.max = (s.P.opt o).max) :
    (i' : Int) < (s.P.opt o).max := by
  unfold offer at h
  simp only at h
  split at h
  · split at h
    · simp only [hs, Ctx.collecting.injEq] at h; rw [← h.2]; exact hi
    · split at h
      · simp only [hs, Ctx.collecting.injEq] at h; rw [← h.2]; exact hi
      · rename_i o' hsv
        simp only at h
        split at h
        · rename_i hlt; simp only [Ctx.collecting.injEq] at h; rw [← h.2, ← hmax o' hsv]; exact hlt
        · simp at h
  · split at h
    · simp at h
    · split at h
      · simp only [hs, Ctx.collecting.injEq] at h; rw [← h.2]; exact hi
      · rename_i o' hsv
        simp only at h
        split at h
        · rename_i hlt; simp only [Ctx.collecting.injEq] at h; rw [← h.2, ← hmax o' hsv]; exact hlt
        · simp at h

/-- too few arguments at the end of the input is always an error, never a silently short list -/
theorem finish_missing (s : PState) (o i : Nat) (he : s.err = none) (hc : s.ctx = .collecting o i)
    (hmin : (i : Int) < (s.P.opt o).min) :
    (finish ext s).err = some (.missingArg (s.P.opt o).usedAlias) := by
  simp [finish, he, hc, hmin]

/-! ## the values are kept, in order -/

theorem save_strs (lower : Bool) (o : Opt) (old args : List Str) (hk : o.kind = .strs) (hv : o.value = .ss old)
    (ha : args ≠ []) (hg : validGate o args = true) :
    save ext lower o args = .ok { o with value := .ss (old ++ args) } := by
  cases args with
  | nil => exact absurd rfl ha
  | cons a r => simp [save, hk, hv, hg]

theorem save_flts (lower : Bool) (o : Opt) (old args : List Str) (hk : o.kind = .flts) (hv : o.value = .fs old)
    (ha : args ≠ []) (hg : validGate o args = true) (hok : ∀ a ∈ args, ext.floatOk a = true) :
    save ext lower o args = .ok { o with value := .fs (old ++ args) } := by
  have hconv : ∀ l : List Str, (∀ a ∈ l, ext.floatOk a = true) → convFloatArgs ext o.usedAlias l = .ok l := by
    intro l
    induction l with
    | nil => intro _; rfl
    | cons a r ih =>
      intro h
      simp only [convFloatArgs, h a (by simp), ↓reduceIte]
      rw [ih (fun x hx => h x (by simp [hx]))]
      rfl
  cases args with
  | nil => exact absurd rfl ha
  | cons a r =>
    simp only [save, hg, Bool.not_true, Bool.false_eq_true, ↓reduceIte, hk, hv]
    rw [hconv (a :: r) hok]
    rfl

/-- a float element that does not convert is an error (in a mandatory or attached position) -/
theorem save_flts_bad (lower : Bool) (o : Opt) (old : List Str) (a : Str) (hk : o.kind = .flts) (hv : o.value = .fs old)
    (hg : validGate o [a] = true) (hbad : ext.floatOk a = false) :
    save ext lower o [a] = .error (.convFloat o.usedAlias a) := by
  simp [save, hk, hv, hg, convFloatArgs, hbad, bind, Except.bind]

theorem save_ints_one (lower : Bool) (o : Opt) (old : List Int) (a : Str) (hk : o.kind = .ints) (hv : o.value = .is old)
    (hg : validGate o [a] = true) :
    save ext lower o [a] =
      match convIntArg o.usedAlias a with
      | .ok l => .ok { o with value := .is (old ++ l) }
      | .error e => .error e := by
  simp only [save, hg, Bool.not_true, Bool.false_eq_true, ↓reduceIte, hk, hv, convIntArgs]
  cases convIntArg o.usedAlias a with
  | error e => rfl
  | ok l => simp [bind, Except.bind, pure, Except.pure]

/-- `a..b` with `a < b` expands to `a, a+1, …, b`: `b - a + 1` elements, the k-th being `a + k` -/
theorem intRange_spec (a c : Int) (h : a < c) :
    (intRange a c).length = (c - a).toNat + 1 ∧
    (∀ k, k < (intRange a c).length → (intRange a c)[k]? = some (a + k)) ∧
    (intRange a c).head? = some a ∧ (intRange a c).getLast? = some c := by
  unfold intRange
  refine ⟨by simp, ?_, ?_, ?_⟩
  · intro k hk
    simp at hk
    simp [List.getElem?_map, List.getElem?_range hk]
  · simp [List.head?_map, List.head?_range]
  · rw [List.getLast?_eq_getElem?]
    simp
    omega

theorem convIntArg_range (alias n1 n2 : Str) (i1 i2 : Int)
    (e : Str) (he : splitDotDot e = some (n1, n2)) (h1 : atoi n1 = some i1) (h2 : atoi n2 = some i2) :
    convIntArg alias e = if i1 < i2 then .ok (intRange i1 i2) else .error (.convInt alias e) := by
  simp [convIntArg, he, h1, h2]

/-! ## maps: key before the first `=`, value everything after it, last write wins -/

theorem lookup_insertKV_same {α} (k : Str) (v : α) (m : List (Str × α)) : lookup k (insertKV k v m) = some v := by
  induction m with
  | nil => simp [insertKV, lookup]
  | cons x r ih =>
    obtain ⟨k', v'⟩ := x
    by_cases h : (k' == k) = true
    · simp [insertKV, lookup, h]
    · simp [insertKV, lookup, h, ih]

theorem lookup_insertKV_other {α} (k k2 : Str) (v : α) (m : List (Str × α)) (hne : k ≠ k2) :
    lookup k2 (insertKV k v m) = lookup k2 m := by
  induction m with
  | nil =>
    have : (k == k2) = false := by simpa using hne
    simp [insertKV, lookup, this]
  | cons x r ih =>
    obtain ⟨k', v'⟩ := x
    by_cases h : (k' == k) = true
    · have hk : k' = k := by simpa using h
      have : (k == k2) = false := by simpa using hne
      simp [insertKV, lookup, h, hk, this]
    · by_cases h2 : (k' == k2) = true
      · simp [insertKV, lookup, h, h2]
      · simp [insertKV, lookup, h, h2, ih]

/-- splitting at the first `=`: `splitFirst '=' (k ++ '=' :: v) = (k, some v)` for `=`-free `k`;
`v` may contain further `=` -/
theorem splitFirst_eq (k v : Str) (hk : ∀ c ∈ k, c ≠ chEq) : splitFirst chEq (k ++ chEq :: v) = (k, some v) := by
  induction k with
  | nil => simp [splitFirst]
  | cons c r ih =>
    have hc : (c == chEq) = false := by simpa using hk c (by simp)
    simp [splitFirst, hc, ih (fun x hx => hk x (by simp [hx]))]

theorem splitFirst_none (e : Str) (h : ∀ c ∈ e, c ≠ chEq) : splitFirst chEq e = (e, none) := by
  induction e with
  | nil => simp [splitFirst]
  | cons c r ih =>
    have hc : (c == chEq) = false := by simpa using h c (by simp)
    simp [splitFirst, hc, ih (fun x hx => h x (by simp [hx]))]

/-- one `key=value` argument of a map option -/
theorem save_map_one (lower : Bool) (o : Opt) (old : List (Str × Str)) (k v : Str)
    (hk : o.kind = .map) (hv : o.value = .m old) (hg : validGate o [k ++ chEq :: v] = true)
    (hkey : ∀ c ∈ k, c ≠ chEq) :
    save ext lower o [k ++ chEq :: v] =
      .ok { o with value := .m (insertKV (if lower then ext.toLower k else k) v old) } := by
  simp [save, hk, hv, hg, saveMapArgs, splitFirst_eq k v hkey, bind, Except.bind, pure, Except.pure]

theorem save_map_bad (lower : Bool) (o : Opt) (old : List (Str × Str)) (e : Str)
    (hk : o.kind = .map) (hv : o.value = .m old) (hg : validGate o [e] = true) (hno : ∀ c ∈ e, c ≠ chEq) :
    save ext lower o [e] = .error (.notKeyValue o.usedAlias) := by
  simp [save, hk, hv, hg, saveMapArgs, splitFirst_none e hno, bind, Except.bind]

/-! ## definition-time validation of (min, max) -/

theorem minmax_definition (P : Prog) (n : Nat) (key : Str) (oid : Nat) (hkey : key ≠ [])
    (hfree : lookup key (P.node n).opts = none) (hrep : (P.opt oid).kind.isRepeat = true) :
    (∃ P', addChildOption P n key oid = .ok P') ↔
      ¬ ((P.opt oid).min ≤ 0 ∨ (P.opt oid).max ≤ 0 ∨ (P.opt oid).max < (P.opt oid).min) := by
  unfold addChildOption
  have h1 : key.isEmpty = false := by cases key <;> simp_all
  simp only [h1, hfree, Option.isSome_none, Bool.false_eq_true, ↓reduceIte, hrep, Bool.true_and]
  by_cases h : (decide ((P.opt oid).min ≤ 0) || decide ((P.opt oid).max ≤ 0) || decide ((P.opt oid).max < (P.opt oid).min)) = true
  · simp only [h, ↓reduceIte]
    simp at h
    constructor
    · rintro ⟨P', hP⟩; simp at hP
    · intro hn; exact absurd (by rcases h with (h | h) | h <;> simp [h]) hn
  · simp only [h]
    simp at h
    constructor
    · intro _; omega
    · intro _; exact ⟨_, rfl⟩

/-! Non-vacuity: greedy consumption stops at an option-looking token, values kept in order. -/
example : ((parseArgs Demo.ext .normal Demo.prog [b "--list", b "a", b "b", b "--verbose", b "--list=c", b "d", b "e", b "f"]).P.opt 2).value
          = .ss [b "a", b "b", b "c", b "d", b "e"] ∧
          (parseArgs Demo.ext .normal Demo.prog [b "--list", b "a", b "b", b "--verbose", b "--list=c", b "d", b "e", b "f"]).rem = [b "f"] := by
  decide

end GoModel

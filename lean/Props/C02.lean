import Props.C01
import Model.Define
import Lemmas.Collect
/-!
# C02 — multi-value options consume the right tokens and keep every value in order
-/
namespace GoModel

variable (ext : Ext) (mode : Mode)

/-! ## how many tokens an occurrence takes -/

/-- Beyond the minimum an occurrence takes the next token exactly when it does not look like an
option, is not `--`, and is well-formed for the element type; otherwise the occurrence is closed and
the token is interpreted normally. -/
theorem offer_greedy_consumes_iff (s : PState) (o i : Nat) (t : Str) (hmin : ¬ (i : Int) < (s.P.opt o).min) :
    (offer ext mode s o i t).2 = true ↔
      (looksLikeOption t mode = false ∧ t ≠ dashdash ∧ typeOk ext (s.P.opt o).kind t = true) := by
  unfold offer
  simp only [hmin, ↓reduceIte]
  by_cases h : (looksLikeOption t mode || t == dashdash || !typeOk ext (s.P.opt o).kind t) = true
  · simp only [h, ↓reduceIte]
    simp at h
    constructor
    · intro hh; simp at hh
    · rintro ⟨h1, h2, h3⟩
      rcases h with (h | h) | h
      · simp [h1] at h
      · exact absurd h h2
      · simp [h3] at h
  · have hf : (looksLikeOption t mode || t == dashdash || !typeOk ext (s.P.opt o).kind t) = false := by
      cases hx : (looksLikeOption t mode || t == dashdash || !typeOk ext (s.P.opt o).kind t) with
      | false => rfl
      | true => exact absurd hx h
    simp only [hf, Bool.false_eq_true, ↓reduceIte]
    simp at hf
    obtain ⟨⟨h1, h2⟩, h3⟩ := hf
    constructor
    · intro _; exact ⟨h1, h2, h3⟩
    · intro _; split <;> rfl

/-- the lookahead per element type (api.go greedy loop) -/
theorem typeOk_spec (k : Kind) (t : Str) :
    typeOk ext k t =
      match k with
      | .ints => (atoi t).isSome
      | .flts => ext.floatOk t
      | .map => containsByte t chEq
      | _ => true := by
  cases k <;> rfl

/-- an occurrence never holds more than `max` arguments: it stays open only below `max` -/
theorem offer_below_max (s : PState) (o i : Nat) (t : Str) (i' : Nat)
    (h : (offer ext mode s o i t).1.ctx = .collecting o i') (hs : s.ctx = .collecting o i) (hi : (i : Int) < (s.P.opt o).max)
    (hmax : ∀ o', save ext (s.P.node 0).mapKeysToLower (s.P.opt o) [t] = .ok o' → o'.max = (s.P.opt o).max) :
    (i' : Int) < (s.P.opt o).max := by
  unfold offer at h
  simp only at h
  split at h
  · split at h
    · simp only [hs, Ctx.collecting.injEq] at h; rw [← h.2]; exact hi
    · split at h
      · simp only [hs, Ctx.collecting.injEq] at h; rw [← h.2]; exact hi
      · rename_i o' hsv
        simp only at h
        split at h
        · rename_i hlt; simp only [Ctx.collecting.injEq] at h; rw [← h.2, ← hmax o' hsv]; exact hlt
        · simp at h
  · split at h
    · simp at h
    · split at h
      · simp only [hs, Ctx.collecting.injEq] at h; rw [← h.2]; exact hi
      · rename_i o' hsv
        simp only at h
        split at h
        · rename_i hlt; simp only [Ctx.collecting.injEq] at h; rw [← h.2, ← hmax o' hsv]; exact hlt
        · simp at h

/-- too few arguments at the end of the input is always an error, never a silently short list -/
theorem finish_missing (s : PState) (o i : Nat) (he : s.err = none) (hc : s.ctx = .collecting o i)
    (hmin : (i : Int) < (s.P.opt o).min) :
    (finish ext s).err = some (.missingArg (s.P.opt o).usedAlias) := by
  simp [finish, he, hc, hmin]

/-! ## the values are kept, in order -/

theorem save_strs (lower : Bool) (o : Opt) (old args : List Str) (hk : o.kind = .strs) (hv : o.value = .ss old)
    (ha : args ≠ []) (hg : validGate o args = true) :
    save ext lower o args = .ok { o with value := .ss (old ++ args) } := by
  cases args with
  | nil => exact absurd rfl ha
  | cons a r => simp [save, hk, hv, hg]

theorem save_flts (lower : Bool) (o : Opt) (old args : List Str) (hk : o.kind = .flts) (hv : o.value = .fs old)
    (ha : args ≠ []) (hg : validGate o args = true) (hok : ∀ a ∈ args, ext.floatOk a = true) :
    save ext lower o args = .ok { o with value := .fs (old ++ args) } := by
  have hconv : ∀ l : List Str, (∀ a ∈ l, ext.floatOk a = true) → convFloatArgs ext o.usedAlias l = .ok l := by
    intro l
    induction l with
    | nil => intro _; rfl
    | cons a r ih =>
      intro h
      simp only [convFloatArgs, h a (by simp), ↓reduceIte]
      rw [ih (fun x hx => h x (by simp [hx]))]
      rfl
  cases args with
  | nil => exact absurd rfl ha
  | cons a r =>
    simp only [save, hg, Bool.not_true, Bool.false_eq_true, ↓reduceIte, hk, hv]
    rw [hconv (a :: r) hok]
    rfl

/-- a float element that does not convert is an error (in a mandatory or attached position) -/
theorem save_flts_bad (lower : Bool) (o : Opt) (old : List Str) (a : Str) (hk : o.kind = .flts) (hv : o.value = .fs old)
    (hg : validGate o [a] = true) (hbad : ext.floatOk a = false) :
    save ext lower o [a] = .error (.convFloat o.usedAlias a) := by
  simp [save, hk, hv, hg, convFloatArgs, hbad, bind, Except.bind]

theorem save_ints_one (lower : Bool) (o : Opt) (old : List Int) (a : Str) (hk : o.kind = .ints) (hv : o.value = .is old)
    (hg : validGate o [a] = true) :
    save ext lower o [a] =
      match convIntArg o.usedAlias a with
      | .ok l => .ok { o with value := .is (old ++ l) }
      | .error e => .error e := by
  simp only [save, hg, Bool.not_true, Bool.false_eq_true, ↓reduceIte, hk, hv, convIntArgs]
  cases convIntArg o.usedAlias a with
  | error e => rfl
  | ok l => simp [bind, Except.bind, pure, Except.pure]

/-- `a..b` with `a < b` expands to `a, a+1, …, b`: `b - a + 1` elements, the k-th being `a + k` -/
theorem intRange_spec (a c : Int) (h : a < c) :
    (intRange a c).length = (c - a).toNat + 1 ∧
    (∀ k, k < (intRange a c).length → (intRange a c)[k]? = some (a + k)) ∧
    (intRange a c).head? = some a ∧ (intRange a c).getLast? = some c := by
  unfold intRange
  refine ⟨by simp, ?_, ?_, ?_⟩
  · intro k hk
    simp at hk
    simp [List.getElem?_map, List.getElem?_range hk]
  · simp [List.head?_map, List.head?_range]
  · rw [List.getLast?_eq_getElem?]
    simp
    omega

theorem convIntArg_range (alias n1 n2 : Str) (i1 i2 : Int)
    (e : Str) (he : splitDotDot e = some (n1, n2)) (h1 : atoi n1 = some i1) (h2 : atoi n2 = some i2) :
    convIntArg alias e = if i1 < i2 then .ok (intRange i1 i2) else .error (.convInt alias e) := by
  simp [convIntArg, he, h1, h2]

/-! ## maps: key before the first `=`, value everything after it, last write wins -/

theorem lookup_insertKV_same {α} (k : Str) (v : α) (m : List (Str × α)) : lookup k (insertKV k v m) = some v := by
  induction m with
  | nil => simp [insertKV, lookup]
  | cons x r ih =>
    obtain ⟨k', v'⟩ := x
    by_cases h : (k' == k) = true
    · simp [insertKV, lookup, h]
    · simp [insertKV, lookup, h, ih]

theorem lookup_insertKV_other {α} (k k2 : Str) (v : α) (m : List (Str × α)) (hne : k ≠ k2) :
    lookup k2 (insertKV k v m) = lookup k2 m := by
  induction m with
  | nil =>
    have : (k == k2) = false := by simpa using hne
    simp [insertKV, lookup, this]
  | cons x r ih =>
    obtain ⟨k', v'⟩ := x
    by_cases h : (k' == k) = true
    · have hk : k' = k := by simpa using h
      have : (k == k2) = false := by simpa using hne
      simp [insertKV, lookup, h, hk, this]
    · by_cases h2 : (k' == k2) = true
      · simp [insertKV, lookup, h, h2]
      · simp [insertKV, lookup, h, h2, ih]

/-- splitting at the first `=`: `splitFirst '=' (k ++ '=' :: v) = (k, some v)` for `=`-free `k`;
`v` may contain further `=` -/
theorem splitFirst_eq (k v : Str) (hk : ∀ c ∈ k, c ≠ chEq) : splitFirst chEq (k ++ chEq :: v) = (k, some v) := by
  induction k with
  | nil => simp [splitFirst]
  | cons c r ih =>
    have hc : (c == chEq) = false := by simpa using hk c (by simp)
    simp [splitFirst, hc, ih (fun x hx => hk x (by simp [hx]))]

theorem splitFirst_none (e : Str) (h : ∀ c ∈ e, c ≠ chEq) : splitFirst chEq e = (e, none) := by
  induction e with
  | nil => simp [splitFirst]
  | cons c r ih =>
    have hc : (c == chEq) = false := by simpa using h c (by simp)
    simp [splitFirst, hc, ih (fun x hx => h x (by simp [hx]))]

/-- one `key=value` argument of a map option -/
theorem save_map_one (lower : Bool) (o : Opt) (old : List (Str × Str)) (k v : Str)
    (hk : o.kind = .map) (hv : o.value = .m old) (hg : validGate o [k ++ chEq :: v] = true)
    (hkey : ∀ c ∈ k, c ≠ chEq) :
    save ext lower o [k ++ chEq :: v] =
      .ok { o with value := .m (insertKV (if lower then ext.toLower k else k) v old) } := by
  simp [save, hk, hv, hg, saveMapArgs, splitFirst_eq k v hkey, bind, Except.bind, pure, Except.pure]

theorem save_map_bad (lower : Bool) (o : Opt) (old : List (Str × Str)) (e : Str)
    (hk : o.kind = .map) (hv : o.value = .m old) (hg : validGate o [e] = true) (hno : ∀ c ∈ e, c ≠ chEq) :
    save ext lower o [e] = .error (.notKeyValue o.usedAlias) := by
  simp [save, hk, hv, hg, saveMapArgs, splitFirst_none e hno, bind, Except.bind]

/-! ## definition-time validation of (min, max) -/

theorem minmax_definition (P : Prog) (n : Nat) (key : Str) (oid : Nat) (hkey : key ≠ [])
    (hfree : lookup key (P.node n).opts = none) (hrep : (P.opt oid).kind.isRepeat = true) :
    (∃ P', addChildOption P n key oid = .ok P') ↔
      ¬ ((P.opt oid).min ≤ 0 ∨ (P.opt oid).max ≤ 0 ∨ (P.opt oid).max < (P.opt oid).min) := by
  unfold addChildOption
  have h1 : key.isEmpty = false := by cases key <;> simp_all
  simp only [h1, hfree, Option.isSome_none, Bool.false_eq_true, ↓reduceIte, hrep, Bool.true_and]
  by_cases h : (decide ((P.opt oid).min ≤ 0) || decide ((P.opt oid).max ≤ 0) || decide ((P.opt oid).max < (P.opt oid).min)) = true
  · simp only [h, ↓reduceIte]
    simp at h
    constructor
    · rintro ⟨P', hP⟩; simp at hP
    · intro hn; exact absurd (by rcases h with (h | h) | h <;> simp [h]) hn
  · simp only [h]
    simp at h
    constructor
    · intro _; omega
    · intro _; exact ⟨_, rfl⟩

/-! ## whole command line: the values of an occurrence, in order -/

/-- `Save` of a string slice appends -/
theorem saveAll_strs (lower : Bool) (vs : List Str) (o : Opt) (old : List Str)
    (hk : o.kind = .strs) (hv : o.value = .ss old) (hg : o.validValues = []) :
    saveAll ext lower o vs = .ok { o with value := .ss (old ++ vs) } := by
  induction vs generalizing o old with
  | nil => simp [saveAll, ← hv]
  | cons v r ih =>
    have h1 : save ext lower o [v] = .ok { o with value := .ss (old ++ [v]) } := by
      simp [save, validGate, hg, hk, hv]
    simp only [saveAll, h1]
    rw [ih { o with value := .ss (old ++ [v]) } (old ++ [v]) hk rfl hg]
    simp

/-- `Save` of a float slice, one value after another, appends the texts that convert -/
theorem saveAll_flts (lower : Bool) (vs : List Str) (o : Opt) (old : List Str)
    (hk : o.kind = .flts) (hv : o.value = .fs old) (hg : o.validValues = [])
    (hok : ∀ v ∈ vs, ext.floatOk v = true) :
    saveAll ext lower o vs = .ok { o with value := .fs (old ++ vs) } := by
  induction vs generalizing o old with
  | nil => simp [saveAll, ← hv]
  | cons v r ih =>
    have h1 : save ext lower o [v] = .ok { o with value := .fs (old ++ [v]) } :=
      save_flts ext lower o old [v] hk hv (by simp) (by simp [validGate, hg]) (fun a ha => by
        have : a = v := by simpa using ha
        subst this; exact hok a (by simp))
    simp only [saveAll, h1]
    rw [ih { o with value := .fs (old ++ [v]) } (old ++ [v]) hk rfl hg (fun a ha => hok a (by simp [ha]))]
    simp

/-- the numbers an int-slice occurrence contributes: each value is a number or an ascending range -/
def intsOf : List Str → Option (List Int)
  | [] => some []
  | v :: r =>
    match convIntArg [] v, intsOf r with
    | .ok l, some rest => some (l ++ rest)
    | _, _ => none

theorem convIntArg_ok_alias (u u' e : Str) (l : List Int) (h : convIntArg u e = .ok l) : convIntArg u' e = .ok l := by
  unfold convIntArg at h ⊢
  split
  · rename_i n1 n2 hsp
    rw [hsp] at h
    simp only at h
    split
    · rename_i i1 i2 h1 h2
      rw [h1, h2] at h
      simp only at h
      split
      · rename_i hlt; simp only [hlt, ↓reduceIte] at h; exact h
      · rename_i hlt; simp only [hlt, ↓reduceIte] at h; cases h
    · rename_i hnot
      split at h
      · rename_i i1 i2 h1 h2; exact (hnot i1 i2 h1 h2).elim
      · cases h
  · rename_i hsp
    rw [hsp] at h
    simp only at h
    split
    · rename_i i hi; rw [hi] at h; exact h
    · rename_i hi; rw [hi] at h; cases h

/-- `Save` of an int slice, one value after another, appends the numbers and expanded ranges in order -/
theorem saveAll_ints (lower : Bool) (vs : List Str) (o : Opt) (old nums : List Int)
    (hk : o.kind = .ints) (hv : o.value = .is old) (hg : o.validValues = [])
    (hn : intsOf vs = some nums) :
    saveAll ext lower o vs = .ok { o with value := .is (old ++ nums) } := by
  induction vs generalizing o old nums with
  | nil => simp only [intsOf, Option.some.injEq] at hn; subst hn; simp [saveAll, ← hv]
  | cons v r ih =>
    simp only [intsOf] at hn
    cases hc : convIntArg [] v with
    | error e => rw [hc] at hn; simp at hn
    | ok l =>
      cases hr : intsOf r with
      | none => rw [hc, hr] at hn; simp at hn
      | some rest =>
        rw [hc, hr] at hn
        simp only [Option.some.injEq] at hn
        subst hn
        have h1 : save ext lower o [v] = .ok { o with value := .is (old ++ l) } := by
          rw [save_ints_one ext lower o old v hk hv (by simp [validGate, hg]),
            convIntArg_ok_alias [] o.usedAlias v l hc]
        simp only [saveAll, h1]
        rw [ih { o with value := .is (old ++ l) } (old ++ l) rest hk rfl hg hr]
        simp

/-- `Save` of a map, one `key=value` after another, is the fold of the whole list: later keys overwrite earlier
ones, keys are lower-cased when the flag says so -/
theorem saveAll_map (lower : Bool) (vs : List Str) (o : Opt) (old m' : List (Str × Str))
    (hk : o.kind = .map) (hv : o.value = .m old) (hg : o.validValues = [])
    (hm : saveMapArgs ext lower o.usedAlias old vs = .ok m') :
    saveAll ext lower o vs = .ok { o with value := .m m' } := by
  induction vs generalizing o old with
  | nil => simp only [saveMapArgs, Except.ok.injEq] at hm; subst hm; simp [saveAll, ← hv]
  | cons e r ih =>
    simp only [saveMapArgs] at hm
    split at hm
    · rename_i k v hsp
      have h1 : save ext lower o [e] =
          .ok { o with value := .m (insertKV (if lower then ext.toLower k else k) v old) } := by
        simp [save, hk, hv, validGate, hg, saveMapArgs, hsp, bind, Except.bind, pure, Except.pure]
      simp only [saveAll, h1]
      rw [ih { o with value := .m (insertKV (if lower then ext.toLower k else k) v old) } _ hk rfl hg hm]
    · cases hm

example : intsOf [b "1", b "3..5", b "-2"] = some [1, 3, 4, 5, -2] := by decide


/-- **The values of one occurrence reach the option in command-line order, whatever surrounds it.**
`argv = pre ++ ["--name", v₁, …, vₖ] ++ post`: the parser is at a head position after `pre`; `name` resolves
(exactly, by alias or unique abbreviation) to the slice or map option `oid`; `min ≤ k ≤ max`; every `vᵢ` is
acceptable to the occurrence (not option-looking; beyond the minimum also not `--` and well-formed for the
element type); the occurrence ends where the property says it does — at its maximum, at the end of the command
line, or at a token that looks like an option or is `--`; and `post` does not mention the option.  Then after
the **whole** parse the option record is exactly the one obtained by saving `v₁ … vₖ`, one after another, onto
what `pre` had left (`saveAll`): earlier occurrences' values first, then these, nothing lost, reordered or taken
from `post`. -/
theorem occurrence_values_in_order (P : Prog) (pre post vs : List Str) (name key : Str) (oid : Nat) (o' : Opt)
    (he : (run ext mode P pre).err = none) (hc : (run ext mode P pre).ctx = .idle)
    (hn : name ≠ []) (hne : ∀ c ∈ name, c ≠ chEq)
    (hr : resolve (P.node (run ext mode P pre).cur) name = [key])
    (hl : lookup key (P.node (run ext mode P pre).cur).opts = some oid)
    (hoid : oid < P.opts.length)
    (hkind : (P.opt oid).kind ≠ .bool) (hkind2 : (P.opt oid).kind ≠ .incr)
    (hvs : vs ≠ [])
    (hroom : (vs.length : Int) ≤ (P.opt oid).max) (hmin : (P.opt oid).min ≤ vs.length)
    (hacc : AllAcceptable ext mode (P.opt oid) 0 vs)
    (hs : saveAll ext (P.node 0).mapKeysToLower (matched (run ext mode P pre) oid key) vs = .ok o')
    (hend : (vs.length : Int) = (P.opt oid).max ∨ post = [] ∨
      ∃ t rest, post = t :: rest ∧ (looksLikeOption t mode = true ∨ t = dashdash))
    (hpost : ¬ Mentioned mode P post oid) :
    (parseArgs ext mode P (pre ++ (chDash :: chDash :: name) :: (vs ++ post))).P.opt oid = o' := by
  have hsh := run_shape ext mode P pre
  have hst := run_static_eq ext mode P pre oid
  unfold parseArgs
  rw [run_append]
  simp only [List.foldl_cons, List.foldl_append]
  generalize run ext mode P pre = s at he hc hr hl hs hsh hst
  rw [← hsh.1] at hr hl hs
  have hoid' : oid < s.P.opts.length := by rw [hsh.2]; exact hoid
  -- the option token opens the occurrence
  have hopt : isOption (chDash :: chDash :: name) mode = ([⟨name, []⟩], true) := long_bare name mode hn hne
  have hne2 : chDash :: chDash :: name ≠ dashdash := by
    have := long_token_ne_dashdash name [] hn; simpa using this
  have hk1 : (s.P.opt oid).kind ≠ .bool := by rw [static_kind hst]; exact hkind
  have hk2 : (s.P.opt oid).kind ≠ .incr := by rw [static_kind hst]; exact hkind2
  have hsv : save ext (s.P.node 0).mapKeysToLower (matched s oid key) [] = .ok (matched s oid key) :=
    save_none_other ext _ _ (by simpa [matched] using hk1) (by simpa [matched] using hk2)
  have hmaxs : (s.P.opt oid).max = (P.opt oid).max := static_max hst
  have hmins : (s.P.opt oid).min = (P.opt oid).min := static_min hst
  have hlenpos : 0 < vs.length := by cases vs with | nil => exact absurd rfl hvs | cons _ _ => simp
  have hopen : ((([] : List Str).length : Nat) : Int) < (matched s oid key).max := by
    simp only [matched, List.length_nil, hmaxs]; omega
  rw [step_head_option ext mode s _ [⟨name, []⟩] he hc hne2 hopt,
    drain_single_open ext (headState s (chDash :: chDash :: name)) ⟨name, []⟩ key oid (matched s oid key) he hr hl hsv hopen]
  -- the values are collected
  have hP : (headState s (chDash :: chDash :: name)).P = s.P := rfl
  simp only [hP, List.length_nil]
  have hget : (s.P.setOpt oid (matched s oid key)).opt oid = matched s oid key := opt_setOpt_same s.P oid _ hoid'
  have hmst : (matched s oid key).static = (P.opt oid).static := hst
  have hcol := collect ext mode vs
    { headState s (chDash :: chDash :: name) with P := s.P.setOpt oid (matched s oid key), ctx := .collecting oid 0, pending := [] }
    oid 0 o' he rfl rfl (by simpa [Prog.setOpt] using hoid')
    (by show ((0 + vs.length : Nat) : Int) ≤ ((s.P.setOpt oid (matched s oid key)).opt oid).max
        rw [hget, static_max hmst]; simpa using hroom)
    hvs
    (by show AllAcceptable ext mode ((s.P.setOpt oid (matched s oid key)).opt oid) 0 vs
        rw [hget, allAcceptable_congr ext mode hmst]; exact hacc)
    (by show saveAll ext ((s.P.setOpt oid (matched s oid key)).node 0).mapKeysToLower
          ((s.P.setOpt oid (matched s oid key)).opt oid) vs = .ok o'
        rw [hget]; exact hs)
  rw [hcol]
  have hso : o'.static = (P.opt oid).static := (saveAll_static ext _ vs _ o' hs).trans hmst
  -- what follows cannot touch the option any more
  have hPfin : ∀ c, ((collected
      { headState s (chDash :: chDash :: name) with P := s.P.setOpt oid (matched s oid key), ctx := .collecting oid 0, pending := [] }
      oid 0 vs o').P.opt oid = o') ∧
      (∀ n, ({ collected
      { headState s (chDash :: chDash :: name) with P := s.P.setOpt oid (matched s oid key), ctx := .collecting oid 0, pending := [] }
      oid 0 vs o' with ctx := c }).P.node n = P.node n) := by
    intro c
    refine ⟨?_, fun n => ?_⟩
    · simp only [collected]
      exact opt_setOpt_same _ oid o' (by simpa [Prog.setOpt] using hoid')
    · simp only [collected]; exact hsh.1 n
  generalize hS : collected
      { headState s (chDash :: chDash :: name) with P := s.P.setOpt oid (matched s oid key), ctx := .collecting oid 0, pending := [] }
      oid 0 vs o' = S at hPfin
  have hSctx : S.ctx = if ((0 + vs.length : Nat) : Int) < o'.max then .collecting oid (0 + vs.length) else .idle := by
    rw [← hS]; rfl
  have hSpend : S.pending = [] := by rw [← hS]; rfl
  have hSerr : S.err = none := by rw [← hS]; exact he
  have hSopt : S.P.opt oid = o' := (hPfin .idle).1
  have hSnodes : ∀ n, S.P.node n = P.node n := (hPfin S.ctx).2
  have hidle : ∀ (post : List Str), ¬ Mentioned mode P post oid →
      (finish ext (post.foldl (step ext mode) { S with ctx := .idle })).P.opt oid = o' := by
    intro post hnm
    have := later_unmentioned_keeps ext mode { S with ctx := .idle } post oid
      (by rw [mentioned_congr mode (P' := S.P) (P := P) hSnodes]; exact hnm) hSpend
      (fun o i h => by cases h)
    rw [this]; exact hSopt
  by_cases hfull : ((0 + vs.length : Nat) : Int) < o'.max
  · -- the occurrence is still open: it ends by the end of the command line or by a refused token
    simp only [hfull, ↓reduceIte] at hSctx
    have hmax' : o'.max = (P.opt oid).max := static_max hso
    have hmin' : ¬ ((0 + vs.length : Nat) : Int) < (S.P.opt oid).min := by
      rw [hSopt, static_min hso]; simp only [Nat.zero_add]; omega
    rcases hend with h | h | ⟨t, rest, h, hr⟩
    · rw [hmax'] at hfull; simp only [Nat.zero_add] at hfull; omega
    · subst h
      simp only [List.foldl_nil]
      unfold finish
      simp only [hSerr, hSctx, hmin', Option.isSome_none, Bool.false_eq_true, ↓reduceIte, hSpend, finishDrain]
      exact hSopt
    · subst h
      simp only [List.foldl_cons]
      rw [refused_as_idle ext mode S oid (0 + vs.length) t hSerr hSctx hSpend hmin' hr]
      exact hidle (t :: rest) hpost
  · simp only [hfull, ↓reduceIte] at hSctx
    have : S = { S with ctx := .idle } := by cases S; simp_all
    rw [this]
    exact hidle post hpost

/-- **The same for any spelling of the option token**: `t` is whatever the splitter reads, in the mode at hand, as the
single pair `(name, no attached value)` — `--name`, `-n` in any of the three modes, an alias, a unique abbreviation.
(With `bundling_rewrite_parse` of C07 this also covers a value-taking letter at the end of a bundle: `-abn v₁ v₂` is
`-a -b -n v₁ v₂`.) -/
theorem occurrence_values_in_order_tok (P : Prog) (pre post vs : List Str) (t name key : Str) (oid : Nat) (o' : Opt)
    (he : (run ext mode P pre).err = none) (hc : (run ext mode P pre).ctx = .idle)
    (hopt : isOption t mode = ([⟨name, []⟩], true))
    (hr : resolve (P.node (run ext mode P pre).cur) name = [key])
    (hl : lookup key (P.node (run ext mode P pre).cur).opts = some oid)
    (hoid : oid < P.opts.length)
    (hkind : (P.opt oid).kind ≠ .bool) (hkind2 : (P.opt oid).kind ≠ .incr)
    (hvs : vs ≠ [])
    (hroom : (vs.length : Int) ≤ (P.opt oid).max) (hmin : (P.opt oid).min ≤ vs.length)
    (hacc : AllAcceptable ext mode (P.opt oid) 0 vs)
    (hs : saveAll ext (P.node 0).mapKeysToLower (matched (run ext mode P pre) oid key) vs = .ok o')
    (hend : (vs.length : Int) = (P.opt oid).max ∨ post = [] ∨
      ∃ t rest, post = t :: rest ∧ (looksLikeOption t mode = true ∨ t = dashdash))
    (hpost : ¬ Mentioned mode P post oid) :
    (parseArgs ext mode P (pre ++ t :: (vs ++ post))).P.opt oid = o' := by
  have hsh := run_shape ext mode P pre
  have hst := run_static_eq ext mode P pre oid
  unfold parseArgs
  rw [run_append]
  simp only [List.foldl_cons, List.foldl_append]
  generalize run ext mode P pre = s at he hc hr hl hs hsh hst
  rw [← hsh.1] at hr hl hs
  have hoid' : oid < s.P.opts.length := by rw [hsh.2]; exact hoid
  -- the option token opens the occurrence
  have hne2 : t ≠ dashdash := isOption_true_ne_dashdash mode t _ hopt
  have hk1 : (s.P.opt oid).kind ≠ .bool := by rw [static_kind hst]; exact hkind
  have hk2 : (s.P.opt oid).kind ≠ .incr := by rw [static_kind hst]; exact hkind2
  have hsv : save ext (s.P.node 0).mapKeysToLower (matched s oid key) [] = .ok (matched s oid key) :=
    save_none_other ext _ _ (by simpa [matched] using hk1) (by simpa [matched] using hk2)
  have hmaxs : (s.P.opt oid).max = (P.opt oid).max := static_max hst
  have hmins : (s.P.opt oid).min = (P.opt oid).min := static_min hst
  have hlenpos : 0 < vs.length := by cases vs with | nil => exact absurd rfl hvs | cons _ _ => simp
  have hopen : ((([] : List Str).length : Nat) : Int) < (matched s oid key).max := by
    simp only [matched, List.length_nil, hmaxs]; omega
  rw [step_head_option ext mode s _ [⟨name, []⟩] he hc hne2 hopt,
    drain_single_open ext (headState s t) ⟨name, []⟩ key oid (matched s oid key) he hr hl hsv hopen]
  -- the values are collected
  have hP : (headState s t).P = s.P := rfl
  simp only [hP, List.length_nil]
  have hget : (s.P.setOpt oid (matched s oid key)).opt oid = matched s oid key := opt_setOpt_same s.P oid _ hoid'
  have hmst : (matched s oid key).static = (P.opt oid).static := hst
  have hcol := collect ext mode vs
    { headState s t with P := s.P.setOpt oid (matched s oid key), ctx := .collecting oid 0, pending := [] }
    oid 0 o' he rfl rfl (by simpa [Prog.setOpt] using hoid')
    (by show ((0 + vs.length : Nat) : Int) ≤ ((s.P.setOpt oid (matched s oid key)).opt oid).max
        rw [hget, static_max hmst]; simpa using hroom)
    hvs
    (by show AllAcceptable ext mode ((s.P.setOpt oid (matched s oid key)).opt oid) 0 vs
        rw [hget, allAcceptable_congr ext mode hmst]; exact hacc)
    (by show saveAll ext ((s.P.setOpt oid (matched s oid key)).node 0).mapKeysToLower
          ((s.P.setOpt oid (matched s oid key)).opt oid) vs = .ok o'
        rw [hget]; exact hs)
  rw [hcol]
  have hso : o'.static = (P.opt oid).static := (saveAll_static ext _ vs _ o' hs).trans hmst
  -- what follows cannot touch the option any more
  have hPfin : ∀ c, ((collected
      { headState s t with P := s.P.setOpt oid (matched s oid key), ctx := .collecting oid 0, pending := [] }
      oid 0 vs o').P.opt oid = o') ∧
      (∀ n, ({ collected
      { headState s t with P := s.P.setOpt oid (matched s oid key), ctx := .collecting oid 0, pending := [] }
      oid 0 vs o' with ctx := c }).P.node n = P.node n) := by
    intro c
    refine ⟨?_, fun n => ?_⟩
    · simp only [collected]
      exact opt_setOpt_same _ oid o' (by simpa [Prog.setOpt] using hoid')
    · simp only [collected]; exact hsh.1 n
  generalize hS : collected
      { headState s t with P := s.P.setOpt oid (matched s oid key), ctx := .collecting oid 0, pending := [] }
      oid 0 vs o' = S at hPfin
  have hSctx : S.ctx = if ((0 + vs.length : Nat) : Int) < o'.max then .collecting oid (0 + vs.length) else .idle := by
    rw [← hS]; rfl
  have hSpend : S.pending = [] := by rw [← hS]; rfl
  have hSerr : S.err = none := by rw [← hS]; exact he
  have hSopt : S.P.opt oid = o' := (hPfin .idle).1
  have hSnodes : ∀ n, S.P.node n = P.node n := (hPfin S.ctx).2
  have hidle : ∀ (post : List Str), ¬ Mentioned mode P post oid →
      (finish ext (post.foldl (step ext mode) { S with ctx := .idle })).P.opt oid = o' := by
    intro post hnm
    have := later_unmentioned_keeps ext mode { S with ctx := .idle } post oid
      (by rw [mentioned_congr mode (P' := S.P) (P := P) hSnodes]; exact hnm) hSpend
      (fun o i h => by cases h)
    rw [this]; exact hSopt
  by_cases hfull : ((0 + vs.length : Nat) : Int) < o'.max
  · -- the occurrence is still open: it ends by the end of the command line or by a refused token
    simp only [hfull, ↓reduceIte] at hSctx
    have hmax' : o'.max = (P.opt oid).max := static_max hso
    have hmin' : ¬ ((0 + vs.length : Nat) : Int) < (S.P.opt oid).min := by
      rw [hSopt, static_min hso]; simp only [Nat.zero_add]; omega
    rcases hend with h | h | ⟨t, rest, h, hr⟩
    · rw [hmax'] at hfull; simp only [Nat.zero_add] at hfull; omega
    · subst h
      simp only [List.foldl_nil]
      unfold finish
      simp only [hSerr, hSctx, hmin', Option.isSome_none, Bool.false_eq_true, ↓reduceIte, hSpend, finishDrain]
      exact hSopt
    · subst h
      simp only [List.foldl_cons]
      rw [refused_as_idle ext mode S oid (0 + vs.length) t hSerr hSctx hSpend hmin' hr]
      exact hidle (t :: rest) hpost
  · simp only [hfull, ↓reduceIte] at hSctx
    have : S = { S with ctx := .idle } := by cases S; simp_all
    rw [this]
    exact hidle post hpost



/-- **The same for an occurrence whose first value is attached** (`--name=v₀ v₁ … vₖ`): the attached value is saved
first (`o1`), the detached ones follow while they are acceptable, and after the whole parse the record is `saveAll`
of `v₁ … vₖ` onto `o1` — i.e. `saveAll` of `v₀, v₁ … vₖ` onto what `pre` had left. -/
theorem occurrence_values_in_order_attached (P : Prog) (pre post vs : List Str) (name key v0 : Str) (oid : Nat) (o1 o' : Opt)
    (he : (run ext mode P pre).err = none) (hc : (run ext mode P pre).ctx = .idle)
    (hn : name ≠ []) (hne : ∀ c ∈ name, c ≠ chEq) (hv0 : v0 ≠ [])
    (hr : resolve (P.node (run ext mode P pre).cur) name = [key])
    (hl : lookup key (P.node (run ext mode P pre).cur).opts = some oid)
    (hoid : oid < P.opts.length)
        (hvs : vs ≠ [])
    (hroom : (1 + vs.length : Int) ≤ (P.opt oid).max) (hmin : (P.opt oid).min ≤ 1 + vs.length)
    (hacc : AllAcceptable ext mode (P.opt oid) 1 vs)
    (hs0 : save ext (P.node 0).mapKeysToLower (matched (run ext mode P pre) oid key) [v0] = .ok o1)
    (hs : saveAll ext (P.node 0).mapKeysToLower o1 vs = .ok o')
    (hend : (1 + vs.length : Int) = (P.opt oid).max ∨ post = [] ∨
      ∃ t rest, post = t :: rest ∧ (looksLikeOption t mode = true ∨ t = dashdash))
    (hpost : ¬ Mentioned mode P post oid) :
    (parseArgs ext mode P (pre ++ (chDash :: chDash :: (name ++ chEq :: v0)) :: (vs ++ post))).P.opt oid = o' := by
  have hsh := run_shape ext mode P pre
  have hst := run_static_eq ext mode P pre oid
  unfold parseArgs
  rw [run_append]
  simp only [List.foldl_cons, List.foldl_append]
  generalize run ext mode P pre = s at he hc hr hl hs0 hsh hst
  rw [← hsh.1] at hr hl hs0 hs
  have hoid' : oid < s.P.opts.length := by rw [hsh.2]; exact hoid
  -- the option token opens the occurrence
  have hopt : isOption (chDash :: chDash :: (name ++ chEq :: v0)) mode = ([⟨name, [v0]⟩], true) :=
    long_attached name v0 mode hn hne hv0
  have hne2 : chDash :: chDash :: (name ++ chEq :: v0) ≠ dashdash := long_token_ne_dashdash name (chEq :: v0) hn
  have hst1 : o1.static = (P.opt oid).static := (save_static ext _ _ _ _ hs0).trans hst
  have hmaxs : (s.P.opt oid).max = (P.opt oid).max := static_max hst
  have hmins : (s.P.opt oid).min = (P.opt oid).min := static_min hst
  have hlenpos : 0 < vs.length := by cases vs with | nil => exact absurd rfl hvs | cons _ _ => simp
  have hopen : ((([v0] : List Str).length : Nat) : Int) < o1.max := by
    simp only [List.length_singleton, static_max hst1]; omega
  rw [step_head_option ext mode s _ [⟨name, [v0]⟩] he hc hne2 hopt,
    drain_single_open ext (headState s (chDash :: chDash :: (name ++ chEq :: v0))) ⟨name, [v0]⟩ key oid o1 he hr hl hs0 hopen]
  -- the values are collected
  have hP : (headState s (chDash :: chDash :: (name ++ chEq :: v0))).P = s.P := rfl
  simp only [hP, List.length_singleton]
  have hget : (s.P.setOpt oid o1).opt oid = o1 := opt_setOpt_same s.P oid _ hoid'
  have hmst : o1.static = (P.opt oid).static := hst1
  have hcol := collect ext mode vs
    { headState s (chDash :: chDash :: (name ++ chEq :: v0)) with P := s.P.setOpt oid o1, ctx := .collecting oid 1, pending := [] }
    oid 1 o' he rfl rfl (by simpa [Prog.setOpt] using hoid')
    (by show ((1 + vs.length : Nat) : Int) ≤ ((s.P.setOpt oid o1).opt oid).max
        rw [hget, static_max hmst]; simpa using hroom)
    hvs
    (by show AllAcceptable ext mode ((s.P.setOpt oid o1).opt oid) 1 vs
        rw [hget, allAcceptable_congr ext mode hmst]; exact hacc)
    (by show saveAll ext ((s.P.setOpt oid o1).node 0).mapKeysToLower
          ((s.P.setOpt oid o1).opt oid) vs = .ok o'
        rw [hget]; exact hs)
  rw [hcol]
  have hso : o'.static = (P.opt oid).static := (saveAll_static ext _ vs _ o' hs).trans hmst
  -- what follows cannot touch the option any more
  have hPfin : ∀ c, ((collected
      { headState s (chDash :: chDash :: (name ++ chEq :: v0)) with P := s.P.setOpt oid o1, ctx := .collecting oid 1, pending := [] }
      oid 1 vs o').P.opt oid = o') ∧
      (∀ n, ({ collected
      { headState s (chDash :: chDash :: (name ++ chEq :: v0)) with P := s.P.setOpt oid o1, ctx := .collecting oid 1, pending := [] }
      oid 1 vs o' with ctx := c }).P.node n = P.node n) := by
    intro c
    refine ⟨?_, fun n => ?_⟩
    · simp only [collected]
      exact opt_setOpt_same _ oid o' (by simpa [Prog.setOpt] using hoid')
    · simp only [collected]; exact hsh.1 n
  generalize hS : collected
      { headState s (chDash :: chDash :: (name ++ chEq :: v0)) with P := s.P.setOpt oid o1, ctx := .collecting oid 1, pending := [] }
      oid 1 vs o' = S at hPfin
  have hSctx : S.ctx = if ((1 + vs.length : Nat) : Int) < o'.max then .collecting oid (1 + vs.length) else .idle := by
    rw [← hS]; rfl
  have hSpend : S.pending = [] := by rw [← hS]; rfl
  have hSerr : S.err = none := by rw [← hS]; exact he
  have hSopt : S.P.opt oid = o' := (hPfin .idle).1
  have hSnodes : ∀ n, S.P.node n = P.node n := (hPfin S.ctx).2
  have hidle : ∀ (post : List Str), ¬ Mentioned mode P post oid →
      (finish ext (post.foldl (step ext mode) { S with ctx := .idle })).P.opt oid = o' := by
    intro post hnm
    have := later_unmentioned_keeps ext mode { S with ctx := .idle } post oid
      (by rw [mentioned_congr mode (P' := S.P) (P := P) hSnodes]; exact hnm) hSpend
      (fun o i h => by cases h)
    rw [this]; exact hSopt
  by_cases hfull : ((1 + vs.length : Nat) : Int) < o'.max
  · -- the occurrence is still open: it ends by the end of the command line or by a refused token
    simp only [hfull, ↓reduceIte] at hSctx
    have hmax' : o'.max = (P.opt oid).max := static_max hso
    have hmin' : ¬ ((1 + vs.length : Nat) : Int) < (S.P.opt oid).min := by
      rw [hSopt, static_min hso]; omega
    rcases hend with h | h | ⟨t, rest, h, hr⟩
    · rw [hmax'] at hfull; omega
    · subst h
      simp only [List.foldl_nil]
      unfold finish
      simp only [hSerr, hSctx, hmin', Option.isSome_none, Bool.false_eq_true, ↓reduceIte, hSpend, finishDrain]
      exact hSopt
    · subst h
      simp only [List.foldl_cons]
      rw [refused_as_idle ext mode S oid (1 + vs.length) t hSerr hSctx hSpend hmin' hr]
      exact hidle (t :: rest) hpost
  · simp only [hfull, ↓reduceIte] at hSctx
    have : S = { S with ctx := .idle } := by cases S; simp_all
    rw [this]
    exact hidle post hpost



/-! `-v --list=c d e --verbose x`: the occurrence starts with an attached value and takes two more. -/
example :
    ((parseArgs Demo.ext .normal Demo.prog
      [b "-v", b "--list=c", b "d", b "e", b "--verbose", b "x"]).P.opt 2).value = .ss [b "c", b "d", b "e"] ∧
    (saveAll Demo.ext false (matched (run Demo.ext .normal Demo.prog [b "-v"]) 2 (b "list")) [b "c", b "d", b "e"]).toOption.map (·.value)
      = some (.ss [b "c", b "d", b "e"]) := by
  decide

/-! Non-vacuity: greedy consumption stops at an option-looking token, values kept in order. -/
example : ((parseArgs Demo.ext .normal Demo.prog [b "--list", b "a", b "b", b "--verbose", b "--list=c", b "d", b "e", b "f"]).P.opt 2).value
          = .ss [b "a", b "b", b "c", b "d", b "e"] ∧
          (parseArgs Demo.ext .normal Demo.prog [b "--list", b "a", b "b", b "--verbose", b "--list=c", b "d", b "e", b "f"]).rem = [b "f"] := by
  decide

/-! `--list=c -v --list a b --verbose x`: the second occurrence of `list` (option 2, bounds 1..3) starts at a head
position, takes `a b`, is ended by the option-looking `--verbose`; the conclusion of `occurrence_values_in_order`,
computed, with its hypotheses on the prefix. -/
example :
    ((parseArgs Demo.ext .normal Demo.prog
      [b "--list=c", b "-v", b "--list", b "a", b "b", b "--verbose", b "x"]).P.opt 2).value = .ss [b "c", b "a", b "b"] ∧
    (run Demo.ext .normal Demo.prog [b "--list=c", b "-v"]).ctx = .idle ∧
    (run Demo.ext .normal Demo.prog [b "--list=c", b "-v"]).err = none ∧
    (saveAll Demo.ext false (matched (run Demo.ext .normal Demo.prog [b "--list=c", b "-v"]) 2 (b "list")) [b "a", b "b"]).toOption.map (·.value)
      = some (.ss [b "c", b "a", b "b"]) ∧
    looksLikeOption (b "--verbose") .normal = true := by
  decide

end GoModel

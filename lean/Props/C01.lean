import Props.C07
import Lemmas.Parse
import Lemmas.Demo
import Lemmas.GivenLast
/-!
# C01 — scalar option values reach the program exactly as written
-/
namespace GoModel

variable (ext : Ext) (mode : Mode)

/-! ## the typed `Save` for one value: the exact value or an error, nothing else -/

def Kind.isString : Kind → Bool | .str | .strOpt => true | _ => false
def Kind.isInt : Kind → Bool | .int | .intOpt => true | _ => false
def Kind.isFloat : Kind → Bool | .flt | .fltOpt => true | _ => false

theorem save_string (lower : Bool) (o : Opt) (v : Str) (hk : o.kind.isString = true)
    (hv : validGate o [v] = true) :
    save ext lower o [v] = .ok { o with value := .s v } := by
  unfold save
  cases hkind : o.kind <;> simp [hkind, Kind.isString] at hk <;> simp [hv, hkind]

theorem save_int (lower : Bool) (o : Opt) (v : Str) (hk : o.kind.isInt = true)
    (hv : validGate o [v] = true) :
    save ext lower o [v] =
      match atoi v with
      | some n => .ok { o with value := .i n }
      | none => .error (.convInt o.usedAlias v) := by
  unfold save
  cases hkind : o.kind <;> simp [hkind, Kind.isInt] at hk <;> simp only [hv, hkind] <;> rfl

theorem save_float (lower : Bool) (o : Opt) (v : Str) (hk : o.kind.isFloat = true)
    (hv : validGate o [v] = true) :
    save ext lower o [v] =
      if ext.floatOk v then .ok { o with value := .f v } else .error (.convFloat o.usedAlias v) := by
  unfold save
  cases hkind : o.kind <;> simp [hkind, Kind.isFloat] at hk <;> simp only [hv, hkind] <;> rfl

/-- a value outside the declared valid values is an error, whatever the kind -/
theorem save_invalid (lower : Bool) (o : Opt) (v : Str) (hv : validGate o [v] = false) :
    save ext lower o [v] = .error (.wrongValue o.name o.validValues) := by
  unfold save
  simp [hv]

/-- no value: a bool reads the negation of its default (however often it is given), an increment
adds one, every other kind is left alone -/
theorem save_none_bool (lower : Bool) (o : Opt) (hk : o.kind = .bool) :
    save ext lower o [] = .ok { o with value := .b (!o.boolDefault) } := by
  simp [save, hk]

theorem save_none_incr (lower : Bool) (o : Opt) (v : Int) (hk : o.kind = .incr) (hv : o.value = .i v) :
    save ext lower o [] = .ok { o with value := .i (wrap64 (v + 1)) } := by
  simp [save, hk, hv]

theorem save_none_other (lower : Bool) (o : Opt) (hb : o.kind ≠ .bool) (hi : o.kind ≠ .incr) :
    save ext lower o [] = .ok o := by
  unfold save
  cases hk : o.kind <;> simp_all

/-! ## one occurrence in the argument loop -/

theorem long_token_ne_dashdash (name rest : Str) (hn : name ≠ []) : chDash :: chDash :: (name ++ rest) ≠ dashdash := by
  cases name with
  | nil => exact absurd rfl hn
  | cons c r => simp [dashdash]

/-- `--name=v` at a head position, `name` resolving to a scalar option (at most one argument):
the option is marked called under the resolved key, `v` goes through the typed `Save` — the result is
either that exact value or the conversion error — and no further token is consumed. -/
theorem step_long_attached (s : PState) (name v key : Str) (oid : Nat)
    (he : s.err = none) (hc : s.ctx = .idle)
    (hn : name ≠ []) (hne : ∀ c ∈ name, c ≠ chEq) (hv : v ≠ [])
    (hr : resolve (s.P.node s.cur) name = [key]) (hl : lookup key (s.P.node s.cur).opts = some oid)
    (hmax : ∀ o', save ext (s.P.node 0).mapKeysToLower (matched s oid key) [v] = .ok o' → o'.max ≤ 1) :
    (∀ o', save ext (s.P.node 0).mapKeysToLower (matched s oid key) [v] = .ok o' →
      step ext mode s (chDash :: chDash :: (name ++ chEq :: v)) =
        { headState s (chDash :: chDash :: (name ++ chEq :: v)) with P := s.P.setOpt oid o', pending := [] }) ∧
    (∀ e, save ext (s.P.node 0).mapKeysToLower (matched s oid key) [v] = .error e →
      (step ext mode s (chDash :: chDash :: (name ++ chEq :: v))).err = some e) := by
  have hstep := step_head_option ext mode s _ [⟨name, [v]⟩] he hc
    (long_token_ne_dashdash name (chEq :: v) hn) (long_attached name v mode hn hne hv)
  refine ⟨fun o' hs => ?_, fun e hs => ?_⟩
  · have hfull : ¬ (((([v] : List Str).length : Nat) : Int) < o'.max) := by
      have := hmax o' hs; simp; omega
    rw [hstep]
    exact drain_single_full ext (headState s (chDash :: chDash :: (name ++ chEq :: v))) ⟨name, [v]⟩ key oid o'
      he hc hr hl hs hfull
  · rw [hstep]
    exact drain_single_err ext _ ⟨name, [v]⟩ key oid e hr hl hs

/-- a collecting occurrence that still needs its mandatory argument takes the next token `v` unless
`v` looks like an option: `v` goes through the typed `Save` -/
theorem offer_mandatory (s : PState) (o i : Nat) (v : Str)
    (hmin : (i : Int) < (s.P.opt o).min) (hlook : looksLikeOption v mode = false) :
    offer ext mode s o i v =
      match save ext (s.P.node 0).mapKeysToLower (s.P.opt o) [v] with
      | .error e => ({ s with err := some e, lastTok := v }, true)
      | .ok o' => ({ s with P := s.P.setOpt o o', lastTok := v,
                            ctx := if ((i + 1 : Nat) : Int) < o'.max then .collecting o (i + 1) else .idle }, true) := by
  unfold offer
  simp only [hmin, hlook]
  rfl

/-- … and a dash-looking token in a mandatory position is the "missing argument" error, never a value -/
theorem offer_mandatory_dash (s : PState) (o i : Nat) (v : Str)
    (hmin : (i : Int) < (s.P.opt o).min) (hlook : looksLikeOption v mode = true) :
    (offer ext mode s o i v).1.err = some (.dashArg (s.P.opt o).usedAlias) := by
  unfold offer
  simp [hmin, hlook]

/-- `--name` followed by a separate value `v` that does not look like an option: both tokens are
consumed and `v` goes through the typed `Save`. -/
theorem step_long_detached (s : PState) (name v key : Str) (oid : Nat)
    (he : s.err = none) (hc : s.ctx = .idle)
    (hn : name ≠ []) (hne : ∀ c ∈ name, c ≠ chEq) (hlook : looksLikeOption v mode = false)
    (hr : resolve (s.P.node s.cur) name = [key]) (hl : lookup key (s.P.node s.cur).opts = some oid)
    (hoid : oid < s.P.opts.length)
    (hkind : (s.P.opt oid).kind ≠ .bool) (hkind2 : (s.P.opt oid).kind ≠ .incr)
    (hmin : (s.P.opt oid).min = 1) (hmaxv : (s.P.opt oid).max = 1)
    (hmax : ∀ o', save ext (s.P.node 0).mapKeysToLower (matched s oid key) [v] = .ok o' → o'.max ≤ 1) :
    (∀ o', save ext (s.P.node 0).mapKeysToLower (matched s oid key) [v] = .ok o' →
      step ext mode (step ext mode s (chDash :: chDash :: name)) v =
        { headState s (chDash :: chDash :: name) with
            P := (s.P.setOpt oid (matched s oid key)).setOpt oid o', lastTok := v, pending := [] }) ∧
    (∀ e, save ext (s.P.node 0).mapKeysToLower (matched s oid key) [v] = .error e →
      (step ext mode (step ext mode s (chDash :: chDash :: name)) v).err = some e) := by
  have hopt : isOption (chDash :: chDash :: name) mode = ([⟨name, []⟩], true) := long_bare name mode hn hne
  have hne2 : chDash :: chDash :: name ≠ dashdash := by
    have := long_token_ne_dashdash name [] hn; simpa using this
  have hstep1 := step_head_option ext mode s _ [⟨name, []⟩] he hc hne2 hopt
  have hsv : save ext (s.P.node 0).mapKeysToLower (matched s oid key) [] = .ok (matched s oid key) :=
    save_none_other ext _ _ (by simpa [matched] using hkind) (by simpa [matched] using hkind2)
  have hopen : ((([] : List Str).length : Nat) : Int) < (matched s oid key).max := by
    simp [matched, hmaxv]
  have h1 := drain_single_open ext (headState s (chDash :: chDash :: name)) ⟨name, []⟩ key oid
    (matched s oid key) he hr hl hsv hopen
  have hget : (s.P.setOpt oid (matched s oid key)).opt oid = matched s oid key := by
    simp [Prog.setOpt, Prog.opt, List.getD, hoid]
  rw [hstep1, h1]
  have hoff := offer_mandatory ext mode
    { headState s (chDash :: chDash :: name) with
        P := (headState s (chDash :: chDash :: name)).P.setOpt oid (matched s oid key),
        ctx := .collecting oid ([] : List Str).length, pending := [] } oid 0 v
    (by show ((0 : Nat) : Int) < ((s.P.setOpt oid (matched s oid key)).opt oid).min; rw [hget]; simp [matched, hmin])
    hlook
  have hP : (headState s (chDash :: chDash :: name)).P = s.P := rfl
  simp only [hP] at hoff ⊢
  have hnode : (s.P.setOpt oid (matched s oid key)).node 0 = s.P.node 0 := rfl
  simp only [hget, hnode] at hoff
  simp only [headState, List.length_nil, he] at hoff
  refine ⟨fun o' hs => ?_, fun e hs => ?_⟩
  · simp only [hs] at hoff
    have hfull : ¬ (((0 + 1 : Nat) : Int) < o'.max) := by have := hmax o' hs; omega
    simp only [hfull, ↓reduceIte] at hoff
    simp [step, stepG, headState, he, hoff, afterConsume, drain, hc]
  · simp only [hs] at hoff
    simp [step, stepG, headState, he, hoff, afterConsume]

/-! Non-vacuity: values with leading dashes, `=`, spaces and newlines arrive byte for byte; an
invalid numeral is an error; `--name v` with a separate token. -/
example : ((parseArgs Demo.ext .normal Demo.prog [b "--name=-a=b c\nd"]).P.opt 0).value = .s (b "-a=b c\nd") := by
  decide
example : ((parseArgs Demo.ext .bundling Demo.prog [b "--name", b "a=b"]).P.opt 0).value = .s (b "a=b") ∧
          ((parseArgs Demo.ext .bundling Demo.prog [b "--name", b "a=b"]).P.opt 0).called = true := by decide
example : (parseArgs Demo.ext .normal Demo.prog [b "--num=12x"]).err = some (.convInt (b "num") (b "12x")) := by
  decide
example : ((parseArgs Demo.ext .singleDash Demo.prog [b "--num=-0042"]).P.opt 4).value = .i (-42) := by decide

end GoModel

namespace GoModel
variable (ext : Ext) (mode : Mode)

/-! ## flags, counters, optional values -/

/-- `n` bare occurrences of an option (no attached value) applied to its record -/
def bareN (lower : Bool) : Nat → Opt → Opt
  | 0, o => o
  | n + 1, o => match save ext lower (bareN lower n o) [] with
    | .ok o' => o'
    | .error _ => bareN lower n o

theorem bareN_kind (lower : Bool) (n : Nat) (o : Opt) :
    (bareN ext lower n o).kind = o.kind ∧ (bareN ext lower n o).boolDefault = o.boolDefault := by
  induction n with
  | zero => exact ⟨rfl, rfl⟩
  | succ n ih =>
    simp only [bareN]
    cases hk : (bareN ext lower n o).kind <;> cases hv : (bareN ext lower n o).value <;>
      simp [save, hk, hv, ih.1.symm.trans hk, ih.2] <;> first | exact ⟨ih.1.symm.trans hk |>.symm ▸ rfl, ih.2⟩ | skip
    all_goals first | exact ⟨by rw [← ih.1, hk], ih.2⟩ | skip

/-- A bool option passed any number of times (≥ 1) reads the negation of its default. -/
theorem bool_n_times (lower : Bool) (n : Nat) (o : Opt) (hk : o.kind = .bool) :
    (bareN ext lower (n + 1) o).value = .b (!o.boolDefault) := by
  have h := bareN_kind ext lower n o
  simp only [bareN]
  rw [save_none_bool ext lower _ (by rw [h.1, hk])]
  simp [h.2]

theorem wrap64_succ (a : Int) : wrap64 (wrap64 a + 1) = wrap64 (a + 1) := by
  unfold wrap64; omega

/-- An increment option reads its default plus the number of occurrences (Go `int` arithmetic). -/
theorem incr_n_times (lower : Bool) (n : Nat) (o : Opt) (v : Int) (hk : o.kind = .incr) (hv : o.value = .i v)
    (hr : minInt64 ≤ v ∧ v ≤ maxInt64) :
    (bareN ext lower n o).value = .i (wrap64 (v + n)) ∧ (bareN ext lower n o).kind = .incr := by
  induction n with
  | zero =>
    refine ⟨?_, hk⟩
    simp only [bareN, hv]
    congr 1
    unfold wrap64 minInt64 maxInt64 at *
    omega
  | succ n ih =>
    simp only [bareN]
    rw [save_none_incr ext lower _ (wrap64 (v + n)) ih.2 ih.1]
    refine ⟨?_, ih.2⟩
    simp only
    congr 1
    rw [wrap64_succ]
    congr 1
    omega

/-- An occurrence that has its mandatory arguments never takes an option-looking token or `--`:
an optional-value option followed by such a token keeps its value and stays called. -/
theorem offer_optional_refuses (s : PState) (o i : Nat) (t : Str)
    (hmin : ¬ (i : Int) < (s.P.opt o).min) (ht : looksLikeOption t mode = true ∨ t = dashdash) :
    offer ext mode s o i t = ({ s with ctx := .idle }, false) := by
  unfold offer
  rcases ht with h | h
  · simp [hmin, h]
  · simp [hmin, h]

/-- … and at the end of the input it is simply closed (no error, value unchanged) -/
theorem finish_optional (s : PState) (o i : Nat) (he : s.err = none) (hc : s.ctx = .collecting o i)
    (hp : s.pending = []) (hmin : ¬ (i : Int) < (s.P.opt o).min) :
    finish ext s = { s with ctx := .idle, pending := [] } := by
  simp [finish, he, hc, hmin, hp, finishDrain]

example : ((parseArgs Demo.ext .normal Demo.prog [b "-v", b "--verbose", b "-v"]).P.opt 1).value = .b true := by decide
example : ((parseArgs Demo.ext .normal Demo.prog [b "--opt", b "--verbose"]).P.opt 3).value = .s (b "d") ∧
          ((parseArgs Demo.ext .normal Demo.prog [b "--opt", b "--verbose"]).P.opt 3).called = true := by decide

/-! ## end to end: the last occurrence decides -/

/-- **The last occurrence decides (attached form).**  `argv = pre ++ ["--name=v"] ++ post`, the parser is
at a head position after `pre`, `name` resolves (exactly, by alias or unique abbreviation) to the scalar
option `oid`, `v` is accepted by the typed conversion giving the record `o'`, and nothing in `post`
mentions the option: then after the whole parse the option record is exactly `o'` - the value read from
`v`, `Called`, `CalledAs = key` - whatever `pre` did to the option before and whatever else `post`
contains (other options, commands, unknown options, `--`, values). -/
theorem attached_value_is_final (P : Prog) (pre post : List Str) (name v key : Str) (oid : Nat) (o' : Opt)
    (he : (run ext mode P pre).err = none) (hc : (run ext mode P pre).ctx = .idle)
    (hn : name ≠ []) (hne : ∀ c ∈ name, c ≠ chEq) (hv : v ≠ [])
    (hr : resolve (P.node (run ext mode P pre).cur) name = [key])
    (hl : lookup key (P.node (run ext mode P pre).cur).opts = some oid)
    (hoid : oid < P.opts.length)
    (hs : save ext (P.node 0).mapKeysToLower (matched (run ext mode P pre) oid key) [v] = .ok o')
    (hmax : o'.max ≤ 1)
    (hpost : ¬ Mentioned mode P post oid) :
    (parseArgs ext mode P (pre ++ (chDash :: chDash :: (name ++ chEq :: v)) :: post)).P.opt oid = o' := by
  have hsh := run_shape ext mode P pre
  unfold parseArgs
  rw [run_append]
  simp only [List.foldl]
  generalize run ext mode P pre = s at he hc hr hl hs hsh
  rw [← hsh.1] at hr hl hs
  have h1 := (step_long_attached ext mode s name v key oid he hc hn hne hv hr hl
    (fun o2 h2 => by rw [hs] at h2; cases h2; exact hmax)).1 o' hs
  rw [h1]
  have hnm : ¬ Mentioned mode (s.P.setOpt oid o') post oid := by
    rw [mentioned_congr mode (P' := s.P.setOpt oid o') (P := P) (fun n => hsh.1 n)]
    exact hpost
  have := later_unmentioned_keeps ext mode
    { headState s (chDash :: chDash :: (name ++ chEq :: v)) with P := s.P.setOpt oid o', pending := [] }
    post oid hnm rfl (fun o i h => by simp [headState, hc] at h)
  rw [this]
  exact opt_setOpt_same s.P oid o' (by rw [hsh.2]; exact hoid)

/-- **The last occurrence decides (detached form).**  The same for `--name v` with a separate value
token that does not look like an option, for the kinds that take exactly one mandatory argument. -/
theorem detached_value_is_final (P : Prog) (pre post : List Str) (name v key : Str) (oid : Nat) (o' : Opt)
    (he : (run ext mode P pre).err = none) (hc : (run ext mode P pre).ctx = .idle)
    (hn : name ≠ []) (hne : ∀ c ∈ name, c ≠ chEq) (hlook : looksLikeOption v mode = false)
    (hr : resolve (P.node (run ext mode P pre).cur) name = [key])
    (hl : lookup key (P.node (run ext mode P pre).cur).opts = some oid)
    (hoid : oid < P.opts.length)
    (hkind : ((run ext mode P pre).P.opt oid).kind ≠ .bool) (hkind2 : ((run ext mode P pre).P.opt oid).kind ≠ .incr)
    (hmin : ((run ext mode P pre).P.opt oid).min = 1) (hmaxv : ((run ext mode P pre).P.opt oid).max = 1)
    (hs : save ext (P.node 0).mapKeysToLower (matched (run ext mode P pre) oid key) [v] = .ok o')
    (hmax : o'.max ≤ 1)
    (hpost : ¬ Mentioned mode P post oid) :
    (parseArgs ext mode P (pre ++ (chDash :: chDash :: name) :: v :: post)).P.opt oid = o' := by
  have hsh := run_shape ext mode P pre
  unfold parseArgs
  rw [run_append]
  simp only [List.foldl]
  generalize run ext mode P pre = s at he hc hr hl hs hsh hkind hkind2 hmin hmaxv
  rw [← hsh.1] at hr hl hs
  have hoid' : oid < s.P.opts.length := by rw [hsh.2]; exact hoid
  have h1 := (step_long_detached ext mode s name v key oid he hc hn hne hlook hr hl hoid' hkind hkind2 hmin hmaxv
    (fun o2 h2 => by rw [hs] at h2; cases h2; exact hmax)).1 o' hs
  rw [h1]
  have hnm : ¬ Mentioned mode ((s.P.setOpt oid (matched s oid key)).setOpt oid o') post oid := by
    rw [mentioned_congr mode (P' := (s.P.setOpt oid (matched s oid key)).setOpt oid o') (P := P) (fun n => hsh.1 n)]
    exact hpost
  have := later_unmentioned_keeps ext mode
    { headState s (chDash :: chDash :: name) with
        P := (s.P.setOpt oid (matched s oid key)).setOpt oid o', lastTok := v, pending := [] }
    post oid hnm rfl (fun o i h => by simp [headState, hc] at h)
  rw [this]
  exact opt_setOpt_same _ oid o' (by simpa [Prog.setOpt] using hoid')

/-! Non-vacuity on the demo program: `--name=a -v --name=b cmd --force x`: the later occurrence of
`name` (option 0) is followed by tokens that do not mention it; the theorem's conclusion, computed. -/
example :
    ((parseArgs Demo.ext .normal Demo.prog
      [b "--name=a", b "-v", b "--name=b", b "cmd", b "--force", b "x"]).P.opt 0).value = .s (b "b") ∧
    (run Demo.ext .normal Demo.prog [b "--name=a", b "-v"]).ctx = .idle ∧
    (run Demo.ext .normal Demo.prog [b "--name=a", b "-v"]).err = none := by
  decide


end GoModel

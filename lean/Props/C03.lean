import Lemmas.Conserve
import Lemmas.RemMono
import Lemmas.Demo
import Model.Program
/-!
# C03 — remaining arguments are conserved: nothing lost, invented, altered or duplicated
-/
namespace GoModel

variable (ext : Ext) (mode : Mode)

/-- Whenever `Parse` succeeds, the remaining list is a positional sublist of the arguments: every
element is an input token, byte for byte, in the original relative order, and no input position is
used twice — for every program, every mode, every unknown-mode, with or without require-order. -/
theorem remaining_sublist (P : Prog) (args rem : List Str)
    (h : (parseUser ext P args).remaining = some rem) : rem.Sublist args := by
  unfold parseUser at h
  simp only at h
  split at h
  · simp at h
  · rename_i herr
    split at h
    · simp at h
    · split at h
      · simp at h
      · simp only [Option.some.injEq] at h
        rw [← h]
        exact parseArgs_rem_sublist ext _ P args herr

/-- the arguments handed to the dispatched command function are exactly what `Parse` returned -/
theorem dispatch_passes_remaining (s : PState) (rem : List Str) (f n : Nat) (args : List Str)
    (h : dispatch ext s rem = .ran f n args) : args = rem := by
  unfold dispatch at h
  simp only at h
  split at h
  · simp at h
  · split at h
    · simp at h
    · split at h
      · split at h <;> (try split at h) <;> simp at h
      · split at h
        · simp only [DispatchOut.ran.injEq] at h; exact h.2.2.symm
        · split at h
          · split at h <;> simp at h
          · simp at h

/-- Pass / Warn mode: a token with an unknown option is in the remaining list, verbatim, as soon as
the unknown pair has been processed (and it stays: the list only grows). -/
theorem unknown_passthrough (s : PState) (p : Pair)
    (hr : resolve (s.P.node s.cur) p.opt = []) (hu : (s.P.node s.cur).umode ≠ .fail)
    (hinv : s.passed = true → s.tok ∈ s.rem) :
    s.tok ∈ (procPair ext s p).rem := by
  cases hro : (s.P.node s.cur).requireOrder with
  | true => rw [procPair_unknown_ro ext s p hr hro]; simp [PState.addText]
  | false =>
    rw [procPair_unknown ext s p hr hro]
    cases hp : s.passed with
    | true => simp [hp, hinv hp]
    | false => simp [hp, hu]

/-- the remaining list only grows: a token once kept is never removed or changed -/
theorem step_rem_prefix (s : PState) (t : Str) : ∃ more, (step ext mode s t).rem = s.rem ++ more := by
  have key : ∀ (s0 : PState) (p : Pair), ∃ more, (procPair ext s0 p).rem = s0.rem ++ more := by
    intro s0 p
    cases hr : resolve (s0.P.node s0.cur) p.opt with
    | nil =>
      cases hro : (s0.P.node s0.cur).requireOrder with
      | true => rw [procPair_unknown_ro ext s0 p hr hro]; exact ⟨[s0.tok], by simp [PState.addText]⟩
      | false =>
        rw [procPair_unknown ext s0 p hr hro]
        split
        · exact ⟨[s0.tok], rfl⟩
        · exact ⟨[], by simp⟩
    | cons k1 rest =>
      cases rest with
      | nil =>
        cases hl : lookup k1 (s0.P.node s0.cur).opts with
        | none => rw [procPair_known_nolookup ext s0 p k1 hr hl]; exact ⟨[], by simp⟩
        | some oid =>
          rw [procPair_known ext s0 p k1 oid hr hl]
          split
          · exact ⟨[], by simp⟩
          · split <;> exact ⟨[], by simp⟩
      | cons k2 ks => rw [procPair_amb ext s0 p k1 k2 ks hr]; exact ⟨[], by simp⟩
  have hdrain : ∀ (ps : List Pair) (s0 : PState), ∃ more, (drain ext s0 ps).rem = s0.rem ++ more := by
    intro ps
    induction ps with
    | nil => intro s0; exact ⟨[], by simp [drain]⟩
    | cons p ps ih =>
      intro s0
      obtain ⟨m1, h1⟩ := key { s0 with pending := ps } p
      unfold drain
      simp only
      split
      · exact ⟨m1, h1⟩
      · split
        · obtain ⟨m2, h2⟩ := ih (procPair ext { s0 with pending := ps } p)
          exact ⟨m1 ++ m2, by rw [h2, h1]; simp⟩
        · exact ⟨m1, h1⟩
        · exact ⟨m1, h1⟩
  have hhead : ∀ (s0 : PState), ∃ more, (head ext mode none s0 t).rem = s0.rem ++ more := by
    intro s0
    unfold head
    simp only
    split
    · exact ⟨[], by simp⟩
    · split
      · rename_i pairs _
        obtain ⟨m, h⟩ := hdrain pairs { s0 with tok := t, lastTok := t, passed := false }
        exact ⟨m, h⟩
      · split
        · exact ⟨[], by simp⟩
        · split <;> exact ⟨[t], by simp [PState.addText]⟩
  have hafter : ∀ (s0 : PState) (ps : List Pair), ∃ more, (afterConsume ext s0 ps).rem = s0.rem ++ more := by
    intro s0 ps
    unfold afterConsume
    split
    · exact ⟨[], by simp⟩
    · split
      · exact hdrain ps s0
      · exact ⟨[], by simp⟩
  have hfeed : ∀ (ps : List Pair) (s0 : PState), ∃ more, (feedPending ext mode none t s0 ps).rem = s0.rem ++ more := by
    intro ps
    induction ps with
    | nil => intro s0; unfold feedPending; exact hhead _
    | cons p ps ih =>
      intro s0
      obtain ⟨m1, h1⟩ := key { s0 with pending := ps } p
      unfold feedPending
      simp only
      split
      · exact ⟨m1, h1⟩
      · split
        · obtain ⟨m2, h2⟩ := ih (procPair ext { s0 with pending := ps } p)
          exact ⟨m1 ++ m2, by rw [h2, h1]; simp⟩
        · rename_i o i _
          have hf := offer_frame ext mode (procPair ext { s0 with pending := ps } p) o i t
          simp only at hf
          split
          · rename_i s2 hoff
            have e2 : s2.rem = (procPair ext { s0 with pending := ps } p).rem := by
              have := hf.1; rw [hoff] at this; exact this
            obtain ⟨m2, h2⟩ := hafter s2 ps
            exact ⟨m1 ++ m2, by rw [h2, e2, h1]; simp⟩
          · rename_i s2 hoff
            have e2 : s2.rem = (procPair ext { s0 with pending := ps } p).rem := by
              have := hf.1; rw [hoff] at this; exact this
            obtain ⟨m2, h2⟩ := ih s2
            exact ⟨m1 ++ m2, by rw [h2, e2, h1]; simp⟩
        · exact ⟨m1 ++ [t], by simp [PState.addText, h1]⟩
  unfold step stepG
  split
  · exact ⟨[], by simp⟩
  · split
    · exact ⟨[], by simp⟩
    · exact ⟨[t], by simp [PState.addText]⟩
    · exact hhead s
    · rename_i o i _
      have hf := offer_frame ext mode s o i t
      simp only at hf
      split
      · rename_i s1 hoff
        have e1 : s1.rem = s.rem := by have := hf.1; rw [hoff] at this; exact this
        obtain ⟨m, h⟩ := hafter s1 s1.pending
        exact ⟨m, by rw [h, e1]⟩
      · rename_i s1 hoff
        have e1 : s1.rem = s.rem := by have := hf.1; rw [hoff] at this; exact this
        obtain ⟨m, h⟩ := hfeed s1.pending s1
        exact ⟨m, by rw [h, e1]⟩

/-- **Whole command line, Pass / Warn mode**: an option token given where an option may start, whose
name is not declared at that level (unknown-mode of the level not `fail`), is in the remaining list of
the *finished* parse, verbatim and at its original position relative to everything kept before it —
whatever comes before and after it. -/
theorem unknown_token_kept (P : Prog) (pre post : List Str) (t : Str) (p : Pair)
    (he : (run ext mode P pre).err = none) (hc : (run ext mode P pre).ctx = .idle)
    (hopt : isOption t mode = ([p], true))
    (hr : resolve ((run ext mode P pre).P.node (run ext mode P pre).cur) p.opt = [])
    (hu : ((run ext mode P pre).P.node (run ext mode P pre).cur).umode ≠ .fail) :
    ∃ more, (parseArgs ext mode P (pre ++ t :: post)).rem = (run ext mode P pre).rem ++ t :: more := by
  unfold parseArgs
  rw [run_append]
  simp only [List.foldl_cons]
  have hd : t ≠ dashdash := by intro e; subst e; simp [isOption, dashdash] at hopt
  have h1 : (step ext mode (run ext mode P pre) t).rem = (run ext mode P pre).rem ++ [t] := by
    rw [step_head_option ext mode _ t [p] he hc hd hopt]
    unfold drain
    simp only
    cases hro : ((run ext mode P pre).P.node (run ext mode P pre).cur).requireOrder with
    | true =>
      rw [procPair_unknown_ro ext _ p (by simpa [headState] using hr) (by simpa [headState] using hro)]
      simp [headState, PState.addText, he]
    | false =>
      rw [procPair_unknown ext _ p (by simpa [headState] using hr) (by simpa [headState] using hro)]
      have hum : (((run ext mode P pre).P.node (run ext mode P pre).cur).umode != UMode.fail) = true := by
        simpa using hu
      simp [headState, PState.addText, he, hc, hum, drain]
  obtain ⟨m2, h2⟩ := foldl_rem_prefix' ext mode post (step ext mode (run ext mode P pre) t)
  obtain ⟨m3, h3⟩ := finish_rem_prefix' ext (post.foldl (step ext mode) (step ext mode (run ext mode P pre) t))
  exact ⟨m2 ++ m3, by rw [h3, h2, h1]; simp⟩

/-- one step at a head position with a plain word: the word is appended, verbatim, and nothing else of the
remaining list changes (with require-order the parser also stops) -/
theorem step_text_kept (s : PState) (t : Str) (he : s.err = none) (hc : s.ctx = .idle)
    (hd : t ≠ dashdash) (hno : (isOption t mode).2 = false)
    (hcmd : lookup t (s.P.node s.cur).cmds = none) :
    (step ext mode s t).rem = s.rem ++ [t] ∧ (step ext mode s t).P = s.P ∧ (step ext mode s t).cur = s.cur ∧
      (step ext mode s t).err = none := by
  have hd' : (t == dashdash) = false := by simpa using hd
  have : isOption t mode = ((isOption t mode).1, false) := by rw [← hno]
  simp only [step, stepG, he, hc, head, hd']
  rw [this]
  cases hro : (s.P.node s.cur).requireOrder <;> simp [hcmd, PState.addText, he]

/-- **Whole command line: a positional word is never lost.**  A token given where an option may start that is
not `--`, not option-looking in the mode and not the name of a sub-command of the level reached is in the
remaining list of the finished parse, verbatim, right after everything kept before it — whatever comes before
and after it, in every mode, with or without require-order. -/
theorem positional_token_kept (P : Prog) (pre post : List Str) (t : Str)
    (he : (run ext mode P pre).err = none) (hc : (run ext mode P pre).ctx = .idle)
    (hd : t ≠ dashdash) (hno : (isOption t mode).2 = false)
    (hcmd : lookup t ((run ext mode P pre).P.node (run ext mode P pre).cur).cmds = none) :
    ∃ more, (parseArgs ext mode P (pre ++ t :: post)).rem = (run ext mode P pre).rem ++ t :: more := by
  unfold parseArgs
  rw [run_append]
  simp only [List.foldl_cons]
  have h1 := (step_text_kept ext mode _ t he hc hd hno hcmd).1
  obtain ⟨m2, h2⟩ := foldl_rem_prefix' ext mode post (step ext mode (run ext mode P pre) t)
  obtain ⟨m3, h3⟩ := finish_rem_prefix' ext (post.foldl (step ext mode) (step ext mode (run ext mode P pre) t))
  exact ⟨m2 ++ m3, by rw [h3, h2, h1]; simp⟩

/-- a sub-command name at a head position is consumed: it does not enter the remaining list -/
theorem command_word_consumed (s : PState) (t : Str) (c : Nat) (he : s.err = none) (hc : s.ctx = .idle)
    (hd : t ≠ dashdash) (hno : (isOption t mode).2 = false)
    (hcmd : lookup t (s.P.node s.cur).cmds = some c) :
    (step ext mode s t).rem = s.rem ∧ (step ext mode s t).cur = c := by
  have hd' : (t == dashdash) = false := by simpa using hd
  have : isOption t mode = ((isOption t mode).1, false) := by rw [← hno]
  simp only [step, stepG, he, hc, head, hd']
  rw [this]
  simp [hcmd]

/-- a `--` reached at a head position is dropped -/
theorem dashdash_dropped (s : PState) (he : s.err = none) (hc : s.ctx = .idle) :
    (step ext mode s dashdash).rem = s.rem := by
  simp [step, stepG, he, hc, head]

/-- a token taken as the value of the open occurrence is consumed: the remaining list keeps only what the
pairs still pending of the *previous* token add (nothing when there are none) -/
theorem value_token_consumed (s : PState) (o i : Nat) (t : Str) (s1 : PState) (he : s.err = none)
    (hc : s.ctx = .collecting o i) (hp : s.pending = []) (hoff : offer ext mode s o i t = (s1, true)) :
    (step ext mode s t).rem = s.rem := by
  have hf := offer_frame ext mode s o i t
  simp only [hoff] at hf
  have hp1 : s1.pending = [] := by rw [hf.2.2.2.2.1]; exact hp
  simp only [step, stepG, he, hc, hoff, Option.isSome_none, Bool.false_eq_true, ↓reduceIte]
  unfold afterConsume
  split
  · exact hf.1
  · rw [hp1]; split <;> simp_all [drain]

/-! Non-vacuity and the formerly failing inputs (now theorems about concrete runs). -/

/-- Bundling + Pass, `x -vQW y` with only `v` known: the token is passed through exactly once -/
example :
    let P := Demo.prog.modNode 0 fun n => { n with umode := .pass, mode := .bundling }
    (parseUser Demo.ext P [b "x", b "-vQW", b "y", b "--num", b "1"]).remaining = some [b "x", b "-vQW", b "y"] := by
  decide

/-- text and unknown options given before a command name are kept, in order -/
example :
    let P := Demo.prog.modNode 0 fun n => { n with umode := .pass }
    (parseUser Demo.ext P [b "foo", b "--unk", b "--num=1", b "cmd", b "bar"]).remaining =
      some [b "foo", b "--unk", b "bar"] := by
  decide

end GoModel

import Lemmas.DfsFuel
import Lemmas.DagApi
import Lemmas.SchedMore
import Lemmas.Termination
/-!
# C16 — Run rejects cycles up front; DepthFirstSort is a children-first order of every vertex;
the graph built by any call history is well formed

(The liveness parts — no deadlock, work conservation — are in `Props/C13.lean` with the scheduler
invariant.)
-/
namespace GoModel.Dag

/-- **Build invariant**, for every history of `AddTask` / `TaskDependsOn` / `TaskRetries` calls —
re-adding known tasks, duplicate edges, self edges, bad tasks included: ids are distinct, every child
and every parent of a vertex is a registered vertex, and child / parent lists mirror each other. -/
theorem build_well_formed (ops : List GOp) : GInv (buildGraph ops) := buildGraph_inv ops

theorem closed_of_ginv {g : GState} (h : GInv g) : ∀ a, a ∈ g.ids → ∀ c ∈ g.children a, c ∈ g.ids :=
  fun a _ c hc => (has_iff_mem_ids g c).mp (h.kids a c hc)

/-- `DepthFirstSort` never fails for lack of fuel: on a graph built through the API the only error
is a cycle (whatever order the map iteration visits the vertices in) -/
theorem dfs_no_fuel (ops : List GOp) (order : List Nat) (ho : ∀ v ∈ order, v ∈ (buildGraph ops).ids) :
    dfsFrom (buildGraph ops) order ≠ .error .fuel := by
  have h := buildGraph_inv ops
  unfold dfsFrom
  have hlen : (buildGraph ops).verts.length = (buildGraph ops).ids.length := by simp [GState.ids]
  rw [hlen]
  have := dfsLoop_no_fuel (buildGraph ops).children (buildGraph ops).ids h.nodup (closed_of_ginv h) order ho {}
  intro heq
  cases hl : dfsLoop (buildGraph ops).children ((buildGraph ops).ids.length + 1) order {} with
  | ok s => rw [hl] at heq; simp [Except.map] at heq
  | error e =>
    rw [hl] at heq
    simp only [Except.map, Except.error.injEq] at heq
    subst heq
    exact this hl

/-- **Soundness of the sort**: a successful `DepthFirstSort` lists every vertex, lists nothing twice,
and lists every dependency before its dependents — for every iteration order of the vertex map. -/
theorem dfs_sound (g : GState) (order l : List Nat) (h : dfsFrom g order = .ok l) :
    l.Nodup ∧ Topo g.children l ∧ ∀ v ∈ order, v ∈ l := dfsFrom_sound g order l h

/-- **Completeness of the cycle check**: when `DepthFirstSort` reports a cycle there is one … -/
theorem dfs_cycle_real (g : GState) (order : List Nat) (w : Nat) (h : dfsFrom g order = .error (.cycle w)) :
    Path g.children w w := by
  unfold dfsFrom at h
  cases hl : dfsLoop g.children (g.verts.length + 1) order {} with
  | ok s => rw [hl] at h; simp [Except.map] at h
  | error e =>
    rw [hl] at h
    simp only [Except.map, Except.error.injEq] at h
    subst h
    exact dfsLoop_cycle g.children _ order {} w (init_loopInv g.children) hl

/-- … and when it succeeds no vertex lies on a cycle. -/
theorem dfs_ok_acyclic (g : GState) (order l : List Nat) (h : dfsFrom g order = .ok l) :
    ∀ v ∈ order, ¬ Path g.children v v := by
  have ⟨hn, ht, hm⟩ := dfs_sound g order l h
  intro v hv
  exact topo_acyclic ht hn v (hm v hv)

/-- Hence `Run` rejects a graph built through the API **exactly** when it has a dependency cycle
(given an otherwise error-free, non-empty definition), before any task is picked. -/
theorem run_rejects_iff_cycle (ops : List GOp) (he : (buildGraph ops).errs = []) (hne : (buildGraph ops).verts ≠ []) :
    runPre (buildGraph ops) = .cycle ↔ ∃ v ∈ (buildGraph ops).ids, Path (buildGraph ops).children v v := by
  unfold runPre
  have h1 : (buildGraph ops).errs.isEmpty = true := by simp [he]
  have h2 : (buildGraph ops).verts.isEmpty = false := by cases h : (buildGraph ops).verts <;> simp_all
  simp only [h1, Bool.not_true, Bool.false_eq_true, ↓reduceIte, h2]
  cases hd : dfs (buildGraph ops) with
  | ok l =>
    simp only [reduceCtorEq, false_iff, not_exists, not_and]
    intro v hv
    exact dfs_ok_acyclic _ _ l hd v hv
  | error e =>
    simp only [true_iff]
    cases e with
    | fuel => exact absurd hd (dfs_no_fuel ops _ (fun v hv => hv))
    | cycle w =>
      have hp := dfs_cycle_real _ _ w hd
      -- the cycle goes through registered vertices: w has a child, so it is a vertex
      have hw : w ∈ (buildGraph ops).ids := by
        have hch : ∃ c, c ∈ (buildGraph ops).children w := by
          cases hp with
          | edge h => exact ⟨_, h⟩
          | cons h _ => exact ⟨_, h⟩
        obtain ⟨c, hc⟩ := hch
        have hpar := ((buildGraph_inv ops).sym w c).mp hc
        exact (has_iff_mem_ids _ w).mp ((buildGraph_inv ops).pars c w hpar)
      exact ⟨w, hw, hp⟩

/-- what `Run` does before scheduling anything: construction errors first, an empty graph is fine,
then the cycle check -/
theorem run_precedence (g : GState) :
    (g.errs ≠ [] → runPre g = .buildErrors) ∧
    (g.errs = [] → g.verts = [] → runPre g = .empty) := by
  unfold runPre
  constructor
  · intro h; cases he : g.errs <;> simp_all
  · intro h1 h2; simp [h1, h2]

/-! ## liveness of the scheduler -/

/-- **Work conservation.**  As long as nothing failed and the loop runs, a pending vertex whose
dependencies are all finished can be launched (in serial mode: as soon as nothing is in progress). -/
theorem work_conserving (c : Cfg) (s : Sched) (v : Nat) (hx : s.exited = false) (hv : c.g.has v = true)
    (hm : mayPick c s = true) (hr : ready c s v = true) (hp : (s.get v).st = .pending) (he : s.errs = []) :
    ∃ s', step? c s (.pickReal v) = some s' := by
  simp [step?, hx, hv, hm, hr, hp, he]

/-- a skip-marked vertex whose dependencies are finished can be pseudo-processed -/
theorem work_conserving_skip (c : Cfg) (s : Sched) (v : Nat) (hx : s.exited = false) (hv : c.g.has v = true)
    (hm : mayPick c s = true) (hr : ready c s v = true) (hp : (s.get v).st = .skip) :
    ∃ s', step? c s (.pickSkip v) = some s' := by
  simp [step?, hx, hv, hm, hr, hp]

/-- the scheduler reports "nothing to launch" only when no vertex is ready (or, in serial mode,
something is in progress) and not everything is done -/
theorem idle_means_nothing_ready (c : Cfg) (s s' : Sched) (hs : step? c s .idle = some s') :
    allDone c s = false ∧ (mayPick c s = false ∨ ∀ v ∈ c.g.ids, ready c s v = false) := by
  simp only [step?] at hs
  split at hs
  · simp at hs
  · split at hs
    · simp at hs
    · rename_i hnd
      split at hs
      · simp at hs
      · rename_i hcond
        refine ⟨by simpa using hnd, ?_⟩
        cases hm : mayPick c s with
        | false => exact Or.inl rfl
        | true =>
          right
          intro v hv
          cases hr : ready c s v with
          | false => rfl
          | true => exact absurd (by simp [hm]; exact ⟨v, hv, hr⟩) hcond

theorem first_not_done (p : Nat → Bool) (l : List Nat) (h : ∃ x ∈ l, p x = true) :
    ∃ l1 w l2, l = l1 ++ w :: l2 ∧ (∀ x ∈ l1, p x = false) ∧ p w = true := by
  induction l with
  | nil => obtain ⟨x, hx, _⟩ := h; simp at hx
  | cons a r ih =>
    cases ha : p a with
    | true => exact ⟨[], a, r, rfl, by simp, ha⟩
    | false =>
      have : ∃ x ∈ r, p x = true := by
        obtain ⟨x, hx, hpx⟩ := h
        rcases List.mem_cons.mp hx with e | e
        · subst e; rw [ha] at hpx; cases hpx
        · exact ⟨x, e, hpx⟩
      obtain ⟨l1, w, l2, hl, h1, h2⟩ := ih this
      refine ⟨a :: l1, w, l2, by rw [hl]; rfl, ?_, h2⟩
      intro x hx
      rcases List.mem_cons.mp hx with e | e
      · subst e; exact ha
      · exact h1 x e

/-- **No deadlock.**  In a reachable state in which not everything is done and no goroutine is
outstanding (no task running, no completion pending), some vertex is ready and may be picked: the
loop cannot idle forever.  (With "every started task returns" this gives termination: each pick
moves a vertex towards `done`.) -/
theorem no_deadlock (c : Cfg) (hc : Scheduled c) (s : Sched) (hr : Reachable c s) (hnd : allDone c s = false)
    (hquiet : ∀ v ∈ c.g.ids, (s.get v).fl = .none ∧ (s.get v).pseudo = []) :
    mayPick c s = true ∧ ∃ v ∈ c.g.ids, ready c s v = true := by
  have hinv := reachable_sinv c hc.ancOK s hr
  obtain ⟨ops, hops⟩ := hc.built
  obtain ⟨l, hl⟩ := hc.sorted
  have hg : GInv c.g := by rw [hops]; exact buildGraph_inv ops
  have ⟨hn, ht, hall⟩ := dfsFrom_sound c.g c.g.ids l hl
  -- nothing is in progress
  have hnip : ∀ v ∈ c.g.ids, (s.get v).st ≠ .inProgress := by
    intro v hv hst
    rcases hinv.ip v hst with h1 | h1
    · exact h1 (hquiet v hv).1
    · exact h1 (hquiet v hv).2
  have hmay : mayPick c s = true := by
    simp only [mayPick, Bool.not_eq_eq_eq_not, Bool.not_true, Bool.and_eq_false_imp]
    intro _
    unfold anyInProgress
    rw [List.any_eq_false]
    intro v hv; simpa using hnip v hv
  refine ⟨hmay, ?_⟩
  -- the order contains only registered vertices
  have hsub : ∀ x ∈ l, x ∈ c.g.ids := by
    unfold dfs dfsFrom at hl
    cases hl' : dfsLoop c.g.children (c.g.verts.length + 1) c.g.ids {} with
    | error e => rw [hl'] at hl; simp [Except.map] at hl
    | ok st =>
      rw [hl'] at hl
      simp only [Except.map, Except.ok.injEq] at hl
      subst hl
      exact dfsLoop_sorted_reg c.g.children (fun x => x ∈ c.g.ids)
        (fun a _ ch hch => (has_iff_mem_ids c.g ch).mp (hg.kids a ch hch)) _ c.g.ids (fun v hv => hv) {} st
        (by simp) hl'
  -- the first vertex of the children-first order that is not done
  have hex : ∃ x ∈ l, (!((s.get x).st == .done)) = true := by
    simp only [allDone] at hnd
    rw [List.all_eq_false] at hnd
    obtain ⟨x, hx, hxd⟩ := hnd
    exact ⟨x, hall x hx, by simpa using hxd⟩
  obtain ⟨l1, w, l2, hsplit, hbefore, hw⟩ := first_not_done (fun x => !((s.get x).st == .done)) l hex
  have hwid : w ∈ c.g.ids := hsub w (by rw [hsplit]; simp)
  refine ⟨w, hwid, ?_⟩
  simp only [ready, Bool.and_eq_true, Bool.or_eq_true, beq_iff_eq, List.all_eq_true, bne_iff_ne, ne_eq]
  constructor
  · have hwnd : (s.get w).st ≠ .done := by simpa using hw
    have := hnip w hwid
    cases hst : (s.get w).st with
    | pending => exact Or.inl rfl
    | skip => exact Or.inr rfl
    | inProgress => exact absurd hst this
    | done => exact absurd hst hwnd
  · intro ch hch
    have hch1 : ch ∈ l1 := ht l1 w l2 hsplit ch hch
    have : (s.get ch).st = .done := by simpa using hbefore ch hch1
    rw [this]; simp

/-! ## Run returns -/

theorem reachable_tinv (c : Cfg) (s : Sched) (h : Reachable c s) : TInv c s := by
  obtain ⟨evs, i, ha⟩ := h
  have key : ∀ (evs : List Event) (s0 s1 : Sched) (i : Nat), TInv c s0 → accept c s0 evs i = .ok s1 → TInv c s1 := by
    intro evs
    induction evs with
    | nil => intro s0 s1 i h0 ha; simp [accept] at ha; subst ha; exact h0
    | cons ev evs ih =>
      intro s0 s1 i h0 ha
      unfold accept at ha
      split at ha
      · rename_i s2 hs2; exact ih s2 s1 (i + 1) (tinv_step c s0 s2 ev h0 hs2) ha
      · simp at ha
  exact key evs initSched s i (tinv_init c) ha

/-- **Run cannot go on for ever.**  On every graph built through the API that passed the cycle
check, "one scheduler event other than the idle poll" is a well-founded relation on the states that
satisfy the scheduler invariants (which every reachable state does): each pick, completion,
semaphore / lock acquisition, attempt, release, the cancellation and the exit strictly decreases a
lexicographic rank (number of vertices that may still complete as real tasks; remaining work of all
vertices).  A vertex re-marked by a late `ErrorSkipParents` is processed again — that is why the rank
is lexicographic — but only finitely often. -/
theorem run_moves_well_founded (c : Cfg) (hc : Scheduled c) : WellFounded (Moves c) := by
  obtain ⟨ops, hops⟩ := hc.built
  exact moves_wf c (by rw [hops]; exact buildGraph_inv ops)

/-- … hence there is no infinite execution: no infinite sequence of states each obtained from the
previous one by a non-idle scheduler event.  Together with `no_deadlock` (some event is always
possible until everything is done) and "every started task returns", `Run` returns. -/
theorem no_infinite_run (c : Cfg) (hc : Scheduled c) (f : Nat → Sched)
    (h : ∀ n, Moves c (f (n + 1)) (f n)) : False := by
  have wf := run_moves_well_founded c hc
  have key : ∀ s, ∀ n, f n = s → False :=
    fun s => wf.induction (C := fun s => ∀ n, f n = s → False) s
      (fun s ih n hn => ih (f (n + 1)) (hn ▸ h n) (n + 1) rfl)
  exact key (f 0) 0 rfl

/-- the invariants the relation asks for hold in every reachable state -/
theorem reachable_invariants (c : Cfg) (hc : Scheduled c) (s : Sched) (hr : Reachable c s) :
    SInv c s ∧ TInv c s :=
  ⟨reachable_sinv c hc.ancOK s hr, reachable_tinv c s hr⟩

/-! ## The rest of the construction API: `g.Task(id)`, `TaskMap`, `Validate` -/

/-- A recorded definition error is final: whatever calls follow (`AddTask`, `TaskDependsOn`, `TaskRetries`,
look-ups, `TaskMap` calls), every later `Run` returns the definition errors before anything is scheduled. -/
theorem build_error_is_final (ops more : List GOp) (h : (buildGraph ops).errs ≠ []) :
    runPre (buildGraph (ops ++ more)) = .buildErrors := by
  have hm : ErrsMono (buildGraph ops) (buildGraph (ops ++ more)) := by
    unfold buildGraph; rw [List.foldl_append]; exact foldl_errs_mono more _
  exact (run_precedence _).1 (hm.1.ne_nil h)

/-- `g.Task(id)` for an id that is not in the graph is such an error (the graph is then never run with the
empty task it returned), wherever the call stands — also as an argument of another call. -/
theorem unknown_task_lookup_rejected (ops more : List GOp) (id : Nat) (f : Bool)
    (h : (buildGraph ops).has id = false) :
    runPre (buildGraph (ops ++ [.lookup (some { id := id, hasFn := f, src := .graph })] ++ more)) = .buildErrors := by
  rw [List.append_assoc]
  have h1 : (buildGraph (ops ++ [.lookup (some { id := id, hasFn := f, src := .graph })])).errs ≠ [] := by
    unfold buildGraph at h ⊢
    rw [List.foldl_append]
    simp only [List.foldl_cons, List.foldl_nil, buildStep]
    rw [evalRef_graph_missing _ id f h]
    simp
  have := build_error_is_final (ops ++ [.lookup (some { id := id, hasFn := f, src := .graph })]) more h1
  rw [List.append_assoc] at this
  exact this

/-- `g.Task(id)` for a registered id is the registered task and records nothing. -/
theorem known_task_lookup (g : GState) (id : Nat) (f : Bool) (h : g.has id = true) :
    evalRef g (some { id := id, hasFn := f, src := .graph }) = (g, some { id := id, hasFn := true }) :=
  evalRef_graph_found g id f h

/-- **Look-ups are transparent**: a call whose `*Task` arguments are written `g.Task("a")` builds exactly the
graph the same call with the task objects themselves builds, whenever those ids are registered — the
README's `g.TaskDependsOn(g.Task("a"), g.Task("b"))`. -/
theorem lookup_transparent (g : GState) (t : Option TaskRef) (deps : List (Option TaskRef)) (n : Int)
    (ht : Registered g t) (hd : ∀ d ∈ deps, Registered g d) :
    buildStep g (.dependsOn t deps) = buildStep g (.dependsOn (direct t) (deps.map direct)) ∧
    buildStep g (.addTask t) = buildStep g (.addTask (direct t)) ∧
    buildStep g (.retries t n) = buildStep g (.retries (direct t) n) := by
  refine ⟨?_, ?_, ?_⟩
  · simp only [buildStep]
    rw [evalRef_registered g t ht, evalRef_direct]
    simp only
    rw [evalRefs_registered g deps hd, evalRefs_direct]
  · simp only [buildStep]; rw [evalRef_registered g t ht, evalRef_direct]
  · simp only [buildStep]; rw [evalRef_registered g t ht, evalRef_direct]

/-- `g.Validate(tm)`: the `TaskMap`'s errors when it has any, otherwise the graph's; without a map the graph's. -/
theorem validate_spec (g : GState) :
    validate g false = g.errs ∧ (g.tmErrs ≠ [] → validate g true = g.tmErrs) ∧
    (g.tmErrs = [] → validate g true = g.errs) := by
  refine ⟨by simp [validate], ?_, ?_⟩
  · intro h; cases he : g.tmErrs with
    | nil => exact absurd he h
    | cons x xs => simp [validate, he]
  · intro h; simp [validate, h]

/-- `tm.Get(id)` after `tm.Add(id, fn)` is the task that was added (the latest one), and records nothing;
for an id never added it records `ErrorTaskNotFound` in the map. -/
theorem taskmap_get_added (g : GState) (id : Nat) (f f' : Bool) :
    evalRef (tmAdd g id f) (some { id := id, hasFn := f', src := .tmap }) =
      (tmAdd g id f, some { id := id, hasFn := f }) := tmGet_after_add g id f f'

/-- adding an id twice, an empty id or a nil function to a `TaskMap` is reported by `Validate(tm)`, whatever
else is added later -/
theorem taskmap_misuse_reported (g : GState) (id : Nat) (f : Bool) (more : List GOp)
    (h : id = 0 ∨ f = false ∨ g.tm.any (·.1 == id) = true) :
    validate (more.foldl buildStep (tmAdd g id f)) true ≠ [] := by
  have h1 : (tmAdd g id f).tmErrs ≠ [] := by
    unfold tmAdd
    rcases h with h | h | h
    · subst h; simp
    · subst h; simp
    · simp [h]
  have hm := (foldl_errs_mono more (tmAdd g id f)).2.ne_nil h1
  rw [(validate_spec _).2.1 hm]
  exact hm

/-! Non-vacuity: a diamond sorts children first; re-adding a task keeps the edges; a 2-cycle and a
self edge are rejected. -/
def t (i : Nat) : Option TaskRef := some { id := i }

example : (dfs (buildGraph [.addTask (t 1), .dependsOn (t 2) [t 1], .dependsOn (t 3) [t 1], .dependsOn (t 4) [t 2, t 3],
    .addTask (t 1)])).toOption = some [1, 2, 3, 4] := by decide
example : runPre (buildGraph [.dependsOn (t 1) [t 2], .dependsOn (t 2) [t 1]]) = .cycle := by decide
example : runPre (buildGraph [.dependsOn (t 1) [t 1]]) = .cycle := by decide
example : runPre (buildGraph [.dependsOn (t 1) [t 2], .addTask none]) = .buildErrors := by decide
example : (buildGraph [.addTask (t 1), .dependsOn (t 2) [t 1], .addTask (t 1)]).children 2 = [1] := by decide

def gt (i : Nat) : Option TaskRef := some { id := i, src := .graph }
def mt (i : Nat) : Option TaskRef := some { id := i, src := .tmap }
-- README idiom: tasks added, edges by look-up; a look-up of an unknown id fails the definition
example : (dfs (buildGraph [.addTask (t 1), .addTask (t 2), .dependsOn (gt 2) [gt 1]])).toOption = some [1, 2] := by decide
example : runPre (buildGraph [.addTask (t 1), .dependsOn (gt 1) [gt 7]]) = .buildErrors := by decide
example : (buildGraph [.addTask (t 1), .dependsOn (gt 1) [gt 7]]).errs = [.taskNotFound 7, .taskFn 7] := by decide
-- TaskMap: get what was added; a missing id and a duplicate are reported by Validate(tm) only
example : (dfs (buildGraph [.tmAdd 1 true, .tmAdd 2 true, .dependsOn (mt 2) [mt 1]])).toOption = some [1, 2] := by decide
example : validate (buildGraph [.tmAdd 1 true, .tmAdd 1 true, .addTask (mt 1)]) true = [.taskDuplicate 1] := by decide
example : validate (buildGraph [.tmAdd 1 true, .addTask (mt 3)]) true = [.taskNotFound 3] := by decide
example : validate (buildGraph [.tmAdd 1 true, .addTask (mt 3)]) false = [.taskFn 3] := by decide

end GoModel.Dag

import Props.C13
import Lemmas.Rerun
/-!
# C14 — failures, skips and cancellation stop dependents and are fully reported
-/
namespace GoModel.Dag

/-- the error list only grows: once a failure or the cancellation is recorded it stays -/
theorem errs_monotone (c : Cfg) (s s' : Sched) (ev : Event) (hs : step? c s ev = some s') :
    ∃ more, s'.errs = s.errs ++ more := ⟨_, step_errs c s s' ev hs⟩

/-- **After a failure (or the cancellation) nothing is launched any more**: with a non-empty error
list no vertex can be picked as a real task. -/
theorem failure_stops_launches (c : Cfg) (s : Sched) (v : Nat) (h : s.errs ≠ []) :
    step? c s (.pickReal v) = none := by
  simp [step?]
  intro _ _ _ _ _ he
  exact absurd he h

/-- once the cancellation was observed the error list is non-empty, so nothing is launched, while
in-flight tasks can still hand over their results (`recv` does not look at the error list) -/
theorem cancel_stops (c : Cfg) (s s' : Sched) (hs : step? c s .cancel = some s') :
    s'.errs ≠ [] ∧ s'.cancelled = true ∧ ∀ v, step? c s' (.pickReal v) = none := by
  simp [step?] at hs
  obtain ⟨_, _, rfl⟩ := hs
  refine ⟨by simp, rfl, fun v => failure_stops_launches c _ v (by simp)⟩

/-- the cancellation is reported once: it cannot be observed a second time -/
theorem cancel_once (c : Cfg) (s : Sched) (h : s.cancelled = true) : step? c s .cancel = none := by
  simp [step?, h]

/-- **A dependent of a failed task is never started.**  If the final attempt of `d` failed (or `d` was
never started), no task that transitively depends on `d` is ever entered — in any reachable state. -/
theorem dependents_of_failed_never_run (c : Cfg) (hc : Scheduled c) (s : Sched) (hr : Reachable c s) (v d : Nat)
    (hp : Path c.g.children v d) (hbad : (s.get d).out ≠ some .ok ∨ (s.get d).real = false) :
    (s.get v).real = false := by
  cases hv : (s.get v).real with
  | false => rfl
  | true =>
    have := real_descendants_done c hc s hr v d hv hp
    rcases hbad with h | h
    · exact absurd this.2.1 h
    · rw [h] at this; cases this.2.2

/-- **The final report.**  The error value `Run` returns after a trace consists of exactly: one entry
per task whose final attempt failed, one `ErrorTaskSkipped` entry per vertex completed in error mode,
and the cancellation entry if it was observed. -/
theorem final_report (c : Cfg) (evs : List Event) (s : Sched) (i : Nat) (ha : accept c initSched evs i = .ok s) :
    s.errs = evs.filterMap entryOf := by
  have := accept_errs c evs initSched s i ha
  simpa [initSched] using this

/-- a vertex marked through `ErrorSkipParents` is never picked in error mode afterwards, hence never
reported as skipped from then on; it is only ever pseudo-processed -/
theorem marked_not_reported (c : Cfg) (hc : Scheduled c) (s : Sched) (hr : Reachable c s) (v : Nat)
    (hm : (s.get v).marked = true) :
    step? c s (.pickErr v) = none ∧ step? c s (.pickReal v) = none := by
  have hinv := reachable_sinv c hc.ancOK s hr
  have hst := (hinv.a4 v hm).1
  constructor <;> simp [step?] <;> intro _ _ _ _ h <;> exact absurd h hst

/-- `ErrorSkipParents` marks every transitive dependent, does not touch the error list, and is
therefore not a failure by itself -/
theorem skipParents_effect (c : Cfg) (hc : Scheduled c) (s s' : Sched) (hr : Reachable c s) (v : Nat)
    (hs : step? c s (.recv v .skipParents) = some s') :
    s'.errs = s.errs ∧ (∀ a, a ∈ anc c v → (s'.get a).marked = true ∧ (s'.get a).st = .skip) := by
  have he := step_errs c s s' _ hs
  simp [entryOf] at he
  refine ⟨he, ?_⟩
  simp only [step?] at hs
  split at hs
  · simp at hs
  · split at hs
    · simp only [Option.some.injEq] at hs; subst hs
      intro a ha
      rw [markAncestors_get]; simp [ha, markOne]
    · simp at hs

/-- the ancestors marked are all transitive dependents: the direct ones and, recursively, theirs -/
theorem anc_covers_dependents (c : Cfg) (hc : Scheduled c) (v : Nat) :
    (∀ p, p ∈ c.g.parents v → p ∈ anc c v) ∧ (∀ x q, x ∈ anc c v → q ∈ c.g.parents x → q ∈ anc c v) :=
  ⟨hc.ancOK.direct v, hc.ancOK.closed v⟩

/-- **Run returns nil exactly when nothing failed**: when the loop ends with an empty error list, every
vertex is done and its last completion is nil (a real success, or a pseudo completion of a vertex
skipped through `ErrorSkipParents`) or `ErrorSkipParents` itself. -/
theorem nil_result (c : Cfg) (hc : Scheduled c) (s : Sched) (hr : Reachable c s) (hd : allDone c s = true)
    (he : s.errs = []) (v : Nat) (hv : v ∈ c.g.ids) :
    ((s.get v).out = some .ok ∧ ((s.get v).real = true ∨ (s.get v).marked = true)) ∨
    ((s.get v).out = some .skipParents ∧ (s.get v).real = true) := by
  have hinv := reachable_sinv c hc.ancOK s hr
  have hdone : (s.get v).st = .done := by
    simp only [allDone, List.all_eq_true, beq_iff_eq] at hd; exact hd v hv
  have hce := hinv.ce he v
  cases ho : (s.get v).out with
  | none => exact absurd ho (hinv.d v hdone)
  | some r =>
    cases r with
    | ok => exact Or.inl ⟨rfl, hinv.e v ho⟩
    | err => exact absurd ho hce.1
    | skipParents => exact Or.inr ⟨rfl, hinv.sk v ho⟩
    | taskSkipped => exact absurd ho hce.2.1

/-- conversely a recorded failure, skip-in-error-mode or cancellation makes the result non-nil -/
theorem failure_reported (c : Cfg) (s s' : Sched) (v : Nat) (r : Res) (hr : r = .err ∨ r = .taskSkipped)
    (hs : step? c s (.recv v r) = some s') : s'.errs ≠ [] := by
  have := step_errs c s s' _ hs
  rcases hr with rfl | rfl <;> simp [entryOf] at this <;> rw [this] <;> simp

/-! Non-vacuity: 2 → 1, task 1 fails: task 2 is completed in error mode and reported as skipped. -/
example : ((accept demoCfg initSched
    [.pickReal 1, .semAcq 1, .lockAcq 1, .enter 1 0, .leave 1 0 .err, .recv 1 .err, .semRel 1,
     .pickErr 2, .recv 2 .taskSkipped, .exit] 0).toOption.map (·.errs)) = some [.task 1, .skipped 2] := by
  decide
example : ((accept demoCfg initSched
    [.pickReal 1, .semAcq 1, .lockAcq 1, .enter 1 0, .leave 1 0 .skipParents, .recv 1 .skipParents, .semRel 1,
     .pickSkip 2, .recv 2 .ok, .exit] 0).toOption.map (·.errs)) = some [] := by
  decide

/-! ## a later `Run` of the same graph

`Lemmas/Rerun.lean`: `rerun s` is the state in which a later `Run` of the same `*Graph` enters its loop
(statuses and collected errors kept; channels, semaphore and the cancellation flag new), `secondRunEarly`
its first statement (`if len(g.errs.Errors) != 0 { return g.errs }`). -/

/-- **A second run starts nothing** (`second_run_starts_nothing`), restated for reachable states: once a
`Run` has returned, a later `Run` of the same graph can pick no vertex, receive nothing, run no
goroutine step; only the end of the loop (and, in the model, the cancellation) is possible. -/
theorem second_run_quiet (c : Cfg) (s s' : Sched) (ev : Event) (hr : Reachable c s) (hx : s.exited = true)
    (hs : step? c (rerun s) ev = some s') : ev = .exit ∨ ev = .cancel :=
  second_run_starts_nothing c s s' ev (reachable_exitInv c s hr hx) hs

/-- **Same verdict** (`second_run_same_verdict`): a failed run stays failed - a later `Run` returns the
same non-empty error list at once; a run that returned nil is followed by a run that starts nothing and
returns nil. -/
theorem second_run_verdict (c : Cfg) (s : Sched) (hr : Reachable c s) (hx : s.exited = true) :
    (s.errs ≠ [] → secondRunEarly s = some s.errs) ∧
    (s.errs = [] → secondRunEarly s = none ∧
      ∃ s', step? c (rerun s) .exit = some s' ∧ s'.errs = [] ∧ s'.exited = true) := by
  have h := second_run_same_verdict c s hr hx
  exact ⟨h.1, fun he => ⟨(h.2 he).1, (h.2 he).2.2⟩⟩

/-! Non-vacuity: the failed run of the example above has exited with two entries; a second `Run`
returns them at once. -/
example : ((accept demoCfg initSched
    [.pickReal 1, .semAcq 1, .lockAcq 1, .enter 1 0, .leave 1 0 .err, .recv 1 .err, .semRel 1,
     .pickErr 2, .recv 2 .taskSkipped, .exit] 0).toOption.map fun s => (s.exited, secondRunEarly s)) =
    some (true, some [.task 1, .skipped 2]) := by
  decide

end GoModel.Dag

import Props.C19
import Lemmas.Lookup
import Props.C10
/-!
# C17 — completion offers exactly the applicable commands, options and values
-/
namespace GoModel

variable (ext : Ext)

/-- the candidates one table entry contributes (independent of the other entries) -/
def candsOfKey (target : Str) (P : Prog) (w part : Str) (kv : Str × Nat) : List Str :=
  let k := kv.1
  let o := P.opt kv.2
  if k == [chDash] then (if w == [chDash] then [k] else [])
  else
    (if hasPrefix k part then [b "--" ++ k ++ (if o.kind != .bool then [chEq] else [])] else []) ++
    (if containsByte part chEq && hasPrefix part (k ++ [chEq]) then
      (if o.suggested.isEmpty then [] else valueCands target k w o.suggested) ++
      (match o.suggestFn with
       | some f => valueCands target k w (ext.valueFn f target (afterEq w))
       | none => [])
     else [])

/-- the candidate list built by the loop over the option table is the concatenation of the
per-entry contributions, in iteration order -/
theorem optCand_fst (target : Str) (P : Prog) (w part : Str) (l : List (Str × Nat)) (acc : List Str × Option Nat) :
    (l.foldl (optCandStep ext target P w part) acc).1 = acc.1 ++ l.flatMap (candsOfKey ext target P w part) := by
  induction l generalizing acc with
  | nil => simp
  | cons kv l ih =>
    simp only [List.foldl, List.flatMap_cons]
    rw [ih]
    obtain ⟨k, oid⟩ := kv
    have : (optCandStep ext target P w part acc (k, oid)).1 = acc.1 ++ candsOfKey ext target P w part (k, oid) := by
      unfold optCandStep candsOfKey
      simp only
      split
      · split <;> simp
      · split <;> split <;> simp <;> rfl
    rw [this]
    simp

/-- **Options offered.**  For a last word `w` starting with `-` the candidates before the
single-candidate hint are, up to order, exactly the per-key contributions of the current level's
table (names and aliases, own and inherited): `--k` / `--k=` for every key that starts with the typed
text, the lonesome dash only for `-`, and value candidates for `--k=…`. -/
theorem option_candidates_perm (target : Str) (P : Prog) (nd : Node) (w : Str) :
    (sortStrs (nd.opts.foldl (optCandStep ext target P w (trimDash (trimDash w))) ([], none)).1).Perm
      (nd.opts.flatMap (candsOfKey ext target P w (trimDash (trimDash w)))) := by
  rw [optCand_fst]
  simpa using sortStrs_perm _

/-- every key offered as `--k…` is a key of the table and starts with the typed text -/
theorem offered_key_is_key (target : Str) (P : Prog) (nd : Node) (w part : Str) (c : Str)
    (h : c ∈ nd.opts.flatMap (candsOfKey ext target P w part)) :
    ∃ kv ∈ nd.opts, c ∈ candsOfKey ext target P w part kv := by
  simpa [List.mem_flatMap] using h

/-- an offered key is accepted by the parser at that level: it resolves to itself (never unknown,
never ambiguous) -/
theorem offered_key_accepted (nd : Node) (k : Str) (oid : Nat) (hk : (k, oid) ∈ nd.opts) :
    ∃ o, resolve nd k = [k] ∧ lookup k nd.opts = some o := by
  obtain ⟨o, ho⟩ := lookup_some_of_mem nd.opts k (List.mem_map.mpr ⟨(k, oid), hk, rfl⟩)
  exact ⟨o, resolve_exact' nd k o ho, ho⟩

/-- **Commands and arguments offered.**  Otherwise the candidates are exactly: the sub-commands of
the level (the help command included) whose name starts with the typed word, the static argument
suggestions that start with it, and whatever the dynamic completion functions return — sorted. -/
theorem arg_candidates (target : Str) (nd : Node) (text : List Str) (w : Str) (c : Str) (hz : target ≠ b "bash") :
    c ∈ argCompletions ext target nd text w ↔
      ((∃ id, (c, id) ∈ nd.cmds ∧ hasPrefix c w = true) ∨ (c ∈ nd.suggestions ∧ hasPrefix c w = true) ∨
       (∃ f ∈ nd.suggestFns, c ∈ ext.argFn f target text w)) := by
  have hb : (target == b "bash") = false := by simpa using hz
  have key : c ∈ sortStrs (((nd.cmds.filter fun kv => hasPrefix kv.1 w).map (·.1)) ++
      (nd.suggestions.filter fun e => hasPrefix e w) ++ (nd.suggestFns.flatMap fun f => ext.argFn f target text w)) ↔
      ((∃ id, (c, id) ∈ nd.cmds ∧ hasPrefix c w = true) ∨ (c ∈ nd.suggestions ∧ hasPrefix c w = true) ∨
       (∃ f ∈ nd.suggestFns, c ∈ ext.argFn f target text w)) := by
    rw [(sortStrs_perm _).mem_iff]
    simp only [List.mem_append, List.mem_map, List.mem_filter, List.mem_flatMap, or_assoc]
    constructor
    · rintro (⟨kv, ⟨h1, h2⟩, h3⟩ | h | h)
      · exact Or.inl ⟨kv.2, by rw [← h3]; exact h1, by rw [← h3]; exact h2⟩
      · exact Or.inr (Or.inl h)
      · exact Or.inr (Or.inr h)
    · rintro (⟨id, h1, h2⟩ | h | h)
      · exact Or.inl ⟨(c, id), ⟨h1, h2⟩, rfl⟩
      · exact Or.inr (Or.inl h)
      · exact Or.inr (Or.inr h)
  unfold argCompletions
  simp only
  revert key
  generalize sortStrs (((nd.cmds.filter fun kv => hasPrefix kv.1 w).map (·.1)) ++
      (nd.suggestions.filter fun e => hasPrefix e w) ++ (nd.suggestFns.flatMap fun f => ext.argFn f target text w)) = cs
  intro key
  split
  · simp only [hb, Bool.false_eq_true, ↓reduceIte]; exact key
  · exact key

/-- for bash a single candidate gets a trailing blank (so that the shell moves on); nothing else changes -/
theorem arg_candidates_bash_single (nd : Node) (text : List Str) (w c0 : Str)
    (hone : sortStrs (((nd.cmds.filter fun kv => hasPrefix kv.1 w).map (·.1)) ++
      (nd.suggestions.filter fun e => hasPrefix e w) ++ (nd.suggestFns.flatMap fun f => ext.argFn f (b "bash") text w)) = [c0]) :
    argCompletions ext (b "bash") nd text w = [c0 ++ [chSp]] := by
  unfold argCompletions
  simp only [hone]
  simp

/-- an offered command is a child of the level: the parser descends into it -/
theorem offered_command_accepted (nd : Node) (c : Str) (id : Nat) (h : (c, id) ∈ nd.cmds) :
    ∃ id', lookup c nd.cmds = some id' :=
  lookup_some_of_mem nd.cmds c (List.mem_map.mpr ⟨(c, id), h, rfl⟩)

/-- the candidate lists are sorted (bytewise) -/
theorem arg_candidates_sorted (target : Str) (nd : Node) (text : List Str) (w : Str) :
    (sortStrs (((nd.cmds.filter fun kv => hasPrefix kv.1 w).map (·.1)) ++
      (nd.suggestions.filter fun e => hasPrefix e w) ++ (nd.suggestFns.flatMap fun f => ext.argFn f target text w))).Pairwise (fun a c => le a c = true) →
    (argCompletions ext target nd text w).Pairwise (fun a c => le a c = true) := by
  unfold argCompletions
  simp only
  generalize sortStrs (((nd.cmds.filter fun kv => hasPrefix kv.1 w).map (·.1)) ++
      (nd.suggestions.filter fun e => hasPrefix e w) ++ (nd.suggestFns.flatMap fun f => ext.argFn f target text w)) = cs
    at *
  intro hs
  split
  · split
    · simp
    · exact hs
  · exact hs

theorem option_candidates_sorted (target : Str) (P : Prog) (nd : Node) (w : Str) :
    (optionCompletions ext target P nd w).Pairwise (fun a c => le a c = true) := by
  unfold optionCompletions
  simp only
  split
  · split
    · exact sortStrs_sorted _
    · exact sortStrs_sorted _
  · exact sortStrs_sorted _

/-- completion never runs a command function and always ends on the exit path: the outcome is a
candidate list or an error message, nothing else -/
theorem complete_outcome (P : Prog) (zsh : Bool) (line : Str) (args : List Str) :
    (∃ l, completeUser ext P zsh line args = .candidates l) ∨ (∃ e, completeUser ext P zsh line args = .error e) := by
  unfold completeUser
  simp only
  split
  · exact Or.inr ⟨_, rfl⟩
  · exact Or.inl ⟨_, rfl⟩

/-! Non-vacuity -/
example : completeUser Demo.ext Demo.prog true (b "./prog --ver") [] =
    .candidates [b "--verbose", b "--version"] := by decide
example : completeUser Demo.ext Demo.prog true (b "./prog c") [] = .candidates [b "cmd"] := by decide
example : completeUser Demo.ext Demo.prog false (b "./prog cmd --fo") [] =
    .candidates [b "--force"] := by decide

variable (mode : Mode)

/-! ## whole line: the level reached by the earlier words -/

/-- **What is offered is computed at the level the earlier words lead to, with the parser's own walk.**  The
earlier words are processed by the same `run` as `Parse`; when they leave the parser at a head position (no error,
no option waiting for a value), the candidates for the last word `w` are exactly `completionsAt` of the command
selected by those words — its option table (own and inherited keys) when `w` starts with `-`, its sub-commands,
static suggestions and dynamic functions otherwise, the latter called with the text that belongs to that command. -/
theorem completion_at_reached_level (target : Str) (P : Prog) (earlier : List Str) (w : Str)
    (he : (run ext mode P earlier).err = none) (hc : (run ext mode P earlier).ctx = .idle) :
    let s := run ext mode P earlier
    (completeArgs ext mode target P (earlier ++ [w])).comps =
      some (completionsAt ext target s.P (s.P.node s.cur) (s.rem.drop s.textStart) w) ∧
    (completeArgs ext mode target P (earlier ++ [w])).err = none := by
  simp only
  unfold completeArgs
  simp only [List.getLast?_append, List.getLast?_singleton, Option.some_or, List.dropLast_concat]
  generalize run ext mode P earlier = s at he hc
  simp only [stepG, he, hc, head, finish, Option.isSome_none, Bool.false_eq_true, ↓reduceIte]
  trivial

/-- after the command words `c₁ … cₖ` the candidates are those of the command the chain leads to -/
theorem completion_after_command_words (target : Str) (P : Prog) (words : List Str) (node : Nat) (w : Str)
    (hw : ∀ x ∈ words, x ≠ dashdash ∧ (isOption x mode).2 = false)
    (hf : follows P 0 words = some node) :
    (completeArgs ext mode target P (words ++ [w])).comps =
      some (completionsAt ext target P (P.node node) [] w) := by
  have h := command_words_select ext mode words (initState P) node rfl rfl hw hf
  obtain ⟨h1, h2, h3, h4, h5, h6⟩ := h
  have := (completion_at_reached_level ext mode target P words w h5 h6).1
  rw [this]
  unfold run
  rw [h1, h2, h3]
  simp [initState]

/-- **Values offered after `--key=`.**  The value candidates are exactly the declared (or computed) values whose
full spelling `--key=value` starts with the typed word — each offered as that full spelling for zsh, and as the
text after the first `=` for bash; nothing else, and none of them left out. -/
theorem value_candidates (target k w : Str) (vals : List Str) (c : Str) :
    c ∈ valueCands target k w vals ↔
      ∃ e ∈ vals, hasPrefix (b "--" ++ k ++ [chEq] ++ e) w = true ∧
        c = (if target == b "bash" then afterEq (b "--" ++ k ++ [chEq] ++ e) else b "--" ++ k ++ [chEq] ++ e) := by
  unfold valueCands
  simp only [List.mem_filterMap]
  constructor
  · rintro ⟨e, he, h⟩
    by_cases hp : hasPrefix (b "--" ++ k ++ [chEq] ++ e) w = true
    · simp only [hp, ↓reduceIte, Option.some.injEq] at h
      exact ⟨e, he, hp, h.symm⟩
    · simp only [hp, Bool.false_eq_true, ↓reduceIte] at h
      cases h
  · rintro ⟨e, he, hp, hc⟩
    exact ⟨e, he, by simp only [hp, ↓reduceIte, Option.some.injEq]; exact hc.symm⟩

theorem length_filterMap_ite {α β} (l : List α) (p : α → Bool) (f : α → β) :
    (l.filterMap fun e => if p e = true then some (f e) else none).length = (l.filter p).length := by
  induction l with
  | nil => rfl
  | cons e r ih =>
    simp only [List.filterMap_cons, List.filter_cons]
    cases hp : p e <;> simp [ih]

/-- as many candidates as declared values that fit: a value declared twice is offered twice, none is dropped -/
theorem value_candidates_length (target k w : Str) (vals : List Str) :
    (valueCands target k w vals).length = (vals.filter fun e => hasPrefix (b "--" ++ k ++ [chEq] ++ e) w).length :=
  length_filterMap_ite vals (fun e => hasPrefix (b "--" ++ k ++ [chEq] ++ e) w)
    (fun e => if target == b "bash" then afterEq (b "--" ++ k ++ [chEq] ++ e) else b "--" ++ k ++ [chEq] ++ e)

example : valueCands (b "zsh") (b "env") (b "--env=d") [b "dev", b "staging", b "demo"] =
    [b "--env=dev", b "--env=demo"] ∧
  valueCands (b "bash") (b "env") (b "--env=d") [b "dev", b "staging", b "demo"] = [b "dev", b "demo"] := by decide


end GoModel

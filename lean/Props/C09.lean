import Props.C04
import Model.Define
/-!
# C09 — require-order stops at the first non-option and hands the rest over verbatim
-/
namespace GoModel

variable (ext : Ext) (mode : Mode)

/-- With require-order, a head token that is neither option-looking nor a sub-command name stops the
parser: the token itself is kept and the parser enters the stopped state. -/
theorem ro_stop_text (s : PState) (t : Str) (he : s.err = none) (hc : s.ctx = .idle)
    (hd : t ≠ dashdash) (hno : (isOption t mode).2 = false)
    (hcmd : lookup t (s.P.node s.cur).cmds = none) (hro : (s.P.node s.cur).requireOrder = true) :
    step ext mode s t = { s with rem := s.rem ++ [t], ctx := .stopped } := by
  have hd' : (t == dashdash) = false := by simpa using hd
  have : isOption t mode = ((isOption t mode).1, false) := by rw [← hno]
  simp only [step, stepG, he, hc, head, hd']
  rw [this]
  simp [hcmd, hro, PState.addText, he]

/-- With require-order, the first unknown option stops the parser as well: the whole token is kept
verbatim (once), nothing is recorded as unknown, and the remaining letters of a bundle are dropped. -/
theorem ro_stop_unknown (s : PState) (p : Pair)
    (hr : resolve (s.P.node s.cur) p.opt = []) (hro : (s.P.node s.cur).requireOrder = true) :
    procPair ext s p = { s with rem := s.rem ++ [s.tok], ctx := .stopped, pending := [] } := by
  rw [procPair_unknown_ro ext s p hr hro]; rfl

/-- After the stop point every token — known option names, `--`, command names — is returned
verbatim and in order, and no option is set or marked called, no command selected, no unknown option
recorded. -/
theorem ro_tail_verbatim (s : PState) (t : Str) (tail : List Str) (he : s.err = none) (hc : s.ctx = .idle)
    (hd : t ≠ dashdash) (hno : (isOption t mode).2 = false)
    (hcmd : lookup t (s.P.node s.cur).cmds = none) (hro : (s.P.node s.cur).requireOrder = true) :
    let r := finish ext ((t :: tail).foldl (step ext mode) s)
    r.P = s.P ∧ r.cur = s.cur ∧ r.unk = s.unk ∧ r.err = none ∧ r.rem = s.rem ++ t :: tail := by
  simp only [List.foldl]
  rw [ro_stop_text ext mode s t he hc hd hno hcmd hro]
  have := after_stop ext mode { s with rem := s.rem ++ [t], ctx := .stopped } tail (by simpa using he) rfl
  simpa using this

/-- a sub-command name at a head position is still followed under require-order (the stop happens
at the first token that is neither a known option, nor a value, nor a sub-command name) -/
theorem ro_command_descends (s : PState) (t : Str) (c : Nat) (he : s.err = none) (hc : s.ctx = .idle)
    (hd : t ≠ dashdash) (hno : (isOption t mode).2 = false)
    (hcmd : lookup t (s.P.node s.cur).cmds = some c) :
    step ext mode s t = { s with cur := c, textStart := s.rem.length } := by
  have hd' : (t == dashdash) = false := by simpa using hd
  have : isOption t mode = ((isOption t mode).1, false) := by rw [← hno]
  simp only [step, stepG, he, hc, head, hd']
  rw [this]
  simp [hcmd]

/-- commands created after `SetRequireOrder` carry the flag (and the unknown-mode) of their parent -/
theorem ro_inherited (env : Env) (st st' : BState) (h : Nat) (name desc : Str)
    (hb : buildStep ext env st (.cmd h name desc) = .ok st') (p : Nat) (hp : st.handles[h]? = some p) :
    ∃ id, st'.handles = st.handles ++ [id] ∧ id = st.P.nodes.length := by
  simp only [buildStep, handle, hp, bind, Except.bind] at hb
  split at hb
  · simp at hb
  · rename_i v hv
    obtain ⟨P1, id⟩ := v
    simp only [pure, Except.pure, Except.ok.injEq] at hb
    refine ⟨id, by rw [← hb], ?_⟩
    unfold addChildCommand at hv
    split at hv
    · simp at hv
    · split at hv
      · simp at hv
      · simp only [Except.ok.injEq, Prod.mk.injEq] at hv
        exact hv.2.symm

/-! Non-vacuity: require-order on the demo program. -/
example :
    let P := Demo.prog.modNode 0 fun n => { n with requireOrder := true }
    (parseUser Demo.ext P [b "--num", b "1", b "-v", b "stop", b "--name=x", b "--", b "cmd"]).remaining =
      some [b "stop", b "--name=x", b "--", b "cmd"] ∧
    ((parseUser Demo.ext P [b "--num", b "1", b "-v", b "stop", b "--name=x", b "--", b "cmd"]).st.P.opt 0).called = false ∧
    ((parseUser Demo.ext P [b "--num", b "1", b "-v", b "stop", b "--name=x", b "--", b "cmd"]).st.P.opt 1).called = true := by
  decide

end GoModel

import Props.C04
import Lemmas.RoEquiv
import Lemmas.Tree
import Lemmas.Collect
/-!
# C09 — require-order stops at the first non-option and hands the rest over verbatim
-/
namespace GoModel

variable (ext : Ext) (mode : Mode)

/-- With require-order, a head token that is neither option-looking nor a sub-command name stops the
parser: the token itself is kept and the parser enters the stopped state. -/
theorem ro_stop_text (s : PState) (t : Str) (he : s.err = none) (hc : s.ctx = .idle)
    (hd : t ≠ dashdash) (hno : (isOption t mode).2 = false)
    (hcmd : lookup t (s.P.node s.cur).cmds = none) (hro : (s.P.node s.cur).requireOrder = true) :
    step ext mode s t = { s with rem := s.rem ++ [t], ctx := .stopped } := by
  have hd' : (t == dashdash) = false := by simpa using hd
  have : isOption t mode = ((isOption t mode).1, false) := by rw [← hno]
  simp only [step, stepG, he, hc, head, hd']
  rw [this]
  simp [hcmd, hro, PState.addText, he]

/-- With require-order, the first unknown option stops the parser as well: the whole token is kept
verbatim (once), nothing is recorded as unknown, and the remaining letters of a bundle are dropped. -/
theorem ro_stop_unknown (s : PState) (p : Pair)
    (hr : resolve (s.P.node s.cur) p.opt = []) (hro : (s.P.node s.cur).requireOrder = true) :
    procPair ext s p = { s with rem := s.rem ++ [s.tok], ctx := .stopped, pending := [] } := by
  rw [procPair_unknown_ro ext s p hr hro]; rfl

/-- After the stop point every token — known option names, `--`, command names — is returned
verbatim and in order, and no option is set or marked called, no command selected, no unknown option
recorded. -/
theorem ro_tail_verbatim (s : PState) (t : Str) (tail : List Str) (he : s.err = none) (hc : s.ctx = .idle)
    (hd : t ≠ dashdash) (hno : (isOption t mode).2 = false)
    (hcmd : lookup t (s.P.node s.cur).cmds = none) (hro : (s.P.node s.cur).requireOrder = true) :
    let r := finish ext ((t :: tail).foldl (step ext mode) s)
    r.P = s.P ∧ r.cur = s.cur ∧ r.unk = s.unk ∧ r.err = none ∧ r.rem = s.rem ++ t :: tail := by
  simp only [List.foldl]
  rw [ro_stop_text ext mode s t he hc hd hno hcmd hro]
  have := after_stop ext mode { s with rem := s.rem ++ [t], ctx := .stopped } tail (by simpa using he) rfl
  simpa using this

/-- a sub-command name at a head position is still followed under require-order (the stop happens
at the first token that is neither a known option, nor a value, nor a sub-command name) -/
theorem ro_command_descends (s : PState) (t : Str) (c : Nat) (he : s.err = none) (hc : s.ctx = .idle)
    (hd : t ≠ dashdash) (hno : (isOption t mode).2 = false)
    (hcmd : lookup t (s.P.node s.cur).cmds = some c) :
    step ext mode s t = { s with cur := c, textStart := s.rem.length } := by
  have hd' : (t == dashdash) = false := by simpa using hd
  have : isOption t mode = ((isOption t mode).1, false) := by rw [← hno]
  simp only [step, stepG, he, hc, head, hd']
  rw [this]
  simp [hcmd]

/-- With require-order, an option token whose first pair names no declared option stops the parser:
the whole token is kept verbatim (once), nothing is recorded as unknown, no later letter of the token
is interpreted. -/
theorem ro_stop_unknown_token (s : PState) (t : Str) (p : Pair) (ps : List Pair)
    (he : s.err = none) (hc : s.ctx = .idle) (hopt : isOption t mode = (p :: ps, true))
    (hr : resolve (s.P.node s.cur) p.opt = []) (hro : (s.P.node s.cur).requireOrder = true) :
    step ext mode s t =
      { s with rem := s.rem ++ [t], ctx := .stopped, pending := [], tok := t, lastTok := t, passed := false } := by
  have hd : t ≠ dashdash := by
    intro e; subst e; simp [isOption, dashdash] at hopt
  rw [step_head_option ext mode s t _ he hc hd hopt]
  unfold drain
  simp only
  rw [procPair_unknown_ro ext _ p (by simpa [headState] using hr) (by simpa [headState] using hro)]
  simp [headState, PState.addText, he]

/-- **Everything before the stop point is parsed exactly as without require-order**: as long as the
parser has not stopped after the tokens `pre`, its state is the state of the same program with every
require-order flag cleared (`cl` only clears the flags in the carried program). -/
theorem ro_prefix_as_without (P : Prog) (pre : List Str) (h : (run ext mode P pre).ctx ≠ .stopped) :
    run ext mode P.clearRO pre = (run ext mode P pre).cl :=
  run_cl ext mode P pre h

/-- **The property for a positional stop token.**  `pre` leaves the parser at a head position of a
level with require-order; `t` is neither option-looking, nor `--`, nor a sub-command name.  Then the
parse of `pre ++ t :: tail` succeeds with: the options, selected command and unknown-option log of
the parse of `pre` *without* require-order; and `remaining` = what `pre` left there, then `t`, then
`tail` verbatim — whatever `tail` contains. -/
theorem ro_parse_text_stop (P : Prog) (pre tail : List Str) (t : Str)
    (he : (run ext mode P pre).err = none) (hc : (run ext mode P pre).ctx = .idle)
    (hd : t ≠ dashdash) (hno : (isOption t mode).2 = false)
    (hcmd : lookup t ((run ext mode P pre).P.node (run ext mode P pre).cur).cmds = none)
    (hro : ((run ext mode P pre).P.node (run ext mode P pre).cur).requireOrder = true) :
    let r := parseArgs ext mode P (pre ++ t :: tail)
    let w := run ext mode P.clearRO pre
    r.P.clearRO = w.P ∧ r.cur = w.cur ∧ r.unk = w.unk ∧ r.err = none ∧ r.rem = w.rem ++ t :: tail := by
  have hns : (run ext mode P pre).ctx ≠ .stopped := by rw [hc]; intro e; cases e
  have hw := run_cl ext mode P pre hns
  have := ro_tail_verbatim ext mode (run ext mode P pre) t tail he hc hd hno hcmd hro
  simp only at this ⊢
  unfold parseArgs
  rw [run_append, hw]
  obtain ⟨h1, h2, h3, h4, h5⟩ := this
  exact ⟨by rw [h1]; rfl, h2, h3, h4, h5⟩

/-- **The property for an unknown-option stop token** (same conclusion). -/
theorem ro_parse_unknown_stop (P : Prog) (pre tail : List Str) (t : Str) (p : Pair) (ps : List Pair)
    (he : (run ext mode P pre).err = none) (hc : (run ext mode P pre).ctx = .idle)
    (hopt : isOption t mode = (p :: ps, true))
    (hr : resolve ((run ext mode P pre).P.node (run ext mode P pre).cur) p.opt = [])
    (hro : ((run ext mode P pre).P.node (run ext mode P pre).cur).requireOrder = true) :
    let r := parseArgs ext mode P (pre ++ t :: tail)
    let w := run ext mode P.clearRO pre
    r.P.clearRO = w.P ∧ r.cur = w.cur ∧ r.unk = w.unk ∧ r.err = none ∧ r.rem = w.rem ++ t :: tail := by
  have hns : (run ext mode P pre).ctx ≠ .stopped := by rw [hc]; intro e; cases e
  have hw := run_cl ext mode P pre hns
  have hst := ro_stop_unknown_token ext mode (run ext mode P pre) t p ps he hc hopt hr hro
  simp only
  unfold parseArgs
  rw [run_append, hw]
  simp only [List.foldl_cons]
  rw [hst]
  have := after_stop ext mode
    { run ext mode P pre with rem := (run ext mode P pre).rem ++ [t], ctx := .stopped, pending := [], tok := t,
                              lastTok := t, passed := false } tail (by simpa using he) rfl
  simp only at this
  obtain ⟨h1, h2, h3, h4, h5⟩ := this
  refine ⟨by rw [h1]; rfl, h2, h3, h4, ?_⟩
  rw [h5]; simp [PState.cl]

/-- **… and when the stop token reaches the head position only after being refused as a value**: `pre` leaves an
occurrence open that already has its minimum (an optional value, a slice or map below its maximum) and nothing
pending; the unknown-option token `t` looks like an option, so the open occurrence refuses it, and it is then the
require-order stop token exactly as at a head position — same conclusion. -/
theorem ro_parse_unknown_stop_open (P : Prog) (pre tail : List Str) (t : Str) (p : Pair) (ps : List Pair) (o i : Nat)
    (he : (run ext mode P pre).err = none) (hc : (run ext mode P pre).ctx = .collecting o i)
    (hp : (run ext mode P pre).pending = [])
    (hmin : ¬ (i : Int) < ((run ext mode P pre).P.opt o).min)
    (hopt : isOption t mode = (p :: ps, true))
    (hr : resolve ((run ext mode P pre).P.node (run ext mode P pre).cur) p.opt = [])
    (hro : ((run ext mode P pre).P.node (run ext mode P pre).cur).requireOrder = true) :
    let r := parseArgs ext mode P (pre ++ t :: tail)
    let w := run ext mode P.clearRO pre
    r.P.clearRO = w.P ∧ r.cur = w.cur ∧ r.unk = w.unk ∧ r.err = none ∧ r.rem = w.rem ++ t :: tail := by
  have hns : (run ext mode P pre).ctx ≠ .stopped := by rw [hc]; intro e; cases e
  have hw := run_cl ext mode P pre hns
  have hlook : looksLikeOption t mode = true := by simp [looksLikeOption, hopt]
  have hidle := refused_as_idle ext mode (run ext mode P pre) o i t he hc hp hmin (Or.inl hlook)
  have hst := ro_stop_unknown_token ext mode { run ext mode P pre with ctx := .idle } t p ps he rfl hopt hr hro
  simp only
  unfold parseArgs
  rw [run_append, hw]
  simp only [List.foldl_cons]
  rw [hidle, hst]
  have := after_stop ext mode
    { run ext mode P pre with rem := (run ext mode P pre).rem ++ [t], ctx := .stopped, pending := [], tok := t,
                              lastTok := t, passed := false } tail (by simpa using he) rfl
  simp only at this
  obtain ⟨h1, h2, h3, h4, h5⟩ := this
  refine ⟨by rw [h1]; rfl, h2, h3, h4, ?_⟩
  rw [h5]; simp [PState.cl]

/-- **Inheritance**: a command created under a parent carries the parent's require-order flag (and
unknown-mode), so the stop applies at every level created after `SetRequireOrder`. -/
theorem ro_inherited (env : Env) (st st' : BState) (h : Nat) (name desc : Str) (p : Nat)
    (hp : st.handles[h]? = some p) (hb : buildStep ext env st (.cmd h name desc) = .ok st') :
    st'.handles = st.handles ++ [st.P.nodes.length] ∧
    (st'.P.node st.P.nodes.length).requireOrder = (st.P.node p).requireOrder ∧
    (st'.P.node st.P.nodes.length).umode = (st.P.node p).umode := by
  have := cmd_inherits ext env st st' h name desc p hp hb
  exact ⟨this.1, this.2.1, this.2.2.1⟩

/-! Non-vacuity: require-order on the demo program. -/
example :
    let P := Demo.prog.modNode 0 fun n => { n with requireOrder := true }
    (parseUser Demo.ext P [b "--num", b "1", b "-v", b "stop", b "--name=x", b "--", b "cmd"]).remaining =
      some [b "stop", b "--name=x", b "--", b "cmd"] ∧
    ((parseUser Demo.ext P [b "--num", b "1", b "-v", b "stop", b "--name=x", b "--", b "cmd"]).st.P.opt 0).called = false ∧
    ((parseUser Demo.ext P [b "--num", b "1", b "-v", b "stop", b "--name=x", b "--", b "cmd"]).st.P.opt 1).called = true := by
  decide

/-- the hypotheses of `ro_parse_text_stop` and `ro_parse_unknown_stop` are met after a prefix that sets
a valued option and a flag -/
example :
    let P := Demo.prog.modNode 0 fun n => { n with requireOrder := true }
    let s := run Demo.ext .normal P [b "--num", b "1", b "-v"]
    s.err = none ∧ s.ctx = .idle ∧ (s.P.node s.cur).requireOrder = true ∧
    lookup (b "stop") (s.P.node s.cur).cmds = none ∧ (isOption (b "stop") .normal).2 = false ∧
    isOption (b "--zzz=1") .normal = ([⟨b "zzz", [b "1"]⟩], true) ∧ resolve (s.P.node s.cur) (b "zzz") = [] := by
  decide

end GoModel

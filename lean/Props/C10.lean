import Props.C03
import Lemmas.BuildInv
/-!
# C10 — dispatch runs exactly the addressed command once, with its options and arguments
-/
namespace GoModel

variable (ext : Ext) (mode : Mode)

/-- **Dispatch decision.**  When help was not requested and no required option is missing,
`Dispatch` does exactly one of: run the final node's own function once with the remaining arguments
(`ran`), or — when the node has no function — print landing help / report "no CommandFn" / print the
root help.  It never runs the function of any other node. -/
theorem dispatch_spec (s : PState) (rem : List Str)
    (hh : helpRequested s.P s.cur = false) (hr : checkRequired s.P s.cur = none)
    (hnh : (s.P.node s.cur).isHelp = false) :
    dispatch ext s rem =
      match (s.P.node s.cur).fn with
      | some f => .ran f s.cur rem
      | none =>
        if (s.P.node s.cur).parent.isSome then
          (if (s.P.node s.cur).cmds.length > 1 then .helpCalled (helpOutput ext s.P s.cur [])
           else .noCommandFn (s.P.node s.cur).name)
        else .rootHelp (helpOutput ext s.P s.cur []) := by
  unfold dispatch
  simp only [hh, hr, hnh, Bool.false_eq_true, ↓reduceIte]
  rfl

/-- whatever `Dispatch` runs is the function of the final node, called with the node reached by
`Parse` as its view and with the remaining arguments -/
theorem dispatch_ran (s : PState) (rem : List Str) (f n : Nat) (args : List Str)
    (h : dispatch ext s rem = .ran f n args) :
    (s.P.node s.cur).fn = some f ∧ n = s.cur ∧ args = rem := by
  unfold dispatch at h
  simp only at h
  split at h
  · simp at h
  · split at h
    · simp at h
    · split at h
      · split at h <;> (try split at h) <;> simp at h
      · split at h
        · rename_i f' hf
          simp only [DispatchOut.ran.injEq] at h
          exact ⟨by rw [hf, h.1], h.2.1.symm, h.2.2.symm⟩
        · split at h
          · split at h <;> simp at h
          · simp at h

/-! ## which tokens select a command -/

theorem drain_cur (ps : List Pair) (s : PState) : (drain ext s ps).cur = s.cur := by
  induction ps generalizing s with
  | nil => rfl
  | cons p ps ih =>
    unfold drain
    simp only
    have h1 := (procPair_cur_nodes ext { s with pending := ps } p).1
    split
    · exact h1
    · split
      · rw [ih]; exact h1
      · exact h1
      · exact h1

theorem drain_nodes (ps : List Pair) (s : PState) (n : Nat) : (drain ext s ps).P.node n = s.P.node n := by
  induction ps generalizing s with
  | nil => rfl
  | cons p ps ih =>
    unfold drain
    simp only
    have h1 := (procPair_cur_nodes ext { s with pending := ps } p).2 n
    split
    · exact h1
    · split
      · rw [ih]; exact h1
      · exact h1
      · exact h1

theorem afterConsume_cur (s : PState) (ps : List Pair) : (afterConsume ext s ps).cur = s.cur := by
  unfold afterConsume
  split
  · rfl
  · split
    · exact drain_cur ext ps s
    · rfl

/-- what a head token can do to the selected command -/
theorem head_cur (s : PState) (t : Str) :
    (head ext mode none s t).cur = s.cur ∨
    (t ≠ dashdash ∧ (isOption t mode).2 = false ∧ lookup t (s.P.node s.cur).cmds = some (head ext mode none s t).cur) := by
  unfold head
  simp only
  split
  · exact Or.inl rfl
  · rename_i hd
    split
    · exact Or.inl (drain_cur ext _ _)
    · rename_i x hno
      split
      · rename_i c hc
        refine Or.inr ⟨by simpa using hd, by rw [hno], hc⟩
      · split <;> exact Or.inl rfl

theorem feedPending_cur (t : Str) (ps : List Pair) (s : PState) :
    (feedPending ext mode none t s ps).cur = s.cur ∨
    (t ≠ dashdash ∧ (isOption t mode).2 = false ∧
      lookup t (s.P.node s.cur).cmds = some (feedPending ext mode none t s ps).cur) := by
  induction ps generalizing s with
  | nil => unfold feedPending; exact head_cur ext mode { s with pending := [] } t
  | cons p ps ih =>
    unfold feedPending
    simp only
    have h1 := procPair_cur_nodes ext { s with pending := ps } p
    split
    · exact Or.inl h1.1
    · split
      · have := ih (procPair ext { s with pending := ps } p)
        rw [h1.1, h1.2] at this
        exact this
      · rename_i o i _
        have hf := offer_frame ext mode (procPair ext { s with pending := ps } p) o i t
        simp only at hf
        split
        · rename_i s2 hoff
          have e2 : s2.cur = s.cur := by have := hf.2.2.2.1; rw [hoff] at this; rw [this, h1.1]
          exact Or.inl (by rw [afterConsume_cur, e2])
        · rename_i s2 hoff
          have e2 : s2.cur = s.cur := by have := hf.2.2.2.1; rw [hoff] at this; rw [this, h1.1]
          have e3 : ∀ n, s2.P.node n = s.P.node n := by
            intro n; have := hf.2.2.2.2.2.1 n; rw [hoff] at this; rw [this, h1.2]
          have := ih s2
          rw [e2, e3] at this
          exact this
      · exact Or.inl h1.1

/-- **A token selects a command only where a positional could stand.**  One step changes the
selected command only if the token is not `--`, does not look like an option, equals the name of a
child of the current command — and the parser is neither stopped (after `--` or the require-order
stop) nor is the token consumed as an option value. -/
theorem step_cur (s : PState) (t : Str) :
    (step ext mode s t).cur = s.cur ∨
    (s.ctx ≠ .stopped ∧ t ≠ dashdash ∧ (isOption t mode).2 = false ∧
      lookup t (s.P.node s.cur).cmds = some (step ext mode s t).cur) := by
  unfold step stepG
  split
  · exact Or.inl rfl
  · split
    · exact Or.inl rfl
    · exact Or.inl rfl
    · rename_i hc
      rcases head_cur ext mode s t with h | h
      · exact Or.inl h
      · exact Or.inr ⟨by rw [hc]; simp, h⟩
    · rename_i o i hc
      have hf := offer_frame ext mode s o i t
      simp only at hf
      split
      · rename_i s1 hoff
        have e1 : s1.cur = s.cur := by have := hf.2.2.2.1; rw [hoff] at this; exact this
        exact Or.inl (by rw [afterConsume_cur, e1])
      · rename_i s1 hoff
        have e1 : s1.cur = s.cur := by have := hf.2.2.2.1; rw [hoff] at this; exact this
        have e3 : ∀ n, s1.P.node n = s.P.node n := by
          intro n; have := hf.2.2.2.2.2.1 n; rw [hoff] at this; exact this
        rcases feedPending_cur ext mode t s1.pending s1 with h | h
        · exact Or.inl (by rw [h, e1])
        · rw [e1, e3] at h
          exact Or.inr ⟨by rw [hc]; simp, h⟩

/-- a token consumed as an option value never selects a command -/
theorem consumed_value_keeps_command (s : PState) (o i : Nat) (t : Str) (hc : s.ctx = .collecting o i)
    (he : s.err = none) (hcons : (offer ext mode s o i t).2 = true) :
    (step ext mode s t).cur = s.cur := by
  have hf := offer_frame ext mode s o i t
  simp only at hf
  have hpair : offer ext mode s o i t = ((offer ext mode s o i t).1, true) := by
    rw [← hcons]
  unfold step stepG
  simp only [he, hc, Option.isSome_none, Bool.false_eq_true, ↓reduceIte]
  rw [hpair]
  simp only
  rw [afterConsume_cur, hf.2.2.2.1]

/-! Non-vacuity -/
example : dispatch Demo.ext (parseUser Demo.ext Demo.prog [b "--num=1", b "cmd", b "--force", b "a"]).st [b "a"] =
    .ran 1 1 [b "a"] := by decide
/-- a command name after `--` or as an option value does not select the command -/
example : (parseUser Demo.ext Demo.prog [b "--num=1", b "--name", b "cmd", b "--", b "cmd"]).st.cur = 0 := by decide

/-! ## Inherited options (definition layer) -/

/-- **A new command sees every option of its parent through the very same cells.**  For *every*
definition history accepted by the library (`buildB … = ok st`), calling `NewCommand(name, …)` on a
command `p` yields a command whose option table resolves every key exactly as `p`'s table does at
that moment — same key, same option id, i.e. the same storage cell that parsing writes and that
`Value`/`Called` read — so a value parsed at the command's level, or at any ancestor's, is what the
command's function sees.  (The help command is the documented exception: nothing is copied into it.)
The proof needs the invariants of the definition layer (`Lemmas/BuildInv.lean`: the command tables
form a tree, every table has distinct keys, every handle is a node), which hold after every history. -/
theorem view_inherits (env : Env) (root : Str) (script : List DefOp) (st st' : BState)
    (h : Nat) (name desc : Str) (p : Nat)
    (hb : buildB ext env root script = .ok st)
    (hp : st.handles[h]? = some p)
    (hname : (name == (st.P.node p).helpName) = false)
    (hs : buildStep ext env st (.cmd h name desc) = .ok st') (k : Str) :
    lookup k (st'.P.node st.P.nodes.length).opts = lookup k (st.P.node p).opts := by
  have inv := buildB_inv ext env root script st hb
  have hpl : p < st.P.nodes.length := inv.handles h p hp
  simp only [buildStep, handle, hp, bind, Except.bind] at hs
  split at hs
  · simp at hs
  · rename_i v hv
    obtain ⟨P1, id⟩ := v
    simp only [pure, Except.pure, Except.ok.injEq] at hs
    subst hs
    have e := addChildCommand_eq st.P P1 p id _ hv
    simp only
    rw [e.1]
    exact new_command_table st.P p _ hpl inv.prog.tree rfl rfl rfl hname (inv.prog.keys p) k

/-- the invariants themselves, for every accepted definition history -/
theorem definitions_well_formed (env : Env) (root : Str) (script : List DefOp) (st : BState)
    (hb : buildB ext env root script = .ok st) :
    TreeWF st.P ∧ KInv st.P ∧ ∀ (h p : Nat), st.handles[h]? = some p → p < st.P.nodes.length :=
  let i := buildB_inv ext env root script st hb
  ⟨i.prog.tree, i.prog.keys, i.handles⟩

/-! ## following the command-name tokens -/

/-- the chain of nodes selected by a list of command words, starting at node `n` -/
def follows (P : Prog) : Nat → List Str → Option Nat
  | n, [] => some n
  | n, w :: ws =>
    match lookup w (P.node n).cmds with
    | some c => follows P c ws
    | none => none

/-- one command word at a head position selects that child and nothing else happens -/
theorem step_command_word (s : PState) (w : Str) (c : Nat)
    (he : s.err = none) (hc : s.ctx = .idle) (hd : w ≠ dashdash) (hno : (isOption w mode).2 = false)
    (hl : lookup w (s.P.node s.cur).cmds = some c) :
    step ext mode s w = { s with cur := c, textStart := s.rem.length } := by
  have hd' : (w == dashdash) = false := by simpa using hd
  have hiso : isOption w mode = ((isOption w mode).1, false) := by rw [← hno]
  simp only [step, stepG, he, hc, head, hd', Option.isSome_none, Bool.false_eq_true, ↓reduceIte]
  rw [hiso]
  simp only [hl]

/-- **The deepest command reached by following the command-name tokens is the one addressed.**  From a head
position, a run of words each of which is the registered name of a sub-command of the level reached so far
(and is neither `--` nor option-looking) moves the selected command down that chain — and changes nothing else:
no option, no remaining text, no unknown option, no error. -/
theorem command_words_select (words : List Str) (s : PState) (target : Nat)
    (he : s.err = none) (hc : s.ctx = .idle)
    (hw : ∀ w ∈ words, w ≠ dashdash ∧ (isOption w mode).2 = false)
    (hf : follows s.P s.cur words = some target) :
    let r := words.foldl (step ext mode) s
    r.cur = target ∧ r.P = s.P ∧ r.rem = s.rem ∧ r.unk = s.unk ∧ r.err = none ∧ r.ctx = .idle := by
  induction words generalizing s with
  | nil => simp only [follows, Option.some.injEq] at hf; exact ⟨hf, rfl, rfl, rfl, he, hc⟩
  | cons w ws ih =>
    simp only [follows] at hf
    cases hl : lookup w (s.P.node s.cur).cmds with
    | none => simp [hl] at hf
    | some c =>
      simp only [hl] at hf
      have h1 := step_command_word ext mode s w c he hc (hw w (by simp)).1 (hw w (by simp)).2 hl
      simp only [List.foldl_cons, h1]
      exact ih { s with cur := c, textStart := s.rem.length } he hc (fun x hx => hw x (by simp [hx])) hf

/-- … and `Dispatch` then runs exactly that command's function, once, with the remaining arguments and that
command as the view (`dispatch_spec`): the whole command line `c₁ c₂ … cₖ` on a program where help is not
requested and no required option is missing. -/
theorem command_line_dispatches (P : Prog) (words : List Str) (target f : Nat)
    (hw : ∀ w ∈ words, w ≠ dashdash ∧ (isOption w mode).2 = false)
    (hf : follows P 0 words = some target)
    (hfn : (P.node target).fn = some f) (hnh : (P.node target).isHelp = false)
    (hh : helpRequested P target = false) (hr : checkRequired P target = none) :
    dispatch ext (parseArgs ext mode P words) [] = .ran f target [] := by
  have h := command_words_select ext mode words (initState P) target rfl rfl hw hf
  simp only at h
  obtain ⟨h1, h2, h3, h4, h5, h6⟩ := h
  have hfin : parseArgs ext mode P words = words.foldl (step ext mode) (initState P) := by
    unfold parseArgs run finish
    simp [h5, h6]
  rw [hfin]
  generalize words.foldl (step ext mode) (initState P) = r at h1 h2
  have h2' : r.P = P := h2
  unfold dispatch
  simp only [h1, h2', hh, hr, hfn, hnh, Bool.false_eq_true, ↓reduceIte]

-- `cmd` on the demo program: its function (id 1) runs, with the command as the view
example : follows Demo.prog 0 [b "cmd"] = some 1 ∧
    dispatch Demo.ext (parseArgs Demo.ext .normal Demo.prog [b "cmd"]) [] = .ran 1 1 [] := by decide

/-- on the demo program: the command `cmd` resolves the root's `num`, `n` and `verbose` to the
root's own cells, and a value given after the command name is seen through the root's table -/
example :
    lookup (b "num") (Demo.prog.node 1).opts = lookup (b "num") (Demo.prog.node 0).opts ∧
    lookup (b "n") (Demo.prog.node 1).opts = lookup (b "n") (Demo.prog.node 0).opts ∧
    ((parseUser Demo.ext Demo.prog [b "cmd", b "--num=7"]).st.P.opt 4).value = .i 7 := by decide

end GoModel

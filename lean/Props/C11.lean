import Props.C10
import Props.C06
import Lemmas.Lookup
import Lemmas.DefFrame
import Lemmas.PermEquiv
/-!
# C11 — required options are enforced before any command runs; help bypasses them
-/
namespace GoModel

variable (ext : Ext)

/-- is some required option of the node's table not called -/
def missingRequired (P : Prog) (n : Nat) : Bool :=
  (P.node n).opts.any fun kv => (P.opt kv.2).required && !(P.opt kv.2).called

/-- `checkRequired` reports an error exactly when some required option reachable through the
node's table (own or inherited) has not been called — for keys with distinct names (a Go map). -/
theorem checkRequired_none_iff (P : Prog) (n : Nat) (hnd : ((P.node n).opts.map (·.1)).Nodup) :
    checkRequired P n = none ↔ missingRequired P n = false := by
  unfold checkRequired missingRequired
  simp only
  rw [findSome_none_iff]
  constructor
  · intro h
    rw [List.any_eq_false]
    intro kv hkv
    have hk : kv.1 ∈ sortStrs ((P.node n).opts.map (·.1)) := by
      rw [mem_sortStrs]; exact List.mem_map.mpr ⟨kv, hkv, rfl⟩
    have := h kv.1 hk
    have hl : lookup kv.1 (P.node n).opts = some kv.2 := lookup_of_mem_nodup (P.node n).opts kv.1 kv.2 hnd hkv
    simp only [hl] at this
    split at this
    · simp at this
    · rename_i hc; simpa using hc
  · intro h x hx
    rw [List.any_eq_false] at h
    cases hl : lookup x (P.node n).opts with
    | none => rfl
    | some oid =>
      have := h (x, oid) (lookup_mem _ _ _ hl)
      simp only at this
      simp [this]

/-- **Required blocks.** A missing required option of the selected node stops `Dispatch` before any
function runs (unless help was requested). -/
theorem required_blocks (s : PState) (rem : List Str) (e : UErr)
    (hh : helpRequested s.P s.cur = false) (hr : checkRequired s.P s.cur = some e) :
    dispatch ext s rem = .missingRequired e := by
  unfold dispatch
  simp [hh, hr]

/-- at the root the same check already fails `Parse` -/
theorem required_blocks_parse (P : Prog) (args : List Str) (e : UErr)
    (he : (parseArgs ext (P.node 0).mode P args).err = none)
    (hreq : requiredAtParse (parseArgs ext (P.node 0).mode P args) = some e) :
    (parseUser ext P args).err = some e ∧ (parseUser ext P args).remaining = none := by
  unfold parseUser
  simp [he, hreq]

/-- the error names a required option that was not called and carries the custom message if one
was declared -/
theorem checkRequired_names (P : Prog) (n : Nat) (e : UErr) (h : checkRequired P n = some e) :
    ∃ key oid, lookup key (P.node n).opts = some oid ∧ (P.opt oid).required = true ∧ (P.opt oid).called = false ∧
      e = .missingRequired (P.opt oid).name (if (P.opt oid).requiredMsg.isEmpty then none else some (P.opt oid).requiredMsg) := by
  unfold checkRequired at h
  simp only at h
  obtain ⟨key, _, hk⟩ := List.exists_of_findSome?_eq_some h
  cases hl : lookup key (P.node n).opts with
  | none => simp [hl] at hk
  | some oid =>
    simp only [hl] at hk
    split at hk
    · rename_i hc
      simp only [Option.some.injEq] at hk
      simp only [Bool.and_eq_true, Bool.not_eq_eq_eq_not, Bool.not_true] at hc
      exact ⟨key, oid, hl, hc.1, hc.2, hk.symm⟩
    · simp at hk

/-- **Help bypasses.** When the help option was called (by name, alias or abbreviation — whatever
key resolved to it), `Dispatch` writes the help of the selected level and returns "help called": no
function runs and missing required options are not reported. -/
theorem help_bypasses (s : PState) (rem : List Str) (hh : helpRequested s.P s.cur = true) :
    dispatch ext s rem = .helpCalled (helpOutput ext s.P s.cur []) := by
  unfold dispatch
  simp [hh]

theorem help_bypasses_parse (s : PState) (hh : helpRequested s.P s.cur = true) : requiredAtParse s = none := by
  simp [requiredAtParse, hh]

/-- the help command: help of the parent level, of the sibling registered under the given name, or the
"no help topic" error -/
theorem help_command (s : PState) (rem : List Str)
    (hh : helpRequested s.P s.cur = false) (hr : checkRequired s.P s.cur = none)
    (hcmd : (s.P.node s.cur).isHelp = true) :
    dispatch ext s rem =
      match rem with
      | [] => .helpCalled (helpOutput ext s.P ((s.P.node s.cur).parent.getD 0) [])
      | a :: _ =>
        match lookup a (s.P.node ((s.P.node s.cur).parent.getD 0)).cmds with
        | some c => .helpCalled (helpOutput ext s.P c [])
        | none => .noHelpTopic a := by
  unfold dispatch
  simp only [hh, hr, hcmd, Bool.false_eq_true, ↓reduceIte]
  rfl

/-! Non-vacuity -/
example :
    let P := Demo.prog.modOpt 4 fun o => { o with required := true, requiredMsg := b "need 100% %s" }
    (parseUser Demo.ext P [b "-v"]).err = some (.missingRequired (b "num") (some (b "need 100% %s"))) ∧
    (parseUser Demo.ext P [b "-v", b "--help"]).err = none ∧
    dispatch Demo.ext (parseUser Demo.ext P [b "cmd"]).st [] =
      .missingRequired (.missingRequired (b "num") (some (b "need 100% %s"))) ∧
    (match dispatch Demo.ext (parseUser Demo.ext P [b "cmd", b "--he"]).st [] with
      | .helpCalled _ => true | _ => false) = true := by
  decide

/-! ## end to end: definition script, command line, `Parse` / `Dispatch` -/

/-- the node records after a whole parse are the declared ones -/
theorem parseArgs_node (mode : Mode) (P : Prog) (args : List Str) (n : Nat) :
    (parseArgs ext mode P args).P.node n = P.node n := by
  unfold parseArgs
  rw [finish_nodes]
  exact (run_shape ext mode P args).1 n

/-- **A required option that is not supplied blocks every command, end to end.**  Program: any accepted
definition script in which the option is declared with `Required(msg)`; command line: anything that parses, does
not mention the option (by name, alias or abbreviation, at any level), does not ask for help, and ends at a
level whose table holds the option (the level it was declared at, or a command that inherited it).  Then
`Dispatch` invokes no function: it returns a missing-required error (`checkRequired_names`: naming a required
option that was not supplied, with its custom message) — and when the final level is the root, `Parse` itself
already returns that error and no remaining list. -/
theorem required_enforced_end_to_end (env : Env) (root : Str) (pre post : List DefOp) (hd : Nat) (kind : Kind)
    (name : Str) (dflt : Val) (dstr : Str) (min max : Int) (msg : Option Str) (st : BState)
    (h : buildB ext env root (pre ++ [.opt hd kind name dflt dstr min max [.required msg]] ++ post) = .ok st) :
    ∃ mid, buildB ext env root pre = .ok mid ∧
      ∀ (args : List Str) (key : Str),
        let s := parseArgs ext (st.P.node 0).mode st.P args
        s.err = none →
        lookup key (st.P.node s.cur).opts = some mid.P.opts.length →
        ¬ Mentioned (st.P.node 0).mode st.P args mid.P.opts.length →
        helpRequested s.P s.cur = false →
        (∀ rem, ∃ e, dispatch ext s rem = .missingRequired e) ∧
        ((s.P.node s.cur).parent = none →
          ∃ e, (parseUser ext st.P args).err = some e ∧ (parseUser ext st.P args).remaining = none ∧
            checkRequired s.P s.cur = some e) := by
  obtain ⟨mid, h1, h2⟩ := defined_record_final ext env root pre post hd kind name dflt dstr min max [.required msg] st h
  refine ⟨mid, h1, ?_⟩
  intro args key s he hl hnm hh
  have hrec : s.P.opt mid.P.opts.length = (freshOpt kind name dflt dstr min max |> fun o =>
      { o with required := true, requiredMsg := msg.getD [] }) := by
    show (parseArgs ext (st.P.node 0).mode st.P args).P.opt _ = _
    rw [unmentioned_keeps_default ext (st.P.node 0).mode st.P args _ hnm, h2]
    rfl
  have hnode : s.P.node s.cur = st.P.node s.cur := parseArgs_node ext _ st.P args s.cur
  have hinv := buildB_inv ext env root _ st h
  have hnd : ((s.P.node s.cur).opts.map (·.1)).Nodup := by rw [hnode]; exact hinv.prog.keys s.cur
  have hmiss : missingRequired s.P s.cur = true := by
    unfold missingRequired
    rw [List.any_eq_true]
    refine ⟨(key, mid.P.opts.length), ?_, ?_⟩
    · rw [hnode]; exact lookup_mem _ _ _ hl
    · simp only [hrec]; simp [freshOpt]
  have hcr : ∃ e, checkRequired s.P s.cur = some e := by
    cases hc : checkRequired s.P s.cur with
    | some e => exact ⟨e, rfl⟩
    | none =>
      have := (checkRequired_none_iff s.P s.cur hnd).mp hc
      rw [hmiss] at this; cases this
  obtain ⟨e, hce⟩ := hcr
  refine ⟨fun rem => ⟨e, required_blocks ext s rem e hh hce⟩, fun hroot => ?_⟩
  have hreq : requiredAtParse s = some e := by
    unfold requiredAtParse
    simp [hroot, hh, hce]
  have := required_blocks_parse ext st.P args e he hreq
  exact ⟨e, this.1, this.2, hce⟩

end GoModel

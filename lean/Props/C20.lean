import Lemmas.PermEquiv
import Lemmas.HelpPerm
import Lemmas.PermEquivComp
import Lemmas.CmdKeys
import Props.C11
import Props.C08
/-!
# C20 — same definition and input always give the same result and the same text

Go randomises map iteration order.  In the model a map is an association list whose order stands
for the iteration order; the theorems below show that what the library computes from a table does
not depend on that order (keys are distinct, as in a Go map).
-/
namespace GoModel

/-- a map read does not depend on the iteration order -/
theorem map_read_order_independent {α} (l l' : List (Str × α)) (k : Str) (hp : l.Perm l')
    (hnd : (l.map (·.1)).Nodup) : lookup k l = lookup k l' := lookup_perm l l' k hp hnd

/-- "unknown", "unique" and "ambiguous" are decided identically whatever the iteration order, a
unique match is the same key, and the sorted candidate list of the ambiguity error is the same text -/
theorem resolve_order_independent (nd nd' : Node) (k : Str) (hp : nd.opts.Perm nd'.opts)
    (hnd : (nd.opts.map (·.1)).Nodup) :
    ((resolve nd k = []) ↔ (resolve nd' k = [])) ∧
    (∀ key, resolve nd k = [key] ↔ resolve nd' k = [key]) ∧
    sortStrs (resolve nd k) = sortStrs (resolve nd' k) := resolve_perm_outcome nd nd' k hp hnd

/-- the missing-required-option diagnostic is chosen by a fixed rule (first in sorted key order),
whatever the iteration order of the table -/
theorem checkRequired_perm (P P' : Prog) (n : Nat) (hopts : P.opts = P'.opts)
    (hp : (P.node n).opts.Perm (P'.node n).opts) (hnd : ((P.node n).opts.map (·.1)).Nodup) :
    checkRequired P n = checkRequired P' n := by
  unfold checkRequired
  simp only
  have hkeys : sortStrs ((P.node n).opts.map (·.1)) = sortStrs ((P'.node n).opts.map (·.1)) :=
    sortStrs_perm_eq _ _ (hp.map _)
  rw [hkeys]
  congr 1
  funext k
  rw [← lookup_perm _ _ k hp hnd]
  simp only [Prog.opt, hopts]
  rfl

/-- `gopt.Called(name)` on the root table -/
theorem calledAtRoot_perm (P P' : Prog) (name : Str) (hopts : P.opts = P'.opts)
    (hp : (P.node 0).opts.Perm (P'.node 0).opts) (hnd : ((P.node 0).opts.map (·.1)).Nodup) :
    calledAtRoot P name = calledAtRoot P' name := by
  unfold calledAtRoot
  rw [← lookup_perm _ _ name hp hnd]
  simp only [Prog.opt, hopts]

/-- command selection reads the command table by exact name -/
theorem command_lookup_perm (nd nd' : Node) (t : Str) (hp : nd.cmds.Perm nd'.cmds) (hnd : (nd.cmds.map (·.1)).Nodup) :
    lookup t nd.cmds = lookup t nd'.cmds := lookup_perm _ _ t hp hnd

/-- the unknown-option policy only looks at the log, which is in command-line order -/
theorem unknownPolicy_deterministic (unk : List (Str × UMode)) :
    unknownPolicy unk [] = ((firstFail unk).map UErr.unknown, warnedBefore unk) := by
  rw [unknownPolicy_spec]; simp

/-! ## The whole of `Parse` is independent of the iteration order -/

variable (ext : Ext)

/-- **`Parse` over tables iterated in another order gives the same result**: `N'` is the node list
of `P` with the option table and the command table of every node permuted (keys distinct, as in a Go
map).  Then `Parse` returns the same error, the same remaining list and the same warnings, and leaves
the same option store — for every argument list.  Together with the sorted diagnostics this is the
determinism of `Parse` under Go's randomised map iteration. -/
theorem parseUser_perm (P : Prog) (N' : List Node) (args : List Str) (h : NPerm P N') :
    (parseUser ext { P with nodes := N' } args).err = (parseUser ext P args).err ∧
    (parseUser ext { P with nodes := N' } args).remaining = (parseUser ext P args).remaining ∧
    (parseUser ext { P with nodes := N' } args).warnings = (parseUser ext P args).warnings ∧
    (parseUser ext { P with nodes := N' } args).st = (parseUser ext P args).st.wn N' := by
  have hmode : (({ P with nodes := N' } : Prog).node 0).mode = (P.node 0).mode :=
    (congrArg Node.mode (h 0).rest).symm
  have hs := parseArgs_wn ext (P.node 0).mode P N' args h
  have hn := parseArgs_nperm ext (P.node 0).mode P N' args h
  unfold parseUser
  simp only
  rw [hmode, hs]
  generalize parseArgs ext (P.node 0).mode P args = s at hn ⊢
  have he : (s.wn N').err = s.err := rfl
  have hu : (s.wn N').unk = s.unk := rfl
  have hr : (s.wn N').rem = s.rem := rfl
  have hreq : requiredAtParse (s.wn N') = requiredAtParse s := by
    unfold requiredAtParse helpRequested
    have hc : (s.wn N').cur = s.cur := rfl
    have hnode : (s.wn N').P.node s.cur = N'.getD s.cur dummyNode := rfl
    rw [hc, hnode]
    have hpar : (N'.getD s.cur dummyNode).parent = (s.P.node s.cur).parent :=
      (congrArg Node.parent (hn s.cur).rest).symm
    have hhn : (N'.getD s.cur dummyNode).helpName = (s.P.node s.cur).helpName :=
      (congrArg Node.helpName (hn s.cur).rest).symm
    have hcr : calledAtRoot (s.wn N').P (s.P.node s.cur).helpName = calledAtRoot s.P (s.P.node s.cur).helpName :=
      (calledAtRoot_perm s.P (s.wn N').P _ rfl (hn 0).opts (hn 0).ndO).symm
    have hck : checkRequired (s.wn N').P s.cur = checkRequired s.P s.cur :=
      (checkRequired_perm s.P (s.wn N').P s.cur rfl (hn s.cur).opts (hn s.cur).ndO).symm
    simp only [hpar, hhn, hcr, hck]
  rw [he, hreq, hu, hr]
  cases s.err with
  | some e => exact ⟨rfl, rfl, rfl, rfl⟩
  | none =>
    simp only
    cases requiredAtParse s with
    | some e => exact ⟨rfl, rfl, rfl, rfl⟩
    | none =>
      simp only
      cases hpol : unknownPolicy s.unk [] with
      | mk e w => cases e <;> exact ⟨rfl, rfl, rfl, rfl⟩

/-- **The help text is independent of the iteration order**: over the node list with every option
table and command table permuted, `Help()` / the help option / the help command render the same
bytes for every level and every choice of sections.  (Hypothesis: the level's command table has distinct
keys — it is a Go map; `help_text_order_independent_built` discharges it for every accepted definition.) -/
theorem help_text_order_independent (P : Prog) (N' : List Node) (h : NPerm P N')
    (hlen : N'.length = P.nodes.length) (n : Nat) (hd : CmdNamesDistinct P n) (secs : List Section) :
    helpOutput ext { P with nodes := N' } n secs = helpOutput ext P n secs :=
  helpOutput_w ext P N' h hlen n hd secs

example : CmdNamesDistinct Demo.prog 0 := by unfold CmdNamesDistinct; decide

/-- … and for **every program accepted by the definition layer** — whatever the script did, including `Self`
giving several commands the same display name (the defect repaired in 68a1c64: the list is keyed by the name a
command is registered under, and `AddChildCommand` refuses duplicates) — the help text of every level does not
depend on the iteration order, with no further hypothesis. -/
theorem help_text_order_independent_built (env : Env) (root : Str) (script : List DefOp) (st : BState)
    (hb : buildB ext env root script = .ok st) (N' : List Node) (h : NPerm st.P N')
    (hlen : N'.length = st.P.nodes.length) (n : Nat) (secs : List Section) :
    helpOutput ext { st.P with nodes := N' } n secs = helpOutput ext st.P n secs :=
  helpOutput_w ext st.P N' h hlen n (built_cmd_keys_distinct ext env root script st hb n) secs

/-- **The completion list is independent of the iteration order**: the whole `COMP_LINE` branch of
`Parse` — walking the earlier words, then producing the candidates for the last one, including the
single-candidate hint that reads the option met last — gives the same list (or the same error) over
permuted tables.  Hypothesis: no option key contains `=` (such a key could never be typed). -/
theorem completion_order_independent (P : Prog) (N' : List Node) (zsh : Bool) (compLine : Str)
    (args : List Str) (h : NPerm P N') (hk : AllKeysNoEq P) :
    completeUser ext { P with nodes := N' } zsh compLine args = completeUser ext P zsh compLine args :=
  completeUser_perm ext P N' zsh compLine args h hk

example : AllKeysNoEq Demo.prog := by
  intro i
  by_cases hi : i < 4
  · match i, hi with
    | 0, _ => unfold KeysNoEq; decide
    | 1, _ => unfold KeysNoEq; decide
    | 2, _ => unfold KeysNoEq; decide
    | 3, _ => unfold KeysNoEq; decide
  · have h1 : Demo.prog.node i = dummyNode := by
      have hlen : Demo.prog.nodes.length = 4 := by decide
      simp [Prog.node, List.getD, List.getElem?_eq_none (by rw [hlen]; exact Nat.le_of_not_lt hi)]
    rw [h1]; intro kv hkv; simp [dummyNode] at hkv

/-- the hypothesis is met by reversing both tables of the root of the demo program -/
example : NPerm Demo.prog
    (Demo.prog.nodes.map fun n => { n with opts := n.opts.reverse, cmds := n.cmds.reverse }) := by
  intro i
  have key : ∀ n : Node, (n.opts.map (·.1)).Nodup → (n.cmds.map (·.1)).Nodup →
      NodePerm n { n with opts := n.opts.reverse, cmds := n.cmds.reverse } :=
    fun n h1 h2 => ⟨(List.reverse_perm _).symm, (List.reverse_perm _).symm, h1, h2, rfl⟩
  by_cases hi : i < Demo.prog.nodes.length
  · have hlen : Demo.prog.nodes.length = 4 := by decide
    rw [hlen] at hi
    match i, hi with
    | 0, _ => exact key _ (by decide) (by decide)
    | 1, _ => exact key _ (by decide) (by decide)
    | 2, _ => exact key _ (by decide) (by decide)
    | 3, _ => exact key _ (by decide) (by decide)
  · have h1 : Demo.prog.node i = dummyNode := by
      simp [Prog.node, List.getD, List.getElem?_eq_none (Nat.le_of_not_lt hi)]
    have h2 : (Demo.prog.nodes.map fun n => { n with opts := n.opts.reverse, cmds := n.cmds.reverse }).getD i dummyNode
        = dummyNode := by
      simp [List.getD, List.getElem?_eq_none (Nat.le_of_not_lt hi)]
    rw [h1, h2]
    exact ⟨List.Perm.refl _, List.Perm.refl _, by decide, by decide, rfl⟩

end GoModel

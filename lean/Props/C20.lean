import Lemmas.Lookup
import Props.C11
import Props.C08
/-!
# C20 — same definition and input always give the same result and the same text

Go randomises map iteration order.  In the model a map is an association list whose order stands
for the iteration order; the theorems below show that what the library computes from a table does
not depend on that order (keys are distinct, as in a Go map).
-/
namespace GoModel

theorem lookup_none_iff {α} (l : List (Str × α)) (k : Str) : lookup k l = none ↔ k ∉ l.map (·.1) := by
  induction l with
  | nil => simp [lookup]
  | cons x r ih =>
    obtain ⟨k', v'⟩ := x
    by_cases hk : (k' == k) = true
    · have : k' = k := by simpa using hk
      simp [lookup, hk, this]
    · have hne : ¬ k' = k := by simpa using hk
      simp only [lookup, hk, Bool.false_eq_true, ↓reduceIte, ih, List.map_cons, List.mem_cons, not_or]
      constructor
      · intro h; exact ⟨fun e => hne e.symm, h⟩
      · intro h; exact h.2

/-- a map read does not depend on the iteration order -/
theorem lookup_perm {α} (l l' : List (Str × α)) (k : Str) (hp : l.Perm l') (hnd : (l.map (·.1)).Nodup) :
    lookup k l = lookup k l' := by
  have hnd' : (l'.map (·.1)).Nodup := (hp.map _).nodup_iff.mp hnd
  cases h : lookup k l with
  | none =>
    have : k ∉ l'.map (·.1) := by
      rw [← (hp.map (·.1)).mem_iff]; exact (lookup_none_iff l k).mp h
    exact ((lookup_none_iff l' k).mpr this).symm
  | some v =>
    have hm := lookup_mem l k v h
    exact (lookup_of_mem_nodup l' k v hnd' (hp.mem_iff.mp hm)).symm

/-- the candidates of an abbreviation are the same set whatever the iteration order … -/
theorem resolve_perm (nd nd' : Node) (k : Str) (hp : nd.opts.Perm nd'.opts) (hnd : (nd.opts.map (·.1)).Nodup) :
    (resolve nd k).Perm (resolve nd' k) := by
  unfold resolve
  rw [← lookup_perm nd.opts nd'.opts k hp hnd]
  cases lookup k nd.opts with
  | some _ => exact List.Perm.refl _
  | none => exact (hp.filter _).map _

/-- … so "unknown", "unique" and "ambiguous" are decided identically, a unique match is the same
key, and the sorted candidate list of the ambiguity error is the same text. -/
theorem resolve_perm_outcome (nd nd' : Node) (k : Str) (hp : nd.opts.Perm nd'.opts) (hnd : (nd.opts.map (·.1)).Nodup) :
    ((resolve nd k = []) ↔ (resolve nd' k = [])) ∧
    (∀ key, resolve nd k = [key] ↔ resolve nd' k = [key]) ∧
    sortStrs (resolve nd k) = sortStrs (resolve nd' k) := by
  have h := resolve_perm nd nd' k hp hnd
  refine ⟨?_, ?_, sortStrs_perm_eq _ _ h⟩
  · constructor
    · intro e; rw [e] at h; exact h.symm.eq_nil
    · intro e; rw [e] at h; exact h.eq_nil
  · intro key
    constructor
    · intro e; rw [e] at h; exact h.symm.eq_singleton
    · intro e; rw [e] at h; exact h.eq_singleton

/-- the missing-required-option diagnostic is chosen by a fixed rule (first in sorted key order),
whatever the iteration order of the table -/
theorem checkRequired_perm (P P' : Prog) (n : Nat) (hopts : P.opts = P'.opts)
    (hp : (P.node n).opts.Perm (P'.node n).opts) (hnd : ((P.node n).opts.map (·.1)).Nodup) :
    checkRequired P n = checkRequired P' n := by
  unfold checkRequired
  simp only
  have hkeys : sortStrs ((P.node n).opts.map (·.1)) = sortStrs ((P'.node n).opts.map (·.1)) :=
    sortStrs_perm_eq _ _ (hp.map _)
  rw [hkeys]
  congr 1
  funext k
  rw [← lookup_perm _ _ k hp hnd]
  simp only [Prog.opt, hopts]
  rfl

/-- `gopt.Called(name)` on the root table -/
theorem calledAtRoot_perm (P P' : Prog) (name : Str) (hopts : P.opts = P'.opts)
    (hp : (P.node 0).opts.Perm (P'.node 0).opts) (hnd : ((P.node 0).opts.map (·.1)).Nodup) :
    calledAtRoot P name = calledAtRoot P' name := by
  unfold calledAtRoot
  rw [← lookup_perm _ _ name hp hnd]
  simp only [Prog.opt, hopts]

/-- command selection reads the command table by exact name -/
theorem command_lookup_perm (nd nd' : Node) (t : Str) (hp : nd.cmds.Perm nd'.cmds) (hnd : (nd.cmds.map (·.1)).Nodup) :
    lookup t nd.cmds = lookup t nd'.cmds := lookup_perm _ _ t hp hnd

/-- the unknown-option policy only looks at the log, which is in command-line order -/
theorem unknownPolicy_deterministic (unk : List (Str × UMode)) :
    unknownPolicy unk [] = ((firstFail unk).map UErr.unknown, warnedBefore unk) := by
  rw [unknownPolicy_spec]; simp

end GoModel

import Lemmas.SchedMore
import Props.C16
/-!
# C13 — a task starts only after all its dependencies have finished successfully

All statements are about **every reachable scheduler state of every graph built through the API that
passed the cycle check** — every completion order, every outcome assignment, every parallelism limit.
-/
namespace GoModel.Dag

/-- **A real launch implies finished dependencies.**  Whenever the scheduler can launch `v` as a real
task, every task `v` depends on directly has really run and returned nil. -/
theorem launch_after_deps (c : Cfg) (hc : Scheduled c) (s s' : Sched) (hr : Reachable c s) (v : Nat)
    (hs : step? c s (.pickReal v) = some s') :
    ∀ ch ∈ c.g.children v, (s.get ch).st = .done ∧ (s.get ch).out = some .ok ∧ (s.get ch).real = true := by
  have hinv := reachable_sinv c hc.ancOK s hr
  simp [step?] at hs
  obtain ⟨_, hcond, _⟩ := hs
  exact real_launch_deps_ok c hc.ancOK s hinv v hcond.1.1.2 hcond.1.2 hcond.2

/-- … and so has every transitive dependency of a really launched task. -/
theorem real_descendants_done (c : Cfg) (hc : Scheduled c) (s : Sched) (hr : Reachable c s) (v d : Nat)
    (hv : (s.get v).real = true) (hp : Path c.g.children v d) :
    (s.get d).st = .done ∧ (s.get d).out = some .ok ∧ (s.get d).real = true := by
  have hinv := reachable_sinv c hc.ancOK s hr
  induction hp with
  | edge h => exact hinv.b _ hv _ h
  | cons h _ ih => exact ih (hinv.b _ hv _ h).2.2

/-- **A task function is entered only after all its (transitive) dependencies returned nil.** -/
theorem enter_after_deps (c : Cfg) (hc : Scheduled c) (s s' : Sched) (hr : Reachable c s) (v k d : Nat)
    (hs : step? c s (.enter v k) = some s') (hp : Path c.g.children v d) :
    (s.get d).st = .done ∧ (s.get d).out = some .ok ∧ (s.get d).real = true := by
  have hinv := reachable_sinv c hc.ancOK s hr
  simp [step?] at hs
  obtain ⟨_, hcond, _⟩ := hs
  have hreal := (hinv.f v (by rw [hcond.1]; simp)).1
  exact real_descendants_done c hc s hr v d hreal hp

/-- a finished real result is final: no event changes the status or the result of a vertex that has
really run and returned nil while a dependent holds on to it -/
theorem real_done_stable (c : Cfg) (hc : Scheduled c) (s s' : Sched) (ev : Event) (hr : Reachable c s) (p ch : Nat)
    (hp : (s.get p).real = true) (hch : ch ∈ c.g.children p) (hs : step? c s ev = some s') :
    (s'.get ch).st = .done ∧ (s'.get ch).out = some .ok := by
  have hinv := reachable_sinv c hc.ancOK s hr
  have hinv' := sinv_step c hc.ancOK s s' ev hinv hs
  -- `real` is never reset
  have hreal' : (s'.get p).real = true := by
    cases ev with
    | pickReal v => simp [step?] at hs; obtain ⟨_, _, rfl⟩ := hs; rw [get_set]; split <;> simp_all
    | pickSkip v => simp [step?] at hs; obtain ⟨_, _, rfl⟩ := hs; rw [get_set]; split <;> simp_all
    | pickErr v => simp [step?] at hs; obtain ⟨_, _, rfl⟩ := hs; rw [get_set]; split <;> simp_all
    | cancel => simp [step?] at hs; obtain ⟨_, _, rfl⟩ := hs; exact hp
    | exit => simp [step?] at hs; obtain ⟨_, _, rfl⟩ := hs; exact hp
    | semAcq v => simp [step?] at hs; obtain ⟨_, _, rfl⟩ := hs; rw [get_set]; split <;> simp_all
    | lockAcq v => simp [step?] at hs; obtain ⟨_, _, rfl⟩ := hs; rw [get_set]; split <;> simp_all
    | enter v k => simp [step?] at hs; obtain ⟨_, _, rfl⟩ := hs; rw [get_set]; split <;> simp_all
    | semRel v => simp [step?] at hs; obtain ⟨_, rfl⟩ := hs; rw [get_set]; split <;> simp_all
    | idle =>
      simp only [step?] at hs
      split at hs
      · simp at hs
      · split at hs
        · simp at hs
        · split at hs
          · simp at hs
          · simp only [Option.some.injEq] at hs; subst hs; exact hp
    | leave v k r =>
      simp only [step?] at hs
      split at hs
      · simp at hs
      · split at hs
        · split at hs <;> (simp only [Option.some.injEq] at hs; subst hs; rw [get_set]; split <;> simp_all)
        · simp at hs
    | recv v r =>
      simp only [step?] at hs
      split at hs
      · simp at hs
      · split at hs
        · have hx : ∀ x1 : VState, x1.real = (s.get v).real → ((s.set v x1).get p).real = true := by
            intro x1 h1; rw [get_set]; split
            · rename_i e; subst e; rw [h1]; exact hp
            · exact hp
          have hx2 : ((s.set v (if ((s.get v).fl == Flight.sending r) = true
              then { s.get v with st := .done, fl := .none, out := some r }
              else { s.get v with st := .done, pseudo := (s.get v).pseudo.erase r, out := some r })).get p).real = true := by
            split <;> exact hx _ rfl
          cases r <;> simp only [Option.some.injEq] at hs <;> subst hs
          · exact hx2
          · exact hx2
          · rw [markAncestors_get]; split
            · simp only [markOne]; exact hx2
            · exact hx2
          · exact hx2
        · simp at hs
  have := hinv'.b p hreal' ch hch
  exact ⟨this.1, this.2.1⟩

/-! ## attempts: strictly one after another, at most `retries + 1`, stopping at the first nil -/

/-- a task function is entered for attempt `k` only when the goroutine is between attempts and `k` is
the next attempt number, and never beyond the retry budget -/
theorem enter_requires (c : Cfg) (s s' : Sched) (v k : Nat) (hs : step? c s (.enter v k) = some s') :
    (s.get v).fl = .idle k ∧ (k : Int) ≤ c.g.retriesOf v ∧ (s'.get v).fl = .running k := by
  simp [step?] at hs
  obtain ⟨_, hcond, rfl⟩ := hs
  exact ⟨hcond.1, hcond.2, by simp⟩

/-- after an attempt returns: nil, or the last permitted attempt, hands the result over (no further
attempt is possible); any other failure leads to attempt `k + 1` -/
theorem leave_next (c : Cfg) (s s' : Sched) (v k : Nat) (r : Res) (hs : step? c s (.leave v k r) = some s') :
    (s.get v).fl = .running k ∧
    (s'.get v).fl = if r == .ok || decide ((k : Int) ≥ c.g.retriesOf v) then .sending r else .idle (k + 1) := by
  simp only [step?] at hs
  split at hs
  · simp at hs
  · split at hs
    · rename_i hcond
      simp only [Bool.and_eq_true, beq_iff_eq] at hcond
      split at hs <;> rename_i h2 <;> (simp only [Option.some.injEq] at hs; subst hs)
      · exact ⟨hcond.1, by simp [h2]⟩
      · refine ⟨hcond.1, ?_⟩
        have : (r == Res.ok || decide ((k : Int) ≥ c.g.retriesOf v)) = false := by
          cases hh : (r == Res.ok || decide ((k : Int) ≥ c.g.retriesOf v)) with
          | false => rfl
          | true => exact absurd hh h2
        simp [this]
    · simp at hs

/-- the first attempt can start only after the scheduler launched the task, the semaphore slot and
the task lock were acquired: `pickReal → semAcq → lockAcq → enter 0` is the only way to `idle 0` -/
theorem first_attempt_chain (c : Cfg) (s s' : Sched) (v : Nat) :
    (step? c s (.semAcq v) = some s' → (s.get v).fl = .waitSem) ∧
    (step? c s (.lockAcq v) = some s' → (s.get v).fl = .waitLock ∧ (s'.get v).fl = .idle 0) := by
  constructor
  · intro hs; simp [step?] at hs; exact hs.2.1.1
  · intro hs; simp [step?] at hs; obtain ⟨_, hcond, rfl⟩ := hs; exact ⟨hcond, by simp⟩

/-- a completion is received only for a result that was handed over (real task) or for a pseudo
completion that is outstanding -/
theorem recv_requires (c : Cfg) (s s' : Sched) (v : Nat) (r : Res) (hs : step? c s (.recv v r) = some s') :
    r ∈ (s.get v).pseudo ∨ (s.get v).fl = .sending r := by
  simp only [step?] at hs
  split at hs
  · simp at hs
  · split at hs
    · rename_i hcond
      simp only [Bool.and_eq_true, Bool.or_eq_true, List.contains_eq_mem, decide_eq_true_eq, beq_iff_eq] at hcond
      exact hcond.2
    · simp at hs

/-! Non-vacuity: a chain 2 → 1 run through the acceptor. -/
def demoCfg : Cfg := { g := buildGraph [.dependsOn (t 2) [t 1]] }

example : (accept demoCfg initSched
    [.pickReal 1, .idle, .semAcq 1, .lockAcq 1, .enter 1 0, .leave 1 0 .ok, .recv 1 .ok, .semRel 1,
     .pickReal 2, .semAcq 2, .lockAcq 2, .enter 2 0, .leave 2 0 .ok, .recv 2 .ok, .exit] 0).toOption.isSome = true := by
  decide
/-- the dependent cannot be launched first -/
example : step? demoCfg initSched (.pickReal 2) = none := by decide

end GoModel.Dag

import Lemmas.Parse
import Lemmas.Demo
import Lemmas.OptStart
/-!
# C05 — abbreviations: unique prefix = full name, exact name wins, ambiguity errors
-/
namespace GoModel

variable (ext : Ext)

/-- A text that is itself a declared name or alias always selects that entry, even when it is also
a prefix of other names. -/
theorem resolve_exact (nd : Node) (k : Str) (o : Nat) (h : lookup k nd.opts = some o) :
    resolve nd k = [k] := by
  simp [resolve, h]

theorem filter_unique {α} (l : List (Str × α)) (p : Str → Bool) (k' : Str)
    (hnd : (l.map (·.1)).Nodup) (hmem : k' ∈ l.map (·.1)) (hp : p k' = true)
    (huniq : ∀ x ∈ l, p x.1 = true → x.1 = k') :
    (l.filter fun kv => p kv.1).map (·.1) = [k'] := by
  induction l with
  | nil => simp at hmem
  | cons x xs ih =>
    simp only [List.map_cons, List.nodup_cons] at hnd
    obtain ⟨hx, hxs⟩ := hnd
    by_cases hk : x.1 = k'
    · -- x is the match; nothing else in xs matches
      have hnone : ∀ y ∈ xs, p y.1 = false := by
        intro y hy
        cases hpy : p y.1 with
        | false => rfl
        | true =>
          have := huniq y (by simp [hy]) hpy
          exact absurd (by rw [hk, ← this]; exact List.mem_map.mpr ⟨y, hy, rfl⟩) hx
      have : xs.filter (fun kv => p kv.1) = [] := by
        rw [List.filter_eq_nil_iff]; intro y hy; simp [hnone y hy]
      simp [List.filter, hk, hp, this]
    · have hpx : p x.1 = false := by
        cases hpx : p x.1 with
        | false => rfl
        | true => exact absurd (huniq x (by simp) hpx) hk
      have hmem' : k' ∈ xs.map (·.1) := by
        simp only [List.map_cons, List.mem_cons] at hmem
        rcases hmem with h | h
        · exact absurd h.symm hk
        · exact h
      simp only [List.filter, hpx]
      exact ih hxs hmem' (fun y hy => huniq y (by simp [hy]))

/-- A prefix that is not itself a declared name and matches exactly one declared name/alias of the
level resolves to that full name — for every key set (the table is a Go map: keys are distinct). -/
theorem resolve_unique_prefix (nd : Node) (k k' : Str) (hnd : (nd.opts.map (·.1)).Nodup)
    (hnot : lookup k nd.opts = none) (hmem : k' ∈ nd.opts.map (·.1)) (hpre : hasPrefix k' k = true)
    (huniq : ∀ x ∈ nd.opts, hasPrefix x.1 k = true → x.1 = k') :
    resolve nd k = [k'] := by
  simp only [resolve, hnot]
  exact filter_unique nd.opts (fun key => hasPrefix key k) k' hnd hmem hpre huniq

/-- An abbreviation behaves exactly like the full name it resolves to: the whole state after the
occurrence is the same, including `UsedAlias` (so `CalledAs` reports the full name). -/
theorem abbrev_equiv (s : PState) (k k' : Str) (args : List Str)
    (h : resolve (s.P.node s.cur) k = [k']) (h' : resolve (s.P.node s.cur) k' = [k']) :
    procPair ext s ⟨k, args⟩ = procPair ext s ⟨k', args⟩ := by
  cases hl : lookup k' (s.P.node s.cur).opts with
  | none => rw [procPair_known_nolookup ext s _ k' h hl, procPair_known_nolookup ext s _ k' h' hl]
  | some oid => rw [procPair_known ext s _ k' oid h hl, procPair_known ext s _ k' oid h' hl]

/-- A prefix matching two or more names (and not itself a name) is always rejected: the parse fails
with the ambiguity error carrying the sorted candidate list, and no option, no remaining argument
and no unknown-option record changes because of it. -/
theorem ambiguous_rejected (s : PState) (p : Pair) (k1 k2 : Str) (ks : List Str)
    (h : resolve (s.P.node s.cur) p.opt = k1 :: k2 :: ks) :
    (procPair ext s p).err = some (.ambiguous s.lastTok (sortStrs (k1 :: k2 :: ks))) ∧
    (procPair ext s p).P = s.P ∧ (procPair ext s p).rem = s.rem ∧ (procPair ext s p).unk = s.unk := by
  rw [procPair_amb ext s p k1 k2 ks h]
  exact ⟨rfl, rfl, rfl, rfl⟩

/-- when is a prefix ambiguous: it is not a key and at least two keys start with it -/
theorem resolve_ambiguous_iff (nd : Node) (k : Str) :
    (resolve nd k).length ≥ 2 ↔
      lookup k nd.opts = none ∧ ((nd.opts.filter fun kv => hasPrefix kv.1 k).length ≥ 2) := by
  unfold resolve
  cases h : lookup k nd.opts with
  | some o => simp
  | none => simp

/-- an error is absorbing: after the ambiguity error nothing is interpreted any more -/
theorem error_absorbing (mode : Mode) (s : PState) (ts : List Str) (h : s.err.isSome = true) :
    finish ext (ts.foldl (step ext mode) s) = s := by
  rw [foldl_err ext mode s ts h, finish_err ext s h]

/-- **Whole command line**: replacing the long token `--k[=v]`, where `k` is an abbreviation that
resolves to the declared name `k'`, by `--k'[=v]` — anywhere an option may start (head position or right
behind an option that can still take values), with any tokens
before and after — changes nothing observable in the result of the parse: same option values and
`CalledAs`, same selected command, same remaining arguments, same unknown-option log, same error. -/
theorem abbrev_parse (mode : Mode) (P : Prog) (pre post : List Str) (k k' g3 : Str)
    (hk : k ≠ []) (hkq : ∀ c ∈ k, c ≠ chEq) (hk' : k' ≠ []) (hkq' : ∀ c ∈ k', c ≠ chEq) (hg : G3 g3)
    (hs : OptStart (run ext mode P pre))
    (h : resolve ((run ext mode P pre).P.node (run ext mode P pre).cur) k = [k'])
    (h' : resolve ((run ext mode P pre).P.node (run ext mode P pre).cur) k' = [k']) :
    ObsEq (parseArgs ext mode P (pre ++ [chDash :: chDash :: (k ++ g3)] ++ post))
          (parseArgs ext mode P (pre ++ [chDash :: chDash :: (k' ++ g3)] ++ post)) := by
  apply parse_of_sim
  simp only [List.foldl_cons, List.foldl_nil]
  exact abbrev_sim' ext mode _ _ _ k k' (attached g3) hs
    (isOption_long k g3 mode hk hkq hg) (isOption_long k' g3 mode hk' hkq' hg) h h'

/-- **Whole command line: an ambiguous abbreviation fails the parse.**  An option token given at a head
position whose name is not a declared key and is a prefix of two or more keys of the level reached makes the
finished parse fail with the ambiguity error that quotes the token and lists *all* the candidates, sorted; no
option changes because of it or after it, nothing after it is interpreted, the remaining list stays what it was. -/
theorem ambiguous_parse (mode : Mode) (P : Prog) (pre post : List Str) (t : Str) (p : Pair) (k1 k2 : Str)
    (ks : List Str)
    (he : (run ext mode P pre).err = none) (hc : (run ext mode P pre).ctx = .idle)
    (hopt : isOption t mode = ([p], true))
    (hr : resolve ((run ext mode P pre).P.node (run ext mode P pre).cur) p.opt = k1 :: k2 :: ks) :
    let r := parseArgs ext mode P (pre ++ t :: post)
    r.err = some (.ambiguous t (sortStrs (k1 :: k2 :: ks))) ∧ r.P = (run ext mode P pre).P ∧
      r.rem = (run ext mode P pre).rem ∧ r.cur = (run ext mode P pre).cur := by
  have hd : t ≠ dashdash := by intro e; subst e; simp [isOption, dashdash] at hopt
  have h1 : step ext mode (run ext mode P pre) t =
      { headState (run ext mode P pre) t with
        pending := []
        err := some (.ambiguous t (sortStrs (k1 :: k2 :: ks))) } := by
    rw [step_head_option ext mode _ t [p] he hc hd hopt]
    unfold drain
    simp only
    rw [procPair_amb ext _ p k1 k2 ks (by simpa [headState] using hr)]
    simp [headState]
  simp only [parseArgs]
  rw [run_append]
  simp only [List.foldl_cons]
  rw [h1, foldl_err ext mode _ post (by simp), finish_err ext _ (by simp)]
  simp [headState]

/-! Non-vacuity on a concrete program: nested prefixes `v` / `verbose`, abbreviation `--verb`,
ambiguity `--n` between `name`, `n`(exact wins) and `num`. -/
example : resolve (Demo.prog.node 0) (b "verb") = [b "verbose"] ∧
          resolve (Demo.prog.node 0) (b "v") = [b "v"] ∧
          resolve (Demo.prog.node 0) (b "n") = [b "n"] ∧
          resolve (Demo.prog.node 0) (b "nu") = [b "num"] ∧
          (resolve (Demo.prog.node 0) (b "l")).length = 1 ∧
          (resolve (Demo.prog.node 0) (b "na")) = [b "name"] := by decide

example : (parseArgs Demo.ext .normal Demo.prog [b "--verb", b "--name=x"]).P.opt 1 =
          (parseArgs Demo.ext .normal Demo.prog [b "--verbose", b "--name=x"]).P.opt 1 := by decide

/-- `--ver` is ambiguous between `verbose` and `version`: rejected with the sorted candidates, and the
option set before it keeps its value while nothing after it is interpreted -/
example : (parseArgs Demo.ext .normal Demo.prog [b "--name=x", b "--ver", b "--num=3"]).err =
            some (.ambiguous (b "--ver") [b "verbose", b "version"]) ∧
          ((parseArgs Demo.ext .normal Demo.prog [b "--name=x", b "--ver", b "--num=3"]).P.opt 4).called = false := by
  decide

end GoModel

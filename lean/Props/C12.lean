import Props.C01
import Props.C06
import Lemmas.DefFrame
import Lemmas.Static
/-!
# C12 — value precedence is command line over environment variable over default
-/
namespace GoModel

variable (ext : Ext)

/-- an unset or empty variable changes nothing (only the binding itself is recorded for the help) -/
theorem env_empty (env : Env) (o : Opt) (name : Str) (h : getenv env name = []) :
    applyGetEnv ext env o name = { o with envVar := name } := by
  simp [applyGetEnv, h]

/-- bool: `true` / `false` in any ASCII casing set the value and mark the option called under the
variable's name; any other text changes nothing -/
theorem env_bool (env : Env) (o : Opt) (name : Str) (hk : o.kind = .bool) (hne : getenv env name ≠ [])
    (hg : o.validValues = []) :
    applyGetEnv ext env o name =
      if asciiLower (getenv env name) == b "true" then
        { o with envVar := name, value := .b true, called := true, usedAlias := name }
      else if asciiLower (getenv env name) == b "false" then
        { o with envVar := name, value := .b false, called := true, usedAlias := name }
      else { o with envVar := name } := by
  unfold applyGetEnv
  have h1 : (getenv env name).isEmpty = false := by cases h : getenv env name <;> simp_all
  simp only [h1, Bool.false_eq_true, ↓reduceIte, hk]
  by_cases ht : (asciiLower (getenv env name) == b "true") = true
  · simp [ht, save, validGate, hg]
  · by_cases hf : (asciiLower (getenv env name) == b "false") = true
    · simp [ht, hf, save, validGate, hg]
    · simp [ht, hf]

/-- string (plain or optional value): the variable's text is the value -/
theorem env_string (env : Env) (o : Opt) (name : Str) (hk : o.kind.isString = true) (hne : getenv env name ≠ [])
    (hg : o.validValues = []) :
    applyGetEnv ext env o name =
      { o with envVar := name, value := .s (getenv env name), called := true, usedAlias := name } := by
  have h1 : (getenv env name).isEmpty = false := by cases h : getenv env name <;> simp_all
  cases hkind : o.kind <;> simp [hkind, Kind.isString] at hk <;>
    simp [applyGetEnv, h1, hkind, save, validGate, hg]

/-- int (plain or optional value): valid text is converted; invalid text leaves the default
(the option is nevertheless marked called — observed behaviour, not contradicted by the property) -/
theorem env_int (env : Env) (o : Opt) (name : Str) (hk : o.kind.isInt = true) (hne : getenv env name ≠ [])
    (hg : o.validValues = []) :
    applyGetEnv ext env o name =
      match atoi (getenv env name) with
      | some n => { o with envVar := name, value := .i n, called := true, usedAlias := name }
      | none => { o with envVar := name, called := true, usedAlias := name } := by
  have h1 : (getenv env name).isEmpty = false := by cases h : getenv env name <;> simp_all
  cases hkind : o.kind <;> simp [hkind, Kind.isInt] at hk <;>
    cases ha : atoi (getenv env name) <;> simp [applyGetEnv, h1, hkind, save, validGate, hg, ha]

theorem env_float (env : Env) (o : Opt) (name : Str) (hk : o.kind.isFloat = true) (hne : getenv env name ≠ [])
    (hg : o.validValues = []) :
    applyGetEnv ext env o name =
      if ext.floatOk (getenv env name) then
        { o with envVar := name, value := .f (getenv env name), called := true, usedAlias := name }
      else { o with envVar := name, called := true, usedAlias := name } := by
  have h1 : (getenv env name).isEmpty = false := by cases h : getenv env name <;> simp_all
  cases hkind : o.kind <;> simp [hkind, Kind.isFloat] at hk <;>
    cases ha : ext.floatOk (getenv env name) <;> simp [applyGetEnv, h1, hkind, save, validGate, hg, ha]

/-- the binding is a no-op for every other kind -/
theorem env_other (env : Env) (o : Opt) (name : Str)
    (hk : o.kind = .incr ∨ o.kind = .strs ∨ o.kind = .ints ∨ o.kind = .flts ∨ o.kind = .map) :
    applyGetEnv ext env o name = { o with envVar := name } := by
  unfold applyGetEnv
  rcases hk with h | h | h | h | h <;> simp [h] <;> intro _ <;> rfl

/-- **Command line wins.**  The value a scalar option reads after a command-line occurrence with
a value does not depend on what the environment put there before: `Save` overwrites. -/
theorem cli_overrides_env (lower : Bool) (o₁ o₂ : Opt) (v : Str)
    (hsame : { o₁ with value := o₂.value, called := o₂.called, usedAlias := o₂.usedAlias } = o₂)
    (hk : o₁.kind.isString = true ∨ o₁.kind.isInt = true ∨ o₁.kind.isFloat = true) :
    (save ext lower o₁ [v]).toOption.map (·.value) = (save ext lower o₂ [v]).toOption.map (·.value) := by
  have hkind : o₂.kind = o₁.kind := by rw [← hsame]
  have hvv : o₂.validValues = o₁.validValues := by rw [← hsame]
  by_cases hg : validGate o₁ [v] = true
  · have hg2 : validGate o₂ [v] = true := by simpa [validGate, hvv] using hg
    rcases hk with h | h | h
    · rw [save_string ext lower o₁ v h hg, save_string ext lower o₂ v (by rw [hkind]; exact h) hg2]; rfl
    · rw [save_int ext lower o₁ v h hg, save_int ext lower o₂ v (by rw [hkind]; exact h) hg2]
      cases atoi v <;> rfl
    · rw [save_float ext lower o₁ v h hg, save_float ext lower o₂ v (by rw [hkind]; exact h) hg2]
      cases ext.floatOk v <;> rfl
  · have hg' : validGate o₁ [v] = false := by cases h : validGate o₁ [v] <;> simp_all
    have hg2 : validGate o₂ [v] = false := by simpa [validGate, hvv] using hg'
    rw [save_invalid ext lower o₁ v hg', save_invalid ext lower o₂ v hg2]; rfl

/-! ## whole program: definition script, environment, command line -/

variable (mode : Mode)

/-- **What the parser starts from.**  In every accepted definition script, the record an option constructor
produced — the fresh record (declared default, not called) with its modifiers applied in call order, `GetEnv`
reading the environment at that moment — is still that option's record after the whole script: no later
(or earlier) definition call touches it. -/
theorem definition_record (env : Env) (root : Str) (pre post : List DefOp) (hd : Nat) (kind : Kind) (name : Str)
    (dflt : Val) (dstr : Str) (min max : Int) (mods : List Mod) (st : BState)
    (h : buildB ext env root (pre ++ [.opt hd kind name dflt dstr min max mods] ++ post) = .ok st) :
    ∃ mid, buildB ext env root pre = .ok mid ∧
      st.P.opt mid.P.opts.length = mods.foldl (modEffect ext env) (freshOpt kind name dflt dstr min max) :=
  defined_record_final ext env root pre post hd kind name dflt dstr min max mods st h

/-- **Environment over default, end to end.**  Program = any accepted script in which the option is declared with
`GetEnv(var)`; command line = anything that does not mention the option (at any level, by name, alias or
abbreviation).  After the whole parse the option record is exactly what `GetEnv` made of the declared record:
by `env_empty`/`env_bool`/`env_string`/`env_int`/`env_float` that is the declared default with `Called` false
when the variable is unset, empty or not valid text for the type, and otherwise the variable's value with
`Called` true and `CalledAs` the variable's name. -/
theorem env_or_default_after_parse (env : Env) (root : Str) (pre post : List DefOp) (hd : Nat) (kind : Kind)
    (name : Str) (dflt : Val) (dstr : Str) (min max : Int) (var : Str) (st : BState) (args : List Str)
    (h : buildB ext env root (pre ++ [.opt hd kind name dflt dstr min max [.getEnv var]] ++ post) = .ok st) :
    ∃ mid, buildB ext env root pre = .ok mid ∧
      (¬ Mentioned mode st.P args mid.P.opts.length →
        (parseArgs ext mode st.P args).P.opt mid.P.opts.length =
          applyGetEnv ext env (freshOpt kind name dflt dstr min max) var) := by
  obtain ⟨mid, h1, h2⟩ := defined_record_final ext env root pre post hd kind name dflt dstr min max [.getEnv var] st h
  refine ⟨mid, h1, fun hnm => ?_⟩
  rw [unmentioned_keeps_default ext mode st.P args _ hnm, h2]
  rfl

/-- … instantiated for a string option: variable set ⇒ its text, `Called`, `CalledAs = var`; variable unset or
empty ⇒ the declared default, not called. -/
theorem env_string_after_parse (env : Env) (root : Str) (pre post : List DefOp) (hd : Nat) (kind : Kind)
    (name : Str) (d : Str) (dstr : Str) (min max : Int) (var : Str) (st : BState) (args : List Str)
    (hk : kind.isString = true)
    (h : buildB ext env root (pre ++ [.opt hd kind name (.s d) dstr min max [.getEnv var]] ++ post) = .ok st) :
    ∃ mid, buildB ext env root pre = .ok mid ∧
      (¬ Mentioned mode st.P args mid.P.opts.length →
        let o := (parseArgs ext mode st.P args).P.opt mid.P.opts.length
        (getenv env var ≠ [] → o.value = .s (getenv env var) ∧ o.called = true ∧ o.usedAlias = var) ∧
        (getenv env var = [] → o.value = .s d ∧ o.called = false)) := by
  obtain ⟨mid, h1, h2⟩ := env_or_default_after_parse ext mode env root pre post hd kind name (.s d) dstr min max var st args h
  refine ⟨mid, h1, fun hnm => ?_⟩
  have e := h2 hnm
  simp only
  rw [e]
  constructor
  · intro hne
    rw [env_string ext env _ var (by simpa [freshOpt] using hk) hne (by simp [freshOpt])]
    exact ⟨rfl, rfl, rfl⟩
  · intro he
    rw [env_empty ext env _ var he]
    exact ⟨rfl, rfl⟩

/-- **Command line over environment, end to end.**  Same program; the command line gives the option as
`--name=v` at a head position (resolved exactly, by alias or unique abbreviation) and does not mention it
afterwards: after the whole parse the option reads what `v` converts to, is called and `CalledAs` is the key
used — the record is the one `Save` makes from the *matched* record, and by `cli_overrides_env` its value does not
depend on what the environment had put there. -/
theorem cli_over_env_after_parse (P : Prog) (pre post : List Str) (name v key : Str) (oid : Nat)
    (he : (run ext mode P pre).err = none) (hc : (run ext mode P pre).ctx = .idle)
    (hn : name ≠ []) (hne : ∀ c ∈ name, c ≠ chEq) (hv : v ≠ [])
    (hr : resolve (P.node (run ext mode P pre).cur) name = [key])
    (hl : lookup key (P.node (run ext mode P pre).cur).opts = some oid)
    (hoid : oid < P.opts.length)
    (hk : (P.opt oid).kind.isString = true) (hvv : (P.opt oid).validValues = [])
    (hmax : (P.opt oid).max ≤ 1)
    (hpost : ¬ Mentioned mode P post oid) :
    let o := (parseArgs ext mode P (pre ++ (chDash :: chDash :: (name ++ chEq :: v)) :: post)).P.opt oid
    o.value = .s v ∧ o.called = true ∧ o.usedAlias = key := by
  have hsh := run_shape ext mode P pre
  have hkind : ((run ext mode P pre).P.opt oid).kind = (P.opt oid).kind ∧
      ((run ext mode P pre).P.opt oid).validValues = (P.opt oid).validValues ∧
      ((run ext mode P pre).P.opt oid).max = (P.opt oid).max := by
    have := run_static ext mode P pre oid
    exact ⟨this.1, this.2.1, this.2.2⟩
  have hm : (matched (run ext mode P pre) oid key).kind.isString = true := by
    simp only [matched]; rw [hkind.1]; exact hk
  have hg : validGate (matched (run ext mode P pre) oid key) [v] = true := by
    simp [validGate, matched, hkind.2.1, hvv]
  have hs := save_string ext (P.node 0).mapKeysToLower (matched (run ext mode P pre) oid key) v hm hg
  have := attached_value_is_final ext mode P pre post name v key oid _ he hc hn hne hv hr hl hoid hs
    (by simp only [matched]; rw [hkind.2.2]; exact hmax) hpost
  simp only
  rw [this]
  exact ⟨rfl, rfl, rfl⟩

/-! Non-vacuity: default, environment, command line on a bound string and a bound bool. -/
def envScript : List DefOp := [
  .opt 0 .str (b "host") (.s (b "def")) [] 0 0 [.getEnv (b "HOST")],
  .opt 0 .bool (b "dbg") (.b false) [] 0 0 [.getEnv (b "DBG")],
  .opt 0 .int (b "port") (.i 80) [] 0 0 [.getEnv (b "PORT")] ]

def envProg (env : Env) : Prog := match build Demo.ext env (b "p") envScript with
  | .ok P => P
  | .error _ => { nodes := [], opts := [] }

example : ((parseArgs Demo.ext .normal (envProg []) []).P.opt 0).value = .s (b "def") ∧
          ((parseArgs Demo.ext .normal (envProg [(b "HOST", b "e")]) []).P.opt 0).value = .s (b "e") ∧
          ((parseArgs Demo.ext .normal (envProg [(b "HOST", b "e")]) []).P.opt 0).usedAlias = b "HOST" ∧
          ((parseArgs Demo.ext .normal (envProg [(b "HOST", b "e")]) [b "--host=c"]).P.opt 0).value = .s (b "c") ∧
          ((parseArgs Demo.ext .normal (envProg [(b "DBG", b "TrUe")]) []).P.opt 1).value = .b true ∧
          ((parseArgs Demo.ext .normal (envProg [(b "DBG", b "yes")]) []).P.opt 1).called = false ∧
          ((parseArgs Demo.ext .normal (envProg [(b "PORT", b "12x")]) []).P.opt 2).value = .i 80 ∧
          ((parseArgs Demo.ext .normal (envProg [(b "PORT", b "")]) []).P.opt 2).called = false := by decide

-- the hypotheses of the end-to-end theorems are met by this script (option 0 = `host`, bound to HOST)
example : ((buildB Demo.ext [(b "HOST", b "e")] (b "p")
    ([] ++ [.opt 0 .str (b "host") (.s (b "def")) [] 0 0 [.getEnv (b "HOST")]] ++ envScript.tail)).toOption.map
      (·.P.opts.length)) = some 3 := by decide

end GoModel

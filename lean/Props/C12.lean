import Props.C01
import Model.Define
/-!
# C12 — value precedence is command line over environment variable over default
-/
namespace GoModel

variable (ext : Ext)

/-- an unset or empty variable changes nothing (only the binding itself is recorded for the help) -/
theorem env_empty (env : Env) (o : Opt) (name : Str) (h : getenv env name = []) :
    applyGetEnv ext env o name = { o with envVar := name } := by
  simp [applyGetEnv, h]

/-- bool: `true` / `false` in any ASCII casing set the value and mark the option called under the
variable's name; any other text changes nothing -/
theorem env_bool (env : Env) (o : Opt) (name : Str) (hk : o.kind = .bool) (hne : getenv env name ≠ [])
    (hg : o.validValues = []) :
    applyGetEnv ext env o name =
      if asciiLower (getenv env name) == b "true" then
        { o with envVar := name, value := .b true, called := true, usedAlias := name }
      else if asciiLower (getenv env name) == b "false" then
        { o with envVar := name, value := .b false, called := true, usedAlias := name }
      else { o with envVar := name } := by
  unfold applyGetEnv
  have h1 : (getenv env name).isEmpty = false := by cases h : getenv env name <;> simp_all
  simp only [h1, Bool.false_eq_true, ↓reduceIte, hk]
  by_cases ht : (asciiLower (getenv env name) == b "true") = true
  · simp [ht, save, validGate, hg]
  · by_cases hf : (asciiLower (getenv env name) == b "false") = true
    · simp [ht, hf, save, validGate, hg]
    · simp [ht, hf]

/-- string (plain or optional value): the variable's text is the value -/
theorem env_string (env : Env) (o : Opt) (name : Str) (hk : o.kind.isString = true) (hne : getenv env name ≠ [])
    (hg : o.validValues = []) :
    applyGetEnv ext env o name =
      { o with envVar := name, value := .s (getenv env name), called := true, usedAlias := name } := by
  have h1 : (getenv env name).isEmpty = false := by cases h : getenv env name <;> simp_all
  cases hkind : o.kind <;> simp [hkind, Kind.isString] at hk <;>
    simp [applyGetEnv, h1, hkind, save, validGate, hg]

/-- int (plain or optional value): valid text is converted; invalid text leaves the default
(the option is nevertheless marked called — observed behaviour, not contradicted by the property) -/
theorem env_int (env : Env) (o : Opt) (name : Str) (hk : o.kind.isInt = true) (hne : getenv env name ≠ [])
    (hg : o.validValues = []) :
    applyGetEnv ext env o name =
      match atoi (getenv env name) with
      | some n => { o with envVar := name, value := .i n, called := true, usedAlias := name }
      | none => { o with envVar := name, called := true, usedAlias := name } := by
  have h1 : (getenv env name).isEmpty = false := by cases h : getenv env name <;> simp_all
  cases hkind : o.kind <;> simp [hkind, Kind.isInt] at hk <;>
    cases ha : atoi (getenv env name) <;> simp [applyGetEnv, h1, hkind, save, validGate, hg, ha]

theorem env_float (env : Env) (o : Opt) (name : Str) (hk : o.kind.isFloat = true) (hne : getenv env name ≠ [])
    (hg : o.validValues = []) :
    applyGetEnv ext env o name =
      if ext.floatOk (getenv env name) then
        { o with envVar := name, value := .f (getenv env name), called := true, usedAlias := name }
      else { o with envVar := name, called := true, usedAlias := name } := by
  have h1 : (getenv env name).isEmpty = false := by cases h : getenv env name <;> simp_all
  cases hkind : o.kind <;> simp [hkind, Kind.isFloat] at hk <;>
    cases ha : ext.floatOk (getenv env name) <;> simp [applyGetEnv, h1, hkind, save, validGate, hg, ha]

/-- the binding is a no-op for every other kind -/
theorem env_other (env : Env) (o : Opt) (name : Str)
    (hk : o.kind = .incr ∨ o.kind = .strs ∨ o.kind = .ints ∨ o.kind = .flts ∨ o.kind = .map) :
    applyGetEnv ext env o name = { o with envVar := name } := by
  unfold applyGetEnv
  rcases hk with h | h | h | h | h <;> simp [h] <;> intro _ <;> rfl

/-- **Command line wins.**  The value a scalar option reads after a command-line occurrence with
a value does not depend on what the environment put there before: `Save` overwrites. -/
theorem cli_overrides_env (lower : Bool) (o₁ o₂ : Opt) (v : Str)
    (hsame : { o₁ with value := o₂.value, called := o₂.called, usedAlias := o₂.usedAlias } = o₂)
    (hk : o₁.kind.isString = true ∨ o₁.kind.isInt = true ∨ o₁.kind.isFloat = true) :
    (save ext lower o₁ [v]).toOption.map (·.value) = (save ext lower o₂ [v]).toOption.map (·.value) := by
  have hkind : o₂.kind = o₁.kind := by rw [← hsame]
  have hvv : o₂.validValues = o₁.validValues := by rw [← hsame]
  by_cases hg : validGate o₁ [v] = true
  · have hg2 : validGate o₂ [v] = true := by simpa [validGate, hvv] using hg
    rcases hk with h | h | h
    · rw [save_string ext lower o₁ v h hg, save_string ext lower o₂ v (by rw [hkind]; exact h) hg2]; rfl
    · rw [save_int ext lower o₁ v h hg, save_int ext lower o₂ v (by rw [hkind]; exact h) hg2]
      cases atoi v <;> rfl
    · rw [save_float ext lower o₁ v h hg, save_float ext lower o₂ v (by rw [hkind]; exact h) hg2]
      cases ext.floatOk v <;> rfl
  · have hg' : validGate o₁ [v] = false := by cases h : validGate o₁ [v] <;> simp_all
    have hg2 : validGate o₂ [v] = false := by simpa [validGate, hvv] using hg'
    rw [save_invalid ext lower o₁ v hg', save_invalid ext lower o₂ v hg2]; rfl

/-! Non-vacuity: default, environment, command line on a bound string and a bound bool. -/
def envScript : List DefOp := [
  .opt 0 .str (b "host") (.s (b "def")) [] 0 0 [.getEnv (b "HOST")],
  .opt 0 .bool (b "dbg") (.b false) [] 0 0 [.getEnv (b "DBG")],
  .opt 0 .int (b "port") (.i 80) [] 0 0 [.getEnv (b "PORT")] ]

def envProg (env : Env) : Prog := match build Demo.ext env (b "p") envScript with
  | .ok P => P
  | .error _ => { nodes := [], opts := [] }

example : ((parseArgs Demo.ext .normal (envProg []) []).P.opt 0).value = .s (b "def") ∧
          ((parseArgs Demo.ext .normal (envProg [(b "HOST", b "e")]) []).P.opt 0).value = .s (b "e") ∧
          ((parseArgs Demo.ext .normal (envProg [(b "HOST", b "e")]) []).P.opt 0).usedAlias = b "HOST" ∧
          ((parseArgs Demo.ext .normal (envProg [(b "HOST", b "e")]) [b "--host=c"]).P.opt 0).value = .s (b "c") ∧
          ((parseArgs Demo.ext .normal (envProg [(b "DBG", b "TrUe")]) []).P.opt 1).value = .b true ∧
          ((parseArgs Demo.ext .normal (envProg [(b "DBG", b "yes")]) []).P.opt 1).called = false ∧
          ((parseArgs Demo.ext .normal (envProg [(b "PORT", b "12x")]) []).P.opt 2).value = .i 80 ∧
          ((parseArgs Demo.ext .normal (envProg [(b "PORT", b "")]) []).P.opt 2).called = false := by decide

end GoModel

import Props.C08
import Lemmas.Sort
/-!
# C19 — no input makes the library panic or hang

The model has no `panic` outcome: every function of `lean/Model` is total and structurally recursive
(accepted by Lean's termination checker without `partial`, `unsafe` or well-founded recursion), which
is the model-level form of "returns for every input".  What is proved here are the facts that make
the Go index / slice / nil-dereference sites safe, plus the `nil` remaining list of a failed parse.
-/
namespace GoModel

variable (ext : Ext)

/-- A failed `Parse` returns a nil remaining list together with the error. -/
theorem failed_parse_nil (P : Prog) (args : List Str) (e : UErr) (h : (parseUser ext P args).err = some e) :
    (parseUser ext P args).remaining = none := by
  unfold parseUser at h ⊢
  simp only at h ⊢
  split
  · rfl
  · rename_i he
    simp only [he] at h
    split
    · rfl
    · rename_i hq
      simp only [hq] at h
      split
      · rfl
      · rename_i w hpol
        rw [hpol] at h
        simp at h

/-- … and a successful one returns a list and no error -/
theorem ok_parse_some (P : Prog) (args rem : List Str) (h : (parseUser ext P args).remaining = some rem) :
    (parseUser ext P args).err = none := by
  cases he : (parseUser ext P args).err with
  | none => rfl
  | some e => rw [failed_parse_nil ext P args e he] at h; simp at h

/-! ## slice bounds of the SingleDash / Bundling split (`match[2][:size]`, `match[2][size:]`) -/

theorem utf8Width_pos (c : UInt8) (r : Str) : 0 < utf8Width (c :: r) := by
  match r with
  | [] => simp [utf8Width]
  | [c1] => simp only [utf8Width]; split <;> omega
  | [c1, c2] => simp only [utf8Width]; split <;> (try split) <;> omega
  | c1 :: c2 :: c3 :: _ => simp only [utf8Width]; split <;> (try split) <;> (try split) <;> omega

theorem utf8Width_le (s : Str) : utf8Width s ≤ s.length := by
  match s with
  | [] => simp [utf8Width]
  | [c] => simp [utf8Width]
  | [c, c1] => simp only [utf8Width]; split <;> simp
  | [c, c1, c2] => simp only [utf8Width]; split <;> (try split) <;> simp
  | c :: c1 :: c2 :: c3 :: _ => simp only [utf8Width]; split <;> (try split) <;> (try split) <;> simp <;> omega

/-- the regular expression never yields an empty option name (`[^=]+`) -/
theorem splitDashes_name_ne (s : Str) (l : Bool) (name g3 : Str) (h : splitDashes s = some (l, name, g3)) :
    name ≠ [] := by
  unfold splitDashes at h
  split at h
  · rename_i c r
    split at h
    · rename_i hc
      simp only [Option.some.injEq, Prod.mk.injEq] at h
      rw [← h.2.1]
      simp [nameOf, List.takeWhile, hc]
    · simp only [Option.some.injEq, Prod.mk.injEq] at h
      rw [← h.2.1]; simp
  · rename_i c r _
    split at h
    · rename_i hc
      simp only [Option.some.injEq, Prod.mk.injEq] at h
      rw [← h.2.1]
      simp [nameOf, List.takeWhile, hc]
    · simp at h
  · simp at h

/-! ## the `lastOpt` dereference of the completion code -/

/-- while the loop over the option table has not set `lastOpt`, every candidate collected so far is
the lonesome dash -/
theorem optCand_lastNone (target : Str) (P : Prog) (w part : Str) (l : List (Str × Nat))
    (acc : List Str × Option Nat) (h0 : acc.2 = none → ∀ c ∈ acc.1, c = [chDash]) :
    (l.foldl (optCandStep ext target P w part) acc).2 = none →
      ∀ c ∈ (l.foldl (optCandStep ext target P w part) acc).1, c = [chDash] := by
  induction l generalizing acc with
  | nil => simpa using h0
  | cons kv l ih =>
    simp only [List.foldl]
    apply ih
    obtain ⟨k, oid⟩ := kv
    unfold optCandStep
    simp only
    split
    · rename_i hk
      split
      · intro hn c hc
        simp only [List.mem_append, List.mem_singleton] at hc
        rcases hc with hc | hc
        · exact h0 hn c hc
        · rw [hc]; simpa using hk
      · exact h0
    · split
      · intro hn; simp at hn
      · split
        · intro hn; simp at hn
        · exact h0

/-- **No nil dereference in completion**: whenever the single-candidate hint is computed (exactly
one candidate and it ends in `=`), `lastOpt` has been set. -/
theorem lastOpt_some (target : Str) (P : Prog) (nd : Node) (w : Str) (c : Str)
    (hone : sortStrs (nd.opts.foldl (optCandStep ext target P w (trimDash (trimDash w))) ([], none)).1 = [c])
    (heq : hasSuffix c [chEq] = true) :
    (nd.opts.foldl (optCandStep ext target P w (trimDash (trimDash w))) ([], none)).2 ≠ none := by
  intro hn
  have h := optCand_lastNone ext target P w (trimDash (trimDash w)) nd.opts ([], none) (by simp) hn
  have hc : c ∈ (nd.opts.foldl (optCandStep ext target P w (trimDash (trimDash w))) ([], none)).1 := by
    rw [← (sortStrs_perm _).mem_iff, hone]; simp
  have := h c hc
  rw [this] at heq
  revert heq; decide

/-! Non-vacuity: a failing parse. -/
example : (parseUser Demo.ext Demo.prog [b "--num", b "x"]).remaining = none ∧
          (parseUser Demo.ext Demo.prog [b "--num", b "x"]).err = some (.parse (.convInt (b "num") (b "x"))) := by decide

end GoModel

import Props.C08
import Lemmas.Sort
import Model.ReqArg
/-!
# C19 — no input makes the library panic or hang

The model has no `panic` outcome: every function of `lean/Model` is total and structurally recursive
(accepted by Lean's termination checker without `partial`, `unsafe` or well-founded recursion), which
is the model-level form of "returns for every input".  What is proved here are the facts that make
the Go index / slice / nil-dereference sites safe, plus the `nil` remaining list of a failed parse.
-/
namespace GoModel

variable (ext : Ext)

/-- A failed `Parse` returns a nil remaining list together with the error. -/
theorem failed_parse_nil (P : Prog) (args : List Str) (e : UErr) (h : (parseUser ext P args).err = some e) :
    (parseUser ext P args).remaining = none := by
  unfold parseUser at h ⊢
  simp only at h ⊢
  split
  · rfl
  · rename_i he
    simp only [he] at h
    split
    · rfl
    · rename_i hq
      simp only [hq] at h
      split
      · rfl
      · rename_i w hpol
        rw [hpol] at h
        simp at h

/-- … and a successful one returns a list and no error -/
theorem ok_parse_some (P : Prog) (args rem : List Str) (h : (parseUser ext P args).remaining = some rem) :
    (parseUser ext P args).err = none := by
  cases he : (parseUser ext P args).err with
  | none => rfl
  | some e => rw [failed_parse_nil ext P args e he] at h; simp at h

/-! ## slice bounds of the SingleDash / Bundling split (`match[2][:size]`, `match[2][size:]`) -/

theorem utf8Width_pos (c : UInt8) (r : Str) : 0 < utf8Width (c :: r) := by
  match r with
  | [] => simp [utf8Width]
  | [c1] => simp only [utf8Width]; split <;> omega
  | [c1, c2] => simp only [utf8Width]; split <;> (try split) <;> omega
  | c1 :: c2 :: c3 :: _ => simp only [utf8Width]; split <;> (try split) <;> (try split) <;> omega

theorem utf8Width_le (s : Str) : utf8Width s ≤ s.length := by
  match s with
  | [] => simp [utf8Width]
  | [c] => simp [utf8Width]
  | [c, c1] => simp only [utf8Width]; split <;> simp
  | [c, c1, c2] => simp only [utf8Width]; split <;> (try split) <;> simp
  | c :: c1 :: c2 :: c3 :: _ => simp only [utf8Width]; split <;> (try split) <;> (try split) <;> simp <;> omega

/-- the regular expression never yields an empty option name (`[^=]+`) -/
theorem splitDashes_name_ne (s : Str) (l : Bool) (name g3 : Str) (h : splitDashes s = some (l, name, g3)) :
    name ≠ [] := by
  unfold splitDashes at h
  split at h
  · rename_i c r
    split at h
    · rename_i hc
      simp only [Option.some.injEq, Prod.mk.injEq] at h
      rw [← h.2.1]
      simp [nameOf, List.takeWhile, hc]
    · simp only [Option.some.injEq, Prod.mk.injEq] at h
      rw [← h.2.1]; simp
  · rename_i c r _
    split at h
    · rename_i hc
      simp only [Option.some.injEq, Prod.mk.injEq] at h
      rw [← h.2.1]
      simp [nameOf, List.takeWhile, hc]
    · simp at h
  · simp at h

/-! ## the `lastOpt` dereference of the completion code -/

/-- while the loop over the option table has not set `lastOpt`, every candidate collected so far is
the lonesome dash -/
theorem optCand_lastNone (target : Str) (P : Prog) (w part : Str) (l : List (Str × Nat))
    (acc : List Str × Option Nat) (h0 : acc.2 = none → ∀ c ∈ acc.1, c = [chDash]) :
    (l.foldl (optCandStep ext target P w part) acc).2 = none →
      ∀ c ∈ (l.foldl (optCandStep ext target P w part) acc).1, c = [chDash] := by
  induction l generalizing acc with
  | nil => simpa using h0
  | cons kv l ih =>
    simp only [List.foldl]
    apply ih
    obtain ⟨k, oid⟩ := kv
    unfold optCandStep
    simp only
    split
    · rename_i hk
      split
      · intro hn c hc
        simp only [List.mem_append, List.mem_singleton] at hc
        rcases hc with hc | hc
        · exact h0 hn c hc
        · rw [hc]; simpa using hk
      · exact h0
    · split
      · intro hn; simp at hn
      · split
        · intro hn; simp at hn
        · exact h0

/-- **No nil dereference in completion**: whenever the single-candidate hint is computed (exactly
one candidate and it ends in `=`), `lastOpt` has been set. -/
theorem lastOpt_some (target : Str) (P : Prog) (nd : Node) (w : Str) (c : Str)
    (hone : sortStrs (nd.opts.foldl (optCandStep ext target P w (trimDash (trimDash w))) ([], none)).1 = [c])
    (heq : hasSuffix c [chEq] = true) :
    (nd.opts.foldl (optCandStep ext target P w (trimDash (trimDash w))) ([], none)).2 ≠ none := by
  intro hn
  have h := optCand_lastNone ext target P w (trimDash (trimDash w)) nd.opts ([], none) (by simp) hn
  have hc : c ∈ (nd.opts.foldl (optCandStep ext target P w (trimDash (trimDash w))) ([], none)).1 := by
    rw [← (sortStrs_perm _).mem_iff, hone]; simp
  have := h c hc
  rw [this] at heq
  revert heq; decide

/-! ## `GetRequiredArg*` (`helpers.go`): total, and nothing of the list is lost -/

/-- the three ways a call on a non-empty list can end all hand back the tail, and the element taken is the head:
`args[0]` / `args[1:]` are only evaluated on a non-empty list -/
theorem required_arg_conserves (P : Prog) (n hn idx : Nat) (kind : ReqKind) (args : List Str) (secs : List Section)
    (a : Str) (rest : List Str)
    (h : (getRequiredArg ext P n hn idx kind args secs).2 = .ok a rest ∨
         (getRequiredArg ext P n hn idx kind args secs).2 = .convInt a rest ∨
         (getRequiredArg ext P n hn idx kind args secs).2 = .convFloat a rest) :
    args = a :: rest := by
  cases args with
  | nil => simp [getRequiredArg] at h
  | cons x xs =>
    cases kind <;> simp only [getRequiredArg] at h
    · simpa using h
    · cases hx : atoi x <;> simp [hx] at h <;> simp [h]
    · cases hx : ext.floatOk x <;> simp [hx] at h <;> simp [h]

/-- the "missing argument" outcome is exactly the empty list -/
theorem required_arg_missing_iff (P : Prog) (n hn idx : Nat) (kind : ReqKind) (args : List Str) (secs : List Section) :
    (∃ named help, (getRequiredArg ext P n hn idx kind args secs).2 = .missing named help) ↔ args = [] := by
  cases args with
  | nil => simp [getRequiredArg]
  | cons x xs =>
    cases kind <;> simp only [getRequiredArg]
    · simp
    · cases atoi x <;> simp
    · cases ext.floatOk x <;> simp

/-- the message names the argument declared at the position the object has reached, when one is declared there;
the help printed is the synopsis unless sections are asked for -/
theorem required_arg_missing_names (P : Prog) (n hn idx : Nat) (kind : ReqKind) (secs : List Section)
    (h : idx < (P.node n).synArgs.length) :
    (getRequiredArg ext P n hn idx kind [] secs).2 =
      .missing (some ((P.node n).synArgs[idx]).1)
        (helpOutput ext P hn (if secs.isEmpty then [.synopsis] else secs)) := by
  simp [getRequiredArg, h]

/-- every call advances the object's argument counter by one, whatever the outcome -/
theorem required_arg_counter (P : Prog) (n hn idx : Nat) (kind : ReqKind) (args : List Str) (secs : List Section) :
    (getRequiredArg ext P n hn idx kind args secs).1 = idx + 1 := by
  cases args <;> rfl

/-- an `int` / `float64` success is a text the conversion accepts -/
theorem required_arg_converts (P : Prog) (n hn idx : Nat) (args : List Str) (secs : List Section) (a : Str)
    (rest : List Str) :
    ((getRequiredArg ext P n hn idx .int args secs).2 = .ok a rest → (atoi a).isSome = true) ∧
    ((getRequiredArg ext P n hn idx .float args secs).2 = .ok a rest → ext.floatOk a = true) := by
  cases args with
  | nil => simp [getRequiredArg]
  | cons x xs =>
    constructor
    · simp only [getRequiredArg]
      cases hx : atoi x <;> simp
      intro h _; rw [← h, hx]; rfl
    · simp only [getRequiredArg]
      cases hx : ext.floatOk x <;> simp
      intro h _; rw [← h]; exact hx

example : (getRequiredArg Demo.ext Demo.prog 0 0 0 .int [b "12", b "x"] []).2 = .ok (b "12") [b "x"] ∧
          (getRequiredArg Demo.ext Demo.prog 0 0 0 .int [b "1x"] []).2 = .convInt (b "1x") [] := by decide

/-- `k` calls of `GetRequiredArg`, each on the list the previous one handed back: the values taken, the list left,
the counter reached (`none` as soon as one call finds nothing to take) -/
def takeRequired (P : Prog) (n hn : Nat) : Nat → Nat → List Str → Option (List Str × List Str × Nat)
  | 0, idx, args => some ([], args, idx)
  | k + 1, idx, args =>
    match getRequiredArg ext P n hn idx .str args [] with
    | (idx', .ok v rest) =>
      match takeRequired P n hn k idx' rest with
      | some (vs, r, i) => some (v :: vs, r, i)
      | none => none
    | _ => none

/-- **Chained `GetRequiredArg` calls conserve the list**: `k` calls on a list with at least `k` elements return its
first `k` elements, in order, leave exactly the rest, and advance the object's argument counter by `k`; with fewer
elements the `(k)`-th call at the latest reports the missing argument. -/
theorem takeRequired_spec (P : Prog) (n hn : Nat) (k idx : Nat) (args : List Str) :
    takeRequired ext P n hn k idx args =
      if k ≤ args.length then some (args.take k, args.drop k, idx + k) else none := by
  induction k generalizing idx args with
  | zero => simp [takeRequired]
  | succ k ih =>
    cases args with
    | nil => simp [takeRequired, getRequiredArg]
    | cons a r =>
      simp only [takeRequired, getRequiredArg, ih, List.length_cons, Nat.add_le_add_iff_right]
      split <;> simp_all <;> omega

example : takeRequired Demo.ext Demo.prog 0 0 2 0 [b "a", b "b", b "c"] = some ([b "a", b "b"], [b "c"], 2) := by decide


/-! Non-vacuity: a failing parse. -/
example : (parseUser Demo.ext Demo.prog [b "--num", b "x"]).remaining = none ∧
          (parseUser Demo.ext Demo.prog [b "--num", b "x"]).err = some (.parse (.convInt (b "num") (b "x"))) := by decide

end GoModel

import Lemmas.Parse
import Lemmas.Terminator
import Lemmas.Demo
/-!
# C04 — `--` ends option parsing; everything after it is returned untouched
-/
namespace GoModel

variable (ext : Ext) (mode : Mode)

/-- `--` is never taken as an optional or greedy (beyond-minimum) argument: an occurrence that has
its mandatory arguments refuses it, whatever its kind. -/
theorem dashdash_not_greedy (s : PState) (o i : Nat) (h : ¬ ((i : Int) < (s.P.opt o).min)) :
    (offer ext mode s o i dashdash).2 = false := by
  unfold offer
  simp [h]

/-- `--` does not look like an option in any mode (so it is never the "dash argument" error either). -/
theorem dashdash_not_optionlike (m : Mode) : looksLikeOption dashdash m = false := by
  cases m <;> decide

/-- At a head position `--` only switches the parser to the stopped state: no option, command,
positional or unknown-option record is produced by it. -/
theorem dashdash_at_head (s : PState) : head ext mode none s dashdash = { s with ctx := .stopped } := by
  simp [head]

/-- **Terminator theorem.**  If the parser is at a head position after `pre` (no option occurrence is
still collecting arguments), then for every tail the state after `pre ++ ["--"] ++ tail` is the state
after `pre` with the tail appended verbatim to the remaining arguments: option values, `Called`
flags, the selected command and the unknown-option records are exactly those of `pre`. -/
theorem terminator (P : Prog) (pre tail : List Str)
    (he : (run ext mode P pre).err = none) (hc : (run ext mode P pre).ctx = .idle) :
    parseArgs ext mode P (pre ++ dashdash :: tail) =
      { (run ext mode P pre) with ctx := .stopped, rem := (run ext mode P pre).rem ++ tail } := by
  unfold parseArgs
  rw [run_append]
  simp only [List.foldl]
  have h1 : step ext mode (run ext mode P pre) dashdash = { (run ext mode P pre) with ctx := .stopped } := by
    simp [step, stepG, he, hc, dashdash_at_head]
  rw [h1]
  rw [foldl_stopped ext mode _ tail (by simpa using he) rfl]
  rw [finish_stopped ext _ rfl]

/-- the same, compared with parsing `pre` alone -/
theorem terminator_vs_prefix (P : Prog) (pre tail : List Str)
    (he : (run ext mode P pre).err = none) (hc : (run ext mode P pre).ctx = .idle) :
    let a := parseArgs ext mode P pre
    let r := parseArgs ext mode P (pre ++ dashdash :: tail)
    r.P = a.P ∧ r.cur = a.cur ∧ r.unk = a.unk ∧ r.err = a.err ∧ r.rem = a.rem ++ tail := by
  have hfin : parseArgs ext mode P pre = run ext mode P pre := by
    unfold parseArgs; exact finish_idle ext _ hc
  simp [hfin, terminator ext mode P pre tail he hc]

/-- in the stopped state nothing but the remaining list ever changes again -/
theorem after_stop (s : PState) (ts : List Str) (he : s.err = none) (hc : s.ctx = .stopped) :
    let r := finish ext (ts.foldl (step ext mode) s)
    r.P = s.P ∧ r.cur = s.cur ∧ r.unk = s.unk ∧ r.err = none ∧ r.rem = s.rem ++ ts := by
  rw [foldl_stopped ext mode s ts he hc, finish_stopped ext _ (by simpa using hc)]
  simp [he]

/-! Non-vacuity: the hypotheses of `terminator` hold on a concrete program after a prefix that sets
options, consumes a greedy argument and selects a command; the tail is made of known option names
and a command name, and is returned untouched. -/
example :
    let pre := [b "--list", b "a", b "b", b "-v", b "cmd", b "--force", b "x"]
    (run Demo.ext .normal Demo.prog pre).err = none ∧ (run Demo.ext .normal Demo.prog pre).ctx = .idle := by
  decide

example :
    (parseArgs Demo.ext .normal Demo.prog
      [b "--list", b "a", b "--", b "--verbose", b "cmd", b "--"]).rem = [b "--verbose", b "cmd", b "--"] ∧
    ((parseArgs Demo.ext .normal Demo.prog
      [b "--list", b "a", b "--", b "--verbose", b "cmd", b "--"]).P.opt 1).called = false := by
  decide

/-- a `--` directly behind an optional-value option is not swallowed -/
example :
    (parseArgs Demo.ext .normal Demo.prog [b "--opt", b "--", b "--verbose"]).rem = [b "--verbose"] ∧
    ((parseArgs Demo.ext .normal Demo.prog [b "--opt", b "--", b "--verbose"]).P.opt 3).value = .s (b "d") := by
  decide

/-- **Terminator theorem, every prefix.**  Let `pre` be any argument list whose parse succeeds on its
own (so nothing at its end still lacks a mandatory argument - the one situation in which a following
`--` is a value).  Then for every tail, parsing `pre ++ ["--"] ++ tail` gives exactly the result of
parsing `pre` - option store, selected command, unknown-option records, no error - with `tail`
appended verbatim to the remaining arguments (and `--` itself in front of it when interpretation
had already stopped inside `pre`: an earlier `--` or the require-order stop).  No hypothesis on mode,
unknown-mode, require-order, or on what kind of option (optional value, multi-value, bundled) is open
at the end of `pre`. -/
theorem terminator_general (P : Prog) (pre tail : List Str)
    (hf : (parseArgs ext mode P pre).err = none) :
    parseArgs ext mode P (pre ++ dashdash :: tail) =
      if (parseArgs ext mode P pre).ctx = .idle then
        { (parseArgs ext mode P pre) with ctx := .stopped, rem := (parseArgs ext mode P pre).rem ++ tail }
      else
        { (parseArgs ext mode P pre) with rem := (parseArgs ext mode P pre).rem ++ dashdash :: tail } := by
  have hnd := run_not_done ext mode P pre
  have he : (run ext mode P pre).err = none := by
    cases h : (run ext mode P pre).err with
    | none => rfl
    | some e =>
      have := finish_err ext (run ext mode P pre) (by simp [h])
      unfold parseArgs at hf
      rw [this] at hf
      simp [h] at hf
  have hctx := finish_ctx ext _ hnd hf
  unfold parseArgs at hf hctx ⊢
  rw [run_append]
  simp only [List.foldl]
  rw [step_dashdash ext mode _ he hnd hf]
  generalize finish ext (run ext mode P pre) = f at hf hctx ⊢
  unfold closeWith
  by_cases hi : f.ctx = .idle
  · simp only [hi, ↓reduceIte]
    rw [foldl_stopped ext mode _ tail (by simpa using hf) rfl]
    rw [finish_stopped ext _ rfl]
  · have hs : f.ctx = .stopped := by
      rcases hctx with h | h
      · exact absurd h hi
      · exact h
    simp only [hi, ↓reduceIte]
    rw [foldl_stopped ext mode _ tail (by simpa [PState.addText] using hf) (by simpa [PState.addText] using hs)]
    rw [finish_stopped ext _ (by simpa [PState.addText] using hs)]
    simp [PState.addText, List.append_assoc]

/-- field by field: nothing behind the `--` sets an option, selects a command, or is recorded as an
unknown option; the tail comes back verbatim and in order -/
theorem terminator_general_fields (P : Prog) (pre tail : List Str)
    (hf : (parseArgs ext mode P pre).err = none) :
    let a := parseArgs ext mode P pre
    let r := parseArgs ext mode P (pre ++ dashdash :: tail)
    r.P = a.P ∧ r.cur = a.cur ∧ r.unk = a.unk ∧ r.err = none ∧
      (r.rem = a.rem ++ tail ∨ r.rem = a.rem ++ dashdash :: tail) := by
  simp only
  rw [terminator_general ext mode P pre tail hf]
  by_cases hi : (parseArgs ext mode P pre).ctx = .idle
  · simp [hi, hf]
  · simp [hi, hf]

/-- the excluded case is exactly the mandatory value: when the parse of `pre` alone fails only
because its last occurrence lacks a mandatory argument, `--` is consumed as that argument -/
example :
    (parseArgs Demo.ext .normal Demo.prog [b "--name"]).err ≠ none ∧
    ((parseArgs Demo.ext .normal Demo.prog [b "--name", b "--", b "--verbose"]).P.opt 0).value = .s (b "--") := by
  decide

/-- non-vacuity of `terminator_general` with an optional-value option open at the end of `pre`, with a
multi-value option open, and after an earlier `--` -/
example :
    (parseArgs Demo.ext .normal Demo.prog [b "-v", b "--opt"]).err = none ∧
    (parseArgs Demo.ext .normal Demo.prog [b "--list", b "a"]).err = none ∧
    (parseArgs Demo.ext .normal Demo.prog [b "--", b "x"]).err = none ∧
    (parseArgs Demo.ext .normal Demo.prog [b "--", b "x"]).ctx ≠ .idle := by
  decide

end GoModel

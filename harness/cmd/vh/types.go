package main

import (
	"encoding/hex"
	"fmt"
	"os"
	"path/filepath"
	"sort"
	"strconv"
	"strings"
)

// Kinds in the order of option.Type.
var kindNames = []string{"bool", "incr", "str", "int", "flt", "strOpt", "intOpt", "fltOpt", "strs", "ints", "flts", "map"}

const (
	KBool = iota
	KIncr
	KStr
	KInt
	KFlt
	KStrOpt
	KIntOpt
	KFltOpt
	KStrs
	KInts
	KFlts
	KMap
)

type Mod struct {
	M    string   `json:"m"` // alias desc called req reqm env arg valid sugg sfn
	Strs []string `json:"s,omitempty"`
	B    bool     `json:"b,omitempty"`
	N    int      `json:"n,omitempty"`
}

// DefOp mirrors GoModel.DefOp. H is a node handle (0 root, k = k-th cmd op).
type DefOp struct {
	Op   string   `json:"op"` // opt cmd fn mode umode ro unset mapkeys argcomp argfn synarg self help
	H    int      `json:"h"`
	Kind int      `json:"kind,omitempty"`
	Name string   `json:"name,omitempty"`
	Desc string   `json:"desc,omitempty"`
	DefB bool     `json:"defb,omitempty"`
	DefI int      `json:"defi,omitempty"`
	DefS string   `json:"defs,omitempty"`
	DefF float64  `json:"deff,omitempty"`
	Min  int      `json:"min,omitempty"`
	Max  int      `json:"max,omitempty"`
	Mods []Mod    `json:"mods,omitempty"`
	N    int      `json:"n,omitempty"` // fn id / mode / umode
	L    []string `json:"l,omitempty"`
	Var  bool     `json:"var,omitempty"` // use the *Var form with a pre-seeded variable
	// initial contents of the variable handed to StringSliceVar / IntSliceVar / StringMapVar (with Var)
	InitSS []string    `json:"initss,omitempty"`
	InitIS []int       `json:"initis,omitempty"`
	InitM  [][2]string `json:"initm,omitempty"`
}

type EnvKV struct {
	K string `json:"k"`
	V string `json:"v"`
}

type Case struct {
	ID       int      `json:"id"`
	Env      []EnvKV  `json:"env,omitempty"`
	Root     string   `json:"root"`
	Script   []DefOp  `json:"script"`
	Args     []string `json:"args"`
	Dispatch bool     `json:"dispatch,omitempty"`
	Help     bool     `json:"help,omitempty"`     // also compare Help() after Parse
	Reparse  bool     `json:"reparse,omitempty"`  // afterwards parse an empty command line on the same object (oracle)
	PreEmpty bool     `json:"preempty,omitempty"` // Parse([]) on the object first (a two-phase parse); skipped (fresh object) when that fails
	Twice    bool     `json:"twice,omitempty"`    // Parse + Dispatch a second time on the same object with the same arguments (oracle)
	HelpSecs []int    `json:"helpsecs,omitempty"` // sections passed to Help(...): 0 none 2 name 3 synopsis 4 commands 5 options 6 info
	// completion request instead of parse
	Comp     bool   `json:"comp,omitempty"`
	Zsh      bool   `json:"zsh,omitempty"`
	CompLine string `json:"compline,omitempty"`
	Tag      string `json:"tag,omitempty"`
	// getoptions.Writer fails: 1 = every Write returns an error, 2 = short writes (one byte, no error … then an
	// error).  What Parse / Dispatch return must not depend on it; texts written are not compared then.
	BadWriter int `json:"badwriter,omitempty"`
	// Dispatch is handed a context that is already over (1 = cancelled, 2 = deadline passed): which function runs,
	// with which arguments, and what is returned must not depend on it
	DeadCtx int `json:"deadctx,omitempty"`
	// SetValue(name, values...) calls made on the object of handle H after a successful Parse, before the
	// option values are read (and before Dispatch)
	SetVals []SetVal `json:"setvals,omitempty"`
	// GetRequiredArg / GetRequiredArgInt / GetRequiredArgFloat64 calls made on the object of handle H after a
	// successful Parse (after the SetValue calls): the first is handed `remaining`, each later one the list the
	// previous call returned
	ReqArgs []ReqArg `json:"reqargs,omitempty"`
}

type ReqArg struct {
	H    int   `json:"h"`
	Kind int   `json:"kind"`           // 0 string, 1 int, 2 float64
	Secs []int `json:"secs,omitempty"` // help sections handed over (none: the synopsis)
}

func (ra ReqArg) line() string {
	secs := "-"
	if len(ra.Secs) > 0 {
		ws := make([]string, len(ra.Secs))
		for i, x := range ra.Secs {
			ws[i] = strconv.Itoa(x)
		}
		secs = strings.Join(ws, ",")
	}
	return fmt.Sprintf("reqarg %d %d %s", ra.H, ra.Kind, secs)
}

type SetVal struct {
	H    int      `json:"h"`
	Name string   `json:"name"`
	Vals []string `json:"vals"`
}

func hx(s string) string { return "x" + hex.EncodeToString([]byte(s)) }

func unhx(s string) (string, error) {
	if !strings.HasPrefix(s, "x") {
		return "", fmt.Errorf("bad hex %q", s)
	}
	b, err := hex.DecodeString(s[1:])
	return string(b), err
}

func hxList(l []string) string {
	if len(l) == 0 {
		return "-"
	}
	out := make([]string, len(l))
	for i, s := range l {
		out[i] = hx(s)
	}
	return strings.Join(out, ",")
}

func unhxList(s string) ([]string, error) {
	if s == "-" {
		return []string{}, nil
	}
	parts := strings.Split(s, ",")
	out := make([]string, len(parts))
	for i, p := range parts {
		v, err := unhx(p)
		if err != nil {
			return nil, err
		}
		out[i] = v
	}
	return out, nil
}

func modLine(m Mod) string {
	switch m.M {
	case "alias", "valid", "sugg":
		return m.M + ":" + hxList(m.Strs)
	case "desc", "reqm", "env", "arg":
		return m.M + ":" + hx(m.Strs[0])
	case "called":
		if m.B {
			return "called:1"
		}
		return "called:0"
	case "req":
		return "req"
	case "sfn":
		return "sfn:" + strconv.Itoa(m.N)
	}
	panic("bad mod " + m.M)
}

func fmtFloatText(f float64) string { return strconv.FormatFloat(f, 'g', -1, 64) }

func (op DefOp) line() string {
	mods := ""
	for _, m := range op.Mods {
		mods += " " + modLine(m)
	}
	switch op.Op {
	case "opt":
		var d, ds string
		ds = "x"
		switch op.Kind {
		case KBool:
			d = "b0"
			if op.DefB {
				d = "b1"
			}
		case KIncr, KInt, KIntOpt:
			d = "i" + strconv.Itoa(op.DefI)
		case KStr, KStrOpt:
			d = "s" + hx(op.DefS)
		case KFlt, KFltOpt:
			d = "f" + hx(fmtFloatText(op.DefF))
			ds = hx(fmt.Sprintf("%f", op.DefF))
		case KStrs:
			d = "ss"
			if len(op.InitSS) > 0 {
				d = "ss" + hxList(op.InitSS)
			}
		case KInts:
			d = "is"
			if len(op.InitIS) > 0 {
				parts := make([]string, len(op.InitIS))
				for i, v := range op.InitIS {
					parts[i] = strconv.Itoa(v)
				}
				d = "is" + strings.Join(parts, ",")
			}
		case KFlts:
			d = "fs"
		case KMap:
			d = "m"
			if len(op.InitM) > 0 {
				parts := make([]string, len(op.InitM))
				for i, kv := range op.InitM {
					parts[i] = hx(kv[0]) + "=" + hx(kv[1])
				}
				d = "m" + strings.Join(parts, ",")
			}
		}
		return fmt.Sprintf("opt %d %s %s %s %s %d %d%s", op.H, kindNames[op.Kind], hx(op.Name), d, ds, op.Min, op.Max, mods)
	case "cmd":
		return fmt.Sprintf("cmd %d %s %s", op.H, hx(op.Name), hx(op.Desc))
	case "fn", "mode", "umode", "argfn":
		return fmt.Sprintf("%s %d %d", op.Op, op.H, op.N)
	case "ro", "unset", "mapkeys":
		return fmt.Sprintf("%s %d", op.Op, op.H)
	case "argcomp":
		return fmt.Sprintf("argcomp %d %s", op.H, hxList(op.L))
	case "synarg", "self":
		return fmt.Sprintf("%s %d %s %s", op.Op, op.H, hx(op.Name), hx(op.Desc))
	case "help":
		return fmt.Sprintf("help %d %s%s", op.H, hx(op.Name), mods)
	}
	panic("bad op " + op.Op)
}

// suffixes of every string the model may ask ParseFloat about
func floatCandidates(c *Case) []string {
	seen := map[string]bool{}
	add := func(s string) {
		for i := 0; i <= len(s); i++ {
			seen[s[i:]] = true
		}
	}
	for _, a := range c.Args {
		add(a)
	}
	for _, e := range c.Env {
		add(e.V)
	}
	for _, sv := range c.SetVals {
		for _, v := range sv.Vals {
			add(v)
		}
	}
	if c.Comp {
		for _, w := range strings.Fields(c.CompLine) {
			add(w)
		}
		add(c.CompLine)
	}
	out := []string{}
	for s := range seen {
		if _, err := strconv.ParseFloat(s, 64); err == nil {
			out = append(out, s)
		}
	}
	sort.Strings(out)
	return out
}

// asciiLower is the model's built-in approximation of strings.ToLower
func asciiLower(s string) string {
	b := []byte(s)
	for i, c := range b {
		if 'A' <= c && c <= 'Z' {
			b[i] = c + 32
		}
	}
	return string(b)
}

// lowerCandidates lists (key, strings.ToLower(key)) for every map key the model may ask about
// (any substring of an argument that ends before an `=` or at the end) on which strings.ToLower is not
// plain ASCII lowering: strings.ToLower is a parameter of the model, its graph is supplied here.
func lowerCandidates(c *Case) [][2]string {
	hasMapKeys := false
	for _, op := range c.Script {
		if op.Op == "mapkeys" {
			hasMapKeys = true
		}
	}
	if !hasMapKeys {
		return nil
	}
	seen := map[string]bool{}
	add := func(s string) {
		for i := 0; i <= len(s); i++ {
			sub := s[i:]
			if j := strings.Index(sub, "="); j >= 0 {
				sub = sub[:j]
			}
			seen[sub] = true
		}
	}
	for _, a := range c.Args {
		add(a)
	}
	for _, e := range c.Env {
		add(e.V)
	}
	for _, sv := range c.SetVals {
		for _, v := range sv.Vals {
			add(v)
		}
	}
	var out [][2]string
	for k := range seen {
		if l := strings.ToLower(k); l != asciiLower(k) {
			out = append(out, [2]string{k, l})
		}
	}
	sort.Slice(out, func(i, j int) bool { return out[i][0] < out[j][0] })
	return out
}

// protocol lines of a case, up to and including the run requests
func (c *Case) lines() []string {
	out := []string{fmt.Sprintf("case %d", c.ID)}
	for _, e := range c.Env {
		out = append(out, fmt.Sprintf("env %s %s", hx(e.K), hx(e.V)))
	}
	out = append(out, "root "+hx(c.Root))
	out = append(out, "exe "+hx(filepath.Base(os.Args[0]))) // what Self("", …) falls back to
	if f := floatCandidates(c); len(f) > 0 {
		l := "fok"
		for _, s := range f {
			l += " " + hx(s)
		}
		out = append(out, l)
	}
	if lc := lowerCandidates(c); len(lc) > 0 {
		l := "low"
		for _, kv := range lc {
			l += " " + hx(kv[0]) + " " + hx(kv[1])
		}
		out = append(out, l)
	}
	for _, op := range c.Script {
		if op.Op == "probe" {
			continue // a read-only look at the help in the middle of the definition: nothing for the model to do
		}
		out = append(out, op.line())
		if op.Op == "argfn" {
			// further functions handed to the same ArgCompletionsFns call: for the model one registration each
			for _, n := range op.InitIS {
				out = append(out, fmt.Sprintf("argfn %d %d", op.H, n))
			}
		}
	}
	if c.Comp {
		z := 0
		if c.Zsh {
			z = 1
		}
		out = append(out, fmt.Sprintf("complete %d %s %s", z, hx(c.CompLine), hxList(c.Args)))
	} else {
		out = append(out, "parse "+hxList(c.Args))
		for _, sv := range c.SetVals {
			out = append(out, fmt.Sprintf("setvalue %d %s %s", sv.H, hx(sv.Name), hxList(sv.Vals)))
		}
		for _, ra := range c.ReqArgs {
			out = append(out, ra.line())
		}
		if c.Dispatch {
			out = append(out, "dispatch")
		}
		if c.Help {
			l := "helpof"
			for _, sec := range c.HelpSecs {
				l += " " + strconv.Itoa(sec)
			}
			out = append(out, l)
		}
	}
	out = append(out, "end")
	return out
}

// number of answer lines the driver prints for this case
func (c *Case) answers() int {
	if c.Comp {
		return 1
	}
	n := 1 + len(c.SetVals) + len(c.ReqArgs)
	if c.Dispatch {
		n++
	}
	if c.Help {
		n++
	}
	return n
}

// parse "K a=b c=d" answer line into fields
func parseAnswer(line string) (string, map[string]string) {
	ws := strings.Fields(line)
	f := map[string]string{}
	if len(ws) == 0 {
		return "", f
	}
	for _, w := range ws[1:] {
		i := strings.Index(w, "=")
		if i < 0 {
			f[w] = ""
			continue
		}
		f[w[:i]] = w[i+1:]
	}
	return ws[0], f
}

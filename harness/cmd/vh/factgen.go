package main

import (
	"fmt"
	"go/ast"
	"go/parser"
	"go/token"
	"io/ioutil"
	"os"
	"path/filepath"
	"sort"
	"strconv"
	"strings"
)

// factgen: read facts off the current source of /repo with go/ast and write them as Lean definitions
// (Generated/Facts.lean). Tie/*.lean states what the model expects of each fact.

type factFile struct {
	fset  *token.FileSet
	files map[string]*ast.File // relative path -> file
}

// the packages the model covers; every non-test file of each is read, so that a function or a table
// that moves to another file of its package keeps its facts
var factPkgs = []string{".", "internal/option", "internal/help", "internal/sliceiterator", "dag", "text"}

func parseRepo(repo string) (*factFile, error) {
	ff := &factFile{fset: token.NewFileSet(), files: map[string]*ast.File{}}
	for _, dir := range factPkgs {
		ents, err := ioutil.ReadDir(filepath.Join(repo, dir))
		if err != nil {
			return nil, err
		}
		for _, e := range ents {
			n := e.Name()
			if e.IsDir() || !strings.HasSuffix(n, ".go") || strings.HasSuffix(n, "_test.go") || strings.HasPrefix(n, "verif_") {
				continue
			}
			rel := filepath.ToSlash(filepath.Join(dir, n))
			f, err := parser.ParseFile(ff.fset, filepath.Join(repo, rel), nil, parser.ParseComments)
			if err != nil {
				return nil, err
			}
			ff.files[rel] = f
		}
	}
	return ff, nil
}

func pkgDirOf(rel string) string {
	if i := strings.LastIndex(rel, "/"); i >= 0 {
		return rel[:i]
	}
	return "."
}

// files of one package, in name order
func (ff *factFile) pkg(dir string) []*ast.File {
	var rels []string
	for rel := range ff.files {
		if pkgDirOf(rel) == dir {
			rels = append(rels, rel)
		}
	}
	sort.Strings(rels)
	out := make([]*ast.File, len(rels))
	for i, rel := range rels {
		out[i] = ff.files[rel]
	}
	return out
}

func (ff *factFile) findFuncPkg(dir, name string) *ast.FuncDecl {
	for _, f := range ff.pkg(dir) {
		if fd := findFunc(f, name); fd != nil {
			return fd
		}
	}
	return nil
}

func (ff *factFile) iotaOrderPkg(dir, typeName string) []string {
	for _, f := range ff.pkg(dir) {
		if l := iotaOrder(f, typeName); len(l) > 0 {
			return l
		}
	}
	return nil
}

func leanStr(s string) string {
	var b strings.Builder
	b.WriteByte('"')
	for _, r := range s {
		switch r {
		case '"':
			b.WriteString("\\\"")
		case '\\':
			b.WriteString("\\\\")
		case '\n':
			b.WriteString("\\n")
		case '\t':
			b.WriteString("\\t")
		default:
			b.WriteRune(r)
		}
	}
	b.WriteByte('"')
	return b.String()
}

func leanStrList(l []string) string {
	out := make([]string, len(l))
	for i, s := range l {
		out[i] = leanStr(s)
	}
	return "[" + strings.Join(out, ", ") + "]"
}

func exprStr(fset *token.FileSet, e ast.Expr) string {
	switch x := e.(type) {
	case *ast.Ident:
		return x.Name
	case *ast.SelectorExpr:
		return exprStr(fset, x.X) + "." + x.Sel.Name
	case *ast.BasicLit:
		return x.Value
	case *ast.StarExpr:
		return "*" + exprStr(fset, x.X)
	case *ast.CallExpr:
		args := []string{}
		for _, a := range x.Args {
			args = append(args, exprStr(fset, a))
		}
		return exprStr(fset, x.Fun) + "(" + strings.Join(args, ", ") + ")"
	case *ast.IndexExpr:
		return exprStr(fset, x.X) + "[" + exprStr(fset, x.Index) + "]"
	case *ast.ParenExpr:
		return "(" + exprStr(fset, x.X) + ")"
	case *ast.UnaryExpr:
		return x.Op.String() + exprStr(fset, x.X)
	case *ast.BinaryExpr:
		return exprStr(fset, x.X) + " " + x.Op.String() + " " + exprStr(fset, x.Y)
	case *ast.TypeAssertExpr:
		return exprStr(fset, x.X) + ".(" + exprStr(fset, x.Type) + ")"
	case *ast.ArrayType:
		return "[]" + exprStr(fset, x.Elt)
	case *ast.MapType:
		return "map[" + exprStr(fset, x.Key) + "]" + exprStr(fset, x.Value)
	case *ast.ChanType:
		return "chan " + exprStr(fset, x.Value)
	case *ast.StructType:
		return "struct{}"
	case *ast.CompositeLit:
		return exprStr(fset, x.Type) + "{...}"
	case *ast.FuncLit:
		return "func{...}"
	}
	return fmt.Sprintf("<%T>", e)
}

// constants declared with iota in one const block whose first spec has the given type name
func iotaOrder(f *ast.File, typeName string) []string {
	var out []string
	for _, d := range f.Decls {
		gd, ok := d.(*ast.GenDecl)
		if !ok || gd.Tok != token.CONST {
			continue
		}
		first, ok := gd.Specs[0].(*ast.ValueSpec)
		if !ok || first.Type == nil {
			continue
		}
		if id, ok := first.Type.(*ast.Ident); !ok || id.Name != typeName {
			continue
		}
		for _, s := range gd.Specs {
			vs := s.(*ast.ValueSpec)
			for _, n := range vs.Names {
				out = append(out, n.Name)
			}
		}
	}
	return out
}

func findFunc(f *ast.File, name string) *ast.FuncDecl {
	for _, d := range f.Decls {
		if fd, ok := d.(*ast.FuncDecl); ok && fd.Name.Name == name {
			return fd
		}
	}
	return nil
}

func caseNames(fset *token.FileSet, cc *ast.CaseClause) []string {
	var out []string
	for _, e := range cc.List {
		s := exprStr(fset, e)
		s = strings.TrimPrefix(s, "option.")
		out = append(out, s)
	}
	return out
}

type kindRow struct {
	name, argName string
	min, max      int
	optional      bool
}

// The per-kind table of internal/option (help argument name, minimum, maximum, optional), wherever it is written:
// assignments `x.HelpArgName = "…"`, `x.MinArgs, x.MaxArgs = 1, 1` … or keyed struct-literal fields inside a `case`
// clause over option Type constants (in `New` or in a helper it calls), or a composite literal keyed by Type
// constants. Field names are compared case-insensitively; a kind that gets no value keeps "" / 0 / 0 / false.
func kindTable(ff *factFile) []kindRow {
	order := ff.iotaOrderPkg("internal/option", "Type")
	if len(order) == 0 {
		return nil
	}
	isKind := map[string]bool{}
	rows := map[string]*kindRow{}
	for _, n := range order {
		isKind[n] = true
		rows[n] = &kindRow{name: n}
	}
	set := func(names []string, field, rhs string) {
		for _, n := range names {
			r := rows[n]
			if r == nil {
				continue
			}
			switch strings.ToLower(field) {
			case "helpargname":
				if v, err := strconv.Unquote(rhs); err == nil {
					r.argName = v
				}
			case "minargs":
				if v, err := strconv.Atoi(rhs); err == nil {
					r.min = v
				}
			case "maxargs":
				if v, err := strconv.Atoi(rhs); err == nil {
					r.max = v
				}
			case "isoptional":
				if rhs == "true" || rhs == "false" {
					r.optional = rhs == "true"
				}
			}
		}
	}
	fieldOf := func(e ast.Expr) string {
		switch x := e.(type) {
		case *ast.SelectorExpr:
			return x.Sel.Name
		case *ast.Ident:
			return x.Name
		}
		return ""
	}
	// values given inside a node (assignments and keyed literal fields) for the kinds `names`
	collect := func(names []string, root ast.Node) {
		ast.Inspect(root, func(n ast.Node) bool {
			switch x := n.(type) {
			case *ast.AssignStmt:
				if len(x.Lhs) == len(x.Rhs) {
					for k := range x.Lhs {
						if _, isSel := x.Lhs[k].(*ast.SelectorExpr); isSel {
							set(names, fieldOf(x.Lhs[k]), exprStr(ff.fset, x.Rhs[k]))
						}
					}
				}
			case *ast.KeyValueExpr:
				if id, ok := x.Key.(*ast.Ident); ok && !isKind[id.Name] {
					set(names, id.Name, exprStr(ff.fset, x.Value))
				}
			}
			return true
		})
	}
	for _, f := range ff.pkg("internal/option") {
		ast.Inspect(f, func(n ast.Node) bool {
			switch x := n.(type) {
			case *ast.CaseClause:
				names := caseNames(ff.fset, x)
				all := len(names) > 0
				for _, nm := range names {
					all = all && isKind[nm]
				}
				if all {
					for _, st := range x.Body {
						collect(names, st)
					}
				}
			case *ast.KeyValueExpr:
				if id, ok := x.Key.(*ast.Ident); ok && isKind[id.Name] {
					collect([]string{id.Name}, x.Value)
				}
			}
			return true
		})
	}
	var out []kindRow
	for _, n := range order {
		out = append(out, *rows[n])
	}
	return out
}

// names of struct fields and package-level vars with map type, per file set (heuristic typing for range detection)
func mapTypedNames(ff *factFile) map[string]bool {
	names := map[string]bool{}
	for _, f := range ff.files {
		ast.Inspect(f, func(n ast.Node) bool {
			switch x := n.(type) {
			case *ast.Field:
				if _, ok := x.Type.(*ast.MapType); ok {
					for _, nm := range x.Names {
						names[nm.Name] = true
					}
				}
			case *ast.ValueSpec:
				if _, ok := x.Type.(*ast.MapType); ok {
					for _, nm := range x.Names {
						names[nm.Name] = true
					}
				}
			case *ast.AssignStmt:
				if x.Tok == token.DEFINE && len(x.Lhs) == 1 && len(x.Rhs) == 1 {
					isMap := false
					switch r := x.Rhs[0].(type) {
					case *ast.CompositeLit:
						_, isMap = r.Type.(*ast.MapType)
					case *ast.CallExpr:
						if id, ok := r.Fun.(*ast.Ident); ok && id.Name == "make" && len(r.Args) > 0 {
							_, isMap = r.Args[0].(*ast.MapType)
						}
					}
					if isMap {
						if id, ok := x.Lhs[0].(*ast.Ident); ok {
							names[id.Name] = true
						}
					}
				}
			}
			return true
		})
	}
	return names
}

type mapRange struct {
	file, fn, expr string
	sorted         bool // a sort.* call follows in the same function
	earlyExit      bool // the loop body contains return / break / continue-to-label that makes the order observable
}

func mapRanges(ff *factFile) []mapRange {
	names := mapTypedNames(ff)
	var out []mapRange
	rels := make([]string, 0, len(ff.files))
	for rel := range ff.files {
		rels = append(rels, rel)
	}
	sort.Strings(rels)
	for _, rel := range rels {
		f := ff.files[rel]
		for _, d := range f.Decls {
			fd, ok := d.(*ast.FuncDecl)
			if !ok || fd.Body == nil {
				continue
			}
			ast.Inspect(fd.Body, func(n ast.Node) bool {
				rs, ok := n.(*ast.RangeStmt)
				if !ok {
					return true
				}
				last := ""
				switch x := rs.X.(type) {
				case *ast.Ident:
					last = x.Name
				case *ast.SelectorExpr:
					last = x.Sel.Name
				case *ast.StarExpr:
					if id, ok := x.X.(*ast.Ident); ok {
						last = id.Name
					}
				}
				if !names[last] {
					return true
				}
				mr := mapRange{file: pkgDirOf(rel), fn: fd.Name.Name, expr: last} // package, function, the ranged map by its field / variable name
				// sort call after the loop in the same function
				ast.Inspect(fd.Body, func(m ast.Node) bool {
					if ce, ok := m.(*ast.CallExpr); ok && ce.Pos() > rs.End() {
						s := exprStr(ff.fset, ce.Fun)
						if strings.HasPrefix(s, "sort.") || s == "option.Sort" {
							mr.sorted = true
						}
					}
					return true
				})
				ast.Inspect(rs.Body, func(m ast.Node) bool {
					switch m.(type) {
					case *ast.ReturnStmt:
						mr.earlyExit = true
					case *ast.FuncLit:
						return false
					}
					return true
				})
				out = append(out, mr)
				return true
			})
		}
	}
	return out
}

// text/variables.go: name -> value (string concatenations folded)
func textVars(ff *factFile) map[string]string {
	out := map[string]string{}
	var eval func(e ast.Expr) string
	eval = func(e ast.Expr) string {
		switch x := e.(type) {
		case *ast.BasicLit:
			s, _ := strconv.Unquote(x.Value)
			return s
		case *ast.BinaryExpr:
			return eval(x.X) + eval(x.Y)
		}
		return "?"
	}
	for _, f := range ff.pkg("text") {
		for _, d := range f.Decls {
			gd, ok := d.(*ast.GenDecl)
			if !ok || gd.Tok != token.VAR {
				continue
			}
			for _, s := range gd.Specs {
				vs := s.(*ast.ValueSpec)
				for i, n := range vs.Names {
					if i < len(vs.Values) {
						out[n.Name] = eval(vs.Values[i])
					}
				}
			}
		}
	}
	return out
}

// switch on the option type inside a function: the kinds of each case clause
func switchKinds(ff *factFile, dir, fn string, tag string) [][]string {
	fd := ff.findFuncPkg(dir, fn)
	var out [][]string
	if fd == nil {
		return out
	}
	ast.Inspect(fd.Body, func(n ast.Node) bool {
		sw, ok := n.(*ast.SwitchStmt)
		if !ok || sw.Tag == nil || !strings.HasSuffix(exprStr(ff.fset, sw.Tag), tag) {
			return true
		}
		if len(out) > 0 {
			return false
		}
		for _, st := range sw.Body.List {
			cc := st.(*ast.CaseClause)
			names := caseNames(ff.fset, cc)
			if cc.List == nil {
				names = []string{"default"}
			}
			out = append(out, names)
		}
		return false
	})
	return out
}

// switchKindsAnywhere finds, in any function of the file except those named in skip, the first switch on
// an option type whose clauses mention `mention`; `default` clauses are dropped. (A refactoring that
// moves the switch into a helper keeps the fact.)
func switchKindsAnywhere(ff *factFile, dir string, skip map[string]bool, mention string) [][]string {
	var out [][]string
	var decls []ast.Decl
	for _, f := range ff.pkg(dir) {
		decls = append(decls, f.Decls...)
	}
	for _, d := range decls {
		fd, ok := d.(*ast.FuncDecl)
		if !ok || fd.Body == nil || skip[fd.Name.Name] || len(out) > 0 {
			continue
		}
		ast.Inspect(fd.Body, func(n ast.Node) bool {
			sw, ok := n.(*ast.SwitchStmt)
			if !ok || sw.Tag == nil || len(out) > 0 {
				return len(out) == 0
			}
			if !strings.HasSuffix(strings.ToLower(exprStr(ff.fset, sw.Tag)), "opttype") {
				return true
			}
			var cl [][]string
			found := false
			for _, st := range sw.Body.List {
				cc := st.(*ast.CaseClause)
				if cc.List == nil {
					continue
				}
				names := caseNames(ff.fset, cc)
				for _, nm := range names {
					if nm == mention {
						found = true
					}
				}
				cl = append(cl, names)
			}
			if found {
				out = cl
				return false
			}
			return true
		})
	}
	return out
}

func leanStrListList(l [][]string) string {
	out := make([]string, len(l))
	for i, s := range l {
		out[i] = leanStrList(s)
	}
	return "[" + strings.Join(out, ", ") + "]"
}

// dagTaskLock - set by dagFacts: the task goroutine does `x.Lock(); defer x.Unlock()` before its attempt loop
var dagTaskLock bool

// dagFacts - structural facts of the dag package that the scheduler model relies on.  They are stated so that they
// survive the extraction of helpers and the grouping of locals into a struct: channels are found wherever they are
// made and classified by their element type, goroutine bodies are followed into the functions they call, status
// writes are reported by the constant written and by whether they sit in a goroutine body.
func dagFacts(ff *factFile) (doneCap, semCap string, statusWrites []string, errAppends []string, goFirst []string, defaults map[string]string) {
	var decls []ast.Decl
	for _, f := range ff.pkg("dag") {
		decls = append(decls, f.Decls...)
	}
	defaults = map[string]string{}
	seenAppend := map[string]bool{}
	funcs := map[string]*ast.FuncDecl{}
	for _, d := range decls {
		if fd, ok := d.(*ast.FuncDecl); ok && fd.Body != nil {
			funcs[fd.Name.Name] = fd
		}
	}
	lastName := func(e ast.Expr) string {
		s := exprStr(ff.fset, e)
		if i := strings.LastIndex(s, "."); i >= 0 {
			s = s[i+1:]
		}
		return s
	}
	// 1. channels: every make(chan T[, cap]) of the package, also through a named channel type
	semNames := map[string]bool{}
	semTypes := map[string]bool{} // `type X chan struct{}`
	chanTypes := map[string]bool{}
	consts := map[string]string{} // package-level constants with a literal value
	for _, d := range decls {
		gd, ok := d.(*ast.GenDecl)
		if !ok {
			continue
		}
		for _, sp := range gd.Specs {
			switch x := sp.(type) {
			case *ast.TypeSpec:
				if ct, ok := x.Type.(*ast.ChanType); ok {
					chanTypes[x.Name.Name] = true
					if exprStr(ff.fset, ct.Value) == "struct{}" {
						semTypes[x.Name.Name] = true
					}
				}
			case *ast.ValueSpec:
				if gd.Tok == token.CONST {
					for i, nm := range x.Names {
						if i < len(x.Values) {
							if bl, ok := x.Values[i].(*ast.BasicLit); ok {
								consts[nm.Name] = bl.Value
							}
						}
					}
				}
			}
		}
	}
	var doneCaps, semCaps []string
	noteMake := func(name string, e ast.Expr) {
		ce, ok := e.(*ast.CallExpr)
		if !ok {
			return
		}
		id, ok := ce.Fun.(*ast.Ident)
		if !ok || id.Name != "make" || len(ce.Args) == 0 {
			return
		}
		isSem, isChan := false, false
		switch ct := ce.Args[0].(type) {
		case *ast.ChanType:
			isChan, isSem = true, exprStr(ff.fset, ct.Value) == "struct{}"
		case *ast.Ident:
			isChan, isSem = chanTypes[ct.Name], semTypes[ct.Name]
		}
		if !isChan {
			return
		}
		c := "0"
		if len(ce.Args) > 1 {
			c = exprStr(ff.fset, ce.Args[1])
		}
		if isSem {
			semCaps = append(semCaps, c)
			semNames[name] = true
		} else {
			doneCaps = append(doneCaps, c)
		}
	}
	for _, fd := range funcs {
		ast.Inspect(fd.Body, func(n ast.Node) bool {
			switch x := n.(type) {
			case *ast.AssignStmt:
				for i, l := range x.Lhs {
					if i < len(x.Rhs) {
						noteMake(lastName(l), x.Rhs[i])
					}
				}
			case *ast.KeyValueExpr:
				if k, ok := x.Key.(*ast.Ident); ok {
					noteMake(k.Name, x.Value)
				}
			case *ast.ValueSpec:
				for i, nm := range x.Names {
					if i < len(x.Values) {
						noteMake(nm.Name, x.Values[i])
					}
				}
			case *ast.ReturnStmt:
				for _, r := range x.Results {
					noteMake("", r)
				}
			}
			return true
		})
	}
	// a channel operand is a semaphore: a name a semaphore was made under, or the receiver / a parameter / a field
	// of a named `chan struct{}` type
	semVars := map[string]bool{}
	for _, fd := range funcs {
		fields := []*ast.Field{}
		if fd.Recv != nil {
			fields = append(fields, fd.Recv.List...)
		}
		if fd.Type.Params != nil {
			fields = append(fields, fd.Type.Params.List...)
		}
		for _, f := range fields {
			if id, ok := f.Type.(*ast.Ident); ok && semTypes[id.Name] {
				for _, nm := range f.Names {
					semVars[fd.Name.Name+"/"+nm.Name] = true
				}
			}
		}
	}
	for _, f := range ff.pkg("dag") {
		ast.Inspect(f, func(n ast.Node) bool {
			if fl, ok := n.(*ast.Field); ok {
				if id, ok := fl.Type.(*ast.Ident); ok && semTypes[id.Name] {
					for _, nm := range fl.Names {
						semNames[nm.Name] = true
					}
				}
			}
			return true
		})
	}
	isSemChan := func(fn string, e ast.Expr) bool {
		return semNames[lastName(e)] || semVars[fn+"/"+exprStr(ff.fset, e)]
	}
	// functions / methods that are "take a slot" (first statement: send on a semaphore) or "give it back" (receive)
	acquireFns, releaseFns := map[string]bool{}, map[string]bool{}
	isSemRecv := func(fn string, st ast.Stmt) bool {
		es, ok := st.(*ast.ExprStmt)
		if !ok {
			return false
		}
		ue, ok := es.X.(*ast.UnaryExpr)
		return ok && ue.Op == token.ARROW && isSemChan(fn, ue.X)
	}
	for name, fd := range funcs {
		if len(fd.Body.List) == 0 {
			continue
		}
		if snd, ok := fd.Body.List[0].(*ast.SendStmt); ok && isSemChan(name, snd.Chan) {
			acquireFns[name] = true
		}
		if isSemRecv(name, fd.Body.List[0]) {
			releaseFns[name] = true
		}
	}
	uniqJoin := func(l []string) string {
		sort.Strings(l)
		out := []string{}
		for i, x := range l {
			if i == 0 || x != l[i-1] {
				out = append(out, x)
			}
		}
		return strings.Join(out, "|")
	}
	doneCap, semCap = uniqJoin(doneCaps), uniqJoin(semCaps)
	// 2. goroutine bodies: function literals, or the declared function / method a `go` statement calls
	goBodies := map[*ast.BlockStmt]bool{}
	goFuncs := map[string]bool{}
	for _, fd := range funcs {
		ast.Inspect(fd.Body, func(n ast.Node) bool {
			g, ok := n.(*ast.GoStmt)
			if !ok {
				return true
			}
			switch f := g.Call.Fun.(type) {
			case *ast.FuncLit:
				goBodies[f.Body] = true
			default:
				if t, ok := funcs[lastName(f)]; ok {
					goBodies[t.Body] = true
					goFuncs[t.Name.Name] = true
				}
			}
			return true
		})
	}
	for body := range goBodies {
		stmts := []string{}
		for i, s := range body.List {
			if i >= 6 {
				break
			}
			switch y := s.(type) {
			case *ast.SendStmt:
				nm := lastName(y.Chan)
				if semNames[nm] {
					nm = "semaphore"
				}
				stmts = append(stmts, "send "+nm)
			case *ast.DeferStmt:
				if fl, ok := y.Call.Fun.(*ast.FuncLit); ok && len(fl.Body.List) == 1 && isSemRecv("", fl.Body.List[0]) {
					stmts = append(stmts, "defer recv semaphore")
				} else if releaseFns[lastName(y.Call.Fun)] {
					stmts = append(stmts, "defer recv semaphore")
				} else {
					stmts = append(stmts, "defer "+exprStr(ff.fset, y.Call.Fun))
				}
			case *ast.ExprStmt:
				if ce, ok := y.X.(*ast.CallExpr); ok && acquireFns[lastName(ce.Fun)] {
					stmts = append(stmts, "send semaphore")
				} else {
					stmts = append(stmts, exprStr(ff.fset, y.X))
				}
			default:
				stmts = append(stmts, fmt.Sprintf("%T", s))
			}
		}
		goFirst = append(goFirst, strings.Join(stmts, "; "))
	}
	sort.Strings(goFirst)
	// 2b. the task goroutine (the one whose body starts by taking a semaphore slot) locks the Task's mutex and defers
	// the unlock before its attempt loop
	dagTaskLock = false
	for body := range goBodies {
		if len(body.List) == 0 {
			continue
		}
		takes := false
		switch y := body.List[0].(type) {
		case *ast.SendStmt:
			takes = semNames[lastName(y.Chan)]
		case *ast.ExprStmt:
			if ce, ok := y.X.(*ast.CallExpr); ok {
				takes = acquireFns[lastName(ce.Fun)]
			}
		}
		if !takes {
			continue
		}
		for i, st := range body.List {
			if _, isFor := st.(*ast.ForStmt); isFor {
				break
			}
			es, ok := st.(*ast.ExprStmt)
			if !ok || i+1 >= len(body.List) {
				continue
			}
			ce, ok := es.X.(*ast.CallExpr)
			if !ok || lastName(ce.Fun) != "Lock" {
				continue
			}
			if df, ok := body.List[i+1].(*ast.DeferStmt); ok && lastName(df.Call.Fun) == "Unlock" &&
				strings.TrimSuffix(exprStr(ff.fset, df.Call.Fun), ".Unlock") == strings.TrimSuffix(exprStr(ff.fset, ce.Fun), ".Lock") {
				dagTaskLock = true
			}
		}
	}
	// 3. status writes: the constant written, and "goroutine" when the write sits in a goroutine body
	for _, fd := range funcs {
		inGo := []ast.Node{}
		ast.Inspect(fd.Body, func(n ast.Node) bool {
			switch x := n.(type) {
			case *ast.AssignStmt:
				for i, l := range x.Lhs {
					ls := exprStr(ff.fset, l)
					if strings.HasSuffix(ls, ".status") && i < len(x.Rhs) {
						where := "scheduler"
						if goFuncs[fd.Name.Name] {
							where = "goroutine"
						}
						for body := range goBodies {
							if x.Pos() >= body.Pos() && x.End() <= body.End() {
								where = "goroutine"
							}
						}
						statusWrites = append(statusWrites, where+": "+exprStr(ff.fset, x.Rhs[i]))
					}
					if ls == "g.errs.Errors" && !seenAppend[fd.Name.Name] {
						seenAppend[fd.Name.Name] = true
						errAppends = append(errAppends, fd.Name.Name)
					}
				}
			case *ast.KeyValueExpr:
				if fd.Name.Name == "NewGraph" {
					if k, ok := x.Key.(*ast.Ident); ok {
						v := exprStr(ff.fset, x.Value)
						if c, ok := consts[v]; ok {
							v = c // a package-level constant stands for its literal
						}
						defaults[k.Name] = v
					}
				}
			}
			return true
		})
		_ = inGo
	}
	sort.Strings(statusWrites)
	uniq := statusWrites[:0]
	for i, w := range statusWrites {
		if i == 0 || w != statusWrites[i-1] {
			uniq = append(uniq, w)
		}
	}
	statusWrites = uniq
	sort.Strings(errAppends)
	return
}

func importsOf(f *ast.File) []string {
	var out []string
	for _, im := range f.Imports {
		p, _ := strconv.Unquote(im.Path.Value)
		out = append(out, p)
	}
	sort.Strings(out)
	return out
}

func runFactgen(repo, outPath string) int {
	ff, err := parseRepo(repo)
	if err != nil {
		fmt.Fprintln(os.Stderr, "factgen:", err)
		return 1
	}
	var b strings.Builder
	b.WriteString("/- REGENERATED from the Go sources under /repo by `vh factgen` on every check run. Do not edit. -/\n")
	b.WriteString("namespace Generated\n\n")
	// kind table
	b.WriteString("/-- the switch in option.New: (kind, HelpArgName, MinArgs, MaxArgs, IsOptional) -/\n")
	b.WriteString("def kindTable : List (String × String × Int × Int × Bool) := [\n")
	rows := kindTable(ff)
	for i, r := range rows {
		sep := ","
		if i == len(rows)-1 {
			sep = ""
		}
		b.WriteString(fmt.Sprintf("  (%s, %s, %d, %d, %v)%s\n", leanStr(r.name), leanStr(r.argName), r.min, r.max, r.optional, sep))
	}
	b.WriteString("]\n\n")
	b.WriteString("def optionTypeOrder : List String := " + leanStrList(ff.iotaOrderPkg("internal/option", "Type")) + "\n")
	b.WriteString("def modeOrder : List String := " + leanStrList(ff.iotaOrderPkg(".", "Mode")) + "\n")
	b.WriteString("def unknownModeOrder : List String := " + leanStrList(ff.iotaOrderPkg(".", "UnknownMode")) + "\n")
	b.WriteString("def runStatusOrder : List String := " + leanStrList(ff.iotaOrderPkg("dag", "runStatus")) + "\n")
	b.WriteString("def visitStatusOrder : List String := " + leanStrList(ff.iotaOrderPkg("dag", "visitStatus")) + "\n\n")
	// regex
	rx := "?"
	for _, f := range ff.pkg(".") {
		ast.Inspect(f, func(n ast.Node) bool {
			if vs, ok := n.(*ast.ValueSpec); ok && len(vs.Names) == 1 && vs.Names[0].Name == "isOptionRegex" && len(vs.Values) == 1 {
				if ce, ok := vs.Values[0].(*ast.CallExpr); ok && len(ce.Args) > 0 {
					if bl, ok := ce.Args[0].(*ast.BasicLit); ok {
						rx, _ = strconv.Unquote(bl.Value)
					}
				}
			}
			return true
		})
	}
	b.WriteString("def isOptionRegex : String := " + leanStr(rx) + "\n")
	// the other compiled pattern of the package (not one of the isOptionRegex* variables): the COMP_LINE
	// word separator, wherever it is compiled
	rx2 := "?"
	for _, f := range ff.pkg(".") {
		skip := map[ast.Node]bool{}
		ast.Inspect(f, func(n ast.Node) bool {
			if vs, ok := n.(*ast.ValueSpec); ok && len(vs.Names) == 1 && strings.HasPrefix(vs.Names[0].Name, "isOptionRegex") {
				for _, v := range vs.Values {
					skip[v] = true
				}
			}
			if ce, ok := n.(*ast.CallExpr); ok && !skip[n] && exprStr(ff.fset, ce.Fun) == "regexp.MustCompile" && rx2 == "?" && len(ce.Args) > 0 {
				if bl, ok := ce.Args[0].(*ast.BasicLit); ok {
					rx2, _ = strconv.Unquote(bl.Value)
				}
			}
			return true
		})
	}
	b.WriteString("def compLineSplitRegex : String := " + leanStr(rx2) + "\n\n")
	// text vars
	tv := textVars(ff)
	keys := make([]string, 0, len(tv))
	for k := range tv {
		keys = append(keys, k)
	}
	sort.Strings(keys)
	b.WriteString("def textVars : List (String × String) := [\n")
	for i, k := range keys {
		sep := ","
		if i == len(keys)-1 {
			sep = ""
		}
		b.WriteString("  (" + leanStr(k) + ", " + leanStr(tv[k]) + ")" + sep + "\n")
	}
	b.WriteString("]\n\n")
	// switches on option kinds
	b.WriteString("/-- case clauses of the option-type switch in help.Synopsis -/\n")
	b.WriteString("def synopsisSwitch : List (List String) := " + leanStrListList(switchKindsAnywhere(ff, "internal/help", map[string]bool{}, "BoolType")) + "\n")
	b.WriteString("/-- case clauses of the lookahead switch in the greedy loop of parseCLIArgs -/\n")
	b.WriteString("def greedySwitch : List (List String) := " + leanStrListList(switchKindsAnywhere(ff, ".", map[string]bool{"AddChildOption": true}, "IntRepeatType")) + "\n")
	b.WriteString("/-- case clauses of the switch in Option.Save (with arguments) -/\n")
	sk := switchKinds(ff, "internal/option", "Save", "OptType")
	b.WriteString("def saveSwitch : List (List String) := " + leanStrListList(sk) + "\n")
	b.WriteString("def addChildOptionSwitch : List (List String) := " + leanStrListList(switchKinds(ff, ".", "AddChildOption", "OptType")) + "\n\n")
	// map ranges
	mrs := mapRanges(ff)
	b.WriteString("/-- every `range` over a map-typed expression: (file, function, expression, a sort call follows, the loop body returns) -/\n")
	b.WriteString("def mapRanges : List (String × String × String × Bool × Bool) := [\n")
	for i, m := range mrs {
		sep := ","
		if i == len(mrs)-1 {
			sep = ""
		}
		b.WriteString(fmt.Sprintf("  (%s, %s, %s, %v, %v)%s\n", leanStr(m.file), leanStr(m.fn), leanStr(m.expr), m.sorted, m.earlyExit, sep))
	}
	b.WriteString("]\n\n")
	// dag
	doneCap, semCap, sw, ea, gofirst, defaults := dagFacts(ff)
	b.WriteString("def doneChanCap : String := " + leanStr(doneCap) + "\n")
	b.WriteString("def semaphoreCap : String := " + leanStr(semCap) + "\n")
	b.WriteString("def statusWrites : List String := " + leanStrList(sw) + "\n")
	b.WriteString("def errsWriters : List String := " + leanStrList(ea) + "\n")
	b.WriteString("/-- leading statements of every goroutine body of the package (function literals and the functions `go` statements call) -/\n")
	b.WriteString("def goroutineHeads : List String := " + leanStrList(gofirst) + "\n")
	b.WriteString("def maxParallelDefault : String := " + leanStr(defaults["maxParallel"]) + "\n")
	b.WriteString(fmt.Sprintf("/-- the task goroutine locks the Task's mutex and defers the unlock before its attempt loop -/\ndef taskLockBeforeAttempts : Bool := %v\n\n", dagTaskLock))
	// imports
	// imports per package (the signal handling in interrupt.go is outside the model)
	for _, p := range [][2]string{{"importsRoot", "."}, {"importsOption", "internal/option"}, {"importsHelp", "internal/help"}} {
		set := map[string]bool{}
		for rel, f := range ff.files {
			if pkgDirOf(rel) != p[1] || rel == "interrupt.go" {
				continue
			}
			for _, im := range importsOf(f) {
				set[im] = true
			}
		}
		var l []string
		for im := range set {
			l = append(l, im)
		}
		sort.Strings(l)
		b.WriteString("def " + p[0] + " : List String := " + leanStrList(l) + "\n")
	}
	b.WriteString("\nend Generated\n")
	if outPath == "" {
		fmt.Print(b.String())
		return 0
	}
	if err := ioutil.WriteFile(outPath, []byte(b.String()), 0o644); err != nil {
		fmt.Fprintln(os.Stderr, err)
		return 1
	}
	return 0
}

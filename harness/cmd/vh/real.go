package main

import (
	"bytes"
	"context"
	"errors"
	"fmt"
	"math"
	"os"
	"sort"
	"strconv"
	"strings"
	"time"

	"github.com/DavidGamba/go-getoptions"
	"github.com/DavidGamba/go-getoptions/text"
)

type holder struct {
	kind int
	node int
	name string
	pb   *bool
	pi   *int
	ps   *string
	pf   *float64
	pss  *[]string
	pis  *[]int
	pfs  *[]float64
	pm   *map[string]string
}

type fnCall struct {
	fn    int
	args  []string
	ctxOK bool
	view  map[string]string
}

type realProg struct {
	handles []*getoptions.GetOpt
	holders []*holder
	keys    map[string]bool
	calls   []fnCall
}

type ctxKey string

func valueFnFixed(id int) func(target, partial string) []string {
	return func(target, partial string) []string {
		return []string{"val" + strconv.Itoa(id), partial + "X", target + "T"}
	}
}

func argFnFixed(id int) getoptions.ArgCompletionsFn {
	return func(target string, prev []string, partial string) []string {
		return []string{partial + "arg" + strconv.Itoa(id), "n" + strconv.Itoa(len(prev)) + target}
	}
}

func floatBits(f float64) string {
	return strconv.FormatUint(math.Float64bits(f), 16)
}

// canonical value text as the driver prints it, except floats: "f#<bits>" (compared through ParseFloat of the model's text)
func (h *holder) value() string {
	switch h.kind {
	case -1:
		return "skip"
	case KBool:
		if *h.pb {
			return "b1"
		}
		return "b0"
	case KIncr, KInt, KIntOpt:
		return "i" + strconv.Itoa(*h.pi)
	case KStr, KStrOpt:
		return "s" + hx(*h.ps)
	case KFlt, KFltOpt:
		return "f#" + floatBits(*h.pf)
	case KStrs:
		return "ss" + hxList(*h.pss)
	case KInts:
		if len(*h.pis) == 0 {
			return "is-"
		}
		out := make([]string, len(*h.pis))
		for i, v := range *h.pis {
			out[i] = strconv.Itoa(v)
		}
		return "is" + strings.Join(out, ",")
	case KFlts:
		if len(*h.pfs) == 0 {
			return "fs-"
		}
		out := make([]string, len(*h.pfs))
		for i, v := range *h.pfs {
			out[i] = "#" + floatBits(v)
		}
		return "fs" + strings.Join(out, ",")
	case KMap:
		return mapText(*h.pm)
	}
	return "?"
}

func mapText(m map[string]string) string {
	if len(m) == 0 {
		return "m-"
	}
	keys := make([]string, 0, len(m))
	for k := range m {
		keys = append(keys, k)
	}
	sort.Strings(keys)
	out := make([]string, len(keys))
	for i, k := range keys {
		out[i] = hx(k) + "=" + hx(m[k])
	}
	return "m" + strings.Join(out, ",")
}

// value read through Value(key)
func ifaceText(v interface{}) string {
	switch x := v.(type) {
	case nil:
		return "nil"
	case bool:
		if x {
			return "b1"
		}
		return "b0"
	case int:
		return "i" + strconv.Itoa(x)
	case string:
		return "s" + hx(x)
	case float64:
		return "f#" + floatBits(x)
	case []string:
		return "ss" + hxList(x)
	case []int:
		if len(x) == 0 {
			return "is-"
		}
		out := make([]string, len(x))
		for i, v := range x {
			out[i] = strconv.Itoa(v)
		}
		return "is" + strings.Join(out, ",")
	case []float64:
		if len(x) == 0 {
			return "fs-"
		}
		out := make([]string, len(x))
		for i, v := range x {
			out[i] = "#" + floatBits(v)
		}
		return "fs" + strings.Join(out, ",")
	case map[string]string:
		return mapText(x)
	}
	return fmt.Sprintf("?%T", v)
}

// normalise the model's value text: floats carried as text are converted with the real ParseFloat
func normModelVal(s string) string {
	if strings.HasPrefix(s, "fs") {
		if s == "fs-" {
			return s
		}
		parts := strings.Split(s[2:], ",")
		for i, p := range parts {
			t, err := unhx(p)
			if err != nil {
				return s
			}
			f, err := strconv.ParseFloat(t, 64)
			if err != nil {
				return s + "!unparsable"
			}
			parts[i] = "#" + floatBits(f)
		}
		return "fs" + strings.Join(parts, ",")
	}
	if strings.HasPrefix(s, "fx") {
		t, err := unhx(s[1:])
		if err != nil {
			return s
		}
		f, err := strconv.ParseFloat(t, 64)
		if err != nil {
			return s + "!unparsable"
		}
		return "f#" + floatBits(f)
	}
	return s
}

func view(g *getoptions.GetOpt, keys []string, pfx string, out map[string]string) {
	for _, k := range keys {
		v := g.Value(k)
		if v == nil {
			out[pfx+hx(k)] = "nil"
			continue
		}
		c := "0"
		if g.Called(k) {
			c = "1"
		}
		out[pfx+hx(k)] = ifaceText(v) + "/" + c + "/" + hx(g.CalledAs(k))
	}
}

func (rp *realProg) sortedKeys() []string {
	keys := make([]string, 0, len(rp.keys))
	for k := range rp.keys {
		keys = append(keys, k)
	}
	sort.Strings(keys)
	return keys
}

func (rp *realProg) mods(g *getoptions.GetOpt, ms []Mod) []getoptions.ModifyFn {
	out := []getoptions.ModifyFn{}
	for _, m := range ms {
		switch m.M {
		case "alias":
			for _, a := range m.Strs {
				rp.keys[a] = true
			}
			out = append(out, g.Alias(m.Strs...))
		case "desc":
			out = append(out, g.Description(m.Strs[0]))
		case "called":
			out = append(out, g.SetCalled(m.B))
		case "req":
			out = append(out, g.Required())
		case "reqm":
			out = append(out, g.Required(m.Strs[0]))
		case "env":
			// The variable is read when the option is defined, not when the modifier is built: build the
			// modifier under the opposite environment and restore it before the definition runs.
			name := m.Strs[0]
			old, had := os.LookupEnv(name)
			if had {
				os.Unsetenv(name)
			} else {
				os.Setenv(name, "7")
			}
			fn := g.GetEnv(name)
			if had {
				os.Setenv(name, old)
			} else {
				os.Unsetenv(name)
			}
			out = append(out, fn)
		case "arg":
			out = append(out, g.ArgName(m.Strs[0]))
		case "valid":
			out = append(out, g.ValidValues(m.Strs...))
		case "sugg":
			out = append(out, g.SuggestedValues(m.Strs...))
		case "sfn":
			out = append(out, g.SuggestedValuesFn(valueFnFixed(m.N)))
		}
	}
	return out
}

// buildReal interprets the script on the real library. A panic of the definition layer is returned as text.
func buildReal(c *Case) (rp *realProg, defPanic string) {
	rp = &realProg{keys: map[string]bool{}}
	defer func() {
		if r := recover(); r != nil {
			defPanic = fmt.Sprint(r)
		}
	}()
	root := getoptions.New()
	root.Self(c.Root, "")
	rp.handles = []*getoptions.GetOpt{root}
	for _, op := range c.Script {
		if op.H >= len(rp.handles) {
			panic("bad handle")
		}
		g := rp.handles[op.H]
		switch op.Op {
		case "opt":
			h := &holder{kind: op.Kind, node: op.H, name: op.Name}
			rp.holders = append(rp.holders, h)
			rp.keys[op.Name] = true
			ms := rp.mods(g, op.Mods)
			switch op.Kind {
			case KBool:
				if op.Var {
					v := !op.DefB
					h.pb = &v
					g.BoolVar(h.pb, op.Name, op.DefB, ms...)
				} else {
					h.pb = g.Bool(op.Name, op.DefB, ms...)
				}
			case KIncr:
				if op.Var {
					v := 777
					h.pi = &v
					g.IncrementVar(h.pi, op.Name, op.DefI, ms...)
				} else {
					h.pi = g.Increment(op.Name, op.DefI, ms...)
				}
			case KStr:
				if op.Var {
					v := "seeded"
					h.ps = &v
					g.StringVar(h.ps, op.Name, op.DefS, ms...)
				} else {
					h.ps = g.String(op.Name, op.DefS, ms...)
				}
			case KInt:
				if op.Var {
					v := 777
					h.pi = &v
					g.IntVar(h.pi, op.Name, op.DefI, ms...)
				} else {
					h.pi = g.Int(op.Name, op.DefI, ms...)
				}
			case KFlt:
				if op.Var {
					v := 7.25
					h.pf = &v
					g.Float64Var(h.pf, op.Name, op.DefF, ms...)
				} else {
					h.pf = g.Float64(op.Name, op.DefF, ms...)
				}
			case KStrOpt:
				if op.Var {
					v := "seeded"
					h.ps = &v
					g.StringVarOptional(h.ps, op.Name, op.DefS, ms...)
				} else {
					h.ps = g.StringOptional(op.Name, op.DefS, ms...)
				}
			case KIntOpt:
				if op.Var {
					v := 777
					h.pi = &v
					g.IntVarOptional(h.pi, op.Name, op.DefI, ms...)
				} else {
					h.pi = g.IntOptional(op.Name, op.DefI, ms...)
				}
			case KFltOpt:
				if op.Var {
					v := 7.25
					h.pf = &v
					g.Float64VarOptional(h.pf, op.Name, op.DefF, ms...)
				} else {
					h.pf = g.Float64Optional(op.Name, op.DefF, ms...)
				}
			case KStrs:
				if op.Var {
					v := append([]string{}, op.InitSS...)
					h.pss = &v
					g.StringSliceVar(h.pss, op.Name, op.Min, op.Max, ms...)
				} else {
					h.pss = g.StringSlice(op.Name, op.Min, op.Max, ms...)
				}
			case KInts:
				if op.Var {
					v := append([]int{}, op.InitIS...)
					h.pis = &v
					g.IntSliceVar(h.pis, op.Name, op.Min, op.Max, ms...)
				} else {
					h.pis = g.IntSlice(op.Name, op.Min, op.Max, ms...)
				}
			case KFlts:
				if op.Var {
					v := []float64{}
					h.pfs = &v
					g.Float64SliceVar(h.pfs, op.Name, op.Min, op.Max, ms...)
				} else {
					h.pfs = g.Float64Slice(op.Name, op.Min, op.Max, ms...)
				}
			case KMap:
				if op.Var {
					var v map[string]string
					if len(op.InitM) > 0 {
						v = map[string]string{}
						for _, kv := range op.InitM {
							v[kv[0]] = kv[1]
						}
					}
					h.pm = &v
					g.StringMapVar(h.pm, op.Name, op.Min, op.Max, ms...)
				} else {
					m := g.StringMap(op.Name, op.Min, op.Max, ms...)
					h.pm = &m
				}
			}
		case "cmd":
			rp.handles = append(rp.handles, g.NewCommand(op.Name, op.Desc))
		case "fn":
			id := op.N
			g.SetCommandFn(func(ctx context.Context, o *getoptions.GetOpt, args []string) error {
				call := fnCall{fn: id, args: append([]string{}, args...), view: map[string]string{}}
				call.ctxOK = ctx.Value(ctxKey("verif")) == "ctx"
				view(o, rp.sortedKeys(), "v.", call.view)
				rp.calls = append(rp.calls, call)
				return nil
			})
		case "mode":
			g.SetMode(getoptions.Mode(op.N))
		case "umode":
			g.SetUnknownMode(getoptions.UnknownMode(op.N))
		case "ro":
			g.SetRequireOrder()
		case "unset":
			g.UnsetOptions()
		case "mapkeys":
			g.SetMapKeysToLower()
		case "argcomp":
			g.ArgCompletions(op.L...)
		case "argfn":
			fns := []getoptions.ArgCompletionsFn{argFnFixed(op.N)}
			for _, n := range op.InitIS {
				fns = append(fns, argFnFixed(n))
			}
			g.ArgCompletionsFns(fns...)
		case "probe":
			switch op.N {
			case 0:
				_ = g.Help()
			case 1:
				_ = g.Help(getoptions.HelpSynopsis)
			default:
				_ = g.Help(getoptions.HelpOptionList, getoptions.HelpCommandList)
			}
		case "synarg":
			g.HelpSynopsisArg(op.Name, op.Desc)
		case "self":
			g.Self(op.Name, op.Desc)
		case "help":
			rp.keys[op.Name] = true
			rp.holders = append(rp.holders, &holder{kind: -1, node: op.H, name: op.Name}) // the help option's variable is not reachable
			g.HelpCommand(op.Name, rp.mods(g, op.Mods)...)
		}
	}
	return rp, ""
}

// RealOut is what the real library did on a case.
type RealOut struct {
	DefPanic     string
	Panic        string
	Timeout      bool
	HasErr       bool
	ErrText      string
	ErrIsParsing bool
	Rem          []string
	RemNil       bool
	Writer       string            // Writer content after Parse
	P            map[string]string // p<oid>, n<h>.<key>
	// dispatch
	DErrText   string
	DHasErr    bool
	DHelp      bool // errors.Is(err, ErrorHelpCalled)
	DIsParsing bool
	DWriter    string
	Calls      []fnCall
	// Help()
	HelpText string
	// oracles on the implementation alone
	ArgsMutated string // the caller's argument slice was modified by Parse
	ReparseDiff string // an option changed when an empty command line was parsed afterwards
	TwiceDiff   string // a second Parse + Dispatch of the same arguments on the same object went elsewhere
	// completion
	ExitCodes []int
	Stdout    string
	SetValRes []string // ok | notfound | err:<text> per SetValue call
	ReqArgRes []string // per GetRequiredArg* call, see reqArgResult
}

// canonical result of one GetRequiredArg* call
func reqArgResult(kind int, v string, i int, f float64, rest []string, err error, written string) string {
	switch {
	case err == nil && kind == 0:
		return "ok v=" + hx(v) + " rest=" + hxList(rest)
	case err == nil && kind == 1:
		return "ok i=" + strconv.Itoa(i) + " rest=" + hxList(rest)
	case err == nil:
		return "ok f=" + floatBits(f) + " rest=" + hxList(rest)
	case errors.Is(err, getoptions.ErrorHelpCalled):
		return "missing w=" + hx(written) + " rest=" + hxList(rest)
	}
	return "err:" + hx(err.Error()) + " w=" + hx(written) + " rest=" + hxList(rest)
}

func setEnv(c *Case) func() {
	olds := map[string]*string{}
	set := func(k, v string) {
		if _, ok := olds[k]; !ok {
			if o, ok := os.LookupEnv(k); ok {
				olds[k] = &o
			} else {
				olds[k] = nil
			}
		}
		os.Setenv(k, v)
	}
	for _, e := range c.Env {
		set(e.K, e.V)
	}
	return func() {
		for k, o := range olds {
			if o == nil {
				os.Unsetenv(k)
			} else {
				os.Setenv(k, *o)
			}
		}
	}
}

// failWriter - an io.Writer that fails: always, or after accepting a single byte of the first Write
type failWriter struct {
	mode int
	n    int
}

func (w *failWriter) Write(p []byte) (int, error) {
	w.n++
	if w.mode == 2 && w.n == 1 && len(p) > 0 {
		return 1, nil // a short write without an error
	}
	return 0, errors.New("write failed")
}

func runRealInner(c *Case, out *RealOut) {
	os.Unsetenv("COMP_LINE")
	os.Unsetenv("ZSHELL")
	restore := setEnv(c)
	defer restore()
	rp, dp := buildReal(c)
	if dp != "" {
		out.DefPanic = dp
		return
	}
	defer func() {
		if r := recover(); r != nil {
			out.Panic = fmt.Sprint(r)
		}
	}()
	var w bytes.Buffer
	getoptions.Writer = &w
	root := rp.handles[0]
	if c.Comp {
		var so bytes.Buffer
		oldW := getoptions.VerifSetCompletionWriter(&so)
		oldE := getoptions.VerifSetExitFn(func(code int) { out.ExitCodes = append(out.ExitCodes, code) })
		defer getoptions.VerifSetCompletionWriter(oldW)
		defer getoptions.VerifSetExitFn(oldE)
		os.Setenv("COMP_LINE", c.CompLine)
		if c.Zsh {
			os.Setenv("ZSHELL", "true")
		}
		defer os.Unsetenv("COMP_LINE")
		defer os.Unsetenv("ZSHELL")
		rem, err := root.Parse(c.Args)
		out.Rem, out.RemNil = rem, rem == nil
		if err != nil {
			out.HasErr, out.ErrText = true, err.Error()
		}
		out.Stdout = so.String()
		out.Writer = w.String()
		out.Calls = rp.calls
		return
	}
	if c.PreEmpty {
		// a first pass over an empty command line on the same object (two-phase parsing); when that pass
		// fails (a required option of the program) the case continues on a fresh object instead
		var w0 bytes.Buffer
		getoptions.Writer = &w0
		if _, e := root.Parse([]string{}); e != nil || w0.Len() > 0 {
			rp, _ = buildReal(c)
			root = rp.handles[0]
		}
		getoptions.Writer = &w
	}
	if c.BadWriter != 0 {
		getoptions.Writer = &failWriter{mode: c.BadWriter}
	}
	argsCopy := append([]string(nil), c.Args...)
	rem, err := root.Parse(c.Args)
	for i := range argsCopy {
		if i >= len(c.Args) || c.Args[i] != argsCopy[i] {
			out.ArgsMutated = fmt.Sprintf("%q -> %q", argsCopy, c.Args)
			copy(c.Args, argsCopy)
			break
		}
	}
	out.Rem, out.RemNil = rem, rem == nil
	out.Writer = w.String()
	if err != nil {
		out.HasErr, out.ErrText = true, err.Error()
		out.ErrIsParsing = errors.Is(err, getoptions.ErrorParsing)
	}
	if err == nil {
		for _, sv := range c.SetVals {
			res := "none"
			if sv.H < len(rp.handles) {
				switch e := rp.handles[sv.H].SetValue(sv.Name, sv.Vals...); {
				case e == nil:
					res = "ok"
				case errors.Is(e, getoptions.ErrorNotFound):
					res = "notfound"
				default:
					res = "err:" + e.Error()
				}
			}
			out.SetValRes = append(out.SetValRes, res)
		}
	}
	if err == nil && len(c.ReqArgs) > 0 {
		cur := rem
		for _, ra := range c.ReqArgs {
			res := "none"
			if ra.H < len(rp.handles) {
				var wb bytes.Buffer
				getoptions.Writer = &wb
				var secs []getoptions.HelpSection // nil when none are given, as in a call without sections
				for _, sec := range ra.Secs {
					secs = append(secs, getoptions.HelpSection(sec))
				}
				g := rp.handles[ra.H]
				var (
					v    string
					iv   int
					fv   float64
					rest []string
					e    error
				)
				switch ra.Kind {
				case 0:
					v, rest, e = g.GetRequiredArg(cur, secs...)
				case 1:
					iv, rest, e = g.GetRequiredArgInt(cur, secs...)
				default:
					fv, rest, e = g.GetRequiredArgFloat64(cur, secs...)
				}
				getoptions.Writer = &w
				res = reqArgResult(ra.Kind, v, iv, fv, rest, e, wb.String())
				cur = rest
			}
			out.ReqArgRes = append(out.ReqArgRes, res)
		}
	}
	out.P = map[string]string{}
	for i, h := range rp.holders {
		out.P["p"+strconv.Itoa(i)] = h.value()
	}
	keys := rp.sortedKeys()
	for h, g := range rp.handles {
		view(g, keys, "n"+strconv.Itoa(h)+".", out.P)
	}
	if c.Dispatch && err == nil {
		w.Reset()
		ctx := context.WithValue(context.Background(), ctxKey("verif"), "ctx")
		switch c.DeadCtx {
		case 1:
			cctx, cancel := context.WithCancel(ctx)
			cancel()
			ctx = cctx
		case 2:
			dctx, cancel := context.WithDeadline(ctx, time.Unix(1, 0))
			defer cancel()
			ctx = dctx
		}
		derr := root.Dispatch(ctx, rem)
		out.DWriter = w.String()
		if derr != nil {
			out.DHasErr, out.DErrText = true, derr.Error()
			out.DHelp = errors.Is(derr, getoptions.ErrorHelpCalled)
			out.DIsParsing = errors.Is(derr, getoptions.ErrorParsing)
		}
		out.Calls = rp.calls
		if c.Twice {
			// the same arguments parsed and dispatched again on the same object reach the same function
			// with the same kind of result (decided on the implementation alone)
			first := append([]fnCall(nil), rp.calls...)
			var w2 bytes.Buffer
			getoptions.Writer = &w2
			rem2, err2 := root.Parse(c.Args)
			var derr2 error
			if err2 == nil {
				derr2 = root.Dispatch(ctx, rem2)
			}
			getoptions.Writer = &w
			second := rp.calls[len(first):]
			rp.calls = rp.calls[:len(first)]
			ids := func(l []fnCall) string {
				s := ""
				for _, x := range l {
					s += fmt.Sprintf("fn%d ", x.fn)
				}
				return s
			}
			kind := func(e error) string {
				switch {
				case e == nil:
					return "nil"
				case errors.Is(e, getoptions.ErrorHelpCalled):
					return "help"
				case errors.Is(e, getoptions.ErrorParsing):
					return "parsing"
				}
				return "error"
			}
			switch {
			case err2 != nil:
				out.TwiceDiff = fmt.Sprintf("second Parse of the same arguments failed: %v", err2)
			case ids(first) != ids(second):
				out.TwiceDiff = fmt.Sprintf("first Dispatch called [%s], the second [%s]", ids(first), ids(second))
			case kind(derr) != kind(derr2):
				out.TwiceDiff = fmt.Sprintf("first Dispatch returned %v, the second %v", derr, derr2)
			}
		}
	}
	if c.Reparse && err == nil {
		// Parsing an empty command line on the already parsed object changes no option: value, Called and
		// CalledAs are what they were (decided on the implementation alone)
		var w2 bytes.Buffer
		getoptions.Writer = &w2
		root.Parse([]string{})
		getoptions.Writer = &w
		after := map[string]string{}
		for i, h := range rp.holders {
			after["p"+strconv.Itoa(i)] = h.value()
		}
		for h, g := range rp.handles {
			view(g, keys, "n"+strconv.Itoa(h)+".", after)
		}
		for k, v := range out.P {
			if after[k] != v {
				out.ReparseDiff = fmt.Sprintf("%s: %q before, %q after Parse([])", k, v, after[k])
				break
			}
		}
	}
	if c.Help {
		secs := make([]getoptions.HelpSection, len(c.HelpSecs))
		for i, sec := range c.HelpSecs {
			secs[i] = getoptions.HelpSection(sec)
		}
		out.HelpText = root.Help(secs...)
	}
}

// runReal runs the case on the real library under recover and a time limit.
func runReal(c *Case) *RealOut {
	out := &RealOut{}
	done := make(chan struct{})
	go func() {
		defer close(done)
		runRealInner(c, out)
	}()
	select {
	case <-done:
		return out
	case <-time.After(20 * time.Second):
		return &RealOut{Timeout: true}
	}
}

// ---- rendering of the model's error classes with the library's current templates ----

func renderModelErr(e string) string {
	parts := strings.Split(e, ":")
	arg := func(i int) string {
		if i >= len(parts) {
			return "?"
		}
		s, err := unhx(parts[i])
		if err != nil {
			return "?"
		}
		return s
	}
	switch parts[0] {
	case "wrongValue":
		l, _ := unhxList(parts[2])
		return fmt.Sprintf("wrong value for option '%s', valid values are %q", arg(1), l)
	case "convInt":
		return fmt.Sprintf(text.ErrorConvertToInt, arg(1), arg(2))
	case "convFloat":
		return fmt.Sprintf(text.ErrorConvertToFloat64, arg(1), arg(2))
	case "notKeyValue":
		return fmt.Sprintf(text.ErrorArgumentIsNotKeyValue, arg(1))
	case "ambiguous":
		l, _ := unhxList(parts[2])
		return fmt.Sprintf(text.ErrorAmbiguousArgument, arg(1), l)
	case "missingArg":
		return fmt.Sprintf(text.ErrorMissingArgument, arg(1))
	case "dashArg":
		return fmt.Sprintf(text.ErrorArgumentWithDash, arg(1))
	case "required":
		return fmt.Sprintf(text.ErrorMissingRequiredOption, arg(1))
	case "requiredMsg":
		return arg(1)
	case "unknown":
		return fmt.Sprintf(text.MessageOnUnknown, arg(1))
	}
	return "?unknown-class " + e
}

func modelErrText(c *Case, e string) string {
	return renderModelErr(e)
}

func isParsingClass(e string) bool {
	return strings.HasPrefix(e, "missingArg:") || strings.HasPrefix(e, "dashArg:") ||
		strings.HasPrefix(e, "required:") || strings.HasPrefix(e, "requiredMsg:")
}

package main

import (
	"bufio"
	"fmt"
	"io"
	"os"
	"os/exec"
	"sort"
	"strconv"
	"strings"
	"text/template"
	"time"

	"github.com/DavidGamba/go-getoptions/text"
)

var _ = template.New

// Driver wraps the compiled Lean model speaking the line protocol.
type Driver struct {
	cmd   *exec.Cmd
	in    io.WriteCloser
	out   *bufio.Reader
	trace *os.File
	dead  bool
}

// driverAnswerLimit bounds the time the model may take for one request; a model that does not answer
// is killed and the request is reported as a driver error (never silently skipped).
const driverAnswerLimit = 120 * time.Second

func startDriver(path string) (*Driver, error) {
	cmd := exec.Command(path)
	in, err := cmd.StdinPipe()
	if err != nil {
		return nil, err
	}
	outp, err := cmd.StdoutPipe()
	if err != nil {
		return nil, err
	}
	if err := cmd.Start(); err != nil {
		return nil, err
	}
	d := &Driver{cmd: cmd, in: in, out: bufio.NewReaderSize(outp, 1<<20)}
	if tp := os.Getenv("VH_TRACE"); tp != "" {
		d.trace, _ = os.Create(tp)
	}
	// section headers of the current text package
	hdr := "hdr"
	for _, h := range []string{text.HelpNameHeader, text.HelpSynopsisHeader, text.HelpCommandsHeader, text.HelpRequiredOptionsHeader, text.HelpArgumentsHeader, text.HelpOptionsHeader} {
		hdr += " " + hx(h)
	}
	fmt.Fprintln(in, hdr)
	return d, nil
}

func (d *Driver) ask(lines []string, answers int) ([]string, error) {
	if d.dead {
		return nil, fmt.Errorf("driver: killed after an unanswered request")
	}
	for _, l := range lines {
		if d.trace != nil {
			fmt.Fprintln(d.trace, l)
		}
		if _, err := io.WriteString(d.in, l+"\n"); err != nil {
			return nil, err
		}
	}
	timer := time.AfterFunc(driverAnswerLimit, func() {
		d.dead = true
		d.cmd.Process.Kill()
	})
	defer timer.Stop()
	out := make([]string, 0, answers)
	for i := 0; i < answers; i++ {
		l, err := d.out.ReadString('\n')
		if err != nil {
			return out, fmt.Errorf("driver: %v", err)
		}
		out = append(out, strings.TrimRight(l, "\n"))
	}
	return out, nil
}

func (d *Driver) close() {
	d.in.Close()
	d.cmd.Wait()
}

// Mismatch is one disagreement between the model and the real library on one case.
type Mismatch struct {
	Cat   string `json:"cat"`
	Field string `json:"field"`
	Model string `json:"model"`
	Real  string `json:"real"`
}

func warnText(names []string) string {
	s := ""
	for _, n := range names {
		s += fmt.Sprintf(text.WarningOnUnknown+"\n", n)
	}
	return s
}

// compare the model's answers with what the real library did
func compare(c *Case, ans []string, r *RealOut) []Mismatch {
	var ms []Mismatch
	add := func(cat, field, m, re string) { ms = append(ms, Mismatch{cat, field, m, re}) }
	if r.Timeout {
		add("timeout", "timeout", "", "no result within the time limit")
		return ms
	}
	if r.Panic != "" {
		add("panic", "panic", "", r.Panic)
		return ms
	}
	if len(ans) == 0 {
		add("driver", "answer", "", "no answer")
		return ms
	}
	kind, f := parseAnswer(ans[0])
	if f["st"] == "deferr" {
		if r.DefPanic == "" {
			add("def", "deferr", f["err"], "definition accepted")
		}
		return ms
	}
	if r.DefPanic != "" {
		add("def", "deferr", "definition accepted", r.DefPanic)
		return ms
	}
	if c.Comp {
		if kind != "C" {
			add("driver", "answer", ans[0], "")
			return ms
		}
		if len(r.ExitCodes) != 1 || r.ExitCodes[0] != 124 {
			add("compexit", "exit", "[124]", fmt.Sprint(r.ExitCodes))
		}
		if len(r.Calls) != 0 {
			add("compexit", "calls", "0", fmt.Sprint(len(r.Calls)))
		}
		if f["c"] == "cands" {
			l, _ := unhxList(f["list"])
			want := strings.Join(l, "\n") + "\n"
			if r.Stdout != want {
				add("comp", "list", want, r.Stdout)
			}
			if r.Writer != "" {
				add("comp", "writer", "", r.Writer)
			}
		} else {
			want := fmt.Sprintf("\nERROR: %s\n", modelErrText(c, f["err"]))
			if r.Writer != want {
				add("comperr", "writer", want, r.Writer)
			}
			if r.Stdout != "" {
				add("comperr", "stdout", "", r.Stdout)
			}
		}
		return ms
	}
	if kind != "P" {
		add("driver", "answer", ans[0], "")
		return ms
	}
	// parse outcome
	if f["st"] == "err" {
		if !r.HasErr {
			add("status", "st", "err "+modelErrText(c, f["err"]), "ok")
		} else {
			want := modelErrText(c, f["err"])
			if want != r.ErrText {
				add("err", "text", want, r.ErrText)
			}
			if isParsingClass(f["err"]) != r.ErrIsParsing {
				add("errclass", "ErrorParsing", fmt.Sprint(isParsingClass(f["err"])), fmt.Sprint(r.ErrIsParsing))
			}
		}
		if !r.RemNil && r.HasErr {
			add("rem", "nil-on-error", "nil", fmt.Sprintf("%q", r.Rem))
		}
	} else {
		if r.HasErr {
			add("status", "st", "ok", "err "+r.ErrText)
		} else {
			l, _ := unhxList(f["rem"])
			if strings.Join(hxs(l), ",") != strings.Join(hxs(r.Rem), ",") {
				add("rem", "rem", fmt.Sprintf("%q", l), fmt.Sprintf("%q", r.Rem))
			}
		}
	}
	if (!(f["st"] == "err") || r.HasErr) && c.BadWriter == 0 {
		wl, _ := unhxList(f["warn"])
		if wt := warnText(wl); wt != r.Writer {
			add("warn", "writer", wt, r.Writer)
		}
	}
	// SetValue calls after the parse: result class (and message) of each, and from then on the values the
	// model holds after the last of them
	idx := 1
	partialMap := false
	for i := range c.SetVals {
		if idx >= len(ans) {
			add("driver", "answer", "", "missing S")
			return ms
		}
		_, sf := parseAnswer(ans[idx])
		idx++
		if _, none := sf["none"]; none || f["st"] != "ok" || r.HasErr {
			continue
		}
		want := sf["st"]
		if want == "err" {
			want = "err:" + modelErrText(c, sf["err"])
		}
		got := "(not called)"
		if i < len(r.SetValRes) {
			got = r.SetValRes[i]
		}
		if want != got {
			add("setvalue", fmt.Sprintf("call%d", i), want, got)
		}
		if sf["st"] == "err" && isMapOption(c, c.SetVals[i].Name) {
			// a map is written entry by entry: a failing SetValue leaves the entries before the malformed one
			// behind, which the model (like for a failing Save during Parse) does not track
			partialMap = true
		}
		// the S answer carries the option values after the call
		for k := range f {
			if (k[0] == 'p' && len(k) > 1 && k[1] >= '0' && k[1] <= '9') || (k[0] == 'n' && strings.Contains(k, ".")) {
				delete(f, k)
			}
		}
		for k, v := range sf {
			if (k[0] == 'p' && len(k) > 1 && k[1] >= '0' && k[1] <= '9') || (k[0] == 'n' && strings.Contains(k, ".")) {
				f[k] = v
			}
		}
	}
	// GetRequiredArg* calls after the parse: value or failure, what is written, the list handed back
	for i, ra := range c.ReqArgs {
		if idx >= len(ans) {
			add("driver", "answer", "", "missing R")
			return ms
		}
		_, rf := parseAnswer(ans[idx])
		idx++
		if _, none := rf["none"]; none || f["st"] != "ok" || r.HasErr {
			continue
		}
		want := "?"
		switch rf["st"] {
		case "ok":
			v, _ := unhx(rf["v"])
			switch ra.Kind {
			case 0:
				want = "ok v=" + hx(v)
			case 1:
				n, _ := strconv.Atoi(v)
				want = "ok i=" + strconv.Itoa(n)
			default:
				x, _ := strconv.ParseFloat(v, 64)
				want = "ok f=" + floatBits(x)
			}
		case "missing":
			head := text.ErrorMissingRequiredArgument + "\n"
			if rf["named"] != "none" {
				name, _ := unhx(rf["named"])
				head = fmt.Sprintf(text.ErrorMissingRequiredNamedArgument+"\n", name)
			}
			help, _ := unhx(rf["help"])
			want = "missing w=" + hx(head+help)
		case "convint":
			a, _ := unhx(rf["a"])
			want = "err:" + hx(fmt.Sprintf(text.ErrorConvertArgumentToInt, a)) + " w=" + hx("")
		case "convfloat":
			a, _ := unhx(rf["a"])
			want = "err:" + hx(fmt.Sprintf(text.ErrorConvertArgumentToFloat64, a)) + " w=" + hx("")
		}
		want += " rest=" + rf["rest"]
		got := "(not called)"
		if i < len(r.ReqArgRes) {
			got = r.ReqArgRes[i]
		}
		if want != got {
			add("reqarg", fmt.Sprintf("call%d", i), want, got)
		}
	}
	// values and views are compared on success, and on failures that happen before any option is touched
	// by a partially applied Save (the model does not track partial effects of a failing Save)
	if f["st"] == "ok" && !r.HasErr && !partialMap {
		keys := make([]string, 0, len(f))
		for k := range f {
			keys = append(keys, k)
		}
		sort.Strings(keys)
		for _, k := range keys {
			if k[0] == 'p' && k[1] >= '0' && k[1] <= '9' {
				mv := normModelVal(f[k])
				if rv, ok := r.P[k]; (!ok || rv != mv) && rv != "skip" {
					add("val", k, mv, rv)
				}
			} else if k[0] == 'n' && strings.Contains(k, ".") {
				mv := f[k]
				if mv != "nil" {
					p := strings.SplitN(mv, "/", 3)
					mv = normModelVal(p[0]) + "/" + p[1] + "/" + p[2]
				}
				if rv, ok := r.P[k]; !ok || rv != mv {
					add("view", k, mv, rv)
				}
			}
		}
		for k, rv := range r.P {
			if _, ok := f[k]; !ok {
				add("view", k, "(absent)", rv)
			}
		}
	}
	if c.Dispatch {
		if idx >= len(ans) {
			add("driver", "answer", "", "missing D")
			return ms
		}
		_, df := parseAnswer(ans[idx])
		idx++
		if _, none := df["none"]; !none && f["st"] == "ok" && !r.HasErr {
			addD := add
			if partialMap {
				// the views handed to the command function carry the partially written map as well
				addD = func(cat, field, m, re string) {
					if cat != "dview" {
						add(cat, field, m, re)
					}
				}
			}
			compareDispatch(c, df, r, addD)
		}
	}
	if c.Help {
		if idx >= len(ans) {
			add("driver", "answer", "", "missing H")
			return ms
		}
		_, hf := parseAnswer(ans[idx])
		t, _ := unhx(hf["text"])
		if t != r.HelpText {
			add("help", "Help()", t, r.HelpText)
		}
	}
	return ms
}

func hxs(l []string) []string {
	out := make([]string, len(l))
	for i, s := range l {
		out[i] = hx(s)
	}
	return out
}

func compareDispatch(c *Case, df map[string]string, r *RealOut, add func(cat, field, m, re string)) {
	d := df["d"]
	// classify what the real library did
	real := ""
	switch {
	case len(r.Calls) > 0:
		real = "ran"
	case r.DHelp:
		real = "help"
	case r.DHasErr && r.DIsParsing:
		real = "req"
	case r.DHasErr && strings.HasPrefix(r.DErrText, "no help topic for "):
		real = "notopic"
	case r.DHasErr && strings.HasSuffix(r.DErrText, " has no defined CommandFn"):
		real = "nofn"
	case !r.DHasErr:
		real = "roothelp"
	default:
		real = "err:" + r.DErrText
	}
	if real != d {
		add("dkind", "d", d, real)
		return
	}
	switch d {
	case "ran":
		if len(r.Calls) != 1 {
			add("dfn", "calls", "1", fmt.Sprint(len(r.Calls)))
			return
		}
		call := r.Calls[0]
		if df["fn"] != fmt.Sprint(call.fn) {
			add("dfn", "fn", df["fn"], fmt.Sprint(call.fn))
		}
		l, _ := unhxList(df["args"])
		if strings.Join(hxs(l), ",") != strings.Join(hxs(call.args), ",") {
			add("dargs", "args", fmt.Sprintf("%q", l), fmt.Sprintf("%q", call.args))
		}
		if !call.ctxOK {
			add("dargs", "ctx", "caller's context", "different context")
		}
		if r.DHasErr {
			add("dfn", "err", "nil (fn returned nil)", r.DErrText)
		}
		for k, mv := range df {
			if strings.HasPrefix(k, "v.") {
				if mv != "nil" {
					p := strings.SplitN(mv, "/", 3)
					mv = normModelVal(p[0]) + "/" + p[1] + "/" + p[2]
				}
				if rv := call.view[k]; rv != mv {
					add("dview", k, mv, rv)
				}
			}
		}
		if r.DWriter != "" {
			add("dtext", "writer", "", r.DWriter)
		}
	case "help", "roothelp":
		t, _ := unhx(df["text"])
		if t != r.DWriter && c.BadWriter == 0 {
			add("dtext", "help", t, r.DWriter)
		}
	case "req":
		want := modelErrText(c, df["err"])
		if want != r.DErrText {
			add("derr", "text", want, r.DErrText)
		}
	case "nofn":
		n, _ := unhx(df["name"])
		if want := fmt.Sprintf("command '%s' has no defined CommandFn", n); want != r.DErrText {
			add("derr", "text", want, r.DErrText)
		}
	case "notopic":
		a, _ := unhx(df["arg"])
		if want := fmt.Sprintf("no help topic for '%s'", a); want != r.DErrText {
			add("derr", "text", want, r.DErrText)
		}
	}
}

// is `name` the name or an alias of a map option of the definition script
func isMapOption(c *Case, name string) bool {
	for _, op := range c.Script {
		if op.Op != "opt" || op.Kind != KMap {
			continue
		}
		if op.Name == name {
			return true
		}
		for _, m := range op.Mods {
			if m.M == "alias" {
				for _, a := range m.Strs {
					if a == name {
						return true
					}
				}
			}
		}
	}
	return false
}

package main

import (
	"math/rand"
	"sort"
	"strconv"
	"strings"
)

// Focus tunes the generator towards the mechanism of one property.
type Focus struct {
	Prop       string
	Commands   float64 // probability that the program has commands
	HelpCmd    float64
	Env        float64 // probability that an option is bound to an env var
	Required   float64
	Unknown    float64 // weight of unknown option tokens
	DashDash   float64
	Bytes      float64 // raw byte tokens
	Completion float64
	Dispatch   bool
	Help       bool
	ForceMode  int // -1 random
	ForceRO    int // -1 random, 0 off, 1 on
	MaxArgs    int
	DefErrors  float64
	Suggest    float64
	MultiBias  float64 // preference for multi-value kinds
	ScalarBias float64
	NonCanon   float64
}

func defaultFocus(prop string) Focus {
	f := Focus{Prop: prop, Commands: 0.5, HelpCmd: 0.4, Env: 0.15, Required: 0.05, Unknown: 1, DashDash: 0.6,
		Bytes: 0.3, Dispatch: true, Help: false, ForceMode: -1, ForceRO: -1, MaxArgs: 7, DefErrors: 0.004, Suggest: 0.1,
		NonCanon: 0.08}
	switch prop {
	case "C01":
		f.ScalarBias, f.Commands, f.Bytes = 0.7, 0.3, 0.6
	case "C02":
		f.MultiBias, f.Commands, f.DashDash = 0.7, 0.3, 1.2
	case "C03":
		f.Unknown, f.DashDash = 2.5, 1
	case "C04":
		f.DashDash, f.MultiBias = 3, 0.4
	case "C05", "C06":
		f.Commands = 0.4
	case "C07":
		f.Commands = 0.3
	case "C08":
		f.Unknown, f.Commands = 3, 0.6
	case "C09":
		f.ForceRO, f.Unknown, f.Commands = 1, 2, 0.5
	case "C10":
		f.Commands, f.HelpCmd, f.NonCanon = 0.95, 0.3, 0.15
	case "C11":
		f.Required, f.HelpCmd, f.Commands, f.Env = 0.45, 0.7, 0.7, 0.25
	case "C12":
		f.Env, f.ScalarBias, f.Commands = 0.8, 0.7, 0.2
	case "C17":
		f.Completion, f.Suggest, f.Commands, f.HelpCmd = 1, 0.45, 0.7, 0.5
	case "C18":
		f.Help, f.Commands, f.HelpCmd, f.Required, f.Env = true, 0.7, 0.7, 0.3, 0.3
	case "C19":
		f.Bytes, f.DefErrors, f.Completion, f.Suggest = 2.5, 0.01, 0.3, 0.3
	case "C20":
		f.Required, f.Unknown, f.Help, f.Commands, f.Completion, f.Suggest = 0.4, 2, true, 0.6, 0.25, 0.3
	}
	return f
}

type gen struct {
	r *rand.Rand
	f Focus
	// name the next option definition has to use (families of related names)
	forceName string
	roOnCmds  bool // this program sets require-order on commands only
}

func (g *gen) p(x float64) bool       { return g.r.Float64() < x }
func (g *gen) pick(l []string) string { return l[g.r.Intn(len(l))] }

var namePool = []string{"v", "ver", "verbose", "version", "V", "f", "file", "force", "o", "out", "output", "é", "日本",
	"x", "y", "z", "n", "num", "name", "l", "list", "m", "map", "i", "int", "inc", "fl", "float", "deb", "debug", "dbg",
	"q", "quiet", "a", "ab", "abc", "t", "tag", "p", "profile", "é1", "ñ", "ü", "日本語設定", "h", "?",
	"🚀", "🔥hot", "label-😀", "color", "no-color", "no-v",
	"he", "hel", "host", "header", "4", "6", "0", "pro", "prof"}

var cmdPool = []string{"cmd", "run", "list", "show", "exec", "wrap", "sub", "get", "set", "c", "v", "file", "log", "db", "helper",
	"añadir", "删除", "é", "🚀go", "logs", "rm", "rmdir"}

// names long enough for one synopsis entry to exceed a whole help line
var longPool = []string{"kubernetes-control-plane-version-to-upgrade-to", "a-really-quite-long-option-name-for-the-synopsis-line",
	"control-plane-version-of-the-target-cluster", "yet-another-name-that-goes-on-for-a-while-längere", "k8s-version-string-accepted-by-the-upgrade"}

var wordPool = []string{"foo", "bar", "baz", "", "a b", "a=b", "k=v=w", "1", "2", "-1", "+5", "010", "1..3", "3..1", "0x10", "1_0",
	"1.5", "1e3", "1e309", "NaN", "inf", "0x1p-2", " 5", "5 ", "true", "false", "-", "x\ny", "é", "日本語", "hello", "=", "=x", "k=",
	"9223372036854775807", "-9223372036854775808", "9223372036854775808", "9223372036854775806..9223372036854775807", "a,b", "0.1", "%s", "100%", ":8080", ":", "::1", "/x", "=:y", ":=z", "../src", "a..b",
	"Key=Val", "ENV=Prod", "A=b", "UPPER", "MiXed=Case=x"}

var envNames = []string{"VH_A", "VH_B", "VH_C", "VH_D"}

type optInfo struct {
	oid   int
	h     int
	kind  int
	name  string
	keys  []string
	min   int
	max   int
	valid []string
}

type nodeInfo struct {
	h       int
	name    string
	parent  int
	opts    []*optInfo // own + inherited (approximation used only to aim the argv generator)
	cmds    []int
	wrapper bool
	ro      bool
}

type progInfo struct {
	nodes []*nodeInfo
	mode  int
	help  string
	noid  int
	big   bool // a large instance: many options, deeper trees, long argument vectors and bundles
	deep  bool // a chain of commands five levels deep, argument vectors that walk down it
}

func (g *gen) kind() int {
	if g.p(g.f.ScalarBias) {
		return []int{KStr, KInt, KFlt, KStrOpt, KIntOpt, KFltOpt, KBool, KIncr}[g.r.Intn(8)]
	}
	if g.p(g.f.MultiBias) {
		return []int{KStrs, KInts, KFlts, KMap}[g.r.Intn(4)]
	}
	return g.r.Intn(12)
}

func (g *gen) genOpt(pi *progInfo, n *nodeInfo, used map[string]bool, env *[]EnvKV) (DefOp, *optInfo) {
	name := g.pick(namePool)
	for tries := 0; used[name] && tries < 20; tries++ {
		name = g.pick(namePool)
	}
	long := g.p(0.02)
	if long {
		name = g.pick(longPool)
	}
	if g.forceName != "" {
		name, g.forceName = g.forceName, ""
	}
	if g.p(g.f.DefErrors) {
		if g.p(0.5) {
			name = ""
		}
	} else if used[name] {
		name = name + strconv.Itoa(g.r.Intn(1000))
	}
	if g.p(0.01) && !used["-"] {
		name = "-"
	}
	used[name] = true
	k := g.kind()
	op := DefOp{Op: "opt", H: n.h, Kind: k, Name: name, Var: g.p(0.5)}
	oi := &optInfo{oid: pi.noid, h: n.h, kind: k, name: name, keys: []string{name}}
	pi.noid++
	switch k {
	case KBool:
		op.DefB = g.p(0.3)
	case KIncr, KInt, KIntOpt:
		op.DefI = []int{0, 0, 1, 5, -3, 42, 9223372036854775807, -9223372036854775808}[g.r.Intn(8)]
		if k != KIncr && op.DefI > 1000 {
			op.DefI = 7
		}
	case KStr, KStrOpt:
		op.DefS = []string{"", "", "def", "d e", "x\ny", "é", "%H:%M", "100%", "%s %d %v"}[g.r.Intn(9)]
	case KFlt, KFltOpt:
		op.DefF = []float64{0, 0, 1.5, -2.25, 1e10, 0.1, 0.1234567, 1e-7, 2.5e-9, 1e21}[g.r.Intn(10)] // some are not what %f prints
	case KStrs, KInts, KFlts, KMap:
		op.Min = 1 + g.r.Intn(2)
		op.Max = op.Min + g.r.Intn(3)
		if g.p(g.f.DefErrors) {
			op.Min, op.Max = g.r.Intn(3)-1, g.r.Intn(3)-1
		}
		oi.min, oi.max = op.Min, op.Max
		if op.Var && g.p(0.3) {
			// the variable handed to the *Var form already holds entries (a config file was read first)
			switch k {
			case KStrs:
				op.InitSS = [][]string{{"pre"}, {"p1", "p2"}, {"", "é"}}[g.r.Intn(3)]
			case KInts:
				op.InitIS = [][]int{{7}, {1, 2}, {-3, 0, 42}}[g.r.Intn(3)]
			case KMap:
				op.InitM = [][][2]string{{{"os", "linux"}}, {{"a", "1"}, {"b", "2"}, {"c", "3"}}, {{"K", "V"}, {"k", "v"}},
					{{"Key", "1"}, {"KEY", "2"}, {"kEy", "3"}}}[g.r.Intn(4)]
			}
		}
	}
	switch k {
	case KStr, KInt, KFlt:
		oi.min, oi.max = 1, 1
	case KStrOpt, KIntOpt, KFltOpt:
		oi.min, oi.max = 0, 1
	}
	// modifiers, in random order
	var mods []Mod
	if g.p(0.45) || long {
		na := 1 + g.r.Intn(2)
		var al []string
		for i := 0; i < na; i++ {
			a := g.pick(namePool)
			if long {
				a = g.pick(longPool)
			}
			if used[a] && !g.p(g.f.DefErrors) {
				continue
			}
			used[a] = true
			al = append(al, a)
		}
		if len(al) > 1 && g.p(0.5) {
			// two separate Alias modifiers on one option: they accumulate
			mods = append(mods, Mod{M: "alias", Strs: al[:1]}, Mod{M: "alias", Strs: al[1:]})
			oi.keys = append(oi.keys, al...)
		} else if len(al) > 0 {
			mods = append(mods, Mod{M: "alias", Strs: al})
			oi.keys = append(oi.keys, al...)
		}
	}
	if g.p(0.4) {
		mods = append(mods, Mod{M: "desc", Strs: []string{[]string{"describes it", "line one\nline two", "é desc", "a very long description that goes on and on to test the wrapping of things in the help output", "100% sure %s %d", "date as %Y-%m-%d"}[g.r.Intn(6)]}})
	}
	if g.p(g.f.Required) {
		if g.p(0.4) {
			mods = append(mods, Mod{M: "reqm", Strs: []string{[]string{"need it", "100% required %s", "must\nhave"}[g.r.Intn(3)]}})
		} else {
			mods = append(mods, Mod{M: "req"})
		}
	}
	if g.p(0.1) && (k == KStr || k == KStrOpt || k == KStrs || k == KInt) {
		oi.valid = [][]string{{"a", "b"}, {"1", "2", "3"}, {"x=", "y"}, {"é"}, {"val", "staging", "va"}, {"a", "s", "al", "a"}}[g.r.Intn(6)]
		mods = append(mods, Mod{M: "valid", Strs: oi.valid})
	}
	if g.p(g.f.Env) {
		en := g.pick(envNames)
		mods = append(mods, Mod{M: "env", Strs: []string{en}})
		have := false
		for _, e := range *env {
			if e.K == en {
				have = true
			}
		}
		if !have && g.p(0.8) {
			vals := []string{"true", "false", "TRUE", "False", "tRuE", "yes", "1", "", "12", "-7", "1.5", "abc", "falſe", "12x", "0x10", "1e400", " true", "é",
				" ", "\t", " x ", "010", "0755", "1_000", "0b101", "+7", "-0", "false\n",
				// a value that contains the separator of the environment block
				"a=b", "k=v=w", "=", "12=3", "True=1", "x=", "=true", "1.5=2"}
			val := g.pick(vals)
			if g.p(0.08) {
				// the text the help shows for the default (quoted for strings, six decimals for floats): it is not the
				// default value itself
				switch op.Kind {
				case KStr, KStrOpt:
					val = "\"" + op.DefS + "\""
				case KFlt, KFltOpt:
					val = strconv.FormatFloat(op.DefF, 'f', 6, 64)
				case KInt, KIntOpt:
					val = strconv.Itoa(op.DefI)
				}
			}
			*env = append(*env, EnvKV{K: en, V: val})
		}
	}
	if g.p(0.08) {
		mods = append(mods, Mod{M: "arg", Strs: []string{[]string{"thing", "", "path", "é"}[g.r.Intn(4)]}})
	}
	if g.p(g.f.Suggest) {
		mods = append(mods, Mod{M: "sugg", Strs: [][]string{{"s1", "s2"}, {"alpha", "alp", "beta"}, {"k=", "k=v"}, {"x"}, {"os=", "arch="}, {"k="},
			// declared order is not sorted order, a non-match between two matches, a value given twice
			{"alpha", "beta", "alp"}, {"s2", "x", "s1", "s2"}, {"val0", "k=v", "val1", "a"}}[g.r.Intn(9)]})
	}
	if g.p(g.f.Suggest / 2) {
		mods = append(mods, Mod{M: "sfn", N: g.r.Intn(3)})
	}
	if g.p(0.02) {
		mods = append(mods, Mod{M: "called", B: g.p(0.7)})
	}
	g.r.Shuffle(len(mods), func(i, j int) { mods[i], mods[j] = mods[j], mods[i] })
	op.Mods = mods
	return op, oi
}

// genProgram draws a program definition script.
func (g *gen) genProgram(c *Case) *progInfo {
	pi := &progInfo{}
	root := &nodeInfo{h: 0, name: "prog", parent: -1}
	pi.nodes = []*nodeInfo{root}
	c.Root = "prog"
	var script []DefOp
	mode := g.f.ForceMode
	if mode < 0 {
		mode = []int{0, 0, 1, 2}[g.r.Intn(4)]
	}
	pi.mode = mode
	// SetMode is called first, or (a legal order too) after everything else was declared
	modeLate := g.p(0.25)
	if (mode != 0 || g.p(0.2)) && !modeLate {
		script = append(script, DefOp{Op: "mode", H: 0, N: mode})
	}
	um := []int{0, 0, 1, 2}[g.r.Intn(4)]
	if um != 0 || g.p(0.2) {
		script = append(script, DefOp{Op: "umode", H: 0, N: um})
	}
	ro := g.f.ForceRO
	if ro == 1 && g.p(0.25) {
		// require-order only on (some) commands: the levels above them parse without it
		ro = 0
		g.roOnCmds = true
	} else {
		g.roOnCmds = false
	}
	if ro < 0 {
		ro = 0
		if g.p(0.15) {
			ro = 1
		}
	}
	if ro == 1 {
		script = append(script, DefOp{Op: "ro", H: 0})
		root.ro = true
	}
	if g.p(0.04) || ((g.f.Prop == "C01" || g.f.Prop == "C02") && g.p(0.08)) {
		script = append(script, DefOp{Op: "mapkeys", H: 0})
	}
	if g.p(0.3) {
		script = append(script, DefOp{Op: "self", H: 0, Name: []string{"prog", "tool", "my prog"}[g.r.Intn(3)], Desc: []string{"", "does things", "multi\nline", "100%!"}[g.r.Intn(4)]})
		c.Root = "prog" // Self overrides below anyway
	}
	used := map[int]map[string]bool{0: {}}
	pi.big = g.p(0.06)
	pi.deep = g.p(0.04)
	nopts := 1 + g.r.Intn(5)
	if pi.big {
		nopts = 6 + g.r.Intn(8)
	}
	family := 0
	if pi.big && g.p(0.3) {
		// nine or more names sharing a prefix (`--with` is then ambiguous between all of them)
		family = 9 + g.r.Intn(4)
		nopts += family
	}
	var late []DefOp
	prevName := ""
	for i := 0; i < nopts; i++ {
		if i < family {
			g.forceName = "with-" + string(rune('a'+i))
		} else if prevName != "" && !strings.HasPrefix(prevName, "no-") && g.p(0.06) {
			g.forceName = "no-" + prevName // the negated twin of the previous option
		}
		op, oi := g.genOpt(pi, root, used[0], &c.Env)
		prevName = op.Name
		if g.p(g.f.NonCanon) {
			late = append(late, op)
		} else {
			script = append(script, op)
		}
		root.opts = append(root.opts, oi)
	}
	if g.p(0.5) {
		script = append(script, DefOp{Op: "fn", H: 0, N: 0})
	}
	if g.p(0.15) {
		script = append(script, DefOp{Op: "argcomp", H: 0, L: [][]string{{"sugg1", "sugg2"}, {"list", "lisp"}, {"x"},
			// match, non-match, match in declared order; a suggestion that is also a command name or comes twice
			{"sugg2", "list", "sugg1"}, {"list", "cmd", "lisp", "run"}, {"show", "help", "show"}, {"larg0", "list", "larg1"}}[g.r.Intn(7)]})
	}
	if g.p(0.08) {
		script = append(script, DefOp{Op: "argfn", H: 0, N: g.r.Intn(3), InitIS: g.moreFns()})
		if g.p(0.4) {
			// a second ArgCompletionsFns call on the same command: the functions accumulate
			script = append(script, DefOp{Op: "argfn", H: 0, N: g.r.Intn(3)})
		}
	}
	if g.p(0.15) {
		script = append(script, DefOp{Op: "synarg", H: 0, Name: []string{"<file>", "", "<é>", "<" + strings.Repeat("very-long-argument-", 4) + ">", strings.Repeat("x", 70+g.r.Intn(12))}[g.r.Intn(5)], Desc: []string{"", "the file", "a\nb"}[g.r.Intn(3)]})
		if g.p(0.4) {
			script = append(script, DefOp{Op: "synarg", H: 0, Name: "<other>", Desc: "other arg"})
		}
	}
	helpName := ""
	if g.p(g.f.HelpCmd) {
		helpName = "help"
		if g.p(0.1) {
			helpName = "ayuda"
		}
	}
	helpEarly := helpName != "" && g.p(g.f.NonCanon)
	addHelp := func() {
		var mods []Mod
		if g.p(0.5) {
			mods = append(mods, Mod{M: "alias", Strs: []string{[]string{"?", "h"}[g.r.Intn(2)]}})
		}
		if g.p(0.3) {
			mods = append(mods, Mod{M: "desc", Strs: []string{"show help"}})
		}
		script = append(script, DefOp{Op: "help", H: 0, Name: helpName, Mods: mods})
		pi.help = helpName
	}
	if helpEarly {
		addHelp()
	}
	if g.p(g.f.Commands) {
		var addCmds func(parent *nodeInfo, depth int)
		addCmds = func(parent *nodeInfo, depth int) {
			nc := 1 + g.r.Intn(3)
			if pi.big {
				nc = 2 + g.r.Intn(4)
			}
			usedC := map[string]bool{}
			for i := 0; i < nc; i++ {
				name := g.pick(cmdPool)
				if usedC[name] && !g.p(g.f.DefErrors) {
					continue
				}
				if g.p(g.f.DefErrors / 2) {
					name = ""
				}
				usedC[name] = true
				h := len(pi.nodes)
				n := &nodeInfo{h: h, name: name, parent: parent.h, ro: parent.ro}
				pi.nodes = append(pi.nodes, n)
				parent.cmds = append(parent.cmds, h)
				script = append(script, DefOp{Op: "cmd", H: parent.h, Name: name, Desc: []string{"", "a command", "multi\nline desc", "é cmd", "50% off %v"}[g.r.Intn(5)]})
				used[h] = map[string]bool{}
				wrapper := g.p(0.12)
				if wrapper {
					script = append(script, DefOp{Op: "unset", H: h})
					n.wrapper = true
					if g.p(0.8) {
						script = append(script, DefOp{Op: "umode", H: h, N: 2})
					}
				} else {
					forget := g.p(0.25) // let the child's own keys collide with keys handed down later or earlier
					pk := make([]string, 0, len(used[parent.h]))
					for k := range used[parent.h] {
						pk = append(pk, k)
					}
					sort.Strings(pk) // every random choice comes from the one PRNG, in a fixed order
					for _, k := range pk {
						if forget && g.p(0.5) {
							continue
						}
						used[h][k] = true
					}
					n.opts = append(n.opts, parent.opts...)
					if g.p(0.1) {
						script = append(script, DefOp{Op: "umode", H: h, N: g.r.Intn(3)})
					}
				}
				if g.p(0.1) || (g.roOnCmds && g.p(0.5)) {
					script = append(script, DefOp{Op: "ro", H: h})
					n.ro = true
				}
				no := g.r.Intn(3)
				for j := 0; j < no; j++ {
					op, oi := g.genOpt(pi, n, used[h], &c.Env)
					script = append(script, op)
					n.opts = append(n.opts, oi)
				}
				if g.p(0.8) {
					script = append(script, DefOp{Op: "fn", H: h, N: h})
				}
				if g.p(0.04) {
					// Self on a command: only its description, or another name for its own help text (the parent
					// keeps addressing it by the name it was created with)
					script = append(script, DefOp{Op: "self", H: h, Name: []string{"", "", name, "renamed", "help"}[g.r.Intn(5)], Desc: []string{"", "described later", "50%!"}[g.r.Intn(3)]})
				}
				if g.p(0.1) {
					script = append(script, DefOp{Op: "argcomp", H: h, L: [][]string{{"carg1", "carg2"}, {"carg2", "list", "carg1"}, {"sub", "carg1", "sub", "show"}}[g.r.Intn(3)]})
				}
				if g.p(0.05) {
					script = append(script, DefOp{Op: "argfn", H: h, N: g.r.Intn(3), InitIS: g.moreFns()})
					if g.p(0.4) {
						script = append(script, DefOp{Op: "argfn", H: h, N: g.r.Intn(3)})
					}
				}
				if (depth < 2 || (pi.big && depth < 3)) && g.p(0.3) || (pi.deep && depth < 4 && i == nc-1) {
					addCmds(n, depth+1)
					if g.p(0.35) {
						// an option declared on a command after its sub-commands exist (it reaches them
						// only through a later tree-wide copy: another NewCommand / HelpCommand)
						op, oi := g.genOpt(pi, n, used[h], &c.Env)
						script = append(script, op)
						n.opts = append(n.opts, oi)
						for _, ch := range n.cmds {
							if g.p(0.5) {
								pi.nodes[ch].opts = append(pi.nodes[ch].opts, oi)
							}
						}
					}
				}
			}
		}
		addCmds(root, 0)
	}
	script = append(script, late...)
	if helpName != "" && !helpEarly {
		addHelp()
	}
	if len(pi.nodes) > 1 && g.p(0.25) {
		// a sub-command created under an existing command after everything else was defined: it copies
		// that command's table as it is now (including keys overwritten by later definitions above it)
		par := pi.nodes[1+g.r.Intn(len(pi.nodes)-1)]
		if par.name != "" && !par.wrapper {
			h := len(pi.nodes)
			n := &nodeInfo{h: h, name: "latesub", parent: par.h, ro: par.ro}
			n.opts = append(n.opts, par.opts...)
			pi.nodes = append(pi.nodes, n)
			par.cmds = append(par.cmds, h)
			script = append(script, DefOp{Op: "cmd", H: par.h, Name: "latesub"})
			script = append(script, DefOp{Op: "fn", H: h, N: h})
		}
	}
	if (len(late) > 0 && g.p(0.5) || g.p(0.15)) && len(pi.nodes) > 1 {
		// a later NewCommand re-copies options
		h := len(pi.nodes)
		pi.nodes = append(pi.nodes, &nodeInfo{h: h, name: "latecmd", parent: 0})
		root.cmds = append(root.cmds, h)
		script = append(script, DefOp{Op: "cmd", H: 0, Name: "latecmd"})
		script = append(script, DefOp{Op: "fn", H: h, N: h})
	}
	if (mode != 0 || g.p(0.2)) && modeLate {
		script = append(script, DefOp{Op: "mode", H: 0, N: mode})
	}
	if g.p(0.12) {
		// the program looks at its own help while it is still being declared (a pure read: what is declared
		// afterwards must show up as if nobody had looked)
		var withProbes []DefOp
		known := 1
		for _, op := range script {
			withProbes = append(withProbes, op)
			if op.Op == "cmd" {
				known++
			}
			if g.p(0.15) {
				withProbes = append(withProbes, DefOp{Op: "probe", H: g.r.Intn(known), N: g.r.Intn(3)})
			}
		}
		script = withProbes
	}
	c.Script = script
	return pi
}

func (g *gen) valueFor(oi *optInfo, valid bool) string {
	if len(oi.valid) > 0 && g.p(0.8) {
		return g.pick(oi.valid)
	}
	switch oi.kind {
	case KInt, KIntOpt, KInts:
		if valid || g.p(0.6) {
			return []string{"1", "2", "42", "-7", "+5", "010", "0", "9223372036854775807", "-9223372036854775808"}[g.r.Intn(9)]
		}
		if oi.kind == KInts && g.p(0.4) {
			return []string{"1..3", "3..1", "-2..2", "1..1", "5..", "..5", "9223372036854775806..9223372036854775807", "1..3..5", "0..9999"}[g.r.Intn(9)]
		}
	case KFlt, KFltOpt, KFlts:
		if valid || g.p(0.6) {
			return []string{"1.5", "2", "-0.25", "1e3", "0.1", "NaN", "inf", "-Inf", "0x1p-2", "1_0", ".5", "5.", "-0", "-00", "-0.0", "+1"}[g.r.Intn(16)]
		}
	case KMap:
		if valid || g.p(0.7) {
			return []string{"k=v", "a=b", "k=v=w", "K=V", "é=ü", "k=", "=v", "a=b c"}[g.r.Intn(8)]
		}
	}
	return g.pick(wordPool)
}

// utf8Edges: lead and continuation bytes around every validity boundary of UTF-8
var utf8Edges = []byte{0x7f, 0x80, 0xbf, 0xc0, 0xc1, 0xc2, 0xdf, 0xe0, 0xa0, 0x9f, 0xe1, 0xec, 0xed, 0xee, 0xef, 0xf0, 0x90, 0x8f, 0xf1, 0xf3, 0xf4, 0xf5, 0xff, '-', '=', 'a'}

func (g *gen) randBytes() string {
	n := g.r.Intn(6)
	bs := make([]byte, n)
	alphabet := []byte{'-', '-', '=', 'a', 'v', 0xc3, 0xa9, 0xff, '\n', ' ', 0xe6, 0x97, 0xa5, '1', '.', 0, '\t', ':', '/', '='}
	if g.r.Intn(4) == 0 {
		alphabet = utf8Edges
	}
	for i := range bs {
		bs[i] = alphabet[g.r.Intn(len(alphabet))]
	}
	return string(bs)
}

func prefixOf(g *gen, s string) string {
	if len(s) <= 1 {
		return s
	}
	// cut on a rune boundary most of the time
	rs := []rune(s)
	if len(rs) > 1 && g.p(0.9) {
		return string(rs[:1+g.r.Intn(len(rs)-1)])
	}
	return s[:1+g.r.Intn(len(s)-1)]
}

// genArgs draws an argument vector aimed at the program.
func (g *gen) genArgs(pi *progInfo) []string {
	args, _ := g.genArgsAt(pi)
	return args
}

// genArgsAt also returns the command the generator believes the words lead to.
func (g *gen) genArgsAt(pi *progInfo) ([]string, *nodeInfo) {
	var args []string
	cur := pi.nodes[0]
	n := g.r.Intn(g.f.MaxArgs + 1)
	if pi.big {
		n = g.r.Intn(24)
	}
	wDesc := 3.8
	if pi.deep {
		// walk down the chain: a command name about every other word
		n = 4 + g.r.Intn(10)
		wDesc = 4.6
	}
	if pi.deep && g.p(0.5) {
		// walk the whole chain: a few words / options / unknown options at each level, then the name of
		// the sub-command that leads deepest
		for {
			for k := g.r.Intn(3); k > 0; k-- {
				switch g.r.Intn(4) {
				case 0:
					args = append(args, g.pick(wordPool))
				case 1:
					args = append(args, []string{"--zzz", "-Q", "--zzz=1", "-Qx"}[g.r.Intn(4)])
				case 2:
					args = append(args, []string{"f.txt", "x", "1"}[g.r.Intn(3)])
				default:
					if len(cur.opts) > 0 {
						oi := cur.opts[g.r.Intn(len(cur.opts))]
						args = append(args, "--"+oi.keys[g.r.Intn(len(oi.keys))])
						if oi.min > 0 {
							args = append(args, g.valueFor(oi, true))
						}
					}
				}
			}
			if len(cur.cmds) == 0 {
				break
			}
			next := pi.nodes[cur.cmds[g.r.Intn(len(cur.cmds))]]
			for _, ch := range cur.cmds {
				if len(pi.nodes[ch].cmds) > 0 {
					next = pi.nodes[ch]
				}
			}
			if next.name == "" {
				break
			}
			args = append(args, next.name)
			cur = next
		}
		n = len(args) + g.r.Intn(3)
	}
	runAt := -1
	if pi.big && g.p(0.3) {
		runAt = g.r.Intn(n + 1) // a long run of plain words (a file list) starts here
	}
	allCmdNames := []string{}
	for _, nd := range pi.nodes[1:] {
		allCmdNames = append(allCmdNames, nd.name)
	}
	for len(args) < n {
		if len(args) >= runAt && runAt >= 0 {
			runAt = -1
			for k := 16 + g.r.Intn(6); k > 0; k-- {
				args = append(args, []string{"f.txt", "src/a.go", "1", "é", "x=y", "zz"}[g.r.Intn(6)])
			}
			n = len(args) + 1 + g.r.Intn(4)
		}
		w := g.r.Float64() * (6 + g.f.Unknown + g.f.DashDash + g.f.Bytes)
		if len(args) > 0 && g.p(0.06) {
			// the same token again (`-v -v`, a repeated unknown option, a doubled value)
			args = append(args, args[len(args)-1])
			continue
		}
		switch {
		case w < 3.2 && len(cur.opts) > 0: // known option
			oi := cur.opts[g.r.Intn(len(cur.opts))]
			key := oi.keys[g.r.Intn(len(oi.keys))]
			if g.p(0.2) {
				key = prefixOf(g, key)
			}
			attached := g.p(0.35)
			tok := ""
			switch pi.mode {
			case 0:
				tok = []string{"--", "-"}[g.r.Intn(2)] + key
			case 1:
				if len([]rune(key)) == 1 && g.p(0.7) {
					// bundle several one-letter keys
					tok = "-" + key
					extra := g.r.Intn(3)
					if pi.big {
						extra = g.r.Intn(8)
					}
					for i := 0; i < extra; i++ {
						o2 := cur.opts[g.r.Intn(len(cur.opts))]
						k2 := o2.keys[g.r.Intn(len(o2.keys))]
						if len([]rune(k2)) == 1 {
							if g.p(0.5) {
								tok = "-" + k2 + tok[1:]
							} else {
								tok += k2
								oi = o2
							}
						} else if g.p(0.1) {
							tok += "Q"
						}
					}
				} else {
					tok = "--" + key
				}
			case 2:
				if len([]rune(key)) == 1 && g.p(0.7) {
					tok = "-" + key
					if attached {
						tok += g.valueFor(oi, g.p(0.7))
						attached = false
					}
				} else {
					tok = "--" + key
				}
			}
			if attached {
				v := g.valueFor(oi, g.p(0.7))
				if g.p(0.12) {
					// separator-like bytes right after the `=`
					v = []string{":", "=", "-", "--", "/", " ", "\n", ":="}[g.r.Intn(8)] + v
				}
				tok += "=" + v
			}
			args = append(args, tok)
			// following values
			want := oi.max
			if attached && want > 0 {
				want--
			}
			if want > 0 {
				k := g.r.Intn(want + 2)
				if oi.min > 0 && !attached && g.p(0.8) && k == 0 {
					k = 1
				}
				for i := 0; i < k; i++ {
					args = append(args, g.valueFor(oi, g.p(0.75)))
				}
			}
		case w < wDesc && len(cur.cmds) > 0: // descend
			nd := pi.nodes[cur.cmds[g.r.Intn(len(cur.cmds))]]
			before := len(args)
			args = append(args, nd.name)
			cur = nd
			if before > 0 && g.p(0.3) {
				// an option token given before the command name is given again behind it, spelled the same
				// way (the same abbreviation or alias is then resolved against another level's table)
				var cand []int
				for i := 0; i < before; i++ {
					if strings.HasPrefix(args[i], "-") && args[i] != "--" && args[i] != "-" {
						cand = append(cand, i)
					}
				}
				if len(cand) > 0 {
					i := cand[g.r.Intn(len(cand))]
					args = append(args, args[i])
					if i+1 < before && !strings.HasPrefix(args[i+1], "-") && g.p(0.7) {
						args = append(args, args[i+1])
					}
				}
			}
		case w < 4.0 && pi.help != "":
			hk := g.r.Intn(6)
			args = append(args, []string{"--" + pi.help, pi.help, "-" + pi.help, "--" + prefixOf(g, pi.help), "-?", "-h"}[hk])
			if hk == 1 && len(cur.cmds) > 0 && g.p(0.6) {
				// help <topic>
				args = append(args, pi.nodes[cur.cmds[g.r.Intn(len(cur.cmds))]].name)
			}
		case w < 5.2:
			args = append(args, g.pick(wordPool))
		case w < 5.6 && len(allCmdNames) > 0:
			args = append(args, g.pick(allCmdNames))
		case w < 6:
			args = append(args, g.pick(cmdPool))
		case w < 6+g.f.Unknown:
			u := []string{"--zzz", "-Q", "--zzz=1", "-Qx", "--un known", "-W=3", "---", "--=x", "-=x", "--zzz=", "-QW"}[g.r.Intn(11)]
			args = append(args, u)
		case w < 6+g.f.Unknown+g.f.DashDash:
			args = append(args, []string{"--", "--", "-"}[g.r.Intn(3)])
		default:
			args = append(args, g.randBytes())
		}
	}
	if args == nil {
		args = []string{}
	}
	for i, a := range args {
		if hugeRange(a) {
			// an int range of astronomic size is materialised element by element by the library (and
			// by the model): neither side terminates in practice, so such inputs are not generated
			args[i] = "1..3"
		}
	}
	return args, cur
}

// hugeRange reports whether some suffix of the token reads as an ascending int range `a..b` with more
// than a million elements.
func hugeRange(tok string) bool {
	for i := 0; i < len(tok); i++ {
		s := tok[i:]
		if !strings.Contains(s, "..") {
			return false
		}
		n := strings.SplitN(s, "..", 2)
		a, err1 := strconv.Atoi(n[0])
		b, err2 := strconv.Atoi(n[1])
		if err1 == nil && err2 == nil && a < b && (float64(b)-float64(a)) > 1e6 {
			return true
		}
	}
	return false
}

func (g *gen) genCompLine(pi *progInfo) string {
	words, cur := g.genArgsAt(pi)
	for i, w := range words {
		// COMP_LINE words cannot contain whitespace
		words[i] = strings.Map(func(r rune) rune {
			if r == ' ' || r == '\n' || r == '\t' || r == '\f' || r == '\r' || r == 0 {
				return '_'
			}
			return r
		}, w)
		if words[i] == "" {
			words[i] = "e"
		}
	}
	// partial last word
	last := ""
	if g.p(0.3) {
		cur = pi.nodes[0]
	}
	switch g.r.Intn(8) {
	case 0:
		last = ""
	case 1:
		last = "-"
	case 2:
		last = "--"
	case 3, 4:
		if len(cur.opts) > 0 {
			oi := cur.opts[g.r.Intn(len(cur.opts))]
			last = "--" + prefixOf(g, oi.keys[g.r.Intn(len(oi.keys))])
			if g.p(0.4) {
				last = "--" + oi.keys[g.r.Intn(len(oi.keys))] + "=" + []string{"", "s", "a", "k", "val", "o", "os", "x", "al"}[g.r.Intn(9)]
			}
		}
	case 5:
		last = prefixOf(g, g.pick(cmdPool))
	case 6:
		last = g.pick([]string{"h", "he", "help", "s", "sugg", "c", "l", "carg", "li", "lar", "sh", "su"})
	case 7:
		last = "-" + g.pick(namePool)
	}
	sep := " "
	if g.p(0.1) {
		sep = "  "
	}
	if g.p(0.05) {
		sep = "\t"
	}
	line := "./prog"
	for _, w := range words {
		line += sep + w
	}
	if g.p(0.06) && len(words) > 0 {
		// a space that is not one of the separators of the line (the words are cut at [\t\n\f\r ] only): a
		// command name glued to the next word by U+3000, U+00A0, U+2003, U+0085 or a vertical tab stays one word
		usp := []string{"\u3000", "\u00a0", "\u2003", "\u0085", "\v"}[g.r.Intn(5)]
		if g.p(0.5) && len(cur.cmds) > 0 {
			line += " " + g.pick(cmdPool) + usp + last
			last = ""
		} else {
			line += usp + last
			last = ""
		}
		return line + last
	}
	line += " " + last
	if g.p(0.15) {
		line += " "
	}
	if g.p(0.04) {
		// a backslash at the very end of the line, or in front of a blank in the middle of it
		if g.p(0.6) {
			line = strings.TrimRight(line, " ") + "\\"
		} else if i := strings.Index(line[2:], " "); i >= 0 {
			line = line[:2+i] + "\\" + line[2+i:]
		}
	}
	return line
}

func (g *gen) genCase(id int) *Case {
	c := &Case{ID: id}
	pi := g.genProgram(c)
	if g.p(g.f.Completion) {
		c.Comp = true
		c.Zsh = g.p(0.4)
		c.CompLine = g.genCompLine(pi)
		// args as bash passes them: command, current word, previous word
		ws := strings.Fields(c.CompLine)
		cur, prev := "", ""
		if len(ws) > 0 && !strings.HasSuffix(c.CompLine, " ") {
			cur = ws[len(ws)-1]
			if len(ws) > 1 {
				prev = ws[len(ws)-2]
			}
		} else if len(ws) > 0 {
			prev = ws[len(ws)-1]
		}
		c.Args = []string{"./prog", cur, prev}
		if g.p(0.1) {
			c.Args = []string{}
		} else if g.p(0.12) {
			// arguments that do not match the line: a current word although the line ends in white space,
			// more or fewer than three arguments
			alt := []string{"x", "-", "--", prev, "e"}
			c.Args = []string{"./prog", alt[g.r.Intn(len(alt))], prev}
			if g.p(0.3) {
				c.Args = append(c.Args, "extra")
			}
			if g.p(0.15) {
				c.Args = c.Args[:2]
			}
		}
		return c
	}
	c.Args = g.genArgs(pi)
	c.Dispatch = g.f.Dispatch
	c.Help = g.f.Help
	c.PreEmpty = g.p(0.1)
	c.Twice = c.Dispatch && g.p(0.15)
	c.Reparse = !c.Help && !c.Dispatch && g.p(0.5) || (g.f.Prop == "C06" || g.f.Prop == "C12") && g.p(0.3)
	if c.Reparse {
		c.Dispatch, c.Help = false, false
	}
	if g.p(0.04) || ((g.f.Prop == "C03" || g.f.Prop == "C08" || g.f.Prop == "C09" || g.f.Prop == "C20") && g.p(0.05)) {
		c.BadWriter = 1 + g.r.Intn(2)
	}
	if c.Dispatch && g.p(0.06) {
		c.DeadCtx = 1 + g.r.Intn(2)
	}
	pSet := 0.03
	if g.f.Prop == "C06" || g.f.Prop == "C01" || g.f.Prop == "C02" || g.f.Prop == "C12" {
		pSet = 0.08
	}
	if g.p(pSet) {
		// SetValue on some object after the parse: an option of that level by name or alias, now and then an
		// undeclared or empty name, no value at all, a value of the wrong type
		for k := 1 + g.r.Intn(2); k > 0; k-- {
			nd := pi.nodes[g.r.Intn(len(pi.nodes))]
			sv := SetVal{H: nd.h, Name: []string{"nosuch", "", "h"}[g.r.Intn(3)], Vals: []string{"v"}}
			if len(nd.opts) > 0 && g.p(0.85) {
				oi := nd.opts[g.r.Intn(len(nd.opts))]
				sv.Name = oi.keys[g.r.Intn(len(oi.keys))]
				sv.Vals = nil
				for n := []int{0, 1, 1, 1, 2, 3}[g.r.Intn(6)]; n > 0; n-- {
					sv.Vals = append(sv.Vals, g.valueFor(oi, g.p(0.8)))
				}
			}
			huge := false
			for _, v := range sv.Vals {
				huge = huge || hugeRange(v)
			}
			if !huge {
				c.SetVals = append(c.SetVals, sv)
			}
		}
	}
	pReq := 0.03
	if g.f.Prop == "C20" || g.f.Prop == "C19" || g.f.Prop == "C18" {
		pReq = 0.1
	}
	if c.BadWriter == 0 && g.p(pReq) {
		// GetRequiredArg / GetRequiredArgInt / GetRequiredArgFloat64 on some object after the parse, the first on
		// what Parse returned, each later one on what the previous call handed back
		nd := pi.nodes[g.r.Intn(len(pi.nodes))]
		for k := 1 + g.r.Intn(4); k > 0; k-- {
			ra := ReqArg{H: nd.h, Kind: []int{0, 0, 1, 2}[g.r.Intn(4)]}
			if g.p(0.35) {
				for j := 1 + g.r.Intn(2); j > 0; j-- {
					ra.Secs = append(ra.Secs, g.helpSec())
				}
			}
			c.ReqArgs = append(c.ReqArgs, ra)
			if g.p(0.15) {
				nd = pi.nodes[g.r.Intn(len(pi.nodes))]
			}
		}
	}
	if c.Help && g.p(0.3) {
		// Help(sections...) with an explicit choice and order of sections
		for k := 1 + g.r.Intn(3); k > 0; k-- {
			c.HelpSecs = append(c.HelpSecs, g.helpSec())
		}
	}
	return c
}

func newGen(seed int64, prop string) *gen {
	return &gen{r: rand.New(rand.NewSource(seed)), f: defaultFocus(prop)}
}

// further completion functions for one ArgCompletionsFns call (distinct ids, so a call that registers the same
// function for every argument is told apart)
func (g *gen) moreFns() []int {
	if !g.p(0.5) {
		return nil
	}
	out := []int{3 + g.r.Intn(2)}
	if g.p(0.4) {
		out = append(out, 5+g.r.Intn(2))
	}
	return out
}

// a help section for Help(...) / GetRequiredArg(..., sections...): HelpName … HelpCommandInfo, now and then HelpNone
func (g *gen) helpSec() int {
	if g.p(0.08) {
		return 0
	}
	return 2 + g.r.Intn(5)
}

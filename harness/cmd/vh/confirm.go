package main

import (
	"fmt"
	"strings"
)

// confirmFailure decides, on the real library alone, whether the property itself is violated on the
// input of a correspondence failure. It returns
//
//	"yes: …"  the property fails on this input (the input is a replay of the violation),
//	"no: …"   the implementation differs from the model here but the property holds on this input
//	          (the correspondence is broken; the check then reports no-failing-input-found),
//	""        no independent decision procedure for this property: the projection compared by the
//	          correspondence check is exactly what the property determines, so the disagreement is the
//	          violation.
func confirmFailure(prop string, c *Case, r *RealOut, ms []Mismatch) string {
	switch prop {
	case "C18":
		// C18 is about what the help text lists (options, aliases, sections, defaults, env, commands) and
		// that all three ways of asking produce the same text - not about column widths or blank lines.
		for _, m := range ms {
			switch m.Cat {
			case "help", "dtext":
				if strings.Join(strings.Fields(m.Model), " ") != strings.Join(strings.Fields(m.Real), " ") {
					return "yes: the help text differs in content (" + m.Field + ")"
				}
			default:
				return "yes: " + m.Cat
			}
		}
		return "no: the help texts differ in layout only (same words in the same order)"
	case "C20":
		for _, m := range ms {
			if m.Cat == "panic" || m.Cat == "timeout" {
				return "yes: " + m.Cat
			}
		}
		if r == nil || r.Timeout {
			return ""
		}
		first := fmt.Sprintf("%+v", *r)
		for i := 0; i < 8; i++ {
			r2 := runReal(c) // the definition is rebuilt: fresh maps, fresh iteration orders
			if s := fmt.Sprintf("%+v", *r2); s != first {
				return fmt.Sprintf("yes: run %d of the same definition on the same input differs from the first run", i+2)
			}
		}
		return "no: 9 runs of the same definition on the same input are identical; the implementation is deterministic here but differs from the model"
	}
	return ""
}

package main

import "fmt"

func runDag(prop string, seed int64, n int, driver, out string, maxFail int, file string) int {
	fmt.Println("not implemented")
	return 2
}

func runFactgen(repo, out string) int {
	fmt.Println("not implemented")
	return 2
}

package main

import "fmt"

func runDag(prop string, seed int64, n int, driver, out string, maxFail int, file string) int {
	fmt.Println("not implemented")
	return 2
}


package main

package main

import (
	"encoding/json"
	"flag"
	"fmt"
	"io/ioutil"
	"math/rand"
	"os"
	"path/filepath"
	"regexp"
	"sort"
	"strconv"
	"strings"
	"time"

	"github.com/DavidGamba/go-getoptions"
)

// categories of disagreement that count for each property (its projection)
var projection = map[string][]string{
	"C01": {"status", "err", "val", "view", "panic", "timeout"},
	"C02": {"status", "err", "val", "rem", "def", "panic", "timeout"},
	"C03": {"status", "rem", "dargs", "panic", "timeout"},
	"C04": {"status", "rem", "val", "view", "dfn", "dkind", "warn", "panic", "timeout"},
	"C05": {"status", "err", "val", "view", "panic", "timeout"},
	"C06": {"status", "val", "view", "dview", "panic", "timeout"},
	"C07": {"status", "err", "rem", "val", "view", "warn", "panic", "timeout"},
	"C08": {"status", "err", "warn", "rem", "val", "panic", "timeout"},
	"C09": {"status", "rem", "val", "view", "dfn", "panic", "timeout"},
	"C10": {"status", "dkind", "dfn", "dargs", "dview", "rem", "panic", "timeout"},
	"C11": {"status", "err", "errclass", "dkind", "derr", "dtext", "dfn", "panic", "timeout"},
	"C12": {"status", "val", "view", "panic", "timeout"},
	"C17": {"comp", "compexit", "comperr", "panic", "timeout", "def"},
	"C18": {"help", "dtext", "dkind", "panic", "timeout"},
	"C19": {"panic", "timeout", "def", "status", "rem", "compexit"},
	"C20": {"status", "err", "errclass", "rem", "warn", "val", "view", "dkind", "dfn", "dargs", "dview", "dtext", "derr", "help", "comp", "comperr", "compexit", "def", "reqarg", "panic", "timeout"},
}

type Failure struct {
	Case       *Case      `json:"case"`
	Mismatches []Mismatch `json:"mismatches,omitempty"`
	Oracle     string     `json:"oracle,omitempty"` // property violated on the real library (independent of the model)
	// Confirmed: decision of confirmFailure on the real library alone - "yes: …" the property fails on this
	// input, "no: …" only the correspondence is broken here, "" the disagreement itself is the violation
	Confirmed string   `json:"confirmed,omitempty"`
	Answers   []string `json:"answers,omitempty"`
}

type Report struct {
	Prop        string         `json:"prop"`
	Seed        int64          `json:"seed"`
	Evaluations int            `json:"evaluations"`
	Distinct    int            `json:"distinct_nontrivial"`
	Failures    []Failure      `json:"failures"` // disagreements inside the projection, or oracle violations
	OtherCats   map[string]int `json:"other_category_disagreements"`
	Outcomes    map[string]int `json:"outcome_distribution"`
	Tokens      map[string]int `json:"token_distribution"`
	Samples     []*Case        `json:"samples"`
	OracleEvals int            `json:"oracle_evaluations"`
	WallS       float64        `json:"wall_s"`
}

func tokClass(t string) string {
	switch {
	case t == "--":
		return "term"
	case t == "-":
		return "dash"
	case t == "":
		return "empty"
	case strings.HasPrefix(t, "--") && strings.Contains(t, "="):
		return "long="
	case strings.HasPrefix(t, "--"):
		return "long"
	case strings.HasPrefix(t, "-") && strings.Contains(t, "="):
		return "short="
	case strings.HasPrefix(t, "-"):
		return "short"
	case strings.Contains(t, "="):
		return "kv"
	}
	if _, err := strconv.Atoi(t); err == nil {
		return "int"
	}
	return "word"
}

func signature(c *Case, ans []string) string {
	s := ""
	for _, op := range c.Script {
		s += op.Op
		if op.Op == "opt" {
			s += kindNames[op.Kind]
			for _, m := range op.Mods {
				s += m.M
			}
		}
		s += ","
	}
	s += "|"
	toks := c.Args
	if c.Comp {
		toks = strings.Fields(c.CompLine)
	}
	for _, a := range toks {
		s += tokClass(a) + ","
	}
	if len(ans) > 0 {
		_, f := parseAnswer(ans[0])
		e := f["err"]
		if i := strings.Index(e, ":"); i > 0 {
			e = e[:i]
		}
		s += "|" + f["st"] + e + f["c"]
	}
	return s
}

func inList(l []string, s string) bool {
	for _, x := range l {
		if x == s {
			return true
		}
	}
	return false
}

func loadCorpus(dir string) []*Case {
	var out []*Case
	files, _ := filepath.Glob(filepath.Join(dir, "*.json"))
	sort.Strings(files)
	for _, f := range files {
		b, err := ioutil.ReadFile(f)
		if err != nil {
			continue
		}
		var c Case
		if json.Unmarshal(b, &c) == nil {
			out = append(out, &c)
			continue
		}
		var fl Failure
		if json.Unmarshal(b, &fl) == nil && fl.Case != nil {
			out = append(out, fl.Case)
		}
	}
	return out
}

func runDiff(prop string, seed int64, n int, driverPath, corpusDir, outPath string, maxFail int) int {
	start := time.Now()
	d, err := startDriver(driverPath)
	if err != nil {
		fmt.Fprintln(os.Stderr, "cannot start driver:", err)
		return 2
	}
	defer d.close()
	g := newGen(seed, prop)
	rep := &Report{Prop: prop, Seed: seed, OtherCats: map[string]int{}, Outcomes: map[string]int{}, Tokens: map[string]int{}}
	sigs := map[string]bool{}
	proj := projection[prop]
	cases := loadCorpus(corpusDir)
	ncorpus := len(cases)
	orc := newOracle(prop, g)
	nConfirmed, nUnconfirmed := 0, 0
	for i := 0; i < n+ncorpus; i++ {
		var c *Case
		if i < ncorpus {
			c = cases[i]
		} else {
			c = g.genCase(i)
		}
		ans, err := d.ask(c.lines(), c.answers())
		if err != nil {
			fmt.Fprintln(os.Stderr, "driver failed on case", i, err)
			b, _ := json.Marshal(c)
			fmt.Fprintln(os.Stderr, string(b))
			if outPath != "" {
				// keep the request the model did not answer, for analysis
				ioutil.WriteFile(outPath+".driverfail", b, 0o644)
			}
			return 2
		}
		r := runReal(c)
		ms := compare(c, ans, r)
		rep.Evaluations++
		toks := c.Args
		if c.Comp {
			toks = strings.Fields(c.CompLine)
		}
		for _, a := range toks {
			rep.Tokens[tokClass(a)]++
		}
		if len(ans) > 0 {
			_, f := parseAnswer(ans[0])
			e := f["err"]
			if j := strings.Index(e, ":"); j > 0 {
				e = e[:j]
			}
			rep.Outcomes[f["st"]+f["c"]+" "+e]++
			for _, a := range ans[1:] {
				if strings.HasPrefix(a, "R ") {
					_, rf := parseAnswer(a)
					st := rf["st"]
					if st == "" {
						st = "not called (the parse failed)"
					}
					rep.Outcomes["GetRequiredArg "+st]++
				}
			}
		}
		if len(toks) > 0 {
			sigs[signature(c, ans)] = true
		}
		var relevant []Mismatch
		for _, m := range ms {
			if inList(proj, m.Cat) || m.Cat == "driver" {
				relevant = append(relevant, m)
			} else {
				rep.OtherCats[m.Cat]++
			}
		}
		oracleMsg := ""
		if !r.Timeout {
			oracleMsg = orc.check(c, r)
			rep.OracleEvals = orc.evals
		}
		if len(relevant) > 0 || oracleMsg != "" {
			conf := ""
			if oracleMsg == "" && nUnconfirmed < 40 {
				conf = confirmFailure(prop, c, r, relevant)
			}
			if strings.HasPrefix(conf, "no:") {
				// the correspondence is broken on this input but the property holds on it: keep a few of
				// these and go on searching for an input on which the property itself fails
				nUnconfirmed++
				if nUnconfirmed <= maxFail {
					rep.Failures = append(rep.Failures, Failure{Case: c, Mismatches: relevant, Confirmed: conf, Answers: ans})
				}
			} else {
				nConfirmed++
				rep.Failures = append(rep.Failures, Failure{Case: c, Mismatches: relevant, Oracle: oracleMsg, Confirmed: conf, Answers: ans})
			}
			if r.Timeout {
				break // a goroutine of the library is still spinning; stop this worker
			}
			if nConfirmed >= maxFail || nUnconfirmed >= 40 {
				break
			}
		}
		if len(rep.Samples) < 3 && i >= ncorpus && len(toks) > 1 {
			rep.Samples = append(rep.Samples, c)
		}
	}
	rep.Distinct = len(sigs)
	rep.WallS = time.Since(start).Seconds()
	b, _ := json.MarshalIndent(rep, "", " ")
	if outPath == "" {
		fmt.Println(string(b))
	} else {
		ioutil.WriteFile(outPath, b, 0o644)
	}
	if len(rep.Failures) > 0 {
		return 1
	}
	return 0
}

// ---- basic leg: the model's re-implementations of library/stdlib functions against the real ones ----

func runBasic(seed int64, n int, driverPath, outPath string) int {
	start := time.Now()
	d, err := startDriver(driverPath)
	if err != nil {
		fmt.Fprintln(os.Stderr, "cannot start driver:", err)
		return 2
	}
	defer d.close()
	r := rand.New(rand.NewSource(seed))
	g := &gen{r: r, f: defaultFocus("basic")}
	type bf struct {
		Kind, Input, Model, Real string
	}
	var fails []bf
	evals := 0
	distinct := map[string]bool{}
	ws := regexp.MustCompile(`\s+`)
	mk := func() string {
		switch r.Intn(6) {
		case 0:
			return g.randBytes()
		case 1:
			return g.pick(wordPool)
		case 2:
			return []string{"-", "--"}[r.Intn(2)] + g.randBytes()
		case 3:
			return []string{"-", "--"}[r.Intn(2)] + g.pick(namePool) + []string{"", "=", "=v", "=a=b", "==", "=\n"}[r.Intn(6)]
		case 4:
			s := ""
			for i := r.Intn(4); i >= 0; i-- {
				s += g.pick([]string{" ", "\t", "\n", "a", "b-", "  ", "\f", "\r", "é", "\v", " ", " "})
			}
			return s
		}
		return strconv.FormatInt(r.Int63()-r.Int63(), 10) + g.pick([]string{"", "", "0", "x", "99"})
	}
	for i := 0; i < n; i++ {
		s := mk()
		distinct[s] = true
		mode := r.Intn(3)
		lines := []string{fmt.Sprintf("isopt %d %s", mode, hx(s)), "atoi " + hx(s), "splitws " + hx(s), "explode " + hx(s)}
		l := []string{s, mk(), mk()}
		lines = append(lines, "sort "+hxList(l))
		ans, err := d.ask(lines, 5)
		if err != nil {
			fmt.Fprintln(os.Stderr, "driver failed", err)
			return 2
		}
		evals += 5
		// isOption
		pairs, is := getoptions.VerifIsOption(s, getoptions.Mode(mode))
		ps := "-"
		if len(pairs) > 0 {
			parts := []string{}
			for _, p := range pairs {
				parts = append(parts, hx(p.Option)+"="+hxList(p.Args))
			}
			ps = strings.Join(parts, ";")
		}
		isn := 0
		if is {
			isn = 1
		}
		if want := fmt.Sprintf("I is=%d pairs=%s", isn, ps); want != ans[0] {
			fails = append(fails, bf{fmt.Sprintf("isOption mode %d", mode), s, ans[0], want})
		}
		av := "err"
		if v, err := strconv.Atoi(s); err == nil {
			av = strconv.Itoa(v)
		}
		if want := "A " + av; want != ans[1] {
			fails = append(fails, bf{"atoi", s, ans[1], want})
		}
		if want := "W " + hxList(ws.Split(s, -1)); want != ans[2] {
			fails = append(fails, bf{"splitws", s, ans[2], want})
		}
		ex := strings.Split(s, "")
		if s == "" {
			ex = []string{}
		}
		if want := fmt.Sprintf("E %s %d", hxList(ex), len([]rune(s))); want != ans[3] {
			fails = append(fails, bf{"explode", s, ans[3], want})
		}
		sl := append([]string{}, l...)
		sort.Strings(sl)
		if want := "S " + hxList(sl); want != ans[4] {
			fails = append(fails, bf{"sort", strings.Join(l, "|"), ans[4], want})
		}
		if len(fails) > 10 {
			break
		}
	}
	rep := map[string]interface{}{"evaluations": evals, "distinct_inputs": len(distinct), "failures": fails, "wall_s": time.Since(start).Seconds()}
	b, _ := json.MarshalIndent(rep, "", " ")
	if outPath == "" {
		fmt.Println(string(b))
	} else {
		ioutil.WriteFile(outPath, b, 0o644)
	}
	if len(fails) > 0 {
		return 1
	}
	return 0
}

func runReplay(path, driverPath string) int {
	b, err := ioutil.ReadFile(path)
	if err != nil {
		fmt.Fprintln(os.Stderr, err)
		return 2
	}
	var c Case
	var fl Failure
	if json.Unmarshal(b, &fl) == nil && fl.Case != nil {
		c = *fl.Case
	} else if err := json.Unmarshal(b, &c); err != nil {
		fmt.Fprintln(os.Stderr, err)
		return 2
	}
	d, err := startDriver(driverPath)
	if err != nil {
		fmt.Fprintln(os.Stderr, err)
		return 2
	}
	defer d.close()
	ans, err := d.ask(c.lines(), c.answers())
	if err != nil {
		fmt.Fprintln(os.Stderr, err)
		return 2
	}
	r := runReal(&c)
	ms := compare(&c, ans, r)
	fmt.Printf("args: %q\n", c.Args)
	if c.Comp {
		fmt.Printf("COMP_LINE: %q zsh=%v\n", c.CompLine, c.Zsh)
	}
	for _, l := range c.lines() {
		fmt.Println("  >", l)
	}
	for _, a := range ans {
		fmt.Println("  model:", a)
	}
	rb, _ := json.MarshalIndent(r, "  ", " ")
	fmt.Println("  real:", string(rb))
	for _, m := range ms {
		fmt.Printf("MISMATCH %s %s\n   model: %q\n   real:  %q\n", m.Cat, m.Field, m.Model, m.Real)
	}
	prop := fl.Oracle
	_ = prop
	for _, p := range []string{"C01", "C02", "C03", "C04", "C05", "C06", "C07", "C08", "C09", "C10", "C11", "C12", "C17", "C18", "C19", "C20"} {
		o := newOracle(p, newGen(1, p))
		if msg := o.check(&c, r); msg != "" {
			fmt.Printf("ORACLE %s: %s\n", p, msg)
		}
	}
	if len(ms) > 0 {
		return 1
	}
	return 0
}

func main() {
	if len(os.Args) < 2 {
		fmt.Fprintln(os.Stderr, "usage: vh diff|basic|replay|dag|factgen ...")
		os.Exit(2)
	}
	sub := os.Args[1]
	fs := flag.NewFlagSet(sub, flag.ExitOnError)
	prop := fs.String("prop", "C03", "property id")
	seed := fs.Int64("seed", 1, "PRNG seed")
	n := fs.Int("n", 1000, "number of generated cases")
	driver := fs.String("driver", "/verif/lean/.lake/build/bin/driver", "model driver executable")
	corpus := fs.String("corpus", "", "corpus directory (cases run first)")
	out := fs.String("out", "", "report path (stdout if empty)")
	maxFail := fs.Int("maxfail", 5, "stop after this many failing cases")
	file := fs.String("file", "", "replay file")
	repo := fs.String("repo", "/repo", "repository root (factgen)")
	fs.Parse(os.Args[2:])
	switch sub {
	case "diff":
		os.Exit(runDiff(*prop, *seed, *n, *driver, *corpus, *out, *maxFail))
	case "basic":
		os.Exit(runBasic(*seed, *n, *driver, *out))
	case "replay":
		os.Exit(runReplay(*file, *driver))
	case "dag":
		os.Exit(runDag(*prop, *seed, *n, *driver, *out, *maxFail, *file))
	case "factgen":
		os.Exit(runFactgen(*repo, *out))
	}
	fmt.Fprintln(os.Stderr, "unknown subcommand", sub)
	os.Exit(2)
}

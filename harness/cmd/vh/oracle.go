package main

// Oracle evaluates a property directly on the real library (no model involved).
type Oracle struct {
	prop  string
	g     *gen
	evals int
}

func newOracle(prop string, g *gen) *Oracle { return &Oracle{prop: prop, g: g} }

// check returns a non-empty description when the property is violated by the real outcome of c
func (o *Oracle) check(c *Case, r *RealOut) string {
	return ""
}

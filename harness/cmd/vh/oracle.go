package main

import "fmt"

// Oracle evaluates a property directly on the real library (no model involved).
type Oracle struct {
	prop  string
	g     *gen
	evals int
}

func newOracle(prop string, g *gen) *Oracle { return &Oracle{prop: prop, g: g} }

// isSublist reports whether a is a (not necessarily contiguous) subsequence of b.
func isSublist(a, b []string) bool {
	i := 0
	for _, x := range b {
		if i < len(a) && a[i] == x {
			i++
		}
	}
	return i == len(a)
}

// check returns a non-empty description when the property is violated by the real outcome of c
func (o *Oracle) check(c *Case, r *RealOut) string {
	if r == nil || r.Timeout || r.Panic != "" || r.DefPanic != "" {
		return ""
	}
	if o.prop == "C04" || ((o.prop == "C06" || o.prop == "C12") && c.Reparse) {
		o.evals++
	}
	if r.ArgsMutated != "" && (o.prop == "C03" || o.prop == "C04") {
		return "Parse modified the argument slice it was given: " + r.ArgsMutated
	}
	if r.ReparseDiff != "" && (o.prop == "C06" || o.prop == "C12") {
		return "parsing an empty command line afterwards changed an option: " + r.ReparseDiff
	}
	if r.TwiceDiff != "" && (o.prop == "C10" || o.prop == "C11") {
		return "the same arguments parsed and dispatched a second time on the same object: " + r.TwiceDiff
	}
	if (o.prop == "C10" || o.prop == "C11") && c.Twice {
		o.evals++
	}
	switch o.prop {
	case "C03":
		// conservation, decided on the implementation alone: whenever Parse succeeds the remaining list
		// is a positional sub-sequence of argv
		if c.Comp {
			return ""
		}
		o.evals++
		if !r.HasErr && !r.RemNil && !isSublist(r.Rem, c.Args) {
			return fmt.Sprintf("remaining %q is not a sub-sequence of argv %q", r.Rem, c.Args)
		}
	case "C20":
		// determinism, decided on the implementation alone: the definition is rebuilt (fresh maps, fresh
		// iteration orders) and run again on the same input
		o.evals++
		r2 := runReal(c)
		if a, b := fmt.Sprintf("%+v", *r), fmt.Sprintf("%+v", *r2); a != b {
			return "two runs of the same definition on the same input differ:\n  first:  " + clip(a, 1500) + "\n  second: " + clip(b, 1500)
		}
	}
	return ""
}

func clip(s string, n int) string {
	if len(s) > n {
		return s[:n] + "…"
	}
	return s
}

package main

import (
	"bytes"
	"context"
	"encoding/json"
	"errors"
	"fmt"
	"io/ioutil"
	"math"
	"math/rand"
	"os"
	"sort"
	"strconv"
	"strings"
	"sync"
	"sync/atomic"
	"time"

	"github.com/DavidGamba/go-getoptions"
	"github.com/DavidGamba/go-getoptions/dag"
)

// ---- case description ----

type TRef struct {
	Nil   bool   `json:"nil,omitempty"`
	ID    int    `json:"id"`              // 0 = empty ID
	NoFn  bool   `json:"nofn,omitempty"`  // nil function
	Fresh bool   `json:"fresh,omitempty"` // a new *Task object with the same ID and function
	Src   string `json:"src,omitempty"`   // "" the task object itself; "g" the expression g.Task(id); "m" tm.Get(id)
}

type DagOp struct {
	Op   string `json:"op"` // add dep retries sort lookup (a bare g.Task / tm.Get call) tmadd (tm.Add(id, fn))
	T    TRef   `json:"t"`
	Deps []TRef `json:"deps,omitempty"`
	N    int    `json:"n,omitempty"`
}

type DagCase struct {
	Dag       bool                `json:"dag"`
	Prop      string              `json:"prop"`
	ID        int                 `json:"id"`
	Ops       []DagOp             `json:"ops"`
	Serial    bool                `json:"serial,omitempty"`
	Max       int                 `json:"max,omitempty"`
	Buffer    bool                `json:"buffer,omitempty"`
	Outcomes  map[string][]string `json:"outcomes"` // task id -> outcome per attempt: ok err skip
	CtlSeed   int64               `json:"ctlseed"`
	CancelAt  int                 `json:"cancelat"`            // controller step at which the context is cancelled (-1: never)
	Shared    bool                `json:"shared,omitempty"`    // run a second graph sharing the Task objects concurrently
	BigOut    bool                `json:"bigout,omitempty"`    // odd tasks write more than 64 KiB per attempt
	Names     bool                `json:"names,omitempty"`     // task IDs are words with separators, spaces, case twins instead of numbers
	BadOut    bool                `json:"badout,omitempty"`    // the writer given to SetOutputBuffer reports an error for every Write (after taking the data)
	PreCancel bool                `json:"precancel,omitempty"` // the context is already cancelled when Run is called
	WithTM    bool                `json:"withtm,omitempty"`    // a TaskMap is used (tmadd ops, "m" references) and handed to Validate
	WithAPI   bool                `json:"withapi,omitempty"`   // tasks come from a TaskMap (made anew for every graph built from the history)
}

// IDs handed to the library: the decimal number, or (Names) a word chosen so that IDs contain each other,
// path and field separators, blanks, upper case and non-ASCII letters
var idWords = []string{"", "pkg", "deb", "pkg/deb", "a:b", "A", "a", "x y", "é", "deb/pkg", "1", "g:1", "pkg/deb/pkg", "Task", "error:", "%s"}

func (c *DagCase) tname(id int) string {
	if id == 0 {
		return ""
	}
	if !c.Names {
		return strconv.Itoa(id)
	}
	if id < len(idWords) {
		return idWords[id]
	}
	return "t" + strconv.Itoa(id)
}

func (c *DagCase) tid(name string) int {
	if !c.Names {
		n, _ := strconv.Atoi(name)
		return n
	}
	for i, w := range idWords {
		if i > 0 && w == name {
			return i
		}
	}
	n, _ := strconv.Atoi(strings.TrimPrefix(name, "t"))
	return n
}

func (t TRef) proto() string {
	if t.Nil {
		return "nil"
	}
	f := "1"
	if t.NoFn {
		f = "0"
	}
	if t.Src != "" {
		return fmt.Sprintf("%d:%s:%s", t.ID, f, t.Src)
	}
	return fmt.Sprintf("%d:%s", t.ID, f)
}

func (c *DagCase) protoLines() []string {
	out := []string{"dag new"}
	for _, op := range c.Ops {
		switch op.Op {
		case "add":
			out = append(out, "dag add "+op.T.proto())
		case "dep":
			l := "dag dep " + op.T.proto()
			for _, d := range op.Deps {
				l += " " + d.proto()
			}
			out = append(out, l)
		case "retries":
			out = append(out, fmt.Sprintf("dag retries %s %d", op.T.proto(), op.N))
		case "lookup":
			out = append(out, "dag lookup "+op.T.proto())
		case "tmadd":
			out = append(out, "dag tmadd "+op.T.proto())
		}
	}
	if c.Serial {
		out = append(out, "dag serial")
	}
	if c.Max != 0 {
		out = append(out, fmt.Sprintf("dag max %d", c.Max))
	}
	return out
}

// ---- the intended graph: an independent restatement of the construction rules (oracle side) ----

type iVertex struct {
	id       int
	children []int
	parents  []int
	retries  int
}

type iGraph struct {
	order  []int
	v      map[int]*iVertex
	errs   []string
	tm     map[int]bool // TaskMap: id -> the task has a function
	tmErrs []string
}

// eval - a *Task argument as the callee sees it: g.Task(id) is the registered task or an empty one (and an
// error recorded in the graph), tm.Get(id) likewise against the TaskMap
func (g *iGraph) eval(t TRef) TRef {
	switch t.Src {
	case "g":
		if t.Nil {
			return t
		}
		if _, ok := g.v[t.ID]; ok {
			return TRef{ID: t.ID}
		}
		g.errs = append(g.errs, fmt.Sprintf("notfound:%d", t.ID))
		return TRef{ID: t.ID, NoFn: true}
	case "m":
		if t.Nil {
			return t
		}
		if f, ok := g.tm[t.ID]; ok {
			return TRef{ID: t.ID, NoFn: !f}
		}
		g.tmErrs = append(g.tmErrs, fmt.Sprintf("notfound:%d", t.ID))
		return TRef{ID: t.ID, NoFn: true}
	}
	return t
}

func (g *iGraph) addTask(t TRef) string {
	if t.Nil {
		return "nil"
	}
	if t.ID == 0 {
		return "id"
	}
	if t.NoFn {
		return fmt.Sprintf("fn:%d", t.ID)
	}
	if _, ok := g.v[t.ID]; !ok {
		g.v[t.ID] = &iVertex{id: t.ID}
		g.order = append(g.order, t.ID)
	}
	return ""
}

func (g *iGraph) retrieveOrAdd(t TRef) (int, string) {
	if t.Nil {
		return 0, "nil"
	}
	if _, ok := g.v[t.ID]; ok {
		return t.ID, ""
	}
	if e := g.addTask(t); e != "" {
		return 0, e
	}
	return t.ID, ""
}

func intendedGraph(ops []DagOp) *iGraph {
	g := &iGraph{v: map[int]*iVertex{}, tm: map[int]bool{}}
	for _, op := range ops {
		// the arguments are evaluated before the call, left to right
		switch op.Op {
		case "add", "dep", "retries", "lookup":
			op.T = g.eval(op.T)
			if len(op.Deps) > 0 {
				deps := make([]TRef, len(op.Deps))
				for i, d := range op.Deps {
					deps[i] = g.eval(d)
				}
				op.Deps = deps
			}
		}
		switch op.Op {
		case "tmadd":
			if op.T.ID == 0 {
				g.tmErrs = append(g.tmErrs, "id")
			}
			if op.T.NoFn {
				g.tmErrs = append(g.tmErrs, fmt.Sprintf("fn:%d", op.T.ID))
			}
			if _, ok := g.tm[op.T.ID]; ok {
				g.tmErrs = append(g.tmErrs, fmt.Sprintf("tmdup:%d", op.T.ID))
			}
			g.tm[op.T.ID] = !op.T.NoFn
		case "add":
			if e := g.addTask(op.T); e != "" {
				g.errs = append(g.errs, e)
			}
		case "dep":
			v, e := g.retrieveOrAdd(op.T)
			if e != "" {
				g.errs = append(g.errs, e)
				continue
			}
		deps:
			for _, d := range op.Deps {
				c, e := g.retrieveOrAdd(d)
				if e != "" {
					g.errs = append(g.errs, e)
					break
				}
				for _, x := range g.v[v].children {
					if x == c {
						g.errs = append(g.errs, fmt.Sprintf("dup:%d:%d", v, c))
						break deps
					}
				}
				g.v[v].children = append(g.v[v].children, c)
				g.v[c].parents = append(g.v[c].parents, v)
			}
		case "retries":
			v, e := g.retrieveOrAdd(op.T)
			if e != "" {
				g.errs = append(g.errs, e)
				continue
			}
			g.v[v].retries = op.N
			if op.N < 0 {
				g.v[v].retries = 0 // a negative number of retries means none: the task still runs once
			}
		}
	}
	return g
}

func (g *iGraph) hasCycle() bool {
	color := map[int]int{}
	var visit func(v int) bool
	visit = func(v int) bool {
		if color[v] == 2 {
			return false
		}
		if color[v] == 1 {
			return true
		}
		color[v] = 1
		for _, c := range g.v[v].children {
			if visit(c) {
				return true
			}
		}
		color[v] = 2
		return false
	}
	for _, v := range g.order {
		if visit(v) {
			return true
		}
	}
	return false
}

func (g *iGraph) ancestors(v int) map[int]bool {
	out := map[int]bool{}
	var rec func(x int)
	rec = func(x int) {
		for _, p := range g.v[x].parents {
			if !out[p] {
				out[p] = true
				rec(p)
			}
		}
	}
	rec(v)
	return out
}

func (g *iGraph) canon() string {
	parts := []string{}
	for _, id := range g.order {
		v := g.v[id]
		parts = append(parts, fmt.Sprintf("%d[%s|%s|%d]", id, joinInts(v.children), joinInts(v.parents), v.retries))
	}
	return strings.Join(parts, ";")
}

// errClasses - the sentinel each entry of an *Errors value wraps, in order
func errClasses(err error) []string {
	if err == nil {
		return nil
	}
	var es *dag.Errors
	if !errors.As(err, &es) {
		return []string{"other"}
	}
	out := []string{}
	for _, e := range es.Errors {
		switch {
		case errors.Is(e, dag.ErrorTaskNil):
			out = append(out, "nil")
		case errors.Is(e, dag.ErrorTaskID):
			out = append(out, "id")
		case errors.Is(e, dag.ErrorTaskFn):
			out = append(out, "fn")
		case errors.Is(e, dag.ErrorTaskDependencyDuplicate):
			out = append(out, "dup")
		case errors.Is(e, dag.ErrorTaskNotFound):
			out = append(out, "notfound")
		case errors.Is(e, dag.ErrorTaskDuplicate):
			out = append(out, "tmdup")
		default:
			out = append(out, "other")
		}
	}
	return out
}

func classesOf(l []string) []string {
	out := []string{}
	for _, e := range l {
		out = append(out, strings.SplitN(e, ":", 2)[0])
	}
	return out
}

func joinInts(l []int) string {
	s := make([]string, len(l))
	for i, x := range l {
		s[i] = strconv.Itoa(x)
	}
	return strings.Join(s, ",")
}

// ---- controlled execution of the real scheduler ----

type dagEvent struct {
	Kind string `json:"k"`
	V    int    `json:"v,omitempty"`
	K    int    `json:"a,omitempty"`
	R    string `json:"r,omitempty"`
	G    int    `json:"g,omitempty"` // graph number (0 = main graph)
}

func (e dagEvent) proto() string {
	switch e.Kind {
	case "recv":
		return fmt.Sprintf("dag ev recv %d %s", e.V, e.R)
	case "pickReal", "pickSkip", "pickErr", "semAcq", "lockAcq", "semRel":
		return fmt.Sprintf("dag ev %s %d", e.Kind, e.V)
	case "cancel", "idle", "exit":
		return "dag ev " + e.Kind
	case "enter":
		return fmt.Sprintf("dag ev enter %d %d", e.V, e.K)
	case "leave":
		return fmt.Sprintf("dag ev leave %d %d %s", e.V, e.K, e.R)
	}
	return ""
}

type tstate struct {
	state    string // picked waitSem waitLock idle inFn releasing sending recvd
	sem      bool
	attempts int
	release  chan string
	pseudo   bool
}

type dagRun struct {
	c             *DagCase
	ig            *iGraph
	mu            sync.Mutex
	cond          *sync.Cond
	events        []dagEvent
	ts            map[int]*tstate
	pendingPseudo int
	holders       int
	lastIdle      bool
	exited        bool
	cancelReq     bool
	cancelSeen    bool
	failed        bool
	inFnNow       int32
	maxInFn       int32
	violations    []string
	data          []int64 // plain, unsynchronised: written by a task before it returns, read by its dependents
	taskErrs      map[int]error
	writes        []string // buffered-output Write calls
	graphs        map[*dag.Graph]int
	g2events      []dagEvent
	sharedNow     map[int]*int32
	g2ran         []int32 // per task: its function has returned in the second graph
	second        int32   // set once the first Run has returned
	secondEntered int32
}

func (r *dagRun) violate(msg string) {
	r.violations = append(r.violations, msg)
}

func resOf(err error) string {
	switch {
	case err == nil:
		return "ok"
	case errors.Is(err, dag.ErrorSkipParents):
		return "skip"
	case err == dag.ErrorTaskSkipped:
		// the scheduler's own completion for a vertex it did not start (a task's error that merely wraps
		// the sentinel is a failure like any other)
		return "tskip"
	}
	return "err"
}

// rec appends an event of the main graph and updates the controller's view; called with r.mu held
func (r *dagRun) rec(e dagEvent) {
	if e.Kind == "idle" && r.lastIdle {
		r.cond.Broadcast()
		return // collapse repeated polls
	}
	r.events = append(r.events, e)
	r.lastIdle = e.Kind == "idle"
	t := r.ts[e.V]
	switch e.Kind {
	case "pickReal":
		r.ts[e.V] = &tstate{state: "waitSem", release: make(chan string, 1)}
	case "pickSkip", "pickErr":
		r.ts[e.V] = &tstate{state: "pseudo", pseudo: true}
		r.pendingPseudo++
	case "recv":
		if t != nil {
			if t.pseudo {
				r.pendingPseudo--
			}
			t.state = "recvd"
		}
		if e.R == "err" || e.R == "tskip" {
			r.failed = true
		}
	case "semAcq":
		t.state, t.sem = "waitLock", true
		r.holders++
	case "lockAcq":
		t.state = "idle"
	case "enter":
		t.state = "inFn"
	case "leave":
		t.state = "left"
	case "semRel":
		t.sem = false
		r.holders--
	case "cancel":
		r.cancelSeen = true
		r.failed = true
	case "exit":
		r.exited = true
	}
	r.cond.Broadcast()
}

func (r *dagRun) maxPar() int {
	if r.c.Max > 0 {
		return r.c.Max
	}
	return 1000000
}

// stable: nothing will happen until the controller acts. Called with r.mu held.
func (r *dagRun) stable() bool {
	if !r.lastIdle || r.pendingPseudo != 0 {
		return false
	}
	if r.cancelReq && !r.cancelSeen {
		return false
	}
	for _, t := range r.ts {
		switch t.state {
		case "inFn", "pseudo":
		case "recvd":
			if t.sem {
				return false
			}
		case "waitSem":
			if r.holders < r.maxPar() {
				return false
			}
		default:
			return false
		}
	}
	return true
}

type recWriter struct{ r *dagRun }

func (w recWriter) Write(p []byte) (int, error) {
	w.r.mu.Lock()
	w.r.writes = append(w.r.writes, string(p))
	w.r.mu.Unlock()
	if w.r.c.BadOut {
		return len(p), errors.New("output writer failed")
	}
	return len(p), nil
}

func (r *dagRun) taskFn(id int, gno int) getoptions.CommandFn {
	return func(ctx context.Context, opt *getoptions.GetOpt, args []string) error {
		if atomic.LoadInt32(&r.second) != 0 {
			// the graph is being run again after it finished: nothing may be entered a second time
			atomic.AddInt32(&r.secondEntered, 1)
			return nil
		}
		if gno != 0 {
			// second graph sharing the Task objects: only mutual exclusion per Task is observed
			cnt := r.sharedNow[id]
			if atomic.AddInt32(cnt, 1) > 1 {
				r.mu.Lock()
				r.violate(fmt.Sprintf("task %d executes twice at the same time (two graphs share it)", id))
				r.mu.Unlock()
			}
			// ordering inside the second graph: every dependency has run (there) and returned
			if iv := r.ig.v[id]; iv != nil {
				for _, d := range iv.children {
					if d < len(r.g2ran) && atomic.LoadInt32(&r.g2ran[d]) == 0 {
						r.mu.Lock()
						r.violate(fmt.Sprintf("second graph: task %d entered although its dependency %d has not returned there", id, d))
						r.mu.Unlock()
					}
				}
			}
			time.Sleep(200 * time.Microsecond)
			atomic.AddInt32(cnt, -1)
			if id < len(r.g2ran) {
				atomic.StoreInt32(&r.g2ran[id], 1)
			}
			return nil
		}
		cnt := r.sharedNow[id]
		if atomic.AddInt32(cnt, 1) > 1 {
			r.mu.Lock()
			r.violate(fmt.Sprintf("task %d executes twice at the same time", id))
			r.mu.Unlock()
		}
		n := atomic.AddInt32(&r.inFnNow, 1)
		for {
			m := atomic.LoadInt32(&r.maxInFn)
			if n <= m || atomic.CompareAndSwapInt32(&r.maxInFn, m, n) {
				break
			}
		}
		// everything a dependency wrote before returning must be visible here (plain reads)
		for _, d := range r.ig.v[id].children {
			if r.data[d] == 0 {
				r.mu.Lock()
				r.violate(fmt.Sprintf("task %d entered but the write of its dependency %d is not visible (dependency has not returned)", id, d))
				r.mu.Unlock()
			}
		}
		if r.c.Buffer {
			w := dag.Stdout(ctx)
			fmt.Fprintf(w, "<%d", id)
			fmt.Fprintf(dag.Stderr(ctx), ".")
			if r.c.BigOut && id%2 == 1 {
				// a chatty task: more output than any internal buffer size one would pick
				w.Write(bytes.Repeat([]byte{'z'}, 70000+id))
			}
		}
		r.mu.Lock()
		t := r.ts[id]
		k := 0
		var rel chan string
		if t != nil {
			k = t.attempts
			t.attempts++
			rel = t.release
		}
		r.rec(dagEvent{Kind: "enter", V: id, K: k})
		r.mu.Unlock()
		outcome := "ok"
		if rel != nil {
			outcome = <-rel
		}
		if r.c.Buffer {
			fmt.Fprintf(dag.Stdout(ctx), "%d>", id)
		}
		if outcome == "ok" {
			r.data[id] = int64(k + 1)
		}
		atomic.AddInt32(&r.inFnNow, -1)
		atomic.AddInt32(cnt, -1)
		r.mu.Lock()
		r.rec(dagEvent{Kind: "leave", V: id, K: k, R: outcome})
		r.mu.Unlock()
		switch outcome {
		case "err":
			return r.taskErrs[id]
		case "skip":
			return dag.ErrorSkipParents
		}
		return nil
	}
}

// manualCtx is a context whose end is triggered by hand and reported as an expired deadline.
type manualCtx struct {
	context.Context
	done chan struct{}
	mu   sync.Mutex
	err  error
}

func (m *manualCtx) Done() <-chan struct{} { return m.done }
func (m *manualCtx) Err() error {
	m.mu.Lock()
	defer m.mu.Unlock()
	return m.err
}
func (m *manualCtx) expire() {
	m.mu.Lock()
	if m.err == nil {
		m.err = context.DeadlineExceeded
		close(m.done)
	}
	m.mu.Unlock()
}

type DagResult struct {
	Violations []string   `json:"violations,omitempty"`
	Mismatches []string   `json:"mismatches,omitempty"`
	Events     []dagEvent `json:"events,omitempty"`
	RunErr     string     `json:"runerr,omitempty"`
	Steps      int        `json:"steps"`
	Class      string     `json:"class"`
}

var dagMu sync.Mutex

// the run that currently receives scheduler events; the hook itself is installed once per process
var curRun atomic.Value

func installDagHook() {
	dag.VerifEventFn = func(gg *dag.Graph, kind string, id dag.ID, err error) {
		r, _ := curRun.Load().(*dagRun)
		if r == nil {
			return
		}
		r.mu.Lock()
		defer r.mu.Unlock()
		gno, ok := r.graphs[gg]
		if !ok || gno != 0 {
			return // a second graph sharing the tasks, or a late goroutine of an earlier run
		}
		n := r.c.tid(string(id))
		switch kind {
		case "recv":
			r.rec(dagEvent{Kind: "recv", V: n, R: resOf(err)})
		case "pickReal", "pickSkip", "pickErr", "semAcq", "lockAcq", "semRel":
			r.rec(dagEvent{Kind: kind, V: n})
		case "cancel", "idle", "exit":
			r.rec(dagEvent{Kind: kind})
		}
	}
}

func runDagCase(c *DagCase, d *Driver) *DagResult {
	dagMu.Lock()
	defer dagMu.Unlock()
	res := &DagResult{}
	ig := intendedGraph(c.Ops)
	r := &dagRun{c: c, ig: ig, ts: map[int]*tstate{}, taskErrs: map[int]error{}, graphs: map[*dag.Graph]int{}, sharedNow: map[int]*int32{}}
	r.cond = sync.NewCond(&r.mu)
	maxID := 0
	for _, op := range c.Ops {
		for _, t := range append([]TRef{op.T}, op.Deps...) {
			if t.ID > maxID {
				maxID = t.ID
			}
		}
	}
	r.data = make([]int64, maxID+2)
	r.g2ran = make([]int32, maxID+2)
	dag.Logger.SetOutput(ioutil.Discard)
	tasks := map[string]*dag.Task{}
	// A "fresh" reference is a new *Task object with the same ID - but the same object in every graph
	// built from the history (keyed by its position in the history), so that graphs sharing their tasks
	// share the redefined ones as well.
	mk := func(t TRef, opKey string) *dag.Task {
		if t.Nil {
			return nil
		}
		key := fmt.Sprintf("%d/%v", t.ID, t.NoFn)
		if t.Fresh {
			if tk, ok := tasks["fresh/"+opKey]; ok {
				tasks[key] = tk
				return tk
			}
		} else if tk, ok := tasks[key]; ok {
			return tk
		}
		id := c.tname(t.ID)
		var fn getoptions.CommandFn
		if !t.NoFn {
			fn = func(ctx context.Context, opt *getoptions.GetOpt, args []string) error {
				gno := 0
				if v := ctx.Value(ctxKey("gno")); v != nil {
					gno = v.(int)
				}
				return r.taskFn(t.ID, gno)(ctx, opt, args)
			}
		}
		if _, ok := r.sharedNow[t.ID]; !ok {
			r.sharedNow[t.ID] = new(int32)
			// a third of the failing tasks fail with an error that wraps a context error: to the
			// scheduler it is a task failure like any other
			// ... and some wrap the library's own sentinel for "not started" (a task that ran a nested graph)
			switch (int64(t.ID) + r.c.CtlSeed%4) % 4 {
			case 0:
				r.taskErrs[t.ID] = fmt.Errorf("task-%d-failed", t.ID)
				// ... or the error value of a nested graph: an *Errors with no entries, or with one
				switch (r.c.CtlSeed / 4) % 5 {
				case 0:
					r.taskErrs[t.ID] = &dag.Errors{Msg: fmt.Sprintf("nested-%d", t.ID)}
				case 1:
					r.taskErrs[t.ID] = &dag.Errors{Msg: fmt.Sprintf("nested-%d", t.ID), Errors: []error{fmt.Errorf("inner-%d", t.ID)}}
				}
			case 1:
				r.taskErrs[t.ID] = fmt.Errorf("task-%d-failed: %w", t.ID, context.Canceled)
			case 2:
				r.taskErrs[t.ID] = fmt.Errorf("task-%d-failed: %w", t.ID, dag.ErrorTaskSkipped)
			default:
				r.taskErrs[t.ID] = fmt.Errorf("task-%d-failed: %w", t.ID, context.DeadlineExceeded)
			}
		}
		tk := dag.NewTask(id, fn)
		tasks[key] = tk
		if t.Fresh {
			tasks["fresh/"+opKey] = tk
		}
		return tk
	}
	var tmOfG *dag.TaskMap
	build := func(name string) *dag.Graph {
		g := dag.NewGraph(name)
		g.TickerDuration = 20 * time.Microsecond
		tm := dag.NewTaskMap()
		if name == "g" {
			tmOfG = tm
		}
		mk0 := mk
		// a *Task argument: the object itself, or the expression g.Task(id) / tm.Get(id) evaluated now
		mk := func(t TRef, opKey string) *dag.Task {
			if !t.Nil {
				switch t.Src {
				case "g":
					return g.Task(c.tname(t.ID))
				case "m":
					return tm.Get(c.tname(t.ID))
				}
			}
			return mk0(t, opKey)
		}
		for opIdx, op := range c.Ops {
			switch op.Op {
			case "add":
				g.AddTask(mk(op.T, fmt.Sprintf("%d.t", opIdx)))
			case "dep":
				// Go evaluates the arguments left to right before the call
				t0 := mk(op.T, fmt.Sprintf("%d.t", opIdx))
				deps := []*dag.Task{}
				for j, dd := range op.Deps {
					deps = append(deps, mk(dd, fmt.Sprintf("%d.d%d", opIdx, j)))
				}
				g.TaskDependsOn(t0, deps...)
			case "retries":
				g.TaskRetries(mk(op.T, fmt.Sprintf("%d.t", opIdx)), op.N)
			case "lookup":
				mk(op.T, fmt.Sprintf("%d.t", opIdx))
			case "tmadd":
				// the function of a task kept in the map is the instrumented one of that ID
				var fn getoptions.CommandFn
				if tk := mk0(TRef{ID: op.T.ID, NoFn: op.T.NoFn, Fresh: true}, fmt.Sprintf("%d.m", opIdx)); tk != nil {
					fn = tk.Fn
				}
				tm.Add(c.tname(op.T.ID), fn)
			case "sort":
				// DepthFirstSort in the middle of the construction: checked against the calls made so far
				pre := intendedGraph(c.Ops[:opIdx])
				sorted, derr := g.DepthFirstSort()
				if name == "g" {
					if (len(pre.order) > 0 && pre.hasCycle()) != (derr != nil) {
						res.Violations = append(res.Violations, fmt.Sprintf("DepthFirstSort after %d calls: cycle=%v but error=%v", opIdx, pre.hasCycle(), derr))
					} else if derr == nil {
						seen := map[int]bool{}
						for _, v := range sorted {
							n := c.tid(string(v.ID))
							if pv, ok := pre.v[n]; ok {
								for _, ch := range pv.children {
									if !seen[ch] {
										res.Violations = append(res.Violations, fmt.Sprintf("DepthFirstSort after %d calls lists %d before its dependency %d", opIdx, n, ch))
									}
								}
							}
							seen[n] = true
						}
						if len(seen) != len(pre.order) || len(sorted) != len(pre.order) {
							res.Violations = append(res.Violations, fmt.Sprintf("DepthFirstSort after %d calls does not list every vertex exactly once", opIdx))
						}
					}
				}
			}
		}
		if c.Serial {
			g.SetSerial()
		}
		if c.Max != 0 {
			g.SetMaxParallel(c.Max)
		}
		return g
	}
	g := build("g")
	r.mu.Lock()
	r.graphs[g] = 0
	r.mu.Unlock()
	if c.Buffer {
		g.SetOutputBuffer(recWriter{r})
	}
	// model's view of the construction
	ans, err := d.ask(append(c.protoLines(), "dag graph"), 1)
	if err != nil {
		res.Mismatches = append(res.Mismatches, "driver: "+err.Error())
		return res
	}
	_, gf := parseAnswer(ans[0])
	// 1. structure: real vs model vs intended
	realCanon := func() string {
		ids := []int{}
		for id := range g.Vertices {
			n := c.tid(string(id))
			ids = append(ids, n)
		}
		sort.Ints(ids)
		parts := []string{}
		for _, id := range ids {
			v := g.Vertices[dag.ID(c.tname(id))]
			ch, pa := []int{}, []int{}
			for _, x := range v.Children {
				n := c.tid(string(x.ID))
				ch = append(ch, n)
				if g.Vertices[x.ID] != x {
					res.Violations = append(res.Violations, fmt.Sprintf("vertex %d depends on a vertex object for %s that is not the one registered in the graph", id, x.ID))
				}
			}
			for _, x := range v.Parents {
				n := c.tid(string(x.ID))
				pa = append(pa, n)
			}
			parts = append(parts, fmt.Sprintf("%d[%s|%s|%d]", id, joinInts(ch), joinInts(pa), v.Retries))
		}
		return strings.Join(parts, ";")
	}()
	sortCanon := func(s string) string {
		p := strings.Split(s, ";")
		sort.Slice(p, func(i, j int) bool {
			a, _ := strconv.Atoi(strings.SplitN(p[i], "[", 2)[0])
			b, _ := strconv.Atoi(strings.SplitN(p[j], "[", 2)[0])
			return a < b
		})
		return strings.Join(p, ";")
	}
	if mc := sortCanon(gf["verts"]); mc != realCanon {
		res.Mismatches = append(res.Mismatches, fmt.Sprintf("graph structure: model %q real %q", mc, realCanon))
	}
	if ic := sortCanon(ig.canon()); ic != realCanon {
		res.Violations = append(res.Violations, fmt.Sprintf("graph built from the call history differs from the calls made: expected %q got %q", ic, realCanon))
	}
	verr := g.Validate(nil)
	if (len(ig.errs) > 0) != (verr != nil) {
		res.Violations = append(res.Violations, fmt.Sprintf("construction errors: expected %v, Validate returned %v", ig.errs, verr))
	}
	if me := gf["errs"]; me != strings.Join(ig.errs, ";") {
		res.Mismatches = append(res.Mismatches, fmt.Sprintf("construction errors: model %q intended %q", me, strings.Join(ig.errs, ";")))
	}
	if c.WithTM {
		// Validate(tm): the TaskMap's errors first; compared entry by entry (class of each error, in order)
		want := ig.errs
		if len(ig.tmErrs) > 0 {
			want = ig.tmErrs
		}
		got := errClasses(g.Validate(tmOfG))
		if strings.Join(got, ";") != strings.Join(classesOf(want), ";") {
			res.Violations = append(res.Violations, fmt.Sprintf("Validate(tm): expected %v, got %v", classesOf(want), got))
		}
		va, err := d.ask([]string{"dag validate 1"}, 1)
		if err == nil && va[0] != "V errs="+strings.Join(want, ";") {
			res.Mismatches = append(res.Mismatches, fmt.Sprintf("Validate(tm): model %q intended %q", va[0], strings.Join(want, ";")))
		}
	}
	if got := errClasses(g.Validate(nil)); strings.Join(got, ";") != strings.Join(classesOf(ig.errs), ";") {
		res.Violations = append(res.Violations, fmt.Sprintf("Validate(nil): expected %v, got %v", classesOf(ig.errs), got))
	}
	// 2. DepthFirstSort
	cyc := len(ig.order) > 0 && ig.hasCycle()
	sorted, derr := g.DepthFirstSort()
	if cyc != (derr != nil) {
		res.Violations = append(res.Violations, fmt.Sprintf("DepthFirstSort: graph has cycle=%v but error=%v", cyc, derr))
	}
	if derr != nil && !errors.Is(derr, dag.ErrorGraphHasCycle) {
		res.Violations = append(res.Violations, "DepthFirstSort error is not ErrorGraphHasCycle")
	}
	if derr == nil {
		line := "dag topo"
		seen := map[int]bool{}
		for _, v := range sorted {
			n := c.tid(string(v.ID))
			line += " " + strconv.Itoa(n)
			for _, ch := range ig.v[n].children {
				if !seen[ch] {
					res.Violations = append(res.Violations, fmt.Sprintf("DepthFirstSort lists %d before its dependency %d", n, ch))
				}
			}
			if seen[n] {
				res.Violations = append(res.Violations, fmt.Sprintf("DepthFirstSort lists %d twice", n))
			}
			seen[n] = true
		}
		if len(seen) != len(ig.order) {
			res.Violations = append(res.Violations, "DepthFirstSort does not list every vertex")
		}
		if len(sorted) > 0 {
			ta, err := d.ask([]string{line}, 1)
			if err == nil && ta[0] != "T valid=1" {
				res.Mismatches = append(res.Mismatches, "model rejects the DepthFirstSort order: "+line)
			}
		}
	}
	wantPre := "schedule"
	switch {
	case len(ig.errs) > 0:
		wantPre = "builderrors"
	case len(ig.order) == 0:
		wantPre = "empty"
	case cyc:
		wantPre = "cycle"
	}
	if gf["pre"] != wantPre {
		res.Mismatches = append(res.Mismatches, fmt.Sprintf("what Run does first: model %s expected %s", gf["pre"], wantPre))
	}
	res.Class = wantPre
	// 3. Run under the controller
	ctl := rand.New(rand.NewSource(c.CtlSeed))
	curRun.Store(r)
	// the context ends either by an explicit cancel or (every other case) like a deadline: Err() is
	// context.DeadlineExceeded and only Done() tells the scheduler
	var ctx context.Context
	var cancel func()
	if c.CtlSeed%2 == 1 {
		m := &manualCtx{Context: context.Background(), done: make(chan struct{})}
		ctx, cancel = m, m.expire
	} else {
		ctx, cancel = context.WithCancel(context.Background())
	}
	defer cancel()
	runDone := make(chan error, 1)
	var g2 *dag.Graph
	if c.Shared && wantPre == "schedule" {
		// registered before any Run starts: the event hook reads r.graphs from other goroutines
		g2 = build("g2")
		r.mu.Lock()
		r.graphs[g2] = 1
		r.mu.Unlock()
	}
	if c.PreCancel {
		// the context is over before Run starts: nothing may be launched, Run returns an error
		r.mu.Lock()
		r.cancelReq = true
		r.mu.Unlock()
		cancel()
	}
	go func() { runDone <- g.Run(ctx, nil, nil) }()
	var g2done chan error
	if g2 != nil {
		g2done = make(chan error, 1)
		go func() { g2done <- g2.Run(context.WithValue(context.Background(), ctxKey("gno"), 1), nil, nil) }()
	}
	// watchdog: wake the controller regularly so that it can notice a dead run
	stopWd := make(chan struct{})
	go func() {
		for {
			select {
			case <-stopWd:
				return
			case <-time.After(2 * time.Millisecond):
				r.mu.Lock()
				r.cond.Broadcast()
				r.mu.Unlock()
			}
		}
	}()
	defer close(stopWd)
	var runErr error
	finished := false
	deadline := time.Now().Add(20 * time.Second)
	step := 0
	for !finished {
		// wait for the run to end or to become stable
		r.mu.Lock()
		for !r.stable() && !r.exited && time.Now().Before(deadline) {
			select {
			case runErr = <-runDone:
				finished = true
			default:
			}
			if finished {
				break
			}
			r.cond.Wait()
		}
		if finished {
			r.mu.Unlock()
			break
		}
		if r.exited || wantPre != "schedule" {
			r.mu.Unlock()
			select {
			case runErr = <-runDone:
				finished = true
			case <-time.After(10 * time.Second):
				res.Violations = append(res.Violations, "Run did not return after the scheduler loop ended")
				finished = true
			}
			break
		}
		if !r.stable() {
			r.violate("no progress: the scheduler neither became idle nor finished within the time limit")
			res.Events = append([]dagEvent{}, r.events...)
			res.Violations = append(res.Violations, r.violations...)
			r.mu.Unlock()
			res.Class = "stuck"
			return res
		}
		// stable: work conservation and capacity checks, then act
		blocked := []int{}
		for id, t := range r.ts {
			if t.state == "inFn" {
				blocked = append(blocked, id)
			}
		}
		sort.Ints(blocked)
		if !r.failed {
			for _, id := range ig.order {
				if _, picked := r.ts[id]; picked {
					continue
				}
				readyNow := true
				for _, ch := range ig.v[id].children {
					t := r.ts[ch]
					if t == nil || t.state != "recvd" {
						readyNow = false
					}
				}
				if readyNow && !(c.Serial && len(blocked) > 0) {
					r.violate(fmt.Sprintf("task %d has all its dependencies completed, nothing failed, the scheduler is idle, yet it was not started", id))
				}
			}
		}
		if len(blocked) == 0 {
			r.violate("deadlock: the scheduler is idle, no task is running, not all tasks are done: Run will never return")
			res.Events = append([]dagEvent{}, r.events...)
			res.Violations = append(res.Violations, r.violations...)
			r.mu.Unlock()
			res.Class = "deadlock"
			return res
		}
		if step == c.CancelAt && !r.cancelReq {
			r.cancelReq = true
			r.lastIdle = false
			r.mu.Unlock()
			cancel()
			step++
			continue
		}
		id := blocked[ctl.Intn(len(blocked))]
		t := r.ts[id]
		outs := c.Outcomes[strconv.Itoa(id)]
		outcome := "ok"
		if t.attempts-1 < len(outs) {
			outcome = outs[t.attempts-1]
		}
		t.state = "releasing"
		r.lastIdle = false
		t.release <- outcome
		r.mu.Unlock()
		step++
	}
	res.Steps = step
	if g2done != nil {
		select {
		case <-g2done:
		case <-time.After(10 * time.Second):
			res.Violations = append(res.Violations, "second graph sharing the tasks did not finish")
		}
	}
	// 3b. the same graph run again: same verdict, nothing entered a second time; then extended with
	// independent tasks under a lower limit, which the new Run has to respect
	curRun.Store((*dagRun)(nil))
	atomic.StoreInt32(&r.second, 1)
	res.Violations = append(res.Violations, r.secondRun(g, runErr, wantPre)...)
	r.mu.Lock()
	defer r.mu.Unlock()
	res.Events = append([]dagEvent{}, r.events...)
	if runErr != nil {
		res.RunErr = runErr.Error()
	}
	res.Violations = append(res.Violations, r.violations...)
	res.Violations = append(res.Violations, r.monitor(runErr, wantPre)...)
	// 4. the model must be able to perform the trace
	if wantPre == "schedule" {
		lines := []string{}
		for _, e := range r.events {
			if l := e.proto(); l != "" {
				lines = append(lines, l)
			}
		}
		lines = append(lines, "dag run")
		ans, err := d.ask(lines, 1)
		if err != nil {
			res.Mismatches = append(res.Mismatches, "driver: "+err.Error())
			return res
		}
		kind, rf := parseAnswer(ans[0])
		if kind != "R" {
			res.Mismatches = append(res.Mismatches, "driver answer "+ans[0])
		} else if _, ok := rf["accepted"]; !ok {
			i, _ := strconv.Atoi(rf["refused"])
			ev := ""
			if i < len(r.events) {
				b, _ := json.Marshal(r.events[i])
				ev = string(b)
			}
			res.Mismatches = append(res.Mismatches, fmt.Sprintf("the model cannot perform event %d of the real trace: %s", i, ev))
		} else {
			if rf["exited"] != "1" {
				res.Mismatches = append(res.Mismatches, "model: trace accepted but the run has not exited")
			}
			// error entries: model vs real
			want := entryCanon(strings.Split(rf["errs"], ";"))
			got := entryCanon(r.realEntries(runErr))
			if want != got {
				res.Mismatches = append(res.Mismatches, fmt.Sprintf("returned error entries: model %q real %q", want, got))
			}
		}
	}
	return res
}

func (r *dagRun) secondRun(g *dag.Graph, runErr error, pre string) []string {
	var v []string
	run := func() (error, bool) {
		ch := make(chan error, 1)
		go func() { ch <- g.Run(context.Background(), nil, nil) }()
		select {
		case e := <-ch:
			return e, true
		case <-time.After(10 * time.Second):
			return nil, false
		}
	}
	e2, ok := run()
	if !ok {
		return []string{"a second Run of the finished graph does not return"}
	}
	if (e2 == nil) != (runErr == nil) {
		v = append(v, fmt.Sprintf("the first Run of the graph returned %v, a second Run of the same graph %v", runErr, e2))
	}
	if n := atomic.LoadInt32(&r.secondEntered); n > 0 {
		v = append(v, fmt.Sprintf("%d task functions entered again by a second Run of the finished graph", n))
	}
	if pre != "schedule" || runErr != nil || e2 != nil {
		return v
	}
	m := 1 + int(r.c.CtlSeed>>3)%2
	g.SetMaxParallel(m)
	limit := m
	if r.c.Serial {
		limit = 1
	}
	var now, max, ran, early int32
	// the first three new tasks form a chain x0 <- x1 <- x2 (a graph extended after a Run gets new edges too)
	finished := make([]int32, m+3)
	tasks := make([]*dag.Task, m+3)
	for i := 0; i < m+3; i++ {
		i := i
		tasks[i] = dag.NewTask(fmt.Sprintf("x%d", i), func(ctx context.Context, opt *getoptions.GetOpt, args []string) error {
			if (i == 1 || i == 2) && atomic.LoadInt32(&finished[i-1]) == 0 {
				atomic.AddInt32(&early, 1)
			}
			defer atomic.StoreInt32(&finished[i], 1)
			n := atomic.AddInt32(&now, 1)
			for {
				mx := atomic.LoadInt32(&max)
				if n <= mx || atomic.CompareAndSwapInt32(&max, mx, n) {
					break
				}
			}
			time.Sleep(300 * time.Microsecond)
			atomic.AddInt32(&now, -1)
			atomic.AddInt32(&ran, 1)
			return nil
		})
	}
	for i := m + 2; i >= 3; i-- {
		g.AddTask(tasks[i])
	}
	g.TaskDependsOn(tasks[2], tasks[1])
	g.TaskDependsOn(tasks[1], tasks[0])
	e3, ok := run()
	if early > 0 {
		v = append(v, fmt.Sprintf("Run of the extended graph: %d task functions entered before the task they depend on had returned", early))
	}
	switch {
	case !ok:
		v = append(v, "Run of the extended graph does not return")
	case e3 != nil:
		v = append(v, fmt.Sprintf("Run of the graph extended with independent tasks returned %v", e3))
	case int(ran) != m+3:
		v = append(v, fmt.Sprintf("Run of the extended graph executed %d of the %d new tasks", ran, m+3))
	case int(max) > limit:
		v = append(v, fmt.Sprintf("second Run: %d task functions executing at once, limit %d", max, limit))
	}
	return v
}

func entryCanon(l []string) string {
	out := []string{}
	for _, e := range l {
		if e != "" {
			out = append(out, e)
		}
	}
	sort.Strings(out)
	return strings.Join(out, ";")
}

// entries of the *Errors value Run returned, classified
func (r *dagRun) realEntries(err error) []string {
	if err == nil {
		return nil
	}
	var es *dag.Errors
	if !errors.As(err, &es) {
		return []string{"not-an-Errors-value: " + err.Error()}
	}
	out := []string{}
	for _, e := range es.Errors {
		own := -1
		for t, te := range r.taskErrs {
			if errors.Is(e, te) {
				own = t
			}
		}
		switch {
		case own >= 0:
			// the error a task function returned (it may itself wrap ErrorTaskSkipped or a context error)
			out = append(out, "task:"+strconv.Itoa(own))
		case errors.Is(e, dag.ErrorTaskSkipped):
			out = append(out, "skipped:"+r.taskOfMsg(e.Error()))
		case strings.Contains(e.Error(), "cancellation received"):
			out = append(out, "cancelled")
		default:
			out = append(out, "task:?")
		}
	}
	return out
}

// taskOfMsg: the task an entry "Task g:<id> error: ..." speaks about (the longest ID that fits: IDs may
// contain blanks and colons)
func (r *dagRun) taskOfMsg(m string) string {
	best, bestLen := "?", -1
	for id := range r.sharedNow {
		nm := r.c.tname(id)
		if strings.HasPrefix(m, "Task g:"+nm+" error:") && len(nm) > bestLen {
			best, bestLen = strconv.Itoa(id), len(nm)
		}
	}
	return best
}

// monitor evaluates C13-C16 directly on the recorded trace and the returned error
func (r *dagRun) monitor(runErr error, pre string) []string {
	var v []string
	ig := r.ig
	started := map[int]bool{}
	finalRes := map[int]string{}
	attempts := map[int]int{}
	running := map[int]bool{}
	nRunning, maxRunning := 0, 0
	cancelIdx := -1
	for i, e := range r.events {
		switch e.Kind {
		case "cancel":
			cancelIdx = i
		case "pickReal":
			if cancelIdx >= 0 {
				v = append(v, fmt.Sprintf("task %d launched after the cancellation had been observed", e.V))
			}
		case "enter":
			if e.K == 0 {
				if started[e.V] {
					v = append(v, fmt.Sprintf("task %d entered a second time from the start", e.V))
				}
				for _, d := range ig.v[e.V].children {
					if finalRes[d] != "ok" {
						v = append(v, fmt.Sprintf("task %d entered although its dependency %d has not returned nil (state %q)", e.V, d, finalRes[d]))
					}
				}
			} else {
				if attempts[e.V] != e.K {
					v = append(v, fmt.Sprintf("task %d attempt %d out of sequence", e.V, e.K))
				}
				if e.K > ig.v[e.V].retries {
					v = append(v, fmt.Sprintf("task %d entered %d times with %d retries", e.V, e.K+1, ig.v[e.V].retries))
				}
			}
			if _, done := finalRes[e.V]; done {
				v = append(v, fmt.Sprintf("task %d entered again after its final attempt", e.V))
			}
			if running[e.V] {
				v = append(v, fmt.Sprintf("task %d entered while it is already executing", e.V))
			}
			started[e.V] = true
			running[e.V] = true
			nRunning++
			if nRunning > maxRunning {
				maxRunning = nRunning
			}
		case "leave":
			running[e.V] = false
			nRunning--
			attempts[e.V] = e.K + 1
			if e.R == "ok" || e.K >= ig.v[e.V].retries {
				finalRes[e.V] = e.R
			}
		}
	}
	if pre != "schedule" {
		if len(started) > 0 {
			v = append(v, "tasks were started although the graph definition must be rejected up front")
		}
		switch pre {
		case "builderrors":
			if runErr == nil {
				v = append(v, "Run returned nil although the graph definition recorded errors")
			}
		case "cycle":
			if !errors.Is(runErr, dag.ErrorGraphHasCycle) {
				v = append(v, fmt.Sprintf("graph with a cycle and an otherwise error-free definition: Run returned %v, want ErrorGraphHasCycle", runErr))
			}
		case "empty":
			if runErr != nil {
				v = append(v, "empty graph: Run returned an error")
			}
		}
		return v
	}
	limit := r.maxPar()
	if r.c.Serial {
		limit = 1
	}
	if maxRunning > limit || int(r.maxInFn) > limit {
		v = append(v, fmt.Sprintf("%d task functions executing at once, limit %d", maxRunning, limit))
	}
	// final report
	failed, skipSrc := []int{}, []int{}
	for id, res := range finalRes {
		if res == "err" {
			failed = append(failed, id)
		}
		if res == "skip" {
			skipSrc = append(skipSrc, id)
		}
	}
	skipMarked := map[int]bool{}
	for _, s := range skipSrc {
		for a := range ig.ancestors(s) {
			skipMarked[a] = true
		}
	}
	for _, f := range failed {
		for a := range ig.ancestors(f) {
			if started[a] {
				v = append(v, fmt.Sprintf("task %d started although %d, which it depends on, failed", a, f))
			}
		}
	}
	for a := range skipMarked {
		if started[a] && finalRes[a] == "" {
			v = append(v, fmt.Sprintf("task %d is running although a task it depends on returned ErrorSkipParents", a))
		}
	}
	entries := r.realEntries(runErr)
	has := func(e string) bool {
		for _, x := range entries {
			if x == e {
				return true
			}
		}
		return false
	}
	count := map[string]int{}
	for _, e := range entries {
		count[e]++
		if count[e] > 1 {
			v = append(v, "duplicate entry in the returned error: "+e)
		}
	}
	anyFailure := len(failed) > 0 || cancelIdx >= 0
	if cancelIdx >= 0 && runErr == nil {
		v = append(v, "cancellation was observed but Run returned nil")
	}
	if cancelIdx >= 0 && !has("cancelled") {
		v = append(v, "cancellation was observed but is not reported")
	}
	for _, f := range failed {
		if !has("task:" + strconv.Itoa(f)) {
			v = append(v, fmt.Sprintf("task %d failed but the returned error has no entry wrapping its error", f))
		}
	}
	for _, id := range ig.order {
		key := "skipped:" + strconv.Itoa(id)
		switch {
		case started[id]:
			if has(key) {
				v = append(v, fmt.Sprintf("task %d was started and is reported as skipped", id))
			}
		case skipMarked[id]:
			// depends on an ErrorSkipParents task: not reported (a task that also depends on a failed task may go either way)
			dependsOnFailed := false
			for _, f := range failed {
				if ig.ancestors(f)[id] {
					dependsOnFailed = true
				}
			}
			_ = dependsOnFailed
			if has(key) && !anyFailure {
				v = append(v, fmt.Sprintf("task %d was skipped through ErrorSkipParents but is reported as an error", id))
			}
		default:
			if anyFailure && !has(key) {
				v = append(v, fmt.Sprintf("task %d was never started but the returned error has no ErrorTaskSkipped entry for it", id))
			}
			if !anyFailure {
				v = append(v, fmt.Sprintf("task %d was never started although nothing failed", id))
			}
		}
	}
	if !anyFailure && runErr != nil {
		v = append(v, fmt.Sprintf("no task failed and nothing was cancelled but Run returned %v", runErr))
	}
	if anyFailure && runErr == nil {
		v = append(v, "a task failed (or the run was cancelled) but Run returned nil")
	}
	for _, e := range entries {
		if strings.HasPrefix(e, "task:") {
			id, _ := strconv.Atoi(strings.TrimPrefix(e, "task:"))
			if finalRes[id] != "err" {
				v = append(v, "entry for a task that did not fail: "+e)
			}
		}
		if strings.HasPrefix(e, "not-an-Errors-value") {
			v = append(v, e)
		}
	}
	// buffered output: one Write per attempt, each a whole block
	if r.c.Buffer {
		for _, w := range r.writes {
			if !wholeBlocks(w) {
				v = append(v, fmt.Sprintf("buffered output reached the writer in pieces: %q", w))
				break
			}
		}
		if strings.Count(strings.Join(r.writes, ""), "<") != len(r.events)-len(r.events)+countKind(r.events, "enter") {
			v = append(v, "buffered output of some attempt is missing or duplicated")
		}
	}
	return v
}

func countKind(ev []dagEvent, k string) int {
	n := 0
	for _, e := range ev {
		if e.Kind == k {
			n++
		}
	}
	return n
}

// a block is "<id.id>" ; a Write must consist of whole blocks of one task
func wholeBlocks(w string) bool {
	for len(w) > 0 {
		if w[0] != '<' {
			return false
		}
		i := strings.Index(w, ">")
		if i < 0 {
			return false
		}
		inner := strings.ReplaceAll(w[1:i], "z", "")
		p := strings.SplitN(inner, ".", 2)
		if len(p) != 2 || p[0] != p[1] {
			return false
		}
		w = w[i+1:]
	}
	return true
}

// ---- generation ----

func genDagCase(r *rand.Rand, id int, prop string) *DagCase {
	c := &DagCase{Dag: true, Prop: prop, ID: id, Outcomes: map[string][]string{}, CancelAt: -1, CtlSeed: r.Int63()}
	n := 1 + r.Intn(7)
	if r.Intn(10) == 0 {
		n = 8 + r.Intn(5)
	}
	shape := ""
	switch x := r.Intn(200); {
	case x < 3:
		n, shape = 18+r.Intn(12), "fan" // one task with more than 16 dependents
	case x < 6:
		n, shape = 18+r.Intn(12), "chain" // a dependency chain longer than 16
	case x < 7:
		n = 66 + r.Intn(14) // more than 64 tasks
	}
	ref := func(i int) TRef { return TRef{ID: i} }
	messy := r.Intn(100) < 25 // histories with re-adds, duplicate edges, bad tasks
	cyclic := r.Intn(100) < 8
	for i := 1; i <= n; i++ {
		if r.Intn(3) > 0 {
			c.Ops = append(c.Ops, DagOp{Op: "add", T: ref(i)})
		}
	}
	// edges: i depends on j < i (acyclic)
	for i := 2; i <= n; i++ {
		var deps []TRef
		for j := 1; j < i; j++ {
			if r.Float64() < 2.0/float64(i) {
				deps = append(deps, ref(j))
			}
		}
		switch shape {
		case "fan":
			deps = append(deps, ref(1))
		case "chain":
			deps = append(deps, ref(i-1))
		}
		if len(deps) > 0 {
			r.Shuffle(len(deps), func(a, b int) { deps[a], deps[b] = deps[b], deps[a] })
			if r.Intn(3) == 0 && len(deps) > 1 {
				c.Ops = append(c.Ops, DagOp{Op: "dep", T: ref(i), Deps: deps[:1]})
				c.Ops = append(c.Ops, DagOp{Op: "dep", T: ref(i), Deps: deps[1:]})
			} else {
				c.Ops = append(c.Ops, DagOp{Op: "dep", T: ref(i), Deps: deps})
			}
		}
	}
	if cyclic && n >= 2 {
		a := 1 + r.Intn(n)
		b := 1 + r.Intn(n)
		if a > b {
			a, b = b, a
		}
		c.Ops = append(c.Ops, DagOp{Op: "dep", T: ref(a), Deps: []TRef{ref(b)}}) // a == b: self edge
	}
	if messy {
		k := 1 + r.Intn(4)
		for i := 0; i < k; i++ {
			pos := r.Intn(len(c.Ops) + 1)
			var op DagOp
			switch r.Intn(7) {
			case 0, 1:
				op = DagOp{Op: "add", T: TRef{ID: 1 + r.Intn(n), Fresh: r.Intn(2) == 0}} // re-add, possibly a new Task object
			case 2:
				op = DagOp{Op: "dep", T: ref(1 + r.Intn(n)), Deps: []TRef{ref(1 + r.Intn(n))}} // maybe duplicate / cycle
			case 3:
				op = DagOp{Op: "add", T: TRef{Nil: true}}
			case 4:
				op = DagOp{Op: "add", T: TRef{ID: 0}}
			case 5:
				op = DagOp{Op: "dep", T: ref(1 + r.Intn(n)), Deps: []TRef{{ID: n + 1, NoFn: true}, ref(1 + r.Intn(n))}}
			case 6:
				op = DagOp{Op: "retries", T: TRef{ID: n + 2}, N: 1}
			}
			c.Ops = append(c.Ops[:pos], append([]DagOp{op}, c.Ops[pos:]...)...)
		}
	}
	if r.Intn(5) == 0 && len(c.Ops) > 1 {
		pos := 1 + r.Intn(len(c.Ops)-1)
		c.Ops = append(c.Ops[:pos], append([]DagOp{{Op: "sort"}}, c.Ops[pos:]...)...)
	}
	// make sure the order of the edge calls varies
	if r.Intn(4) == 0 {
		r.Shuffle(len(c.Ops), func(a, b int) { c.Ops[a], c.Ops[b] = c.Ops[b], c.Ops[a] })
	}
	for i := 1; i <= n; i++ {
		retries := 0
		if r.Intn(5) == 0 {
			retries = 1 + r.Intn(2)
			if r.Intn(6) == 0 {
				retries = 3 + r.Intn(3)
			}
			c.Ops = append(c.Ops, DagOp{Op: "retries", T: ref(i), N: retries})
		} else if r.Intn(40) == 0 {
			c.Ops = append(c.Ops, DagOp{Op: "retries", T: ref(i), N: -1 - r.Intn(2)})
		} else if r.Intn(40) == 0 {
			// "retry for ever": the largest int and its neighbours, 32-bit boundaries (the task succeeds after
			// at most three attempts: attempts past the listed outcomes return nil)
			retries = 1 + r.Intn(2)
			c.Ops = append(c.Ops, DagOp{Op: "retries", T: ref(i), N: []int{math.MaxInt, math.MaxInt - 1, math.MaxInt32, math.MaxInt32 + 1, 1 << 32}[r.Intn(5)]})
		}
		var outs []string
		for k := 0; k <= retries; k++ {
			x := r.Intn(100)
			switch {
			case x < 72:
				outs = append(outs, "ok")
			case x < 88:
				outs = append(outs, "err")
			default:
				outs = append(outs, "skip")
			}
		}
		if retries > 0 && r.Intn(2) == 0 {
			outs[0] = "err" // fail then maybe succeed
		}
		c.Outcomes[strconv.Itoa(i)] = outs
	}
	switch r.Intn(6) {
	case 0:
		c.Serial = true
	case 1, 2:
		c.Max = 1 + r.Intn(3)
	}
	c.Buffer = r.Intn(4) == 0
	c.BadOut = r.Intn(5) == 0
	c.PreCancel = r.Intn(40) == 0
	c.BigOut = r.Intn(5) == 0
	c.Names = r.Intn(5) == 0 && n < len(idWords)
	if r.Intn(6) == 0 {
		c.CancelAt = r.Intn(n + 1)
	}
	c.Shared = r.Intn(8) == 0 && !messy && !cyclic
	// the rest of the construction API: *Task arguments written as g.Task(id) (the README idiom: tasks added
	// first, edges by look-up; a look-up of an ID that is not - or not yet - in the graph is a definition error),
	// tasks kept in a TaskMap (tm.Add / tm.Get, duplicates, unknown IDs), Validate(tm)
	if x := r.Intn(100); x < 22 {
		conv := func(t *TRef, src string, p int) {
			if !t.Nil && !t.Fresh && r.Intn(100) < p {
				t.Src = src
			}
		}
		src, p := "g", 25+r.Intn(60)
		if x < 9 {
			src, c.WithTM = "m", true
			// the map is filled first, mostly with every task
			var adds []DagOp
			for i := 1; i <= n; i++ {
				if r.Intn(12) > 0 {
					adds = append(adds, DagOp{Op: "tmadd", T: TRef{ID: i}})
				}
			}
			if r.Intn(4) == 0 {
				bad := []DagOp{{Op: "tmadd", T: TRef{ID: 1 + r.Intn(n)}}, {Op: "tmadd", T: TRef{ID: 0}}, {Op: "tmadd", T: TRef{ID: 1 + r.Intn(n), NoFn: true}}}[r.Intn(3)]
				pos := r.Intn(len(adds) + 1)
				adds = append(adds[:pos], append([]DagOp{bad}, adds[pos:]...)...)
			}
			c.Ops = append(adds, c.Ops...)
		}
		seen := map[int]bool{}
		for i := range c.Ops {
			if c.Ops[i].Op == "tmadd" || c.Ops[i].Op == "sort" {
				continue
			}
			known := seen[c.Ops[i].T.ID]
			seen[c.Ops[i].T.ID] = true
			for _, d := range c.Ops[i].Deps {
				seen[d.ID] = true
			}
			if src == "g" && c.Ops[i].Op == "add" && (!known || r.Intn(2) == 0) {
				// AddTask(g.Task(id)) only makes sense as a re-add: the first AddTask of an ID gives the task itself
				continue
			}
			conv(&c.Ops[i].T, src, p)
			for j := range c.Ops[i].Deps {
				conv(&c.Ops[i].Deps[j], src, p)
			}
		}
		if r.Intn(3) == 0 {
			pos := r.Intn(len(c.Ops) + 1)
			op := DagOp{Op: "lookup", T: TRef{ID: 1 + r.Intn(n+1), Src: src}}
			c.Ops = append(c.Ops[:pos], append([]DagOp{op}, c.Ops[pos:]...)...)
		}
		c.WithAPI = src == "m"
	}
	readd := func() {
		// a task redefined with a new *Task object (same ID) somewhere in the history: the graphs
		// sharing their tasks share the redefined object too
		if c.Shared && r.Intn(2) == 0 {
			for k := 0; k < 1+r.Intn(2); k++ {
				pos := r.Intn(len(c.Ops) + 1)
				op := DagOp{Op: "add", T: TRef{ID: 1 + r.Intn(n), Fresh: true}}
				c.Ops = append(c.Ops[:pos], append([]DagOp{op}, c.Ops[pos:]...)...)
			}
		}
	}
	switch prop {
	case "C15":
		if c.Max == 0 && !c.Serial {
			c.Max = 1 + r.Intn(3)
		}
		c.Buffer = r.Intn(2) == 0
		c.Shared = r.Intn(3) == 0 && !messy && !cyclic
		readd()
	case "C14":
		if r.Intn(3) == 0 {
			c.CancelAt = r.Intn(n + 1)
		}
	}
	if c.WithAPI {
		// tasks made by tm.Add are private to each graph built from the history: no pair of graphs sharing them
		c.Shared = false
	}
	return c
}

type DagFailure struct {
	DagCase
	Result *DagResult `json:"result"`
}

func runDag(prop string, seed int64, n int, driverPath, outPath string, maxFail int, file string) int {
	start := time.Now()
	installDagHook()
	d, err := startDriver(driverPath)
	if err != nil {
		fmt.Fprintln(os.Stderr, "cannot start driver:", err)
		return 2
	}
	defer d.close()
	if file != "" {
		b, err := ioutil.ReadFile(file)
		if err != nil {
			fmt.Fprintln(os.Stderr, err)
			return 2
		}
		var f DagFailure
		var wrapped struct {
			Case *DagCase `json:"case"`
		}
		if json.Unmarshal(b, &wrapped) == nil && wrapped.Case != nil {
			f.DagCase = *wrapped.Case
		} else if err := json.Unmarshal(b, &f); err != nil {
			fmt.Fprintln(os.Stderr, err)
			return 2
		}
		res := runDagCase(&f.DagCase, d)
		ob, _ := json.MarshalIndent(res, "", " ")
		fmt.Println(string(ob))
		if len(res.Violations) > 0 || len(res.Mismatches) > 0 {
			return 1
		}
		return 0
	}
	r := rand.New(rand.NewSource(seed))
	rep := map[string]interface{}{}
	var failures []DagFailure
	classes := map[string]int{}
	sigs := map[string]bool{}
	evals, traces, events := 0, 0, 0
	var samples []*DagCase
	for i := 0; i < n; i++ {
		c := genDagCase(r, i, prop)
		res := runDagCase(c, d)
		evals++
		classes[res.Class]++
		if res.Class == "schedule" {
			traces++
		}
		events += len(res.Events)
		var sb bytes.Buffer
		for _, e := range res.Events {
			sb.WriteString(e.Kind[:2])
			sb.WriteString(strconv.Itoa(e.V))
			sb.WriteString(e.R)
		}
		sigs[sb.String()+res.Class+fmt.Sprint(len(c.Ops))] = true
		if len(res.Violations) > 0 || len(res.Mismatches) > 0 {
			failures = append(failures, DagFailure{*c, res})
			if len(failures) >= maxFail || res.Class == "deadlock" || res.Class == "stuck" {
				break
			}
		}
		if len(samples) < 2 && len(res.Events) > 6 {
			samples = append(samples, c)
		}
	}
	rep["prop"] = prop
	rep["seed"] = seed
	rep["evaluations"] = evals
	rep["distinct_nontrivial"] = len(sigs)
	rep["outcome_distribution"] = classes
	rep["traces_validated_against_impl"] = traces
	rep["events"] = events
	rep["samples"] = samples
	rep["wall_s"] = time.Since(start).Seconds()
	// failures in the report format of the parser legs
	var fl []map[string]interface{}
	for _, f := range failures {
		m := map[string]interface{}{"case": f.DagCase, "result": f.Result}
		if len(f.Result.Violations) > 0 {
			m["oracle"] = f.Result.Violations[0]
		}
		var mm []Mismatch
		for _, s := range f.Result.Mismatches {
			mm = append(mm, Mismatch{Cat: "dag", Field: "model-vs-real", Model: s})
		}
		m["mismatches"] = mm
		fl = append(fl, m)
	}
	rep["failures"] = fl
	b, _ := json.MarshalIndent(rep, "", " ")
	if outPath == "" {
		fmt.Println(string(b))
	} else {
		ioutil.WriteFile(outPath, b, 0o644)
	}
	if len(failures) > 0 {
		return 1
	}
	return 0
}

import json,sys
r=json.load(open(sys.argv[1]))
print(r['evaluations'],r['distinct_nontrivial'],r['other_category_disagreements'],round(r['wall_s'],2))
print(r['outcome_distribution'])
for f in (r['failures'] or []):
    c=f['case']
    print('ARGS',c['args'], 'COMP' if c.get('comp') else '', repr(c.get('compline')), 'zsh' if c.get('zsh') else '')
    for op in c['script']: print('   ',json.dumps(op,ensure_ascii=False))
    print('   env',c.get('env'))
    if f.get('oracle'): print('  ORACLE',f['oracle'])
    for m in (f.get('mismatches') or [])[:6]: print('  MM',json.dumps(m,ensure_ascii=False))

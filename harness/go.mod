module verif/harness

go 1.16

require github.com/DavidGamba/go-getoptions v0.0.0

replace github.com/DavidGamba/go-getoptions => /repo
